/-
  SparseV.Model.Big — sparse-safe variants of the two model functions whose *evaluation strategy* is
  quadratic or deeper than the stack on arrays with 10^6-long axes (property C16: the model is the
  sparse oracle on shapes whose dense form cannot exist):

  * `indptrOf rows R` evaluates `countLt rows k` for every `k ≤ R` (R · nnz steps);
    `indptrOfBig` sweeps the sorted row numbers once (R + nnz steps, tail recursive).
  * `uncompress indptr` indexes a list by position inside a loop (R² steps);
    `uncompressBig` walks the pointer list once.

  `SparseV/Lemmas/Big.lean` proves `indptrOfBig rows R = indptrOf rows R` for sorted `rows` and
  `uncompressBig p = uncompress p` for every `p`, so `GCXS.fromCooBig` / `GCXS.tocooBig` below are the
  same functions as `GCXS.fromCoo` / `GCXS.tocoo`, evaluated differently.
-/
import SparseV.Model.Gcxs
namespace SparseV

/-- sweep: for `k = k0, k0+1, …` (n values) emit `c + #{r ∈ rest | r < k}`; `rest` sorted increasingly -/
def indptrSweep : Nat → Nat → List Nat → Nat → List Nat
  | 0, _, _, _ => []
  | n + 1, k, rest, c =>
    let c' := c + (rest.takeWhile (· < k)).length
    c' :: indptrSweep n (k + 1) (rest.dropWhile (· < k)) c'

/-- the same sweep with an accumulator (the compiled driver runs this one: 10^6 steps deep) -/
def indptrSweepTR : Nat → Nat → List Nat → Nat → List Nat → List Nat
  | 0, _, _, _, acc => acc.reverse
  | n + 1, k, rest, c, acc =>
    let c' := c + (rest.takeWhile (· < k)).length
    indptrSweepTR n (k + 1) (rest.dropWhile (· < k)) c' (c' :: acc)

def indptrOfBig (rows : List Nat) (R : Nat) : List Nat := indptrSweepTR (R + 1) 0 rows 0 []

/-- walk the pointer list: row `i` is repeated `p[i+1] - p[i]` times -/
def uncompressGo : Nat → List Nat → List Nat
  | i, a :: b :: rest => List.replicate (b - a) i ++ uncompressGo (i + 1) (b :: rest)
  | _, _ => []

def uncompressGoTR : Nat → List Nat → List Nat → List Nat
  | i, a :: b :: rest, acc => uncompressGoTR (i + 1) (b :: rest) (List.replicate (b - a) i ++ acc)
  | _, _, acc => acc.reverse

def uncompressBig (indptr : List Nat) : List Nat := uncompressGoTR 0 indptr []

namespace GCXS
variable {α : Type}

/-- `fromCooCore` with `indptrOfBig` -/
def fromCooCoreBig (x : COO α) (caxes : List Nat) : GCXS α :=
  let order := axisOrder x.shape.length caxes
  let rshape := COO.gather x.shape order
  let rowSize := prod (rshape.take caxes.length)
  let colSize := prod (rshape.drop caxes.length)
  let lin : List (Nat × α) := x.entries.map fun e => (ravel (COO.gather e.1 order) rshape, e.2)
  let sorted := lin.mergeSort fun a b => decide (a.1 ≤ b.1)
  let rows := sorted.map fun e => e.1 / colSize
  { shape := x.shape, caxes := some caxes,
    indptr := indptrOfBig rows rowSize,
    indices := sorted.map fun e => e.1 % colSize,
    data := sorted.map (·.2), fill := x.fill }

/-- `fromCoo` with `fromCooCoreBig` (same validation) -/
def fromCooBig (x : COO α) (caxes : Option (List Nat)) : Except Err (GCXS α) :=
  match x.shape.length with
  | 0 => fromCoo x caxes
  | 1 => fromCoo x caxes
  | n + 2 =>
    match caxes with
    | none =>
      let m := x.shape.foldl min (x.shape.getD 0 0)
      .ok (fromCooCoreBig x [x.shape.idxOf m])
    | some c =>
      if c.length ≥ n + 2 then .error .value
      else if !(c.Pairwise (· < ·)) then .error .value
      else if c.any (· ≥ n + 2) then .error .value
      else .ok (fromCooCoreBig x c)

/-- `tocoo` with `uncompressBig` -/
def tocooBig [Add α] [DecidableEq α] (g : GCXS α) : COO α :=
  match g.caxes with
  | none => g.tocoo
  | some caxes =>
    let order := axisOrder g.shape.length caxes
    let rshape := COO.gather g.shape order
    let rowSize := prod (rshape.take caxes.length)
    let colSize := prod (rshape.drop caxes.length)
    let rows := uncompressBig g.indptr
    let es : List (Idx × α) := ((rows.zip g.indices).zip g.data).map fun p => ([p.1.1, p.1.2], p.2)
    let c2 := COO.build [rowSize, colSize] es g.fill
    (c2.reshapeCore rshape).transposeCore (invPerm order)

end GCXS
end SparseV

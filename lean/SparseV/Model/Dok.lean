/-
  SparseV.Model.Dok — executable model of `sparse.DOK` item assignment and reads
  (`sparse/numba_backend/_dok.py`: `__setitem__`, `_setitem`, `_fancy_setitem`, `__getitem__` on full
  integer keys, `_fancy_getitem`, `nnz`).  Core Lean only: linked into `svdriver`.

  The state is the Python dict `DOK.data` as an insertion-ordered association list
  (`data[k] = v` on an existing key keeps its position, a new key is appended, `del data[k]` removes
  it).  Keys are tuples of Python ints, so `DKey = List Int` (a model with natural-number keys could not
  have expressed the raw negative keys `_fancy_setitem` stored before /repo commit 6ad05a9; today every
  path normalises its indices first and the theorems show that only in-range keys are ever stored).

  Slice bounds come from a parameter `bounds` so that the theorems can be stated once for every
  bounds function; the model of the code is the instance `bounds := Gen.dokSliceBounds`, which
  `tools/py2lean.py` regenerates from `DOK._setitem` on every run.
-/
import SparseV.Model.Slice
import SparseV.Spec.Slice
import SparseV.Generated.Dok
namespace SparseV

/-- a key of `DOK.data`: a tuple of Python ints -/
abbrev DKey := List Int

/-- `np.asarray(value)`: shape and row-major data -/
structure Val (α : Type) where
  shape : List Nat
  flat : List α
  deriving Repr

namespace Val
variable {α : Type}

/-- a 0-d value -/
def scalar (x : α) : Val α := ⟨[], [x]⟩

/-- `value[i]` for a value of rank ≥ 1 -/
def sub (v : Val α) (i : Nat) : Val α :=
  ⟨v.shape.tail, (v.flat.drop (i * prod v.shape.tail)).take (prod v.shape.tail)⟩

/-- `value[0] if value.shape[0] == 1 else value[v_idx]`; `IndexError` when `v_idx` is out of range
(and for a 0-d value, which has no `shape[0]`) -/
def pick (v : Val α) (vidx : Nat) : Except Err (Val α) :=
  match v.shape with
  | [] => .error .index
  | n :: _ => if n = 1 then .ok (v.sub 0) else if vidx < n then .ok (v.sub vidx) else .error .index

end Val

/-- one entry of an index tuple as the caller writes it -/
inductive KeyPart where
  | int (n : Int)
  | slice (start stop step : Option Int)
  deriving Repr, DecidableEq

/-- one entry after `normalize_index`: an in-range non-negative int, or a slice of three ints -/
inductive NPart where
  | int (n : Int)
  | slice (start stop step : Int)
  deriving Repr, DecidableEq

/-- The DOK array: shape, the dict in insertion order, fill value. -/
structure DOK (α : Type) where
  shape : List Nat
  entries : List (DKey × α)
  fill : α
  deriving Repr

namespace Dok
variable {α : Type}

/-! ### the dict -/

/-- `data.get(k, d)` -/
def alookup (es : List (DKey × α)) (d : α) (k : DKey) : α :=
  match es with
  | [] => d
  | e :: es => if e.1 = k then e.2 else alookup es d k

/-- `data[k] = x` -/
def upsert : List (DKey × α) → DKey → α → List (DKey × α)
  | [], k, x => [(k, x)]
  | e :: es, k, x => if e.1 = k then (k, x) :: es else e :: upsert es k x

/-- `del data[k]` (no-op when absent) -/
def erase (es : List (DKey × α)) (k : DKey) : List (DKey × α) :=
  es.filter fun e => ¬ e.1 = k

/-- the leaf of `_setitem` / the loop body of `_fancy_setitem`:
store unless the value is the fill value, in which case delete -/
def store [DecidableEq α] (fill : α) (es : List (DKey × α)) (k : DKey) (x : α) : List (DKey × α) :=
  if x = fill then erase es k else upsert es k x

/-! ### `normalize_index` restricted to keys of ints and slices -/

/-- missing trailing entries become full slices -/
def padKey (key : List KeyPart) (ndim : Nat) : List KeyPart :=
  key ++ List.replicate (ndim - key.length) (.slice none none none)

/-- one entry: `check_index`, `posify_index` for ints; `replace_none`, `posify_index`, `clip_slice`
for slices (both composed from the generated definitions in `Model/Slice.lean`) -/
def normPart (p : KeyPart) (d : Nat) : Except Err (NPart × Int) :=
  match p with
  | .int n =>
    match normalizeInt n d with
    | .error e => .error e
    | .ok m => .ok (.int m, d)
  | .slice a b c =>
    let t := normalizeSlice a b c d
    .ok (.slice t.1 t.2.1 t.2.2, d)

def normParts : List KeyPart → List Nat → Except Err (List (NPart × Int))
  | [], [] => .ok []
  | p :: ps, d :: ds =>
    match normPart p d with
    | .error e => .error e
    | .ok x =>
      match normParts ps ds with
      | .error e => .error e
      | .ok xs => .ok (x :: xs)
  | _, _ => .error .internal

/-- `normalize_index(key, shape)`: every entry paired with the extent of its axis -/
def normalizeKey (key : List KeyPart) (shape : List Nat) : Except Err (List (NPart × Int)) :=
  if key.length > shape.length then .error .index   -- "Too many indices for array"
  else normParts (padKey key shape.length) shape

/-! ### `_setitem` -/

def nSlices : List (NPart × Int) → Nat
  | [] => 0
  | (.int _, _) :: r => nSlices r
  | (.slice _ _ _, _) :: r => nSlices r + 1

/-- result of an assignment: the dict afterwards and the exception raised, if any (an exception
raised half-way leaves the elements stored so far) -/
abbrev Res (α : Type) := List (DKey × α) × Option Err

/-- `for v_idx, ki in enumerate(...)`, leaving the loop at the first exception -/
def loopS {σ : Type} (f : Int → Nat → σ → σ × Option Err) : List Int → Nat → σ → σ × Option Err
  | [], _, s => (s, none)
  | k :: ks, i, s =>
    match f k i s with
    | (s', some e) => (s', some e)
    | (s', none) => loopS f ks (i + 1) s'

/-- `DOK._setitem(key_list, value)`.  `pre` is the part of `key_list` already known to be integers
(the loop `for i, ind in enumerate(key_list)` walks over it), the head of the list is `key_list[i]`.
At the first slice the bounds are recomputed (`bounds`, generated from the source), the slice is
replaced by each `ki in range(start, stop, step)` in turn and the method recurses with
`value` itself (`value_missing_dims > 0`) or `value[0]` / `value[v_idx]`.  With no slice left the
element is stored, or deleted when it equals the fill value. -/
def setRec [DecidableEq α] (bounds : Option Int → Option Int → Option Int → Int → Int × Int × Int)
    (fill : α) : List (NPart × Int) → DKey → Val α → List (DKey × α) → Res α
  | [], pre, v, es =>
    if 0 < v.shape.length then (es, some .value)   -- "setting an array element with a sequence."
    else
      match v.flat with
      | x :: _ => (store fill es pre x, none)
      | [] => (es, some .internal)
  | (.int n, _) :: rest, pre, v, es => setRec bounds fill rest (pre ++ [n]) v es
  | (.slice a b c, dim) :: rest, pre, v, es =>
    if nSlices rest + 1 < v.shape.length then (es, some .value)
    else
      let r := bounds (some a) (some b) (some c) dim
      if r.2.2 = 0 then (es, some .value)   -- range() arg 3 must not be zero
      else
        loopS (fun ki vidx es =>
          if v.shape.length < nSlices rest + 1 then setRec bounds fill rest (pre ++ [ki]) v es
          else
            match v.pick vidx with
            | .error e => (es, some e)
            | .ok vi => setRec bounds fill rest (pre ++ [ki]) vi es)
          (Spec.rangeOf r) 0 es

/-- `DOK.__setitem__` for a key of ints and slices: the array afterwards and the exception, if any -/
def setitemWith [DecidableEq α] (bounds : Option Int → Option Int → Option Int → Int → Int × Int × Int)
    (d : DOK α) (key : List KeyPart) (v : Val α) : DOK α × Option Err :=
  match normalizeKey key d.shape with
  | .error e => (d, some e)
  | .ok nk =>
    let r := setRec bounds d.fill nk [] v d.entries
    ({ d with entries := r.1 }, r.2)

/-- the model of the code: bounds as `DOK._setitem` computes them today -/
def setitem [DecidableEq α] (d : DOK α) (key : List KeyPart) (v : Val α) : DOK α × Option Err :=
  setitemWith Gen.dokSliceBounds d key v

/-- assignment of one element at an already normalised key (the leaf of `_setitem`) -/
def setScalar [DecidableEq α] (d : DOK α) (k : DKey) (x : α) : DOK α :=
  { d with entries := store d.fill d.entries k x }

/-! ### `_fancy_setitem` / `_fancy_getitem` (one integer list per axis) -/

/-- `zip(*idxs)` for lists of common length `n` -/
def zipKeys (idxs : List (List Int)) (n : Nat) : List DKey :=
  (List.range n).map fun j => idxs.map fun l => l.getD j 0

def storeAll [DecidableEq α] (fill : α) : List (DKey × α) → List (DKey × α) → List (DKey × α)
  | es, [] => es
  | es, (k, x) :: ws => storeAll fill (store fill es k x) ws

/-- the checks of `__setitem__` / `__getitem__` on a tuple of index lists: one list per axis
(else NotImplementedError), all of one length (else IndexError); returns that length -/
def fancyCheck (shape : List Nat) (idxs : List (List Int)) : Except Err Nat :=
  if idxs.length ≠ shape.length then .error .notImplemented
  else
    match idxs with
    | [] => .error .index   -- `idxs[0]` of an empty tuple (0-d array, key `()`)
    | l :: _ => if idxs.any (fun m => m.length ≠ l.length) then .error .index else .ok l.length

/-- the values `_fancy_setitem` pairs with `n` listed keys: a 0-d or one-element 1-d value is repeated
(`np.full`), any other 1-d value must have exactly `n` entries, anything else is a ValueError -/
def fancyVals (v : Val α) (n : Nat) : Except Err (List α) :=
  match v.shape with
  | [] => (match v.flat with | x :: _ => .ok (List.replicate n x) | [] => .error .internal)
  | [m] =>
    if m = 1 then (match v.flat with | x :: _ => .ok (List.replicate n x) | [] => .error .internal)
    else if m = n then .ok v.flat else .error .value
  | _ => .error .value

/-- `normalize_index` on one index list: every entry in `[-dim, dim)` (else IndexError), negative
entries count from the end -/
def normList (l : List Int) (dim : Nat) : Except Err (List Int) :=
  if l.all (fun i => decide (-(dim : Int) ≤ i) && decide (i < (dim : Int))) then
    .ok (l.map fun i => if i < 0 then i + dim else i)
  else .error .index

def normLists : List (List Int) → List Nat → Except Err (List (List Int))
  | [], [] => .ok []
  | l :: ls, d :: ds =>
    match normList l d with
    | .error e => .error e
    | .ok x =>
      match normLists ls ds with
      | .error e => .error e
      | .ok xs => .ok (x :: xs)
  | _, _ => .error .internal

/-- the tail of `_fancy_setitem`: the value rule, then one store (or delete) per listed key, in order -/
def fancyStore [DecidableEq α] (d : DOK α) (keys : List DKey) (v : Val α) : DOK α × Option Err :=
  match fancyVals v keys.length with
  | .error e => (d, some e)
  | .ok xs => ({ d with entries := storeAll d.fill d.entries (keys.zip xs) }, none)

/-- `d[idx0, idx1, …] = value` with one integer list per axis: the checks of `__setitem__`, then
`_fancy_setitem`: the lists go through `normalize_index` (bounds check, negative entries), then the
listed keys are stored -/
def setFancy [DecidableEq α] (d : DOK α) (idxs : List (List Int)) (v : Val α) : DOK α × Option Err :=
  match fancyCheck d.shape idxs with
  | .error e => (d, some e)
  | .ok n =>
    match normLists idxs d.shape with
    | .error e => (d, some e)
    | .ok idxs' => fancyStore d (zipKeys idxs' n) v

/-- `d[i0, i1, ...]` with one integer per axis: `normalize_index`, then the element -/
def getInt (d : DOK α) (key : List Int) : Except Err α :=
  match normalizeKey (key.map .int) d.shape with
  | .error e => .error e
  | .ok nk =>
    if key.length ≠ d.shape.length then .error .internal   -- not an element read
    else .ok (alookup d.entries d.fill (nk.map fun p => match p.1 with | .int n => n | .slice _ _ _ => 0))

/-- `_fancy_getitem`: the index lists go through `normalize_index`, then each listed key is looked up -/
def getFancy (d : DOK α) (idxs : List (List Int)) : Except Err (List α) :=
  match fancyCheck d.shape idxs with
  | .error e => .error e
  | .ok n =>
    match normLists idxs d.shape with
    | .error e => .error e
    | .ok idxs' => .ok ((zipKeys idxs' n).map (alookup d.entries d.fill))

/-- all in-range keys in row-major order -/
def allKeys : List Nat → List DKey
  | [] => [[]]
  | d :: ds => (List.range d).flatMap fun (i : Nat) => (allKeys ds).map fun r => Int.ofNat i :: r

/-- the keys a boolean mask (row-major over the shape) selects, in row-major order: `zip(*np.nonzero(mask))` -/
def maskKeys (shape : List Nat) (m : List Bool) : List DKey :=
  ((allKeys shape).zip m).filterMap fun kb => if kb.2 then some kb.1 else none

/-- boolean-mask assignment `d[mask] = value` on an array of rank ≥ 1: a mask of another shape is an
IndexError; otherwise `np.nonzero(mask)` becomes the tuple of index arrays and takes the index-list
path (its entries are in range, so `normalize_index` leaves them as they are) -/
def setMask [DecidableEq α] (d : DOK α) (m : List Bool) (v : Val α) : DOK α × Option Err :=
  if d.shape = [] then (d, some .internal)   -- rank 0: not this branch of `__setitem__` (outside the model)
  else if m.length ≠ prod d.shape then (d, some .index)
  else fancyStore d (maskKeys d.shape m) v

def nnz (d : DOK α) : Nat := d.entries.length

/-- value at a key: stored value, else the fill value -/
def get (d : DOK α) (k : DKey) : α := alookup d.entries d.fill k

/-- row-major dense listing (what `todense().ravel()` gives when every stored key is in range) -/
def todense (d : DOK α) : List α := (allKeys d.shape).map (get d)

/-- the key has the rank of the shape and every component is in range -/
def InBI : DKey → List Nat → Prop
  | [], [] => True
  | i :: is, d :: ds => (0 ≤ i ∧ i < (d : Int)) ∧ InBI is ds
  | _, _ => False

instance decInBI : (k : DKey) → (s : List Nat) → Decidable (InBI k s)
  | [], [] => isTrue trivial
  | i :: is, d :: ds =>
    match (inferInstance : Decidable (0 ≤ i ∧ i < (d : Int))), decInBI is ds with
    | isTrue h1, isTrue h2 => isTrue ⟨h1, h2⟩
    | isFalse h1, _ => isFalse (fun h => h1 h.1)
    | _, isFalse h2 => isFalse (fun h => h2 h.2)
  | [], _ :: _ => isFalse (fun h => h)
  | _ :: _, [] => isFalse (fun h => h)

/-- canonical state: the keys are distinct and inside the shape, no stored value is the fill value -/
def Canon (d : DOK α) : Prop :=
  (d.entries.map (·.1)).Nodup ∧ ∀ e ∈ d.entries, InBI e.1 d.shape ∧ e.2 ≠ d.fill

instance [DecidableEq α] (d : DOK α) : Decidable (Canon d) := by unfold Canon; infer_instance

/-! ### histories -/

/-- one assignment `d[key] = value` -/
inductive Op (α : Type) where
  /-- key of integers and slices (shorter keys are padded with full slices; an Ellipsis is expanded into
  full slices by the caller) — also the empty tuple, and a tuple of integers on a 1-d array -/
  | set (key : List KeyPart) (v : Val α)
  /-- one integer list per axis -/
  | fancy (idxs : List (List Int)) (v : Val α)
  /-- boolean mask of the array's shape (row-major) -/
  | mask (m : List Bool) (v : Val α)
  deriving Repr

/-- `DOK.__setitem__`: a boolean ndarray of the array's rank becomes index arrays; a tuple all of whose
entries are index lists (or, on a 1-d array, a bare list of integers) goes to `_fancy_setitem`; every
other key — integers, slices, the empty tuple — goes through `normalize_index` to `_setitem` -/
def step [DecidableEq α] (d : DOK α) : Op α → DOK α × Option Err
  | .set key v => setitem d key v
  | .fancy idxs v => setFancy d idxs v
  | .mask m v => setMask d m v

/-- a history: each assignment acts on what the previous one left (an assignment that raises has
usually changed nothing: every exception the property's keys and values can cause is raised before
the first store) -/
def run [DecidableEq α] (d : DOK α) : List (Op α) → DOK α
  | [] => d
  | op :: ops => run (step d op).1 ops

end Dok
end SparseV

/-
  SparseV.Model.Ownership — who keeps the MLIR backend's buffers alive (property C20).

  Objects (NumPy arrays, ctypes `Storage` structures, backend `Array`s, the NumPy views returned by
  `get_constituent_arrays`) form a graph of "keeps alive" edges: attribute references, NumPy `base`
  references and the references taken by `_hold_ref(owner, obj)` (`_common.py`).  A buffer is
  released when the object that owns it is finalised: a NumPy array that allocated it, or a
  `Storage` built with `owns_memory=True` (`formats.py: Storage.__del__` frees every field).
  The program holds references (`roots`, with multiplicity: an object's reference count is the number of
  references the program holds plus the references from objects not yet finalised), drops them in any order,
  and the runtime finalises unreachable objects one at a time in any order.

  Storages come in two kinds (`Obj.om`, the `owns_memory` parameter of `ConcreteFormat._get_ctypes_type`):
  an OWNING storage (result of add / reshape / asformat) is the allocation its fields point into and
  releases it when finalised; a NON-OWNING storage (`from_constituent_arrays`: everything built from NumPy
  or SciPy input, user buffers, `Array.copy`, `asarray(copy=True)`) points into EXTERNAL source buffers —
  NumPy arrays, possibly attributes of a SciPy matrix — which are objects of the graph themselves, with
  their own references, and which release their buffer when THEY are finalised.  The arrays handed back
  (`get_constituent_arrays`, `to_numpy`, the attributes of `to_scipy`'s matrix) are objects too.

  Which `_hold_ref` edges exist is not assumed: `Cfg.code` is computed from `SparseV.Gen.mlirHold*`, which
  tools/tables.d/C20.py reads off the statements of `Storage.get_constituent_arrays` /
  `Storage.from_constituent_arrays` (with the condition on `owns_memory` each loop runs under).
  Core Lean only; everything is executable.
-/
import SparseV.Generated.MlirHold
namespace SparseV
namespace Own

inductive Kind where
  | ndarray | storage | array | view
  | scipy        -- a SciPy matrix: a container whose attributes are NumPy arrays (input of `asarray`, output of `to_scipy`)
  deriving DecidableEq, Repr

structure Obj where
  kind : Kind
  refs : List Nat      -- objects this object keeps alive
  bufs : List Nat      -- buffers its pointers address
  owns : List Nat      -- buffers released when it is finalised
  om : Bool := false   -- a storage of the class built with `owns_memory=True`
  deriving Repr, DecidableEq

def Obj.nil : Obj := { kind := .ndarray, refs := [], bufs := [], owns := [] }

/-- which keep-alive edges the code makes, and which storage class the conversions instantiate -/
structure Cfg where
  holdInputs : Bool         -- `Storage.from_constituent_arrays` (non-owning class): `_hold_ref(storage, arr)` for every array given
  holdViewOwning : Bool     -- `Storage.get_constituent_arrays` of an OWNING storage: `_hold_ref(arr, self)` for every returned view
  holdViewNonOwning : Bool  -- the same loop in the class of a NON-OWNING storage
  fromArraysOwns : Bool     -- `_conversions.from_constituent_arrays` instantiates the `owns_memory=True` class
  holdOnBaseRoot : Bool     -- `Storage.get_constituent_arrays` walks `arr.base` down to the bottom of NumPy's base chain before
                            --   `_hold_ref`: for an element type the MLIR runtime re-views (complex64/128, float16: the array
                            --   returned is `raw.view(dtype)`) the keep-alive hangs on `raw`, not on the re-view
  deriving Repr, DecidableEq

/-- every edge, non-owning input storages: what the ownership theorems need -/
def Cfg.full : Cfg :=
  { holdInputs := true, holdViewOwning := true, holdViewNonOwning := true, fromArraysOwns := false, holdOnBaseRoot := true }

/-- the source as it stands: read off `formats.py` / `_conversions.py` by tools/tables.d/C20.py -/
def Cfg.code : Cfg :=
  { holdInputs := Gen.mlirHoldInputs.eval Gen.mlirFromArraysOwns,
    holdViewOwning := Gen.mlirHoldViews.eval true,
    holdViewNonOwning := Gen.mlirHoldViews.eval false,
    fromArraysOwns := Gen.mlirFromArraysOwns,
    holdOnBaseRoot := Gen.mlirHoldOnBaseRoot }

/-- does a view of this storage keep it alive -/
def Cfg.holdView (cfg : Cfg) (om : Bool) : Bool := if om then cfg.holdViewOwning else cfg.holdViewNonOwning

structure Heap where
  objs : List Obj      -- oldest first; an object's id is its position; objects are immutable
  nbuf : Nat           -- buffers allocated so far
  cont : List Nat      -- one content token per buffer
  roots : List Nat     -- references held by the program (with multiplicity)
  dead : List Nat      -- finalised objects
  freed : List Nat     -- released buffers, most recent first
  deriving Repr, DecidableEq

def Heap.empty : Heap := { objs := [], nbuf := 0, cont := [], roots := [], dead := [], freed := [] }

def Heap.obj (h : Heap) (o : Nat) : Obj := h.objs.getD o Obj.nil

/-- one pass from the newest object to the oldest (every edge points to an older object):
`wanted` = the roots and everything referenced by an object already marked -/
def markFrom (objs : List Obj) : Nat → List Nat → List Nat
  | 0, _ => []
  | n + 1, wanted =>
    if wanted.contains n then n :: markFrom objs n ((objs.getD n Obj.nil).refs ++ wanted)
    else markFrom objs n wanted

/-- the objects reachable from the program's references -/
def reachable (h : Heap) : List Nat := markFrom h.objs h.objs.length h.roots

inductive Cmd where
  | newArray (tok : Nat)              -- the program makes a NumPy array that owns a fresh buffer
  | npView (o : Nat)                  -- a NumPy view (`reshape(-1)`, `to_numpy`'s transpose): `base` keeps `o` alive
  | mkStorage (srcs : List Nat)       -- `Storage.from_constituent_arrays(arrs)`: a NON-OWNING storage over source arrays
  | mkScipy (srcs : List Nat)         -- a SciPy matrix whose attribute arrays are `srcs` (made by the program, or by `to_scipy`)
  | opStorage (toks : List Nat)       -- result of add/reshape/asformat: `owns_memory=True`, fresh buffers
  | opAliased (a : Nat)               -- DEFECT (rank-1 `reshape` to rank 1): an `owns_memory=True` result whose
                                      --   fields are the operand's buffers (MLIR folds the reshape away)
  | mkArray (s : Nat)                 -- `Array(storage=s, shape=…)`
  | view (a k : Nat)                  -- the `k`-th array of `a.get_constituent_arrays()`
  | rawField (a k : Nat)              -- element types the MLIR runtime re-views (complex64/128, float16): the raw-pointer array
                                      --   over the `k`-th field that `ranked_memref_to_numpy` builds first.  With the base walk
                                      --   (`Cfg.holdOnBaseRoot`) this is the object the keep-alive hangs on — it is then exactly
                                      --   a `view`; without it nothing is attached to it
  | castView (r a : Nat)              --   … and `r.view(dtype)`, the array `get_constituent_arrays` returns for such a type, whose
                                      --   NumPy `base` is `r`: with the base walk a plain NumPy view of `r` (exactly `npView r`);
                                      --   without it `_hold_ref(this, storage)` is attached to THIS object
  | alias (o : Nat)                   -- one more reference to an object (`asformat` to the same format …)
  | drop (o : Nat)                    -- `del name`
  | finalize (o : Nat)                -- the runtime finalises an unreachable object
  deriving Repr, DecidableEq

/-- NumPy's `base` of a view of `o`: `o` itself, unless `o` is a NumPy view of an array — then that array (chains of views
collapse to the array at the bottom, so a view of a view does NOT keep the intermediate view alive) -/
def npBase (h : Heap) (o : Nat) : Nat :=
  if (h.obj o).kind = .ndarray ∧ (h.obj o).owns = [] then (h.obj o).refs.headD o else o

/-- a NumPy view of `o` -/
def mkNpView (h : Heap) (o : Nat) : Option (Obj × List Nat) :=
  if (reachable h).contains o && ((h.obj o).kind == .ndarray || (h.obj o).kind == .view) then
    some ({ kind := .ndarray, refs := [npBase h o], bufs := (h.obj o).bufs, owns := [] }, [])
  else none

/-- the raw-pointer array over the `k`-th field of the storage of `a`, with the keep-alive edge to the storage (if the code
makes it for this kind of storage) -/
def mkView (cfg : Cfg) (h : Heap) (a k : Nat) : Option (Obj × List Nat) :=
  if (reachable h).contains a && (h.obj a).kind == .array then
    match (h.obj a).refs with
    | [s] =>
      match (h.obj s).bufs[k]? with
      | some b => some ({ kind := .view, refs := if cfg.holdView (h.obj s).om then [s] else [], bufs := [b], owns := [] }, [])
      | none => none
    | _ => none
  else none

/-- the object a creating command builds, with the contents of the buffers it allocates -/
def mkObj (cfg : Cfg) (h : Heap) : Cmd → Option (Obj × List Nat)
  | .newArray tok => some ({ kind := .ndarray, refs := [], bufs := [h.nbuf], owns := [h.nbuf] }, [tok])
  | .npView o => mkNpView h o
  | .mkStorage srcs =>
    if srcs.all fun s => (reachable h).contains s && ((h.obj s).kind == .ndarray || (h.obj s).kind == .view) then
      some ({ kind := .storage, refs := if cfg.holdInputs then srcs else [],
              bufs := srcs.flatMap fun s => (h.obj s).bufs,
              owns := if cfg.fromArraysOwns then srcs.flatMap fun s => (h.obj s).bufs else [],
              om := cfg.fromArraysOwns }, [])
    else none
  | .mkScipy srcs =>
    if srcs.all fun s => (reachable h).contains s && ((h.obj s).kind == .ndarray || (h.obj s).kind == .view) then
      some ({ kind := .scipy, refs := srcs, bufs := srcs.flatMap fun s => (h.obj s).bufs, owns := [] }, [])
    else none
  | .opStorage toks =>
    some ({ kind := .storage, refs := [], bufs := List.range' h.nbuf toks.length,
            owns := List.range' h.nbuf toks.length, om := true }, toks)
  | .opAliased a =>
    if (reachable h).contains a && (h.obj a).kind == .array then
      match (h.obj a).refs with
      | [s] => some ({ kind := .storage, refs := [], bufs := (h.obj s).bufs, owns := (h.obj s).bufs, om := true }, [])
      | _ => none
    else none
  | .mkArray s =>
    if (reachable h).contains s && (h.obj s).kind == .storage then
      some ({ kind := .array, refs := [s], bufs := [], owns := [] }, [])
    else none
  | .view a k => mkView cfg h a k
  | .rawField a k =>
    if cfg.holdOnBaseRoot then mkView cfg h a k
    else if (reachable h).contains a && (h.obj a).kind == .array then
      match (h.obj a).refs with
      | [s] =>
        match (h.obj s).bufs[k]? with
        | some b => some ({ kind := .ndarray, refs := [], bufs := [b], owns := [] }, [])
        | none => none
      | _ => none
    else none
  | .castView r a =>
    if cfg.holdOnBaseRoot then mkNpView h r
    else if (reachable h).contains r && (reachable h).contains a && (h.obj a).kind == .array && (h.obj r).kind == .ndarray then
      match (h.obj a).refs with
      | [s] => some ({ kind := .ndarray, refs := r :: (if cfg.holdView (h.obj s).om then [s] else []),
                       bufs := (h.obj r).bufs, owns := [] }, [])
      | _ => none
    else none
  | _ => none

/-- the commands of the excluded region: results that alias their operand -/
def Cmd.excluded : Cmd → Bool
  | .opAliased _ => true
  | _ => false

/-- a history is excluded when it contains an aliasing result (what a rank-1 → rank-1 `reshape` returned) -/
def ExcludedHistory (cs : List Cmd) : Bool := cs.any Cmd.excluded

/-- add a new object; the program holds a reference to it -/
def Heap.push (h : Heap) (x : Obj) (toks : List Nat) : Heap :=
  { h with objs := h.objs ++ [x], nbuf := h.nbuf + toks.length, cont := h.cont ++ toks,
           roots := h.objs.length :: h.roots }

def step (cfg : Cfg) (h : Heap) (c : Cmd) : Option Heap :=
  match c with
  | .alias o => if (reachable h).contains o then some { h with roots := o :: h.roots } else none
  | .drop o => if h.roots.contains o then some { h with roots := h.roots.erase o } else none
  | .finalize o =>
    if o < h.objs.length && !(reachable h).contains o && !h.dead.contains o then
      some { h with dead := o :: h.dead, freed := (h.obj o).owns ++ h.freed }
    else none
  | c => (mkObj cfg h c).map fun p => h.push p.1 p.2

def run (cfg : Cfg) : Heap → List Cmd → Option Heap
  | h, [] => some h
  | h, c :: cs => (step cfg h c).bind fun h' => run cfg h' cs

/-- pairs (reachable object, released buffer it addresses) -/
def dangling (h : Heap) : List (Nat × Nat) :=
  (reachable h).flatMap fun o => ((h.obj o).bufs.filter fun b => h.freed.contains b).map fun b => (o, b)

/-- the unreachable objects that have not been finalised yet, oldest first -/
def garbage (h : Heap) : List Nat :=
  (List.range h.objs.length).filter fun o => !(reachable h).contains o && !h.dead.contains o

/-- `t = to_numpy(add(x, x))` for a complex64 / complex128 / float16 array: the result storage (object 0, owning),
its array (1), the raw-pointer array over the values field (2), its re-view `data` (3), `t = data.reshape(…).transpose(…)`
whose NumPy base is the raw array 2, not `data` (4); `data` goes out of scope when `to_numpy` returns, the temporary result
array is dropped, the storage is finalised — which is possible only if nothing reachable keeps it alive -/
def castWitness : List Cmd :=
  [.opStorage [1], .mkArray 0, .drop 0, .rawField 1 0, .castView 2 1, .npView 3, .drop 2, .drop 3, .finalize 3,
   .drop 1, .finalize 1, .finalize 0]

/-- a history that defeats a configuration other than the code's: the first of
(conversions building OWNING storages over the caller's arrays; no `_hold_ref(storage, arr)`; no `_hold_ref(view, storage)`
for OWNING storages; the keep-alive on the re-view instead of the bottom of the base chain; no `_hold_ref(view, storage)` for
NON-OWNING storages) that applies -/
def edgeWitness (cfg : Cfg) : List Cmd :=
  if cfg.fromArraysOwns then
    [.newArray 7, .mkStorage [0], .drop 1, .finalize 1]                            -- the storage releases the caller's buffer
  else if !cfg.holdInputs then
    [.newArray 7, .mkStorage [0], .mkArray 1, .drop 1, .drop 0, .finalize 0]       -- x = asarray(a); del a
  else if !cfg.holdViewOwning then
    [.opStorage [1, 2, 3], .mkArray 0, .drop 0, .view 1 2, .drop 1, .finalize 1, .finalize 0]   -- v = r.get_constituent_arrays()[2]; del r
  else if cfg.holdViewNonOwning && !cfg.holdOnBaseRoot then castWitness
  else
    -- a = np…; x = asarray(a); v = x.get_constituent_arrays()[0]; del a; del x   (to_numpy / to_scipy hand back such views)
    [.newArray 7, .mkStorage [0], .mkArray 1, .drop 1, .view 2 0, .drop 0, .drop 2, .finalize 2, .finalize 1, .finalize 0]

/-- CPython's reference count of `o`: the references the program holds plus the references from objects that have not
been finalised -/
def refcount (h : Heap) (o : Nat) : Nat :=
  h.roots.count o + (((List.range h.objs.length).filter fun p => !h.dead.contains p).map fun p => (h.obj p).refs.count o).sum

end Own
end SparseV

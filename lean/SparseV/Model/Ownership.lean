/-
  SparseV.Model.Ownership — who keeps the MLIR backend's buffers alive (property C20).

  Objects (NumPy arrays, ctypes `Storage` structures, backend `Array`s, the NumPy views returned by
  `get_constituent_arrays`) form a graph of "keeps alive" edges: attribute references, NumPy `base`
  references and the references taken by `_hold_ref(owner, obj)` (`_common.py`).  A buffer is
  released when the object that owns it is finalised: a NumPy array that allocated it, or a
  `Storage` built with `owns_memory=True` (`formats.py: Storage.__del__` frees every field).
  The program holds references (`roots`), drops them in any order, and the runtime finalises
  unreachable objects one at a time in any order.  Core Lean only; everything is executable.
-/
namespace SparseV
namespace Own

inductive Kind where
  | ndarray | storage | array | view
  deriving DecidableEq, Repr

structure Obj where
  kind : Kind
  refs : List Nat      -- objects this object keeps alive
  bufs : List Nat      -- buffers its pointers address
  owns : List Nat      -- buffers released when it is finalised
  deriving Repr, DecidableEq

def Obj.nil : Obj := { kind := .ndarray, refs := [], bufs := [], owns := [] }

/-- which `_hold_ref` calls the code makes -/
structure Cfg where
  holdInputs : Bool    -- `Storage.from_constituent_arrays`: `_hold_ref(storage, arr)` for every input array
  holdStorage : Bool   -- `Storage.get_constituent_arrays`: `_hold_ref(arr, self)` for every returned view
  deriving Repr, DecidableEq

/-- the source as it stands -/
def Cfg.code : Cfg := { holdInputs := true, holdStorage := true }

structure Heap where
  objs : List Obj      -- oldest first; an object's id is its position; objects are immutable
  nbuf : Nat           -- buffers allocated so far
  cont : List Nat      -- one content token per buffer
  roots : List Nat     -- references held by the program (with multiplicity)
  dead : List Nat      -- finalised objects
  freed : List Nat     -- released buffers, most recent first
  deriving Repr

def Heap.empty : Heap := { objs := [], nbuf := 0, cont := [], roots := [], dead := [], freed := [] }

def Heap.obj (h : Heap) (o : Nat) : Obj := h.objs.getD o Obj.nil

/-- one pass from the newest object to the oldest (every edge points to an older object):
`wanted` = the roots and everything referenced by an object already marked -/
def markFrom (objs : List Obj) : Nat → List Nat → List Nat
  | 0, _ => []
  | n + 1, wanted =>
    if wanted.contains n then n :: markFrom objs n ((objs.getD n Obj.nil).refs ++ wanted)
    else markFrom objs n wanted

/-- the objects reachable from the program's references -/
def reachable (h : Heap) : List Nat := markFrom h.objs h.objs.length h.roots

inductive Cmd where
  | newArray (tok : Nat)              -- the program makes a NumPy array that owns a fresh buffer
  | npView (o : Nat)                  -- a NumPy view (`reshape(-1)`, `to_numpy`'s transpose): `base` keeps `o` alive
  | mkStorage (srcs : List Nat)       -- `Storage.from_constituent_arrays(arrs)`
  | opStorage (toks : List Nat)       -- result of add/reshape/asformat: `owns_memory=True`, fresh buffers
  | opAliased (a : Nat)               -- DEFECT (rank-1 `reshape` to rank 1): an `owns_memory=True` result whose
                                      --   fields are the operand's buffers (MLIR folds the reshape away)
  | mkArray (s : Nat)                 -- `Array(storage=s, shape=…)`
  | view (a k : Nat)                  -- the `k`-th array of `a.get_constituent_arrays()`
  | alias (o : Nat)                   -- one more reference to an object (`asformat` to the same format …)
  | drop (o : Nat)                    -- `del name`
  | finalize (o : Nat)                -- the runtime finalises an unreachable object
  deriving Repr

/-- the object a creating command builds, with the contents of the buffers it allocates -/
def mkObj (cfg : Cfg) (h : Heap) : Cmd → Option (Obj × List Nat)
  | .newArray tok => some ({ kind := .ndarray, refs := [], bufs := [h.nbuf], owns := [h.nbuf] }, [tok])
  | .npView o =>
    if (reachable h).contains o && ((h.obj o).kind == .ndarray || (h.obj o).kind == .view) then
      some ({ kind := .ndarray, refs := [o], bufs := (h.obj o).bufs, owns := [] }, [])
    else none
  | .mkStorage srcs =>
    if srcs.all fun s => (reachable h).contains s && ((h.obj s).kind == .ndarray || (h.obj s).kind == .view) then
      some ({ kind := .storage, refs := if cfg.holdInputs then srcs else [],
              bufs := srcs.flatMap fun s => (h.obj s).bufs, owns := [] }, [])
    else none
  | .opStorage toks =>
    some ({ kind := .storage, refs := [], bufs := List.range' h.nbuf toks.length,
            owns := List.range' h.nbuf toks.length }, toks)
  | .opAliased a =>
    if (reachable h).contains a && (h.obj a).kind == .array then
      match (h.obj a).refs with
      | [s] => some ({ kind := .storage, refs := [], bufs := (h.obj s).bufs, owns := (h.obj s).bufs }, [])
      | _ => none
    else none
  | .mkArray s =>
    if (reachable h).contains s && (h.obj s).kind == .storage then
      some ({ kind := .array, refs := [s], bufs := [], owns := [] }, [])
    else none
  | .view a k =>
    if (reachable h).contains a && (h.obj a).kind == .array then
      match (h.obj a).refs with
      | [s] =>
        match (h.obj s).bufs[k]? with
        | some b => some ({ kind := .view, refs := if cfg.holdStorage then [s] else [], bufs := [b], owns := [] }, [])
        | none => none
      | _ => none
    else none
  | _ => none

/-- the commands of the excluded region: results that alias their operand -/
def Cmd.aliasing : Cmd → Bool
  | .opAliased _ => true
  | _ => false

/-- a history is excluded when it contains a rank-1 → rank-1 `reshape` (the aliasing result) -/
def ExcludedHistory (cs : List Cmd) : Bool := cs.any Cmd.aliasing

/-- add a new object; the program holds a reference to it -/
def Heap.push (h : Heap) (x : Obj) (toks : List Nat) : Heap :=
  { h with objs := h.objs ++ [x], nbuf := h.nbuf + toks.length, cont := h.cont ++ toks,
           roots := h.objs.length :: h.roots }

def step (cfg : Cfg) (h : Heap) (c : Cmd) : Option Heap :=
  match c with
  | .alias o => if (reachable h).contains o then some { h with roots := o :: h.roots } else none
  | .drop o => if h.roots.contains o then some { h with roots := h.roots.erase o } else none
  | .finalize o =>
    if o < h.objs.length && !(reachable h).contains o && !h.dead.contains o then
      some { h with dead := o :: h.dead, freed := (h.obj o).owns ++ h.freed }
    else none
  | c => (mkObj cfg h c).map fun p => h.push p.1 p.2

def run (cfg : Cfg) : Heap → List Cmd → Option Heap
  | h, [] => some h
  | h, c :: cs => (step cfg h c).bind fun h' => run cfg h' cs

/-- pairs (reachable object, released buffer it addresses) -/
def dangling (h : Heap) : List (Nat × Nat) :=
  (reachable h).flatMap fun o => ((h.obj o).bufs.filter fun b => h.freed.contains b).map fun b => (o, b)

/-- the unreachable objects that have not been finalised yet, oldest first -/
def garbage (h : Heap) : List Nat :=
  (List.range h.objs.length).filter fun o => !(reachable h).contains o && !h.dead.contains o

end Own
end SparseV

/-
  SparseV.Model.PromiseCover — for every constructor call site that makes a promise
  (`sorted=` / `has_duplicates=` / a ready-made GCXS triple): what justifies it.
  Hand-maintained; `C06.promise_sites_covered` checks it against the table GENERATED from the source,
  so a new or changed promise site fails the build until someone has looked at it.
-/
namespace SparseV

def promiseCover : List ((String × String × String × String × String) × String) := [
  (("_common.py", "_dot", "COO", "False", "False"), "C04 leg A (kernel emission order) + canonicity checker; GCXS @ GCXS row order is finding F-dot-csr-unsorted"),
  (("_common.py", "_dot", "COO", "True", "False"), "C04 leg A (kernel emission order) + canonicity checker; GCXS @ GCXS row order is finding F-dot-csr-unsorted"),
  (("_common.py", "_dot", "GCXS", "triple", "triple"), "C04 leg A (kernel emission order) + canonicity checker; GCXS @ GCXS row order is finding F-dot-csr-unsorted"),
  (("_common.py", "eye", "COO", "True", "False"), "theorem C19.eye_canonical"),
  (("_common.py", "full", "COO", "True", "False"), "empty storage"),
  (("_compressed/common.py", "concatenate", "GCXS", "triple", "triple"), "C09 leg C + canonicity checker (indptr splice)"),
  (("_compressed/common.py", "stack", "GCXS", "triple", "triple"), "C09 leg C + canonicity checker (indptr splice)"),
  (("_compressed/compressed.py", "GCXS._2d_transpose", "GCXS", "triple", "triple"), "relabelling CSR<->CSC; C08 leg C + canonicity checker"),
  (("_compressed/compressed.py", "GCXS._reduce_return", "GCXS", "triple", "triple"), "C03 leg C + canonicity checker"),
  (("_compressed/compressed.py", "GCXS.change_compressed_axes", "GCXS", "triple", "triple"), "C05 leg A (convert_chain) + canonicity checker"),
  (("_compressed/compressed.py", "GCXS.reshape", "GCXS", "triple", "triple"), "C08 leg C + canonicity checker"),
  (("_compressed/compressed.py", "GCXS.transpose", "GCXS", "triple", "triple"), "C08 leg C + canonicity checker"),
  (("_compressed/indexing.py", "_getitem", "GCXS", "triple", "triple"), "C02 leg C + canonicity checker"),
  (("_coo/common.py", "_without_stored_fill_values", "COO", "True", "False"), "theorem C06.filter_canonical: dropping stored fill values is a filter (added by the fix 59cc170)"),
  (("_coo/common.py", "concatenate", "COO", "axis == 0", "False"), "correspondence C09 leg A (concat_core); sorted only for axis 0"),
  (("_coo/common.py", "kron", "COO", "False", "False"), "has_duplicates=False only; C04 leg C + canonicity checker"),
  (("_coo/common.py", "roll", "COO", "False", "False"), "has_duplicates=False only: shift mod n is injective; C08 leg A (roll_core)"),
  (("_coo/common.py", "sort", "COO", "True", "False"), "C10 leg A/C + canonicity checker"),
  (("_coo/common.py", "stack", "COO", "axis == 0", "False"), "correspondence C09 leg A (stack_core); sorted only for axis 0"),
  (("_coo/common.py", "tril", "COO", "True", "False"), "theorem C06.filter_canonical / C09.tril_keys_sublist"),
  (("_coo/common.py", "triu", "COO", "True", "False"), "theorem C06.filter_canonical / C09.triu_sorted"),
  (("_coo/core.py", "COO._reduce_return", "COO", "True", "False"), "correspondence C03 leg A: group starts are strictly increasing row numbers; prune=True (C06.nofill_prune)"),
  (("_coo/core.py", "COO.from_numpy", "COO", "True", "False"), "correspondence C05 leg A (from_dense): flatnonzero is increasing"),
  (("_coo/core.py", "COO.from_scipy_sparse", "COO", "x.has_canonical_format", "not x.has_canonical_format"), "flags taken from scipy has_canonical_format; C05 leg C"),
  (("_coo/core.py", "COO.reshape", "COO", "True", "False"), "theorem C06.reshape_canonical"),
  (("_coo/core.py", "COO.squeeze", "COO", "True", "False"), "correspondence C08 leg A (squeeze_core): dropping length-1 axes keeps linear order"),
  (("_coo/core.py", "COO.transpose", "COO", "False", "False"), "theorem C06.sorted_rewrite_canonical (has_duplicates=False: axis permutation is injective)"),
  (("_coo/indexing.py", "getitem", "COO", "True", "False"), "correspondence C02 leg A (getitem): filter in storage order; sorted cleared by negative steps / advanced index not first"),
  (("_coo/indexing.py", "getitem", "COO", "<local>", "False"), "correspondence C02 leg A (getitem): filter in storage order; sorted cleared by negative steps / advanced index not first"),
  (("_io.py", "load_npz", "COO", "True", "False"), "file contents trusted as written by save_npz (C14)"),
  (("_io.py", "load_npz", "GCXS", "triple", "triple"), "file contents trusted as written by save_npz (C14)"),
  (("_umath.py", "_Elemwise._get_func_coords_data", "COO", "True", "False"), "intermediate array: expansion of sorted matched coordinates; C01 leg A on the final result"),
  (("_umath.py", "_Elemwise._match_coo", "COO", "True", "False"), "intermediate arrays of matched coordinates (sorted merge); C01 leg A on the final result"),
  (("_umath.py", "_Elemwise.get_result", "COO", "False", "False"), "has_duplicates=False only: the mask pieces are disjoint (theorem C01.elemwise2_get); constructor sorts"),
  (("_umath.py", "broadcast_to", "COO", "<local>", "False"), "correspondence C01 leg A (broadcast_to): expansion order; sorted iff non-broadcast axes adjacent")
]

end SparseV

/-
  SparseV.Model.Levels — the MLIR backend's storage formats as data (property C20).

  * level formats `dense | compressed | singleton` with their properties, the `order` permutation
    and the `pos`/`crd` index widths (`sparse/mlir_backend/formats.py: Level, ConcreteFormat`);
  * `walk`/`entries`/`toDense`: the MEANING of a list of constituent arrays (pos/crd per level,
    values last) as a dense array, for any rank — the sparse_tensor dialect's storage semantics;
  * `toNumpy` (`_conversions.py: to_numpy` — the `arg_order` loop, reshape, transpose), `fromNumpy`;
  * the scipy field mapping `fromScipy`/`toScipy` (`_from_scipy`, `to_scipy`);
  * `determineFormat` (`formats.py: _determine_format`), the factories' level lists and the ctypes
    field names of `_get_ctypes_type`.
  Core Lean only (linked into the driver).  The algorithms are followed as written, defects included.
-/
import SparseV.Model.Gcxs
namespace SparseV
namespace Levels

-- (kept inside this namespace so that the generated instance names cannot collide with another model's)
deriving instance DecidableEq for DArr

inductive LevelFormat where
  | dense | compressed | singleton
  deriving DecidableEq, Repr

/-- `LevelProperties` (an `enum.Flag`) -/
structure LevelProps where
  nonOrdered : Bool := false
  nonUnique : Bool := false
  soa : Bool := false
  deriving DecidableEq, Repr

structure Level where
  fmt : LevelFormat
  props : LevelProps := {}
  deriving DecidableEq, Repr

/-- `ConcreteFormat` -/
structure Format where
  levels : List Level
  order : List Nat
  posWidth : Nat
  crdWidth : Nat
  dtype : String
  deriving DecidableEq, Repr

def Format.rank (f : Format) : Nat := f.levels.length
def Format.kinds (f : Format) : List LevelFormat := f.levels.map (·.fmt)

/-- `sorted(...)` on a tuple of ints (insertion sort: structurally recursive, so that closed
instances evaluate in the kernel) -/
def insertNat (a : Nat) : List Nat → List Nat
  | [] => [a]
  | b :: l => if a ≤ b then a :: b :: l else b :: insertNat a l

def sortNat : List Nat → List Nat
  | [] => []
  | a :: l => insertNat a (sortNat l)

/-- `ConcreteFormat.__post_init__`: `sorted(self.order) == list(range(self.rank))` -/
def orderOk (order : List Nat) (rank : Nat) : Bool :=
  sortNat order == List.range rank

def Format.valid (f : Format) : Bool := orderOk f.order f.rank

/-- `get_concrete_format` + `ConcreteFormat(...)`: the constructor rejects a non-permutation -/
def mkFormat (levels : List Level) (order : List Nat) (posWidth crdWidth : Nat) (dtype : String) :
    Except Err Format :=
  if orderOk order levels.length then
    .ok { levels := levels, order := order, posWidth := posWidth, crdWidth := crdWidth, dtype := dtype }
  else .error .value

/-! ### the factories' level lists (`Coo/Csf/Dense._get_levels_from_ndim`, `with_ndim(canonical=)`) -/

def dLevel : Level := { fmt := .dense }
def cLevel : Level := { fmt := .compressed }

def cooLevels (ndim : Nat) : List Level :=
  (List.range ndim).map fun i =>
    let base : Level := if i = 0 then { fmt := .compressed } else { fmt := .singleton, props := { soa := true } }
    if i ≠ ndim - 1 then { base with props := { base.props with nonUnique := true } } else base

def csfLevels (ndim : Nat) : List Level :=
  (List.range ndim).map fun i => if i = 0 then dLevel else cLevel

def denseLevels (ndim : Nat) : List Level := List.replicate ndim dLevel

def nonCanonical (ls : List Level) : List Level :=
  ls.map fun l => { l with props := { l.props with nonOrdered := true, nonUnique := true } }

/-- `FormatFactory.is_this_format`: equal level by level once NonOrdered|NonUnique are or-ed in -/
def isThisFormat (ref ls : List Level) : Bool :=
  ref.length == ls.length &&
  (ref.zip ls).all fun p => p.1.fmt == p.2.fmt && p.1.props.soa == p.2.props.soa

def Format.isDense (f : Format) : Bool := isThisFormat (denseLevels f.rank) f.levels

/-- field names of the ctypes structure built by `_get_ctypes_type.get_fields` (one memref each) -/
def fieldNames : List LevelFormat → Nat → Nat → List String
  | [], _, _ => ["values"]
  | .compressed :: rest, c, s =>
    match rest with
    | .singleton :: _ =>
      s!"pointers_to_{c + 1}" :: s!"indices_{c + 1}_coords_{s + 1}" :: fieldNames rest (c + 1) (s + 1)
    | _ => s!"pointers_to_{c + 1}" :: s!"indices_{c + 1}" :: fieldNames rest (c + 1) s
  | .singleton :: rest, c, s => s!"indices_{c}_coords_{s + 1}" :: fieldNames rest c (s + 1)
  | .dense :: rest, c, s => fieldNames rest c s

/-- number of index arrays in front of `values` -/
def arity : List LevelFormat → Nat
  | [] => 0
  | .compressed :: rest => 2 + arity rest
  | .singleton :: rest => 1 + arity rest
  | .dense :: rest => arity rest

/-! ### meaning of the constituent arrays -/

/-- Traverse the level tree.  `walk kinds sizes arrays p` lists, for the sub-tree hanging at position
`p` of the level in front, every stored path as (level coordinates, position in `values`).
dense level of size `n`: children `p*n + i`, coordinate `i`;
compressed level `(pos, crd)`: children `q ∈ [pos[p], pos[p+1])`, coordinate `crd[q]`;
singleton level `crd`: the child is `p` itself, coordinate `crd[p]`. -/
def walk : List LevelFormat → List Nat → List (List Nat) → Nat → List (Idx × Nat)
  | [], _, _, p => [([], p)]
  | .dense :: ls, n :: ns, arrs, p =>
    (List.range n).flatMap fun i => (walk ls ns arrs (p * n + i)).map fun e => (i :: e.1, e.2)
  | .compressed :: ls, _ :: ns, pos :: crd :: arrs, p =>
    (List.range' (pos.getD p 0) (pos.getD (p + 1) 0 - pos.getD p 0)).flatMap fun q =>
      (walk ls ns arrs q).map fun e => (crd.getD q 0 :: e.1, e.2)
  | .singleton :: ls, _ :: ns, crd :: arrs, p =>
    (walk ls ns arrs p).map fun e => (crd.getD p 0 :: e.1, e.2)
  | _, _, _, _ => []

/-- extents of the levels: level `l` stores dimension `order[l]` -/
def lvlShape (order shape : List Nat) : List Nat := COO.gather shape order

/-- level coordinates → array index: dimension `d` is the coordinate of level `order.idxOf d` -/
def dimIdx (order : List Nat) (c : Idx) : Idx := COO.gather c (invPerm order)

/-- array index → level coordinates -/
def lvlIdx (order : List Nat) (i : Idx) : Idx := COO.gather i order

variable {α : Type}

/-- the stored elements as (array index, value), in storage order -/
def entries (f : Format) (shape : List Nat) (arrs : List (List Nat)) (vals : List α) (fill : α) :
    List (Idx × α) :=
  (walk f.kinds (lvlShape f.order shape) arrs 0).map fun e => (dimIdx f.order e.1, vals.getD e.2 fill)

/-- value at an array index: the first stored element with that index, else `fill` -/
def get (f : Format) (shape : List Nat) (arrs : List (List Nat)) (vals : List α) (fill : α) (i : Idx) : α :=
  COO.lookup (entries f shape arrs vals fill) fill i

/-- **`toDense fmt arrays`**: the dense array (row-major) a list of constituent arrays stands for -/
def toDense (f : Format) (shape : List Nat) (arrs : List (List Nat)) (vals : List α) (fill : α) : List α :=
  (allIdx shape).map (get f shape arrs vals fill)

/-- a backend `Array`: format, shape, constituent arrays (index arrays, then values) -/
structure MArr (α : Type) where
  fmt : Format
  shape : List Nat
  arrays : List (List Nat)
  vals : List α
  deriving Repr

def MArr.dense (x : MArr α) (fill : α) : List α := toDense x.fmt x.shape x.arrays x.vals fill

/-- `from_constituent_arrays`: the ctypes structure takes exactly one array per field
(`TypeError: too many initializers` otherwise); `Array.__init__` compares the ranks -/
def fromConstituentArrays (f : Format) (arrs : List (List Nat)) (vals : List α) (shape : List Nat) :
    Except Err (MArr α) :=
  if arrs.length > arity f.kinds then .error .type
  else if shape.length ≠ f.rank then .error .value
  else .ok { fmt := f, shape := shape, arrays := arrs, vals := vals }

/-- the constituent arrays of the COO format that store an entry list as it is: `pos = [0, nnz]`, one coordinate
array per dimension (what `_from_scipy` builds from `row`/`col`, for any rank) -/
def cooEncode (es : List (Idx × α)) (rank : Nat) : List (List Nat) :=
  [0, es.length] :: (List.range rank).map fun k => es.map fun e => e.1.getD k 0

/-! ### NumPy conversions -/

/-- the loop of `to_numpy`: `arg_order = [0]*rank; for i, o in enumerate(order): arg_order[o] = i` -/
def argOrder (rank : Nat) (order : List Nat) : List Nat :=
  order.zipIdx.foldl (fun acc p => acc.set p.1 p.2) (List.replicate rank 0)

/-- `ndarray.transpose(axes)`: `result[j] = a[i]` with `i[axes[k]] = j[k]` -/
def DArr.transpose [Inhabited α] (a : DArr α) (axes : List Nat) : DArr α :=
  let shape := COO.gather a.shape axes
  { shape := shape,
    flat := (allIdx shape).map fun j => a.flat.getD (ravel (COO.gather j (invPerm axes)) a.shape) default }

/-- which tuple `to_numpy` gathers `storage_shape` with.  The code iterates `arg_order`; the level
extents are `shape[o] for o in order` (`fixed`). -/
inductive ShapeFrom where
  | argOrder | order
  deriving DecidableEq, Repr

/-- `to_numpy` -/
def toNumpyWith [Inhabited α] (sf : ShapeFrom) (x : MArr α) : Except Err (DArr α) :=
  if !x.fmt.isDense then .error .type else
  let ao := argOrder x.fmt.rank x.fmt.order
  let storageShape := COO.gather x.shape (match sf with | .argOrder => ao | .order => x.fmt.order)
  -- `data.reshape(storage_shape)`: ValueError when the sizes differ
  if prod storageShape ≠ x.vals.length then .error .value else
  .ok (DArr.transpose { shape := storageShape, flat := x.vals } ao)

/-- `to_numpy` as in the source -/
def toNumpy [Inhabited α] (x : MArr α) : Except Err (DArr α) := toNumpyWith .argOrder x

/-- `_from_numpy`: C-ordered dense format, the flattened array as the only constituent array -/
def fromNumpy (a : DArr α) (dtype : String) : MArr α :=
  { fmt := { levels := denseLevels a.shape.length, order := List.range a.shape.length,
             posWidth := 64, crdWidth := 64, dtype := dtype },
    shape := a.shape, arrays := [], vals := a.flat }

/-- the values of a dense format with an arbitrary `order` holding the array `a`
(what `asformat(Dense().with_order(order))` stores): level-major listing -/
def encodeDense [Inhabited α] (order : List Nat) (a : DArr α) (dtype : String) : MArr α :=
  { fmt := { levels := denseLevels a.shape.length, order := order, posWidth := 64, crdWidth := 64, dtype := dtype },
    shape := a.shape, arrays := [],
    vals := (allIdx (lvlShape order a.shape)).map fun c => a.flat.getD (ravel (dimIdx order c) a.shape) default }

/-! ### SciPy conversions -/

/-- the fields of a `scipy.sparse` array that the conversions read or write -/
inductive Scipy (α : Type) where
  | csx (csr : Bool) (shape : List Nat) (indptr indices : List Nat) (data : List α)
  | coo (shape : List Nat) (row col : List Nat) (data : List α)
  deriving Repr

/-- attributes of the index arrays / the matrix that `_from_scipy` reads besides the fields -/
structure ScipyMeta where
  ptrWidth : Nat      -- `indptr.dtype.itemsize * 8`
  idxWidth : Nat      -- `indices.dtype.itemsize * 8` / `row.dtype.itemsize * 8`
  colWidth : Nat      -- `col.dtype.itemsize * 8` (must equal `idxWidth`)
  canonical : Bool    -- `has_canonical_format`
  dtype : String
  deriving Repr

def withCanonical (canonical : Bool) (ls : List Level) : List Level :=
  if canonical then ls else nonCanonical ls

/-- `_from_scipy` -/
def fromScipy (s : Scipy α) (m : ScipyMeta) : Except Err (MArr α) :=
  match s with
  | .csx csr shape indptr indices data =>
    (mkFormat (withCanonical m.canonical (csfLevels 2)) (if csr then [0, 1] else [1, 0]) m.ptrWidth m.idxWidth m.dtype).bind
      fun f => fromConstituentArrays f [indptr, indices] data shape
  | .coo shape row col data =>
    if m.idxWidth ≠ m.colWidth then .error .runtime else
    (mkFormat (withCanonical m.canonical (cooLevels 2)) [0, 1] 64 m.idxWidth m.dtype).bind
      fun f => fromConstituentArrays f [[0, data.length], row, col] data shape

/-- `to_scipy` -/
def toScipy (x : MArr α) : Except Err (Scipy α) :=
  match x.fmt.kinds, x.arrays with
  | [.dense, .compressed], [indptr, indices] =>
    .ok (.csx (x.fmt.order == [0, 1]) x.shape indptr indices x.vals)
  | [.compressed, .singleton], [_, row, col] => .ok (.coo x.shape row col x.vals)
  | [.dense, .compressed], _ => .error .value          -- tuple unpacking fails
  | [.compressed, .singleton], _ => .error .value
  | _, _ => .error .runtime

/-- what a scipy array means: its (row, column, value) triplets, COO style -/
def Scipy.triples (s : Scipy α) (fill : α) : List (Idx × α) :=
  match s with
  | .csx csr _ indptr indices data =>
    (uncompress indptr).zipIdx.map fun p =>
      (if csr then [p.1, indices.getD p.2 0] else [indices.getD p.2 0, p.1], data.getD p.2 fill)
  | .coo _ row col data =>
    (List.range data.length).map fun q => ([row.getD q 0, col.getD q 0], data.getD q fill)

def Scipy.shape : Scipy α → List Nat
  | .csx _ s _ _ _ => s
  | .coo s _ _ _ => s

/-- dense value of a scipy array at an index -/
def Scipy.get (s : Scipy α) (fill : α) (i : Idx) : α := COO.lookup (s.triples fill) fill i

/-- what SCIPY means by an entry list (`toarray()`, arithmetic): entries with the same index add up -/
def sumAt (es : List (Idx × Int)) (i : Idx) : Int := ((es.filter fun e => e.1 == i).map (·.2)).sum

/-! ### `_determine_format` -/

def countSparse (f : Format) : Nat := (f.levels.filter fun l => l.fmt != .dense).length
def countDense (f : Format) : Nat := (f.levels.filter fun l => l.fmt == .dense).length

/-- state of the `for fmt in formats` loop; `order = none` is the string `"C"` -/
structure DFState where
  nCounted : Option Nat
  posWidth : Nat
  crdWidth : Nat
  order : Option (List Nat)
  deriving Repr

def dfInit : DFState := { nCounted := none, posWidth := 0, crdWidth := 0, order := some [] }

def dfStep (union : Bool) (s : DFState) (f : Format) : DFState :=
  let c := if union then countDense f else countSparse f
  { nCounted := some (match s.nCounted with | none => c | some n => max n c),
    posWidth := max s.posWidth f.posWidth,
    crdWidth := max s.crdWidth f.crdWidth,
    order := match s.order with
      | none => none
      | some o =>
        if f.order.take o.length = o then some f.order
        else if o.take f.order.length ≠ f.order then none
        else some o }

/-- `_get_sparse_dense_levels(n_sparse=, ndim=)` -/
def sparseDenseLevels (nSparse ndim : Nat) : List Level :=
  List.replicate (ndim - nSparse) dLevel ++ List.replicate nSparse cLevel

def maxRank (fmts : List Format) : Nat := fmts.foldl (fun m f => max m f.rank) 0

/-- the `order` handed to `get_concrete_format` -/
def dfOrder (o : Option (List Nat)) (n : Nat) : List Nat :=
  match o with
  | none => List.range n
  | some o => (o ++ List.range' o.length (n - o.length)).take n

/-- `_determine_format(*formats, dtype=, union=, out_ndim=)` -/
def determineFormat (fmts : List Format) (dtype : String) (union : Bool) (outNdim : Option Nat) :
    Except Err Format :=
  match fmts with
  | [] =>
    let n := outNdim.getD 0
    mkFormat (List.replicate n (if union then dLevel else cLevel)) (List.range n) 64 64 dtype
  | _ =>
    let n := outNdim.getD (maxRank fmts)
    let s := fmts.foldl (dfStep union) dfInit
    let nc := min n (s.nCounted.getD 0)
    let nSparse := if union then n - nc else nc
    mkFormat (sparseDenseLevels nSparse n) (dfOrder s.order n) s.posWidth s.crdWidth dtype

end Levels
end SparseV

/-
  SparseV.Model.FillPolicy — what property C07 demands of the generated fill-policy table
  (`Gen.fillFacts` / `Gen.fillPolicy`, regenerated from the source on every run) and the two
  decision rules (`Gen.arrayGuard`, `Gen.denseMix`).  Core Lean only (linked into the driver).
-/
import SparseV.Generated.FillPolicy
namespace SparseV.FillPolicy
open SparseV SparseV.Gen

/-- policy of a public function in a table (`none`: not in the table) -/
def policyOf (t : List (String × Policy)) (n : String) : Option Policy := t.lookup n

/-- Operations the property lists as defined for zero fill only: the products, `nonzero`/`argwhere`,
`triu`/`tril`, one-argument `where` (the guard sits in that branch of `where`), and the matrix exports
`tocsr`/`tocsc`.  `outer` and `vecdot` are absent on purpose: the code computes them through the
element-wise machinery and reductions, which are right for every fill (leg C checks that). -/
def zeroOnly : List String :=
  ["sparse.dot", "sparse.matmul", "sparse.tensordot", "sparse.einsum", "sparse.kron",
   "sparse.nonzero", "sparse.argwhere", "sparse.triu", "sparse.tril", "sparse.where",
   "COO.dot", "COO.__matmul__", "COO.__rmatmul__", "COO.nonzero", "COO.tocsr", "COO.tocsc",
   "GCXS.dot", "GCXS.__matmul__", "GCXS.__rmatmul__"]

/-- joins: differently filled operands must be rejected -/
def joins : List String := ["sparse.concatenate", "sparse.concat", "sparse.stack"]

/-- scipy export: accepted fill values are checked (`check_fill_value`, default: zero only) -/
def exports : List String := ["COO.to_scipy_sparse", "GCXS.to_scipy_sparse"]

/-- the public functions that drop the fill value -/
def publicDrops (t : List (String × Policy)) : List String :=
  (t.filter (fun e => e.2 == Policy.drops)).map (·.1)

/-- the listed functions have the listed guard -/
def guardsOk (t : List (String × Policy)) : Bool :=
  zeroOnly.all (fun n => policyOf t n == some Policy.requiresZero) &&
  joins.all (fun n => policyOf t n == some Policy.requiresConsistent) &&
  exports.all (fun n => policyOf t n == some Policy.checks)

/-- the full demand of C07 on the table, as a Boolean -/
def soundB (t : List (String × Policy)) : Bool := (publicDrops t).isEmpty && guardsOk t

/-- a private helper that drops is acceptable only behind a guard of every public caller; this lists the
private droppers (reported in the evidence) -/
def privateDrops (fs : List FillFacts) (ps : List Policy) : List String :=
  ((fs.zip ps).filter (fun e => !e.1.isPublic && e.2 == Policy.drops)).map (·.1.name)

/-! ## the fill contribution of an add-reduction -/

/-- SPECIFICATION: what NumPy adds for `n` positions that all hold the fill value — the sum of `n` copies, from zero -/
def sumRep (fill : Ext) : Nat → Ext
  | 0 => .fin 0
  | n + 1 => Ext.add (sumRep fill n) fill

/-- the one place where `fill * n` is NOT the sum of `n` copies of the fill: no copies at all and a fill that is not finite
(`inf * 0`, `nan * 0`); the code must not multiply there (it did until 31e7856: former finding F-sum-nonfinite-fill) -/
def ExcludedFullLane (fill : Ext) (missing : Nat) : Bool := missing == 0 && !fill.isFinite

end SparseV.FillPolicy

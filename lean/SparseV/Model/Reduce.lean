/-
  SparseV.Model.Reduce — `SparseArray.reduce` + `COO._reduce_calc/_reduce_return`
  (`_sparse_array.py`, `_coo/core.py`): transpose the kept axes first, reshape to 2-D,
  reduce runs of equal row number left to right (`ufunc.reduceat`), correct for the unstored
  cells of each row with the fill value, prune, reshape back.
-/
import SparseV.Model.Coo
import SparseV.Generated.Utils
namespace SparseV

/-- the reduction ufuncs the harness drives through the model -/
inductive RedOp where
  | add | mul | max | min
  deriving Repr, DecidableEq

namespace RedOp
def ap : RedOp → Int → Int → Int
  | .add, a, b => a + b
  | .mul, a, b => a * b
  | .max, a, b => Max.max a b
  | .min, a, b => Min.min a b
/-- `_reduce_super_ufunc`: add ↦ multiply, multiply ↦ power -/
def super? : RedOp → Option (Int → Nat → Int)
  | .add => some fun f k => f * k
  | .mul => some fun f k => f ^ k
  | _ => none
end RedOp

/-- runs of equal first coordinate in a list sorted by it: (row, left fold of the values, count) —
`_grouped_reduce` (`ufunc.reduceat` folds each segment left to right) / `_calc_counts_invidx` -/
def groupRunsAux (op : Int → Int → Int) : Nat × Int × Nat → List (Nat × Int) → List (Nat × Int × Nat)
  | cur, [] => [cur]
  | (r, acc, n), (r', v) :: rest =>
    if r = r' then groupRunsAux op (r, op acc v, n + 1) rest
    else (r, acc, n) :: groupRunsAux op (r', v, 1) rest

def groupRuns (op : Int → Int → Int) : List (Nat × Int) → List (Nat × Int × Nat)
  | [] => []
  | (r, v) :: rest => groupRunsAux op (r, v, 1) rest

inductive RedResult where
  | scalar (v : Int)
  | arr (x : COO Int)

namespace COO

/-- `reduce(method, axis, keepdims)` on a COO array; `axes` already normalised (non-negative,
in range), `none` = all axes -/
def reduceCore (op : RedOp) (x : COO Int) (axes : Option (List Nat)) (keepdims : Bool) :
    Except Err RedResult := do
  -- admissibility (`zero_reduce_result` test)
  if op.ap x.fill x.fill ≠ x.fill ∧ op.super?.isNone then throw .value
  let nd := x.shape.length
  let axes := match axes with | none => List.range nd | some a => a
  -- nothing to reduce over and no super ufunc: the ufunc's identity, or ValueError when it has none
  -- (`maximum` / `minimum`, the idempotent ops driven through the model, have none)
  if op.super?.isNone ∧ axes.any (fun a => x.shape.getD a 0 == 0) then throw .value
  let kept := (List.range nd).filter fun a => !axes.contains a
  let a := (x.transposeCore (kept ++ axes)).reshapeCore
    [prod (kept.map fun d => x.shape.getD d 0), prod (axes.map fun d => x.shape.getD d 0)]
  let nCols := a.shape.getD 1 0
  let runs := groupRuns op.ap (a.entries.map fun e => (e.1.getD 0 0, e.2))
  let (data, fill') : List (Nat × Int) × Int :=
    match op.super? with
    | none => (runs.map fun (r, v, n) => (r, if n ≠ nCols then op.ap v x.fill else v), x.fill)
    | some sup => (runs.map fun (r, v, n) => (r, op.ap v (sup x.fill (nCols - n))), sup x.fill nCols)
  let out1 : COO Int := COO.build [a.shape.getD 0 0] (data.map fun (r, v) => ([r], v)) fill' true false true
  let out := out1.reshapeCore (kept.map fun d => x.shape.getD d 0)
  let out := if keepdims then
      out.reshapeCore ((List.range nd).map fun d => if axes.contains d then 1 else x.shape.getD d 0)
    else out
  if out.shape.length = 0 then
    pure (.scalar (match out.entries with | e :: _ => e.2 | [] => out.fill))
  else pure (.arr out)

/-- `reduce` with the user's axis argument: each axis goes through the GENERATED
`Gen.normalizeAxisInt` (`ValueError` when out of range); repeated axes are rejected by `transpose`. -/
def reduce (op : RedOp) (x : COO Int) (axes : Option (List Int)) (keepdims : Bool) : Except Err RedResult := do
  match axes with
  | none => reduceCore op x none keepdims
  | some as =>
    let norm ← as.mapM fun a => (Gen.normalizeAxisInt a x.shape.length).map Int.toNat
    if !norm.Nodup then throw .value
    reduceCore op x (some norm) keepdims

end COO
end SparseV

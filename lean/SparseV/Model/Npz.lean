/-
  SparseV.Model.Npz — executable model of copying and persistence (property C14), following
  sparse/numba_backend/_io.py (save_npz / load_npz), _coo/core.py (COO.__getstate__/__setstate__, copy)
  and _coo/numba_extension.py (unbox_COO / box_COO).  Core Lean only.

  Everything that is a *table in the code* — which members are written for which class, which members
  each `try` block of `load_npz` subscripts and in which order, how `compressed_axes = None` is stored,
  the pickle state tuple, the struct members and the element type of the native `shape` tuple — comes
  from `SparseV.Generated.Npz`, regenerated from /repo on every run (tie T1).  What is hand-written
  here (tie T2, compared with the implementation by harness/c14.py) is the behaviour of `np.savez` /
  `np.load` on a member (`None` becomes an object array; object arrays are refused without
  `allow_pickle`), the order in which the two constructors on the load path run their checks, and CPython's
  copy protocol.  The consistency checks themselves (`Gen.cooCtorChecks`, `Gen.shapeEltOk`,
  `Gen.gcxsCtorChecks`, `Gen.gcxsShapeEltOk`) are translated from `COO.__init__`, `SparseArray.__init__` and
  `GCXS.__init__` by tools/targets.d/C14.py (tie T1).

  Arrays are *raw representations*: all index arrays are `List Int` exactly as stored; nothing is
  interpreted, because `load_npz` interprets nothing.
-/
import SparseV.Model.Basic
import SparseV.Generated.Npz
import SparseV.Generated.Compressed
import SparseV.Generated.CooCore
import SparseV.Generated.SparseArray
namespace SparseV.Npz
open SparseV


/-! ## payloads, member maps, arrays -/

/-- a 2-d integer array (`coords`): `nrows × ncols`, `rows` = the rows in order (raw: not enforced) -/
structure Mat where
  nrows : Nat
  ncols : Nat
  rows : List (List Int)
  deriving DecidableEq, Repr

/-- `np.zeros((n, 0))` -/
def Mat.empty (n : Nat) : Mat := ⟨n, 0, List.replicate n []⟩

/-- what one npz member holds.  `object` is an array of dtype object (what `np.savez` makes of `None`,
of a dict …): `np.load(..., allow_pickle=False)` refuses to read it.  The kind of a member is fixed by
its role (`data`: `vals`, `fill_value`: `val`, `coords`: `mat`, everything else: `ints`); a member of
the wrong kind is outside the modelled domain and answers `Err.type`. -/
inductive Payload (α : Type) where
  | object
  | val (v : α)
  | vals (v : List α)
  | ints (v : List Int)
  | mat (m : Mat)
  deriving DecidableEq, Repr

/-- number of entries of a 1-d member -/
def Payload.count {α} : Payload α → Nat
  | .vals v => v.length
  | .ints v => v.length
  | _ => 0

/-- the content of an npz file as `np.load` presents it: member name ↦ payload (first occurrence wins) -/
abbrev Members (α : Type) := List (String × Payload α)

def lookup {α} (m : Members α) (k : String) : Option (Payload α) :=
  match m with
  | [] => none
  | (k', p) :: rest => if k' = k then some p else lookup rest k

/-- a sparse array as its stored fields.  `exact = false` marks an instance of a *subclass* of GCXS
(CSR, CSC): `type(x) is GCXS` is false for it, `isinstance(x, GCXS)` is true. -/
inductive Arr (α : Type) where
  | coo (shape : List Int) (coords : Mat) (data : List α) (fill : α)
  | gcxs (exact : Bool) (shape : List Int) (data : List α) (indices indptr : List Int)
      (caxes : Option (List Int)) (fill : α)
  deriving DecidableEq, Repr

namespace Arr
variable {α : Type}
def clsName : Arr α → String
  | .coo .. => "COO"
  | .gcxs .. => "GCXS"
def exact : Arr α → Bool
  | .coo .. => true
  | .gcxs e .. => e
def shape : Arr α → List Int
  | .coo s .. => s
  | .gcxs _ s .. => s
/-- what a loader can reproduce at best: the format class, not the subclass (no member records it) -/
def norm : Arr α → Arr α
  | .coo s c d f => .coo s c d f
  | .gcxs _ s d i p ca f => .gcxs true s d i p ca f
end Arr

/-! ## save_npz -/

/-- how `compressed_axes` is handed to `np.savez`: a tuple becomes an integer array; `None` becomes an
object array unless `save_npz` encodes it as an empty array (generated flag) -/
def encAxes {α} : Option (List Int) → Payload α
  | some l => .ints l
  | none => if Gen.npzNoneAxesAsEmpty then .ints [] else .object

/-- `matrix.<attr>` as the payload `np.savez` stores; `none` = AttributeError -/
def Arr.attr {α} : Arr α → String → Option (Payload α)
  | .coo s c d f, a =>
    if a = "data" then some (.vals d) else if a = "shape" then some (.ints s)
    else if a = "fill_value" then some (.val f) else if a = "coords" then some (.mat c) else none
  | .gcxs _ s d i p ca f, a =>
    if a = "data" then some (.vals d) else if a = "shape" then some (.ints s)
    else if a = "fill_value" then some (.val f) else if a = "indices" then some (.ints i)
    else if a = "indptr" then some (.ints p) else if a = "compressed_axes" then some (encAxes ca) else none

/-- one test of the type dispatch: `type(matrix) is C` (exact) or `isinstance(matrix, C)` -/
def branchMatches {α} (x : Arr α) (b : String × Bool × List (String × String)) : Bool :=
  b.1 == x.clsName && (x.exact || !b.2.1)

/-- (member, attribute) pairs `save_npz` puts into `nodes` for this matrix -/
def writeList {α} (x : Arr α) : List (String × String) :=
  Gen.npzCommon ++ (match Gen.npzWrite.find? (branchMatches x) with
    | some b => b.2.2
    | none => [])

def collect {α} (x : Arr α) : List (String × String) → Except Err (Members α)
  | [] => .ok []
  | (k, a) :: rest =>
    match x.attr a with
    | none => .error .internal
    | some p =>
      match collect x rest with
      | .ok m => .ok ((k, p) :: m)
      | .error e => .error e

/-- `save_npz`: the member map written (the container around it is NumPy's) -/
def save {α} (x : Arr α) : Except Err (Members α) := collect x (writeList x)

/-! ## load_npz -/

/-- why a `try` block of `load_npz` stopped -/
inductive BrErr where
  | key               -- KeyError: caught, the next block is tried
  | err (e : Err)     -- anything else propagates
  deriving DecidableEq, Repr

/-- the subscripts `fp[k]` of one `try` block, in order: KeyError if the member is absent, ValueError if it
is an object array (no `allow_pickle`) -/
def fetchAll {α} (m : Members α) : List String → Except BrErr (Members α)
  | [] => .ok []
  | k :: ks =>
    match lookup m k with
    | none => .error .key
    | some .object => .error (.err .value)
    | some p =>
      match fetchAll m ks with
      | .ok r => .ok ((k, p) :: r)
      | .error e => .error e

/-- `if shape and not self.coords.size: self.coords = np.zeros((len(shape), 0))` -/
def fixCoords (shape : List Int) (c : Mat) : Mat :=
  if shape ≠ [] ∧ c.nrows * c.ncols = 0 then Mat.empty shape.length else c

/-- `COO(coords, data, shape, sorted=True, has_duplicates=False, fill_value=fill)`: with these promises the
constructor runs no normalisation pass; what is left are its consistency checks (all ValueError):
`SparseArray.__init__` on the shape (`Gen.shapeEltOk` per extent), then the GENERATED `Gen.cooCtorChecks`
on the lengths — for every shape, `()` included.  A `Mat` is 2-dimensional by type. -/
def cooCtor {α} (c : Mat) (d : List α) (s : List Int) (f : α) : Except Err (Arr α) :=
  let c := fixCoords s c
  if ¬ (s.all Gen.shapeEltOk) then .error .value
  else
    match Gen.cooCtorChecks 2 d.length c.ncols s.length c.nrows with
    | .error e => .error e
    | .ok () => .ok (.coo s c d f)

/-- `load_npz`: an empty `compressed_axes` member stands for `None` iff the generated flag says so -/
def decodeAxes (l : List Int) : Option (List Int) :=
  if Gen.npzEmptyAxesAsNone ∧ l = [] then none else some l

/-- `check_compressed_axes(ndim, axes)`: `None` passes; otherwise not all axes, "sorted without repeats"
(`axesOk`, a parameter: the code's test `list(set(axes)) == axes` depends on CPython's set order), and every
axis in range — `min(axes)` of an empty sequence raises ValueError as well. -/
def checkAxes (axesOk : List Int → Bool) (ndim : Nat) : Option (List Int) → Except Err Unit
  | none => .ok ()
  | some l =>
    if l.length = ndim then .error .value
    else if ¬ axesOk l then .error .value
    else if l = [] then .error .value
    else if ¬ (l.all fun a => decide (0 ≤ a ∧ a < (ndim : Int))) then .error .value
    else .ok ()

/-- `if len(shape) == 1: compressed_axes = None` -/
def normAxes (s : List Int) (ca : Option (List Int)) : Option (List Int) :=
  if s.length = 1 then none else ca

/-- `reduce(operator.mul, (int(shape[a]) for a in compressed_axes), 1)`: the number of compressed rows
(the axes are within `[0, ndim)` when this is evaluated: `check_compressed_axes` ran before) -/
def rowsOf (s : List Int) : List Int → Int
  | [] => 1
  | a :: as => s.getD a.toNat 0 * rowsOf s as

/-- `reduce(operator.mul, (int(sh) for a, sh in enumerate(shape) if a not in compressed_axes), 1)`: the extent of
the linearised uncompressed axes; `colsFrom l k rest` = the product over `rest`, whose first extent has axis number `k` -/
def colsFrom (l : List Int) : Nat → List Int → Int
  | _, [] => 1
  | k, sh :: rest => (if l.contains (k : Int) then 1 else sh) * colsFrom l (k + 1) rest

def colsOf (s l : List Int) : Int := colsFrom l 0 s

/-- `np.any(indptr[1:] < indptr[:-1])`: some entry is smaller than its predecessor -/
def ptrDecreases : List Int → Bool
  | a :: b :: rest => decide (b < a) || ptrDecreases (b :: rest)
  | _ => false

/-- `np.min` of a non-empty integer array (never evaluated on an empty one: guarded by `len(self.indices)`) -/
def listMin : List Int → Int
  | [] => 0
  | [a] => a
  | a :: as => min a (listMin as)

/-- `np.max` of a non-empty integer array -/
def listMax : List Int → Int
  | [] => 0
  | [a] => a
  | a :: as => max a (listMax as)

/-- the consistency checks of `GCXS.__init__` on `(data, indices, indptr)`: the GENERATED
`Gen.gcxsCtorChecks` on the lengths, the two end entries of `indptr`, the products of the compressed and of the
uncompressed extents, whether `indptr` decreases somewhere, and the least and greatest stored index.  `data` and
`indices` are 1-dimensional by type.  `indptr[0]` / `indptr[-1]` are evaluated only after `len(indptr) = rows + 1 ≥ 1`
has passed and `np.min` / `np.max` only when there are indices, so the defaults for empty arrays are never looked at.
With `compressed_axes = None` and two or more dimensions the products iterate over `None`: TypeError, after
the checks that come before them (the GENERATED `Gen.gcxsCtorChecksHead`). -/
def gcxsChecks {α} (d : List α) (i p : List Int) (ca : Option (List Int)) (s : List Int) : Except Err Unit :=
  let shapeOk := s.all Gen.gcxsShapeEltOk
  match ca with
  | some l =>
    Gen.gcxsCtorChecks 1 shapeOk s.length (s.headD 0) d.length i.length p.length (rowsOf s l) (colsOf s l)
      (p.headD 0) (p.getLastD 0) (ptrDecreases p) 1 (listMin i) (listMax i)
  | none =>
    if 2 ≤ s.length then
      match Gen.gcxsCtorChecksHead 1 shapeOk s.length d.length i.length with
      | .error e => .error e
      | .ok () => .error .type
    else
      Gen.gcxsCtorChecks 1 shapeOk s.length (s.headD 0) d.length i.length 0 0 0 0 0 false 1 (listMin i) (listMax i)

/-- `GCXS((data, indices, indptr), shape=…, fill_value=…, compressed_axes=…)`: `check_compressed_axes`, the
`None` for one dimension, then the consistency checks (lengths, end pointers, `indptr` non-decreasing, every index
within the uncompressed extent); the order and multiplicity of the indices within a row are not looked at.
The result is always of exact type GCXS. -/
def gcxsCtor {α} (axesOk : List Int → Bool) (d : List α) (i p : List Int) (ca : Option (List Int))
    (s : List Int) (f : α) : Except Err (Arr α) :=
  match checkAxes axesOk s.length ca with
  | .error e => .error e
  | .ok () =>
    match gcxsChecks d i p (normAxes s ca) s with
    | .error e => .error e
    | .ok () => .ok (.gcxs true s d i p (normAxes s ca) f)

/-- the `return Class(...)` of a `try` block; every field is taken from the fetched member of its own name -/
def construct {α} (axesOk : List Int → Bool) (cls : String) (f : Members α) : Except Err (Arr α) :=
  if cls = "COO" then
    match lookup f "coords", lookup f "data", lookup f "shape", lookup f "fill_value" with
    | some (.mat c), some (.vals d), some (.ints s), some (.val v) => cooCtor c d s v
    | _, _, _, _ => .error .type
  else if cls = "GCXS" then
    match lookup f "data", lookup f "indices", lookup f "indptr", lookup f "compressed_axes",
          lookup f "shape", lookup f "fill_value" with
    | some (.vals d), some (.ints i), some (.ints p), some (.ints ca), some (.ints s), some (.val v) =>
      gcxsCtor axesOk d i p (decodeAxes ca) s v
    | _, _, _, _, _, _ => .error .type
  else .error .internal

/-- the `try` blocks in order; when the last one ends in KeyError: RuntimeError -/
def loadFrom {α} (axesOk : List Int → Bool) (m : Members α) : List (String × List String) → Except Err (Arr α)
  | [] => .error .runtime
  | (cls, req) :: rest =>
    match fetchAll m req with
    | .ok f => construct axesOk cls f
    | .error .key => loadFrom axesOk m rest
    | .error (.err e) => .error e

/-- `load_npz` on the member map -/
def load {α} (axesOk : List Int → Bool) (m : Members α) : Except Err (Arr α) :=
  loadFrom axesOk m Gen.npzRequire

/-- `load_npz(save_npz(x))` -/
def roundtrip {α} (axesOk : List Int → Bool) (x : Arr α) : Except Err (Arr α) :=
  match save x with
  | .ok m => load axesOk m
  | .error e => .error e

/-- strictly increasing: what `axesOk` is for axes that are small non-negative integers -/
def strictlyIncreasing : List Int → Bool
  | a :: b :: rest => decide (a < b) && strictlyIncreasing (b :: rest)
  | _ => true

/-- a member set that passes every check of the constructor although row 0 of the 2×3 array lists its column
indices out of order and one of them twice (`indices[0:3] = [2, 0, 2]`): order and multiplicity within a row are
the part of the contents that is still trusted (witness of `C14.load_row_order_unchecked`; replayed on the real
code by harness/c14.py) -/
def rowOrderWitness : Members Int :=
  [("data", .vals [5, 7, 8, 9]), ("shape", .ints [2, 3]), ("fill_value", .val 0), ("indices", .ints [2, 0, 2, 1]),
   ("indptr", .ints [0, 3, 4]), ("compressed_axes", .ints [0])]

/-! ## invariants of the arrays the library builds -/

def Mat.WF (c : Mat) : Prop := c.rows.length = c.nrows ∧ ∀ r ∈ c.rows, r.length = c.ncols
instance (c : Mat) : Decidable c.WF := by unfold Mat.WF; infer_instance

/-- every stored index lies in `[0, n)` -/
def InRange (i : List Int) (n : Int) : Prop := ∀ x ∈ i, 0 ≤ x ∧ x < n
instance (i : List Int) (n : Int) : Decidable (InRange i n) := by unfold InRange; infer_instance

/-- what the consistency checks of `GCXS.__init__` establish about `(data, indices, indptr)` — the structural
invariant of a compressed-row layout except for order and uniqueness of the indices within a row:
one value per index (one dimension and up); with one dimension every index is a position of the array; with two
dimensions and up the axes are given, `indptr` has one entry per compressed row plus one, starts at 0, ends at
`len(indices)`, never decreases, and every index is a position in the linearised uncompressed axes. -/
def GcxsStruct {α} (s : List Int) (d : List α) (i p : List Int) (ca : Option (List Int)) : Prop :=
  (s ≠ [] → d.length = i.length) ∧
  (s.length = 1 → InRange i (s.headD 0)) ∧
  (2 ≤ s.length → ∃ l, ca = some l ∧ (p.length : Int) = rowsOf s l + 1 ∧ p.head? = some 0
    ∧ p.getLast? = some (i.length : Int) ∧ p.Pairwise (· ≤ ·) ∧ InRange i (colsOf s l))

instance {α} (s : List Int) (d : List α) (i p : List Int) (ca : Option (List Int)) : Decidable (GcxsStruct s d i p ca) := by
  unfold GcxsStruct
  cases ca with
  | none =>
    exact decidable_of_iff ((s ≠ [] → d.length = i.length) ∧ (s.length = 1 → InRange i (s.headD 0)) ∧ ¬ 2 ≤ s.length) (by simp)
  | some l =>
    exact decidable_of_iff ((s ≠ [] → d.length = i.length) ∧ (s.length = 1 → InRange i (s.headD 0)) ∧
      (2 ≤ s.length → (p.length : Int) = rowsOf s l + 1 ∧ p.head? = some 0 ∧ p.getLast? = some (i.length : Int)
        ∧ p.Pairwise (· ≤ ·) ∧ InRange i (colsOf s l))) (by simp)

/-- invariants of a COO / GCXS object as the library constructs it — exactly what the two constructors check
(nothing about the order of the stored entries: persistence does not depend on it) -/
def Arr.WF {α} (axesOk : List Int → Bool) : Arr α → Prop
  | .coo s c d _ => (∀ e ∈ s, 0 ≤ e) ∧ c.WF ∧ c.nrows = s.length ∧ d.length = c.ncols
  | .gcxs _ s d i p ca _ =>
    (∀ e ∈ s, 0 ≤ e) ∧ GcxsStruct s d i p ca ∧
    match ca with
    | none => True
    | some l => l ≠ [] ∧ l.length ≠ s.length ∧ s.length ≠ 1 ∧ axesOk l = true ∧ ∀ a ∈ l, 0 ≤ a ∧ a < (s.length : Int)

instance {α} (axesOk : List Int → Bool) (x : Arr α) : Decidable (x.WF axesOk) := by
  cases x with
  | coo s c d f => unfold Arr.WF; infer_instance
  | gcxs e s d i p ca f => cases ca <;> unfold Arr.WF <;> infer_instance

/-- the `save_npz` dispatch tests GCXS by exact type -/
def gcxsExactTest : Bool :=
  match Gen.npzWrite.find? (fun b => b.1 == "GCXS") with
  | some b => b.2.1
  | none => true

/-- the arrays on which the code in /repo (as described by the generated tables) does not round-trip:
instances of GCXS subclasses while the dispatch tests the exact type, and `compressed_axes = None`
(fewer than two dimensions) unless `None` is stored as an empty array and decoded to `None` again. -/
def Excluded {α} : Arr α → Prop
  | .coo .. => False
  | .gcxs e _ _ _ _ ca _ =>
    (e = false ∧ gcxsExactTest = true)
    ∨ (ca = none ∧ ¬ (Gen.npzNoneAxesAsEmpty = true ∧ Gen.npzEmptyAxesAsNone = true))

instance {α} (x : Arr α) : Decidable (Excluded x) := by
  cases x <;> unfold Excluded <;> infer_instance

/-! ## the file around the members: NumPy's zip/npy container, abstract -/

/-- the container `np.savez` / `np.load` provide.  Nothing is assumed about it here; the theorems that
talk about damaged files take its relevant behaviour as explicit hypotheses. -/
structure Container (α : Type) where
  /-- `np.savez(_compressed)`: the bytes of the file -/
  write : Members α → List UInt8
  /-- `np.load` and reading every member through the zip reader (error: the exception it raises) -/
  read : List UInt8 → Except Err (Members α)
  /-- the byte string ends with a zip end-of-central-directory record (what the reader looks for first) -/
  EndsWithDirectory : List UInt8 → Prop
  /-- the archive that directory describes does not start at byte 0 (`header_offset ≠ 0`) -/
  hasLeadingData : List UInt8 → Bool

/-- `load_npz` on a file -/
def loadFile {α} (C : Container α) (axesOk : List Int → Bool) (b : List UInt8) : Except Err (Arr α) :=
  match C.read b with
  | .error e => .error e
  | .ok m => if Gen.npzRejectLeadingData = true ∧ C.hasLeadingData b = true then .error .runtime else load axesOk m

/-- `p` is a strict prefix of `b` -/
def StrictPrefix (p b : List UInt8) : Prop := p <+: b ∧ p ≠ b

/-- every member name `load_npz` ever asks for -/
def vocabulary : List String := Gen.npzRequire.flatMap (·.2)

/-- in `m`, whenever a later `try` block finds all its members, every earlier block ends in KeyError
(true of everything `save_npz` writes: the index members of the two formats are disjoint) -/
def Decisive {α} (m : Members α) : List (String × List String) → Prop
  | [] => True
  | (_, req) :: rest =>
    ((∃ b ∈ rest, ∀ k ∈ b.2, lookup m k ≠ none) → fetchAll m req = .error .key) ∧ Decisive m rest

/-! ## pickle: `COO.__getstate__` / `__setstate__` -/

/-- a COO object: stored fields plus the `_cache` attribute (`none` = caching off) -/
structure CooObj (α : Type) where
  coords : Mat
  data : List α
  shape : List Int
  fill : α
  cache : Option (List (String × Nat))
  deriving DecidableEq, Repr

def CooObj.attr {α} (x : CooObj α) (a : String) : Option (Payload α) :=
  if a = "coords" then some (.mat x.coords) else if a = "data" then some (.vals x.data)
  else if a = "shape" then some (.ints x.shape) else if a = "fill_value" then some (.val x.fill) else none

def attrsOf {α} (at_ : String → Option (Payload α)) : List String → Except Err (List (Payload α))
  | [] => .ok []
  | a :: rest =>
    match at_ a with
    | none => .error .internal
    | some p =>
      match attrsOf at_ rest with
      | .ok r => .ok (p :: r)
      | .error e => .error e

/-- `__getstate__`: the tuple of the attributes named by the generated list -/
def getstate {α} (x : CooObj α) : Except Err (List (Payload α)) := attrsOf x.attr Gen.cooGetState

/-- an object fresh from `__new__`: no attribute set yet -/
structure Partial (α : Type) where
  coords : Option Mat := none
  data : Option (List α) := none
  shape : Option (List Int) := none
  fill : Option α := none
  cache : Option (Option (List (String × Nat))) := none

def Partial.assign {α} (o : Partial α) (a : String) (p : Payload α) : Except Err (Partial α) :=
  if a = "coords" then (match p with | .mat m => .ok { o with coords := some m } | _ => .error .type)
  else if a = "data" then (match p with | .vals d => .ok { o with data := some d } | _ => .error .type)
  else if a = "shape" then (match p with | .ints s => .ok { o with shape := some s } | _ => .error .type)
  else if a = "fill_value" then (match p with | .val v => .ok { o with fill := some v } | _ => .error .type)
  else .error .internal

def Partial.assignAll {α} (o : Partial α) : List String → List (Payload α) → Except Err (Partial α)
  | [], [] => .ok o
  | a :: as, p :: ps =>
    match o.assign a p with
    | .ok o' => o'.assignAll as ps
    | .error e => .error e
  | _, _ => .error .value   -- tuple unpacking with the wrong number of values: ValueError

def Partial.reset {α} (o : Partial α) : List String → Except Err (Partial α)
  | [] => .ok o
  | a :: rest => if a = "_cache" then ({ o with cache := some none } : Partial α).reset rest else .error .internal

/-- every attribute the class uses must have been set (else AttributeError at first use) -/
def Partial.complete {α} (o : Partial α) : Except Err (CooObj α) :=
  match o.coords, o.data, o.shape, o.fill, o.cache with
  | some c, some d, some s, some f, some ch => .ok ⟨c, d, s, f, ch⟩
  | _, _, _, _, _ => .error .internal

/-- `__setstate__` on a fresh object -/
def setstate {α} (st : List (Payload α)) : Except Err (CooObj α) :=
  match ({} : Partial α).assignAll Gen.cooSetState st with
  | .error e => .error e
  | .ok o =>
    match o.reset Gen.cooSetStateReset with
    | .error e => .error e
    | .ok o => o.complete

/-- `pickle.loads(pickle.dumps(x))` / `copy.copy(x)` at the level of values: `__reduce_ex__` gives
`(copyreg.__newobj__, (COO,), state)`; the state tuple itself is transported by pickle (CPython/NumPy). -/
def pickleRoundtrip {α} (x : CooObj α) : Except Err (CooObj α) :=
  match getstate x with
  | .ok st => setstate st
  | .error e => .error e

/-! ## copy: buffers and references -/

/-- the buffers alive in the process; a reference is an index -/
structure Heap (α : Type) where
  mats : List Mat
  vecs : List (List α)

/-- a COO object whose two arrays are references into the heap -/
structure CooRef (α : Type) where
  coords : Nat
  data : Nat
  shape : List Int
  fill : α
  cache : Option (List (String × Nat))

def Heap.Valid {α} (h : Heap α) (o : CooRef α) : Prop := o.coords < h.mats.length ∧ o.data < h.vecs.length

def Heap.deref {α} (h : Heap α) (o : CooRef α) : Option (CooObj α) :=
  match h.mats[o.coords]?, h.vecs[o.data]? with
  | some c, some d => some ⟨c, d, o.shape, o.fill, o.cache⟩
  | _, _ => none

/-- `copy.copy(x)`: `__setstate__(__getstate__())` on a new object — the same array objects, no cache -/
def shallowCopy {α} (o : CooRef α) : CooRef α := { o with cache := none }

/-- `copy.deepcopy(x)`: the state tuple is deep-copied first: `ndarray.__deepcopy__` allocates new buffers
with equal contents; the shape tuple and the fill scalar are immutable -/
def deepCopy {α} (h : Heap α) (o : CooRef α) : Heap α × CooRef α :=
  ({ mats := h.mats ++ [h.mats.getD o.coords (Mat.empty 0)], vecs := h.vecs ++ [h.vecs.getD o.data []] },
   { o with coords := h.mats.length, data := h.vecs.length, cache := none })

/-- in-place write into a data buffer (`x.data[...] = v`) -/
def Heap.writeData {α} (h : Heap α) (r : Nat) (v : List α) : Heap α := { h with vecs := h.vecs.set r v }

/-! ## numba: unboxing and boxing of COO -/

/-- an integer dtype -/
structure IntTy where
  bits : Nat
  signed : Bool
  deriving DecidableEq, Repr

/-- 2^(bits-1) for signed, 2^bits for unsigned -/
def IntTy.half (t : IntTy) : Int := 2 ^ (t.bits - 1)
def IntTy.modulus (t : IntTy) : Int := if t.signed then 2 * t.half else 2 ^ t.bits

/-- conversion of a Python int to the native integer type: the value wraps modulo 2^bits -/
def IntTy.wrap (t : IntTy) (v : Int) : Int :=
  if t.signed then (v + t.half) % (2 * t.half) - t.half else v % 2 ^ t.bits

/-- the value is representable in the type -/
def IntTy.fits (t : IntTy) (v : Int) : Prop :=
  if t.signed then -t.half ≤ v ∧ v < t.half else 0 ≤ v ∧ v < 2 ^ t.bits
instance (t : IntTy) (v : Int) : Decidable (t.fits v) := by unfold IntTy.fits; infer_instance

/-- the native shape tuple: elements of the coords dtype, or `intp` (every extent fits) -/
def nativeShape (t : IntTy) (s : List Int) : List Int :=
  if Gen.cooShapeDtype = "coords" then s.map t.wrap else s

/-- `unbox_COO`: every struct member is read from the Python attribute the generated table names; the
`shape` member is converted to the native tuple type -/
def unboxField {α} (t : IntTy) (x : CooObj α) (member : String) : Except Err (Payload α) :=
  match lookupS Gen.cooUnbox member with
  | none => .error .internal
  | some a =>
    match x.attr a with
    | none => .error .internal
    | some p => if member = "shape" then (match p with | .ints s => .ok (.ints (nativeShape t s)) | _ => .error .type) else .ok p
where
  lookupS : List (String × String) → String → Option String
    | [], _ => none
    | (k, v) :: rest, q => if k = q then some v else lookupS rest q

def unboxAll {α} (t : IntTy) (x : CooObj α) : List String → Except Err (Members α)
  | [] => .ok []
  | mbr :: rest =>
    match unboxField t x mbr with
    | .error e => .error e
    | .ok p =>
      match unboxAll t x rest with
      | .ok r => .ok ((mbr, p) :: r)
      | .error e => .error e

/-- the native struct: member ↦ value -/
def unbox {α} (t : IntTy) (x : CooObj α) : Except Err (Members α) := unboxAll t x Gen.cooStruct

/-- positional parameters of `COO.__init__` -/
def cooInitParams : List String := ["coords", "data", "shape"]

def bindArgs {α} (n : Members α) : List String → List String → Except Err (Members α)
  | _, [] => .ok []
  | [], _ :: _ => .error .type
  | p :: ps, mbr :: rest =>
    match lookup n mbr with
    | none => .error .internal
    | some v =>
      match bindArgs n ps rest with
      | .ok r => .ok ((p, v) :: r)
      | .error e => .error e

def bindKwargs {α} (n : Members α) : List (String × String) → Except Err (Members α)
  | [] => .ok []
  | (kw, mbr) :: rest =>
    match lookup n mbr with
    | none => .error .internal
    | some v =>
      match bindKwargs n rest with
      | .ok r => .ok ((kw, v) :: r)
      | .error e => .error e

/-- `box_COO`: calls the Python-level constructor `COO(*args, **kwargs)` (default flags: it sorts and sums
duplicates — `ctor`, the constructor of properties C05/C06, is a parameter here) -/
def box {α} (ctor : Mat → List α → List Int → α → Except Err (CooObj α)) (n : Members α) : Except Err (CooObj α) :=
  match bindArgs n cooInitParams Gen.cooBoxArgs with
  | .error e => .error e
  | .ok pos =>
    match bindKwargs n Gen.cooBoxKwargs with
    | .error e => .error e
    | .ok kw =>
      let b := pos ++ kw
      match lookup b "coords", lookup b "data", lookup b "shape", lookup b "fill_value" with
      | some (.mat c), some (.vals d), some (.ints s), some (.val f) => ctor c d s f
      | _, _, _, _ => .error .type

/-- `numba.njit(lambda s: s)(x)` -/
def boxUnbox {α} (ctor : Mat → List α → List Int → α → Except Err (CooObj α)) (t : IntTy) (x : CooObj α) :
    Except Err (CooObj α) :=
  match unbox t x with
  | .ok n => box ctor n
  | .error e => .error e

/-- the constructor on arguments that are already canonical: checks only (used by the driver; the
normalisation passes are the identity there) -/
def ctorChecked {α} (c : Mat) (d : List α) (s : List Int) (f : α) : Except Err (CooObj α) :=
  match cooCtor c d s f with
  | .ok (.coo s c d f) => .ok ⟨c, d, s, f, none⟩
  | .ok _ => .error .internal
  | .error e => .error e

end SparseV.Npz

/-
  SparseV.Model.MaskCost — the number of loop iterations of `_coo/indexing.py: _compute_mask` (properties C18 and C16).

  `_compute_mask(coords, indices)` walks the axes of a basic index.  It keeps a list of start–stop PAIRS into the sorted coordinates
  (`p` pairs holding `M` stored entries in all: `n_pairs`, `n_matches`).  For the next axis, whose slice has `L` positions, it either

    * searches EVERY position of the slice inside EVERY pair (`_get_mask_pairs`: `L · p` iterations of two binary searches), or
    * leaves the loop and filters the `M` candidate entries one by one (`_filter_pairs`: `M` iterations per remaining axis),

  and it decides with a floating-point heuristic: with `S = L · p + 2` (`n_current_slices`) it leaves when
  `S · log(S / max(p, 1)) > M + p`.  The two sides of that comparison are read from the source (`Gen.maskHeuristicLhs/Rhs`,
  tools/tables.d/C18.py) as `HExpr` trees; this file gives the trees a floating-point evaluation (for the driver) and states what the
  cost statement needs of it (`HeuristicSound`).  Core Lean only.
-/
namespace SparseV
namespace MaskCost

/-- expressions over the counters of the loop -/
inductive HExpr where
  | slices | pairs | nmatch | rangeLen
  | lit (n : Nat)
  | add (a b : HExpr) | mul (a b : HExpr) | div (a b : HExpr) | max (a b : HExpr)
  | log (a : HExpr)
  deriving DecidableEq, Repr

/-- the counters -/
structure Env where
  slices : Nat
  pairs : Nat
  nmatch : Nat
  rangeLen : Nat

/-- IEEE double evaluation, as NumPy evaluates the expression on Python integers -/
def HExpr.evalF (e : Env) : HExpr → Float
  | .slices => e.slices.toFloat | .pairs => e.pairs.toFloat | .nmatch => e.nmatch.toFloat | .rangeLen => e.rangeLen.toFloat
  | .lit n => n.toFloat
  | .add a b => a.evalF e + b.evalF e
  | .mul a b => a.evalF e * b.evalF e
  | .div a b => a.evalF e / b.evalF e
  | .max a b => let x := a.evalF e; let y := b.evalF e; if x < y then y else x
  | .log a => Float.log (a.evalF e)

/-- exact evaluation of an expression without `log` and `div` (the definition of `n_current_slices`) -/
def HExpr.evalN (e : Env) : HExpr → Option Nat
  | .slices => some e.slices | .pairs => some e.pairs | .nmatch => some e.nmatch | .rangeLen => some e.rangeLen
  | .lit n => some n
  | .add a b => do let x ← a.evalN e; let y ← b.evalN e; pure (x + y)
  | .mul a b => do let x ← a.evalN e; let y ← b.evalN e; pure (x * y)
  | .max a b => do let x ← a.evalN e; let y ← b.evalN e; pure (Nat.max x y)
  | .div _ _ => none
  | .log _ => none

/-- the heuristic as this model was written against: `n_current_slices * np.log(n_current_slices / max(n_pairs, 1)) > n_matches + n_pairs`,
`n_current_slices = len(range(…)) * n_pairs + 2` -/
def lhsAsRead : HExpr := .mul .slices (.log (.div .slices (.max .pairs (.lit 1))))
def rhsAsRead : HExpr := .add .nmatch .pairs
def slicesAsRead : HExpr := .add (.mul .rangeLen .pairs) (.lit 2)

/-- the loop goes on with pairs (does NOT break) for `S` slices, `p` pairs, `M` matches: floating-point evaluation of a guard `lhs > rhs` -/
def takePairsF (lhs rhs : HExpr) (S p M : Nat) : Bool :=
  let e : Env := { slices := S, pairs := p, nmatch := M, rangeLen := 0 }
  !(lhs.evalF e > rhs.evalF e)

/-- What the cost statement uses of the floating-point evaluation of the guard, for a decision function `take S p M` ("the loop goes on with
pairs"): when the slices outnumber three times the pairs, going on with pairs implies `S ≤ M + p`.  For the guard as read this is
`log(S / max(p, 1)) ≥ log 3 > 1` (`e < 3`), hence `S < S · log(S / max(p,1)) ≤ M + p`; it is a fact about IEEE `log` and `*`, assumed here
and sampled through the driver by the check (`heuristic_sound_probe`). -/
def HeuristicSound (take : Nat → Nat → Nat → Bool) : Prop :=
  ∀ S p M : Nat, take S p M = true → 3 * Nat.max p 1 ≤ S → S ≤ M + p

/-- one axis of the index as the loop meets it: the slice has `L` positions; if the pair search runs, it leaves `p'` pairs holding `M'` entries -/
structure AxisStep where
  L : Nat
  p' : Nat
  M' : Nat
  deriving Repr

/-- what `_get_mask_pairs` guarantees of its result: every emitted pair is non-empty (`start != stop`) and the pairs are disjoint sub-ranges of
the old ones — at most as many pairs as entries, no more entries than before -/
def Admissible : Nat → List AxisStep → Prop
  | _, [] => True
  | M, a :: as => a.p' ≤ a.M' ∧ a.M' ≤ M ∧ Admissible a.M' as

/-- iterations of the body of `_get_mask_pairs` (two binary searches each) summed over the axes the loop handles with pairs, starting from
`p` pairs holding `M` entries -/
def pairIterations (take : Nat → Nat → Nat → Bool) : Nat → Nat → List AxisStep → Nat
  | _, _, [] => 0
  | p, M, a :: as =>
    if take (a.L * p + 2) p M then a.L * p + pairIterations take a.p' a.M' as else 0

/-- number of axes handled with pairs before the loop leaves -/
def pairAxes (take : Nat → Nat → Nat → Bool) : Nat → Nat → List AxisStep → Nat
  | _, _, [] => 0
  | p, M, a :: as => if take (a.L * p + 2) p M then 1 + pairAxes take a.p' a.M' as else 0

/-- iterations of `_filter_pairs`: every candidate entry is tested against every remaining axis -/
def filterIterations (M remaining : Nat) : Nat := M * remaining

/-- all loop iterations of one call: pair searches while the heuristic goes on with pairs, then the linear filter over the axes that are left -/
def totalIterations (take : Nat → Nat → Nat → Bool) : Nat → Nat → List AxisStep → Nat
  | _, _, [] => 0
  | p, M, a :: as =>
    if take (a.L * p + 2) p M then a.L * p + totalIterations take a.p' a.M' as
    else filterIterations M (as.length + 1)

end MaskCost
end SparseV

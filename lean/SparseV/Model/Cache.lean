/-
  SparseV.Model.Cache — the per-array cache of a cache-enabled COO array as a state machine.

  Source (sparse/numba_backend/_coo/core.py):
    enable_caching : self._cache = defaultdict(lambda: deque(maxlen=3))
    transpose      : if axes == tuple(range(ndim)): return self
                     for ax, value in self._cache["transpose"]: if ax == axes: return value
                     result = COO(...); self._cache["transpose"].append((axes, result)); return result
    reshape        : if self.shape == shape: return self;  same lookup/append on self._cache["reshape"]
    tocsr          : try return self._csr; try self._csr = self._csc.tocsr(); self._csr = self._tocsr()
    tocsc          : try return self._csc; try self._csc = self._csr.tocsc(); self._csc = self.tocsr().tocsc()

  A deque is the list of its entries in iteration order (oldest first); `append` adds on the right
  and, when the deque is full, drops the leftmost entry.  The computation that a miss performs is a
  parameter (`Ops.compute`), total and pure, returning `Except Err` so that a raising computation is
  modelled as what it is: the exception propagates and nothing is stored.
  Core Lean only.
-/
import SparseV.Model.Basic
namespace SparseV.Cache
open SparseV

/-- outcomes are compared by evaluation in the examples and in the driver -/
instance {ε α : Type} [DecidableEq ε] [DecidableEq α] : DecidableEq (Except ε α)
  | .ok a, .ok b => if h : a = b then isTrue (by rw [h]) else isFalse (by intro h'; cases h'; exact h rfl)
  | .error a, .error b => if h : a = b then isTrue (by rw [h]) else isFalse (by intro h'; cases h'; exact h rfl)
  | .ok _, .error _ => isFalse (by intro h; cases h)
  | .error _, .ok _ => isFalse (by intro h; cases h)

/-- what a cached call is keyed by (the normalised argument the code compares with `==`) -/
inductive Key where
  | transpose (axes : List Nat)
  | reshape (shape : List Nat)
  | csr
  | csc
  deriving DecidableEq, Repr

/-- A call on the array, with its argument normalised the way the method does before it reaches the
cache (axes non-negative, `-1` in a shape resolved).  `reshape` tests `self.shape == shape` on the
caller's tuple BEFORE resolving `-1`, so whether the caller's tuple was literal is part of the call:
`x.reshape((-1, 3))` on a `(2, 3)` array is not the early return, it is a lookup with key `(2, 3)`. -/
inductive Call where
  | transpose (axes : List Nat)
  | reshape (shape : List Nat) (literal : Bool)
  | csr
  | csc
  deriving DecidableEq, Repr

/-- the key a call is cached under -/
def Call.key : Call → Key
  | .transpose axes => .transpose axes
  | .reshape sh _ => .reshape sh
  | .csr => .csr
  | .csc => .csc

/-- `deque(maxlen=3)` -/
def capacity : Nat := 3

/-- a deque of `(key, value)` pairs in iteration order -/
abbrev Cache (Val : Type) := List (Key × Val)

variable {Val : Type}

/-- `for k', v in deque: if k' == k: return v` — the first match in iteration order -/
def lookup (c : Cache Val) (k : Key) : Option Val :=
  (c.find? (fun e => e.1 == k)).map (·.2)

/-- `deque.append` with `maxlen = capacity`: a full deque drops its oldest entry -/
def append (c : Cache Val) (k : Key) (v : Val) : Cache Val :=
  if c.length ≥ capacity then c.drop (c.length + 1 - capacity) ++ [(k, v)] else c ++ [(k, v)]

/-- The array the cache belongs to, seen from the cache: its shape, itself (the two early returns
hand back `self`), the uncached computations and scipy's two conversions. -/
structure Ops (Val : Type) where
  shape : List Nat
  self : Val
  /-- `COO(self.coords[axes,:], …)`, the reshape construction, `check_zero_fill_value; self._tocsr()` -/
  compute : Key → Except Err Val
  csrToCsc : Val → Val
  cscToCsr : Val → Val

/-- the call as executed with caching disabled (`self._cache is None`) -/
def uncached (o : Ops Val) : Call → Except Err Val
  | .transpose axes => if axes = List.range o.shape.length then .ok o.self else o.compute (.transpose axes)
  | .reshape sh lit => if lit = true ∧ sh = o.shape then .ok o.self else o.compute (.reshape sh)
  | .csr => o.compute .csr
  | .csc => (o.compute .csr).map o.csrToCsc

structure State (Val : Type) where
  tr : Cache Val := []
  rs : Cache Val := []
  csr : Option Val := none
  csc : Option Val := none

/-- lookup-or-compute-and-append on one deque -/
def viaDeque (o : Ops Val) (c : Cache Val) (k : Key) : Cache Val × Except Err Val :=
  match lookup c k with
  | some v => (c, .ok v)
  | none =>
    match o.compute k with
    | .error e => (c, .error e)
    | .ok v => (append c k v, .ok v)

/-- one call on a cache-enabled array -/
def step (o : Ops Val) (s : State Val) : Call → State Val × Except Err Val
  | .transpose axes =>
    if axes = List.range o.shape.length then (s, .ok o.self) else
    let r := viaDeque o s.tr (.transpose axes)
    ({ s with tr := r.1 }, r.2)
  | .reshape sh lit =>
    if lit = true ∧ sh = o.shape then (s, .ok o.self) else
    let r := viaDeque o s.rs (.reshape sh)
    ({ s with rs := r.1 }, r.2)
  | .csr =>
    match s.csr with
    | some v => (s, .ok v)
    | none =>
      match s.csc with
      | some c => ({ s with csr := some (o.cscToCsr c) }, .ok (o.cscToCsr c))
      | none =>
        match o.compute .csr with
        | .error e => (s, .error e)
        | .ok v => ({ s with csr := some v }, .ok v)
  | .csc =>
    match s.csc with
    | some v => (s, .ok v)
    | none =>
      match s.csr with
      | some r => ({ s with csc := some (o.csrToCsc r) }, .ok (o.csrToCsc r))
      | none =>
        -- `self.tocsr().tocsc()`: the inner call is the cached `tocsr` with both memos unset
        match o.compute .csr with
        | .error e => (s, .error e)
        | .ok r => ({ s with csr := some r, csc := some (o.csrToCsc r) }, .ok (o.csrToCsc r))

/-- a sequence of calls: final state and every call's outcome, in order -/
def run (o : Ops Val) : State Val → List Call → State Val × List (Except Err Val)
  | s, [] => (s, [])
  | s, c :: cs =>
    let r := step o s c
    let rest := run o r.1 cs
    (rest.1, r.2 :: rest.2)

/-- the outcomes of a call sequence on a freshly cache-enabled array -/
def outputs (o : Ops Val) (calls : List Call) : List (Except Err Val) := (run o {} calls).2

/-- what the correspondence leg observes after every call: was it served from the cache, and the
keys held by both deques / which memo attributes exist -/
structure Obs where
  hit : Bool
  self : Bool
  ok : Bool
  tr : List Key
  rs : List Key
  csr : Bool
  csc : Bool

def isSelf (o : Ops Val) : Call → Bool
  | .transpose axes => axes = List.range o.shape.length
  | .reshape sh lit => lit && decide (sh = o.shape)
  | _ => false

def isHit (o : Ops Val) (s : State Val) (c : Call) : Bool :=
  !isSelf o c && match c with
  | .transpose _ => (lookup s.tr c.key).isSome
  | .reshape _ _ => (lookup s.rs c.key).isSome
  | .csr => s.csr.isSome
  | .csc => s.csc.isSome

def observe (o : Ops Val) : State Val → List Call → List Obs
  | _, [] => []
  | s, c :: cs =>
    let r := step o s c
    { hit := isHit o s c, self := isSelf o c, ok := r.2.toBool,
      tr := r.1.tr.map (·.1), rs := r.1.rs.map (·.1), csr := r.1.csr.isSome, csc := r.1.csc.isSome }
      :: observe o r.1 cs

end SparseV.Cache

/-
  SparseV.Model.Getitem — model of `_slicing.normalize_index` (tuple level) and of COO `getitem`
  (`_coo/indexing.py`).  Slices and integers are normalised by the GENERATED definitions
  (`normalizeSlice`, `normalizeInt`).
-/
import SparseV.Model.Coo
import SparseV.Model.Slice
import SparseV.Spec.Slice
namespace SparseV

/-- one entry of a user index tuple -/
inductive IxE where
  | int (i : Int)
  | slice (a b c : Option Int)
  | newaxis
  | ellipsis
  | arr (xs : List Int)        -- 1-D integer array
  | barr (bs : List Bool)      -- 1-D boolean array
  deriving Repr

/-- one entry of a normalised index tuple -/
inductive NIx where
  | int (n : Int)
  | slice (a b c : Int)
  | newaxis
  | arr (xs : List Int)
  deriving Repr, DecidableEq

namespace IxE
def isNone : IxE → Bool | .newaxis => true | _ => false
def isEllipsis : IxE → Bool | .ellipsis => true | _ => false
end IxE

def fullSlice : IxE := .slice none none none

/-- `replace_ellipsis` -/
def replaceEllipsis (n : Nat) (idx : List IxE) : Except Err (List IxE) :=
  let locs := (List.range idx.length).filter fun i => (idx.getD i .newaxis).isEllipsis
  match locs with
  | [] => .ok idx
  | [loc] =>
    let nNone := (idx.filter IxE.isNone).length
    let extra : Int := (n : Int) - ((idx.length : Int) - (nNone : Int) - 1)
    .ok (idx.take loc ++ List.replicate extra.toNat fullSlice ++ idx.drop (loc + 1))
  | _ => .error .index

/-- positions of `true` (`np.nonzero` of a 1-D boolean array) -/
def nonzeroPos (bs : List Bool) : List Int :=
  (List.range bs.length).filterMap fun i => if bs.getD i false then some (i : Int) else none

/-- normalise one entry against the extent of its axis (`check_index`, `sanitize_index`,
`replace_none`, `posify_index`, `clip_slice`) -/
def normalizeEntry (e : IxE) (dim : Int) : Except Err NIx :=
  match e with
  | .int i => match normalizeInt i dim with
    | .ok v => .ok (.int v)
    | .error er => .error er
  | .slice a b c =>
    let t := normalizeSlice a b c dim
    .ok (.slice t.1 t.2.1 t.2.2)
  | .arr xs =>
    if xs.any (fun v => decide (v ≥ dim ∨ v < -dim)) then .error .index
    else .ok (.arr (xs.map fun v => if v < 0 then v + dim else v))
  | .barr bs =>
    if (bs.length : Int) ≠ dim then .error .index else .ok (.arr (nonzeroPos bs))
  | .newaxis => .ok .newaxis
  | .ellipsis => .error .internal

/-- `normalize_index` for a tuple index (already wrapped in a tuple) -/
def normalizeIndex (idx : List IxE) (shape : List Nat) : Except Err (List NIx) := do
  let idx ← replaceEllipsis shape.length idx
  let nSliced := (idx.filter fun e => !e.isNone).length
  let idx := idx ++ List.replicate (shape.length - nSliced) fullSlice
  if (idx.filter fun e => !e.isNone).length > shape.length then throw .index
  -- walk the tuple, consuming one axis per non-None entry
  let rec go (es : List IxE) (dims : List Nat) : Except Err (List NIx) :=
    match es with
    | [] => .ok []
    | .newaxis :: rest => do
      let r ← go rest dims
      pure (.newaxis :: r)
    | e :: rest =>
      match dims with
      | [] => .error .index
      | d :: ds => do
        let h ← normalizeEntry e d
        let r ← go rest ds
        pure (h :: r)
  go idx shape

/-- does coordinate `c` lie in the normalised slice, as `range(a, b, s)` -/
def inSlice (a b s c : Int) : Bool :=
  if s > 0 then decide (a ≤ c ∧ c < b ∧ (c - a) % s = 0)
  else if s < 0 then decide (b < c ∧ c ≤ a ∧ (a - c) % (-s) = 0)
  else false

/-- `len(range(a, b, s))` -/
def sliceLen (a b s : Int) : Nat :=
  if s > 0 then (if a < b then ((b - a + s - 1) / s).toNat else 0)
  else if s < 0 then (if b < a then ((a - b + (-s) - 1) / (-s)).toNat else 0)
  else 0

/-- the output index that a stored coordinate `c` gets under the normalised index, if it is
selected (with element `k` of the advanced index arrays), following the loop of `getitem` -/
def outOf (k : Nat) : List NIx → Idx → Bool → Option Idx
  | [], _, _ => some []
  | .newaxis :: rest, c, adv => (outOf k rest c adv).map (0 :: ·)
  | .int n :: rest, ci :: cs, adv => if (ci : Int) = n then outOf k rest cs adv else none
  | .slice a b s :: rest, ci :: cs, adv =>
    if inSlice a b s ci then (outOf k rest cs adv).map ((((ci : Int) - a) / s).toNat :: ·) else none
  | .arr xs :: rest, ci :: cs, adv =>
    if (xs.getD k (-1)) = (ci : Int) then
      (if adv then outOf k rest cs true else (outOf k rest cs true).map (k :: ·))
    else none
  | _ :: _, [], _ => none

/-- result shape -/
def outShape : List NIx → Bool → List Nat
  | [], _ => []
  | .newaxis :: rest, adv => 1 :: outShape rest adv
  | .int _ :: rest, adv => outShape rest adv
  | .slice a b s :: rest, adv => sliceLen a b s :: outShape rest adv
  | .arr xs :: rest, adv => if adv then outShape rest true else xs.length :: outShape rest true

def firstArrLen : List NIx → Option Nat
  | [] => none
  | .arr xs :: _ => some xs.length
  | _ :: rest => firstArrLen rest

def hasNegStep (idx : List NIx) : Bool := idx.any fun e => match e with | .slice _ _ s => decide (s < 0) | _ => false

/-- position of the first array among the non-None entries is 0 and it is the only array -/
def advAtFront (idx : List NIx) : Bool :=
  let nn := idx.filter fun e => match e with | .newaxis => false | _ => true
  let narr := (nn.filter fun e => match e with | .arr _ => true | _ => false).length
  narr = 1 && (match nn.head? with | some (.arr _) => true | _ => false)

def isFullIndex (idx : List NIx) (shape : List Nat) : Bool :=
  idx.length = shape.length && idx.length ≠ 0 &&
  (List.zip idx shape).all fun p => match p.1 with
    | .slice a b s => decide (a = 0 ∧ b = (p.2 : Int) ∧ s = 1)
    | _ => false

/-- result of `getitem`: a sparse array, or a scalar -/
inductive GetResult (α : Type) where
  | arr (x : COO α)
  | scalar (v : α)

namespace COO
variable {α : Type}

/-- COO `getitem` on a normalised index. `lastEllipsis`: the user's index ended in `...`. -/
def getitemN (x : COO α) (idx : List NIx) (lastEllipsis : Bool) : GetResult α :=
  if isFullIndex idx x.shape then .arr x else
  let sel : List (Idx × α) :=
    match firstArrLen idx with
    | none => x.entries.filterMap fun e => (outOf 0 idx e.1 false).map fun j => (j, e.2)
    | some n => (List.range n).flatMap fun k =>
        x.entries.filterMap fun e => (outOf k idx e.1 false).map fun j => (j, e.2)
  let shape := outShape idx false
  let sorted := (firstArrLen idx = none || advAtFront idx) && !hasNegStep idx
  let hasOut := idx.any fun e => match e with | .int _ => false | _ => true
  if hasOut then .arr { shape := shape, entries := if sorted then sel else sortEntries shape sel, fill := x.fill }
  else if lastEllipsis then .arr { shape := [], entries := sel, fill := x.fill }
  else match sel with
    | e :: _ => .scalar e.2
    | [] => .scalar x.fill

/-- `x[index]` for a COO array -/
def getitem (x : COO α) (idx : List IxE) : Except Err (GetResult α) := do
  let lastEllipsis := idx.any IxE.isEllipsis  -- any Ellipsis in the index: NumPy returns a 0-d array
  let n ← normalizeIndex idx x.shape
  pure (x.getitemN n lastEllipsis)

end COO
end SparseV

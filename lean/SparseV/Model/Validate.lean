/-
  SparseV.Model.Validate — the argument validation of the public operations (property C18), following
  the code: `_utils.normalize_axis` (tuple branch over the GENERATED integer branch), `COO.transpose`,
  `COO.reshape`, `COO.__init__` + `SparseArray.__init__`, `_utils.check_compressed_axes`, `GCXS.__init__` (triple form),
  and the NumPy side of each decision (what NumPy rejects).  Pure decisions: shapes in, verdict out.
-/
import SparseV.Model.Basic
import SparseV.Generated.Utils
import SparseV.Generated.Slicing
import SparseV.Model.Width
namespace SparseV
namespace Validate

/-- product of a list of integers (`functools.reduce(operator.mul, shape, 1)` / `np.prod`) -/
def iprod : List Int → Int
  | [] => 1
  | d :: ds => d * iprod ds

/-- `normalize_axis(axis, ndim)` for a tuple of integers: the GENERATED integer branch, element by element,
left to right (the first bad axis raises) -/
def normalizeAxes : List Int → Int → Except Err (List Int)
  | [], _ => .ok []
  | a :: as, ndim =>
    match Gen.normalizeAxisInt a ndim with
    | .error e => .error e
    | .ok v => match normalizeAxes as ndim with
      | .error e => .error e
      | .ok vs => .ok (v :: vs)

/-- the axis tuple of a reduction (`SparseArray.reduce`: normalise, then "duplicate value in 'axis'") -/
def reduceAxes (axes : List Int) (ndim : Nat) : Except Err (List Int) :=
  match normalizeAxes axes ndim with
  | .error e => .error e
  | .ok vs => if vs.Nodup then .ok vs else .error .value

/-- `COO.transpose(axes)`: `None` = reversed; normalise; repeated → ValueError; wrong count → ValueError -/
def transposeAxes (axes : Option (List Int)) (ndim : Nat) : Except Err (List Int) :=
  match axes with
  | none => .ok ((List.range ndim).reverse.map Int.ofNat)
  | some as =>
    match normalizeAxes as ndim with
    | .error e => .error e
    | .ok vs =>
      if ¬ vs.Nodup then .error .value
      else if vs.length ≠ ndim then .error .value
      else .ok vs

/-- NumPy: an axis tuple is a permutation of the axes, entries in `[-ndim, ndim)` -/
def npTransposeOk (as : List Int) (ndim : Nat) : Prop :=
  (∀ a ∈ as, -(ndim : Int) ≤ a ∧ a < (ndim : Int)) ∧
  (as.map fun (a : Int) => if a < 0 then a + (ndim : Int) else a).Nodup ∧ as.length = ndim

instance (as : List Int) (ndim : Nat) : Decidable (npTransposeOk as ndim) := by
  unfold npTransposeOk; infer_instance

/-- the tail of `COO.reshape(shape)` once the unknown extent is filled in: the size test, then the constructor
(`SparseArray.__init__`) rejects negative extents. -/
def reshapeFinish (size : Int) (s : List Int) : Except Err (List Nat) :=
  if size ≠ iprod s then .error .value           -- "cannot reshape array of size … into shape …"
  else if s.any (· < 0) then .error .value       -- `SparseArray.__init__`: "shape must be … non-negative"
  else .ok (s.map Int.toNat)

/-- `COO.reshape(shape)` up to the construction of the result: the shape it will have, or the error.  In the order of the
code: unchanged shape → `self`; some `-1` present: more than one → `ValueError` ("can only specify one unknown
dimension"); `known = reduce(mul, (d for d in shape if d != -1), 1)`; `known == 0 or self.size % known != 0` →
`ValueError`; `extra = self.size // known` (Python's floor division and modulo: `Int.fdiv`, `Int.fmod`) replaces the
`-1`; then the size test and the constructor (`reshapeFinish`).  All in integers: no float division any more. -/
def reshapeShape (old : List Nat) (shape : List Int) : Except Err (List Nat) :=
  if old.map Int.ofNat = shape then .ok old else
  let size : Int := prod old
  if shape.any (· == -1) then
    if 1 < (shape.filter (· == -1)).length then .error .value
    else
      let known := iprod (shape.filter (· != -1))
      if known = 0 ∨ Int.fmod size known ≠ 0 then .error .value
      else reshapeFinish size (shape.map fun d => if d == -1 then Int.fdiv size known else d)
  else reshapeFinish size shape

/-- NumPy's `reshape` (`_fix_unknown_dimension`): every NEGATIVE extent is an unknown one, at most one is allowed;
with an unknown extent the product of the others is non-zero and divides the size; without, the product equals the size. -/
def npReshapeOk (old : List Nat) (shape : List Int) : Prop :=
  let size : Int := prod old
  let rest := shape.filter (fun d => decide (0 ≤ d))
  ((shape.filter (fun d => decide (d < 0))).length = 0 ∧ iprod shape = size ∨
   (shape.filter (fun d => decide (d < 0))).length = 1 ∧ iprod rest ≠ 0 ∧ size % iprod rest = 0)

instance (old : List Nat) (shape : List Int) : Decidable (npReshapeOk old shape) := by
  unfold npReshapeOk; infer_instance

/-- the same rule when `-1` is the only negative value in use (what `COO.reshape` implements) -/
def npReshapeOk1 (old : List Nat) (shape : List Int) : Prop :=
  let size : Int := prod old
  let rest := shape.filter (· != -1)
  (∀ d ∈ rest, 0 ≤ d) ∧
  ((shape.filter (· == -1)).length = 0 ∧ iprod shape = size ∨
   (shape.filter (· == -1)).length = 1 ∧ iprod rest ≠ 0 ∧ size % iprod rest = 0)

/-- the only region where `COO.reshape` and NumPy decide differently: an extent below `-1`.  NumPy reads every negative
extent as "unknown"; the library knows only `-1` and rejects the others (cleanly, with `ValueError`) — stricter than NumPy,
which the property allows. -/
def OtherNegative (shape : List Int) : Prop := ∃ d ∈ shape, d < -1
instance (shape : List Int) : Decidable (OtherNegative shape) := by
  unfold OtherNegative; infer_instance

/-- `COO.__init__(coords, data, shape)` with a 2-d integer `coords` of shape `(rows, cols)` and `data` with `dataNdim`
dimensions (length `n` when 1-d), in the order of the code: a 0-d `data` is broadcast to `coords.shape[1]`; data rank;
`shape is None`; `if shape and not self.coords.size: self.coords = np.zeros((len(shape), 0))`; shape validation
(`SparseArray.__init__`: non-negative integers); then — for EVERY shape, `()` included — the two length tests
(`len(self.data) != self.coords.shape[1]`, `len(self.shape) != self.coords.shape[0]`).  Every rejection is a `ValueError`. -/
def cooCtor (rows cols : Nat) (dataNdim n : Nat) (shape : Option (List Int)) : Except Err (List Nat) :=
  -- `data.ndim == 0` is broadcast to `coords.shape[1]` (before the coordinates of an empty array are replaced)
  let n := if dataNdim = 0 then cols else n
  if dataNdim > 1 then .error .value else
  match shape with
  | none => .error .value
  | some sh =>
    let (rows, cols) := if sh ≠ [] ∧ rows * cols = 0 then (sh.length, 0) else (rows, cols)
    if sh.any (· < 0) then .error .value
    else if n ≠ cols then .error .value
    else if sh.length ≠ rows then .error .value
    else .ok (sh.map Int.toNat)

/-- the documented contract of the constructor for 1-d `data` of length `n`: non-negative extents, one coordinate row per axis
and one datum per column — or no coordinates at all (`coords.size == 0`, then no data) for a shape with at least one axis
(for the shape `()`: no coordinate rows and exactly as many data as `coords` has columns) -/
def ctorContract (rows cols : Nat) (n : Nat) (sh : List Int) : Prop :=
  (∀ d ∈ sh, 0 ≤ d) ∧ ((rows * cols = 0 ∧ sh ≠ [] ∧ n = 0) ∨ (n = cols ∧ sh.length = rows))

instance (rows cols n : Nat) (sh : List Int) : Decidable (ctorContract rows cols n sh) := by
  unfold ctorContract; infer_instance

/-- `check_compressed_axes(ndim, compressed_axes)` for a list of integers (the order of the tests is the
code's: all axes, sorted-without-repeats through `list(set(·))`, range).  `list(set(l)) == l` for small
ints holds iff `l` is strictly increasing — and for negative entries CPython's set order differs, which
the range test then rejects anyway, so the verdict (ValueError) is the same. -/
def checkCompressedAxes (ndim : Nat) (c : Option (List Int)) : Except Err Unit :=
  match c with
  | none => .ok ()
  | some c =>
    if c.length = ndim then .error .value
    else if ¬ c.Pairwise (· < ·) then .error .value
    else if c.any (fun a => decide (a < 0 ∨ a ≥ ndim)) then .error .value
    else if c = [] then .error .value      -- `min(())` raises ValueError
    else .ok ()

/-! ### `GCXS((data, indices, indptr), shape, compressed_axes)` -/

/-- `reduce(operator.mul, (int(shape[a]) for a in compressed_axes), 1)` -/
def compressedExtent (sh : List Int) (c : List Int) : Int := iprod (c.map fun a => sh.getD a.toNat 0)

/-- `reduce(operator.mul, (int(sh) for a, sh in enumerate(shape) if a not in compressed_axes), 1)` -/
def uncompressedExtent (sh : List Int) (c : List Int) : Int :=
  iprod ((List.range sh.length).filterMap fun i => if c.contains (Int.ofNat i) then none else some (sh.getD i 0))

/-- `np.any(indptr[1:] < indptr[:-1])` is false -/
def nondecreasing : List Int → Bool
  | a :: b :: t => decide (a ≤ b) && nondecreasing (b :: t)
  | _ => true

/-- the constructor with a triple, `data` of `dataNdim` dimensions and (when 1-d) length `dataLen`, 1-d integer `indices` and `indptr`,
in the order of the code (after 5753560 and 748e5d3): `shape is None`; `check_compressed_axes(len(shape), compressed_axes)`;
a 1-d shape forgets its `compressed_axes`; `data.ndim != 1`; the shape's extents are non-negative integers;
`len(shape) >= 1 and len(data) != len(indices)`; for two or more axes: `n_compressed` (iterating `compressed_axes`: `None` is a
`TypeError` there), `len(indptr) != n_compressed + 1`, `indptr[0] != 0 or indptr[-1] != len(indices)`, `indptr` decreasing somewhere;
for one or more axes and non-empty `indices`: `min(indices) < 0 or max(indices) >= n_uncompressed`.
A 0-d shape reaches none of the tests on the three arrays.  Within a row `indices` may be unsorted or repeated: nothing looks. -/
def gcxsCtor (dataNdim dataLen : Nat) (indices indptr : List Int) (shape : Option (List Int)) (caxes : Option (List Int)) :
    Except Err Unit :=
  match shape with
  | none => .error .value
  | some sh =>
    match checkCompressedAxes sh.length caxes with
    | .error e => .error e
    | .ok () =>
      if dataNdim ≠ 1 then .error .value
      else if sh.any (· < 0) then .error .value
      else if sh.length = 0 then .ok ()
      else if dataLen ≠ indices.length then .error .value
      else if sh.length = 1 then
        (if indices.any (fun v => decide (v < 0 ∨ v ≥ sh.getD 0 0)) then .error .value else .ok ())
      else
        match caxes with
        | none => .error .type                      -- `for a in compressed_axes` with `None`
        | some c =>
          if (indptr.length : Int) ≠ compressedExtent sh c + 1 then .error .value
          else if indptr.head? ≠ some 0 ∨ indptr.getLast? ≠ some (indices.length : Int) then .error .value
          else if ¬ nondecreasing indptr then .error .value
          else if indices.any (fun v => decide (v < 0 ∨ v ≥ uncompressedExtent sh c)) then .error .value
          else .ok ()

/-- the contract of the triple form: non-negative extents, admissible `compressed_axes` (required for two or more axes), one datum per
index; for two or more axes one index pointer per compressed row plus one, running from `0` to `len(indices)` without ever decreasing
(`Pairwise (· ≤ ·)`); every index within the extent of the uncompressed axes.  A 0-d array stores its only element as the fill value:
no data, no indices.  A 1-d array has no index pointers (whatever is passed is ignored).  NOT part of the contract, by design of the
format's constructor: the order of the indices within a row and their distinctness (`GCXS(([1,2],[1,1],[0,2]), shape=(1,2),
compressed_axes=[0])` is accepted; duplicates add up in `todense()`). -/
def gcxsRows (indices indptr : List Int) (sh : List Int) : Option (List Int) → Prop
  | none => False
  | some c => (indptr.length : Int) = compressedExtent sh c + 1 ∧ indptr.head? = some 0 ∧
      indptr.getLast? = some (indices.length : Int) ∧ indptr.Pairwise (· ≤ ·) ∧ ∀ v ∈ indices, 0 ≤ v ∧ v < uncompressedExtent sh c

instance (indices indptr sh : List Int) (c : Option (List Int)) : Decidable (gcxsRows indices indptr sh c) := by
  cases c <;> unfold gcxsRows <;> infer_instance

def gcxsContract (dataLen : Nat) (indices indptr : List Int) (sh : List Int) (caxes : Option (List Int)) : Prop :=
  (∀ d ∈ sh, 0 ≤ d) ∧ checkCompressedAxes sh.length caxes = .ok () ∧
  (sh.length = 0 → dataLen = 0 ∧ indices = []) ∧
  (1 ≤ sh.length → dataLen = indices.length) ∧
  (sh.length = 1 → ∀ v ∈ indices, 0 ≤ v ∧ v < sh.getD 0 0) ∧
  (2 ≤ sh.length → gcxsRows indices indptr sh caxes)

instance (dataLen : Nat) (indices indptr sh : List Int) (caxes : Option (List Int)) : Decidable (gcxsContract dataLen indices indptr sh caxes) := by
  unfold gcxsContract; infer_instance

/-- two ways of asking whether index pointers STORED in the integer type `t` decrease somewhere -/
inductive MonoTest where
  /-- `np.any(indptr[1:] < indptr[:-1])`: a comparison of stored values — exact in every integer type (what the code does) -/
  | sliceCompare
  /-- `np.any(np.diff(indptr) < 0)`: the differences are computed IN the type, so they wrap for unsigned types -/
  | diffSign
  deriving DecidableEq, Repr

/-- the adjacent differences as an array of type `t` holds them -/
def diffsIn (t : IdxTy) : List Int → List Int
  | a :: b :: rest => t.wrap (b - a) :: diffsIn t (b :: rest)
  | _ => []

/-- "some entry is smaller than its predecessor", as each test finds it on values stored in `t` -/
def decreasesIn (t : IdxTy) : MonoTest → List Int → Bool
  | .sliceCompare, p => !(nondecreasing p)
  | .diffSign, p => (diffsIn t p).any (fun d => decide (d < 0))

/-- the region where the constructor still accepts malformed input: the 0-d shape with stored data -/
def ExcludedZeroDim (dataLen : Nat) (indices : List Int) (sh : List Int) : Prop := sh = [] ∧ ¬ (dataLen = 0 ∧ indices = [])
instance (dataLen : Nat) (indices : List Int) (sh : List Int) : Decidable (ExcludedZeroDim dataLen indices sh) := by
  unfold ExcludedZeroDim; infer_instance

/-- one advanced (integer-array) index entry: `sanitize_index`/`check_index` (array branch) -/
def checkIndexArr (xs : List Int) (dim : Int) : Except Err Unit :=
  if xs.any (fun v => decide (v ≥ dim ∨ v < -dim)) then .error .index else .ok ()

end Validate
end SparseV

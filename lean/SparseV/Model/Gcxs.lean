/-
  SparseV.Model.Gcxs — GCXS (compressed) storage: `_from_coo` and `GCXS.tocoo`
  (`_compressed/compressed.py`), `uncompress_dimension` (`_compressed/convert.py`).
-/
import SparseV.Model.Coo
namespace SparseV

/-- GCXS: a CSR view (indptr, indices, data) of the array after moving `caxes` first and
linearising the two axis groups. `caxes = none` for 0-d/1-d arrays (then `indices` are the 1-d
coordinates and `indptr` is empty). -/
structure GCXS (α : Type) where
  shape : List Nat
  caxes : Option (List Nat)
  indptr : List Nat
  indices : List Nat
  data : List α
  fill : α
  deriving Repr

/-- `np.setdiff1d(arange(n), axes)` : the remaining axes in increasing order -/
def restAxes (n : Nat) (axes : List Nat) : List Nat := (List.range n).filter fun a => !axes.contains a

/-- `_axis_order` -/
def axisOrder (n : Nat) (caxes : List Nat) : List Nat := caxes ++ restAxes n caxes

/-- number of entries of `l` smaller than `k` — `indptr[k]` for sorted row numbers
(`cumsum(bincount(rows, minlength=R))`) -/
def countLt (l : List Nat) (k : Nat) : Nat := (l.filter (· < k)).length

def indptrOf (rows : List Nat) (R : Nat) : List Nat := (List.range (R + 1)).map (countLt rows)

/-- `uncompress_dimension` : row number of every stored element -/
def uncompress (indptr : List Nat) : List Nat :=
  (List.range (indptr.length - 1)).flatMap fun i =>
    List.replicate (indptr.getD (i + 1) 0 - indptr.getD i 0) i

/-- `np.argsort(axis_order)` : inverse permutation -/
def invPerm (p : List Nat) : List Nat := (List.range p.length).map fun a => p.idxOf a

namespace GCXS
variable {α : Type}

/-- `_from_coo` for ndim ≥ 2 with validated `caxes` -/
def fromCooCore (x : COO α) (caxes : List Nat) : GCXS α :=
  let order := axisOrder x.shape.length caxes
  let rshape := COO.gather x.shape order
  let rowSize := prod (rshape.take caxes.length)
  let colSize := prod (rshape.drop caxes.length)
  let lin : List (Nat × α) := x.entries.map fun e => (ravel (COO.gather e.1 order) rshape, e.2)
  let sorted := lin.mergeSort fun a b => decide (a.1 ≤ b.1)
  let rows := sorted.map fun e => e.1 / colSize
  { shape := x.shape, caxes := some caxes,
    indptr := indptrOf rows rowSize,
    indices := sorted.map fun e => e.1 % colSize,
    data := sorted.map (·.2), fill := x.fill }

/-- `_from_coo` -/
def fromCoo (x : COO α) (caxes : Option (List Nat)) : Except Err (GCXS α) :=
  match x.shape.length with
  | 0 => match caxes with
    | some _ => .error .value
    | none => .ok { shape := x.shape, caxes := none, indptr := [], indices := [], data := x.vals, fill := x.fill }
  | 1 => match caxes with
    | some _ => .error .value
    | none => .ok { shape := x.shape, caxes := none, indptr := [],
                    indices := x.keys.map fun k => k.getD 0 0, data := x.vals, fill := x.fill }
  | n + 2 =>
    match caxes with
    | none =>
      -- default: the shortest axis (`np.argmin(shape)`: first minimum)
      let m := x.shape.foldl min (x.shape.getD 0 0)
      .ok (fromCooCore x [x.shape.idxOf m])
    | some c =>
      if c.length ≥ n + 2 then .error .value
      else if !(c.Pairwise (· < ·)) then .error .value      -- `check_compressed_axes`: sorted, no repeats
      else if c.any (· ≥ n + 2) then .error .value
      else .ok (fromCooCore x c)

/-- `GCXS.tocoo` -/
def tocoo [Add α] [DecidableEq α] (g : GCXS α) : COO α :=
  match g.caxes with
  | none =>
    if g.shape.length = 0 then COO.build g.shape (g.data.map fun d => ([], d)) g.fill
    else COO.build g.shape ((g.indices.zip g.data).map fun p => ([p.1], p.2)) g.fill
  | some caxes =>
    let order := axisOrder g.shape.length caxes
    let rshape := COO.gather g.shape order
    let rowSize := prod (rshape.take caxes.length)
    let colSize := prod (rshape.drop caxes.length)
    let rows := uncompress g.indptr
    let es : List (Idx × α) := ((rows.zip g.indices).zip g.data).map fun p => ([p.1.1, p.1.2], p.2)
    let c2 := COO.build [rowSize, colSize] es g.fill
    (c2.reshapeCore rshape).transposeCore (invPerm order)

end GCXS
end SparseV

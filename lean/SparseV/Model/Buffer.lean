/-
  SparseV.Model.Buffer — buffer protocols: what an operation does to *storage*.

  A pure functional model cannot say "did not modify its operand", so storage is explicit here.
  The heap is split by provenance: `old` holds every buffer that existed before the operation
  started (the operands' `coords`/`data`/`indices`/`indptr` among them), `new` the buffers the
  operation allocates.  A protocol is the ordered list of storage actions the Python code performs;
  each action may introduce a *name* (a local variable or a result attribute); names are numbered
  in order of introduction, the operands' buffers being names `0 … n-1`.

      alloc          a new buffer        (np.empty / np.zeros / the result of a NumPy call, a fancy
                                          index `a[idx]`, or a kernel's return value)
      copyOf s       a new buffer initialised from name `s`   (np.copy, `.copy()`, `.astype` that copies)
      viewOf s       a new NAME for the storage of `s`        (basic slice, `self.data` handed to a
                                          constructor, `np.asarray`, reshape view)
      writeInPlace d overwrite storage behind name `d`        (`x[i] += …`, `x[mask] = …`, `out=`,
                                          a kernel writing into its argument)

  Core Lean only.
-/
namespace SparseV.Buffer

inductive Step where
  | alloc
  | copyOf (src : Nat)
  | viewOf (src : Nat)
  | writeInPlace (dst : Nat)
  deriving DecidableEq, Repr

/-- where a name's storage lives -/
inductive Loc where
  | old (b : Nat)
  | new (j : Nat)
  deriving DecidableEq, Repr

def Loc.isNew : Loc → Bool
  | .old _ => false
  | .new _ => true

abbrev Content := List Int

structure Heap where
  old : List Content
  new : List Content
  env : List Loc

def Heap.read (h : Heap) : Loc → Content
  | .old b => h.old.getD b []
  | .new j => h.new.getD j []

/-- One storage action.  `w` is what a write stores (an arbitrary function of the step number and
the previous content: the theorems hold for every `w`), `k` the step number.  A step naming a
name that does not exist is a transcription mistake; `Protocol.wellScoped` excludes it and
here it leaves the heap alone. -/
def exec1 (w : Nat → Content → Content) (k : Nat) (h : Heap) : Step → Heap
  | .alloc => { h with new := h.new ++ [w k []], env := h.env ++ [.new h.new.length] }
  | .copyOf s =>
    match h.env[s]? with
    | some l => { h with new := h.new ++ [h.read l], env := h.env ++ [.new h.new.length] }
    | none => h
  | .viewOf s =>
    match h.env[s]? with
    | some l => { h with env := h.env ++ [l] }
    | none => h
  | .writeInPlace d =>
    match h.env[d]? with
    | some (.old b) => { h with old := h.old.set b (w k (h.old.getD b [])) }
    | some (.new j) => { h with new := h.new.set j (w k (h.new.getD j [])) }
    | none => h

def exec (w : Nat → Content → Content) : Nat → Heap → List Step → Heap
  | _, h, [] => h
  | k, h, s :: ss => exec w (k + 1) (exec1 w k h s) ss

/-- Static side: for every name, `true` iff its storage was allocated by this protocol.  This is
what can be read off the source without running it. -/
def tag1 (tags : List Bool) : Step → List Bool
  | .alloc => tags ++ [true]
  | .copyOf s => if s < tags.length then tags ++ [true] else tags
  | .viewOf s => match tags[s]? with
    | some t => tags ++ [t]
    | none => tags
  | .writeInPlace _ => tags

/-- every `writeInPlace` targets a name whose storage was allocated earlier in the same protocol -/
def writesFresh : List Bool → List Step → Bool
  | _, [] => true
  | tags, s :: ss =>
    (match s with
     | .writeInPlace d => tags[d]? == some true
     | _ => true) && writesFresh (tag1 tags s) ss

/-- every step refers to a name that exists at that point -/
def wellScoped : List Bool → List Step → Bool
  | _, [] => true
  | tags, s :: ss =>
    (match s with
     | .alloc => true
     | .copyOf x | .viewOf x | .writeInPlace x => decide (x < tags.length)) && wellScoped (tag1 tags s) ss

/-- static origin of every name: `some i` = the storage of operand buffer `i`, `none` = fresh -/
def origin1 (o : List (Option Nat)) : Step → List (Option Nat)
  | .alloc => o ++ [none]
  | .copyOf s => if s < o.length then o ++ [none] else o
  | .viewOf s => match o[s]? with
    | some t => o ++ [t]
    | none => o
  | .writeInPlace _ => o

def origins (n : Nat) (p : List Step) : List (Option Nat) :=
  p.foldl origin1 ((List.range n).map some)

/-- A transcribed operation: the operand buffers (names `0…`), the storage actions in source order,
and which names end up as the result's fields. -/
structure Protocol where
  name : String
  operands : List String
  steps : List Step
  result : List (String × Nat)
  deriving Repr

def Protocol.tags0 (p : Protocol) : List Bool := List.replicate p.operands.length false
def Protocol.writesFresh (p : Protocol) : Bool := Buffer.writesFresh p.tags0 p.steps
def Protocol.wellScoped (p : Protocol) : Bool :=
  Buffer.wellScoped p.tags0 p.steps &&
    p.result.all fun r => decide (r.2 < (p.steps.foldl tag1 p.tags0).length)

/-- which operand buffer a result field may share storage with (`none`: fresh, shares with nothing) -/
def Protocol.aliasMap (p : Protocol) : List (String × Option String) :=
  let o := origins p.operands.length p.steps
  p.result.map fun r => (r.1, ((o.getD r.2 none).bind fun i => p.operands[i]?))

open Step in
/-- The protocols transcribed from the source (file:function in the name; the steps follow the
statements top to bottom; the constructor's `_sort_indices`/`_sum_duplicates` re-bind
`self.coords/self.data` to re-indexed arrays or keep the caller's — modelled by the weaker
`viewOf`, i.e. "may alias"). -/
def protocols : List Protocol := [
  -- _coo/common.py roll: coords, data = np.copy(a.coords), np.copy(a.data); coords[ax] += sh; coords[ax] %= n
  { name := "coo.roll", operands := ["coords", "data"],
    steps := [copyOf 0, copyOf 1, writeInPlace 2, writeInPlace 2, viewOf 2, viewOf 3],
    result := [("coords", 4), ("data", 5)] },
  -- _coo/common.py flip: new_coords = x.coords.copy(); new_coords[ax,:] = …; COO(new_coords, x.data)
  { name := "coo.flip", operands := ["coords", "data"],
    steps := [copyOf 0, writeInPlace 2, viewOf 2, viewOf 1],
    result := [("coords", 3), ("data", 4)] },
  -- _coo/core.py COO.transpose: COO(self.coords[axes, :], self.data, …)  (fancy index = new array)
  { name := "coo.transpose", operands := ["coords", "data"],
    steps := [alloc, viewOf 1],
    result := [("coords", 2), ("data", 3)] },
  -- _coo/core.py COO.reshape: linear_loc(); coords = np.empty(…); coords[-(i+1), :] = …; COO(coords, self.data)
  { name := "coo.reshape", operands := ["coords", "data"],
    steps := [alloc, alloc, writeInPlace 3, viewOf 3, viewOf 1],
    result := [("coords", 4), ("data", 5)] },
  -- _coo/core.py COO.squeeze: coords = self.coords[retained_dims, :]; COO(coords, self.data, …)
  { name := "coo.squeeze", operands := ["coords", "data"],
    steps := [alloc, viewOf 1],
    result := [("coords", 2), ("data", 3)] },
  -- _coo/common.py expand_dims: new_coords = np.insert(x.coords, axis, zeros); COO(new_coords, x.data)
  { name := "coo.expand_dims", operands := ["coords", "data"],
    steps := [alloc, viewOf 1],
    result := [("coords", 2), ("data", 3)] },
  -- _coo/common.py concatenate (two operands): data = np.concatenate; coords = np.concatenate; coords[axis, …] += dim
  { name := "coo.concatenate", operands := ["a.coords", "a.data", "b.coords", "b.data"],
    steps := [alloc, alloc, writeInPlace 5, viewOf 5, viewOf 4],
    result := [("coords", 6), ("data", 7)] },
  -- _coo/common.py stack: data = np.concatenate; coords = np.concatenate; new = np.empty; new[…] = dim; coords = np.stack([…new…])
  { name := "coo.stack", operands := ["a.coords", "a.data", "b.coords", "b.data"],
    steps := [alloc, alloc, alloc, writeInPlace 6, alloc, viewOf 7, viewOf 4],
    result := [("coords", 8), ("data", 9)] },
  -- _coo/core.py COO._sort_indices: linear = self.linear_loc(); if already sorted: return (the caller's buffers stay);
  --   else self.coords = self.coords[:, order]; self.data = self.data[order] (re-binding to new arrays, no write).
  --   Straight-line upper bound of both branches: the attributes MAY still be the caller's buffers.
  { name := "coo._sort_indices", operands := ["coords", "data"],
    steps := [alloc, viewOf 0, viewOf 1],
    result := [("coords", 3), ("data", 4)] },
  -- _coo/core.py COO._sum_duplicates: no duplicates: return; else coords = self.coords[:, mask]; data = np.add.reduceat(…)
  --   (re-binding, no write) — same upper bound
  { name := "coo._sum_duplicates", operands := ["coords", "data"],
    steps := [alloc, viewOf 0, viewOf 1],
    result := [("coords", 3), ("data", 4)] },
  -- _coo/core.py COO.todense: x = np.full(shape, fill); x[coords] = data
  { name := "coo.todense", operands := ["coords", "data"],
    steps := [alloc, writeInPlace 2],
    result := [("dense", 2)] },
  -- _coo/core.py COO._tocsr: row, col = self.coords; indptr = np.zeros; np.cumsum(…, out=indptr[1:]); csr_matrix((self.data, col, indptr))
  { name := "coo.tocsr", operands := ["coords", "data"],
    steps := [viewOf 0, alloc, viewOf 3, writeInPlace 4, viewOf 1],
    result := [("indices", 2), ("indptr", 3), ("data", 5)] },
  -- _coo/common.py sort → _sort_coo kernel: data = data.copy(); result_indices = np.empty_like; data[group] = np.sort(…); result_indices[…] = …
  { name := "coo.sort", operands := ["coords", "data"],
    steps := [alloc, viewOf 1, copyOf 3, alloc, writeInPlace 4, writeInPlace 5, alloc],
    result := [("coords", 6), ("data", 4)] },
  -- _coo/common.py _arg_minmax_common: x = x.transpose(…).reshape(…); _compute_minmax_args(x.coords.copy(), x.data.copy(), …)
  --   returns (np.unique(…), np.array(result_data)); COO(result_indices, result_data, prune=True)
  { name := "coo.argmax", operands := ["coords", "data"],
    steps := [alloc, viewOf 1, copyOf 2, copyOf 3, alloc, alloc],
    result := [("coords", 6), ("data", 7)] },
  -- _sparse_array.py reduce / COO._reduce_calc / _reduce_return: a = self.transpose(…).reshape(…);
  --   data, inv_idx, counts = _grouped_reduce(a.data, a.coords[0], method)  (reduceat → new);
  --   data[missing_counts] = method(data[missing_counts], fill);  coords = a.coords[0:1, inv_idx];  COO(coords, data, prune=True)
  { name := "coo.reduce", operands := ["coords", "data"],
    steps := [alloc, alloc, alloc, alloc, writeInPlace 3, alloc],
    result := [("coords", 6), ("data", 3)] },
  -- _sparse_array.py __array_ufunc__(out=o): result = elemwise(…); out._make_shallow_copy_of(result)
  --   i.e. out.__dict__ = result.__dict__.copy(): the target's attributes are re-bound, its old buffers are not written
  { name := "coo.ufunc_out", operands := ["a.coords", "a.data", "out.coords", "out.data"],
    steps := [alloc, alloc, viewOf 4, viewOf 5],
    result := [("coords", 6), ("data", 7)] },
  -- copy.copy(x) (COO.copy(deep=False)): the same buffers under a new object
  { name := "coo.copy_shallow", operands := ["coords", "data"],
    steps := [viewOf 0, viewOf 1],
    result := [("coords", 2), ("data", 3)] },
  -- copy.deepcopy(x) (COO.copy()): every buffer copied
  { name := "coo.copy_deep", operands := ["coords", "data"],
    steps := [copyOf 0, copyOf 1],
    result := [("coords", 2), ("data", 3)] },
  -- _compressed/compressed.py GCXS._2d_transpose: GCXS((self.data, self.indices, self.indptr), …) — all three are the operand's
  { name := "gcxs._2d_transpose", operands := ["data", "indices", "indptr"],
    steps := [viewOf 0, viewOf 1, viewOf 2],
    result := [("data", 3), ("indices", 4), ("indptr", 5)] },
  -- _compressed/compressed.py GCXS.todense: out = np.full(…); out[self.indices] = self.data (1-d) / via tocoo
  { name := "gcxs.todense", operands := ["data", "indices", "indptr"],
    steps := [alloc, writeInPlace 3],
    result := [("dense", 3)] },
  -- _compressed/compressed.py GCXS.tocoo (n-d): uncompress_dimension → new; np.vstack → new; COO(coords, self.data, …)
  { name := "gcxs.tocoo", operands := ["data", "indices", "indptr"],
    steps := [alloc, alloc, viewOf 0],
    result := [("coords", 4), ("data", 5)] },
  -- _compressed/compressed.py _from_coo: linear/coords arithmetic into np.empty buffers; indptr = np.empty; indptr[0] = 0; np.cumsum(out=indptr[1:])
  --   indices = coords[1]; data = x.data[order]
  { name := "gcxs.from_coo", operands := ["coords", "data"],
    steps := [alloc, alloc, writeInPlace 3, alloc, writeInPlace 4, viewOf 4, writeInPlace 5, viewOf 3, alloc],
    result := [("data", 7), ("indices", 6), ("indptr", 4)] },
  -- _compressed/compressed.py _from_coo, 1-d: return ((x.data, x.coords[0], ()), …) — the operand's own buffers
  { name := "gcxs.from_coo_1d", operands := ["coords", "data"],
    steps := [viewOf 1, viewOf 0],
    result := [("data", 2), ("indices", 3)] }
]

end SparseV.Buffer

/-
  SparseV.Model.Slice — the per-slice pipeline of `_slicing.normalize_index`
  (`replace_none` → `posify_index` → `clip_slice`) composed from the GENERATED definitions.
-/
import SparseV.Generated.Slicing
namespace SparseV

/-- what `normalize_index` does to one slice entry of the index tuple, for an axis of extent `dim` -/
def normalizeSlice (start stop step : Option Int) (dim : Int) : Int × Int × Int :=
  let r := Gen.replaceNone start stop step dim
  let p := Gen.posifySlice dim r.1 r.2.1 r.2.2
  Gen.clipSlice p.1 p.2.1 p.2.2 dim

/-- what `normalize_index` does to one integer entry: `check_index` then `posify_index` -/
def normalizeInt (ind dim : Int) : Except Err Int :=
  match Gen.checkIndexInt ind dim with
  | .error e => .error e
  | .ok () => .ok (Gen.posifyInt dim ind)

end SparseV

/-
  SparseV.Model.Width — integer index types of a given width, NumPy 2's arithmetic rules for them
  made explicit as small functions, and ONE MODEL PER WIDTH-SENSITIVE SITE of pydata/sparse, each
  *in its stored width* and with exactly the guard the code performs (bugs included).
  Core Lean only (no Mathlib): this file is linked into the `svdriver` executable.

  Conventions.  A value of an index type is modelled by the `Int` it denotes; an operation carried
  out "in type t" is the unbounded operation followed by `t.wrap`.  "∞" (the reference every site is
  compared with) is the same arithmetic on unbounded `Int` without any wrap.  Where a site has a
  proposed fix (proposed_fixes/C15-*.diff) the fixed variant is modelled next to it (`…Fixed`); the
  harness decides which of the two the working tree implements by replaying the witness.
-/
import SparseV.Model.Basic


namespace SparseV

/-- an integer dtype: signedness and width in bits (`np.int8` = ⟨true, 8⟩, `np.uint16` = ⟨false, 16⟩ …) -/
structure IdxTy where
  signed : Bool
  bits : Nat
  deriving Repr, DecidableEq

namespace IdxTy

/-- least representable value -/
def lo (t : IdxTy) : Int := if t.signed then -((2 : Int) ^ (t.bits - 1)) else 0
/-- one past the greatest representable value -/
def hi (t : IdxTy) : Int := if t.signed then (2 : Int) ^ (t.bits - 1) else (2 : Int) ^ t.bits
/-- number of representable values (`2 ^ bits` for `bits ≥ 1`) -/
def span (t : IdxTy) : Int := t.hi - t.lo

/-- `n` is representable in `t` -/
def fits (t : IdxTy) (n : Int) : Prop := t.lo ≤ n ∧ n < t.hi
instance (t : IdxTy) (n : Int) : Decidable (t.fits n) := by unfold fits; infer_instance

/-- the value obtained when `n` is stored in `t` without a check: two's complement for signed types,
reduction modulo `2 ^ bits` for unsigned ones -/
def wrap (t : IdxTy) (n : Int) : Int := t.lo + (n - t.lo) % t.span

def i8 : IdxTy := ⟨true, 8⟩
def u8 : IdxTy := ⟨false, 8⟩
def i16 : IdxTy := ⟨true, 16⟩
def u16 : IdxTy := ⟨false, 16⟩
def i32 : IdxTy := ⟨true, 32⟩
def u32 : IdxTy := ⟨false, 32⟩
def i64 : IdxTy := ⟨true, 64⟩
def u64 : IdxTy := ⟨false, 64⟩
/-- `np.intp` on the platforms the library runs on -/
abbrev intp : IdxTy := i64

end IdxTy

open IdxTy

/-! ## NumPy 2 (NEP 50) arithmetic rules -/

/-- NumPy integer `//`: floor division; division by zero yields 0 (with a warning) -/
def pyFloorDiv (a b : Int) : Int := if b = 0 then 0 else a.fdiv b
/-- NumPy integer `%`: sign of the divisor; modulo zero yields 0 (with a warning) -/
def pyMod (a b : Int) : Int := if b = 0 then 0 else a.fmod b

inductive Op where
  | add | sub | mul | floordiv | mod
  deriving Repr, DecidableEq

def Op.eval : Op → Int → Int → Int
  | .add, a, b => a + b
  | .sub, a, b => a - b
  | .mul, a, b => a * b
  | .floordiv, a, b => pyFloorDiv a b
  | .mod, a, b => pyMod a b

/-- **R1** array(t) ∘ array(t): computed in `t`, wraps silently -/
def arrArr (t : IdxTy) (op : Op) (a b : Int) : Int := t.wrap (op.eval a b)

/-- **R2** array(t) ∘ Python int `k` (also the in-place forms `+=`, `%=`): the Python int is converted
to `t` first — `OverflowError` if it does not fit — then R1 -/
def arrPy (t : IdxTy) (op : Op) (a k : Int) : Except Err Int :=
  if t.fits k then .ok (t.wrap (op.eval a k)) else .error .overflow

/-- **R2'** Python int `k` ∘ array(t) -/
def pyArr (t : IdxTy) (op : Op) (k a : Int) : Except Err Int :=
  if t.fits k then .ok (t.wrap (op.eval k a)) else .error .overflow

/-- **R3** result type of array(t1) ∘ array(t2) or array(t1) ∘ NumPy scalar of type t2 (a NumPy scalar is
*not* weak): same kind → the wider; mixed → the signed type that holds both; `uint64` with a signed
type → `float64`, modelled as `none` -/
def promote (t1 t2 : IdxTy) : Option IdxTy :=
  if t1.signed = t2.signed then some ⟨t1.signed, max t1.bits t2.bits⟩
  else
    let s := if t1.signed then t1 else t2
    let u := if t1.signed then t2 else t1
    if u.bits < s.bits then some s
    else if u.bits < 64 then some ⟨true, 2 * u.bits⟩
    else none

/-- **R3** array(t) ∘ NumPy scalar / array of type `t2`: computed in the promoted type -/
def arrNp (t t2 : IdxTy) (op : Op) (a k : Int) : Option (IdxTy × Int) :=
  (promote t t2).map fun r => (r, r.wrap (op.eval a k))

/-- **R4** in-place `a += k` with `a : array(t)` and `k` a NumPy scalar/array of type `t2`: the result of R3
is cast back with `casting='same_kind'`: a signed (or float) result cannot be cast to an unsigned
target → `UFuncTypeError` (a `TypeError`); signed → narrower signed wraps -/
def iaddNp (t t2 : IdxTy) (a k : Int) : Except Err Int :=
  match promote t t2 with
  | none => .error .type
  | some r => if r.signed && !t.signed then .error .type else .ok (t.wrap (r.wrap (a + k)))

/-- **R5** `arr.astype(t)`, `arr_t[...] = values` and numba's `np.array(list, dtype=t)` / `arr_t[i:j] = v`:
unchecked conversion -/
def castTo (t : IdxTy) (n : Int) : Int := t.wrap n

/-- **R6** the index argument of `ufunc.reduceat` needs a *safe* cast to `intp` (`uint64` has none: `TypeError`) -/
def safeToIntp (t : IdxTy) : Bool := t.signed || t.bits < 64

/-- **R7** `_utils.can_store(dtype, scalar)` : `np.array(scalar, dtype=dtype) == np.array(scalar)`, `False` on
`OverflowError` -/
def canStore (t : IdxTy) (n : Int) : Bool := decide (t.fits n)

/-- **R7** `np.min_scalar_type(n)` for a Python int; `none` = object dtype (beyond 64 bits) -/
def minScalarType (n : Int) : Option IdxTy :=
  if 0 ≤ n then
    if n < 2 ^ 8 then some u8 else if n < 2 ^ 16 then some u16 else if n < 2 ^ 32 then some u32
    else if n < 2 ^ 64 then some u64 else none
  else
    if -(2 ^ 7) ≤ n then some i8 else if -(2 ^ 15) ≤ n then some i16 else if -(2 ^ 31) ≤ n then some i32
    else if -(2 ^ 63) ≤ n then some i64 else none

/-- `_utils.get_out_dtype(arr, scalar)` and the inlined `if not can_store(dt, m): dt = np.min_scalar_type(m)` -/
def getOutDtype (t : IdxTy) (n : Int) : Option IdxTy :=
  if canStore t n then some t else minScalarType n

def listMax : List Int → Int
  | [] => 0
  | x :: xs => xs.foldl max x
def listMin : List Int → Int
  | [] => 0
  | x :: xs => xs.foldl min x

/-- the property's precondition: the index type can hold the operand's shape -/
def Holds (t : IdxTy) (shape : List Int) : Prop := ∀ d ∈ shape, t.fits d

/-! ## Sites -/

/-! ### W1 `_coo/indexing.py: getitem` — `(x.coords[i, mask] - ind.start) // ind.step` -/

/-- as written: both operations array(t) ∘ Python int; no guard -/
def getitemCoord (t : IdxTy) (c start step : Int) : Except Err Int := do
  let d ← arrPy t .sub c start
  arrPy t .floordiv d step

/-- proposed fix: `((x.coords[i, mask].astype(np.intp) - ind.start) // ind.step).astype(x.coords.dtype)` -/
def getitemCoordFixed (t : IdxTy) (c start step : Int) : Except Err Int := do
  let d ← arrPy intp .sub (castTo intp c) start
  let q ← arrPy intp .floordiv d step
  pure (castTo t q)

/-- ∞ -/
def getitemCoordInf (c start step : Int) : Int := pyFloorDiv (c - start) step

/-! ### W2 `_coo/core.py: _calc_counts_invidx` — start positions and lengths of the runs of equal group
numbers, returned as `np.array(..., dtype=groups.dtype)` (numba: unchecked conversion) -/

def runStarts : Nat → Int → List Int → List Nat
  | _, _, [] => []
  | i, last, g :: gs => if g ≠ last then i :: runStarts (i + 1) g gs else runStarts (i + 1) last gs

/-- `inv_idx` on unbounded integers -/
def invIdxInf : List Int → List Nat
  | [] => []
  | g :: gs => 0 :: runStarts 1 g gs

/-- `counts` on unbounded integers: distance to the next start, the last one to `len(groups)` -/
def runCounts (n : Nat) : List Nat → List Nat
  | [] => []
  | [p] => [n - p]
  | p :: q :: rest => (q - p) :: runCounts n (q :: rest)

def countsInf (groups : List Int) : List Nat := runCounts groups.length (invIdxInf groups)

/-- as written: both outputs converted to the dtype of `groups` (the coordinates' dtype) -/
def calcCountsInvidx (t : IdxTy) (groups : List Int) : List Int × List Int :=
  ((invIdxInf groups).map fun (p : Nat) => castTo t (p : Int), (countsInf groups).map fun (p : Nat) => castTo t (p : Int))

/-- proposed fix: `dtype=np.intp` -/
def calcCountsInvidxFixed (groups : List Int) : List Int × List Int :=
  ((invIdxInf groups).map fun (p : Nat) => castTo intp (p : Int), (countsInf groups).map fun (p : Nat) => castTo intp (p : Int))

/-! ### W3 `_coo/core.py: COO.reshape` — dtype choice, then `coords[...] = (linear_loc // strides) % d` -/

/-- `idx_dtype = coords.dtype; if shape != () and not can_store(idx_dtype, max(shape)): idx_dtype = np.min_scalar_type(max(shape))` -/
def reshapeTy (t : IdxTy) (shape : List Int) : Option IdxTy :=
  if shape = [] then some t else getOutDtype t (listMax shape)

/-- one coordinate of the result, stored into an array of the chosen type (linear_loc is `intp`) -/
def reshapeCoord (r : IdxTy) (lin strides d : Int) : Int := castTo r (pyMod (pyFloorDiv lin strides) d)
def reshapeCoordInf (lin strides d : Int) : Int := pyMod (pyFloorDiv lin strides) d

/-! ### W4 `_coo/common.py: concatenate` — upcast, then `coords[axis, …] += dim` -/

def concatTy (t : IdxTy) (shape : List Int) : Option IdxTy := getOutDtype t (listMax shape)

/-- a coordinate `c` of an operand that starts at offset `off` along the axis, in the chosen type `r`
(`if dim: … += dim`: nothing is added for offset 0) -/
def concatCoord (r : IdxTy) (c off : Int) : Except Err Int :=
  if off = 0 then .ok (castTo r c) else arrPy r .add (castTo r c) off

/-! ### W5 `_coo/common.py: roll` — guard on `limits`, then `coords[ax] += sh; coords[ax] %= n` -/

/-- how `sh` reaches the in-place addition: a tuple of Python ints stays Python ints; a single shift is
broadcast with `np.full` and arrives as `np.int64` scalars -/
inductive ShiftKind where
  | pyInt | npInt64
  deriving Repr, DecidableEq

/-- `limits = a.shape + tuple(shift) + tuple(a.shape[ax] + sh …)`; `steps` = the (shift, extent of its axis) pairs -/
def rollLimits (shape : List Int) (steps : List (Int × Int)) : List Int :=
  shape ++ steps.map (·.1) ++ steps.map fun p => p.2 + p.1

/-- `can_store(dtype, max(limits)) and can_store(dtype, min(limits))` -/
def rollGuard (t : IdxTy) (shape : List Int) (steps : List (Int × Int)) : Bool :=
  canStore t (listMax (rollLimits shape steps)) && canStore t (listMin (rollLimits shape steps))

/-- `coords[ax] += sh`.  A `TypeError` is caught by the code and re-raised as `ValueError` when the dtype
is unsigned (it cannot occur for a signed one) -/
def rollAdd (t : IdxTy) (kind : ShiftKind) (c sh : Int) : Except Err Int :=
  match kind with
  | .pyInt => arrPy t .add c sh
  | .npInt64 =>
    match iaddNp t i64 c sh with
    | .error _ => .error .value
    | .ok v => .ok v

/-- one `+=` / `%=` pair on one coordinate -/
def rollStepW (t : IdxTy) (kind : ShiftKind) (c sh n : Int) : Except Err Int := do
  let a ← rollAdd t kind c sh
  arrPy t .mod a n

/-- all steps that act on one axis (the same axis may be listed several times), in order -/
def rollAxis (t : IdxTy) (kind : ShiftKind) (n : Int) : List Int → Int → Except Err Int
  | [], c => .ok c
  | sh :: rest, c => do
    let c' ← rollStepW t kind c sh n
    rollAxis t kind n rest c'

/-- the whole site for one coordinate of extent `n` whose axis receives the shifts `shs` -/
def roll (t : IdxTy) (kind : ShiftKind) (shape : List Int) (steps : List (Int × Int)) (n : Int) (shs : List Int) (c : Int) :
    Except Err Int :=
  if rollGuard t shape steps then rollAxis t kind n shs c else .error .value

/-- the whole of `roll` on one index tuple: the guard once, then the `+=` / `%=` pairs in the order given
(`steps` = (shift, axis) pairs).  Steps on different axes do not interact, so this is `rollAxis` per axis. -/
def rollIdx (t : IdxTy) (kind : ShiftKind) (shape : List Int) (steps : List (Int × Nat)) (idx : List Int) :
    Except Err (List Int) :=
  if rollGuard t shape (steps.map fun p => (p.1, shape.getD p.2 0)) then
    steps.foldlM (fun (acc : List Int) (p : Int × Nat) => do
      let v ← rollStepW t kind (acc.getD p.2 0) p.1 (shape.getD p.2 0)
      pure (acc.set p.2 v)) idx
  else .error .value

def rollAxisInf (n : Int) : List Int → Int → Int
  | [], c => c
  | sh :: rest, c => rollAxisInf n rest (pyMod (c + sh) n)

/-! ### W6 `_coo/common.py: flip` — `x.shape[ax] - 1 - x.coords[ax, :]` -/

def flipCoord (t : IdxTy) (n c : Int) : Except Err Int := pyArr t .sub (n - 1) c

/-! ### W7 `_coo/common.py: kron` — `a_coords * np.asarray(b.shape)[:, None] + b_coords` (array ∘ int64 array) -/

def kronCoord (ta tb : IdxTy) (ca nb cb : Int) : Option (IdxTy × Int) := do
  let (r1, m) ← arrNp ta intp .mul ca nb
  let r2 ← promote r1 tb
  pure (r2, r2.wrap (m + cb))

/-! ### W8 `_common.py: pad` — `array.coords + pad_width[:, 0:1]` (array ∘ int64 array) -/

def padCoord (t : IdxTy) (c before : Int) : Option (IdxTy × Int) := arrNp t intp .add c before

/-! ### W9 `_coo/common.py: triu / tril` — `x.coords[-2] + k <= x.coords[-1]` -/

def triuKeep (t : IdxTy) (c0 c1 k : Int) : Except Err Bool := do
  let s ← arrPy t .add c0 k
  pure (decide (s ≤ c1))
def trilKeep (t : IdxTy) (c0 c1 k : Int) : Except Err Bool := do
  let s ← arrPy t .add c0 k
  pure (decide (s ≥ c1))

/-- proposed fix: `x.coords[-2].astype(np.intp) + k` -/
def triuKeepFixed (c0 c1 k : Int) : Except Err Bool := do
  let s ← arrPy intp .add (castTo intp c0) k
  pure (decide (s ≤ c1))
def trilKeepFixed (c0 c1 k : Int) : Except Err Bool := do
  let s ← arrPy intp .add (castTo intp c0) k
  pure (decide (s ≥ c1))

/-! ### W10 `_compressed/compressed.py: _from_coo`, `convert.py: _transpose / _1d_reshape / _resize` —
the index dtype of a GCXS array -/

/-- `_from_coo`: an explicit `idx_dtype` is checked (`ValueError`), otherwise the coordinates' dtype is
kept if it can hold `max(rows, cols, nnz)` and replaced by `min_scalar_type` if not.  `.ok none` =
object dtype (beyond 64 bits) -/
def gcxsTy (req : Option IdxTy) (t : IdxTy) (rows cols nnz : Int) : Except Err (Option IdxTy) :=
  let m := max (max rows cols) nnz
  match req with
  | some i => if canStore i m then .ok (some i) else .error .value
  | none => .ok (getOutDtype t m)

/-- a row number, a column number or an `indptr` entry stored into an array of the chosen dtype -/
def gcxsStore (r : IdxTy) (v : Int) : Int := castTo r v

/-! ### W11 `_compressed/common.py: concatenate / stack` — `indptr` upcast, `indptr[ptr_len:] += nnz`,
and the row numbers that `convert.py: uncompress_dimension` later writes *in indptr's dtype* -/

/-- as written: only the total number of stored elements is considered -/
def joinIndptrTy (tp : IdxTy) (totalNnz : Int) (_rows : Int) : Option IdxTy := getOutDtype tp totalNnz
/-- proposed fix: `needed = max(total_nnz, indptr.shape[0] - 1)` -/
def joinIndptrTyFixed (tp : IdxTy) (totalNnz rows : Int) : Option IdxTy := getOutDtype tp (max totalNnz rows)

def joinIndptrEntry (r : IdxTy) (p off : Int) : Except Err Int := arrPy r .add (castTo r p) off

/-- `uncompress_dimension`: `uncompressed = np.empty(indptr[-1], dtype=indptr.dtype); uncompressed[a:b] = i` (numba) -/
def uncompressRow (tp : IdxTy) (i : Int) : Int := castTo tp i

/-! ### W12 `COO.__init__(idx_dtype=…)`, `COO.from_numpy`, `_utils.random(idx_dtype=…)` — guard, then `astype` -/

def idxCast (t : IdxTy) (shape : List Int) (c : Int) : Except Err Int :=
  if canStore t (listMax shape) then .ok (castTo t c) else .error .value

/-! ### W13 `_coo/numba_extension.py` — `shape_type = UniTuple(coords dtype, ndim)`: unboxing converts every
extent to the coordinates' dtype -/

def boxShape (t : IdxTy) (shape : List Int) : List Int := shape.map (castTo t)
/-- proposed fix: `types.UniTuple(types.intp, ndim)` -/
def boxShapeFixed (shape : List Int) : List Int := shape.map (castTo intp)

/-! ### W14 `_compressed/compressed.py: GCXS._reduce_calc` —
`np.arange(x._compressed_shape[0], dtype=self.indptr.dtype)` where `x` is `self` after
`change_compressed_axes` (a different array, with its own dtype) -/

def reduceRowIds (tp : IdxTy) (rows : Nat) : List Int := (List.range rows).map fun (i : Nat) => castTo tp (i : Int)
/-- proposed fix: `dtype=np.intp` -/
def reduceRowIdsFixed (rows : Nat) : List Int := (List.range rows).map fun (i : Nat) => castTo intp (i : Int)

/-! ### W15 `_compressed/indexing.py: getitem` — keys cast with `.astype(x.indices.dtype)` and handed to the
numba kernel `compute_flat`, whose `cols[start:end] += to_add` (`to_add : int64`) numba cannot type for
an unsigned `cols` (same-kind rule of R4, enforced at compile time: an internal error, no value) -/

def gcxsKey (t : IdxTy) (k : Int) : Except Err Int :=
  if t.signed then .ok (castTo t k) else .error .internal
/-- proposed fix: keys and flat positions in `np.intp` -/
def gcxsKeyFixed (k : Int) : Except Err Int := .ok (castTo intp k)

/-! ### W16 index arrays at construction (proposed fix for `uint64`): `_utils._index_array` stores a `uint64`
index array as `intp`; as written the dtype is kept -/

def storedTy (fixed : Bool) (t : IdxTy) : IdxTy :=
  if fixed && !t.signed && decide (64 ≤ t.bits) then intp else t
def storedCoord (fixed : Bool) (t : IdxTy) (c : Int) : Int := castTo (storedTy fixed t) c

end SparseV

/-
  SparseV.Model.Basic — index arithmetic and the COO representation used by every model.
  Core Lean only (no Mathlib): this file is linked into the `svdriver` executable.
-/
namespace SparseV

abbrev Idx := List Nat

/-- product of the extents -/
def prod : List Nat → Nat
  | [] => 1
  | d :: ds => d * prod ds

/-- row-major linear location of an index in a shape (`np.ravel_multi_index`) -/
def ravel : Idx → List Nat → Nat
  | i :: is, _ :: ds => i * prod ds + ravel is ds
  | _, _ => 0

/-- inverse of `ravel` (`np.unravel_index`) -/
def unravel (n : Nat) : List Nat → Idx
  | [] => []
  | _ :: ds => (n / prod ds) :: unravel (n % prod ds) ds

/-- `InB i s`: the index has the rank of the shape and every component is in range -/
def InB : Idx → List Nat → Prop
  | [], [] => True
  | i :: is, d :: ds => i < d ∧ InB is ds
  | _, _ => False

instance decInB : (i : Idx) → (s : List Nat) → Decidable (InB i s)
  | [], [] => isTrue trivial
  | i :: is, d :: ds =>
    match Nat.decLt i d, decInB is ds with
    | isTrue h1, isTrue h2 => isTrue ⟨h1, h2⟩
    | isFalse h1, _ => isFalse (fun h => h1 h.1)
    | _, isFalse h2 => isFalse (fun h => h2 h.2)
  | [], _ :: _ => isFalse (fun h => h)
  | _ :: _, [] => isFalse (fun h => h)

/-- all indices of a shape in row-major order -/
def allIdx : List Nat → List Idx
  | [] => [[]]
  | d :: ds => (List.range d).flatMap fun i => (allIdx ds).map fun r => i :: r

/-- A COO array: stored entries (index, value) in storage order, logical shape, fill value. -/
structure COO (α : Type) where
  shape : List Nat
  entries : List (Idx × α)
  fill : α
  deriving Repr

namespace COO
variable {α : Type}

def keys (x : COO α) : List Idx := x.entries.map (·.1)
def vals (x : COO α) : List α := x.entries.map (·.2)
def nnz (x : COO α) : Nat := x.entries.length

/-- lookup in an association list with default -/
def lookup (es : List (Idx × α)) (d : α) (i : Idx) : α :=
  match es.find? (fun e => e.1 == i) with
  | some e => e.2
  | none => d

/-- value at an index: first stored entry with that index, else the fill value -/
def get (x : COO α) (i : Idx) : α := lookup x.entries x.fill i

/-- row-major dense listing -/
def todense (x : COO α) : List α := (allIdx x.shape).map x.get

/-- well-formed: every stored index is inside the shape -/
def WF (x : COO α) : Prop := ∀ e ∈ x.entries, InB e.1 x.shape
instance (x : COO α) : Decidable x.WF := by unfold WF; infer_instance
/-- canonical: in range, strictly increasing in row-major (lexicographic) order -/
def Canonical (x : COO α) : Prop := x.WF ∧ x.keys.Pairwise (· < ·)
/-- no stored entry equals the fill value -/
def NoFill [DecidableEq α] (x : COO α) : Prop := ∀ e ∈ x.entries, e.2 ≠ x.fill

end COO

/-- dense array: shape and row-major data -/
structure DArr (α : Type) where
  shape : List Nat
  flat : List α
  deriving Repr

/-- error classes shared by model and harness -/
inductive Err where
  | value | index | type | runtime | notImplemented | overflow | internal | hang
  deriving Repr, DecidableEq, BEq

def Err.name : Err → String
  | .value => "value" | .index => "index" | .type => "type" | .runtime => "runtime"
  | .notImplemented => "notimpl" | .overflow => "overflow" | .internal => "internal" | .hang => "hang"

-- equality of results is decidable (shared by several models; declared once, here)
deriving instance DecidableEq for Except

end SparseV

/-
  SparseV.Model.Loops — fuel-based models of the `while` loops of
  `_compressed/indexing.py: get_slicing_selection` (property C18).  The loops there are not structurally
  recursive (two cursors advance data-dependently), so the model takes an explicit step budget and
  reports `outOfFuel` when it is exhausted; `Props/C18.lean` proves that the budget
  `len(row) + len(col) + 1` is never exhausted.  Reads outside an array (numba does not bounds-check in
  `nopython` mode) are modelled as the outcome `oob`.

  `_dot_coo_ndarray*`'s loops are modelled by the C04 check and `algD`'s rejection loop by the C19 check
  (`SparseV.Create.algDGo`); they are referenced, not duplicated.
-/
import SparseV.Model.Basic
namespace SparseV
namespace Loops

/-- outcome of one loop: the selections appended (position in the row, position in `col`), or a failure -/
inductive Step where
  | done (sel : List (Nat × Nat))
  | outOfFuel
  | oob
  deriving Repr, DecidableEq

/-- `np.searchsorted(a, v)` (side="left") on a sorted array: number of elements smaller than `v` -/
def searchsorted (a : List Nat) (v : Nat) : Nat := (a.takeWhile (· < v)).length

/-- the first `while` ("linear filtering"): cursors `count` into the row, `colCount` into `col`.
```
while col_count < col.size and count < current_row.size:
    if current_row[-1] < col[col_count] or current_row[count] > col[-1]: break
    if current_row[count] == col[col_count]: (append) count += 1; col_count += 1
    elif current_row[count] < col[col_count]: count += 1
    else: col_count += 1
``` -/
def linLoop (row col : List Nat) : Nat → Nat → Nat → List (Nat × Nat) → Step
  | 0, _, _, _ => .outOfFuel
  | fuel + 1, count, colCount, acc =>
    if colCount < col.length ∧ count < row.length then
      match row.getLast?, col.getLast?, row[count]?, col[colCount]? with
      | some rl, some cl, some rc, some cc =>
        if rl < cc ∨ rc > cl then .done acc.reverse
        else if rc = cc then linLoop row col fuel (count + 1) (colCount + 1) ((count, colCount) :: acc)
        else if rc < cc then linLoop row col fuel (count + 1) colCount acc
        else linLoop row col fuel count (colCount + 1) acc
      | _, _, _, _ => .oob
    else .done acc.reverse

/-- the inner `while` of the second loop ("skip needless searches"):
`while col_count < len(col) and size < len(row) and col[col_count] < row[size]: col_count += 1`
— structurally recursive on the remaining part of `col` -/
def skipLoop (row col : List Nat) (size : Nat) : Nat → Nat → Nat
  | 0, colCount => colCount
  | fuel + 1, colCount =>
    match col[colCount]?, row[size]? with
    | some cc, some rs => if cc < rs then skipLoop row col size fuel (colCount + 1) else colCount
    | _, _ => colCount

/-- the second `while` ("binary searches"): cursors `size` into the row, `colCount` into `col`
(`prev` always equals `size` at the head of the loop, so it is not a separate variable here). -/
def binLoop (row col : List Nat) : Nat → Nat → Nat → List (Nat × Nat) → Step
  | 0, _, _, _ => .outOfFuel
  | fuel + 1, size, colCount, acc =>
    if colCount < col.length then
      let colCount := skipLoop row col size (col.length - colCount) colCount
      if colCount ≥ col.length then .done acc.reverse else
      match row.getLast?, col.getLast?, col[colCount]? with
      | some rl, some cl, some cc =>
        if rl < cc then .done acc.reverse else
        match row[size]? with
        | none => .oob                                   -- `current_row[size]` read past the row
        | some rs =>
          if rs > cl then .done acc.reverse else
          let s := size + searchsorted (row.drop size) cc
          match row[s]? with
          | some v =>
            if v = cc then binLoop row col fuel (s + 1) (colCount + 1) ((s, colCount) :: acc)
            else binLoop row col fuel s (colCount + 1) acc
          | none => binLoop row col fuel s (colCount + 1) acc      -- `s >= current_row.size`
      | _, _, _ => .oob                                   -- `current_row[-1]` of an empty row
    else .done acc.reverse

/-- the step budget that `Props/C18.lean` proves sufficient for one row -/
def budget (row col : List Nat) : Nat := row.length + col.length + 1

/-- one iteration of the `for i, (start, end) in enumerate(zip(starts, ends))` loop -/
def rowSelection (fuel : Option Nat) (indices col : List Nat) (start stop : Nat) : Step :=
  let row := (indices.take stop).drop start
  let f := fuel.getD (budget row col)
  if row.length < col.length then linLoop row col f 0 0 [] else binLoop row col f 0 0 []

inductive SelResult where
  | done (indList : List Nat) (indices : List Nat) (indptr : List Nat)
  | outOfFuel
  | oob
  deriving Repr, DecidableEq

/-- `get_slicing_selection(arr_data, arr_indices, indptr, starts, ends, col)`: positions into `data`
(`ind_list`), the new column numbers (`indices`) and the new `indptr` -/
def slicingSelection (fuel : Option Nat) (indices : Array Nat) (rows : List (Nat × Nat)) (col : Array Nat) : SelResult :=
  let ind := indices.toList
  let c := col.toList
  let rec go : List (Nat × Nat) → List Nat → List Nat → List Nat → Nat → SelResult
    | [], il, cs, ptr, _ => .done il.reverse cs.reverse ptr.reverse
    | (st, en) :: rest, il, cs, ptr, last =>
      match rowSelection fuel ind c st en with
      | .outOfFuel => .outOfFuel
      | .oob => .oob
      | .done sel =>
        go rest ((sel.map fun p => p.1 + st).reverse ++ il) ((sel.map (·.2)).reverse ++ cs)
          ((last + sel.length) :: ptr) (last + sel.length)
  go rows [] [] [0] 0

end Loops
end SparseV

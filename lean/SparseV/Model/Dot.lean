/-
  SparseV.Model.Dot — executable, loop-faithful models of the product kernels of
  sparse/numba_backend/_common.py and of the `_dot` dispatch.  Core Lean only (linked into svdriver).

  Conventions.  Elements are `Int`.  A 1-d NumPy array is a `List`; `x[lo:hi]` is `slice x lo hi`
  (NumPy clamps, so does `drop/take`).  A dense 2-d operand is a list of rows (`Spec.DenseM`), read
  with `dget`.  A pre-sized output array that the kernel fills at a running position `nnz` is the
  list of the values written, in writing order; the number of slots the kernel *allocated* (its nnz
  pre-count) is returned next to it wherever the two can differ — "pre-count = entries written" is
  the memory-safety obligation proved in Props/C04.  Every `for` loop is a fold over `List.range` or
  over the slice it iterates; the `while` loops of `_dot_coo_ndarray*` whose progress is not evident
  take explicit fuel (`none` = fuel exhausted).  Reads outside an array (which numba does not check)
  return a default and writes outside are dropped; the theorems assume in-range indices.
-/
import SparseV.Spec.Matmul
namespace SparseV.Dot
open SparseV.Spec

/-- `x[lo:hi]` -/
def slice {β : Type} (l : List β) (lo hi : Nat) : List β := (l.drop lo).take (hi - lo)

/-- the CSR triple `(indptr, indices, data)` (also used for CSC: then rows are columns) -/
structure CSR where
  indptr : List Nat
  indices : List Nat
  data : List Int
  deriving Repr

namespace CSR
def lo (A : CSR) (i : Nat) : Nat := A.indptr.getD i 0
def hi (A : CSR) (i : Nat) : Nat := A.indptr.getD (i + 1) 0
/-- `a_indices[a_indptr[i] : a_indptr[i + 1]]` -/
def rowIdx (A : CSR) (i : Nat) : List Nat := slice A.indices (A.lo i) (A.hi i)
/-- `zip(a_indices[a_indptr[i] : a_indptr[i + 1]], a_data[a_indptr[i] : a_indptr[i + 1]])` -/
def row (A : CSR) (i : Nat) : List (Nat × Int) :=
  (slice A.indices (A.lo i) (A.hi i)).zip (slice A.data (A.lo i) (A.hi i))
/-- sum of the stored values with minor index `j` in a row (a canonical row has at most one) -/
def contrib (r : List (Nat × Int)) (j : Nat) : Int := ((r.filter fun e => e.1 == j).map (·.2)).sum
/-- dense value of the matrix the triple stands for -/
def get (A : CSR) (i j : Nat) : Int := contrib (A.row i) j
/-- every minor index is below `n` -/
def ColsIn (A : CSR) (n : Nat) : Prop := ∀ k ∈ A.indices, k < n
instance (A : CSR) (n : Nat) : Decidable (A.ColsIn n) := by unfold ColsIn; infer_instance
/-- as many values as indices -/
def WF (A : CSR) : Prop := A.indices.length = A.data.length
instance (A : CSR) : Decidable A.WF := by unfold WF; infer_instance
end CSR

/-- errors a kernel can end in -/
inductive KErr where
  | zeroDiv   -- ZeroDivisionError raised inside the jitted function
  | hang      -- fuel exhausted
  deriving Repr, DecidableEq

def KErr.name : KErr → String
  | .zeroDiv => "zerodiv" | .hang => "hang"

/-! ### `val[j] += v * row[j]  for j in range(n_col)` -/

/-- one pass of the innermost loop of the dense-output kernels over the output row `val` -/
def axpy (v : Int) (f : Nat → Int) : Nat → List Int → List Int
  | _, [] => []
  | j, x :: xs => (x + v * f j) :: axpy v f (j + 1) xs

/-! ### `_dot_csr_ndarray` -/

/-- the `k` loop of one output row: starts from the zero row -/
def dotCsrNdRow (nCol : Nat) (arow : List (Nat × Int)) (b : DenseM) : List Int :=
  arow.foldl (fun val e => axpy e.2 (fun j => dget b e.1 j) 0 val) (List.replicate nCol 0)

/-- `_dot_csr_ndarray(out_shape, a_data, a_indices, a_indptr, b)` -/
def dotCsrNd (nRow nCol : Nat) (A : CSR) (b : DenseM) : DenseM :=
  (List.range nRow).map fun i => dotCsrNdRow nCol (A.row i) b

/-! ### `_csr_ndarray_count_nnz`, `_dot_csr_ndarray_sparse` -/

/-- `for k in cur_row: if b[k, j] != 0: nnz += 1; break` — does column `j` count? -/
def csrNdHit (idx : List Nat) (b : DenseM) (j : Nat) : Bool := idx.any fun k => dget b k j != 0

/-- returns `(nnz, indptr)`; `indptr[0]` is written by the caller -/
def csrNdCountNnz (nRow nCol : Nat) (A : CSR) (b : DenseM) : Nat × List Nat :=
  (List.range nRow).foldl (fun (st : Nat × List Nat) i =>
    let nnz := (List.range nCol).foldl (fun n j => if csrNdHit (A.rowIdx i) b j then n + 1 else n) st.1
    (nnz, st.2 ++ [nnz])) (0, [0])

/-- one output row: the written `(j, val)` in order -/
def dotCsrNdSparseRow (nCol : Nat) (arow : List (Nat × Int)) (b : DenseM) : List (Nat × Int) :=
  (List.range nCol).filterMap fun j =>
    let st := arow.foldl (fun (st : Int × Bool) e =>
      (st.1 + e.2 * dget b e.1 j, st.2 || (dget b e.1 j != 0))) (0, false)
    if st.2 then some (j, st.1) else none

structure SparseOut where
  data : List Int       -- values written, in order
  indices : List Nat    -- minor indices written, in order
  indptr : List Nat
  alloc : Nat           -- slots allocated from the pre-count
  deriving Repr

/-- `_dot_csr_ndarray_sparse(out_shape, a_data, a_indices, a_indptr, b)` -/
def dotCsrNdSparse (nRow nCol : Nat) (A : CSR) (b : DenseM) : SparseOut :=
  let c := csrNdCountNnz nRow nCol A b
  let out := (List.range nRow).flatMap fun i => dotCsrNdSparseRow nCol (A.row i) b
  { data := out.map (·.2), indices := out.map (·.1), indptr := c.2, alloc := c.1 }

/-! ### `_dot_csc_ndarray` -/

/-- `_dot_csc_ndarray(a_shape, b_shape, a_data, a_indices, a_indptr, b)`; `A` holds columns -/
def dotCscNd (aRows bRows bCols : Nat) (A : CSR) (b : DenseM) : DenseM :=
  (List.range bRows).foldl (fun out i =>
    (A.row i).foldl (fun out e =>
      out.set e.1 (axpy e.2 (fun j => dget b i j) 0 (out.getD e.1 []))) out)
    (List.replicate aRows (List.replicate bCols 0))

/-! ### the scatter state with an intrusive linked list (`sums`, `next_`/`mask`, `head`, `length`) -/

structure LL where
  next : List Int   -- -1: not in the list; -2: last element; k ≥ 0: successor
  sums : List Int
  head : Int
  len : Nat
  deriving Repr

/-- `sums[k] += c; if next_[k] == -1: next_[k] = head; head = k; length += 1` -/
def LL.touch (s : LL) (k : Nat) (c : Int) : LL :=
  let sums := s.sums.set k (s.sums.getD k 0 + c)
  if s.next.getD k 0 = -1 then
    { next := s.next.set k s.head, sums := sums, head := (k : Int), len := s.len + 1 }
  else { s with sums := sums }

/-- the emission loop `for _ in range(length)`.  `bySum = false`: `if next_[head] != -1` (csr·csr,
coo·coo); `bySum = true`: `if sums[head] != 0` (csc·ndarray).  Returns the final state and the
`(head, sums[head])` written, in order.  (`head` is only dereferenced while it is a list element;
the model reads position `head.toNat`.) -/
def LL.emit (bySum : Bool) : Nat → LL → LL × List (Nat × Int)
  | 0, s => (s, [])
  | n + 1, s =>
    let h := s.head.toNat
    let keep : Bool := if bySum then s.sums.getD h 0 != 0 else s.next.getD h (-1) != -1
    let r := emit bySum n
      { next := s.next.set h (-1), sums := s.sums.set h 0, head := s.next.getD h (-1), len := s.len }
    (r.1, (if keep then [(h, s.sums.getD h 0)] else []) ++ r.2)

def LL.touchAll (s : LL) (ts : List (Nat × Int)) : LL := ts.foldl (fun s t => s.touch t.1 t.2) s

/-! ### `_csr_csr_count_nnz` -/

/-- the `k` loop for one `i`: `if mask[k] != i: mask[k] = i; row_nnz += 1` -/
def countRow (i : Nat) (ks : List Nat) (mask : List Int) : List Int × Nat :=
  ks.foldl (fun (m : List Int × Nat) k =>
    if m.1.getD k (-1) ≠ (i : Int) then (m.1.set k (i : Int), m.2 + 1) else m) (mask, 0)

/-- the column indices scattered to while computing output row `i` -/
def touchKeys (A B : CSR) (i : Nat) : List Nat := (A.rowIdx i).flatMap fun j => B.rowIdx j

/-- `_csr_csr_count_nnz(out_shape, a_indices, b_indices, a_indptr, b_indptr)`; `mask` persists over rows -/
def csrCsrCountNnz (nRow nCol : Nat) (A B : CSR) : Nat :=
  ((List.range nRow).foldl (fun (st : List Int × Nat) i =>
    let r := countRow i (touchKeys A B i) st.1
    (r.1, st.2 + r.2)) (List.replicate nCol (-1), 0)).2

/-! ### `_dot_csr_csr` -/

/-- the `(k, av * bv)` scattered while computing one output row, in loop order -/
def touches (arow : List (Nat × Int)) (B : CSR) : List (Nat × Int) :=
  arow.flatMap fun a => (B.row a.1).map fun b => (b.1, a.2 * b.2)

/-- one iteration of `for i in range(n_row)`: `next_[:] = -1`, scatter, emit.  `sums` is carried
over from the previous row (the emission loop is what zeroes it). -/
def csrCsrRow (nCol : Nat) (arow : List (Nat × Int)) (B : CSR) (sums : List Int) : LL × List (Nat × Int) :=
  let s := LL.touchAll { next := List.replicate nCol (-1), sums := sums, head := -2, len := 0 } (touches arow B)
  LL.emit false s.len s

structure RowsOut where
  sums : List Int
  indptr : List Nat
  out : List (Nat × Int)      -- (indices[p], data[p]) in writing order
  deriving Repr

/-- the main loop of `_dot_csr_csr` (before the final "completely dense" patch) -/
def dotCsrCsrLoop (nRow nCol : Nat) (A B : CSR) : RowsOut :=
  (List.range nRow).foldl (fun (st : RowsOut) i =>
    let r := csrCsrRow nCol (A.row i) B st.sums
    { sums := r.1.sums, indptr := st.indptr ++ [(st.out ++ r.2).length], out := st.out ++ r.2 })
    { sums := List.replicate nCol 0, indptr := [0], out := [] }

/-- `for i in range(c): x[n*i : n*(i+1)] = x[n*i : n*(i+1)][::-1]` -/
def revBlocks {β : Type} (n : Nat) : Nat → List β → List β
  | 0, l => l
  | c + 1, l => (l.take n).reverse ++ revBlocks n c (l.drop n)

/-- `_dot_csr_csr(out_shape, a_data, b_data, a_indices, b_indices, a_indptr, b_indptr)`.
The pre-count sizes `indices`/`data`; the tail `if len(indices) == n_col * n_row` reverses every
block of `n_col` entries and divides by `n_col`. -/
def dotCsrCsr (nRow nCol : Nat) (A B : CSR) : Except KErr SparseOut :=
  let alloc := csrCsrCountNnz nRow nCol A B
  let r := dotCsrCsrLoop nRow nCol A B
  if alloc = nCol * nRow then
    if nCol = 0 then .error .zeroDiv
    else
      let out := revBlocks nCol (alloc / nCol) r.out
      .ok { data := out.map (·.2), indices := out.map (·.1), indptr := r.indptr, alloc := alloc }
  else .ok { data := r.out.map (·.2), indices := r.out.map (·.1), indptr := r.indptr, alloc := alloc }

/-! ### `_dot_coo_coo` — the same scatter, rows written out as coordinates -/

structure CooOut where
  rows : List Nat
  cols : List Nat
  data : List Int
  alloc : Nat
  deriving Repr

/-- the row loop of `_dot_coo_coo`: `(sums, the (row, col, value) written, in order)` -/
def dotCooCooLoop (nRow nCol : Nat) (A B : CSR) : List Int × List (Nat × Nat × Int) :=
  (List.range nRow).foldl (fun (st : List Int × List (Nat × Nat × Int)) i =>
    let r := csrCsrRow nCol (A.row i) B st.1
    (r.1.sums, st.2 ++ r.2.map fun e => (i, e.1, e.2))) (List.replicate nCol 0, [])

/-- `_dot_coo_coo(out_shape, a_coords, b_coords, a_data, b_data, a_indptr, b_indptr)`;
`A = (a_indptr, a_coords[1], a_data)`, same for `B`. -/
def dotCooCoo (nRow nCol : Nat) (A B : CSR) : CooOut :=
  let alloc := csrCsrCountNnz nRow nCol A B
  let st := dotCooCooLoop nRow nCol A B
  { rows := st.2.map (·.1), cols := st.2.map (·.2.1), data := st.2.map (·.2.2), alloc := alloc }

/-- the index pointer `_dot` computes for a COO operand: `cumsum(bincount(coords[0], minlength=n))` -/
def indptrOfRows (n : Nat) (rows : List Nat) : List Nat :=
  (List.range n).foldl (fun (p : List Nat) i => p ++ [p.getLastD 0 + rows.count i]) [0]

/-! ### `_csc_ndarray_count_nnz`, `_dot_csc_ndarray_sparse` -/

/-- returns `(nnz, indptr[1:])`; `A` holds the columns of `a` -/
def cscNdCountNnz (aRows bRows bCols : Nat) (A : CSR) (b : DenseM) : Nat × List Nat :=
  let st := (List.range bCols).foldl (fun (st : List Int × Nat × List Nat) i =>
    let r := (List.range bRows).foldl (fun (m : List Int × Nat) j =>
      (A.rowIdx j).foldl (fun (m : List Int × Nat) k =>
        if dget b j i != 0 && m.1.getD k (-1) != (i : Int) then (m.1.set k (i : Int), m.2 + 1) else m) m)
      (st.1, 0)
    (r.1, st.2.1 + r.2, st.2.2 ++ [st.2.1 + r.2])) (List.replicate aRows (-1), 0, [])
  (st.2.1, st.2.2)

/-- the scatter of output column `i`: `for j: u = b[j, i]; if u != 0: for k in col j of a: …` -/
def cscTouches (bRows : Nat) (A : CSR) (b : DenseM) (i : Nat) : List (Nat × Int) :=
  (List.range bRows).flatMap fun j =>
    if dget b j i != 0 then (A.row j).map fun e => (e.1, dget b j i * e.2) else []

/-- `_dot_csc_ndarray_sparse(a_shape, b_shape, a_data, a_indices, a_indptr, b)`: `mask` (the list
links) and `sums` persist across output columns; entries are written only `if sums[head] != 0`,
while `indptr` and the allocation come from the pattern-only pre-count. -/
def dotCscNdSparse (aRows bRows bCols : Nat) (A : CSR) (b : DenseM) : SparseOut :=
  let c := cscNdCountNnz aRows bRows bCols A b
  let st := (List.range bCols).foldl (fun (st : LL × List (Nat × Int)) i =>
    let s := LL.touchAll { st.1 with head := -2, len := 0 } (cscTouches bRows A b i)
    let r := LL.emit true s.len s
    (r.1, st.2 ++ r.2))
    ({ next := List.replicate aRows (-1), sums := List.replicate aRows 0, head := -2, len := 0 }, [])
  { data := st.2.map (·.2), indices := st.2.map (·.1), indptr := 0 :: c.2, alloc := c.1 }

/-! ### `_dot_coo_ndarray` and `_dot_coo_ndarray_sparse` (kernels that compute `s1 @ x2.T`) -/

/-- a stored element of the COO operand: (row, column, value), rows non-decreasing -/
abbrev Ent := Nat × Nat × Int

/-- the innermost `while didx1 < len(data1) and coords1[0, didx1] == oidx1: acc += data1[didx1] *
w(coords1[1, didx1]); didx1 += 1`, run on the suffix starting at `didx1`; returns the accumulator
and the number of elements consumed. -/
def spanAcc (r : Nat) (w : Nat → Int) : List Ent → Int → Nat → Int × Nat
  | [], acc, n => (acc, n)
  | e :: rest, acc, n => if e.1 = r then spanAcc r w rest (acc + e.2.2 * w e.2.1) (n + 1) else (acc, n)

/-- write one element of a dense matrix -/
def dset (o : DenseM) (r c : Nat) (v : Int) : DenseM := o.set r ((o.getD r []).set c v)

/-- body of the outer `while` of `_dot_coo_ndarray`: the `for oidx2 in range(out_shape[1])` loop;
returns the new `out` and the value of `didx1` after it (unchanged when the range is empty). -/
def cooNdStep (nCols : Nat) (es : List Ent) (x2 : DenseM) (didx1 : Nat) (out : DenseM) : DenseM × Nat :=
  let oidx1 := ((es.drop didx1).headD (0, 0, 0)).1
  (List.range nCols).foldl (fun (st : DenseM × Nat) oidx2 =>
    let r := spanAcc oidx1 (fun c => dget x2 oidx2 c) (es.drop didx1) (dget st.1 oidx1 oidx2) 0
    (dset st.1 oidx1 oidx2 r.1, didx1 + r.2)) (out, didx1)

/-- the outer `while didx1 < len(data1)` of `_dot_coo_ndarray`, with fuel -/
def cooNdRun (nCols : Nat) (es : List Ent) (x2 : DenseM) : Nat → Nat → DenseM → Option DenseM
  | 0, _, _ => none
  | fuel + 1, didx1, out =>
    if didx1 < es.length then
      let st := cooNdStep nCols es x2 didx1 out
      cooNdRun nCols es x2 fuel st.2 st.1
    else some out

/-- `_dot_coo_ndarray(coords1, data1, array2, out_shape)` -/
def dotCooNd (nRows nCols : Nat) (es : List Ent) (x2 : DenseM) (fuel : Nat) : Option DenseM :=
  cooNdRun nCols es x2 fuel 0 (List.replicate nRows (List.replicate nCols 0))

/-- body of the outer `while` of `_dot_coo_ndarray_sparse`: the `while oidx2 < out_shape[1]` loop
(a counted loop); returns the elements appended and `cur_didx1` after it. -/
def cooNdSparseStep (nCols : Nat) (es : List Ent) (x2 : DenseM) (didx1 : Nat) : List (Nat × Nat × Int) × Nat :=
  let row := ((es.drop didx1).headD (0, 0, 0)).1
  (List.range nCols).foldl (fun (st : List (Nat × Nat × Int) × Nat) oidx2 =>
    let r := spanAcc row (fun c => dget x2 oidx2 c) (es.drop didx1) 0 0
    (if r.1 != 0 then st.1 ++ [(row, oidx2, r.1)] else st.1, didx1 + r.2)) ([], didx1)

def cooNdSparseRun (nCols : Nat) (es : List Ent) (x2 : DenseM) :
    Nat → Nat → List (Nat × Nat × Int) → Option (List (Nat × Nat × Int))
  | 0, _, _ => none
  | fuel + 1, didx1, out =>
    if didx1 < es.length then
      let st := cooNdSparseStep nCols es x2 didx1
      cooNdSparseRun nCols es x2 fuel st.2 (out ++ st.1)
    else some out

/-- `_dot_coo_ndarray_sparse … (coords1, data1, array2, out_shape)`: the `(row, col, value)` appended -/
def dotCooNdSparse (nCols : Nat) (es : List Ent) (x2 : DenseM) (fuel : Nat) : Option (List (Nat × Nat × Int)) :=
  cooNdSparseRun nCols es x2 fuel 0 []

/-! ### `_dot_ndarray_coo` and `_dot_ndarray_coo_sparse` -/

/-- `_dot_ndarray_coo(array1, coords2, data2, out_shape)`; `es` = (coords2[0], coords2[1], data2) -/
def dotNdCoo (nRows nCols : Nat) (x1 : DenseM) (es : List Ent) : DenseM :=
  (List.range nRows).foldl (fun out oidx1 =>
    es.foldl (fun out e => dset out oidx1 e.2.1 (dget out oidx1 e.2.1 + dget x1 oidx1 e.1 * e.2.2)) out)
    (List.replicate nRows (List.replicate nCols 0))

/-- `_dot_ndarray_coo_sparse`: `es` are the elements of `b.T` (so `e.1` is the output column, sorted) -/
def dotNdCooSparse (nRows : Nat) (x1 : DenseM) (es : List Ent) : List (Nat × Nat × Int) :=
  (List.range nRows).flatMap fun oidx1 =>
    let st := es.foldl (fun (st : List (Nat × Nat × Int) × Int × Nat) e =>
      let st := if e.1 ≠ st.2.2 then
          ((if st.2.1 != 0 then st.1 ++ [(oidx1, st.2.2, st.2.1)] else st.1),
           (if st.2.1 != 0 then 0 else st.2.1), e.1)
        else st
      (st.1, st.2.1 + dget x1 oidx1 e.2.1 * e.2.2, st.2.2)) ([], 0, 0)
    if st.2.1 != 0 then st.1 ++ [(oidx1, st.2.2, st.2.1)] else st.1

/-! ### the `_dot` dispatch as a decision function -/

inductive CA where | c0 | c1            -- compressed_axes (0,) / (1,)
  deriving Repr, DecidableEq
inductive Kind where | coo | gcxs (ca : CA) | nd
  deriving Repr, DecidableEq
inductive RT where | none | coo | gcxs | nd   -- return_type
  deriving Repr, DecidableEq
inductive Kernel where
  | csrCsr | csrNd | csrNdSparse | cscNd | cscNdSparse | cooCoo | cooNd | cooNdSparse | ndCoo | ndCooSparse | npDot
  deriving Repr, DecidableEq
/-- how the kernel's operands relate to `a`, `b`:
`plain`: kernel(a, b);  `swapT`: kernel(bᵀ, aᵀ) and the result is read transposed (`a @ b = (bᵀ @ aᵀ)ᵀ`);
`rhsT`: the kernel is given the right operand transposed and itself computes `a @ x2ᵀ`. -/
inductive Orient where | plain | swapT | rhsT
  deriving Repr, DecidableEq
inductive Post where | none | todense | tocoo | asGcxs
  deriving Repr, DecidableEq

structure Plan where
  kernel : Kernel
  orient : Orient
  resultCA : Option CA     -- compressed_axes given to the GCXS built from the kernel output
  prune : Bool             -- the constructor is called with prune=True
  post : Post
  deriving Repr, DecidableEq

def Kernel.name : Kernel → String
  | .csrCsr => "csr_csr" | .csrNd => "csr_nd" | .csrNdSparse => "csr_nd_sparse" | .cscNd => "csc_nd"
  | .cscNdSparse => "csc_nd_sparse" | .cooCoo => "coo_coo" | .cooNd => "coo_nd" | .cooNdSparse => "coo_nd_sparse"
  | .ndCoo => "nd_coo" | .ndCooSparse => "nd_coo_sparse" | .npDot => "np_dot"
def Orient.name : Orient → String | .plain => "plain" | .swapT => "swapT" | .rhsT => "rhsT"
def Post.name : Post → String | .none => "none" | .todense => "todense" | .tocoo => "tocoo" | .asGcxs => "asgcxs"
def CA.toNat : CA → Nat | .c0 => 0 | .c1 => 1

def Kind.isSparse : Kind → Bool | .nd => false | _ => true
def Kind.isGcxs : Kind → Bool | .gcxs _ => true | _ => false

/-- `_dot(a, b, return_type)` for 2-d operands.  `caDefault`: the compressed axis `asformat("gcxs")`
picks for a COO left operand (data dependent); `aBigger`: `a.nbytes > b.nbytes` at the comparison.
`none` = the final `raise TypeError("Unsupported types.")`. -/
def dotDispatch (ka kb : Kind) (caDefault : CA) (aBigger : Bool) (rt : RT) : Option Plan :=
  -- both sparse and at least one GCXS: convert both, b to a's compressed axes
  let ka' : Kind := if ka.isSparse && kb.isSparse && (ka.isGcxs || kb.isGcxs) then
      (match ka with | .coo => .gcxs caDefault | k => k) else ka
  let kb' : Kind := if ka.isSparse && kb.isSparse && (ka.isGcxs || kb.isGcxs) then
      (match ka' with | .gcxs c => .gcxs c | _ => kb) else kb
  match ka', kb' with
  | .gcxs ca, .gcxs cb =>
    let c := if aBigger then ca else cb
    let post := match rt with | .nd => Post.todense | .coo => Post.tocoo | _ => Post.none
    match c with
    | .c0 => some { kernel := .csrCsr, orient := .plain, resultCA := some .c0, prune := true, post := post }
    | .c1 => some { kernel := .csrCsr, orient := .swapT, resultCA := some .c1, prune := true, post := post }
  | .gcxs ca, .nd =>
    let dense := rt = .none || rt = .nd
    let post := if rt = .coo then Post.tocoo else Post.none
    match ca with
    | .c0 => if dense then some { kernel := .csrNd, orient := .plain, resultCA := none, prune := false, post := .none }
             else some { kernel := .csrNdSparse, orient := .plain, resultCA := some .c0, prune := true, post := post }
    | .c1 => if dense then some { kernel := .cscNd, orient := .plain, resultCA := none, prune := false, post := .none }
             else some { kernel := .cscNdSparse, orient := .plain, resultCA := some .c1, prune := true, post := post }
  | .nd, .gcxs cb =>
    let dense := rt = .none || rt = .nd
    let post := if rt = .coo then Post.tocoo else Post.none
    match cb with
    | .c0 => if dense then some { kernel := .cscNd, orient := .swapT, resultCA := none, prune := false, post := .none }
             else some { kernel := .cscNdSparse, orient := .swapT, resultCA := some .c0, prune := true, post := post }
    | .c1 => if dense then some { kernel := .csrNd, orient := .swapT, resultCA := none, prune := false, post := .none }
             else some { kernel := .csrNdSparse, orient := .swapT, resultCA := some .c1, prune := true, post := post }
  | .coo, .coo =>
    let post := match rt with | .nd => Post.todense | .gcxs => Post.asGcxs | _ => Post.none
    some { kernel := .cooCoo, orient := .plain, resultCA := none, prune := true, post := post }
  | .coo, .nd =>
    if rt = .none || rt = .nd then some { kernel := .cooNd, orient := .rhsT, resultCA := none, prune := false, post := .none }
    else some { kernel := .cooNdSparse, orient := .rhsT, resultCA := none, prune := false,
                post := if rt = .gcxs then .asGcxs else .none }
  | .nd, .coo =>
    if rt = .none || rt = .nd then some { kernel := .ndCoo, orient := .plain, resultCA := none, prune := false, post := .none }
    else some { kernel := .ndCooSparse, orient := .rhsT, resultCA := none, prune := true,
                post := if rt = .gcxs then .asGcxs else .none }
  | .nd, .nd => some { kernel := .npDot, orient := .plain, resultCA := none, prune := false, post := .none }
  | _, _ => none

/-- the array type a kernel's output is wrapped into -/
def Kernel.outKind : Kernel → RT
  | .csrCsr | .csrNdSparse | .cscNdSparse => .gcxs
  | .cooCoo | .cooNdSparse | .ndCooSparse => .coo
  | .csrNd | .cscNd | .cooNd | .ndCoo | .npDot => .nd
/-- the array type `_dot` finally returns under a plan -/
def Plan.outKind (p : Plan) : RT :=
  match p.post with
  | .none => p.kernel.outKind
  | .todense => .nd
  | .tocoo => .coo
  | .asGcxs => .gcxs
/-- kernels that write an entry without testing its value (a cancelling sum is written as 0) -/
def Kernel.writesZeros : Kernel → Bool
  | .csrCsr | .csrNdSparse | .cooCoo => true
  | _ => false

/-! ### `tensordot` axis bookkeeping -/

/-- `[k for k in range(nd) if k not in axes]` -/
def notin (nd : Nat) (axes : List Nat) : List Nat := (List.range nd).filter fun k => !axes.contains k
/-- `newaxes_a = notin + axes_a` -/
def newaxesA (nda : Nat) (axesA : List Nat) : List Nat := notin nda axesA ++ axesA
/-- `newaxes_b = axes_b + notin` -/
def newaxesB (ndb : Nat) (axesB : List Nat) : List Nat := axesB ++ notin ndb axesB
/-- `N2 = prod(shape[axis] for axis in axes)` -/
def n2 (shape axes : List Nat) : Nat := axes.foldl (fun n a => n * shape.getD a 0) 1
/-- `olda + oldb`: the result shape -/
def tdShape (sa sb axesA axesB : List Nat) : List Nat :=
  (notin sa.length axesA).map (fun a => sa.getD a 0) ++ (notin sb.length axesB).map (fun a => sb.getD a 0)
/-- the `equal` test after normalising negative axes: same count, equal extents pairwise -/
def tdAxesOk (sa sb axesA axesB : List Nat) : Bool :=
  axesA.length == axesB.length && (axesA.zip axesB).all fun p => sa.getD p.1 0 == sb.getD p.2 0

end SparseV.Dot

/-
  SparseV.Model.Search — executable model of the searching / sorting / set functions of
  sparse/numba_backend/_coo/common.py (`_sort_coo`, `_compute_minmax_args`, `unique_counts`,
  `unique_values`, `argwhere`, one-argument `where`) and `COO.nonzero` (_coo/core.py).
  Core Lean only.  The model follows the code, bugs included; a NumPy call inside the code
  (`np.sort`, `np.argmax`, `np.unique`, `np.argsort`) is modelled by its specification in
  `SparseV.Spec.Search`.  Variants that the proposed upstream fixes produce are selected by
  explicit flags so that the switch after a fix is a flag, not a new model.
-/
import SparseV.Spec.Search
namespace SparseV
namespace Search
open Spec

/-! ### `_sort_coo` -/

/-- One group (row) of `_sort_coo`.  `es`: the stored (position, value) pairs of the row, `n` =
`sort_axis_len`.
```
data[group] = np.sort(data[group]);  if descending: data[group] = data[group][::-1]
fill_value_count = sort_axis_len - group_size
indices = np.arange(group_size)
for pos in range(group_size):
    if (not descending and fill_value < data[pos]) or (descending and fill_value > data[pos]):
        indices[pos:] += fill_value_count; break
```
(`if group_size > 1` around the sort only skips sorting lists of length ≤ 1.) -/
def sortRow (descending : Bool) (n : Nat) (fill : Int) (es : Row) : Row :=
  let k := es.length
  let asc := (es.map (·.2)).mergeSort leAsc
  let data := if descending then asc.reverse else asc
  let fillCount := n - k
  let pos := data.findIdx fun d => if descending then decide (fill > d) else decide (fill < d)
  let indices := (List.range k).map fun i => if i < pos then i else i + fillCount
  indices.zip data

/-- the loop's group detection: maximal runs of equal group coordinate, in storage order -/
def runs : List (Nat × Nat × Int) → List (Nat × Row)
  | [] => []
  | (g, c, v) :: rest =>
    match runs rest with
    | (g', r) :: more => if g = g' then (g, (c, v) :: r) :: more else (g, [(c, v)]) :: (g', r) :: more
    | [] => [(g, [(c, v)])]

/-- `_sort_coo(coords, data, fill_value, sort_axis_len, descending)` on a 2-d coordinate list
(group coordinate, sort coordinate, value) -/
def sortCoo (descending : Bool) (n : Nat) (fill : Int) (es : List (Nat × Nat × Int)) : List (Nat × Nat × Int) :=
  (runs es).flatMap fun gr => (sortRow descending n fill gr.2).map fun e => (gr.1, e.1, e.2)

/-! ### `_compute_minmax_args` -/

/-- the first-gap loop:
```
current_coord = -1
for idx, new_coord in enumerate(np.sort(masked_reduce_coords)):
    if new_coord - current_coord > 1: result = idx; found; break
    current_coord = new_coord
if not found: result = current_coord + 1
``` -/
def gapSearch (current : Int) (idx : Nat) : List Nat → Nat
  | [] => (current + 1).toNat
  | c :: cs => if (c : Int) - current > 1 then idx else gapSearch (c : Int) (idx + 1) cs

/-- one trace (column) of `_compute_minmax_args`; `es`: the stored (reduce coordinate, value)
pairs of the column in storage order, `n` = `reduce_size`.  Columns without stored entries are not
visited by the kernel (their result is the result array's fill value 0): `[] ↦ 0`. -/
def argMinMaxCol (maxMode : Bool) (n : Nat) (fill : Int) (es : Row) : Nat :=
  let vals := es.map (·.2)
  let compared := vals.any fun v => if maxMode then decide (v > fill) else decide (v < fill)
  if compared || es.length == n then
    let best := if maxMode then argmaxD vals else argminD vals
    (es.map (·.1)).getD best 0
  else
    gapSearch (-1) 0 ((es.map (·.1)).mergeSort fun a b => decide (a ≤ b))

/-- Region of finding F-stored-fill for one column of argmax/argmin: the fill value is the extremum,
the column is not full, and an explicitly stored element equal to the fill value lies before the
first unstored position (the kernel then answers the first unstored position). -/
def ExcludedArgStoredFill (maxMode : Bool) (n : Nat) (fill : Int) (es : Row) : Bool :=
  let compared := (es.map (·.2)).any fun v => if maxMode then decide (v > fill) else decide (v < fill)
  !(compared || es.length == n) &&
    es.any fun e => e.2 == fill &&
      decide (e.1 < gapSearch (-1) 0 ((es.map (·.1)).mergeSort fun a b => decide (a ≤ b)))

/-- the kernel: `result_indices = np.unique(index_coords)`, one `argMinMaxCol` per such index -/
def computeMinmaxArgs (maxMode : Bool) (n : Nat) (fill : Int) (es : List (Nat × Nat × Int)) : List (Nat × Nat) :=
  let cols := dedupAdj ((es.map (·.2.1)).mergeSort fun a b => decide (a ≤ b))
  cols.map fun j => (j, argMinMaxCol maxMode n fill (es.filterMap fun e => if e.2.1 = j then some (e.1, e.2.2) else none))

/-- drop explicitly stored fill values (`COO._prune` on a copy): what the proposed fix
`C10-stored-fill.diff` puts in front of `_arg_minmax_common`, `unique_*` and `nonzero` -/
def pruneRow (fill : Int) (es : Row) : Row := es.filter fun e => e.2 != fill

/-- column result with the optional prune step of the fix -/
def argMinMaxColWith (prune : Bool) (maxMode : Bool) (n : Nat) (fill : Int) (es : Row) : Nat :=
  argMinMaxCol maxMode n fill (if prune then pruneRow fill es else es)

/-! ### `unique_counts`, `unique_values` -/

/-- Region of finding F-stored-fill for `unique_values` / `unique_counts`: some cell is unstored and
a stored element equals the fill value (the fill value is then listed twice). -/
def ExcludedStoredFill (n : Nat) (fill : Int) (es : Row) : Bool :=
  decide (es.length < n) && es.any fun e => e.2 == fill

/-- Region of finding F-unique-counts-perm: some cell is unstored and at least two distinct stored
values lie below the fill value (the inverse permutation then differs from the permutation). -/
def ExcludedTwoBelow (n : Nat) (fill : Int) (es : Row) : Bool :=
  decide (es.length < n) && decide (2 ≤ (uniqueValuesD (es.map (·.2))).countP fun v => decide (v < fill))

/-- `np.argsort(values)` (stable) -/
def argsort (l : List Int) : List Nat :=
  (List.range l.length).mergeSort fun i j => decide (l.getD i 0 ≤ l.getD j 0)

def scatterAux {α : Type} : List Nat → List α → List α → List α
  | j :: js, v :: vs, acc => scatterAux js vs (acc.set j v)
  | _, _, acc => acc

/-- `values[p] = values.copy()`: element `i` of the old array is written to position `p[i]` -/
def scatter {α : Type} (p : List Nat) (old : List α) : List α := scatterAux p old old

/-- `values = values[p]`: position `i` of the new array reads element `p[i]` of the old one -/
def gather {α : Type} (d : α) (p : List Nat) (old : List α) : List α := p.map (old.getD · d)

/-- the re-ordering step of `unique_counts` -/
inductive PermStep where
  | scatter  -- as written:  `values[sorted_indices] = values.copy()`
  | gather   -- fixed:       `values = values[sorted_indices]`
  deriving Repr, DecidableEq

/-- `unique_counts` on the flattened array (`n` = `x.size`, `es` = stored entries):
```
values, counts = np.unique(x.data, return_counts=True)
if x.nnz < x.size:
    values = np.concatenate([[x.fill_value], values]); counts = np.concatenate([[x.size - x.nnz], counts])
    sorted_indices = np.argsort(values)
    values[sorted_indices] = values.copy(); counts[sorted_indices] = counts.copy()
``` -/
def uniqueCountsWith (step : PermStep) (prune : Bool) (n : Nat) (fill : Int) (es : Row) : List Int × List Nat :=
  let es := if prune then pruneRow fill es else es
  let vc := uniqueCountsD (es.map (·.2))
  let values := vc.map (·.1)
  let counts := vc.map (·.2)
  if es.length < n then
    let values := fill :: values
    let counts := (n - es.length) :: counts
    let p := argsort values
    match step with
    | .scatter => (scatter p values, scatter p counts)
    | .gather => (gather 0 p values, gather 0 p counts)
  else (values, counts)

/-- the code as it stands -/
def uniqueCounts := uniqueCountsWith .scatter false
/-- the code after both proposed fixes -/
def uniqueCountsFixed := uniqueCountsWith .gather true

/-- `unique_values`: `values = np.unique(x.data)`; `if x.nnz < x.size: values = np.sort([fill] ++ values)` -/
def uniqueValuesWith (prune : Bool) (n : Nat) (fill : Int) (es : Row) : List Int :=
  let es := if prune then pruneRow fill es else es
  let values := uniqueValuesD (es.map (·.2))
  if es.length < n then (fill :: values).mergeSort leAsc else values

def uniqueValues := uniqueValuesWith false
def uniqueValuesFixed := uniqueValuesWith true

/-! ### `COO.nonzero`, `argwhere`, `where(cond)` -/

/-- `COO.nonzero` / `argwhere` / one-argument `where`: `check_zero_fill_value`, 0-d rejected,
then the stored coordinates in storage order (entry-wise = the rows of `argwhere`). -/
def nonzeroWith (prune : Bool) (x : COO Int) : Except Err (List Idx) :=
  if x.fill ≠ 0 then .error .value
  else if x.shape = [] then .error .value
  else .ok ((if prune then x.entries.filter fun e => e.2 != 0 else x.entries).map (·.1))

def nonzero := nonzeroWith false
def nonzeroFixed := nonzeroWith true

end Search
end SparseV

/-
  SparseV.Model.SharedReads — two more pieces of state that concurrent READ-ONLY calls share, as
  small-step transition systems over n threads (same conventions as Model/Interleave.lean: one
  atomic action per step, a schedule is a list of thread ids, stutter steps allowed).

  (c) the dictionary `self.data` of a shared DOK array.  CPython's rule (Objects/dictobject.c,
      dictiter_iternextitem): a dictionary iterator remembers `ma_used` (the number of live entries)
      at creation; `next()` first compares it with the current `ma_used` and raises
      RuntimeError("dictionary changed size during iteration") if they differ; otherwise it looks
      for the next LIVE entry at or after its position in the entry array; it also counts down the
      number of items it still expects (`len`, initially `ma_used`) and raises
      RuntimeError("dictionary keys changed during iteration") when it finds an entry although
      that count is 0 (a deletion plus an insertion behind its back keep the size and are caught so).  `del d[k]` leaves a dead slot
      (positions of the other entries do not move), `d[k] = v` overwrites in place when `k` is
      present and appends otherwise.  (Rebuilding of the entry array on growth is not modelled: the
      harness keeps its dictionaries below the first resize.)
      A method call is the list of its statements that touch `self.data`, as READ OFF THE SOURCE by
      tools/tables.d/C13.py (SparseV.Gen.dokDataUses): `methodProto`.
  (d) the process-global list `warnings.filters` and `with warnings.catch_warnings():` blocks
      (Lib/warnings.py): `__enter__` saves the list object and installs a copy; `simplefilter` /
      `filterwarnings` insert at the front of whatever list is installed (removing an equal entry
      first); `__exit__` re-installs the saved object.  `warn` takes the action of the FIRST matching
      entry; action "error" raises.  Blocks of different threads need not nest, so an exit can
      install a list that still carries another thread's entries — for good.
      Value semantics is exact here: a saved list object is never the installed one while it is
      saved (the saver installed a copy; only that saver re-installs it), so nobody mutates it.
      The blocks are READ OFF THE SOURCE (SparseV.Gen.catchBlocks): `libraryBlocks`.

  Core Lean only.
-/
import SparseV.Model.Interleave
import SparseV.Generated.SharedState
namespace SparseV.Shared
open SparseV SparseV.Interleave

/-! ### (c) the shared dictionary -/

abbrev Item := Nat × Int

/-- the entry array: `none` is the dead slot a deletion leaves behind -/
abbrev Dict := List (Option Item)

def items (d : Dict) : List Item := d.filterMap id

/-- `ma_used` -/
def used (d : Dict) : Nat := (items d).length

/-- first live entry of `es`, whose first slot has index `p`; with the index after it -/
def nextIn : List (Option Item) → Nat → Option (Item × Nat)
  | [], _ => none
  | some it :: _, p => some (it, p + 1)
  | none :: r, p => nextIn r (p + 1)

def nextFrom (d : Dict) (pos : Nat) : Option (Item × Nat) := nextIn (d.drop pos) pos

def slotHas (k : Nat) : Option Item → Bool
  | some it => it.1 == k
  | none => false

def hasKey (d : Dict) (k : Nat) : Bool := d.any (slotHas k)

def setKey (d : Dict) (k : Nat) (v : Int) : Dict :=
  if hasKey d k then d.map (fun e => if slotHas k e then some (k, v) else e) else d ++ [some (k, v)]

/-- `none`: KeyError -/
def delKey (d : Dict) (k : Nat) : Option Dict :=
  if hasKey d k then some (d.map (fun e => if slotHas k e then none else e)) else none

/-- a statement of a method, as far as the shared dictionary is concerned (the fill value is 0) -/
inductive Stmt where
  | iterItems   -- `for c, d in self.data.items(): <private work>`: statement loop over the live dictionary
  | scanItems   -- a comprehension / generator over the live dictionary
  | snapshot    -- one C call that reads it: len, list(d.items()) (COO.from_iter), `k in d`, d[k], d.get(k)
  | pruneFill   -- `for c in [c for c, d in self.data.items() if d == fill]: del self.data[c]`
  | setItem (k : Nat) (v : Int)   -- `self.data[k] = v`
  | delItem (k : Nat)             -- `del self.data[k]`
  deriving DecidableEq, Repr

def Stmt.isRead : Stmt → Bool
  | .iterItems => true
  | .scanItems => true
  | .snapshot => true
  | _ => false

/-- a method call: its statements -/
abbrev Op := List Stmt

def Op.isRead (op : Op) : Bool := op.all Stmt.isRead

inductive IterMode where
  | loop | comp | prune
  deriving DecidableEq, Repr

/-- the call in progress: all its statements, those still to execute, the items its reads have seen -/
structure Frame where
  op : Op
  rest : List Stmt
  seen : List Item
  deriving DecidableEq, Repr

inductive DPc where
  | idle
  | run (f : Frame)                                              -- about to execute the head of `f.rest` (or to return)
  /-- about to call `next()`: `ma_used` at creation, position, items still expected, keys collected -/
  | iter (f : Frame) (mode : IterMode) (u pos rem : Nat) (acc : List Nat)
  | body (f : Frame) (u pos rem : Nat)                           -- about to run the (private) body of a statement loop
  | dels (f : Frame) (ks : List Nat)                             -- about to delete the head of `ks`
  deriving Repr

abbrev DThread := Thread DPc Op (List Item)

structure DState where
  dict : Dict
  threads : List DThread

def DState.put (s : DState) (t : Nat) (th : DThread) : DState := { s with threads := s.threads.set t th }

/-- the call in progress ends with an exception -/
def DState.raise (s : DState) (t : Nat) (th : DThread) (f : Frame) (e : Err) : DState :=
  s.put t { th with pc := .idle, rets := (f.op, .error e) :: th.rets }

def dstep (t : Nat) (s : DState) : DState :=
  match s.threads[t]? with
  | none => s
  | some th =>
    match th.pc with
    | .idle =>
      match th.todo with
      | [] => s
      | op :: ops => s.put t { th with pc := .run ⟨op, op, []⟩, todo := ops }
    | .run f =>
      match f.rest with
      | [] => s.put t { th with pc := .idle, rets := (f.op, .ok f.seen) :: th.rets }
      | .snapshot :: rest => s.put t { th with pc := .run { f with rest := rest, seen := f.seen ++ items s.dict } }
      | .iterItems :: rest => s.put t { th with pc := .iter { f with rest := rest } .loop (used s.dict) 0 (used s.dict) [] }
      | .scanItems :: rest => s.put t { th with pc := .iter { f with rest := rest } .comp (used s.dict) 0 (used s.dict) [] }
      | .pruneFill :: rest => s.put t { th with pc := .iter { f with rest := rest } .prune (used s.dict) 0 (used s.dict) [] }
      | .setItem k v :: rest =>
        { dict := setKey s.dict k v, threads := s.threads.set t { th with pc := .run { f with rest := rest } } }
      | .delItem k :: rest =>
        match delKey s.dict k with
        | none => s.raise t th f .index
        | some d => { dict := d, threads := s.threads.set t { th with pc := .run { f with rest := rest } } }
    | .iter f mode u pos rem acc =>
      if used s.dict ≠ u then
        s.raise t th f .runtime   -- RuntimeError: dictionary changed size during iteration
      else
        match nextFrom s.dict pos with
        | none =>
          (match mode with
           | .prune => s.put t { th with pc := .dels f acc }
           | _ => s.put t { th with pc := .run f })
        | some (it, pos') =>
          if rem = 0 then
            s.raise t th f .runtime   -- RuntimeError: dictionary keys changed during iteration
          else
            (match mode with
             | .loop => s.put t { th with pc := .body { f with seen := f.seen ++ [it] } u pos' (rem - 1) }
             | .comp => s.put t { th with pc := .iter { f with seen := f.seen ++ [it] } .comp u pos' (rem - 1) acc }
             | .prune => s.put t { th with pc := .iter f .prune u pos' (rem - 1) (if it.2 = 0 then acc ++ [it.1] else acc) })
    | .body f u pos rem => s.put t { th with pc := .iter f .loop u pos rem [] }
    | .dels f ks =>
      match ks with
      | [] => s.put t { th with pc := .run f }
      | k :: ks =>
        match delKey s.dict k with
        | none => s.raise t th f .index
        | some d => { dict := d, threads := s.threads.set t { th with pc := .dels f ks } }

def dinit (d : Dict) (progs : List (List Op)) : DState :=
  { dict := d, threads := progs.map fun p => { pc := .idle, todo := p, rets := [] } }

/-- what a read-only call returns when it runs alone on `d`: every one of its reads sees all of `d` -/
def seqSeen (d : Dict) (op : List Stmt) : List Item := op.flatMap fun _ => items d

def derrorsOf (s : DState) : List (Op × Err) :=
  s.threads.flatMap fun th => th.rets.filterMap fun r =>
    match r.2 with
    | .error e => some (r.1, e)
    | .ok _ => none

def dallDone (s : DState) : Bool :=
  s.threads.all fun th => th.todo.isEmpty && (match th.pc with | .idle => true | _ => false)

/-! #### the harness's line-granularity quanta

  The traced scheduler parks a thread BEFORE a source line.  For the dictionary rig the scheduling points
  are the `for` line of a statement loop (first visit: create the iterator and fetch; later visits:
  fetch), its body line, the line of every other statement that mentions `self.data`, and the `del`
  line of a prune loop.  One quantum = one model step plus the steps that follow on the same line:
  the first `next()` after creating an iterator, ALL `next()` calls of a comprehension (one line),
  leaving a call after its last statement, and the prologue of the thread's next call. -/

def dabsorbedAt (s : DState) (t : Nat) : Bool :=
  match s.threads[t]? with
  | some th =>
    (match th.pc with
     | .iter _ .loop _ 0 _ _ => true
     | .iter _ .comp _ _ _ _ => true
     | .iter _ .prune _ _ _ _ => true
     | .dels _ [] => true
     | .run f => f.rest.isEmpty
     | .idle => !th.todo.isEmpty
     | _ => false)
  | none => false

/-- one quantum: step, then keep stepping while absorbed (`fuel` bounds it; the harness passes the dictionary size + 4) -/
def dquantum (fuel : Nat) (t : Nat) (s : DState) : DState × List Nat :=
  let s1 := dstep t s
  match fuel with
  | 0 => (s1, [t])
  | fuel + 1 =>
    if dabsorbedAt s1 t then
      let r := dquantum fuel t s1
      (r.1, t :: r.2)
    else (s1, [t])

def dcoarseRun (fuel : Nat) : List Nat → DState → DState × List Nat
  | [], s => (s, [])
  | t :: ts, s =>
    let q := dquantum fuel t s
    let r := dcoarseRun fuel ts q.1
    (r.1, q.2 ++ r.2)

def dpcKind (s : DState) (t : Nat) : String :=
  match s.threads[t]? with
  | some th =>
    (match th.pc with
     | .idle => if th.todo.isEmpty then "done" else "idle"
     | .run _ => "stmt"
     | .iter _ .loop _ _ _ _ => "for"
     | .iter .. => "scan"
     | .body .. => "body"
     | .dels .. => "del")
  | none => "none"

/-! #### the protocol of a DOK method, from the generated table -/

/-- DOK's documented mutators (and the constructor): everything else is a read-only method -/
def writerMethods : List String := ["__init__", "__setitem__", "_fancy_setitem", "_setitem"]

/-- rows (kind of use) of one method -> its statements; a comprehension over the dictionary followed by
`del self.data[…]` is the prune loop; any other write, an alias or an unknown use is not modelled -/
def protoOfKinds : List String → Option (List Stmt)
  | [] => some []
  | "iter-comp" :: "write:del" :: r => (protoOfKinds r).map (Stmt.pruneFill :: ·)
  | "iter-loop" :: r => (protoOfKinds r).map (Stmt.iterItems :: ·)
  | "iter-comp" :: r => (protoOfKinds r).map (Stmt.scanItems :: ·)
  | "snapshot" :: r => (protoOfKinds r).map (Stmt.snapshot :: ·)
  | _ => none

def kindsOf (rows : List (String × String × String)) (m : String) : List String :=
  (rows.filter (fun r => r.1 == m)).map (·.2.1)

def methodProtoIn (rows : List (String × String × String)) (m : String) : Option (List Stmt) := protoOfKinds (kindsOf rows m)

def methodProto (m : String) : Option (List Stmt) := methodProtoIn Gen.dokDataUses m

/-- the methods of class DOK that mention `self.data` and are not mutators -/
def readMethodsIn (rows : List (String × String × String)) : List String :=
  ((rows.map (·.1)).eraseDups).filter (fun m => !writerMethods.contains m)

def dokReadMethods : List String := readMethodsIn Gen.dokDataUses

/-- the protocols of all read-only methods (`none` if one of them is not understood or writes) -/
def dokReadProtos : Option (List (List Stmt)) := dokReadMethods.mapM methodProto

/-! ### (d) the process-global warning filters -/

inductive Action where
  | ignore | error | other   -- other: default / always / module / once (the warning is shown, nothing is raised)
  deriving DecidableEq, Repr

structure Filter where
  action : Action
  msg : List Char     -- lower-cased literal; matches a text it is a prefix of ([] matches everything)
  cat : String
  deriving DecidableEq, Repr

structure Warn where
  cat : String
  msg : List Char
  deriving DecidableEq, Repr

/-- `issubclass(w, f)` for the categories that occur (all derive from Warning directly) -/
def catSub (w f : String) : Bool := f == "Warning" || f == w

def Filter.matches (f : Filter) (w : Warn) : Bool := catSub w.cat f.cat && f.msg.isPrefixOf w.msg

/-- what emitting `w` does under the filter list `fs` (no match: the default action, shown once) -/
def emit (fs : List Filter) (w : Warn) : Except Err Unit :=
  match fs.find? (fun f => f.matches w) with
  | some f => if f.action = .error then .error .runtime else .ok ()
  | none => .ok ()

/-- **the distinction the property needs**: a filter can make ANOTHER thread's call raise iff its action
is "error" and it matches a warning a library call can emit (`cat`alogue), or has no message at all.
"ignore" (and the showing actions) can only make another thread LOSE a warning: no result changes. -/
def harmful (cat : List Warn) (f : Filter) : Bool :=
  f.action == .error && (f.msg.isEmpty || cat.any f.matches)

def benign (cat : List Warn) (fs : List Filter) : Bool := fs.all fun f => !harmful cat f

inductive WOp where
  | block (fs : List Filter)   -- `with warnings.catch_warnings(): <install fs in order>; <body>`
  | warn (w : Warn)            -- a call that emits `w` (and otherwise returns)
  deriving DecidableEq, Repr

inductive WPc where
  | idle
  | enter (fs : List Filter)                         -- about to `__enter__`
  | install (b saved fs : List Filter)   -- in block `b`: about to install the head of `fs`; `[]`: about to run the body
  | exit (b saved : List Filter)         -- about to `__exit__`
  | emitting (w : Warn)
  deriving Repr

abbrev WThread := Thread WPc WOp Unit

structure WState where
  filters : List Filter
  threads : List WThread

def insertFront (f : Filter) (fs : List Filter) : List Filter := f :: fs.erase f

def wstep (t : Nat) (s : WState) : WState :=
  match s.threads[t]? with
  | none => s
  | some th =>
    match th.pc with
    | .idle =>
      match th.todo with
      | [] => s
      | .block fs :: ops => { s with threads := s.threads.set t { th with pc := .enter fs, todo := ops } }
      | .warn w :: ops => { s with threads := s.threads.set t { th with pc := .emitting w, todo := ops } }
    | .enter fs => { s with threads := s.threads.set t { th with pc := .install fs s.filters fs } }
    | .install b saved (f :: fs) =>
      { filters := insertFront f s.filters, threads := s.threads.set t { th with pc := .install b saved fs } }
    | .install b saved [] => { s with threads := s.threads.set t { th with pc := .exit b saved } }
    | .exit b saved =>
      { filters := saved, threads := s.threads.set t { th with pc := .idle, rets := (.block b, .ok ()) :: th.rets } }
    | .emitting w =>
      { s with threads := s.threads.set t { th with pc := .idle, rets := (.warn w, emit s.filters w) :: th.rets } }

def winit (fs : List Filter) (progs : List (List WOp)) : WState :=
  { filters := fs, threads := progs.map fun p => { pc := .idle, todo := p, rets := [] } }

def werrorsOf (s : WState) : List (WOp × Err) :=
  s.threads.flatMap fun th => th.rets.filterMap fun r =>
    match r.2 with
    | .error e => some (r.1, e)
    | .ok _ => none

def wallDone (s : WState) : Bool :=
  s.threads.all fun th => th.todo.isEmpty && (match th.pc with | .idle => true | _ => false)

/-! #### the library's blocks and warnings, from the generated tables -/

def actionOf (a : String) : Action :=
  if a == "ignore" then .ignore else if a == "error" then .error else .other

def filterOf (r : String × String × String) : Filter := ⟨actionOf r.1, r.2.1.toList, r.2.2⟩

def blocksOf (rows : List (String × String × List (String × String × String))) : List (List Filter) :=
  rows.map fun b => b.2.2.map filterOf

/-- the filter lists of every `with warnings.catch_warnings()` block of the package -/
def libraryBlocks : List (List Filter) := blocksOf Gen.catchBlocks

/-- NumPy's floating-point warnings (trusted: numpy/_core/src/umath/extobj.c, "<kind> encountered in <ufunc>")
and the ComplexWarning of a narrowing cast -/
def numpyWarnings : List Warn :=
  [⟨"RuntimeWarning", "divide by zero encountered".toList⟩, ⟨"RuntimeWarning", "invalid value encountered".toList⟩,
   ⟨"RuntimeWarning", "overflow encountered".toList⟩, ⟨"RuntimeWarning", "underflow encountered".toList⟩,
   ⟨"ComplexWarning", "casting complex values to real discards the imaginary part".toList⟩]

def warnsOf (rows : List (String × String × String × String)) : List Warn := rows.map fun r => ⟨r.2.2.1, r.2.2.2.toList⟩

/-- every warning a call of the library can emit -/
def libraryCatalogue : List Warn := numpyWarnings ++ warnsOf Gen.warnSites

end SparseV.Shared

/- witness data of the counterexamples of Props/C13 (kept with the model so that the driver can print
them without importing the property file) -/
namespace SparseV.C13
open SparseV.Shared

/-- a DOK holding two explicitly stored fill values (0) among three entries -/
def pruneDict : Dict := [some (0, 5), some (1, 0), some (2, 0)]
/-- thread 0: `todense()`; thread 1: the pruning `asformat("coo")` -/
def pruneProgs : List (List Op) := [[[.iterItems]], [[.pruneFill, .snapshot]]]
/-- thread 0 enters its loop and fetches one item; thread 1 runs its whole call; thread 0's next `next()` fails -/
def pruneSched : List Nat := [0, 0, 0, 0, 1, 1, 1, 1, 1, 1, 1, 1, 1, 1, 1, 0]

def errAll : Filter := ⟨.error, [], "Warning"⟩
def divWarn : Warn := ⟨"RuntimeWarning", "divide by zero encountered in divide".toList⟩
/-- thread 0: a block that installs a catch-all "error" filter; thread 1: a call that merely warns -/
def transientProgs : List (List WOp) := [[.block [errAll]], [.warn divWarn]]
def transientSched : List Nat := [0, 0, 0, 1, 1, 0, 0]
/-- threads 0 and 1 both run such a block, exits not nested; thread 2 warns after both have left -/
def lastingProgs : List (List WOp) := [[.block [errAll]], [.block [errAll]], [.warn divWarn]]
def lastingSched : List Nat := [0, 0, 0, 1, 1, 0, 0, 1, 1, 1, 2, 2]

end SparseV.C13

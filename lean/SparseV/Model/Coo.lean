/-
  SparseV.Model.Coo — executable model of the COO constructor and of the COO shape operations,
  following sparse/numba_backend/_coo/core.py and _coo/common.py.
  Conventions: a COO is its list of entries (index, value) in *storage order*; "promises"
  (`sorted=True`, `has_duplicates=False`) are modelled by NOT running the corresponding pass,
  exactly as the constructor does.
-/
import SparseV.Model.Basic
namespace SparseV
namespace COO
variable {α : Type}

/-- `_sort_indices`: stable sort by row-major linear location -/
def sortEntries (shape : List Nat) (es : List (Idx × α)) : List (Idx × α) :=
  es.mergeSort (fun a b => decide (ravel a.1 shape ≤ ravel b.1 shape))

/-- `_sum_duplicates` on a sorted list: adjacent entries with the same linear location are added,
left to right (`np.add.reduceat`). -/
def sumDup [Add α] (shape : List Nat) : List (Idx × α) → List (Idx × α)
  | [] => []
  | [e] => [e]
  | e1 :: e2 :: rest =>
    if ravel e1.1 shape = ravel e2.1 shape then sumDup shape ((e1.1, e1.2 + e2.2) :: rest)
    else e1 :: sumDup shape (e2 :: rest)
termination_by es => es.length

/-- `_prune` -/
def pruneEntries [DecidableEq α] (fill : α) (es : List (Idx × α)) : List (Idx × α) :=
  es.filter (fun e => e.2 ≠ fill)

/-- the COO constructor's normalisation passes, driven by its three flags -/
def build [Add α] [DecidableEq α] (shape : List Nat) (es : List (Idx × α)) (fill : α)
    (sorted : Bool := false) (hasDup : Bool := true) (prune : Bool := false) : COO α :=
  let es := if sorted then es else sortEntries shape es
  let es := if hasDup then sumDup shape es else es
  let es := if prune then pruneEntries fill es else es
  { shape := shape, entries := es, fill := fill }

/-- apply a coordinate map to every stored entry -/
def mapIdx (f : Idx → Idx) (es : List (Idx × α)) : List (Idx × α) := es.map fun e => (f e.1, e.2)

/-- `i[axes]` : gather -/
def gather (i : List Nat) (axes : List Nat) : List Nat := axes.map fun a => i.getD a 0

/-- `COO.transpose` after axis normalisation and validation (axes is a permutation):
`COO(self.coords[axes, :], self.data, shape, has_duplicates=False)` -/
def transposeCore (x : COO α) (axes : List Nat) : COO α :=
  if axes = List.range x.shape.length then x else
  let shape := gather x.shape axes
  { shape := shape, entries := sortEntries shape (mapIdx (gather · axes) x.entries), fill := x.fill }

/-- `COO.reshape` after shape inference/validation: `(linear_loc // strides) % d`, `sorted=True` -/
def reshapeCore (x : COO α) (shape : List Nat) : COO α :=
  if x.shape = shape then x else
  { shape := shape, entries := mapIdx (fun i => unravel (ravel i x.shape) shape) x.entries, fill := x.fill }

/-- `flip` along normalised axes: `coords[ax] = shape[ax] - 1 - coords[ax]`, then the constructor sorts -/
def flipIdx (shape : List Nat) (axes : List Nat) (i : Idx) : Idx :=
  (List.range i.length).map fun a =>
    if axes.contains a then shape.getD a 0 - 1 - i.getD a 0 else i.getD a 0

def flipCore (x : COO α) (axes : List Nat) : COO α :=
  { shape := x.shape, entries := sortEntries x.shape (mapIdx (flipIdx x.shape axes) x.entries), fill := x.fill }

/-- `roll` along normalised axes with per-axis shifts: `(c + s) % n` -/
def rollIdx (shape : List Nat) (axes : List Nat) (shifts : List Int) (i : Idx) : Idx :=
  (List.zip axes shifts).foldl (fun (acc : Idx) (p : Nat × Int) =>
    let n := shape.getD p.1 0
    acc.set p.1 (((acc.getD p.1 0 : Int) + p.2) % (n : Int)).toNat) i

def rollCore (x : COO α) (axes : List Nat) (shifts : List Int) : COO α :=
  { shape := x.shape, entries := sortEntries x.shape (mapIdx (rollIdx x.shape axes shifts) x.entries), fill := x.fill }

/-- `squeeze` over validated axes (each of extent 1): drop those coordinates, `sorted=True` -/
def dropAxes (l : List Nat) (axes : List Nat) : List Nat :=
  (List.range l.length).filterMap fun a => if axes.contains a then none else some (l.getD a 0)

def squeezeCore (x : COO α) (axes : List Nat) : COO α :=
  { shape := dropAxes x.shape axes, entries := mapIdx (dropAxes · axes) x.entries, fill := x.fill }

/-- `expand_dims` at a normalised position: insert a 0 coordinate, `sorted=True` -/
def insertAt (l : List Nat) (pos : Nat) (v : Nat) : List Nat := l.take pos ++ v :: l.drop pos

def expandDimsCore (x : COO α) (pos : Nat) : COO α :=
  { shape := insertAt x.shape pos 1, entries := mapIdx (insertAt · pos 0) x.entries, fill := x.fill }

end COO
end SparseV

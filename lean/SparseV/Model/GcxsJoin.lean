/-
  SparseV.Model.GcxsJoin — GCXS `concatenate` / `stack` (`_compressed/common.py` 6-59, 62-109) for members of rank ≥ 2
  that are all GCXS (validation — equal fill values, matching shapes, axis normalisation — has happened):
  bring every member to `compressed_axes = (axis,)`, splice the index pointers with running offsets, concatenate
  `indices` and `data`.  Core Lean only.
-/
import SparseV.Model.GcxsReduce
namespace SparseV
namespace GIx

/-- the splice of `common.py`:
```
ptr_list = [arrays[0].indptr] + [arr.indptr[1:] for arr in arrays[1:]];  indptr = np.concatenate(ptr_list)
ptr_len = arrays[0].indptr.shape[0];  nnz = arrays[0].nnz
for i in range(1, len(arrays)):
    indptr[ptr_len:] += nnz;  nnz = arrays[i].nnz;  ptr_len += arrays[i].indptr.shape[0] - 1
```
`off` is the running offset (the sum of the `nnz` of the members before) -/
def spliceGo : Nat → List (List Nat × Nat) → List Nat
  | _, [] => []
  | off, (ip, nnz) :: rest => (ip.drop 1).map (· + off) ++ spliceGo (off + nnz) rest

/-- `(indptr, nnz)` per member ↦ the spliced index pointers -/
def splice : List (List Nat × Nat) → List Nat
  | [] => []
  | (ip, nnz) :: rest => ip ++ spliceGo nnz rest

end GIx

namespace GCXS
open GIx

/-- the common tail of `concatenate` and `stack`, on members that already have `compressed_axes = (axis,)` -/
def joinRows (xs : List (GCXS Int)) (shape : List Nat) (axis : Nat) (fill : Int) : GCXS Int :=
  { shape := shape, caxes := some [axis],
    indptr := splice (xs.map fun x => (x.indptr, x.indices.length)),
    indices := xs.flatMap (·.indices), data := xs.flatMap (·.data), fill := fill }

/-- `concatenate(arrays, axis)` for GCXS members of equal rank ≥ 2 (default `compressed_axes=(axis,)`) -/
def concatG (x0 : GCXS Int) (rest : List (GCXS Int)) (axis : Nat) : GCXS Int :=
  let xs := (x0 :: rest).map fun x => x.changeCaxes [axis]
  joinRows xs (x0.shape.set axis ((x0 :: rest).map fun x => x.shape.getD axis 0).sum) axis x0.fill

/-- `stack(arrays, axis)` for GCXS members of equal shape of rank ≥ 2: each member gets an axis of length one at `axis`
(`reshape`), then is compressed along it -/
def stackG (x0 : GCXS Int) (rest : List (GCXS Int)) (axis : Nat) : GCXS Int :=
  let xs := (x0 :: rest).map fun x => (x.reshapeG (COO.insertAt x.shape axis 1)).changeCaxes [axis]
  joinRows xs (COO.insertAt x0.shape axis (x0 :: rest).length) axis x0.fill

end GCXS
end SparseV

/-
  SparseV.Model.Interleave — small-step transition systems over n threads for the two pieces of
  shared mutable state that concurrent read-only calls touch.

  (a) the kernel memo, sparse/numba_backend/_common.py `_memoize_dtype`:
          key = tuple(arg.name for arg in args)
          if key in cache:  return cache[key]
          result = f(*args);  cache[key] = result;  return result
  (b) the per-array cache deque, sparse/numba_backend/_coo/core.py COO.transpose / COO.reshape:
          for ax, value in self._cache["transpose"]:      # live iteration over a shared deque
              if ax == axes: return value
          result = COO(...);  self._cache["transpose"].append((axes, result));  return result

  Every call is cut into atomic actions at the granularity the GIL guarantees at least (one C-level
  operation each): the thread switch can happen between any two of them.  Finer than what CPython
  3.12 really does (it switches only at calls and backward jumps), so "for all schedules" below
  covers every real interleaving.  A schedule is a list of thread ids; an id that names no thread or
  a thread with nothing left to do is a stutter step.

  CPython's rule for deques (Modules/_collectionsmodule.c, dequeiter_next): the iterator remembers
  `deque->state` at creation; `next()` first compares it with the current `deque->state` and raises
  RuntimeError("deque mutated during iteration") if they differ; `append` increments `state`.

  `Mode.snapshot` is the proposed repair: `for ax, value in tuple(self._cache["transpose"])` — the
  tuple is built by one C call and the loop then runs over a private object.
  Core Lean only.
-/
import SparseV.Model.Cache
namespace SparseV.Interleave
open SparseV

/-- a thread: what it is doing (`pc`), the calls it still has to make, and what its finished calls
returned (newest first) -/
structure Thread (Pc K V : Type) where
  pc : Pc
  todo : List K
  rets : List (K × Except Err V)

/-- run a schedule -/
def runSched {σ : Type} (step : Nat → σ → σ) (sched : List Nat) (s : σ) : σ :=
  sched.foldl (fun s t => step t s) s

/-! ### (a) the memo dict -/
section Memo
variable {K V : Type} [DecidableEq K]

inductive MPc (K V : Type) where
  | idle
  | check (k : K)           -- about to evaluate `key in cache`
  | get (k : K)             -- about to evaluate `cache[key]` and return it
  | compute (k : K)         -- about to evaluate `f(*args)`
  | store (k : K) (v : V)   -- about to execute `cache[key] = result` and return

abbrev MThread (K V : Type) := Thread (MPc K V) K V

/-- the dict: newest binding first, a later `cache[k] = v` shadows earlier ones -/
structure MState (K V : Type) where
  memo : List (K × V)
  threads : List (MThread K V)

def dictGet (m : List (K × V)) (k : K) : Option V := (m.find? (fun e => e.1 == k)).map (·.2)

def mstep (compute : K → V) (t : Nat) (s : MState K V) : MState K V :=
  match s.threads[t]? with
  | none => s
  | some th =>
    match th.pc with
    | .idle =>
      match th.todo with
      | [] => s
      | k :: ks => { s with threads := s.threads.set t { th with pc := .check k, todo := ks } }
    | .check k =>
      if (dictGet s.memo k).isSome
      then { s with threads := s.threads.set t { th with pc := .get k } }
      else { s with threads := s.threads.set t { th with pc := .compute k } }
    | .get k =>
      match dictGet s.memo k with
      | some v => { s with threads := s.threads.set t { th with pc := .idle, rets := (k, .ok v) :: th.rets } }
      | none => { s with threads := s.threads.set t { th with pc := .idle, rets := (k, .error .index) :: th.rets } }  -- KeyError
    | .compute k => { s with threads := s.threads.set t { th with pc := .store k (compute k) } }
    | .store k v =>
      { memo := (k, v) :: s.memo,
        threads := s.threads.set t { th with pc := .idle, rets := (k, .ok v) :: th.rets } }

/-- n threads, each with its list of calls, on a memo that already holds `m` -/
def minit (m : List (K × V)) (progs : List (List K)) : MState K V :=
  { memo := m, threads := progs.map fun p => { pc := .idle, todo := p, rets := [] } }

end Memo

/-! ### (b) the cache deque -/

inductive Mode where
  | live      -- the code as it is: iterate over the shared deque
  | snapshot  -- the repair: iterate over `tuple(deque)`
  deriving DecidableEq, Repr


variable {V : Type}

inductive CPc (V : Type) where
  | idle
  | start (k : Cache.Key)          -- about to evaluate the loop's iterable and create its iterator
  /-- about to call `next()`: the deque version seen at creation, the position, the private snapshot -/
  | iter (k : Cache.Key) (ver : Nat) (idx : Nat) (snap : List (Cache.Key × V))
  /-- about to evaluate `if ax == axes` on the fetched item -/
  | compare (k : Cache.Key) (ver : Nat) (idx : Nat) (snap : List (Cache.Key × V)) (item : Cache.Key × V)
  | compute (k : Cache.Key)        -- about to build the result
  | append (k : Cache.Key) (v : V) -- about to execute `deque.append((key, result))` and return

abbrev CThread (V : Type) := Thread (CPc V) Cache.Key V

structure CState (V : Type) where
  dq : Cache.Cache V
  ver : Nat
  threads : List (CThread V)

def cstep (mode : Mode) (compute : Cache.Key → V) (t : Nat) (s : CState V) : CState V :=
  match s.threads[t]? with
  | none => s
  | some th =>
    match th.pc with
    | .idle =>
      match th.todo with
      | [] => s
      | k :: ks => { s with threads := s.threads.set t { th with pc := .start k, todo := ks } }
    | .start k =>
      match mode with
      | .live => { s with threads := s.threads.set t { th with pc := .iter k s.ver 0 [] } }
      | .snapshot => { s with threads := s.threads.set t { th with pc := .iter k s.ver 0 s.dq } }
    | .iter k ver idx snap =>
      match mode with
      | .live =>
        if s.ver ≠ ver then
          -- RuntimeError: deque mutated during iteration — propagates out of the call
          { s with threads := s.threads.set t { th with pc := .idle, rets := (k, .error .runtime) :: th.rets } }
        else
          match s.dq[idx]? with
          | none => { s with threads := s.threads.set t { th with pc := .compute k } }
          | some it => { s with threads := s.threads.set t { th with pc := .compare k ver (idx + 1) snap it } }
      | .snapshot =>
        match snap[idx]? with
        | none => { s with threads := s.threads.set t { th with pc := .compute k } }
        | some it => { s with threads := s.threads.set t { th with pc := .compare k ver (idx + 1) snap it } }
    | .compare k ver idx snap it =>
      if it.1 = k
      then { s with threads := s.threads.set t { th with pc := .idle, rets := (k, .ok it.2) :: th.rets } }
      else { s with threads := s.threads.set t { th with pc := .iter k ver idx snap } }
    | .compute k => { s with threads := s.threads.set t { th with pc := .append k (compute k) } }
    | .append k v =>
      { dq := Cache.append s.dq k v, ver := s.ver + 1,
        threads := s.threads.set t { th with pc := .idle, rets := (k, .ok v) :: th.rets } }

def cinit (dq : Cache.Cache V) (progs : List (List Cache.Key)) : CState V :=
  { dq := dq, ver := 0, threads := progs.map fun p => { pc := .idle, todo := p, rets := [] } }

/-- is the thread between creating its iterator and leaving the loop? -/
def midIter (th : CThread V) : Bool :=
  match th.pc with
  | .iter .. => true
  | .compare .. => true
  | _ => false

def atAppend (th : CThread V) : Bool :=
  match th.pc with
  | .append .. => true
  | _ => false

/-- the step thread `t` is about to take is an `append` while some thread is inside its lookup loop -/
def racyStep (s : CState V) (t : Nat) : Bool :=
  match s.threads[t]? with
  | some th => atAppend th && s.threads.any midIter
  | none => false

/-- **the region of the finding**: somewhere along the schedule an `append` executes while another
thread is between `iter()` and the end of its loop (decidable: evaluate it) -/
def Excluded_appendDuringIteration (mode : Mode) (compute : Cache.Key → V) : CState V → List Nat → Bool
  | _, [] => false
  | s, t :: ts => racyStep s t || Excluded_appendDuringIteration mode compute (cstep mode compute t s) ts

/-- every error any thread's call ended with -/
def errorsOf (s : CState V) : List (Cache.Key × Err) :=
  s.threads.flatMap fun th => th.rets.filterMap fun r =>
    match r.2 with
    | .error e => some (r.1, e)
    | .ok _ => none

/-- has every thread finished all its calls? -/
def allDone (s : CState V) : Bool :=
  s.threads.all fun th => th.todo.isEmpty && (match th.pc with | .idle => true | _ => false)

/-- The traced scheduler of harness/c13.py stops a thread BEFORE source lines (the `for` line, the
`if ax == axes` line, the `append` line): one quantum of a real thread is one model step plus the
steps that follow on the same source line or on lines that are not scheduling points — the first
`next()` after creating the iterator, building the result after the loop is exhausted, and the
prologue of the thread's next call.  (Initially every thread is parked before its first call:
its first quantum is the `idle` step alone.) -/
def absorbedAt (s : CState V) (t : Nat) : Bool :=
  match s.threads[t]? with
  | some th =>
    (match th.pc with
     | .iter _ _ 0 _ => true
     | .compute _ => true
     | .idle => !th.todo.isEmpty   -- a finished call runs on into the next call's prologue
     | _ => false)
  | none => false

/-- one quantum of thread `t`: the new state and the fine schedule it stands for -/
def quantum (mode : Mode) (compute : Cache.Key → V) (t : Nat) (s : CState V) : CState V × List Nat :=
  let s1 := cstep mode compute t s
  if absorbedAt s1 t then
    let s2 := cstep mode compute t s1
    if absorbedAt s2 t then (cstep mode compute t s2, [t, t, t]) else (s2, [t, t])
  else (s1, [t])

/-- a coarse schedule (one thread id per quantum): final state and the fine schedule it stands for -/
def coarseRun (mode : Mode) (compute : Cache.Key → V) : List Nat → CState V → CState V × List Nat
  | [], s => (s, [])
  | t :: ts, s =>
    let q := quantum mode compute t s
    let r := coarseRun mode compute ts q.1
    (r.1, q.2 ++ r.2)

/-- where a thread is parked, for comparison with the traced scheduler's point kinds -/
def pcKind (s : CState V) (t : Nat) : String :=
  match s.threads[t]? with
  | some th =>
    (match th.pc with
     | .idle => if th.todo.isEmpty then "done" else "idle"
     | .start _ => "start"
     | .iter .. => "iter"
     | .compare .. => "compare"
     | .compute _ => "compute"
     | .append .. => "append")
  | none => "none"

end SparseV.Interleave

/- the data of the witness schedule used by `C13.cache_iter_race_counterexample` (kept with the model so that the
driver can print it without importing the property file) -/
namespace SparseV.C13
open SparseV SparseV.Interleave SparseV.Cache

def cexDq : Cache Key := [(.transpose [1, 0, 2], .transpose [1, 0, 2])]

def cexProgs : List (List Key) := [[.transpose [2, 1, 0]], [.transpose [0, 2, 1]]]

def cexSched : List Nat := [0, 0, 0, 0, 1, 1, 1, 1, 1, 1, 1, 0]

end SparseV.C13

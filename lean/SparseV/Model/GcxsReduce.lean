/-
  SparseV.Model.GcxsReduce — GCXS reductions (`_compressed/compressed.py`):
  * `GCXS.rawCoo`, `GCXS.changeCaxes`  — `change_compressed_axes` (411-446) = `_transpose(self, shape, arange(ndim), new)`
                                         (`_compressed/convert.py` 210-273, `_convert_coords` 304-339, non-transposing branch)
  * `GCXS.reshapeG`                    — `GCXS.reshape` (647-713) for the two uses `_reduce_return` / `keepdims` make of it:
                                         1-d → n-d (`_1d_reshape`, convert.py 121-162, `_linearize` 104-118) and n-d → n-d (`_transpose`)
  * `reduceRows`                       — `_reduce_calc` (372-395), main branch: rows with stored elements, `ufunc.reduceat` over
                                         `indptr`, the counts `indptr[1:] - indptr[:-1]`
  * `GCXS.reduceMain`                  — `SparseArray.reduce` (`_sparse_array.py`) on top of it: admissibility, fill correction with the
                                         count of missing elements per row, `_reduce_return` (397-409): prune, 1-d GCXS, reshape
  The `len(axis) == 0` and "all axes" branches of `_reduce_calc` go through COO (`SparseV.Model.Reduce`).
  Core Lean only.
-/
import SparseV.Model.GcxsIndex
import SparseV.Model.Reduce
namespace SparseV
namespace GCXS
open GIx

/-- the stored elements with their n-d coordinates, in storage order — what `_transpose` recomputes per element:
`linear_loc((row, col), compressed_shape)`, `unravel_index(n, reordered_shape)[argsort(axis_order)]` -/
def rawCoo (g : GCXS Int) (c : List Nat) : COO Int :=
  let order := axisOrder g.shape.length c
  let rshape := COO.gather g.shape order
  let C := prod (rshape.drop c.length)
  { shape := g.shape, fill := g.fill,
    entries := (((uncompress g.indptr).zip g.indices).zip g.data).map fun p =>
      (COO.gather (unravel (p.1.1 * C + p.1.2) rshape) (invPerm order), p.2) }

/-- `change_compressed_axes(new_compressed_axes)` for validated axes: nothing to do when they are the current ones, else
re-linearise every stored element under the new axis order, stable sort, re-compress (`fromCooCore` is that kernel) -/
def changeCaxes (g : GCXS Int) (newc : List Nat) : GCXS Int :=
  match g.caxes with
  | none => g
  | some c => if newc = c then g else fromCooCore (g.rawCoo c) newc

/-- the default `compressed_axes` of `reshape` when the rank changes: `(np.argmin(shape),)` -/
def defaultCaxes (shape : List Nat) : List Nat := [shape.idxOf (shape.foldl min (shape.getD 0 0))]

/-- a 1-d or n-d GCXS array as the COO array of its stored elements (storage order, coordinates as `_1d_reshape` /
`_transpose` recompute them) -/
def srcCoo (g : GCXS Int) : COO Int :=
  match g.caxes with
  | none => { shape := g.shape, fill := g.fill, entries := (g.indices.zip g.data).map fun p => ([p.1], p.2) }
  | some c => g.rawCoo c

/-- `reshape(shape)` of a 1-d or n-d array to a different shape of rank ≥ 2 (sizes equal): every stored coordinate is
linearised in the old shape and unravelled in the new one (`COO.reshapeCore` is that map); then compressed along the
default axis by `_from_coo`'s kernel -/
def reshapeG (g : GCXS Int) (shape : List Nat) : GCXS Int :=
  if g.shape = shape then g else fromCooCore (g.srcCoo.reshapeCore shape) (defaultCaxes shape)

end GCXS

/-- `_reduce_calc`, main branch, on the CSR triple of `x = self.change_compressed_axes(kept)`:
```
idx = np.diff(x.indptr) != 0;  indices = arange(R)[idx]
data = method.reduceat(x.data, x.indptr[:-1][idx]);  counts = x.indptr[1:][idx] - x.indptr[:-1][idx]
```
one (row, left fold of the row's values, count) per row that stores something -/
def reduceRows (op : Int → Int → Int) (indptr : List Nat) (data : List Int) (R : Nat) : List (Nat × Int × Nat) :=
  (List.range R).filterMap fun r =>
    let st := indptr.getD r 0
    let en := indptr.getD (r + 1) 0
    if en - st ≠ 0 then
      match GIx.rowSlice data st en with
      | v :: vs => some (r, vs.foldl op v, en - st)
      | [] => none
    else none

inductive GRedResult where
  | arr (g : GCXS Int)
  | scalar (v : Int)
  deriving Repr

namespace GCXS
open GIx

/-- the 1-d array `_reduce_return` builds from the reduced rows of `x` (an `R × nCols` CSR view, `fill` the operand's
fill value): fill correction of `SparseArray.reduce` with the count of missing elements per row, new fill value,
`mask = ~equivalent(data, result_fill_value)`, `GCXS((data[mask], indices[mask], []), shape=(R,))` -/
def reduceOut1 (op : RedOp) (fill : Int) (x : GCXS Int) (R nCols : Nat) : GCXS Int :=
  let runs := reduceRows op.ap x.indptr x.data R
  let df : List (Nat × Int) × Int :=
    match op.super? with
    | none => (runs.map fun (r, v, n) => (r, if n ≠ nCols then op.ap v fill else v), fill)
    | some sup => (runs.map fun (r, v, n) => (r, op.ap v (sup fill (nCols - n))), sup fill nCols)
  let keptData := df.1.filter fun p => p.2 ≠ df.2
  { shape := [R], caxes := none, indptr := [], indices := keptData.map (·.1), data := keptData.map (·.2), fill := df.2 }

/-- `reduce(method, axis, keepdims)` on an n-d GCXS array for a non-empty proper subset `axes` of the axes (already
normalised, distinct): the route through `GCXS._reduce_calc` / `_reduce_return` -/
def reduceMain (op : RedOp) (g : GCXS Int) (axes : List Nat) (keepdims : Bool) : Except Err GRedResult :=
  if op.ap g.fill g.fill ≠ g.fill ∧ op.super?.isNone then .error .value else
  let nd := g.shape.length
  if op.super?.isNone ∧ axes.any (fun a => g.shape.getD a 0 == 0) then .error .value else
  let kept := (List.range nd).filter fun a => !axes.contains a
  let x := g.changeCaxes kept
  let out1 := reduceOut1 op g.fill x (csrR g.shape kept) (csrC g.shape kept)
  let out := out1.reshapeG (kept.map fun d => g.shape.getD d 0)
  let out := if keepdims then
      out.reshapeG ((List.range nd).map fun d => if axes.contains d then 1 else g.shape.getD d 0)
    else out
  .ok (.arr out)

end GCXS
end SparseV

/-
  SparseV.Model.Expr — PROGRAMS over COO integer arrays: an expression type whose constructors are
  the modelled public operations, the evaluator `evalModel` that runs a program through the EXISTING
  models of the library (`COO.build`, `elemwiseN`, `broadcastTo`, `transposeCore`, `reshapeCore`,
  `flipCore`, `rollCore`, `squeezeCore`, `expandDimsCore`, `getitem`, `reduce`, `concatCore`,
  `stackCore`, `triuCore`, `trilCore`, `diagonalCore`, `GCXS.fromCoo`/`tocoo`, DOK round trip) behind
  the argument validation the code performs in front of them, and the dense reference semantics
  `evalSpec` (shape + function from index + fill value) written in NumPy's terms.
  Core Lean only (linked into `svdriver`).  The theorems are in `Props/Program.lean`.
-/
import SparseV.Model.Elemwise
import SparseV.Model.Getitem
import SparseV.Spec.Getitem
import SparseV.Model.Reduce
import SparseV.Model.Join
import SparseV.Model.Convert
namespace SparseV

/-- a basic index entry (`int`, `slice`, `None`) -/
inductive BIx where
  | int (i : Int)
  | slice (a b c : Option Int)
  | newaxis
  deriving Repr

def BIx.toIxE : BIx → IxE
  | .int i => .int i
  | .slice a b c => .slice a b c
  | .newaxis => .newaxis

def BIx.isNewaxis : BIx → Bool
  | .newaxis => true
  | _ => false

def BIx.zeroStep : BIx → Bool
  | .slice _ _ (some c) => c == 0
  | _ => false

/-- the reductions with a refinement theorem -/
inductive ROp where
  | add | max | min
  deriving Repr, DecidableEq

def ROp.toRedOp : ROp → RedOp
  | .add => .add | .max => .max | .min => .min

mutual
/-- a program: literal inputs (raw coordinate lists that go through the constructor) and operations -/
inductive Expr where
  /-- `COO(coords, data, shape, fill_value=fill, prune=prune)`: coordinates in any order, repeats are summed -/
  | lit (shape : List Nat) (entries : List (Idx × Int)) (fill : Int) (prune : Bool)
  /-- `elemwise(f, a)` -/
  | ew1 (f : Int → Int) (a : Expr)
  /-- `elemwise(f, a, b)` with broadcasting -/
  | ew2 (f : Int → Int → Int) (a b : Expr)
  /-- `broadcast_to(a, shape)` -/
  | broadcastTo (a : Expr) (shape : List Nat)
  /-- `a.transpose(axes)` -/
  | transpose (a : Expr) (axes : List Int)
  /-- `a.reshape(shape)` -/
  | reshape (a : Expr) (shape : List Nat)
  /-- `flip(a, axis=axes)` -/
  | flip (a : Expr) (axes : List Int)
  /-- `roll(a, shift=shifts, axis=axes)` -/
  | roll (a : Expr) (shifts : List Int) (axes : List Int)
  /-- `a.squeeze(axis=axes)` -/
  | squeeze (a : Expr) (axes : List Int)
  /-- `expand_dims(a, axis)` -/
  | expandDims (a : Expr) (axis : Int)
  /-- `a[idx]` with integers, slices and `None` -/
  | getitem (a : Expr) (idx : List BIx)
  /-- `a.sum/max/min(axis=axes)` (`none`: all axes) -/
  | reduce (op : ROp) (a : Expr) (axes : Option (List Int))
  /-- `concatenate(xs, axis)` -/
  | concat (xs : Exprs) (axis : Int)
  /-- `stack(xs, axis)` -/
  | stack (xs : Exprs) (axis : Int)
  /-- `triu(a, k)` / `tril(a, k)` -/
  | triu (a : Expr) (k : Int)
  | tril (a : Expr) (k : Int)
  /-- `diagonal(a, offset, axis1, axis2)` -/
  | diagonal (a : Expr) (offset : Int) (axis1 axis2 : Int)
  /-- `a.asformat("gcxs", compressed_axes=caxes).asformat("coo")` -/
  | viaGcxs (a : Expr) (caxes : Option (List Nat))
  /-- `a.asformat("dok").asformat("coo")` -/
  | viaDok (a : Expr)
/-- a non-empty list of programs -/
inductive Exprs where
  | one (e : Expr)
  | cons (e : Expr) (rest : Exprs)
end

/-! ## argument validation shared by the operations (what the code does in front of the kernels) -/

/-- `normalize_axis(a, n)` through the GENERATED integer branch -/
def normAxis (a : Int) (n : Nat) : Except Err Nat := (Gen.normalizeAxisInt a n).map Int.toNat
def normAxes (as : List Int) (n : Nat) : Except Err (List Nat) := as.mapM fun a => normAxis a n

/-- `COO.squeeze`'s own axis handling: `d + ndim if d < 0`, duplicates rejected, then every axis
must be one of extent 1; the error message of the last check formats `self.shape[d]`, which is an
`IndexError` for `d` outside `[-ndim, ndim)`. -/
def squeezeAxes (shape : List Nat) (axes : List Int) : Except Err (List Nat) :=
  let n : Int := shape.length
  let norm := axes.map fun d => if d < 0 then d + n else d
  if !(decide norm.Nodup) then .error .value else
  norm.mapM fun d =>
    if 0 ≤ d ∧ d < n ∧ shape.getD d.toNat 0 = 1 then .ok d.toNat
    else if -n ≤ d ∧ d < n then .error .value else .error .index

/-- `check_compressed_axes` and the rank cases of `_from_coo`, as a predicate on the rank -/
def gcxsAxesOk (n : Nat) (c : Option (List Nat)) : Bool :=
  match n, c with
  | 0, c => c.isNone
  | 1, c => c.isNone
  | _ + 2, none => true
  | n + 2, some c => !(decide (c.length ≥ n + 2)) && decide (c.Pairwise (· < ·)) && !(c.any (· ≥ n + 2))

namespace Expr

/-- elementwise application of a unary / binary scalar function through the n-ary `_Elemwise` model -/
def fn1 (f : Int → Int) (l : List Int) : Int := f (l.getD 0 0)
def fn2 (f : Int → Int → Int) (l : List Int) : Int := f (l.getD 0 0) (l.getD 1 0)

def sparseOf : Except Err (ElemResult Int) → Except Err (COO Int)
  | .ok (.sparse r) => .ok r
  | .ok (.dense _ _) => .error .internal     -- unreachable with sparse operands only
  | .error e => .error e

/-! ### model steps: validation as in the code, then the existing kernel models -/

def mLit (shape : List Nat) (es : List (Idx × Int)) (fill : Int) (prune : Bool) : Except Err (COO Int) :=
  if es.all (fun e => decide (InB e.1 shape)) then .ok (COO.build shape es fill false true prune)
  else .error .value                           -- "invalid entry in coordinates array"

/-- `_Elemwise.__init__` densifies a 0-d sparse operand (`arg.todense()`): it takes part as a 0-d
dense array, i.e. with its ELEMENT where an n-d operand contributes its fill value -/
def operandOf (x : COO Int) : Operand Int := if x.shape = [] then .dense [] [x.get []] else .coo x

/-- with only 0-d operands nothing sparse is left: the result is a 0-d array without stored
elements whose fill value is the function of the elements -/
def mEw1 (f : Int → Int) (x : COO Int) : Except Err (COO Int) :=
  if x.shape = [] then .ok { shape := [], entries := [], fill := f (x.get []) }
  else sparseOf (elemwiseN (fn1 f) [.coo x])
def mEw2 (f : Int → Int → Int) (x y : COO Int) : Except Err (COO Int) :=
  if x.shape = [] ∧ y.shape = [] then .ok { shape := [], entries := [], fill := f (x.get []) (y.get []) }
  else sparseOf (elemwiseN (fn2 f) [operandOf x, operandOf y])

def mBroadcastTo (x : COO Int) (s : List Nat) : Except Err (COO Int) := x.broadcastTo s

def mTranspose (x : COO Int) (axes : List Int) : Except Err (COO Int) :=
  match normAxes axes x.shape.length with
  | .error e => .error e
  | .ok ax =>
    if ¬ ax.Nodup then .error .value                      -- "repeated axis in transpose"
    else if ax.length ≠ x.shape.length then .error .value -- "axes don't match array"
    else .ok (x.transposeCore ax)

def mReshape (x : COO Int) (s : List Nat) : Except Err (COO Int) :=
  if prod x.shape = prod s then .ok (x.reshapeCore s) else .error .value

def mFlip (x : COO Int) (axes : List Int) : Except Err (COO Int) :=
  match normAxes axes x.shape.length with
  | .error e => .error e
  | .ok ax => if ¬ ax.Nodup then .error .value else .ok (x.flipCore ax)   -- "repeated axis"

/-- `len(shift) == 1` is broadcast over the axes; otherwise the lengths must agree -/
def rollShifts (shifts : List Int) (k : Nat) : List Int :=
  match shifts with
  | [s] => List.replicate k s
  | _ => shifts

def mRoll (x : COO Int) (shifts : List Int) (axes : List Int) : Except Err (COO Int) :=
  match normAxes axes x.shape.length with
  | .error e => .error e
  | .ok ax =>
    if ax.length ≠ (rollShifts shifts ax.length).length then .error .value
    else .ok (x.rollCore ax (rollShifts shifts ax.length))

def mSqueeze (x : COO Int) (axes : List Int) : Except Err (COO Int) :=
  match squeezeAxes x.shape axes with
  | .error e => .error e
  | .ok ax => .ok (x.squeezeCore ax)

def mExpandDims (x : COO Int) (axis : Int) : Except Err (COO Int) :=
  match normAxis axis (x.shape.length + 1) with
  | .error e => .error e
  | .ok pos => .ok (x.expandDimsCore pos)

/-- `normalize_index` counts the entries and checks the integers first (`IndexError`); a zero slice
step is met later, in `sanitize_index` (`ValueError`) -/
def mGetitem (x : COO Int) (idx : List BIx) : Except Err (COO Int) :=
  match x.getitem (idx.map BIx.toIxE) with
  | .error e => .error e
  | .ok res =>
    if idx.any BIx.zeroStep then .error .value      -- "slice step cannot be zero"
    else match res with
      | .arr r => .ok r
      | .scalar _ => .error .type                   -- a scalar, not an array: the program ends here

def mReduce (op : ROp) (x : COO Int) (axes : Option (List Int)) : Except Err (COO Int) :=
  match x.reduce op.toRedOp axes false with
  | .error e => .error e
  | .ok (.arr r) => .ok r
  | .ok (.scalar _) => .error .type

def sameFill (x0 : COO Int) (rest : List (COO Int)) : Bool := rest.all fun y => y.fill == x0.fill

def mConcat (x0 : COO Int) (rest : List (COO Int)) (axis : Int) : Except Err (COO Int) :=
  if sameFill x0 rest = false then .error .value          -- `check_consistent_fill_value`
  else match normAxis axis x0.shape.length with
  | .error e => .error e
  | .ok ax =>
    if (rest.all fun y => y.shape.set ax 0 == x0.shape.set ax 0) = false then .error .value
    else .ok (COO.concatCore x0 rest ax)

def mStack (x0 : COO Int) (rest : List (COO Int)) (axis : Int) : Except Err (COO Int) :=
  if sameFill x0 rest = false then .error .value
  else if (rest.all fun y => y.shape == x0.shape) = false then .error .value
  else match normAxis axis (x0.shape.length + 1) with
  | .error e => .error e
  | .ok ax => .ok (COO.stackCore x0 rest ax)

def mTri (upper : Bool) (x : COO Int) (k : Int) : Except Err (COO Int) :=
  if x.fill ≠ 0 then .error .value                  -- `check_zero_fill_value`
  else if x.shape.length < 2 then .error .notImplemented
  else .ok (if upper then x.triuCore k else x.trilCore k)

def mDiagonal (x : COO Int) (offset : Int) (axis1 axis2 : Int) : Except Err (COO Int) :=
  match normAxis axis1 x.shape.length, normAxis axis2 x.shape.length with
  | .error e, _ => .error e
  | .ok _, .error e => .error e
  | .ok a1, .ok a2 =>
    if a1 = a2 then .error .value
    else if x.shape.getD a1 0 ≠ x.shape.getD a2 0 then .error .value
    else .ok (x.diagonalCore offset a1 a2)

def mViaGcxs (x : COO Int) (c : Option (List Nat)) : Except Err (COO Int) :=
  match GCXS.fromCoo x c with
  | .ok g => .ok g.tocoo
  | .error e => .error e

def mViaDok (x : COO Int) : Except Err (COO Int) :=
  .ok (SArr.toCoo (.dok x.shape x.entries x.fill))

end Expr

mutual
/-- run a program through the model of the library -/
def evalModel : Expr → Except Err (COO Int)
  | .lit shape es fill prune => Expr.mLit shape es fill prune
  | .ew1 f a => do let x ← evalModel a; Expr.mEw1 f x
  | .ew2 f a b => do let x ← evalModel a; let y ← evalModel b; Expr.mEw2 f x y
  | .broadcastTo a s => do let x ← evalModel a; Expr.mBroadcastTo x s
  | .transpose a axes => do let x ← evalModel a; Expr.mTranspose x axes
  | .reshape a s => do let x ← evalModel a; Expr.mReshape x s
  | .flip a axes => do let x ← evalModel a; Expr.mFlip x axes
  | .roll a sh axes => do let x ← evalModel a; Expr.mRoll x sh axes
  | .squeeze a axes => do let x ← evalModel a; Expr.mSqueeze x axes
  | .expandDims a axis => do let x ← evalModel a; Expr.mExpandDims x axis
  | .getitem a idx => do let x ← evalModel a; Expr.mGetitem x idx
  | .reduce op a axes => do let x ← evalModel a; Expr.mReduce op x axes
  | .concat xs axis => do let p ← evalModels xs; Expr.mConcat p.1 p.2 axis
  | .stack xs axis => do let p ← evalModels xs; Expr.mStack p.1 p.2 axis
  | .triu a k => do let x ← evalModel a; Expr.mTri true x k
  | .tril a k => do let x ← evalModel a; Expr.mTri false x k
  | .diagonal a off a1 a2 => do let x ← evalModel a; Expr.mDiagonal x off a1 a2
  | .viaGcxs a c => do let x ← evalModel a; Expr.mViaGcxs x c
  | .viaDok a => do let x ← evalModel a; Expr.mViaDok x
/-- the members of a join, left to right (the first error wins, as in Python's evaluation order) -/
def evalModels : Exprs → Except Err (COO Int × List (COO Int))
  | .one e => do let x ← evalModel e; pure (x, [])
  | .cons e rest => do let x ← evalModel e; let p ← evalModels rest; pure (x, p.1 :: p.2)
end

/-! ## the dense reference semantics -/

/-- a dense array in NumPy's terms: a shape and a value for every index (only in-bounds indices
matter), plus the fill value the sparse result has to carry (properties C01/C03/C08 fix it) -/
structure Dense where
  shape : List Nat
  val : Idx → Int
  fill : Int

/-- NumPy's axis rule: `-n ≤ a < n`, negative axes count from the end -/
def npAxis (a : Int) (n : Nat) : Except Err Nat :=
  if -(n : Int) ≤ a ∧ a < (n : Int) then .ok (if a < 0 then a + (n : Int) else a).toNat else .error .value
def npAxes (as : List Int) (n : Nat) : Except Err (List Nat) := as.mapM fun a => npAxis a n

/-- NumPy's `broadcast_shapes` for two shapes: right-align, pad with 1s, each pair equal or one of them 1 -/
def npBroadcast2 (s1 s2 : List Nat) : Option (List Nat) :=
  let n := max s1.length s2.length
  let p1 := List.replicate (n - s1.length) 1 ++ s1
  let p2 := List.replicate (n - s2.length) 1 ++ s2
  if (List.zip p1 p2).all (fun p => p.1 == p.2 || p.1 == 1 || p.2 == 1)
  then some ((List.zip p1 p2).map fun p => if p.1 == 1 then p.2 else p.1) else none

/-- NumPy's `broadcast_to` admissibility: no more axes than the target; every right-aligned extent
equals the target's or is 1 -/
def npBroadcastToOk (s t : List Nat) : Bool :=
  decide (s.length ≤ t.length) &&
  (List.zip (List.replicate (t.length - s.length) 1 ++ s) t).all (fun p => p.1 == p.2 || p.1 == 1)

/-- `max` / `min` of a non-empty list, left to right -/
def npFold1 (op : Int → Int → Int) : List Int → Int
  | [] => 0
  | a :: t => t.foldl op a

namespace Expr

def sLit (shape : List Nat) (es : List (Idx × Int)) (fill : Int) : Except Err Dense :=
  if es.all (fun e => decide (InB e.1 shape)) then
    .ok { shape := shape, fill := fill,
          val := fun i => if es.any (fun e => e.1 == i) then ((es.filter (fun e => e.1 == i)).map (·.2)).sum else fill }
  else .error .value

/-- what an operand contributes to the fill value of an element-wise result: its fill value — but
a 0-d operand is taken as a scalar and contributes its element (the library densifies 0-d operands) -/
def fillPart (d : Dense) : Int := if d.shape = [] then d.val [] else d.fill

def sEw1 (f : Int → Int) (d : Dense) : Except Err Dense :=
  .ok { shape := d.shape, val := fun i => f (d.val i), fill := f (fillPart d) }

def sEw2 (f : Int → Int → Int) (d1 d2 : Dense) : Except Err Dense :=
  match npBroadcast2 d1.shape d2.shape with
  | none => .error .value
  | some s => .ok { shape := s, fill := f (fillPart d1) (fillPart d2),
                    val := fun j => f (d1.val (projIdx d1.shape s j)) (d2.val (projIdx d2.shape s j)) }

def sBroadcastTo (d : Dense) (s : List Nat) : Except Err Dense :=
  if npBroadcastToOk d.shape s then .ok { shape := s, fill := d.fill, val := fun j => d.val (projIdx d.shape s j) }
  else .error .value

/-- `np.transpose(x, axes)[j] = x[i]` with `i[axes[k]] = j[k]` -/
def sTranspose (d : Dense) (axes : List Int) : Except Err Dense :=
  match npAxes axes d.shape.length with
  | .error e => .error e
  | .ok ax =>
    if ¬ ax.Nodup then .error .value
    else if ax.length ≠ d.shape.length then .error .value
    else .ok { shape := COO.gather d.shape ax, fill := d.fill, val := fun j => d.val (COO.gather j (invPerm ax)) }

/-- `np.reshape`: same row-major linear position -/
def sReshape (d : Dense) (s : List Nat) : Except Err Dense :=
  if prod d.shape = prod s then .ok { shape := s, fill := d.fill, val := fun j => d.val (unravel (ravel j s) d.shape) }
  else .error .value

/-- `np.flip`: coordinate `n - 1 - j[a]` on every flipped axis -/
def sFlip (d : Dense) (axes : List Int) : Except Err Dense :=
  match npAxes axes d.shape.length with
  | .error e => .error e
  | .ok ax =>
    if ¬ ax.Nodup then .error .value
    else .ok { shape := d.shape, fill := d.fill, val := fun j => d.val (COO.flipIdx d.shape ax j) }

/-- `np.roll`: element `j` comes from `j - shift` (mod extent) along every rolled axis, pair by pair -/
def sRoll (d : Dense) (shifts : List Int) (axes : List Int) : Except Err Dense :=
  match npAxes axes d.shape.length with
  | .error e => .error e
  | .ok ax =>
    if ax.length ≠ (rollShifts shifts ax.length).length then .error .value
    else .ok { shape := d.shape, fill := d.fill,
               val := fun j => d.val (COO.rollIdx d.shape ax.reverse
                 ((rollShifts shifts ax.length).reverse.map fun s => -s) j) }

/-- put a 0 coordinate back at every squeezed axis -/
def unsqueeze (axes : List Nat) : Nat → List Nat → Idx → Idx
  | _, [], _ => []
  | a, _ :: s, j =>
    if axes.contains a then 0 :: unsqueeze axes (a + 1) s j
    else j.headD 0 :: unsqueeze axes (a + 1) s j.tail

def sSqueeze (d : Dense) (axes : List Int) : Except Err Dense :=
  match squeezeAxes d.shape axes with
  | .error e => .error e
  | .ok ax => .ok { shape := COO.dropAxes d.shape ax, fill := d.fill, val := fun j => d.val (unsqueeze ax 0 d.shape j) }

def sExpandDims (d : Dense) (axis : Int) : Except Err Dense :=
  match npAxis axis (d.shape.length + 1) with
  | .error e => .error e
  | .ok pos => .ok { shape := COO.insertAt d.shape pos 1, fill := d.fill, val := fun k => d.val (k.eraseIdx pos) }

/-- NumPy's meaning of one basic index entry on an axis of extent `d`: an integer `-d ≤ i < d`
counts from the end when negative (`IndexError` otherwise); a slice selects CPython's
`slice.indices(d)` = `Spec.pyAdjust` -/
def npEntry (e : BIx) (d : Nat) : Except Err NIx :=
  match e with
  | .int i => if -(d : Int) ≤ i ∧ i < (d : Int) then .ok (.int (if i < 0 then i + (d : Int) else i)) else .error .index
  | .slice a b c => let t := Spec.pyAdjust a b (c.getD 1) (d : Int); .ok (.slice t.1 t.2.1 t.2.2)
  | .newaxis => .ok .newaxis

/-- entry by entry, left to right; `None` consumes no axis -/
def npGo : List BIx → List Nat → Except Err (List NIx)
  | [], _ => .ok []
  | .newaxis :: rest, dims =>
    match npGo rest dims with
    | .ok r => .ok (.newaxis :: r)
    | .error e => .error e
  | _ :: _, [] => .error .index
  | e :: rest, d :: ds =>
    match npEntry e d with
    | .error er => .error er
    | .ok h =>
      match npGo rest ds with
      | .ok r => .ok (h :: r)
      | .error er => .error er

/-- the whole tuple: more entries than axes is an `IndexError`; missing trailing entries are `:` -/
def npIndex (idx : List BIx) (shape : List Nat) : Except Err (List NIx) :=
  let n := (idx.filter fun e => !e.isNewaxis).length
  if n > shape.length then .error .index
  else npGo (idx ++ List.replicate (shape.length - n) (.slice none none none)) shape

/-- basic indexing: with every entry given NumPy's meaning (`npIndex`), result element `j` reads
operand element `Spec.compose n j` (integer: that coordinate; slice `(a, b, s)`: coordinate
`a + j[k] * s`, extent `len(range(a, b, s))`; `None`: a new axis of extent 1) -/
def sGetitem (d : Dense) (idx : List BIx) : Except Err Dense :=
  match npIndex idx d.shape with
  | .error e => .error e
  | .ok n =>
    if idx.any BIx.zeroStep then .error .value
    else if Spec.hasOut n then .ok { shape := outShape n false, fill := d.fill, val := fun j => d.val (Spec.compose n j) }
    else .error .type

/-- reductions: `out[j]` aggregates `x[i]` over all `i` with `i[kept[k]] = j[k]` -/
def reduceD (op : ROp) (d : Dense) (ax : List Nat) : Dense :=
  let kept := (List.range d.shape.length).filter fun a => !ax.contains a
  let cell := fun (j r : Idx) => d.val (COO.gather (j ++ r) (invPerm (kept ++ ax)))
  let block := allIdx (COO.gather d.shape ax)
  match op with
  | .add => { shape := COO.gather d.shape kept, fill := d.fill * (prod (COO.gather d.shape ax) : Int),
              val := fun j => (block.map (cell j)).sum }
  | .max => { shape := COO.gather d.shape kept, fill := d.fill, val := fun j => npFold1 max (block.map (cell j)) }
  | .min => { shape := COO.gather d.shape kept, fill := d.fill, val := fun j => npFold1 min (block.map (cell j)) }

def reduceAxesD (n : Nat) (axes : Option (List Int)) : Except Err (List Nat) :=
  match axes with
  | none => .ok (List.range n)
  | some as => npAxes as n

def sReduce (op : ROp) (d : Dense) (axes : Option (List Int)) : Except Err Dense :=
  match reduceAxesD d.shape.length axes with
  | .error e => .error e
  | .ok ax =>
    if ¬ ax.Nodup then .error .value
    else if op ≠ .add ∧ ax.any (fun a => d.shape.getD a 0 == 0) = true then .error .value  -- "zero-size array to reduction operation"
    else if (List.range d.shape.length).filter (fun a => !ax.contains a) = [] then .error .type  -- a scalar
    else .ok (reduceD op d ax)

def sameFillD (d0 : Dense) (rest : List Dense) : Bool := rest.all fun y => y.fill == d0.fill

/-- the member and the offset inside it that position `p` along the joined axis falls into -/
def locateD : List Nat → Nat → Nat × Nat
  | [], p => (0, p)
  | e :: es, p => if p < e then (0, p) else ((locateD es (p - e)).1 + 1, (locateD es (p - e)).2)

def concatD (d0 : Dense) (rest : List Dense) (ax : Nat) : Dense :=
  let ds := d0 :: rest
  let exts := ds.map fun y => y.shape.getD ax 0
  { shape := d0.shape.set ax exts.sum, fill := d0.fill,
    val := fun j => (ds.getD (locateD exts (j.getD ax 0)).1 d0).val (j.set ax (locateD exts (j.getD ax 0)).2) }

def sConcat (d0 : Dense) (rest : List Dense) (axis : Int) : Except Err Dense :=
  if sameFillD d0 rest = false then .error .value
  else match npAxis axis d0.shape.length with
  | .error e => .error e
  | .ok ax =>
    if (rest.all fun y => y.shape.set ax 0 == d0.shape.set ax 0) = false then .error .value
    else .ok (concatD d0 rest ax)

def sStack (d0 : Dense) (rest : List Dense) (axis : Int) : Except Err Dense :=
  if sameFillD d0 rest = false then .error .value
  else if (rest.all fun y => y.shape == d0.shape) = false then .error .value
  else match npAxis axis (d0.shape.length + 1) with
  | .error e => .error e
  | .ok ax => .ok { shape := COO.insertAt d0.shape ax (rest.length + 1), fill := d0.fill,
                    val := fun j => ((d0 :: rest).getD (j.getD ax 0) d0).val (j.eraseIdx ax) }

def sTri (upper : Bool) (d : Dense) (k : Int) : Except Err Dense :=
  if d.fill ≠ 0 then .error .value
  else if d.shape.length < 2 then .error .notImplemented
  else
    let n := d.shape.length
    .ok { shape := d.shape, fill := 0,
          val := fun j =>
            let r : Int := j.getD (n - 2) 0; let c : Int := j.getD (n - 1) 0
            if (if upper then decide (r + k ≤ c) else decide (r + k ≥ c)) then d.val j else 0 }

/-- the operand index of element `j = others ++ [t]` of `np.diagonal`: `t + max(-offset, 0)` on
`axis1`, `t + max(offset, 0)` on `axis2`, the other coordinates in order -/
def diagSrcD (n a1 a2 : Nat) (offset : Int) (j : Idx) : Idx :=
  let others := (List.range n).filter fun a => a ≠ a1 ∧ a ≠ a2
  (List.range n).map fun a =>
    if a = a1 then j.getD others.length 0 + (-offset).toNat
    else if a = a2 then j.getD others.length 0 + offset.toNat
    else j.getD (others.idxOf a) 0

def sDiagonal (d : Dense) (offset : Int) (axis1 axis2 : Int) : Except Err Dense :=
  match npAxis axis1 d.shape.length, npAxis axis2 d.shape.length with
  | .error e, _ => .error e
  | .ok _, .error e => .error e
  | .ok a1, .ok a2 =>
    if a1 = a2 then .error .value
    else if d.shape.getD a1 0 ≠ d.shape.getD a2 0 then .error .value
    else .ok { shape := COO.gather d.shape ((List.range d.shape.length).filter fun a => a ≠ a1 ∧ a ≠ a2)
                 ++ [((d.shape.getD a1 0 : Int) - (offset.natAbs : Int)).toNat],
               fill := d.fill, val := fun j => d.val (diagSrcD d.shape.length a1 a2 offset j) }

def sViaGcxs (d : Dense) (c : Option (List Nat)) : Except Err Dense :=
  if gcxsAxesOk d.shape.length c then .ok d else .error .value

def sViaDok (d : Dense) : Except Err Dense := .ok d

end Expr

mutual
/-- what the program means on dense arrays (NumPy), with the fill-value bookkeeping of the properties -/
def evalSpec : Expr → Except Err Dense
  | .lit shape es fill _ => Expr.sLit shape es fill
  | .ew1 f a => do let x ← evalSpec a; Expr.sEw1 f x
  | .ew2 f a b => do let x ← evalSpec a; let y ← evalSpec b; Expr.sEw2 f x y
  | .broadcastTo a s => do let x ← evalSpec a; Expr.sBroadcastTo x s
  | .transpose a axes => do let x ← evalSpec a; Expr.sTranspose x axes
  | .reshape a s => do let x ← evalSpec a; Expr.sReshape x s
  | .flip a axes => do let x ← evalSpec a; Expr.sFlip x axes
  | .roll a sh axes => do let x ← evalSpec a; Expr.sRoll x sh axes
  | .squeeze a axes => do let x ← evalSpec a; Expr.sSqueeze x axes
  | .expandDims a axis => do let x ← evalSpec a; Expr.sExpandDims x axis
  | .getitem a idx => do let x ← evalSpec a; Expr.sGetitem x idx
  | .reduce op a axes => do let x ← evalSpec a; Expr.sReduce op x axes
  | .concat xs axis => do let p ← evalSpecs xs; Expr.sConcat p.1 p.2 axis
  | .stack xs axis => do let p ← evalSpecs xs; Expr.sStack p.1 p.2 axis
  | .triu a k => do let x ← evalSpec a; Expr.sTri true x k
  | .tril a k => do let x ← evalSpec a; Expr.sTri false x k
  | .diagonal a off a1 a2 => do let x ← evalSpec a; Expr.sDiagonal x off a1 a2
  | .viaGcxs a c => do let x ← evalSpec a; Expr.sViaGcxs x c
  | .viaDok a => do let x ← evalSpec a; Expr.sViaDok x
def evalSpecs : Exprs → Except Err (Dense × List Dense)
  | .one e => do let x ← evalSpec e; pure (x, [])
  | .cons e rest => do let x ← evalSpec e; let p ← evalSpecs rest; pure (x, p.1 :: p.2)
end

/-- every literal input stores no fill-valued entry after construction (e.g. built with `prune=True`,
or from explicit data that avoids the fill value) -/
def litNoFill (shape : List Nat) (es : List (Idx × Int)) (fill : Int) (prune : Bool) : Prop :=
  (COO.build shape es fill false true prune).NoFill

mutual
def Expr.LeavesNoFill : Expr → Prop
  | .lit shape es fill prune => litNoFill shape es fill prune
  | .ew1 _ a => a.LeavesNoFill
  | .ew2 _ a b => a.LeavesNoFill ∧ b.LeavesNoFill
  | .broadcastTo a _ => a.LeavesNoFill
  | .transpose a _ => a.LeavesNoFill
  | .reshape a _ => a.LeavesNoFill
  | .flip a _ => a.LeavesNoFill
  | .roll a _ _ => a.LeavesNoFill
  | .squeeze a _ => a.LeavesNoFill
  | .expandDims a _ => a.LeavesNoFill
  | .getitem a _ => a.LeavesNoFill
  | .reduce _ a _ => a.LeavesNoFill
  | .concat xs _ => xs.LeavesNoFill
  | .stack xs _ => xs.LeavesNoFill
  | .triu a _ => a.LeavesNoFill
  | .tril a _ => a.LeavesNoFill
  | .diagonal a _ _ _ => a.LeavesNoFill
  | .viaGcxs a _ => a.LeavesNoFill
  | .viaDok a => a.LeavesNoFill
def Exprs.LeavesNoFill : Exprs → Prop
  | .one e => e.LeavesNoFill
  | .cons e rest => e.LeavesNoFill ∧ rest.LeavesNoFill
end

-- nesting depth of a program
mutual
def Expr.depth : Expr → Nat
  | .lit .. => 0
  | .ew1 _ a => a.depth + 1
  | .ew2 _ a b => max a.depth b.depth + 1
  | .broadcastTo a _ => a.depth + 1
  | .transpose a _ => a.depth + 1
  | .reshape a _ => a.depth + 1
  | .flip a _ => a.depth + 1
  | .roll a _ _ => a.depth + 1
  | .squeeze a _ => a.depth + 1
  | .expandDims a _ => a.depth + 1
  | .getitem a _ => a.depth + 1
  | .reduce _ a _ => a.depth + 1
  | .concat xs _ => xs.depth + 1
  | .stack xs _ => xs.depth + 1
  | .triu a _ => a.depth + 1
  | .tril a _ => a.depth + 1
  | .diagonal a _ _ _ => a.depth + 1
  | .viaGcxs a _ => a.depth + 1
  | .viaDok a => a.depth + 1
def Exprs.depth : Exprs → Nat
  | .one e => e.depth
  | .cons e rest => max e.depth rest.depth
end

end SparseV

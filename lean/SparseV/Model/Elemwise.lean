/-
  SparseV.Model.Elemwise — broadcasting and element-wise application (`_umath.py`).
  The per-pair broadcasting rule is the GENERATED `Gen.bcastOk` / `Gen.bcastDim`.
-/
import SparseV.Model.Coo
import SparseV.Generated.Umath
namespace SparseV

/-- `_get_broadcast_shape(shape1, shape2, is_result)`: with `is_result` an operand with more axes than
the result shape is rejected first; then zip from the right, `zip_longest` with 1 -/
def bshape2 (s1 s2 : List Nat) (isResult : Bool) : Except Err (List Nat) :=
  let r1 := s1.reverse
  let r2 := s2.reverse
  if isResult && s1.length > s2.length then .error .value else
  if (List.zip r1 r2).all fun p => Gen.bcastOk p.1 p.2 isResult then
    let n := max r1.length r2.length
    .ok (((List.range n).map fun k => (Gen.bcastDim (r1.getD k 1) (r2.getD k 1)).toNat).reverse)
  else .error .value

/-- `_get_nary_broadcast_shape` -/
def bshapeN (shapes : List (List Nat)) : Except Err (List Nat) :=
  shapes.foldlM (fun acc s => bshape2 s acc false) []

/-- the index of operand shape `src` that result index `i` (of shape `dst`) reads under broadcasting -/
def projIdx (src dst : List Nat) (i : Idx) : Idx :=
  let j := i.drop (dst.length - src.length)
  (List.zip src j).map fun p => if p.1 = 1 then 0 else p.2

/-- `_get_broadcast_parameters`: per result axis, `none` (axis absent in the operand),
`some false` (needs broadcasting) or `some true` -/
def bparams (src dst : List Nat) : List (Option Bool) :=
  let lead := dst.length - src.length
  (List.range dst.length).map fun d =>
    if d < lead then none else some (src.getD (d - lead) 0 == dst.getD d 0)

namespace COO
variable {α : Type}

/-- `_get_expanded_coords_data`: nested loops over the result axes in order; the first
non-broadcast axis iterates over the stored entries, broadcast axes over their full range. -/
def expandGo : List (Option Bool × Nat) → Nat → Option (Idx × α) → List (Idx × α) → List (Idx × α)
  | [], _, cur, es =>
    match cur with
    | some e => [([], e.2)]
    | none => es.map fun e => ([], e.2)     -- no non-broadcast axis: `np.repeat(data, …)`
  | (some true, _) :: rest, dim, cur, es =>
    match cur with
    | some e => (expandGo rest (dim + 1) cur es).map fun r => (e.1.getD dim 0 :: r.1, r.2)
    | none => es.flatMap fun e => (expandGo rest (dim + 1) (some e) es).map fun r => (e.1.getD dim 0 :: r.1, r.2)
  | (some false, sh) :: rest, dim, cur, es =>
    (List.range sh).flatMap fun b => (expandGo rest (dim + 1) cur es).map fun r => (b :: r.1, r.2)
  | (none, sh) :: rest, dim, cur, es =>
    (List.range sh).flatMap fun b => (expandGo rest dim cur es).map fun r => (b :: r.1, r.2)

def expand (es : List (Idx × α)) (src dst : List Nat) : List (Idx × α) :=
  expandGo ((bparams src dst).zip dst) 0 none es

/-- the `sorted=` claim of `broadcast_to`: the non-broadcast axes are adjacent -/
def expandSorted (src dst : List Nat) : Bool :=
  let nb := (List.range dst.length).filter fun d => (bparams src dst).getD d none == some true
  (List.zip (nb.drop 1) nb).all fun p => p.1 - p.2 == 1

/-- `broadcast_to` -/
def broadcastTo (x : COO α) (s : List Nat) : Except Err (COO α) :=
  if s = x.shape then .ok x else
  match bshape2 x.shape s true with
  | .error e => .error e
  | .ok rs =>
    let es := expand x.entries x.shape rs
    .ok { shape := rs, entries := if expandSorted x.shape rs then es else sortEntries rs es, fill := x.fill }

end COO

/-- an operand of an element-wise operation (after `_Elemwise.__init__` converted sparse formats to COO) -/
inductive Operand (α : Type) where
  | coo (x : COO α)
  | dense (shape : List Nat) (flat : List α)
  | scalar (v : α)

namespace Operand
variable {α : Type}
def shape : Operand α → List Nat
  | .coo x => x.shape | .dense s _ => s | .scalar _ => []
def isCoo : Operand α → Bool | .coo _ => true | _ => false
def isDense : Operand α → Bool | .dense _ _ => true | _ => false
/-- value the operand contributes at result index `i` of result shape `s` -/
def valueAt [Inhabited α] (o : Operand α) (s : List Nat) (i : Idx) : α :=
  match o with
  | .coo x => x.get (projIdx x.shape s i)
  | .dense sh flat => flat.getD (ravel (projIdx sh s i) sh) default
  | .scalar v => v
/-- value used for the fill computation at position `i` of the dense operands' common shape -/
def fillAt [Inhabited α] (o : Operand α) (s : List Nat) (i : Idx) : α :=
  match o with
  | .coo x => x.fill
  | .dense sh flat => flat.getD (ravel (projIdx sh s i) sh) default
  | .scalar v => v
end Operand

inductive ElemResult (α : Type) where
  | sparse (x : COO α)
  | dense (shape : List Nat) (flat : List α)

/-- `_Elemwise` : shape, fill-value decision (`_get_fill_value`), result -/
def elemwiseN {α : Type} [Inhabited α] [DecidableEq α] (f : List α → α) (ops : List (Operand α)) :
    Except Err (ElemResult α) := do
  if !(ops.any Operand.isCoo) then throw .value
  let shape ← bshapeN (ops.map Operand.shape)
  let ndShape ← bshapeN ((ops.filter Operand.isDense).map Operand.shape)
  -- fill_value_array = func(fill values (1-element), dense operands): one value per position of ndShape
  let fillArr := (allIdx ndShape).map fun i => f (ops.map fun o => o.fillAt ndShape i)
  -- size-0 dense operands: the code recomputes the fill from zeros of every non-sparse operand's dtype
  let fill := fillArr.headD (f (ops.map fun o => match o with | .coo x => x.fill | _ => default))
  if fillArr.all (· = fill) then
    if shape.any (· = 0) then
      pure (.sparse { shape := shape, entries := [], fill := fill })
    else
      let cands := (ops.flatMap fun o => match o with
        | .coo x => (COO.expand x.entries x.shape shape).map (·.1)
        | _ => []).eraseDups
      let es := cands.filterMap fun i =>
        let v := f (ops.map fun o => o.valueAt shape i)
        if v = fill then none else some (i, v)
      pure (.sparse { shape := shape, entries := COO.sortEntries shape es, fill := fill })
  else if shape = ndShape then
    pure (.dense shape ((allIdx shape).map fun i => f (ops.map fun o => o.valueAt shape i)))
  else throw .value

end SparseV

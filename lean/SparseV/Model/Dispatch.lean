/-
  SparseV.Model.Dispatch — how a call reaches its implementation, for every spelling (property C17).

  * `nep18` : the lookup algorithm of `SparseArray.__array_function__` (module-path walk, `getattr` on the
    namespace, then on the type, property/instance-attribute fallback, `NotImplemented`), over an abstract
    environment and over the environment generated from the source (`genEnv`).
  * `arrayUfunc` : the routing of `SparseArray.__array_ufunc__`.
  * `bindArg` : Python's argument binding for one argument passed one way (positionally at an index, or by keyword).
  * `resolve` : `Spelling → Except Err Target` — follows the forwarding calls recorded in `Gen.dispatchTable`
    down to a core (an implementation, or a ufunc route) and composes the keyword maps on the way.
  * the Boolean checks that make up the statement `spellings_agree`.

  Core Lean only (linked into the driver).  The algorithm follows the code, bugs included.
-/
import SparseV.Generated.Dispatch
namespace SparseV.Dispatch
open SparseV SparseV.Gen

/-! ## `__array_function__` -/

/-- what the lookup needs to know about the world -/
structure Env where
  /-- walk `func.__module__.split(".")[1:]` from the module `sparse`, then `getattr(module, func.__name__)`:
  `none` = AttributeError somewhere on the way; `some c` = found, `c` = is it callable -/
  nsGet : List Name → Name → Option Bool
  /-- `getattr(type(self), name)`: `none` = AttributeError; `some c` = found, `c` = `isinstance(·, Callable)` -/
  tyGet : Name → Option Bool
  /-- does `getattr(self, name)` succeed (class attribute through the descriptor protocol, or instance attribute) -/
  instHas : Name → Bool

inductive Nep18 where
  | callNamespace     -- `return sparse_func(*args, **kwargs)` with the namespace attribute
  | callTypeAttr      -- `return sparse_func(*args, **kwargs)` with `getattr(type(self), name)` (TypeError if it is not callable)
  | attrValue         -- `return getattr(self, name)`: the value of a property / instance attribute
  | notImplemented    -- `return NotImplemented` (NumPy then raises TypeError)
  deriving Repr, DecidableEq

/-- `SparseArray.__array_function__(func, types, args, kwargs)` with `path = func.__module__.split(".")[1:]`,
`name = func.__name__`, `nargs = len(args)`, `nkw = len(kwargs)`.

`fallback` is the generated `Gen.nep18BindFallback` (does the source contain the `_binds` step); `nsBinds` / `tyBinds`
say whether `inspect.signature(·).bind(*args, **kwargs)` succeeds for the namespace function / for the attribute of the
type.  Without the step the namespace function is called whatever the arguments are. -/
def nep18 (env : Env) (fallback nsBinds tyBinds : Bool) (path : List Name) (name : Name) (nargs nkw : Nat) : Nep18 :=
  match env.nsGet path name with
  | some _ =>
    if fallback && !nsBinds && env.tyGet name == some true && tyBinds then .callTypeAttr else .callNamespace
  | none =>
    let ta := env.tyGet name
    if ta != some true && nargs == 1 && nkw == 0 && env.instHas name then .attrValue
    else if ta == none then .notImplemented
    else .callTypeAttr

/-! ## the environment read off the source -/

def nsAttr (n : Name) : Option (Kind × Name) :=
  (namespaceAttrs.find? (fun e => e.1 == n)).map (·.2)

def nsCallableKind (k : Kind) : Bool := k == .function || k == .ufunc || k == .cls

def mroOf (cls : Name) : List Name := (classMro.lookup cls).getD [cls]

/-- SPECIFICATION of the class lookup: the attribute `n` of class `cls` as the class bodies of the source define it,
first class along the MRO that defines it (slow: scans the table) -/
def classEntrySpec (t : List Entry) (cls n : Name) : Option Entry :=
  (mroOf cls).findSome? fun c => t.find? fun e => e.owner == c && e.op == n

/-- what the generated indexes must be, computed from the table and the MRO -/
def dedupFirst : List (Name × Nat) → List Name → List (Name × Nat)
  | [], _ => []
  | (k, i) :: rest, seen => if seen.contains k then dedupFirst rest seen else (k, i) :: dedupFirst rest (k :: seen)

def buildNsIndex (t : List Entry) : List (Name × Nat) :=
  (t.zipIdx.filter fun e => e.1.owner == nm_sparse).map fun e => (e.1.op, e.2)
def buildTargetIndex (t : List Entry) : List (Name × Nat) :=
  dedupFirst ((t.zipIdx.filter fun e => e.1.owner == nm_sparse || e.1.owner == nm_private).map fun e => (e.1.target, e.2)) []
def buildClassIndex (t : List Entry) (cls : Name) : List (Name × Nat) :=
  dedupFirst ((mroOf cls).flatMap fun c => (t.zipIdx.filter fun e => e.1.owner == c).map fun e => (e.1.op, e.2)) []

/-- the generated indexes are exactly those (checked once by the kernel in Props/C17: `index_faithful`) -/
def indexesFaithful (t : List Entry) : Bool :=
  nsIndex == buildNsIndex t && targetIndex == buildTargetIndex t &&
  classIndex == (classMro.map fun e => (e.1, buildClassIndex t e.1))

/-- the attribute `n` of class `cls` (through the generated index) -/
def classEntry (t : List Entry) (cls n : Name) : Option Entry :=
  ((classIndex.lookup cls).bind fun ix => ix.lookup n).bind fun i => t[i]?

/-- the function `n` of the namespace (through the generated index) -/
def nsEntry (t : List Entry) (n : Name) : Option Entry := (nsIndex.lookup n).bind fun i => t[i]?

/-- the package function with the module-qualified name `tg` (through the generated index) -/
def targetEntry (t : List Entry) (tg : Name) : Option Entry := (targetIndex.lookup tg).bind fun i => t[i]?

/-- special methods that `NDArrayOperatorsMixin` provides (if the class inherits it and does not override them) -/
def mixinOp (cls n : Name) : Option (Name × Name) :=
  if (mroOf cls).contains nm_NDArrayOperatorsMixin then (operatorTable.find? (fun e => e.1 == n)).map (·.2) else none

def entryCallable (e : Entry) : Bool := e.kind == .method || e.kind == .classmethod || e.kind == .staticmethod

def genEnv (t : List Entry) (cls : Name) : Env where
  nsGet := fun path n =>
    match path with
    | [] => (nsAttr n).map fun kt => nsCallableKind kt.1
    | _ :: _ => none   -- `sparse` has no attribute named like a NumPy sub-package (linalg, fft): the walk raises AttributeError
  tyGet := fun n =>
    match classEntry t cls n with
    | some e => some (entryCallable e)
    | none => (mixinOp cls n).map fun _ => true
  instHas := fun n =>
    (classEntry t cls n).isSome || (mixinOp cls n).isSome ||
    (mroOf cls).any fun c => ((instanceAttrs.lookup c).getD []).contains n

/-! ## `__array_ufunc__` -/

inductive UfuncRoute where
  | elemwise            -- `elemwise(ufunc, *inputs, **kwargs)`
  | reduce              -- `SparseArray._reduce(ufunc, *inputs, **kwargs)` → `self.reduce(ufunc, **kwargs)`
  | outerAsCall         -- `outer`: inputs reshaped, then `elemwise`
  | arrayFunction       -- ufunc with a core signature: handed to `__array_function__`
  | notImplemented
  | split (parts : List Name)
      -- a ufunc with several results: `return (np.<p₀>(*inputs, **kwargs), np.<p₁>(*inputs, **kwargs), …)` — each component is an
      -- ordinary ufunc call on the caller's operands and is dispatched again
  deriving Repr, DecidableEq

/-- `SparseArray.__array_ufunc__(ufunc, method, *inputs, out=…)`, in the order of the tests in the source:
`outGiven` = an `out=` was passed; `outOk` = every `out` operand is of the array's own type; `hasSignature` =
`ufunc.signature is not None`; `multi` = `ufunc.nout != 1`; `splitOf` = what the `nout != 1` branch computes this ufunc as
(`Gen.ufuncMultiOutSplit`, read off the source; `none`: nothing).  `Gen.ufuncMultiOutGuard` says whether the source has that
branch at all. -/
def arrayUfunc (outGiven outOk hasSignature multi : Bool) (splitOf : Option (List Name)) (method : String) : UfuncRoute :=
  if outGiven && !outOk then .notImplemented
  else if hasSignature then .arrayFunction
  else if ufuncMultiOutGuard && multi then
    match splitOf with
    | some parts => if method == "__call__" && !outGiven then .split parts else .notImplemented
    | none => .notImplemented
  else if method == "outer" then .outerAsCall
  else if method == "__call__" then .elemwise
  else if method == "reduce" then .reduce
  else .notImplemented

/-- the routing of the NumPy ufunc named `u` (signature, number of results and the split read from the generated tables) -/
def arrayUfuncOf (u : Name) (outGiven outOk : Bool) (method : String) : UfuncRoute :=
  arrayUfunc outGiven outOk (gufuncs.contains u) (multiOutUfuncs.contains u) (ufuncMultiOutSplit.lookup u) method

/-- the two ufunc methods the tables use, without string tests (the kernel evaluates these); single-result ufuncs, no `out=` -/
def arrayUfuncCall (outOk hasSignature : Bool) : UfuncRoute :=
  if !outOk then .notImplemented else if hasSignature then .arrayFunction else .elemwise
def arrayUfuncReduce (outOk hasSignature : Bool) : UfuncRoute :=
  if !outOk then .notImplemented else if hasSignature then .arrayFunction else .reduce

/-- what a ufunc call hands back, as a description of the computation: ONE array computed by `route` for the ufunc `u` on the
operands `ops` in that order (`route = notImplemented`: NumPy raises TypeError), or the TUPLE of the results of the component
calls.  `α` is whatever identifies an operand: the theorems hold for every operand list. -/
inductive UResult (α : Type) where
  | one (u : Name) (route : UfuncRoute) (ops : List α)
  | tuple (parts : List (UResult α))

/-- `np.<u>.<method>(*ops[, out=…])` followed through `__array_ufunc__`: a split hands every component ufunc the SAME operand
list (`*inputs`) with `out` already popped, through `__call__`; each such call is dispatched again (`fuel` bounds the nesting;
the generated split has depth one). -/
def ufuncResult {α : Type} : Nat → Name → String → Bool → Bool → List α → UResult α
  | 0, u, _, _, _, ops => .one u .notImplemented ops
  | fuel + 1, u, method, outGiven, outOk, ops =>
    match arrayUfuncOf u outGiven outOk method with
    | .split parts => .tuple (parts.map fun p => ufuncResult fuel p "__call__" false true ops)
    | r => .one u r ops

/-- the ufunc (and role) a special method of NumPy's operator mixin calls -/
def opUfunc (dunder : Name) : Option (Name × Name) := (operatorTable.find? (fun e => e.1 == dunder)).map (·.2)

/-! ### the trial call of the out= path -/

/-- Before anything is computed for `out=`, the ufunc is tried on one-element arrays of the operands' dtypes (to learn whether the
requested output is admissible: casting).  `raisesOn v`: does the ufunc raise when every array operand holds the value `v`
(integer `power` does for a negative exponent).  The source builds those arrays with `np.ones` (`Gen.ufuncOutTrialOnes`) or with
`np.empty` — then they hold whatever the memory held, `mem`. -/
def outTrialRaises (raisesOn : Int → Bool) (mem : Int) : Bool :=
  raisesOn (if ufuncOutTrialOnes then 1 else mem)

/-! ### what `out=` holds afterwards -/

/-- a storage format; a GCXS carries its compressed axes -/
inductive Fmt where
  | coo | gcxs (axes : List Nat) | dok
  deriving Repr, DecidableEq

/-- the class of a format (`type(x)`) -/
def Fmt.cls : Fmt → Name
  | .coo => nm_COO | .gcxs _ => nm_GCXS | .dok => nm_DOK

/-- what the computation produced: a dense `ndarray`, or a sparse array of some format -/
inductive Computed where
  | dense | sparse (f : Fmt)
  deriving Repr, DecidableEq

/-- the caller's `out` object after the call: its class never changes (it is the same Python object); `holds` says whose
attribute dictionary it now carries (`_make_shallow_copy_of` replaces `__dict__` wholesale) -/
structure Stored where
  cls : Name
  holds : Computed
  deriving Repr, DecidableEq

/-- `holds` is the attribute dictionary of an array of the object's own class -/
def Stored.wellFormed (s : Stored) : Bool :=
  match s.holds with
  | .dense => false
  | .sparse f => f.cls == s.cls

structure OutState where
  result : Computed         -- the local `result`
  stored : Computed         -- the attribute dictionary `out` carries
  deriving Repr, DecidableEq

/-- one statement of the out= block.  `o`: the format of `out` before the call; `shapeOk`: `out.shape == result.shape`; `dflt`:
the compressed axes `asformat("gcxs")` picks when it is not told any.  `.ok (st, true)`: `return out` was reached.
`ndarray.asformat` does not exist (AttributeError → `Err.internal`). -/
def outStep (o : Fmt) (shapeOk : Bool) (dflt : List Nat) (st : OutState) : OutStep → Except Err (OutState × Bool)
  | .unpack => .ok (st, false)
  | .shapeCheck => if shapeOk then .ok (st, false) else .error Err.value
  | .refuseDense => if st.result == .dense then .error Err.value else .ok (st, false)
  | .convertFormat keepAxes =>
    match st.result with
    | .dense => .error Err.internal
    | .sparse f =>
      if f.cls == o.cls then .ok (st, false)
      else
        let conv : Fmt := match o with
          | .gcxs ax => .gcxs (if keepAxes then ax else dflt)
          | other => other
        .ok ({ st with result := .sparse conv }, false)
  | .shallowCopy => .ok ({ st with stored := st.result }, false)
  | .returnOut => .ok (st, true)

/-- run the statements of the out= block; falling off its end goes on to `return result` (the caller then gets `result`, and
`out` holds whatever was stored so far) -/
def outRun (o : Fmt) (shapeOk : Bool) (dflt : List Nat) : List OutStep → OutState → Except Err OutState
  | [], st => .ok st
  | s :: rest, st =>
    match outStep o shapeOk dflt st s with
    | .error e => .error e
    | .ok (st', true) => .ok st'
    | .ok (st', false) => outRun o shapeOk dflt rest st'

/-- `out` after `ufunc(…, out=(out,))` whose computation produced `r`, for the out= block `steps` -/
def outStore (steps : List OutStep) (o : Fmt) (r : Computed) (shapeOk : Bool) (dflt : List Nat) : Except Err Stored :=
  match outRun o shapeOk dflt steps { result := r, stored := .sparse o } with
  | .error e => .error e
  | .ok st => .ok { cls := o.cls, holds := st.stored }

/-- the format of the result of an element-wise call on sparse operands of the formats `fs` (`_Elemwise.__init__`): all DOK → DOK;
all GCXS → GCXS (the common compressed axes if they agree, else the default); anything else → COO -/
def elemwiseFormat (dflt : List Nat) (fs : List Fmt) : Fmt :=
  if fs.all (fun f => f == .dok) then .dok
  else match fs with
    | .gcxs ax :: rest =>
      if rest.all (fun f => f.cls == nm_GCXS) then (if rest.all (fun f => f == .gcxs ax) then .gcxs ax else .gcxs dflt) else .coo
    | _ => .coo

/-- the `outer` branch: the inputs (given by their numbers of dimensions) are walked in REVERSE; each is indexed with
`(..., None * cum)` where `cum` is the total dimension count of the inputs walked before it (= the inputs AFTER it in the
call); `walk` returns (position in the call, trailing new axes) in walking order -/
def outerWalk : List (Nat × Nat) → Nat → List (Nat × Nat)
  | [], _ => []
  | (i, nd) :: rest, cum => (i, cum) :: outerWalk rest (cum + nd)

/-- the operands handed to `elemwise` by the `outer` branch, in the order they are handed over: (position in the
caller's argument list, trailing new axes).  `Gen.outerFinalReverse` is read off the source. -/
def outerPrepare (ndims : List Nat) : List (Nat × Nat) :=
  let w := outerWalk ((List.range ndims.length).zip ndims).reverse 0
  if outerFinalReverse then w.reverse else w

/-! ## argument binding -/

/-- one argument of a call, by the way it is passed (`pos i` counts from 0 = the first argument after nothing) -/
inductive Way where
  | pos (i : Nat)
  | kw (name : Name)
  deriving Repr, DecidableEq

/-- the two variadic catch-alls as binding results -/
inductive Bound where
  | param (p : Name) | varargs | varkw
  deriving Repr, DecidableEq

/-- which parameter of `s` receives an argument passed this way: `.ok p`, `.ok "*"`/`"**"` for the variadic catch-alls,
or TypeError -/
def bindArg (s : Sig) : Way → Except Err Bound
  | .pos i =>
    match s.positional[i]? with
    | some p => .ok (.param p)
    | none => if s.varargs then .ok .varargs else .error Err.type
  | .kw n =>
    if (s.pos ++ s.kwonly).contains n then .ok (.param n)
    else if s.varkw then .ok .varkw else .error Err.type

/-- does a whole call — `npos` positional arguments and the keywords `kws` — bind to the signature (Python's
`Signature.bind`): not too many positionals, every keyword names a parameter that can be passed by keyword and was not
already filled positionally, every parameter without a default is supplied -/
def bindsCall (s : Sig) (npos : Nat) (kws : List Name) : Bool :=
  let positional := s.positional
  let filled := positional.take npos
  (npos ≤ positional.length || s.varargs) &&
  (kws.all fun k => ((s.pos ++ s.kwonly).contains k && !filled.contains k) || s.varkw) &&
  (s.params.all fun p => filled.contains p || kws.contains p || (s.defaults.lookup p).isSome)

/-! ## resolving a spelling -/

inductive Spelling where
  | method (op : Name)           -- `x.op(…)`
  | namespaceFn (op : Name)      -- `sparse.op(x, …)`
  | arrayNamespace (op : Name)   -- `x.__array_namespace__().op(x, …)`
  | nep18 (pub : Name)           -- `np.<pub>(x, …)` through `__array_function__`
  | ufuncCall (ufunc : Name)     -- `np.<ufunc>(x, …)` through `__array_ufunc__`
  | ufuncReduce (ufunc : Name)   -- `np.<ufunc>.reduce(x, …)`
  | operator (dunder : Name)     -- `x ∘ y` (forward special method) or `y ∘ x` (reflected special method)
  deriving Repr, DecidableEq

/-- where the value of a keyword of the core comes from -/
inductive Origin where
  | param (name : Name)      -- a parameter of the entry point of the spelling
  | const (text : Name)      -- a constant written in a wrapper on the way
  | dflt (text : Name)       -- not passed by a wrapper on the way: the default of the function it calls
  | star                       -- whatever the caller put into `*args` / `**kwargs`
  | missing                    -- a required parameter that nothing supplies
  deriving Repr, DecidableEq

/-- where a chain of forwarding calls ends -/
inductive Core where
  | impl (target : Name)          -- an implementation of the package (module-qualified definition)
  | ufunc (u : Name)              -- `elemwise(np.<u>, …)` through `__array_ufunc__`/`__call__`
  | ufuncReduce (u : Name)        -- `x.reduce(np.<u>, …)` through `__array_ufunc__`/`reduce`
  | instanceAttr (n : Name)       -- the value of an instance attribute
  deriving Repr, DecidableEq

/-- where a call ends up: the core, and for each keyword of the core where its value comes from -/
structure Target where
  core : Core
  kw : List (Name × Origin)
  deriving Repr, DecidableEq

def srcOrigin (b : Name → Origin) : Src → Origin
  | .param p => if p == nm_self then .param nm_self else b p   -- the receiver is the array operand, whatever the caller calls it
  | .const c => .const c
  | .star _ => .star

/-- origin of a callee's parameter `p`, given the positional sources, the keyword sources and the origins `b` of
the caller's own parameters -/
def originOf (callee : Sig) (posSrc : List Src) (kwSrc : List (Name × Src)) (b : Name → Origin) (p : Name) : Origin :=
  match (callee.positional.zip posSrc).lookup p with
  | some v => srcOrigin b v
  | none =>
    match kwSrc.lookup p with
    | some v => srcOrigin b v
    | none =>
      match callee.defaults.lookup p with
      | some d => .dflt d
      | none => if kwSrc.any (fun e => e.1 == nm_starstar) then .star else .missing

/-- a forwarding call must only use keywords the callee declares -/
def kwAccepted (callee : Sig) (kwSrc : List (Name × Src)) : Bool :=
  kwSrc.all fun e => e.1 == nm_starstar || (callee.pos ++ callee.kwonly).contains e.1 || callee.varkw

def kwTarget (core : Core) (kw : List (Name × Src)) (b : Name → Origin) : Target :=
  { core := core, kw := kw.map fun e => (e.1, srcOrigin b e.2) }

/-- follow the forwarding calls from entry `e` (whose own parameters have origins `b`) to the core.
AttributeError (a method the class does not have) is reported as `Err.internal`. -/
def follow (t : List Entry) (cls : Name) : Nat → Entry → (Name → Origin) → Except Err Target
  | 0, _, _ => .error Err.hang
  | fuel + 1, e, b =>
    match e.fwd with
    | .impl => .ok { core := .impl e.target, kw := e.sig.params.map fun p => (p, b p) }
    | .ufuncReduce u kw => .ok (kwTarget (.ufuncReduce u) kw b)
    | .ufuncCall u kw => .ok (kwTarget (.ufunc u) kw b)
    | .attr n =>
      match classEntry t cls n with
      | some e' => follow t cls fuel e' (fun _ => .missing)
      | none => .error Err.internal
    | .binop d =>
      match classEntry t cls d with
      | some e' => follow t cls fuel e' b
      | none =>
        match mixinOp cls d with
        | some (u, _) => .ok { core := .ufunc u, kw := [] }
        | none => .error Err.type
    | .method m pos kw =>
      match classEntry t cls m with
      | some e' =>
        if !kwAccepted e'.sig kw then .error Err.type
        else if pos.length > e'.sig.positional.length && !e'.sig.varargs then .error Err.type
        else follow t cls fuel e' (originOf e'.sig pos kw b)
      | none =>
        match mixinOp cls m with
        | some (u, _) => .ok { core := .ufunc u, kw := [] }
        | none => .error Err.internal
    | .func tg pos kw =>
      match targetEntry t tg with
      | some e' =>
        if !kwAccepted e'.sig kw then .error Err.type
        else if pos.length > e'.sig.positional.length && !e'.sig.varargs then .error Err.type
        else follow t cls fuel e' (originOf e'.sig pos kw b)
      | none => .error Err.internal

def followFuel : Nat := 6

def resolveNamespace (t : List Entry) (cls op : Name) : Except Err Target :=
  match nsEntry t op with
  | some e => follow t cls followFuel e Origin.param
  | none => .error Err.internal

def resolveMethod (t : List Entry) (cls op : Name) : Except Err Target :=
  match classEntry t cls op with
  | some e => if entryCallable e then follow t cls followFuel e Origin.param else .error Err.type
  | none =>
    match mixinOp cls op with
    | some (u, _) => .ok { core := .ufunc u, kw := [] }
    | none => .error Err.internal

/-- signature as seen by the caller of `type(self).name(x, …)`: `self` is the first positional parameter -/
def callSig (e : Entry) (viaType : Bool) : Sig :=
  if viaType then { e.sig with posonly := nm_self :: e.sig.posonly } else e.sig

/-- the lookup for a call with `npos` positional arguments and the keywords `kws`, in the environment read off the source -/
def nep18Gen (t : List Entry) (cls : Name) (mpath : List Name) (name : Name) (npos : Nat) (kws : List Name) : Nep18 :=
  let nsB := match mpath, nsEntry t name with
    | [], some e => bindsCall e.sig npos kws
    | _, _ => true      -- not a function of the package (a NumPy ufunc, a class, …): `_binds` answers True or the call is NumPy's business
  let tyB := match classEntry t cls name with
    | some e => entryCallable e && bindsCall (callSig e true) npos kws
    | none => false
  nep18 (genEnv t cls) nep18BindFallback nsB tyB mpath name npos kws.length

/-- `np.<pub>(x, …)` with `npos` positional arguments and the keywords `kws` -/
def resolveNep18 (t : List Entry) (cls pub : Name) (npos : Nat) (kws : List Name) : Except Err Target :=
  match numpyFunctions.find? (fun e => e.1 == pub) with
  | none => .error Err.internal
  | some (_, mpath, name) =>
    match nep18Gen t cls mpath name npos kws with
    | .callNamespace => resolveNamespace t cls name
    | .callTypeAttr => resolveMethod t cls name
    | .attrValue =>
      match classEntry t cls name with
      | some e => follow t cls followFuel e Origin.param
      | none => .ok { core := .instanceAttr name, kw := [] }
    | .notImplemented => .error Err.type

/-- `np.<ufunc>(x, …)` through `__array_ufunc__(ufunc, "__call__", …)` -/
def resolveUfuncCall (t : List Entry) (cls u : Name) : Except Err Target :=
  match arrayUfuncCall true (gufuncs.contains u) with
  | .elemwise => .ok { core := .ufunc u, kw := [] }
  | .arrayFunction =>
    -- `__array_function__(ufunc, …)`: a ufunc has no `__module__`, so the walk starts and ends at `sparse`
    (match nep18Gen t cls [] u 2 [] with
     | .callNamespace => resolveNamespace t cls u
     | .callTypeAttr => resolveMethod t cls u
     | _ => .error Err.type)
  | _ => .error Err.type

/-- a chain that ended at a NumPy ufunc call goes on through `__array_ufunc__`: a generalised ufunc is handed to
`__array_function__` -/
def throughArrayUfunc (t : List Entry) (cls : Name) (r : Except Err Target) : Except Err Target :=
  match r with
  | .ok tg =>
    match tg.core with
    | .ufunc u => if gufuncs.contains u then resolveUfuncCall t cls u else .ok tg
    | _ => .ok tg
  | .error e => .error e

def resolve (t : List Entry) (cls : Name) : Spelling → Except Err Target
  | .method op => throughArrayUfunc t cls (resolveMethod t cls op)
  | .namespaceFn op => throughArrayUfunc t cls (resolveNamespace t cls op)
  | .arrayNamespace op =>
    if arrayNamespaceModule == nm_sparse then throughArrayUfunc t cls (resolveNamespace t cls op) else .error Err.internal
  | .nep18 pub => throughArrayUfunc t cls (resolveNep18 t cls pub 1 [])
  | .ufuncCall u => resolveUfuncCall t cls u
  | .ufuncReduce u =>
    match arrayUfuncReduce true (gufuncs.contains u) with
    | .reduce => .ok { core := .ufuncReduce u, kw := [] }
    | _ => .error Err.type
  | .operator d => throughArrayUfunc t cls (resolveMethod t cls d)

/-! ## the checks of `spellings_agree` -/

def classes : List Name := [nm_COO, nm_GCXS, nm_DOK]

/-- names that are both a function of the namespace and an attribute of the class -/
def sharedOps (t : List Entry) (cls : Name) : List Name :=
  (nsIndex.map (·.1)).filter fun op => ((classIndex.lookup cls).bind fun ix => ix.lookup op).isSome

def coreOf : Except Err Target → Option Core
  | .ok tg => some tg.core
  | .error _ => none

/-- (1) the namespace function and the method of the same name end at the same core -/
def coreAgrees (t : List Entry) (cls op : Name) : Bool :=
  match classEntry t cls op with
  | none => true
  | some e =>
    let m := if entryCallable e then resolveMethod t cls op else follow t cls followFuel e Origin.param
    match m, resolveNamespace t cls op with
    | .ok a, .ok b => a.core == b.core
    | _, _ => false

/-- default of the parameter `p` of an entry point -/
def defaultOf (e : Entry) (p : Name) : Option Name := e.sig.defaults.lookup p

/-- a spelling that does not offer a keyword must pass exactly the default the sibling has for it -/
def constMatches (d : Option Name) : Origin → Bool
  | .const c => d == some c
  | .dflt c => d == some c
  | _ => false

/-- (2) keyword maps: for every core keyword, either both spellings take it from a parameter (a renaming, e.g.
`correction`→`ddof`) with equal defaults, or the one that does not offer it passes exactly the other's default -/
def kwAgrees (t : List Entry) (cls op : Name) : Bool :=
  match classEntry t cls op, nsEntry t op with
  | some em, some en =>
    if !entryCallable em then true else
    match resolveMethod t cls op, resolveNamespace t cls op with
    | .ok a, .ok b =>
      a.kw.all fun (k, oa) =>
        if oa == Origin.param nm_self then true else
        match b.kw.lookup k with
        | none => false
        | some ob =>
          if oa == ob then true
          else match oa, ob with
            | .star, _ => true
            | _, .star => true
            | .param pa, .param pb => defaultOf em pa == defaultOf en pb
            | .param pa, o => constMatches (defaultOf em pa) o
            | o, .param pb => constMatches (defaultOf en pb) o
            | _, _ => false
    | _, _ => false
  | _, _ => true

/-- parameters of an entry point that reach the core (as origins in the resolved keyword map) -/
def forwarded (tg : Except Err Target) : List Name :=
  match tg with
  | .ok a => a.kw.filterMap fun e => match e.2 with | .param p => some p | _ => none
  | .error _ => []

/-- (3) no spelling silently drops a parameter that a sibling forwards under the same name: the list of
(operation, parameter) where it does -/
def droppedViolations (t : List Entry) (cls : Name) (shared : List Name) : List (Name × Name) :=
  shared.flatMap fun op =>
    match nsEntry t op with
    | none => []
    | some en =>
      if en.dropped.isEmpty then [] else
      let sib := forwarded (resolveMethod t cls op)
      (en.dropped.filter fun p => sib.contains p).map fun p => (op, p)

/-! ### the NEP-18 spelling: NumPy's calling convention against the signature reached by name -/

/-- the entry that `np.<f>(x, …)` reaches BY NAME (the namespace function if there is one, else the callable attribute of
the type), and whether it is called as `type(self).name(x, …)` (the first positional argument is `self`) -/
def nep18Entry (t : List Entry) (cls : Name) (mpath : List Name) (name : Name) : Option (Entry × Bool) :=
  match nep18 (genEnv t cls) false true true mpath name 2 0 with
  | .callNamespace => (nsEntry t name).map fun e => (e, false)
  | .callTypeAttr => (classEntry t cls name).bind fun e => if entryCallable e then some (e, true) else none
  | _ => none

/-- the method the `_binds` step falls back to (only if the source has that step and the by-name target is the namespace
function) -/
def fallbackEntry (t : List Entry) (cls name : Name) (viaType : Bool) : Option Entry :=
  if nep18BindFallback && !viaType then (classEntry t cls name).bind fun e => if entryCallable e then some e else none else none

/-- the parameter names under which the library knows the operation `name`: the method's and the namespace function's -/
def vocabulary (t : List Entry) (cls name : Name) : List Name :=
  ((classEntry t cls name).map (·.sig.params)).getD [] ++ ((nsEntry t name).map (·.sig.params)).getD []

/-- the ways NumPy's own signature offers its parameters -/
def numpyWays (s : Sig) : List (Name × Way) :=
  (s.positional.zipIdx.map fun (p, i) => (p, Way.pos i)) ++ ((s.pos ++ s.kwonly).map fun p => (p, Way.kw p))

/-- one probe: NumPy parameter `param` passed the way `way` to `np.<pub>` (dispatch name `name`, module path `mpath`) -/
structure Probe where
  pub : Name
  mpath : List Name
  name : Name
  param : Name
  way : Way
  deriving Repr, DecidableEq

/-- outcome of a probe on the by-name target: `accepted` (bound to the parameter of the same name), `rejected`
(TypeError from argument binding), `misbound q` (lands in a parameter with another name), `catchAll` (`*args`/`**kwargs`) -/
inductive ProbeResult where
  | accepted | rejected | misbound (q : Name) | catchAll
  deriving Repr, DecidableEq

/-- bind one probe at a signature -/
def probeAt (sg : Sig) (param : Name) (way : Way) : ProbeResult :=
  match bindArg sg way with
  | .error _ => .rejected
  | .ok .varargs => .catchAll
  | .ok .varkw => .catchAll
  | .ok (.param q) =>
    if q == param then .accepted
    else match way with
      | .pos 0 => .accepted            -- the array operand itself, whatever it is called
      | _ => .misbound q

def ProbeResult.ok : ProbeResult → Bool
  | .accepted => true
  | .catchAll => true
  | _ => false

/-- a probe at the by-name target, with the fallback of the `_binds` step: if the target does not take the argument and the
method of the same name does, the method is called -/
def probeWith (sg : Sig) (fb : Option Entry) (param : Name) (way : Way) : ProbeResult :=
  let primary := probeAt sg param way
  if primary.ok then primary else
  match fb with
  | some em => let r := probeAt (callSig em true) param way; if r.ok then r else primary
  | none => primary

def probe (t : List Entry) (cls : Name) (pr : Probe) : Option ProbeResult :=
  (nep18Entry t cls pr.mpath pr.name).map fun (e, viaType) =>
    probeWith (callSig e viaType) (fallbackEntry t cls pr.name viaType) pr.param pr.way

/-- the probes of one NumPy function with their outcomes: every parameter of NumPy's signature that is in the
library's vocabulary for that name × every way NumPy offers it (the by-name target is looked up once) -/
def probesOf (t : List Entry) (cls : Name) (f : Name × List Name × Name × Sig) : List (Probe × ProbeResult) :=
  let (pub, mpath, name, s) := f
  match nep18Entry t cls mpath name with
  | none => []
  | some (e, viaType) =>
    let voc := vocabulary t cls name
    let sg := callSig e viaType
    let fb := fallbackEntry t cls name viaType
    ((numpyWays s).filter fun (p, w) => w == Way.pos 0 || voc.contains p).map fun (p, w) =>
      ({ pub := pub, mpath := mpath, name := name, param := p, way := w }, probeWith sg fb p w)

/-- all probes, for every NumPy function the library answers to -/
def probes (t : List Entry) (cls : Name) : List (Probe × ProbeResult) := numpySigs.flatMap (probesOf t cls)

/-- region of finding F-nep18-signature: the argument is rejected or bound to another parameter BY ARGUMENT BINDING at
the function that `__array_function__` reached by name; a structural property of two signatures, not a list of names -/
def ExcludedNep18 : ProbeResult → Bool
  | .rejected => true
  | .misbound _ => true
  | _ => false

/-- accepted keyword probes whose value does NOT reach, through the by-name target, the core keyword that the
method's parameter of that name reaches (so that `np.f(x, k=v)` would not mean what `x.f(k=v)` means) -/
def kwInconsistent (t : List Entry) (cls : Name) (ps : List (Probe × ProbeResult)) : List Probe :=
  (ps.filter fun (pr, res) =>
    match pr.way, res with
    | .kw p, .accepted =>
      match nep18Entry t cls pr.mpath pr.name with
      | some (_, true) => false       -- it IS the method
      | some (e, false) =>
        if !(probeAt e.sig p pr.way).ok then false else   -- taken by the method through the `_binds` step
        match classEntry t cls pr.name with
        | none => false
        | some em =>
          if !entryCallable em || !em.sig.params.contains p then false else
          match follow t cls followFuel e Origin.param, resolveMethod t cls pr.name with
          | .ok a, .ok b =>
            (a.kw.filter (fun x => x.2 == Origin.param p)).map (·.1) != (b.kw.filter (fun x => x.2 == Origin.param p)).map (·.1)
          | _, _ => true
      | none => false
    | _, _ => false).map (·.1)

/-- ufunc spellings: a name of the namespace that is a NumPy ufunc, the ufunc call, the operator special methods
of the mixin (forward and reflected) and — for the reductions written with `np.<ufunc>.reduce` — the method all end at
the same core -/
def ufuncSpellingsAgree (t : List Entry) (cls : Name) : Bool :=
  (nsIndex.all fun (op, i) =>
    match t[i]? with
    | some e =>
      if e.kind != .ufunc then true else
      match e.fwd with
      | .ufuncCall u _ => coreOf (resolve t cls (.namespaceFn op)) == coreOf (resolve t cls (.ufuncCall u))
      | _ => false
    | none => false) &&
  (operatorTable.all fun (d, u, role) =>
    role == nm_inplace || coreOf (resolve t cls (.operator d)) == coreOf (resolve t cls (.ufuncCall u))) &&
  (((classIndex.lookup nm_SparseArray).getD []).all fun (op, i) =>
    match t[i]? with
    | some e =>
      (match e.fwd with
       | .ufuncReduce u _ => e.kind != .method || coreOf (resolve t cls (.method op)) == coreOf (resolve t cls (.ufuncReduce u))
       | _ => true)
    | none => false)

/-- everything the statement needs to know about one class, computed once -/
structure Report where
  coreBad : List Name                     -- shared names whose spellings end at different cores / do not resolve
  kwBad : List Name                       -- shared names whose keyword maps disagree
  dropped : List (Name × Name)            -- (operation, parameter) silently dropped although a sibling forwards it
  probes : List (Probe × ProbeResult)     -- the NEP-18 probes with their outcome
  kwIncons : List Probe                   -- accepted keywords that reach another core keyword than the method's
  ufuncOk : Bool
  deriving Repr

def report (t : List Entry) (cls : Name) : Report :=
  let shared := sharedOps t cls
  let ps := probes t cls
  { coreBad := shared.filter fun op => !coreAgrees t cls op,
    kwBad := shared.filter fun op => !kwAgrees t cls op,
    dropped := droppedViolations t cls shared,
    probes := ps,
    kwIncons := kwInconsistent t cls ps,
    ufuncOk := ufuncSpellingsAgree t cls }

/-- the full statement on a report -/
def Report.fullOk (r : Report) : Bool :=
  r.coreBad.isEmpty && r.kwBad.isEmpty && r.dropped.isEmpty && r.probes.all (fun e => e.2.ok) && r.kwIncons.isEmpty && r.ufuncOk

/-- the statement outside the excluded regions -/
def Report.partialOk (r : Report) : Bool :=
  r.coreBad.isEmpty && r.kwBad.isEmpty && r.dropped.isEmpty &&
  r.probes.all (fun e => e.2.ok || ExcludedNep18 e.2) && r.kwIncons.isEmpty && r.ufuncOk

/-- the NEP-18 violations of a report: the extent of finding F-nep18-signature on this tree -/
def Report.nep18Violations (r : Report) : List (Probe × ProbeResult) := r.probes.filter fun e => !e.2.ok

end SparseV.Dispatch

/- witness data of `C17.spellings_agree_counterexample` (kept with the model so that the driver does not import the property file) -/
namespace SparseV.C17
open SparseV SparseV.Gen SparseV.Dispatch

/-- the witness of F-nep18-signature: `np.var(x, ddof=1)` -/
def witnessDdof : Probe := { pub := nm_numpy_var, mpath := [], name := nm_var, param := nm_ddof, way := Way.kw nm_ddof }

/-- is the witness a violation on table `t` (evaluated by the model driver on every run; today: true) -/
def witnessActive (t : List Entry) : Bool :=
  (probes t nm_COO).any fun e => e.1 == witnessDdof && !e.2.ok


end SparseV.C17

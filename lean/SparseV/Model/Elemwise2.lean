/-
  SparseV.Model.Elemwise2 — the matched / unmatched mask algorithm of `_Elemwise.get_result`
  for two sparse operands of equal (already broadcast) shape: three pieces
  (both stored; only the first stored; only the second stored), each pruned against the result fill.
-/
import SparseV.Model.Coo
namespace SparseV
namespace COO
variable {α β γ : Type}

/-- mask (True, True): coordinates stored by both operands -/
def matched (f : α → β → γ) (A : List (Idx × α)) (B : List (Idx × β)) : List (Idx × γ) :=
  A.filterMap fun e => match B.find? (fun b => b.1 == e.1) with
    | some b => some (e.1, f e.2 b.2) | none => none
/-- mask (True, False): stored by the first operand only; the second contributes its fill value -/
def aOnly (f : α → β → γ) (fb : β) (A : List (Idx × α)) (B : List (Idx × β)) : List (Idx × γ) :=
  A.filterMap fun e => if (B.map (·.1)).contains e.1 then none else some (e.1, f e.2 fb)
/-- mask (False, True) -/
def bOnly (f : α → β → γ) (fa : α) (A : List (Idx × α)) (B : List (Idx × β)) : List (Idx × γ) :=
  B.filterMap fun e => if (A.map (·.1)).contains e.1 then none else some (e.1, f fa e.2)

/-- concatenate the pieces and drop every value equal to the result fill `f fa fb` -/
def elemwise2 [DecidableEq γ] (f : α → β → γ) (A : List (Idx × α)) (fa : α) (B : List (Idx × β)) (fb : β) :
    List (Idx × γ) :=
  ((matched f A B) ++ (aOnly f fb A B) ++ (bOnly f fa A B)).filter (fun e => e.2 ≠ f fa fb)

end COO
end SparseV

/-
  SparseV.Model.Join — joining and structural extraction on COO (`_coo/common.py`):
  concatenate, stack, triu, tril, diagonal, diagonalize.
-/
import SparseV.Model.Coo
namespace SparseV
namespace COO
variable {α : Type}

/-- `concatenate(arrays, axis)` after validation (equal shapes off-axis, equal fills): every
member's coordinates are shifted along `axis` by the total extent of the members before it;
`sorted=(axis == 0)` -/
def concatCore (x0 : COO α) (rest : List (COO α)) (axis : Nat) : COO α :=
    let xs := x0 :: rest
    let rec go (ys : List (COO α)) (off : Nat) : List (Idx × α) × Nat :=
      match ys with
      | [] => ([], off)
      | y :: rest =>
        let here := mapIdx (fun i => i.set axis (i.getD axis 0 + off)) y.entries
        let r := go rest (off + y.shape.getD axis 0)
        (here ++ r.1, r.2)
    let r := go xs 0
    let shape := x0.shape.set axis r.2
    { shape := shape, entries := if axis = 0 then r.1 else sortEntries shape r.1, fill := x0.fill }

/-- `stack(arrays, axis)`: a new coordinate (the member number) inserted at `axis` -/
def stackCore (x0 : COO α) (rest : List (COO α)) (axis : Nat) : COO α :=
    let xs := x0 :: rest
    let es := (List.zip (List.range xs.length) xs).flatMap fun p =>
      mapIdx (fun i => insertAt i axis p.1) p.2.entries
    let shape := insertAt x0.shape axis xs.length
    { shape := shape, entries := if axis = 0 then es else sortEntries shape es, fill := x0.fill }

/-- `triu(x, k)`: keep `c[-2] + k ≤ c[-1]`; claims `sorted=True`; fill must be zero -/
def triuCore (x : COO Int) (k : Int) : COO Int :=
  let n := x.shape.length
  { shape := x.shape, fill := 0,
    entries := x.entries.filter fun e => decide ((e.1.getD (n - 2) 0 : Int) + k ≤ (e.1.getD (n - 1) 0 : Int)) }

def trilCore (x : COO Int) (k : Int) : COO Int :=
  let n := x.shape.length
  { shape := x.shape, fill := 0,
    entries := x.entries.filter fun e => decide ((e.1.getD (n - 2) 0 : Int) + k ≥ (e.1.getD (n - 1) 0 : Int)) }

/-- `diagonal(a, offset, axis1, axis2)` with normalised axes and `shape[axis1] = shape[axis2]`:
the other axes in order, then the position along the diagonal (row index for `offset ≥ 0`,
column index below the main diagonal); constructor with default flags -/
def diagonalCore [Add α] [DecidableEq α] (x : COO α) (offset : Int) (a1 a2 : Nat) : COO α :=
  let n := x.shape.length
  let pos := if offset ≥ 0 then a1 else a2
  let axes := ((List.range n).filter fun a => a ≠ a1 ∧ a ≠ a2) ++ [pos]
  let shape0 := gather x.shape axes
  let shape := shape0.set (shape0.length - 1) ((shape0.getD (shape0.length - 1) 0 : Int) - (offset.natAbs : Int)).toNat
  let sel := x.entries.filter fun e => decide ((e.1.getD a1 0 : Int) + offset = (e.1.getD a2 0 : Int))
  COO.build shape (mapIdx (gather · axes) sel) x.fill

/-- `diagonalize(a, axis)`: append a copy of coordinate `axis`; zero fill only -/
def diagonalizeCore [Add α] [DecidableEq α] (x : COO α) (axis : Nat) : COO α :=
  COO.build (x.shape ++ [x.shape.getD axis 0]) (mapIdx (fun i => i ++ [i.getD axis 0]) x.entries) x.fill

end COO
end SparseV

/-
  SparseV.Model.GcxsIndex — GCXS indexing (`_compressed/indexing.py`, helpers of `_compressed/convert.py`).

  * `arrayRow` / `arraySelection`   — `get_array_selection` (indexing.py 286-312): one binary search per requested column
  * `slicingSelection`              — `get_slicing_selection` (indexing.py 223-283): the fuel model of `SparseV.Loops`
                                      (linear filter / binary search with a shrinking window), whose termination and
                                      memory safety are property C18's theorems; here its VALUE is used
  * `convertToFlat`                 — `convert_to_flat` + `compute_flat` + `transform_shape` (convert.py 13-78)
  * `isSortedArr`                   — `is_sorted` (convert.py 90-101)
  * `GCXS.getitemCore`              — `_getitem` (indexing.py 67-220) for a normalised key without `None`,
                                      `get_single_element` (indexing.py 315-329) included
  Core Lean only (linked into `svdriver`).
-/
import SparseV.Model.Gcxs
import SparseV.Model.Getitem
import SparseV.Model.Loops
namespace SparseV
namespace GIx

/-- `arr[start:end]` -/
def rowSlice {β : Type} (l : List β) (start stop : Nat) : List β := (l.take stop).drop start

/-! ### the two selection kernels -/

/-- the `for c in range(len(col))` loop of `get_array_selection` on one row:
```
s = np.searchsorted(current_row, col[c])
if not (s >= current_row.size or current_row[s] != col[c]): inds.append(s + start); indices.append(c)
```
result: (position in the row, position in `col`) -/
def arrayRowAux (row : List Nat) : Nat → List Nat → List (Nat × Nat)
  | _, [] => []
  | c, v :: vs =>
    let s := Loops.searchsorted row v
    if s < row.length ∧ row.getD s 0 = v then (s, c) :: arrayRowAux row (c + 1) vs
    else arrayRowAux row (c + 1) vs

/-- one row of `get_array_selection` (`if len(current_row) == 0: continue`) -/
def arrayRow (row col : List Nat) : List (Nat × Nat) :=
  if row.length = 0 then [] else arrayRowAux row 0 col

/-- what both kernels return: positions into `arr_data` (`ind_list`), the new column numbers
(`indices` = positions in `col`) and the new `indptr` -/
structure Sel where
  indList : List Nat
  indices : List Nat
  indptr : List Nat
  deriving Repr, DecidableEq

/-- `indptr[i + 1] = indptr[i] + len(inds)` -/
def cumLens : Nat → List Nat → List Nat
  | _, [] => []
  | acc, n :: ns => (acc + n) :: cumLens (acc + n) ns

/-- the outer `for i, (start, end) in enumerate(zip(starts, ends))` loop, given the per-row selections -/
def assemble (sels : List (Nat × List (Nat × Nat))) : Sel :=
  { indList := sels.flatMap fun p => p.2.map fun q => q.1 + p.1,
    indices := sels.flatMap fun p => p.2.map (·.2),
    indptr := 0 :: cumLens 0 (sels.map fun p => p.2.length) }

/-- `get_array_selection(arr_data, arr_indices, indptr, starts, ends, col)` -/
def arraySelection (indices : List Nat) (rows : List (Nat × Nat)) (col : List Nat) : Sel :=
  assemble (rows.map fun p => (p.1, arrayRow (rowSlice indices p.1 p.2) col))

/-- `get_slicing_selection(…)`: the loops are those of `SparseV.Loops` (reads outside an array and an
exhausted step budget are failures there; property C18 proves neither happens under the caller's guard) -/
def slicingSelection (indices : List Nat) (rows : List (Nat × Nat)) (col : List Nat) : Except Err Sel :=
  match Loops.slicingSelection none indices.toArray rows col.toArray with
  | .done il ix ptr => .ok { indList := il, indices := ix, indptr := ptr }
  | .outOfFuel => .error .hang
  | .oob => .error .internal

/-! ### `convert_to_flat` -/

/-- `transform_shape`: `(5,5,5) ↦ [25,5,1]` -/
def strides : List Nat → List Nat
  | [] => []
  | _ :: ds => prod ds :: strides ds

/-- `compute_flat` on the per-axis increments: every combination, the last axis fastest
(the odometer over `positions`), each the sum of its increments -/
def flatGo : List (List Nat) → List Nat
  | [] => [0]
  | inc :: rest => inc.flatMap fun a => (flatGo rest).map (a + ·)

/-- `convert_to_flat(inds, shape, dtype)`: the linearised positions selected by per-axis index arrays -/
def convertToFlat (inds : List (List Nat)) (shape : List Nat) : List Nat :=
  flatGo ((inds.zip (strides shape)).map fun p => p.1.map (· * p.2))

/-- `is_sorted`: strictly ascending -/
def isSortedArr : List Int → Bool
  | a :: b :: rest => !(decide (b ≤ a)) && isSortedArr (b :: rest)
  | _ => true

/-! ### `_getitem` -/

/-- the entry consumes a result axis (it is not an integer) -/
def keyOut : NIx → Bool
  | .int _ => false
  | _ => true

/-- `np.arange(start, stop, step)` of a normalised slice with `n = len(range(start, stop, step))` elements -/
def arange (a s : Int) (n : Nat) : List Nat := (List.range n).map fun (t : Nat) => (a + (t : Int) * s).toNat

/-- the index array `_getitem` turns a key entry into (`np.array([ind])`, `np.arange(…)`, the array itself) -/
def keyArr : NIx → List Nat
  | .int n => [n.toNat]
  | .slice a b s => arange a s (sliceLen a b s)
  | .arr xs => xs.map Int.toNat
  | .newaxis => []

/-- the integer an all-integer key holds at an axis -/
def keyInt : NIx → Nat
  | .int v => v.toNat
  | _ => 0

/-- the `pos_slice` test on the entries of the uncompressed axes -/
def posSliceOf (ukeys : List NIx) : Bool :=
  ukeys.all fun k => match k with
    | .slice _ _ s => decide (0 ≤ s)
    | .arr xs => isSortedArr xs
    | _ => true

/-- sublist selected by a Boolean mask (`a[mask]`) -/
def sel {β : Type} : List Bool → List β → List β
  | b :: m, x :: xs => if b then x :: sel m xs else sel m xs
  | _, _ => []

/-- `shape_key[compressed_inds]`: the running `count` of the non-integer entries that sit on a compressed axis -/
def newCaxes : Nat → List NIx → List Bool → List Nat
  | c, k :: ks, b :: bs =>
    if keyOut k then (if b then c :: newCaxes (c + 1) ks bs else newCaxes (c + 1) ks bs)
    else newCaxes c ks bs
  | _, _, _ => []

/-- **Well-formed CSR triple** of an `R × C` matrix: `indptr` has `R + 1` entries, starts at 0, is monotone and ends at
`nnz = len(indices) = len(data)`; the column numbers of each row `indices[indptr[r]:indptr[r+1]]` are strictly
increasing; every column number is `< C`. -/
def CsrWF (R C : Nat) (indptr indices : List Nat) (nData : Nat) : Prop :=
  indptr.length = R + 1 ∧ indptr.getD 0 0 = 0 ∧ indptr.getD R 0 = indices.length ∧ nData = indices.length ∧
  (∀ r, r < R → indptr.getD r 0 ≤ indptr.getD (r + 1) 0) ∧
  (∀ r, r < R → (rowSlice indices (indptr.getD r 0) (indptr.getD (r + 1) 0)).Pairwise (· < ·)) ∧
  (∀ c ∈ indices, c < C)

instance (R C : Nat) (indptr indices : List Nat) (nData : Nat) : Decidable (CsrWF R C indptr indices nData) := by
  unfold CsrWF; infer_instance

inductive GResult where
  | arr (g : GCXS Int)
  | scalar (v : Int)
  deriving Repr

end GIx

namespace GCXS
open GIx

/-- number of rows of the CSR view: product of the extents of the compressed axes -/
def csrR (shape caxes : List Nat) : Nat :=
  prod ((COO.gather shape (axisOrder shape.length caxes)).take caxes.length)
/-- number of columns of the CSR view: product of the other extents -/
def csrC (shape caxes : List Nat) : Nat :=
  prod ((COO.gather shape (axisOrder shape.length caxes)).drop caxes.length)

/-- **Well-formed n-d GCXS array** (`ndim ≥ 2`): `compressed_axes` is a non-empty, strictly increasing list of
axis numbers that leaves at least one axis uncompressed (`check_compressed_axes`), and `(indptr, indices, data)` is a
well-formed CSR triple of the `csrR × csrC` view. -/
def WF (g : GCXS Int) : Prop :=
  match g.caxes with
  | none => False
  | some c => c ≠ [] ∧ c.length < g.shape.length ∧ c.Pairwise (· < ·) ∧ (∀ a ∈ c, a < g.shape.length) ∧
      CsrWF (csrR g.shape c) (csrC g.shape c) g.indptr g.indices g.data.length

instance (g : GCXS Int) : Decidable g.WF := by
  unfold WF; split <;> infer_instance

/-- **Well-formed 1-d GCXS array**: no index pointers, strictly increasing in-range positions, one value each -/
def WF1 (g : GCXS Int) : Prop :=
  g.caxes = none ∧ g.shape.length = 1 ∧ g.data.length = g.indices.length ∧ g.indices.Pairwise (· < ·) ∧
  ∀ c ∈ g.indices, c < g.shape.getD 0 0

instance (g : GCXS Int) : Decidable g.WF1 := by unfold WF1; infer_instance

/-- the 2-d problem `_getitem` reduces a key to: `rows`, `cols` (`convert_to_flat` of the reordered key) and `pos_slice` -/
def keyRowsCols (shape caxes : List Nat) (key : List NIx) : List Nat × List Nat × Bool :=
  let order := axisOrder shape.length caxes
  let rshape := COO.gather shape order
  let ap := caxes.length
  let rkey := order.map fun a => key.getD a (.int 0)
  let arrs := rkey.map keyArr
  (convertToFlat (arrs.take ap) (rshape.take ap), convertToFlat (arrs.drop ap) (rshape.drop ap),
   posSliceOf (rkey.drop ap))

/-- the selection step of `_getitem` on the CSR triple: `starts`/`ends` of the requested rows, one of the two
kernels, `data = arr_data[ind_list]` -/
def select (g : GCXS Int) (rows cols : List Nat) (posSlice : Bool) : Except Err (Sel × List Int) := do
  let se := rows.map fun r => (g.indptr.getD r 0, g.indptr.getD (r + 1) 0)
  let s ← if posSlice then slicingSelection g.indices se cols else pure (arraySelection g.indices se cols)
  pure (s, s.indList.map fun p => g.data.getD p 0)

/-- the post-processing shared by the "only compressed axes" and "only uncompressed axes" cases of `_getitem`:
`pos` are the linear positions (row-major in `shape`) of the selected elements, in increasing order.
```
if len(shape) == 1: indices = pos; indptr = None
else: indices = pos % size; indptr[0] = 0; np.cumsum(np.bincount(pos // size, minlength=shape[0]), out=indptr[1:])
```
with `size = np.prod(shape[1:])`; the result is `GCXS((data, indices, indptr), shape, compressed_axes=(0,))`
(`compressed_axes=None` for a 1-d result). -/
def vecResult (shape : List Nat) (pos : List Nat) (data : List Int) (fill : Int) : GCXS Int :=
  let size := prod (shape.drop 1)
  if shape.length = 1 then
    { shape := shape, caxes := none, indptr := [], indices := pos, data := data, fill := fill }
  else
    { shape := shape, caxes := some [0], indptr := indptrOf (pos.map (· / size)) (shape.getD 0 0),
      indices := pos.map (· % size), data := data, fill := fill }

/-- `get_single_element` -/
def getSingle (g : GCXS Int) (caxes : List Nat) (key : List NIx) : Int :=
  let order := axisOrder g.shape.length caxes
  let rshape := COO.gather g.shape order
  let C := prod (rshape.drop caxes.length)
  let rk := order.map fun a => keyInt (key.getD a (.int 0))      -- `np.array(key)[x._axis_order]`
  let lin := ravel rk rshape
  let row := lin / C
  let col := lin % C
  let st := g.indptr.getD row 0
  let cur := rowSlice g.indices st (g.indptr.getD (row + 1) 0)
  let item := Loops.searchsorted cur col
  if item < cur.length ∧ cur.getD item 0 = col then g.data.getD (item + st) 0 else g.fill

/-- `_getitem(x, key, orig_key)` for `x.ndim ≥ 2` and a normalised `key` (integers, slices, index arrays; the
`None` entries are taken out by `getitem` before the call). -/
def getitemCore (g : GCXS Int) (key : List NIx) : Except Err GResult :=
  match g.caxes with
  | none => .error .internal           -- `getitem` sends 0-d / 1-d arrays through COO
  | some caxes =>
    if key.all (fun k => !keyOut k) then .ok (.scalar (g.getSingle caxes key)) else
    let n := g.shape.length
    let cm := (List.range n).map fun a => caxes.contains a     -- `i in x.compressed_axes`
    let shape := (key.filter keyOut).map fun k => (keyArr k).length
    let anyC := (key.zip cm).any fun p => keyOut p.1 && p.2          -- `np.any(compressed_inds)`
    let anyU := (key.zip cm).any fun p => keyOut p.1 && !p.2         -- `np.any(uncompressed_inds)`
    let (rows, cols, posSlice) := keyRowsCols g.shape caxes key
    match g.select rows cols posSlice with
    | .error e => .error e
    | .ok (s, data) =>
      if !anyU then
        -- only compressed axes are indexed: every row holds at most the one requested column; the row numbers
        -- (`uncompress_dimension(indptr)`) are the linear positions in the result
        .ok (.arr (vecResult shape (uncompress s.indptr) data g.fill))
      else if !anyC then
        -- only uncompressed axes are indexed: one row, whose column positions are the linear positions
        .ok (.arr (vecResult shape s.indices data g.fill))
      else
        .ok (.arr { shape := shape, caxes := some (newCaxes 0 key cm), indptr := s.indptr, indices := s.indices,
                    data := data, fill := g.fill })

/-- `getitem(x, key)` for `x.ndim ≥ 2` after `normalize_index`, for keys without `None` and with at most one
index array: the full-slice shortcut (`return x`), else `_getitem` -/
def getitemN (g : GCXS Int) (key : List NIx) : Except Err GResult :=
  if isFullIndex key g.shape then .ok (.arr g) else g.getitemCore key

/-- `x[idx]` for a GCXS array with `x.ndim ≥ 2` and a user index without `None` and with at most one index
array (the paths of `getitem` that stay inside `_compressed/indexing.py`); the other paths go through COO
(`notImplemented` here: they are not part of this model). -/
def getitem (g : GCXS Int) (idx : List IxE) : Except Err GResult := do
  if g.shape.length < 2 then throw .notImplemented
  let n ← normalizeIndex idx g.shape
  if isFullIndex n g.shape then return .arr g
  if (n.filter fun k => match k with | .arr _ => true | _ => false).length > 1 then throw .notImplemented
  if n.any (fun k => match k with | .newaxis => true | _ => false) then throw .notImplemented
  if n.all (fun k => !keyOut k) ∧ idx.any IxE.isEllipsis then throw .notImplemented
  g.getitemCore n

end GCXS
end SparseV

/-
  SparseV.Model.Cost — a cost semantics on the model (property C16).

  For every modelled operation `op`, `opCost : inputs → Nat` is the number of array cells the algorithm
  *in the code* writes: the sum of the lengths of all intermediate arrays it allocates (each list cell of
  the model is one cell), plus — for the in-place kernels — the cells of scratch arrays that are re-written
  (`next_[temp] = -1; sums[temp] = 0` once per touched column in `_dot_csr_csr`).  The transcription is next to
  each definition.
  Sizes are taken from the model itself (`nnz` of the model's result, lengths of the model's lists), so the
  cost of an input is computed by running the model on it — also on shapes whose dense form cannot exist.

  Unit: one cell = one stored number.  A COO array with `n` stored elements in `d` dimensions occupies
  `(d + 1) · n` cells (`coords` is `d × n`, `data` is `n`): `COO.cells`.

  `Props/C16.lean` bounds every cost by `K · (cells in + cells out + Σ shape + ndim)`, or, where that is
  false of the code, proves that no `K` works.
-/
import SparseV.Model.Coo
import SparseV.Model.Getitem
import SparseV.Model.Elemwise2
import SparseV.Model.Reduce
import SparseV.Model.Join
import SparseV.Model.Convert
import SparseV.Model.Big
namespace SparseV

/-- Σ shape -/
def lsum : List Nat → Nat
  | [] => 0
  | d :: ds => d + lsum ds

namespace COO
variable {α : Type}
/-- cells occupied by a COO array: `coords` (ndim × nnz) and `data` (nnz) -/
def cells (x : COO α) : Nat := (x.shape.length + 1) * x.nnz
/-- the linear part of the size of an array: Σ shape + ndim -/
def frame (x : COO α) : Nat := lsum x.shape + x.shape.length
end COO

namespace GCXS
variable {α : Type}
/-- cells occupied by a GCXS array: `indptr`, `indices`, `data` -/
def cells (g : GCXS α) : Nat := g.indptr.length + g.indices.length + g.data.length
end GCXS

namespace Cost
variable {α : Type}

/-- `COO._sort_indices` on `d × n` coordinates: `linear_loc` (n), `np.diff(linear) >= 0` (n),
`argsort` (n), `coords[:, order]` (d·n), `data[order]` (n) -/
def sort (d n : Nat) : Nat := n + n + n + d * n + n

/-- `COO._sum_duplicates`: `linear_loc` (n), `unique_mask` (n), `np.append(True, …)` (n), `coords[:, mask]` (d·n),
`nonzero` (n), `reduceat` (n) -/
def sumDup (d n : Nat) : Nat := n + n + n + d * n + n + n

/-- `COO._prune`: the mask (n), `coords[:, mask]` (d·m), `data[mask]` (m) for `m` survivors -/
def prune (d n m : Nat) : Nat := n + d * m + m

/-- the constructor's passes as driven by its flags on `n` entries, `m` of which survive pruning -/
def ctor (d n m : Nat) (sorted hasDup prune : Bool) : Nat :=
  (if sorted then 0 else sort d n) + (if hasDup then sumDup d n else 0) + (if prune then Cost.prune d n m else 0)

/-- `COO.transpose`: `self.coords[axes, :]` (d·n), then the constructor sorts (`has_duplicates=False`) -/
def transpose (x : COO α) (axes : List Nat) : Nat :=
  if axes = List.range x.shape.length then 0 else
  x.shape.length * x.nnz + sort x.shape.length x.nnz

/-- `COO.reshape`: `linear_loc` (n), `np.empty((len(shape), nnz))` filled row by row (d'·n);
`sorted=True, has_duplicates=False` -/
def reshape (x : COO α) (shape : List Nat) : Nat :=
  if x.shape = shape then 0 else x.nnz + shape.length * x.nnz

/-- `flip`: `x.coords.copy()` (d·n), one row per flipped axis (k·n), constructor with default flags (sort + sum_duplicates) -/
def flip (x : COO α) (axes : List Nat) : Nat :=
  x.shape.length * x.nnz + axes.length * x.nnz + sort x.shape.length x.nnz + sumDup x.shape.length x.nnz

/-- `roll`: `np.copy(coords)` (d·n), `np.copy(data)` (n), two row updates per axis (2k·n), constructor sorts -/
def roll (x : COO α) (axes : List Nat) : Nat :=
  x.shape.length * x.nnz + x.nnz + 2 * axes.length * x.nnz + sort x.shape.length x.nnz

/-- `squeeze`: `self.coords[keep]` ((d-k)·n) -/
def squeeze (x : COO α) (axes : List Nat) : Nat := (COO.dropAxes x.shape axes).length * x.nnz

/-- `expand_dims`: `np.insert(coords, pos, zeros)`: ((d+1)·n) plus the zero row (n) -/
def expandDims (x : COO α) : Nat := (x.shape.length + 1) * x.nnz + x.nnz

/-- `_compute_mask` for basic indices on `d × n` sorted coordinates.  Per axis either the pair lists
(`starts`, `stops`: at most one pair per selected run, and the guard
`n_current_slices · log(…) ≤ n_matches + n_pairs` bounds the binary searches by `n + n`) or the final linear
filter (mask of at most `n`) — at most `2·n` cells per axis and `n` for the mask.  This is an upper bound of
the cells written, not an exact count (the guard involves a floating-point logarithm). -/
def mask (d n : Nat) : Nat := d * (2 * n) + n

/-- `getitem` with integers, slices, `None`: the mask, then one output coordinate row per slice/None
(`(coords[i, mask] - start) // step`: m each), `data[mask]` (m), and a sort when a step is negative -/
def getitemBasic (x : COO α) (idx : List NIx) (r : COO α) : Nat :=
  mask x.shape.length x.nnz + (r.shape.length + 1) * r.nnz +
  (if hasNegStep idx then sort r.shape.length r.nnz else 0)

/-- `getitem` with one advanced (integer array) index of length `L`: `_compute_multi_mask` runs `_compute_mask` once
per entry of the array (`L` times on the full coordinates), then the output rows as above plus the constructor's sort
when the array is not the leading index. -/
def getitemAdv (x : COO α) (idx : List NIx) (L : Nat) (r : COO α) : Nat :=
  L * mask x.shape.length x.nnz + 2 * r.nnz + (r.shape.length + 1) * r.nnz + sort r.shape.length r.nnz

/-- unary element-wise function: `func(data)` (n), fill, prune mask (n), `coords[:, mask]` (d·m), `data[mask]` (m) -/
def elemwise1 (x r : COO α) : Nat := x.nnz + x.nnz + (x.shape.length + 1) * r.nnz

/-- binary element-wise function on two COO operands of equal shape (`_Elemwise._get_func_coords_data` for the
three masks): linear locations of both (nA + nB), `_match_arrays` index pairs (≤ 2·min), per mask the selected
coordinates and data and the function values; concatenation, then the constructor's sort of the pieces. -/
def elemwise2 (d nA nB nOut : Nat) : Nat :=
  (nA + nB) + 2 * (nA + nB) + 3 * ((d + 1) * (nA + nB)) + (d + 1) * nOut + sort d nOut

/-- a MIXED element-wise operation: one sparse operand with `n` stored elements in `d` dimensions, dense `ndarray` operands whose broadcast
shape AMONG THEMSELVES has `D` elements (`ndarray_shape`: the size of the dense operand when there is one), `m` stored elements in the
result.  `_get_fill_value` evaluates `func(fill, dense…)` once on the dense operands as they are (D) and compares it with the fill value
(`equivalent`: D); the only mask (sparse operand matched) gathers `np.broadcast_to(dense, shape)[coords]` — a zero-stride VIEW indexed at
the stored coordinates (n) —, applies the function (n), the prune mask (n), `coords[:, mask]` (d·m), `data[mask]` (m).  Nothing of the
size of the broadcast shape is written: the dense operand is never expanded to it. -/
def elemwiseMixed (d n m D : Nat) : Nat := D + D + n + n + n + d * m + m

/-- `reduce` over `axes`: transpose (kept axes first), reshape to 2-d, `_grouped_reduce` (`reduceat`: g groups; `counts`,
`inv_idx`: g each; the flag array: n), fill correction (g), 1-d result constructed with `prune=True`, reshape back. -/
def reduce (x : COO Int) (kept axes : List Nat) (g m : Nat) : Nat :=
  let t := x.transposeCore (kept ++ axes)
  transpose x (kept ++ axes) + reshape t [prod (kept.map fun d => x.shape.getD d 0), prod (axes.map fun d => x.shape.getD d 0)] +
  (x.nnz + 3 * g) + g + g + prune 1 g m + (m + kept.length * m) + (m + x.shape.length * m)

/-- `concatenate`: `np.concatenate` of data (N) and coords (d·N), the offset updates (N), constructor sorts unless `axis == 0` -/
def concat (d N : Nat) (axis : Nat) : Nat := N + d * N + N + (if axis = 0 then 0 else sort d N)

/-- `stack`: data (N), coords (d·N), the new coordinate row (N) and `np.insert`-style assembly ((d+1)·N), sort unless `axis == 0` -/
def stack (d N : Nat) (axis : Nat) : Nat := N + d * N + N + (d + 1) * N + (if axis = 0 then 0 else sort (d + 1) N)

/-- `triu`/`tril`: the mask (n), `coords[:, mask]` (d·m), `data[mask]` (m) -/
def tri (x r : COO α) : Nat := x.nnz + (x.shape.length + 1) * r.nnz

/-- `diagonal`: the mask (n), selected coordinates without the two axes plus the diagonal position ((d-1)·s), data (s),
constructor with default flags on the `s` selected entries -/
def diagonal (x : COO α) (s : Nat) : Nat :=
  x.nnz + (x.shape.length - 1) * s + s + sort (x.shape.length - 1) s + sumDup (x.shape.length - 1) s

/-- `_from_coo` (GCXS) with compressed axes `caxes`: `coords[axis_order]` (d·n), `linear_loc` (n), `argsort` (n),
`linear[order]` (n), the 2 × n coordinates, **`np.bincount(rows, minlength=row_size)` (row_size) and
`indptr = np.empty(row_size + 1)`**, `data[order]` (n).  `row_size` is the PRODUCT of the compressed extents. -/
def fromCoo (x : COO α) (caxes : List Nat) : Nat :=
  let rowSize := prod (COO.gather x.shape caxes)
  x.shape.length * x.nnz + x.nnz + x.nnz + x.nnz + 2 * x.nnz + rowSize + (rowSize + 1) + x.nnz

/-- `GCXS.tocoo`: `uncompress_dimension` (n), the 2 × n coordinates, constructor (sort + sum_duplicates on 2-d),
reshape to the reordered shape, transpose back -/
def tocoo (g : GCXS α) : Nat :=
  let n := g.data.length
  let d := g.shape.length
  n + 2 * n + sort 2 n + sumDup 2 n + (n + d * n) + (d * n + sort d n)

/-- `_dot_csr_csr` (and `_dot_coo_coo`, same structure) for an `nRow × nCol` result with `nnzOut` stored elements,
`work` = number of (a-entry, b-entry) products: `mask = np.full(n_col)` in the count pass (nCol), `indptr` (nRow+1),
`indices`/`data` (2·nnzOut), `next_ = np.full(n_col)`/`sums = np.zeros(n_col)` once, before the row loop (2·nCol), per
product `sums[k] += …` and at most one `next_[k] = head` (2·work), the emission loop, which restores
`next_[temp] = -1; sums[temp] = 0` for every column the row touched — at most one per product (2·work) — and the sort
of each emitted row (`argsort`, `indices[…][order]`, `data[…][order]`: 3·nnzOut; `_dot_coo_coo` writes its third
coordinate row instead and does not sort).  Nothing is written per (row, column) pair: the scratch arrays are
restored entry by entry, never wholesale. -/
def dotCsrCsr (nRow nCol nnzOut work : Nat) : Nat :=
  nCol + (nRow + 1) + 2 * nnzOut + 2 * nCol + 2 * work + 2 * work + 3 * nnzOut

end Cost
end SparseV

/-
  SparseV.Model.Create — executable model of the creation functions (`_common.py`: eye, full, zeros,
  ones, empty, *_like) and of the index sampling of `random` (`_utils.py`: random, algA, algD, reverse).
  Core Lean only: this file is linked into the `svdriver` executable.

  Ties.  `eye` is built from the GENERATED `Gen.eyeLen` / `Gen.eyeCoord`; the sampler selection of
  `random` is the GENERATED `Gen.randomBranch` (T1).  `algA`, `algD`, `reverse` are hand models (T2).

  Floating point.  Every floating-point decision of `algA` / `algD` is replaced by an ORACLE:
  * `algA`: the inner loop `while quot > V` is driven by a requested number of increments `r t : Nat`
    for the t-th sample; the only thing kept from the code is its own exit: when `top` reaches 0 the
    code computes `quot *= 0 / N`, i.e. `quot = 0`, and `0 > V` is false — so the skip is `min r top`.
    The last sample `S = intp(N * U)` is an arbitrary integer `last` of the oracle.
  * `algD`: a list of candidates `(S, accept)`; `S = intp(N * (1 - Vprime))` is arbitrary, the code's own
    integer guard `qu1 > S` is kept, the acceptance tests (`Vprime <= 1`, the `y1 * ...` comparison) are the
    Boolean.  A candidate that fails the guard or is rejected leads to the next candidate; an exhausted
    list is "did not terminate within the oracle" (`Err.hang`).
  * `random_state.choice(n, 1)` is an arbitrary integer `choice` of the oracle.
-/
import SparseV.Model.Basic
import SparseV.Model.Coo
import SparseV.Generated.Common
import SparseV.Generated.Utils
namespace SparseV
namespace Create

/-! ### full / zeros / ones / empty / *_like : empty storage plus a fill value -/

/-- `full(shape, fill_value)`: `COO(coords = empty (ndim, 0), data = empty (0,), shape, fill_value)` -/
def full {α : Type} (shape : List Nat) (v : α) : COO α := { shape := shape, entries := [], fill := v }
/-- `zeros(shape) = full(shape, 0)` -/
def zeros (shape : List Nat) : COO Int := full shape 0
/-- `ones(shape) = full(shape, 1)` -/
def ones (shape : List Nat) : COO Int := full shape 1
/-- `empty(shape) = full(shape, 0)` -/
def empty (shape : List Nat) : COO Int := full shape 0
/-- `full_like(a, fill_value, shape=None)`: `full(a.shape if shape is None else shape, fill_value)` -/
def fullLike {α β : Type} (a : COO β) (v : α) (shape : Option (List Nat)) : COO α :=
  full (match shape with | none => a.shape | some s => s) v
def zerosLike {β : Type} (a : COO β) (shape : Option (List Nat)) : COO Int := fullLike a 0 shape
def onesLike {β : Type} (a : COO β) (shape : Option (List Nat)) : COO Int := fullLike a 1 shape
def emptyLike {β : Type} (a : COO β) (shape : Option (List Nat)) : COO Int := fullLike a 0 shape

/-! ### eye -/

/-- stored entries of `eye`: the t-th one sits at `Gen.eyeCoord t k` (`np.stack([n_coords, m_coords])`,
data broadcast from the scalar 1) -/
def eyeEntries (L : Nat) (k : Int) : List (Idx × Int) :=
  (List.range L).map fun (t : Nat) =>
    let c := Gen.eyeCoord (t : Int) k
    ([c.1.toNat, c.2.1.toNat], 1)

/-- `eye` once `data_length = L` is known: 0 → `zeros((N, M))`; otherwise
`COO(coords, data = 1, shape = (N, M), has_duplicates = False, sorted = True)` — no constructor pass runs. -/
def eyeCore (N M : Nat) (L : Int) (k : Int) : COO Int :=
  if L = 0 then zeros [N, M]
  else { shape := [N, M], entries := eyeEntries L.toNat k, fill := 0 }

/-- `eye(N, M, k)`: `data_length` from the generated prefix (which also defaults `M = None` to `N`) -/
def eye (N : Nat) (M : Option Nat) (k : Int) : COO Int :=
  match M with
  | none => eyeCore N N (Gen.eyeLen (N : Int) none k) k
  | some m => eyeCore N m (Gen.eyeLen (N : Int) (some (m : Int)) k) k

/-! ### algA (Vitter's algorithm A) with an oracle -/

/-- the skip of one sample: the oracle asks for `r` increments, the loop leaves when `top` hits 0 -/
def algASkip (r : Nat) (top : Int) : Int := if top ≤ 0 then 0 else min (r : Int) top

/-- the `while n >= 2` loop: `m` iterations left, `t` = number of the iteration (oracle position).
Returns (samples written, final N, final arr[i-1]). -/
def algAGo : Nat → Nat → Int → Int → Int → (Nat → Nat) → List Int × Int × Int
  | 0, _, N, _, prev, _ => ([], N, prev)
  | m + 1, t, N, top, prev, r =>
    let S := algASkip (r t) top
    let x := prev + S + 1
    let res := algAGo m (t + 1) (N - S - 1) (top - S) x r
    (x :: res.1, res.2)

/-- the population size `N` left when the loop is over (what the last `intp(N * U)` is scaled by) -/
def algAFinalN (n N : Int) (r : Nat → Nat) : Int := (algAGo (n - 1).toNat 0 N (N - n) (-1) r).2.1

/-- `algA(n, N, random_state)`.  `n = 0`: `arr[-1] = -1` on an empty array is an IndexError (py_func);
`n < 0`: `np.zeros(n)` is a ValueError. -/
def algA (n N : Int) (r : Nat → Nat) (last : Int) : Except Err (List Int) :=
  if n < 0 then .error .value
  else if n = 0 then .error .index
  else
    let res := algAGo (n - 1).toNat 0 N (N - n) (-1) r
    .ok (res.1 ++ [res.2.2 + last + 1])

/-! ### algD (Vitter's algorithm D) with an oracle -/

abbrev Cand := Int × Bool

/-- the two nested `while True` loops: first candidate that passes the guard `qu1 > S` and is accepted -/
def algDPick (qu1 : Int) : List Cand → Option (Int × List Cand)
  | [] => none
  | c :: rest => if qu1 > c.1 ∧ c.2 = true then some (c.1, rest) else algDPick qu1 rest

/-- the `while n > 1` loop, `m` samples left.  Returns the samples and the unconsumed oracle. -/
def algDGo : Nat → Int → Int → List Cand → Except Err (List Int × List Cand)
  | 0, _, _, o => .ok ([], o)
  | m + 1, qu1, prev, o =>
    match algDPick qu1 o with
    | none => .error .hang
    | some (S, o') =>
      let x := prev + S + 1
      match algDGo m (qu1 - S) x o' with
      | .error e => .error e
      | .ok (arr, o'') => .ok (x :: arr, o'')

/-- `algD(n, N, random_state)`: the code works with `n + 1`, so `qu1 = N - (n + 1) + 1 = N - n`. -/
def algD (n N : Int) (o : List Cand) : Except Err (List Int × List Cand) :=
  if n < 0 then .error .value
  else if n = 0 then .error .index
  else algDGo n.toNat (N - n) (-1) o

/-! ### reverse : the complement of a sorted index list -/

/-- `for i in range(N)`: `c` iterations left at position `i`; returns (written, unmatched rest of inv) -/
def reverseGo : Nat → Int → List Int → List Int × List Int
  | 0, _, inv => ([], inv)
  | c + 1, i, [] => ((List.range (c + 1)).map (fun (d : Nat) => i + (d : Int)), [])
  | c + 1, i, v :: inv =>
    if i = v then reverseGo c (i + 1) inv
    else
      let res := reverseGo c (i + 1) (v :: inv)
      (i :: res.1, res.2)

/-- `reverse(inv, N)`.  The output array has `N - len(inv)` slots: more excluded indices than `N` is a
ValueError (`np.zeros` of a negative size); an entry of `inv` that is never matched makes the loop write
past the end (IndexError in py_func). -/
def reverse (inv : List Int) (N : Int) : Except Err (List Int) :=
  if N < inv.length then .error .value
  else
    let res := reverseGo N.toNat 0 inv
    if res.2 = [] then .ok res.1 else .error .index

/-! ### random : the index list -/

/-- everything `random` takes from the random stream, as integers -/
structure Oracle where
  /-- the value `random_state.choice(elements, 1)[0]` -/
  choice : Int
  /-- algA: requested increments of the t-th inner loop -/
  skipsA : Nat → Nat
  /-- algA: the last `intp(N * U)` -/
  lastA : Int
  /-- algD: candidates -/
  candD : List Cand

/-- `random_state.choice(N, k)` for `k < 2` (the only sizes `random` asks for) -/
def choice (k : Int) (c : Int) : List Int := if k ≤ 0 then [] else [c]

/-- `np.arange(N)` -/
def arange (N : Int) : List Int := (List.range N.toNat).map fun (d : Nat) => (d : Int)

/-- the index list `ind` of `random`, by the generated selection -/
def randomIdx (nnz elements : Int) (dge1 : Bool) (o : Oracle) : Except Err (List Int) :=
  let b := Gen.randomBranch nnz elements dge1
  let n := b.2.1
  let N := b.2.2
  if b.1 = 0 then .ok (arange N)
  else if b.1 = 1 then .ok (choice n o.choice)
  else if b.1 = 2 then reverse (choice n o.choice) N
  else if b.1 = 3 then
    match algD n N o.candD with
    | .error e => .error e
    | .ok (a, _) => reverse a N
  else if b.1 = 4 then
    match algA n N o.skipsA o.lastA with
    | .error e => .error e
    | .ok a => reverse a N
  else if b.1 = 5 then
    match algD n N o.candD with
    | .error e => .error e
    | .ok (a, _) => .ok a
  else algA n N o.skipsA o.lastA

/-- `COO(ind[None, :], data, shape = elements, fill_value).reshape(shape)`: the constructor runs with its
default flags (sort by linear location, sum duplicates — `COO.build`), then `reshape` re-linearises
(`COO.reshapeCore`).  `data = data_rvs(nnz)`; a length mismatch between `ind` and `data` is the
constructor's ValueError. -/
def random {α : Type} [Add α] [DecidableEq α] (shape : List Nat) (nnz : Int) (dge1 : Bool) (o : Oracle)
    (data : List α) (fill : α) : Except Err (COO α) :=
  match randomIdx nnz (prod shape : Nat) dge1 o with
  | .error e => .error e
  | .ok ind =>
    if ind.length ≠ data.length then .error .value
    else
      let flat : COO α := COO.build [prod shape] ((ind.map fun x => [x.toNat]).zip data) fill
      .ok (flat.reshapeCore shape)

end Create
end SparseV

/-
  SparseV.Model.Convert — conversions between the storage formats (property C05):
  dense ↔ COO ↔ GCXS ↔ DOK, as the code performs them.
-/
import SparseV.Model.Gcxs
namespace SparseV

/-- `COO.from_numpy`: stored entries are the positions whose value differs from the fill value, in
row-major order (`flatnonzero` of the flattened array, `sorted=True`, then `reshape`). -/
def COO.fromDense {α : Type} [DecidableEq α] (shape : List Nat) (flat : List α) (fill : α) : COO α :=
  { shape := shape,
    entries := ((allIdx shape).zip flat).filter fun p => p.2 ≠ fill,
    fill := fill }

/-- an array in any of the storage formats -/
inductive SArr (α : Type) where
  | coo (x : COO α)
  | gcxs (g : GCXS α)
  | dok (shape : List Nat) (entries : List (Idx × α)) (fill : α)   -- insertion-ordered dict
  | dense (shape : List Nat) (flat : List α) (fill : α)             -- fill remembered for the way back

inductive Fmt where
  | coo | gcxs (caxes : Option (List Nat)) | dok | dense
  deriving Repr

namespace SArr
variable {α : Type} [Add α] [DecidableEq α]

/-- every format goes through COO (`asformat` does the same) -/
def toCoo : SArr α → COO α
  | .coo x => x
  | .gcxs g => g.tocoo
  | .dok shape es fill => COO.build shape es fill          -- `COO.from_iter`: default flags (sort, sum)
  | .dense shape flat fill => COO.fromDense shape flat fill

def convert (a : SArr α) (f : Fmt) : Except Err (SArr α) :=
  match f with
  | .coo => .ok (.coo a.toCoo)
  | .gcxs c => match a with
    | .gcxs g => if g.caxes = c ∨ c = none then .ok a else (GCXS.fromCoo g.tocoo c).map .gcxs
    | _ => (GCXS.fromCoo a.toCoo c).map .gcxs
  | .dok => let x := a.toCoo; .ok (.dok x.shape x.entries x.fill)   -- `DOK.from_coo`: verbatim copy
  | .dense => let x := a.toCoo; .ok (.dense x.shape x.todense x.fill)

end SArr
end SparseV

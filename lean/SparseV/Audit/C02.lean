import SparseV.Props.C02
#print axioms SparseV.C02.normalize_slice_spec
#print axioms SparseV.C02.normalize_slice_range
#print axioms SparseV.C02.normalize_int_spec
#print axioms SparseV.C02.normalize_slice_normalised
#print axioms SparseV.C02.slice_selection_bijection
#print axioms SparseV.C02.getitemN_get
#print axioms SparseV.C02.getitemN_scalar
#print axioms SparseV.C02.getitemN_scalar0d
#print axioms SparseV.C02.getitem_sorted_promise
#print axioms SparseV.C02.normalize_index_valid
#print axioms SparseV.C02.getitem_basic

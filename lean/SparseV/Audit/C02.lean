import SparseV.Props.C02
import SparseV.Props.C02Gcxs
#print axioms SparseV.C02.normalize_slice_spec
#print axioms SparseV.C02.normalize_slice_range
#print axioms SparseV.C02.normalize_int_spec
#print axioms SparseV.C02.normalize_slice_normalised
#print axioms SparseV.C02.slice_selection_bijection
#print axioms SparseV.C02.getitemN_get
#print axioms SparseV.C02.getitemN_scalar
#print axioms SparseV.C02.getitemN_scalar0d
#print axioms SparseV.C02.getitem_sorted_promise
#print axioms SparseV.C02.normalize_index_valid
#print axioms SparseV.C02.getitem_basic
#print axioms SparseV.C02.gcxs_tocoo_get
#print axioms SparseV.C02.gcxs_kernels_agree
#print axioms SparseV.C02.gcxs_select_get
#print axioms SparseV.C02.gcxs_flat_spec
#print axioms SparseV.C02.gcxs_getitem_get
#print axioms SparseV.C02.gcxs_getitem_wf
#print axioms SparseV.C02.gcxs_getitem_scalar
#print axioms SparseV.C02.gcxs_getitem_eq_coo

import SparseV.Props.C02
#print axioms SparseV.C02.normalize_slice_spec
#print axioms SparseV.C02.normalize_slice_range
#print axioms SparseV.C02.normalize_int_spec

import SparseV.Props.C07
#print axioms SparseV.C07.fill_policy_sound
#print axioms SparseV.C07.classification_is_solution
#print axioms SparseV.C07.guard_dominates
#print axioms SparseV.C07.array_guard
#print axioms SparseV.C07.densemix_decision
#print axioms SparseV.C07.fill_contribution

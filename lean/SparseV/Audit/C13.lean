import SparseV.Props.C13
#print axioms SparseV.C13.memo_race_benign
#print axioms SparseV.C13.memo_stays_correct
#print axioms SparseV.C13.cache_values_correct_all_schedules
#print axioms SparseV.C13.cache_stays_correct
#print axioms SparseV.C13.cache_iter_race_counterexample
#print axioms SparseV.C13.no_new_errors_partial
#print axioms SparseV.C13.snapshot_no_errors
#print axioms SparseV.C13.coarse_run_is_fine_run
#print axioms SparseV.C13.pure_calls_independent

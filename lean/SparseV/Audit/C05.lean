import SparseV.Props.C05
#print axioms SparseV.C05.sort_preserves_get

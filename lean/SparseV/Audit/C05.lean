import SparseV.Props.C05
#print axioms SparseV.C05.sort_preserves_get
#print axioms SparseV.C05.build_get
#print axioms SparseV.C05.build_get_nodup
#print axioms SparseV.C05.allIdx_facts
#print axioms SparseV.C05.fromDense_todense
#print axioms SparseV.C05.todense_fromDense
#print axioms SparseV.C05.todense_fromDense_get
#print axioms SparseV.C05.uncompress_indptrOf
#print axioms SparseV.C05.tocoo_fromCoo_get
#print axioms SparseV.C05.tocoo_fromCoo_ok
#print axioms SparseV.C05.transpose_get
#print axioms SparseV.C05.chain_preserves
#print axioms SparseV.C05.step_preserves
#print axioms SparseV.C05.chain_preserves_all
#print axioms SparseV.C05.roundtrip_via

import SparseV.Props.C19
#print axioms SparseV.C19.eye_get
#print axioms SparseV.C19.eye_canonical
#print axioms SparseV.C19.eye_nnz
#print axioms SparseV.C19.full_get
#print axioms SparseV.C19.zeros_ones_empty_get
#print axioms SparseV.C19.like_shape_fill
#print axioms SparseV.C19.algA_inv
#print axioms SparseV.C19.algA_oracle_satisfiable
#print axioms SparseV.C19.algD_inv
#print axioms SparseV.C19.reverse_spec
#print axioms SparseV.C19.random_branch_total
#print axioms SparseV.C19.random_count_distinct_inrange
#print axioms SparseV.C19.random_coo_canonical
#print axioms SparseV.C19.random_returns

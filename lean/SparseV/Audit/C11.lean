import SparseV.Props.C11
#print axioms SparseV.C11.append_length_le
#print axioms SparseV.C11.cache_inv_step
#print axioms SparseV.C11.cached_run_eq_uncached
#print axioms SparseV.C11.cached_run_eq_uncached_from
#print axioms SparseV.C11.capacity_inv
#print axioms SparseV.C11.frame
#print axioms SparseV.C11.all_protocols_write_fresh
#print axioms SparseV.C11.operands_unchanged
#print axioms SparseV.C11.names_fresh_iff_tagged
#print axioms SparseV.C11.alias_map_consistent

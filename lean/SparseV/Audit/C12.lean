import SparseV.Props.C12
#print axioms SparseV.C12.setScalar_get
#print axioms SparseV.C12.setScalar_canon
#print axioms SparseV.C12.nnz_count
#print axioms SparseV.C12.setitem_refines_of_bounds
#print axioms SparseV.C12.gen_is_fixed
#print axioms SparseV.C12.setitem_refines_fixed
#print axioms SparseV.C12.setitem_refines
#print axioms SparseV.C12.dSetSel_scalar
#print axioms SparseV.C12.fancy_refines
#print axioms SparseV.C12.mask_refines
#print axioms SparseV.C12.step_refines
#print axioms SparseV.C12.dok_history
#print axioms SparseV.C12.nnz_invariant
#print axioms SparseV.C12.getitem_after_history

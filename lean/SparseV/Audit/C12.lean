import SparseV.Props.C12

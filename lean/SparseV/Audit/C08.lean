import SparseV.Props.C08
#print axioms SparseV.C08.reshape_get
#print axioms SparseV.C08.reshape_preserves_linear

import SparseV.Props.C08
#print axioms SparseV.C08.reshape_get
#print axioms SparseV.C08.reshape_preserves_linear
#print axioms SparseV.C08.transpose_get
#print axioms SparseV.C08.transpose_src_inb
#print axioms SparseV.C08.transpose_axes_valid_iff
#print axioms SparseV.C08.transpose_canonical
#print axioms SparseV.C08.flip_get
#print axioms SparseV.C08.flip_src_inb
#print axioms SparseV.C08.roll_get
#print axioms SparseV.C08.roll_src_inb
#print axioms SparseV.C08.roll_get_single
#print axioms SparseV.C08.squeeze_get
#print axioms SparseV.C08.squeeze_src_unique
#print axioms SparseV.C08.expand_dims_get
#print axioms SparseV.C08.expand_dims_onto

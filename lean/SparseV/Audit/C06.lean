import SparseV.Props.C06
import SparseV.Props.Program
#print axioms SparseV.C06.build_canonical
#print axioms SparseV.C06.sorted_rewrite_canonical
#print axioms SparseV.C06.reshape_canonical
#print axioms SparseV.C06.filter_canonical
#print axioms SparseV.C06.nofill_elemwise
#print axioms SparseV.C06.nofill_prune
#print axioms SparseV.C06.sortedLin_nodup
#print axioms SparseV.C06.promise_sites_covered
#print axioms SparseV.Program.program_canonical
#print axioms SparseV.Program.program_refines
#print axioms SparseV.Program.program_errors
#print axioms SparseV.Program.program_canonical_pruned

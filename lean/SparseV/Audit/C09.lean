import SparseV.Props.C09
import SparseV.Props.C09Gcxs
#print axioms SparseV.C09.triu_get
#print axioms SparseV.C09.tril_get
#print axioms SparseV.C09.triu_keys_sublist
#print axioms SparseV.C09.tril_keys_sublist
#print axioms SparseV.C09.triu_sorted
#print axioms SparseV.C09.concat_get
#print axioms SparseV.C09.concat_axis0_sorted
#print axioms SparseV.C09.stack_get
#print axioms SparseV.C09.stack_index_form
#print axioms SparseV.C09.diagonal_get
#print axioms SparseV.C09.diagSrc_spec
#print axioms SparseV.locate_spec
#print axioms SparseV.locate_unique
#print axioms SparseV.C09.gcxs_splice_spec
#print axioms SparseV.C09.gcxs_concat_wf
#print axioms SparseV.C09.gcxs_concat_get
#print axioms SparseV.C09.gcxs_stack_get

import SparseV.Props.C09
#print axioms SparseV.C09.triu_get
#print axioms SparseV.C09.tril_get
#print axioms SparseV.C09.triu_keys_sublist
#print axioms SparseV.C09.tril_keys_sublist
#print axioms SparseV.C09.triu_sorted

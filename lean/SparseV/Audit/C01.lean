import SparseV.Props.C01
#print axioms SparseV.C01.bcast_pair_spec
#print axioms SparseV.C01.bcast_result_rule
#print axioms SparseV.C01.elemwise2_get
#print axioms SparseV.C01.elemwise2_nofill

import SparseV.Props.C14
#print axioms SparseV.C14.npz_roundtrip_partial
#print axioms SparseV.C14.npz_roundtrip_coo
#print axioms SparseV.C14.npz_roundtrip
#print axioms SparseV.C14.npz_gcxs1d_counterexample
#print axioms SparseV.C14.npz_subclass_counterexample
#print axioms SparseV.C14.npz_roundtrip_counterexample
#print axioms SparseV.C14.load_no_defaulting
#print axioms SparseV.C14.load_determined
#print axioms SparseV.C14.truncation_rejected
#print axioms SparseV.C14.corruption_never_other
#print axioms SparseV.C14.pickle_roundtrip
#print axioms SparseV.C14.shallowcopy_alias
#print axioms SparseV.C14.deepcopy_disjoint
#print axioms SparseV.C14.box_unbox_id
#print axioms SparseV.C14.box_unbox_id_canonical
#print axioms SparseV.C14.box_unbox_counterexample

import SparseV.Props.C18
#print axioms SparseV.C18.rejects_iff_numpy_rejects_axis
#print axioms SparseV.C18.rejects_iff_numpy_rejects_index

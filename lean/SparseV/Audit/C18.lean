import SparseV.Props.C18
#print axioms SparseV.C18.rejects_iff_numpy_rejects_axis
#print axioms SparseV.C18.rejects_iff_numpy_rejects_index
#print axioms SparseV.C18.rejects_iff_numpy_rejects_axes
#print axioms SparseV.C18.rejects_iff_numpy_rejects_transpose
#print axioms SparseV.C18.rejects_iff_numpy_rejects_broadcast
#print axioms SparseV.C18.rejects_iff_numpy_rejects_reshape
#print axioms SparseV.C18.reshape_rejects_what_numpy_rejects
#print axioms SparseV.C18.reshape_retired_witnesses_rejected
#print axioms SparseV.C18.reshape_other_negative_stricter
#print axioms SparseV.C18.ctor_rejects_malformed
#print axioms SparseV.C18.ctor_retired_witness_rejected
#print axioms SparseV.C18.linear_filter_loop_terminates
#print axioms SparseV.C18.binary_search_loop_terminates
#print axioms SparseV.C18.get_slicing_selection_terminates
#print axioms SparseV.C18.get_slicing_selection_memory_safe
#print axioms SparseV.C18.no_internal_errors

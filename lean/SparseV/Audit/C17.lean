import SparseV.Props.C17
#print axioms SparseV.C17.array_function_lookup
#print axioms SparseV.C17.array_function_lookup_sound
#print axioms SparseV.C17.index_faithful
#print axioms SparseV.C17.spellings_agree_partial
#print axioms SparseV.C17.spellings_agree_counterexample
#print axioms SparseV.C17.ufunc_route
#print axioms SparseV.C17.outer_operand_order
#print axioms SparseV.C17.multi_out_tables
#print axioms SparseV.C17.multi_output_route
#print axioms SparseV.C17.divmod_route
#print axioms SparseV.C17.divmod_spellings_agree
#print axioms SparseV.C17.multi_output_rejected
#print axioms SparseV.C17.out_trial_deterministic
#print axioms SparseV.C17.out_keeps_format
#print axioms SparseV.C17.inplace_every_pair

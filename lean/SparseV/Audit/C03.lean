import SparseV.Props.C03
#print axioms SparseV.C03.normalize_axis_spec
#print axioms SparseV.C03.normalize_axis_range
#print axioms SparseV.C03.reduce_rejects_when_inadmissible
#print axioms SparseV.C03.reduce_always_admissible

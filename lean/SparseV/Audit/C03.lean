import SparseV.Props.C03
import SparseV.Props.C03Gcxs
#print axioms SparseV.C03.normalize_axis_spec
#print axioms SparseV.C03.normalize_axis_range
#print axioms SparseV.C03.reduce_rejects_when_inadmissible
#print axioms SparseV.C03.reduce_always_admissible
#print axioms SparseV.C03.groupRuns_spec
#print axioms SparseV.C03.reduceCore_rowReduce
#print axioms SparseV.C03.rowReduce_add_get
#print axioms SparseV.C03.rowReduce_max_get
#print axioms SparseV.C03.rowReduce_min_get
#print axioms SparseV.C03.reduceCore_none
#print axioms SparseV.C03.reduce_add_get
#print axioms SparseV.C03.reduce_max_get
#print axioms SparseV.C03.reduce_min_get
#print axioms SparseV.C03.reduce_src_spec
#print axioms SparseV.C03.reduce_empty_axis_rejected
#print axioms SparseV.C03.reduce_empty_axis_rejected_none
#print axioms SparseV.C03.gcxs_from_coo_wf
#print axioms SparseV.C03.gcxs_change_caxes_get
#print axioms SparseV.C03.gcxs_reshape_get
#print axioms SparseV.C03.gcxs_reduce_rows_spec
#print axioms SparseV.C03.gcxs_reduced_axes_sorted
#print axioms SparseV.C03.gcxs_reduce_add_get
#print axioms SparseV.C03.gcxs_reduce_max_get
#print axioms SparseV.C03.gcxs_reduce_min_get
#print axioms SparseV.C03.gcxs_reduce_rejects

/-
  SparseV.Lemmas.Search — helper lemmas for property C10: dense rows of sorted sparse rows,
  uniqueness of sorted lists, the fill-gap placement of `_sort_coo`, first-gap search,
  argsort / scatter / gather, adjacent de-duplication, row-major enumeration.
-/
import SparseV.Model.Search
import SparseV.Lemmas.Index
import SparseV.Lemmas.Assoc
namespace SparseV
namespace Search
open Spec

/-! ### rows -/

def keysR (es : Row) : List Nat := es.map (·.1)
def valsR (es : Row) : List Int := es.map (·.2)

/-- a row of a canonical array: positions strictly increasing, all in `[s, n)` -/
def RowFrom (s n : Nat) (es : Row) : Prop := (keysR es).Pairwise (· < ·) ∧ ∀ e ∈ es, s ≤ e.1 ∧ e.1 < n

/-- well-formed row of length `n` -/
def RowWF (n : Nat) (es : Row) : Prop := RowFrom 0 n es

instance (s n : Nat) (es : Row) : Decidable (RowFrom s n es) := by unfold RowFrom; infer_instance
instance (n : Nat) (es : Row) : Decidable (RowWF n es) := by unfold RowWF; infer_instance

theorem RowFrom.tail {s n : Nat} {p : Nat} {v : Int} {es : Row} (h : RowFrom s n ((p, v) :: es)) :
    RowFrom (p + 1) n es := by
  obtain ⟨hp, hb⟩ := h
  simp only [keysR, List.map_cons, List.pairwise_cons] at hp
  refine ⟨hp.2, fun e he => ⟨?_, (hb e (List.mem_cons_of_mem _ he)).2⟩⟩
  have := hp.1 e.1 (List.mem_map.mpr ⟨e, he, rfl⟩)
  omega

theorem RowFrom.head {s n : Nat} {p : Nat} {v : Int} {es : Row} (h : RowFrom s n ((p, v) :: es)) :
    s ≤ p ∧ p < n := h.2 (p, v) List.mem_cons_self

theorem RowFrom.mono {s s' n : Nat} {es : Row} (h : RowFrom s n es) (hs : s' ≤ s) : RowFrom s' n es :=
  ⟨h.1, fun e he => ⟨Nat.le_trans hs (h.2 e he).1, (h.2 e he).2⟩⟩

theorem RowFrom.length_le : ∀ {es : Row} {s n : Nat}, RowFrom s n es → es.length ≤ n - s
  | [], _, _, _ => by simp
  | (p, v) :: es, s, n, h => by
    have := RowFrom.length_le h.tail
    have := h.head
    simp only [List.length_cons]
    omega

theorem RowFrom.nodup {s n : Nat} {es : Row} (h : RowFrom s n es) : (keysR es).Nodup :=
  h.1.imp (fun hab => Nat.ne_of_lt hab)

theorem lookupRow_nil (fill : Int) (i : Nat) : lookupRow [] fill i = fill := by simp [lookupRow]

theorem lookupRow_cons (e : Nat × Int) (es : Row) (fill : Int) (i : Nat) :
    lookupRow (e :: es) fill i = if e.1 = i then e.2 else lookupRow es fill i := by
  unfold lookupRow
  simp only [List.find?_cons]
  by_cases h : e.1 = i
  · simp [h]
  · have : (e.1 == i) = false := by simpa using h
    simp [this, h]

theorem lookupRow_of_not_mem {es : Row} {fill : Int} {i : Nat} (h : i ∉ keysR es) :
    lookupRow es fill i = fill := by
  induction es with
  | nil => exact lookupRow_nil _ _
  | cons e es ih =>
    rw [lookupRow_cons]
    simp only [keysR, List.map_cons, List.mem_cons, not_or] at h
    have h1 : ¬ e.1 = i := fun hh => h.1 hh.symm
    simp only [h1, if_false]
    exact ih h.2

theorem lookupRow_of_mem {es : Row} {fill : Int} {i : Nat} {v : Int}
    (hnd : (keysR es).Nodup) (hm : (i, v) ∈ es) : lookupRow es fill i = v := by
  induction es with
  | nil => cases hm
  | cons e es ih =>
    rw [lookupRow_cons]
    simp only [keysR, List.map_cons, List.nodup_cons] at hnd
    rcases List.mem_cons.mp hm with h | h
    · subst h; simp
    · have : e.1 ≠ i := by
        intro he
        apply hnd.1
        rw [he]
        exact List.mem_map.mpr ⟨(i, v), h, rfl⟩
      simp only [this, if_false]
      exact ih hnd.2 h

/-- a dense value is the fill value or a stored value -/
theorem lookupRow_mem_or (es : Row) (fill : Int) (i : Nat) :
    (i ∉ keysR es ∧ lookupRow es fill i = fill) ∨ (i, lookupRow es fill i) ∈ es := by
  induction es with
  | nil => left; exact ⟨by simp [keysR], lookupRow_nil _ _⟩
  | cons e es ih =>
    rw [lookupRow_cons]
    by_cases h : e.1 = i
    · right; simp only [h, if_true]; rw [← h]; exact List.mem_cons_self
    · simp only [h, if_false]
      rcases ih with ⟨h1, h2⟩ | h2
      · left
        refine ⟨?_, h2⟩
        simp only [keysR, List.map_cons, List.mem_cons, not_or]
        exact ⟨fun hh => h hh.symm, h1⟩
      · right; exact List.mem_cons_of_mem _ h2

theorem length_densifyRow (n : Nat) (fill : Int) (es : Row) : (densifyRow n fill es).length = n := by
  simp [densifyRow]

theorem getElem_densifyRow (n : Nat) (fill : Int) (es : Row) (i : Nat) (h : i < (densifyRow n fill es).length) :
    (densifyRow n fill es)[i] = lookupRow es fill i := by
  simp [densifyRow]

/-- the dense row written as a walk along the sorted stored positions -/
def denseWalk (fill : Int) : Nat → Nat → Row → List Int
  | s, n, [] => List.replicate (n - s) fill
  | s, n, (p, v) :: rest => List.replicate (p - s) fill ++ v :: denseWalk fill (p + 1) n rest

theorem map_eq_replicate_of_forall {α β : Type} {f : α → β} {c : β} {l : List α} (h : ∀ i ∈ l, f i = c) :
    l.map f = List.replicate l.length c := by
  rw [List.map_eq_replicate_iff]
  intro x hx
  exact h x hx

theorem map_lookup_eq_walk (fill : Int) (n : Nat) : ∀ (es : Row) (s : Nat), RowFrom s n es →
    (List.range' s (n - s)).map (lookupRow es fill) = denseWalk fill s n es
  | [], s, _ => by
    simp only [denseWalk]
    rw [map_eq_replicate_of_forall (c := fill) (fun i _ => lookupRow_nil fill i), List.length_range']
  | (p, v) :: rest, s, h => by
    have hh := h.head
    have ht := h.tail
    have ih := map_lookup_eq_walk fill n rest (p + 1) ht
    simp only [denseWalk]
    have hsplit : List.range' s (n - s) = List.range' s (p - s) ++ p :: List.range' (p + 1) (n - (p + 1)) := by
      have h1 : n - s = (p - s) + ((n - (p + 1)) + 1) := by omega
      have h2 : s + (p - s) = p := by omega
      rw [h1, ← List.range'_append_1, List.range'_succ, h2]
    rw [hsplit, List.map_append, List.map_cons]
    congr 1
    · -- before p: unstored
      have : ∀ i ∈ List.range' s (p - s), lookupRow ((p, v) :: rest) fill i = fill := by
        intro i hi
        apply lookupRow_of_not_mem
        simp only [List.mem_range'_1] at hi
        simp only [keysR, List.map_cons, List.mem_cons, not_or]
        refine ⟨by omega, ?_⟩
        intro hm
        obtain ⟨e, he, hk⟩ := List.mem_map.mp hm
        have := (ht.2 e he).1
        omega
      rw [map_eq_replicate_of_forall this, List.length_range']
    · congr 1
      · rw [lookupRow_cons]; simp
      · rw [← ih]
        apply List.map_congr_left
        intro i hi
        simp only [List.mem_range'_1] at hi
        rw [lookupRow_cons]
        have : ¬ p = i := by omega
        simp [this]

theorem densifyRow_eq_walk {n : Nat} {es : Row} (fill : Int) (h : RowWF n es) :
    densifyRow n fill es = denseWalk fill 0 n es := by
  have := map_lookup_eq_walk fill n es 0 h
  simpa [densifyRow, List.range_eq_range'] using this

/-- a dense row is a permutation of its stored values followed by the unstored cells -/
theorem walk_perm (fill : Int) (n : Nat) : ∀ (es : Row) (s : Nat), RowFrom s n es →
    (denseWalk fill s n es).Perm (valsR es ++ List.replicate (n - s - es.length) fill)
  | [], s, _ => by simp [denseWalk, valsR]
  | (p, v) :: rest, s, h => by
    have hh := h.head
    have ht := h.tail
    have hl := RowFrom.length_le ht
    have ih := walk_perm fill n rest (p + 1) ht
    simp only [denseWalk, valsR, List.map_cons, List.length_cons, List.cons_append]
    refine List.perm_middle.trans (List.Perm.cons v ?_)
    refine (List.Perm.append_left _ ih).trans ?_
    simp only [valsR]
    refine List.perm_append_comm.trans ?_
    rw [List.append_assoc]
    refine List.Perm.append_left _ ?_
    rw [List.replicate_append_replicate]
    have : n - (p + 1) - rest.length + (p - s) = n - s - (rest.length + 1) := by omega
    rw [this]

theorem densifyRow_perm {n : Nat} {es : Row} (fill : Int) (h : RowWF n es) :
    (densifyRow n fill es).Perm (valsR es ++ List.replicate (n - es.length) fill) := by
  rw [densifyRow_eq_walk fill h]
  simpa using walk_perm fill n es 0 h

/-! ### the fill-gap placement of `_sort_coo` -/

/-- a block of consecutive stored positions starting at `s'` (after a gap from `s`) -/
theorem walk_block (fill : Int) (n : Nat) : ∀ (vs : List Int) (s : Nat) (tail : Row),
    denseWalk fill s n ((List.range' s vs.length).zip vs ++ tail) = vs ++ denseWalk fill (s + vs.length) n tail
  | [], s, tail => by simp
  | v :: vs, s, tail => by
    have ih := walk_block fill n vs (s + 1) tail
    simp only [List.length_cons, List.range'_succ, List.zip_cons_cons, List.cons_append, denseWalk,
      Nat.sub_self, List.replicate_zero, List.nil_append]
    rw [ih]
    have : s + 1 + vs.length = s + (vs.length + 1) := by omega
    rw [this]

theorem walk_gap_block (fill : Int) (n : Nat) (v : Int) (vs : List Int) (s s' : Nat) (tail : Row) :
    denseWalk fill s n ((List.range' s' (v :: vs).length).zip (v :: vs) ++ tail)
      = List.replicate (s' - s) fill ++ (v :: vs) ++ denseWalk fill (s' + (v :: vs).length) n tail := by
  have ih := walk_block fill n vs (s' + 1) tail
  simp only [List.length_cons, List.range'_succ, List.zip_cons_cons, List.cons_append, denseWalk]
  rw [ih, List.append_assoc]
  have : s' + 1 + vs.length = s' + (vs.length + 1) := by omega
  rw [this]
  rfl

theorem shifted_indices (k pos c : Nat) (hpos : pos ≤ k) :
    ((List.range k).map fun i => if i < pos then i else i + c)
      = List.range' 0 pos ++ List.range' (pos + c) (k - pos) := by
  have hk : k = pos + (k - pos) := by omega
  rw [List.range_eq_range']
  conv => lhs; rw [hk, ← List.range'_append_1, List.map_append]
  congr 1
  · have : ∀ i ∈ List.range' 0 pos, (if i < pos then i else i + c) = id i := by
      intro i hi
      simp only [List.mem_range'_1] at hi
      have : i < pos := by omega
      simp [this]
    rw [List.map_congr_left this, List.map_id]
  · have : ∀ i ∈ List.range' (0 + pos) (k - pos), (if i < pos then i else i + c) = c + i := by
      intro i hi
      simp only [List.mem_range'_1] at hi
      have : ¬ i < pos := by omega
      simp only [this, if_false]
      omega
    rw [List.map_congr_left this, List.map_add_range']
    congr 1
    omega

/-- dense form of the row produced by the index shift -/
theorem placeFill_dense (fill : Int) (n : Nat) (data : List Int) (pos : Nat) (hpos : pos ≤ data.length)
    (hk : data.length ≤ n) :
    denseWalk fill 0 n (((List.range data.length).map fun i => if i < pos then i else i + (n - data.length)).zip data)
      = data.take pos ++ List.replicate (n - data.length) fill ++ data.drop pos := by
  rw [shifted_indices data.length pos (n - data.length) hpos]
  conv => lhs; rw [← List.take_append_drop pos data]
  have hl : (List.range' 0 pos).length = (data.take pos).length := by simp; omega
  rw [List.zip_append hl]
  have h1 := walk_block fill n (data.take pos) 0
    ((List.range' (pos + (n - data.length)) (data.length - pos)).zip (data.drop pos))
  have hlen : (data.take pos).length = pos := by simp; omega
  rw [hlen] at h1
  rw [List.take_append_drop] at *
  rw [h1, List.append_assoc]
  congr 1
  simp only [Nat.zero_add]
  cases hd : data.drop pos with
  | nil =>
    have : data.length ≤ pos := by
      have := congrArg List.length hd
      simp at this
      omega
    have hz : data.length - pos = 0 := by omega
    have hp : pos = data.length := by omega
    simp [denseWalk, hp]
  | cons v vs =>
    have hlen2 : (v :: vs).length = data.length - pos := by
      rw [← hd]; simp
    have := walk_gap_block fill n v vs pos (pos + (n - data.length)) []
    rw [hlen2, List.append_nil] at this
    rw [this]
    have hz : n - (pos + (n - data.length) + (data.length - pos)) = 0 := by omega
    simp only [denseWalk, hz, List.replicate_zero, List.append_nil]
    congr 2
    omega

/-- the shifted row is a well-formed row -/
theorem placeFill_wf (n : Nat) (data : List Int) (pos : Nat) (hpos : pos ≤ data.length) (hk : data.length ≤ n) :
    RowWF n (((List.range data.length).map fun i => if i < pos then i else i + (n - data.length)).zip data) := by
  rw [shifted_indices data.length pos (n - data.length) hpos]
  have hlen : (List.range' 0 pos ++ List.range' (pos + (n - data.length)) (data.length - pos)).length = data.length := by
    simp; omega
  constructor
  · have : keysR ((List.range' 0 pos ++ List.range' (pos + (n - data.length)) (data.length - pos)).zip data)
        = List.range' 0 pos ++ List.range' (pos + (n - data.length)) (data.length - pos) := by
      unfold keysR
      rw [List.map_fst_zip]
      omega
    rw [this, List.pairwise_append]
    refine ⟨List.pairwise_lt_range', List.pairwise_lt_range', ?_⟩
    intro a ha b hb
    simp only [List.mem_range'_1] at ha hb
    omega
  · intro e he
    have := (List.of_mem_zip he).1
    simp only [List.mem_append, List.mem_range'_1] at this
    omega

/-- the dense form is sorted: everything before the first position where the fill value precedes is
`≤ fill`, everything from there on is `≥ fill` -/
theorem placeFill_sorted (le : Int → Int → Bool) (trans : ∀ a b c, le a b → le b c → le a c)
    (total : ∀ a b, le a b || le b a) (data : List Int) (hs : data.Pairwise (fun a b => le a b)) (fill : Int) (c : Nat) :
    (data.take (data.findIdx fun d => !le d fill) ++ List.replicate c fill
      ++ data.drop (data.findIdx fun d => !le d fill)).Pairwise (fun a b => le a b) := by
  have hrefl : ∀ a, le a a := fun a => by have := total a a; simpa using this
  have htake : ∀ x ∈ data.take (data.findIdx fun d => !le d fill), le x fill := by
    intro x hx
    obtain ⟨i, hi, rfl⟩ := List.mem_take_iff_getElem.mp hx
    have hi' : i < data.findIdx fun d => !le d fill := by omega
    have := List.not_of_lt_findIdx hi'
    simpa using this
  have hdrop : ∀ x ∈ data.drop (data.findIdx fun d => !le d fill), le fill x := by
    intro x hx
    obtain ⟨i, hi, rfl⟩ := List.mem_drop_iff_getElem.mp hx
    have hi : data.findIdx (fun d => !le d fill) + i < data.length := by omega
    have hlt : data.findIdx (fun d => !le d fill) < data.length := by omega
    have h0 := List.findIdx_getElem (w := hlt)
    have h0' : le data[data.findIdx fun d => !le d fill] fill = false := by simpa using h0
    have hnot : le data[data.findIdx (fun d => !le d fill) + i] fill = false := by
      cases i with
      | zero => simpa using h0'
      | succ j =>
        have hp := List.pairwise_iff_getElem.mp hs (data.findIdx fun d => !le d fill)
          (data.findIdx (fun d => !le d fill) + (j + 1)) hlt hi (by omega)
        cases hc : le data[data.findIdx (fun d => !le d fill) + (j + 1)] fill with
        | false => rfl
        | true =>
          have := trans _ _ _ hp hc
          rw [h0'] at this
          cases this
    have := total fill data[data.findIdx (fun d => !le d fill) + i]
    rw [hnot] at this
    simpa using this
  rw [List.pairwise_append, List.pairwise_append]
  refine ⟨⟨hs.sublist (List.take_sublist _ _), ?_, ?_⟩, hs.sublist (List.drop_sublist _ _), ?_⟩
  · rw [List.pairwise_replicate]; right; exact hrefl fill
  · intro a ha b hb
    rw [List.mem_replicate] at hb
    rw [hb.2]; exact htake a ha
  · intro a ha b hb
    rcases List.mem_append.mp ha with ha | ha
    · have hsplit := hs
      rw [← List.take_append_drop (data.findIdx fun d => !le d fill) data, List.pairwise_append] at hsplit
      exact hsplit.2.2 a ha b hb
    · rw [List.mem_replicate] at ha
      rw [ha.2]; exact hdrop b hb

/-! ### the two orders -/

def leOf : Bool → Int → Int → Bool
  | true => leDesc
  | false => leAsc

theorem leOf_eq_ite (d : Bool) : leOf d = if d then leDesc else leAsc := by cases d <;> rfl

theorem leOf_trans (d : Bool) : ∀ a b c, leOf d a b → leOf d b c → leOf d a c := by
  intro a b c; cases d <;> simp only [leOf, leAsc, leDesc, decide_eq_true_eq] <;> omega

theorem leOf_total (d : Bool) : ∀ a b, leOf d a b || leOf d b a := by
  intro a b; cases d <;> simp only [leOf, leAsc, leDesc, Bool.or_eq_true, decide_eq_true_eq] <;> omega

theorem leOf_antisymm (d : Bool) : ∀ a b, leOf d a b → leOf d b a → a = b := by
  intro a b; cases d <;> simp only [leOf, leAsc, leDesc, decide_eq_true_eq] <;> omega

theorem leAsc_trans : ∀ a b c, leAsc a b → leAsc b c → leAsc a c := leOf_trans false
theorem leAsc_total : ∀ a b, leAsc a b || leAsc b a := leOf_total false
theorem leAsc_antisymm : ∀ a b, leAsc a b → leAsc b a → a = b := leOf_antisymm false

/-- a sorted list is determined by its multiset -/
theorem sorted_perm_unique (d : Bool) {l₁ l₂ : List Int} (h₁ : l₁.Pairwise fun a b => leOf d a b)
    (h₂ : l₂.Pairwise fun a b => leOf d a b) (hp : l₁.Perm l₂) : l₁ = l₂ :=
  List.Perm.eq_of_pairwise (le := fun a b => leOf d a b) (fun a b _ _ => leOf_antisymm d a b) h₁ h₂ hp

theorem mergeSort_unique (d : Bool) {l s : List Int} (hs : s.Pairwise fun a b => leOf d a b) (hp : s.Perm l) :
    l.mergeSort (leOf d) = s :=
  sorted_perm_unique d (List.pairwise_mergeSort (leOf_trans d) (leOf_total d) l) hs
    ((List.mergeSort_perm l (leOf d)).trans hp.symm)

/-- the data of a group after `np.sort` and the optional reversal -/
def sortedData (descending : Bool) (es : Row) : List Int :=
  if descending then ((es.map (·.2)).mergeSort leAsc).reverse else (es.map (·.2)).mergeSort leAsc

theorem sortedData_pairwise (d : Bool) (es : Row) : (sortedData d es).Pairwise fun a b => leOf d a b := by
  have h := List.pairwise_mergeSort leAsc_trans leAsc_total (es.map (·.2))
  cases d
  · simpa [sortedData, leOf] using h
  · simp only [sortedData, leOf, if_true, List.pairwise_reverse]
    exact h.imp (fun {a b} hab => by simpa [leAsc, leDesc] using hab)

theorem sortedData_perm (d : Bool) (es : Row) : (sortedData d es).Perm (valsR es) := by
  cases d
  · simpa [sortedData, valsR] using List.mergeSort_perm (es.map (·.2)) leAsc
  · simp only [sortedData, if_true, valsR]
    exact (List.reverse_perm _).trans (List.mergeSort_perm _ _)

theorem sortedData_length (d : Bool) (es : Row) : (sortedData d es).length = es.length := by
  simpa [valsR] using (sortedData_perm d es).length_eq

theorem precedes_eq (d : Bool) (fill : Int) :
    (fun x : Int => if d then decide (fill > x) else decide (fill < x)) = fun x => !leOf d x fill := by
  funext x
  cases d
  · by_cases h : x ≤ fill
    · have : ¬ fill < x := by omega
      simp [leOf, leAsc, h, this]
    · have : fill < x := by omega
      simp [leOf, leAsc, h, this]
  · by_cases h : fill ≤ x
    · have : ¬ fill > x := by omega
      simp [leOf, leDesc, h, this]
    · have : fill > x := by omega
      simp [leOf, leDesc, h, this]

theorem sortRow_eq (d : Bool) (n : Nat) (fill : Int) (es : Row) :
    sortRow d n fill es =
      ((List.range (sortedData d es).length).map fun i =>
        if i < (sortedData d es).findIdx (fun x => !leOf d x fill) then i else i + (n - (sortedData d es).length)).zip
        (sortedData d es) := by
  rw [sortedData_length]
  unfold sortRow
  simp only [precedes_eq]
  rfl

/-- **core of `sort_row_spec`** -/
theorem sortRow_dense (d : Bool) (n : Nat) (fill : Int) (es : Row) (h : RowWF n es) :
    RowWF n (sortRow d n fill es) ∧
    densifyRow n fill (sortRow d n fill es) = (densifyRow n fill es).mergeSort (leOf d) := by
  have hk : (sortedData d es).length ≤ n := by
    rw [sortedData_length]; simpa using RowFrom.length_le h
  have hpos := List.findIdx_le_length (xs := sortedData d es) (p := fun x => !leOf d x fill)
  have hwf := placeFill_wf n (sortedData d es) _ hpos hk
  rw [sortRow_eq]
  refine ⟨hwf, ?_⟩
  rw [densifyRow_eq_walk fill hwf, placeFill_dense fill n _ _ hpos hk]
  symm
  apply mergeSort_unique d (placeFill_sorted (leOf d) (leOf_trans d) (leOf_total d) _ (sortedData_pairwise d es) fill _)
  -- permutation: take ++ fill.. ++ drop  ~  data ++ fill..  ~  vals ++ fill..  ~  dense input
  refine List.Perm.trans ?_ (densifyRow_perm fill h).symm
  rw [List.append_assoc]
  refine (List.Perm.append_left _ List.perm_append_comm).trans ?_
  rw [← List.append_assoc, List.take_append_drop, sortedData_length]
  exact List.Perm.append_right _ (sortedData_perm d es)

/-! ### argmax / argmin -/

theorem argmaxD_eq {l : List Int} {i : Nat} (hi : i < l.length) (hmax : ∀ w ∈ l, w ≤ l[i])
    (hfirst : ∀ j (hj : j < i), l[j] < l[i]) : argmaxD l = i := by
  unfold argmaxD
  rw [List.findIdx_eq hi]
  constructor
  · simp only [List.all_eq_true, decide_eq_true_eq]
    exact hmax
  · intro j hj
    rw [List.all_eq_false]
    refine ⟨l[i], List.getElem_mem hi, ?_⟩
    have := hfirst j hj
    simp only [decide_eq_true_eq]
    omega

theorem exists_max : ∀ (l : List Int), l ≠ [] → ∃ m ∈ l, ∀ w ∈ l, w ≤ m
  | [a], _ => ⟨a, List.mem_cons_self, fun w hw => by simp at hw; omega⟩
  | a :: b :: t, _ => by
    obtain ⟨m, hm, hmax⟩ := exists_max (b :: t) (by simp)
    by_cases h : a ≤ m
    · refine ⟨m, List.mem_cons_of_mem _ hm, fun w hw => ?_⟩
      rcases List.mem_cons.mp hw with rfl | hw
      · exact h
      · exact hmax w hw
    · refine ⟨a, List.mem_cons_self, fun w hw => ?_⟩
      rcases List.mem_cons.mp hw with rfl | hw
      · omega
      · have := hmax w hw; omega

theorem argmaxD_spec {l : List Int} (hne : l ≠ []) :
    ∃ (h : argmaxD l < l.length), (∀ w ∈ l, w ≤ l[argmaxD l]) ∧ ∀ j (hj : j < argmaxD l), l[j] < l[argmaxD l] := by
  obtain ⟨m, hm, hmax⟩ := exists_max l hne
  have hex : ∃ x ∈ l, (l.all fun w => decide (w ≤ x)) = true :=
    ⟨m, hm, by simpa [List.all_eq_true] using hmax⟩
  have hlt : argmaxD l < l.length := List.findIdx_lt_length_of_exists hex
  have hp : (l.all fun w => decide (w ≤ l[argmaxD l])) = true := List.findIdx_getElem (w := hlt)
  have hall : ∀ w ∈ l, w ≤ l[argmaxD l] := by
    intro w hw
    have := List.all_eq_true.mp hp w hw
    simpa using this
  refine ⟨hlt, hall, fun j hj => ?_⟩
  have hn := List.not_of_lt_findIdx (p := fun v => l.all fun w => decide (w ≤ v)) (xs := l) hj
  rw [List.all_eq_false] at hn
  obtain ⟨w, hw, hwj⟩ := hn
  have := hall w hw
  simp only [decide_eq_true_eq] at hwj
  omega

theorem getElem_keysR (es : Row) (a : Nat) (h : a < es.length) : (keysR es)[a]'(by simpa [keysR] using h) = es[a].1 := by
  simp [keysR]

theorem sorted_keys_index_lt {es : Row} (h : (keysR es).Pairwise (· < ·)) {a b : Nat} (ha : a < es.length)
    (hb : b < es.length) (hlt : es[a].1 < es[b].1) : a < b := by
  apply Decidable.byContradiction
  intro hnot
  have hba : b ≤ a := by omega
  rcases Nat.lt_or_eq_of_le hba with hba | hba
  · have := List.pairwise_iff_getElem.mp h b a (by simpa [keysR] using hb) (by simpa [keysR] using ha) hba
    rw [getElem_keysR es b hb, getElem_keysR es a ha] at this
    omega
  · subst hba; omega

/-- a full row stores every position -/
theorem RowFrom.full : ∀ {es : Row} {s n : Nat}, RowFrom s n es → es.length = n - s →
    ∀ j, s ≤ j → j < n → j ∈ keysR es
  | [], s, n, _, hl, j, h1, h2 => by simp at hl; omega
  | (p, v) :: es, s, n, h, hl, j, h1, h2 => by
    have hh := h.head
    have ht := h.tail
    have hle := RowFrom.length_le ht
    simp only [List.length_cons] at hl
    have hp : p = s := by omega
    simp only [keysR, List.map_cons, List.mem_cons]
    by_cases hj : j = p
    · left; exact hj
    · right
      exact RowFrom.full ht (by omega) j (by omega) h2

/-- the first-gap loop on sorted positions: it returns the first unstored position -/
theorem gapSearch_spec : ∀ (ks : List Nat) (s : Nat), ks.Pairwise (· < ·) → (∀ k ∈ ks, s ≤ k) →
    s ≤ gapSearch ((s : Int) - 1) s ks ∧ gapSearch ((s : Int) - 1) s ks ≤ s + ks.length ∧
    gapSearch ((s : Int) - 1) s ks ∉ ks ∧ ∀ j, s ≤ j → j < gapSearch ((s : Int) - 1) s ks → j ∈ ks
  | [], s, _, _ => by
    have : ((s : Int) - 1 + 1).toNat = s := by omega
    simp [gapSearch, this]
  | c :: cs, s, hp, hb => by
    have hc : s ≤ c := hb c List.mem_cons_self
    rw [List.pairwise_cons] at hp
    unfold gapSearch
    by_cases hgap : (c : Int) - ((s : Int) - 1) > 1
    · simp only [hgap, if_true]
      refine ⟨Nat.le_refl _, by omega, ?_, fun j h1 h2 => by omega⟩
      intro hm
      rcases List.mem_cons.mp hm with h | h
      · omega
      · have := hp.1 s h; omega
    · simp only [hgap, if_false]
      have hcs : c = s := by omega
      subst hcs
      have ih := gapSearch_spec cs (c + 1) hp.2 (fun k hk => by have := hp.1 k hk; omega)
      have hcast : ((c + 1 : Nat) : Int) - 1 = (c : Int) := by omega
      rw [hcast] at ih
      obtain ⟨i1, i2, i3, i4⟩ := ih
      refine ⟨by omega, by simp only [List.length_cons]; omega, ?_, ?_⟩
      · intro hm
        rcases List.mem_cons.mp hm with h | h
        · omega
        · exact i3 h
      · intro j h1 h2
        by_cases hj : j = c
        · subst hj; exact List.mem_cons_self
        · exact List.mem_cons_of_mem _ (i4 j (by omega) h2)

theorem mergeSort_keys_of_sorted {ks : List Nat} (h : ks.Pairwise (· < ·)) :
    ks.mergeSort (fun a b => decide (a ≤ b)) = ks :=
  List.mergeSort_of_pairwise (h.imp fun {a b} hab => by simp; omega)

theorem mem_keysR_iff {es : Row} {j : Nat} : j ∈ keysR es ↔ ∃ v, (j, v) ∈ es := by
  constructor
  · intro h
    obtain ⟨e, he, hk⟩ := List.mem_map.mp h
    exact ⟨e.2, by rw [← hk]; exact he⟩
  · rintro ⟨v, hv⟩
    exact List.mem_map.mpr ⟨(j, v), hv, rfl⟩

/-- **core of `argmax_first_occurrence`** (max mode) -/
theorem argMaxCol_dense (n : Nat) (fill : Int) (es : Row) (h : RowWF n es)
    (hex : ExcludedArgStoredFill true n fill es = false) :
    argMinMaxCol true n fill es = argmaxD (densifyRow n fill es) := by
  have hnd := h.nodup
  have hlen := length_densifyRow n fill es
  have hkn : es.length ≤ n := by simpa using RowFrom.length_le h
  symm
  unfold argMinMaxCol
  simp only [if_true]
  by_cases hcond : ((es.map (·.2)).any (fun v => decide (v > fill)) || es.length == n) = true
  · simp only [hcond, if_true]
    by_cases hne : es = []
    · subst hne
      have hn : n = 0 := by
        have := hcond
        simp at this
        omega
      subst hn
      simp [densifyRow, argmaxD]
    · have hvne : es.map (·.2) ≠ [] := by simpa using hne
      obtain ⟨hb, hmaxv, hfirstv⟩ := argmaxD_spec hvne
      have hb' : argmaxD (es.map (·.2)) < es.length := by simpa using hb
      have hgetD : (es.map (·.1)).getD (argmaxD (es.map (·.2))) 0 = es[argmaxD (es.map (·.2))].1 := by
        simp [List.getD_eq_getElem?_getD, hb']
      rw [hgetD]
      have hM : (es.map (·.2))[argmaxD (es.map (·.2))] = es[argmaxD (es.map (·.2))].2 := by simp
      rw [hM] at hmaxv hfirstv
      have hmem : es[argmaxD (es.map (·.2))] ∈ es := List.getElem_mem hb'
      have hPn : es[argmaxD (es.map (·.2))].1 < n := (h.2 _ hmem).2
      -- unstored positions carry a value below the stored maximum
      have hunst : ∀ j, j < n → j ∉ keysR es → fill < es[argmaxD (es.map (·.2))].2 := by
        intro j hj hnk
        rcases Bool.or_eq_true _ _ ▸ hcond with hc | hc
        · obtain ⟨v, hv, hvf⟩ := List.any_eq_true.mp hc
          have := hmaxv v hv
          simp only [gt_iff_lt, decide_eq_true_eq] at hvf
          omega
        · have hfull : es.length = n - 0 := by simpa using hc
          exact absurd (RowFrom.full h hfull j (Nat.zero_le _) hj) hnk
      have hPd : es[argmaxD (es.map (·.2))].1 < (densifyRow n fill es).length := by omega
      have hdP : (densifyRow n fill es)[es[argmaxD (es.map (·.2))].1] = es[argmaxD (es.map (·.2))].2 := by
        rw [getElem_densifyRow]
        exact lookupRow_of_mem hnd hmem
      apply argmaxD_eq hPd
      · intro w hw
        obtain ⟨j, hj, rfl⟩ := List.mem_iff_getElem.mp hw
        rw [hdP, getElem_densifyRow]
        rcases lookupRow_mem_or es fill j with ⟨hnk, hf⟩ | hm
        · rw [hf]; have := hunst j (by omega) hnk; omega
        · exact hmaxv _ (List.mem_map.mpr ⟨_, hm, rfl⟩)
      · intro j hj
        rw [hdP, getElem_densifyRow]
        rcases lookupRow_mem_or es fill j with ⟨hnk, hf⟩ | hm
        · rw [hf]; exact hunst j (by omega) hnk
        · obtain ⟨a, ha, hea⟩ := List.mem_iff_getElem.mp hm
          have hlt : es[a].1 < es[argmaxD (es.map (·.2))].1 := by rw [hea]; exact hj
          have hab := sorted_keys_index_lt h.1 ha hb' hlt
          have := hfirstv a hab
          simp only [List.getElem_map, hea] at this
          exact this
  · simp only [hcond, Bool.false_eq_true, if_false]
    have hcond' : ((es.map (·.2)).any (fun v => decide (v > fill)) || es.length == n) = false := by
      simpa using hcond
    rw [Bool.or_eq_false_iff] at hcond'
    obtain ⟨hc1, hc2⟩ := hcond'
    have hle : ∀ e ∈ es, e.2 ≤ fill := by
      intro e he
      have := List.any_eq_false.mp hc1 e.2 (List.mem_map.mpr ⟨e, he, rfl⟩)
      simp only [gt_iff_lt, decide_eq_true_eq] at this
      omega
    have hk : es.length < n := by
      have : es.length ≠ n := by simpa using hc2
      omega
    have hks : (es.map (·.1)).mergeSort (fun a b => decide (a ≤ b)) = es.map (·.1) := mergeSort_keys_of_sorted h.1
    rw [hks]
    have hg := gapSearch_spec (es.map (·.1)) 0 (show (es.map (·.1)).Pairwise (· < ·) from h.1) (fun _ _ => Nat.zero_le _)
    have hcast : ((0 : Nat) : Int) - 1 = -1 := by omega
    rw [hcast] at hg
    obtain ⟨_, g2, g3, g4⟩ := hg
    have hgn : gapSearch (-1) 0 (es.map (·.1)) < (densifyRow n fill es).length := by
      simp only [List.length_map] at g2; omega
    have hdg : (densifyRow n fill es)[gapSearch (-1) 0 (es.map (·.1))] = fill := by
      rw [getElem_densifyRow]; exact lookupRow_of_not_mem g3
    -- no stored fill value before the gap
    have hnofill : ∀ e ∈ es, e.1 < gapSearch (-1) 0 (es.map (·.1)) → e.2 ≠ fill := by
      intro e he hlt heq
      unfold ExcludedArgStoredFill at hex
      simp only [if_true, hc1, hc2, Bool.or_self, Bool.not_false, Bool.true_and, hks] at hex
      have := List.any_eq_false.mp hex e he
      simp [heq, hlt] at this
    apply argmaxD_eq hgn
    · intro w hw
      obtain ⟨j, hj, rfl⟩ := List.mem_iff_getElem.mp hw
      rw [hdg, getElem_densifyRow]
      rcases lookupRow_mem_or es fill j with ⟨_, hf⟩ | hm
      · omega
      · exact hle _ hm
    · intro j hj
      rw [hdg, getElem_densifyRow]
      have hjk := g4 j (Nat.zero_le _) hj
      obtain ⟨v, hv⟩ := mem_keysR_iff.mp hjk
      rw [lookupRow_of_mem hnd hv]
      have h1 := hle _ hv
      have h2 := hnofill _ hv hj
      simp only at h1 h2
      omega

/-! argmin is argmax of the negated row -/

def negRow (es : Row) : Row := es.map fun e => (e.1, -e.2)

theorem negRow_keys (es : Row) : (negRow es).map (·.1) = es.map (·.1) := by
  simp [negRow, Function.comp_def]

theorem negRow_vals (es : Row) : (negRow es).map (·.2) = (es.map (·.2)).map (fun v => -v) := by
  simp [negRow, Function.comp_def]

theorem negRow_wf {n : Nat} {es : Row} (h : RowWF n es) : RowWF n (negRow es) := by
  refine ⟨?_, ?_⟩
  · have : keysR (negRow es) = keysR es := negRow_keys es
    rw [this]; exact h.1
  · intro e he
    obtain ⟨e', he', rfl⟩ := List.mem_map.mp he
    exact h.2 e' he'

theorem argminD_eq_argmaxD_neg (l : List Int) : argminD l = argmaxD (l.map fun v => -v) := by
  unfold argminD argmaxD
  rw [List.findIdx_map]
  congr 1
  funext v
  simp only [Function.comp_def, List.all_map]
  congr 1
  funext w
  congr 1
  apply propext
  constructor <;> intro h <;> omega

theorem lookupRow_neg (es : Row) (fill : Int) (i : Nat) :
    lookupRow (negRow es) (-fill) i = -lookupRow es fill i := by
  induction es with
  | nil => simp [negRow, lookupRow_nil]
  | cons e es ih =>
    have : negRow (e :: es) = (e.1, -e.2) :: negRow es := rfl
    rw [this, lookupRow_cons, lookupRow_cons, ih]
    by_cases h : e.1 = i <;> simp [h]

theorem densifyRow_neg (n : Nat) (fill : Int) (es : Row) :
    densifyRow n (-fill) (negRow es) = (densifyRow n fill es).map fun v => -v := by
  unfold densifyRow
  rw [List.map_map]
  apply List.map_congr_left
  intro i _
  exact lookupRow_neg es fill i

theorem any_lt_neg (vals : List Int) (fill : Int) :
    (vals.any fun v => decide (v < fill)) = ((vals.map fun v => -v).any fun v => decide (v > -fill)) := by
  rw [List.any_map]
  congr 1
  funext v
  simp only [Function.comp_def]
  congr 1
  apply propext
  constructor <;> intro h <;> omega

theorem argMinMaxCol_neg (n : Nat) (fill : Int) (es : Row) :
    argMinMaxCol false n fill es = argMinMaxCol true n (-fill) (negRow es) := by
  unfold argMinMaxCol
  simp only [negRow_keys, negRow_vals, Bool.false_eq_true, if_false, if_true]
  rw [any_lt_neg, argminD_eq_argmaxD_neg]
  simp only [negRow, List.length_map]

theorem excludedArg_neg (n : Nat) (fill : Int) (es : Row) :
    ExcludedArgStoredFill false n fill es = ExcludedArgStoredFill true n (-fill) (negRow es) := by
  unfold ExcludedArgStoredFill
  simp only [negRow_keys, negRow_vals, Bool.false_eq_true, if_false, if_true]
  rw [any_lt_neg]
  congr 1
  · simp only [negRow, List.length_map]
  · simp only [negRow, List.any_map]
    congr 1
    funext e
    simp only [Function.comp_def]
    congr 1
    rw [Bool.eq_iff_iff]
    simp only [beq_iff_eq]
    constructor <;> intro h <;> omega

/-- **core of `argmin_first_occurrence`** -/
theorem argMinCol_dense (n : Nat) (fill : Int) (es : Row) (h : RowWF n es)
    (hex : ExcludedArgStoredFill false n fill es = false) :
    argMinMaxCol false n fill es = argminD (densifyRow n fill es) := by
  rw [argMinMaxCol_neg, argminD_eq_argmaxD_neg, ← densifyRow_neg]
  exact argMaxCol_dense n (-fill) (negRow es) (negRow_wf h) (by rw [← excludedArg_neg]; exact hex)

/-! ### unique: de-duplication, strictly sorted lists -/

theorem mem_dedupAdj {α : Type} [DecidableEq α] : ∀ (l : List α) (a : α), a ∈ dedupAdj l ↔ a ∈ l
  | [], a => by simp [dedupAdj]
  | [b], a => by simp [dedupAdj]
  | b :: c :: t, a => by
    have ih := mem_dedupAdj (c :: t) a
    rw [dedupAdj]
    by_cases h : b = c
    · simp only [h, if_true, ih, List.mem_cons]
      constructor
      · intro hh; right; exact hh
      · rintro (hh | hh)
        · left; exact hh
        · exact hh
    · simp only [h, if_false, List.mem_cons] at ih ⊢
      rw [ih]

theorem dedupAdj_sorted : ∀ (l : List Int), l.Pairwise (· ≤ ·) → (dedupAdj l).Pairwise (· < ·)
  | [], _ => by simp [dedupAdj]
  | [b], _ => by simp [dedupAdj]
  | b :: c :: t, h => by
    rw [List.pairwise_cons] at h
    have ih := dedupAdj_sorted (c :: t) h.2
    rw [dedupAdj]
    by_cases hbc : b = c
    · simp only [hbc, if_true]; exact ih
    · simp only [hbc, if_false, List.pairwise_cons]
      refine ⟨fun x hx => ?_, ih⟩
      rw [mem_dedupAdj] at hx
      have h1 := h.1 c List.mem_cons_self
      rcases List.mem_cons.mp hx with rfl | hx
      · omega
      · have h2 := (List.pairwise_cons.mp h.2).1 x hx
        omega

/-- two strictly sorted lists with the same elements are equal -/
theorem strict_sorted_ext {α : Type} {lt : α → α → Prop} (asymm : ∀ a b, lt a b → ¬ lt b a) :
    ∀ {l₁ l₂ : List α}, l₁.Pairwise lt → l₂.Pairwise lt → (∀ a, a ∈ l₁ ↔ a ∈ l₂) → l₁ = l₂
  | [], [], _, _, _ => rfl
  | [], b :: l₂, _, _, hm => by have := (hm b).mpr List.mem_cons_self; cases this
  | a :: l₁, [], _, _, hm => by have := (hm a).mp List.mem_cons_self; cases this
  | a :: l₁, b :: l₂, h₁, h₂, hm => by
    rw [List.pairwise_cons] at h₁ h₂
    have irrefl : ∀ x, ¬ lt x x := fun x hx => asymm x x hx hx
    have hab : a = b := by
      rcases List.mem_cons.mp ((hm a).mp List.mem_cons_self) with h | h
      · exact h
      · rcases List.mem_cons.mp ((hm b).mpr List.mem_cons_self) with h' | h'
        · exact h'.symm
        · exact absurd (h₁.1 b h') (asymm _ _ (h₂.1 a h))
    subst hab
    congr 1
    apply strict_sorted_ext asymm h₁.2 h₂.2
    intro x
    constructor
    · intro hx
      rcases List.mem_cons.mp ((hm x).mp (List.mem_cons_of_mem _ hx)) with h | h
      · subst h; exact absurd (h₁.1 x hx) (irrefl x)
      · exact h
    · intro hx
      rcases List.mem_cons.mp ((hm x).mpr (List.mem_cons_of_mem _ hx)) with h | h
      · subst h; exact absurd (h₂.1 x hx) (irrefl x)
      · exact h

theorem int_strict_sorted_ext {l₁ l₂ : List Int} (h₁ : l₁.Pairwise (· < ·)) (h₂ : l₂.Pairwise (· < ·))
    (hm : ∀ a, a ∈ l₁ ↔ a ∈ l₂) : l₁ = l₂ :=
  strict_sorted_ext (lt := (· < ·)) (fun a b h => by omega) h₁ h₂ hm

theorem mergeSort_asc_pairwise (l : List Int) : (l.mergeSort leAsc).Pairwise (· ≤ ·) :=
  (List.pairwise_mergeSort leAsc_trans leAsc_total l).imp fun {a b} h => by simpa [leAsc] using h

theorem uniqueValuesD_sorted (l : List Int) : (uniqueValuesD l).Pairwise (· < ·) :=
  dedupAdj_sorted _ (mergeSort_asc_pairwise l)

theorem mem_uniqueValuesD (l : List Int) (a : Int) : a ∈ uniqueValuesD l ↔ a ∈ l := by
  unfold uniqueValuesD
  rw [mem_dedupAdj, List.mem_mergeSort]

theorem uniqueValuesD_nodup (l : List Int) : (uniqueValuesD l).Nodup :=
  (uniqueValuesD_sorted l).imp fun {a b} h => by omega

theorem uniqueValuesD_congr {l₁ l₂ : List Int} (h : ∀ a, a ∈ l₁ ↔ a ∈ l₂) : uniqueValuesD l₁ = uniqueValuesD l₂ :=
  int_strict_sorted_ext (uniqueValuesD_sorted _) (uniqueValuesD_sorted _)
    (fun a => by rw [mem_uniqueValuesD, mem_uniqueValuesD]; exact h a)

/-! dense rows: members and multiplicities -/

theorem mem_densifyRow {n : Nat} {es : Row} (fill : Int) (h : RowWF n es) (a : Int) :
    a ∈ densifyRow n fill es ↔ a ∈ valsR es ∨ (a = fill ∧ es.length < n) := by
  rw [(densifyRow_perm fill h).mem_iff, List.mem_append, List.mem_replicate]
  constructor
  · rintro (h1 | ⟨h1, h2⟩)
    · left; exact h1
    · right; exact ⟨h2, by omega⟩
  · rintro (h1 | ⟨h1, h2⟩)
    · left; exact h1
    · right; exact ⟨by omega, h1⟩

theorem count_densifyRow {n : Nat} {es : Row} (fill : Int) (h : RowWF n es) (a : Int) :
    (densifyRow n fill es).count a = (valsR es).count a + if a = fill then n - es.length else 0 := by
  rw [(densifyRow_perm fill h).count_eq, List.count_append, List.count_replicate]
  congr 1
  by_cases hf : a = fill
  · simp [hf]
  · have : ¬ fill = a := fun hh => hf hh.symm
    simp [hf, this]

/-- **core of `unique_values_spec`**: for a row that stores no fill value next to an unstored cell -/
theorem uniqueValues_core {n : Nat} {es : Row} (fill : Int) (h : RowWF n es)
    (hnf : es.length < n → fill ∉ valsR es) :
    (if es.length < n then (fill :: uniqueValuesD (valsR es)).mergeSort leAsc else uniqueValuesD (valsR es))
      = uniqueValuesD (densifyRow n fill es) := by
  by_cases hk : es.length < n
  · simp only [hk, if_true]
    apply int_strict_sorted_ext _ (uniqueValuesD_sorted _)
    · intro a
      rw [List.mem_mergeSort, List.mem_cons, mem_uniqueValuesD, mem_uniqueValuesD, mem_densifyRow fill h]
      constructor
      · rintro (h1 | h1)
        · right; exact ⟨h1, hk⟩
        · left; exact h1
      · rintro (h1 | ⟨h1, _⟩)
        · right; exact h1
        · left; exact h1
    · have hnd : (fill :: uniqueValuesD (valsR es)).Nodup := by
        rw [List.nodup_cons]
        exact ⟨fun hm => hnf hk ((mem_uniqueValuesD _ _).mp hm), uniqueValuesD_nodup _⟩
      have hnd' : ((fill :: uniqueValuesD (valsR es)).mergeSort leAsc).Nodup :=
        (List.mergeSort_perm _ _).nodup_iff.mpr hnd
      exact ((mergeSort_asc_pairwise _).and hnd').imp fun {a b} hab => by
        have := hab.1; have := hab.2; omega
  · simp only [hk, if_false]
    apply uniqueValuesD_congr
    intro a
    rw [mem_densifyRow fill h]
    constructor
    · intro h1; left; exact h1
    · rintro (h1 | ⟨_, h2⟩)
      · exact h1
      · exact absurd h2 hk

/-! pruning -/

theorem pruneRow_wf {n : Nat} {es : Row} (fill : Int) (h : RowWF n es) : RowWF n (pruneRow fill es) := by
  refine ⟨?_, fun e he => h.2 e (List.mem_filter.mp he).1⟩
  have : (keysR (pruneRow fill es)).Sublist (keysR es) := by
    unfold keysR pruneRow
    exact List.Sublist.map _ List.filter_sublist
  exact h.1.sublist this

theorem pruneRow_nofill (fill : Int) (es : Row) : fill ∉ valsR (pruneRow fill es) := by
  intro hm
  obtain ⟨e, he, hv⟩ := List.mem_map.mp hm
  have := (List.mem_filter.mp he).2
  simp [hv] at this

theorem lookupRow_prune {es : Row} (fill : Int) (hnd : (keysR es).Nodup) (i : Nat) :
    lookupRow (pruneRow fill es) fill i = lookupRow es fill i := by
  have hnd' : (keysR (pruneRow fill es)).Nodup := by
    have : (keysR (pruneRow fill es)).Sublist (keysR es) := by
      unfold keysR pruneRow
      exact List.Sublist.map _ List.filter_sublist
    exact hnd.sublist this
  rcases lookupRow_mem_or es fill i with ⟨hnk, hf⟩ | hm
  · rw [hf]
    apply lookupRow_of_not_mem
    intro hm
    obtain ⟨e, he, hk⟩ := List.mem_map.mp hm
    exact hnk (List.mem_map.mpr ⟨e, (List.mem_filter.mp he).1, hk⟩)
  · by_cases hv : lookupRow es fill i = fill
    · rw [hv]
      apply lookupRow_of_not_mem
      intro hm'
      obtain ⟨e, he, hk⟩ := List.mem_map.mp hm'
      have hmem := (List.mem_filter.mp he).1
      have hne := (List.mem_filter.mp he).2
      have : lookupRow es fill i = e.2 := lookupRow_of_mem hnd (by rw [← hk]; exact hmem)
      rw [hv] at this
      simp [← this] at hne
    · exact lookupRow_of_mem hnd' (List.mem_filter.mpr ⟨hm, by simpa using hv⟩)

theorem densifyRow_prune {n : Nat} {es : Row} (fill : Int) (h : RowWF n es) :
    densifyRow n fill (pruneRow fill es) = densifyRow n fill es := by
  unfold densifyRow
  apply List.map_congr_left
  intro i _
  exact lookupRow_prune fill h.nodup i

/-! ### argsort, gather, scatter -/

theorem length_argsort (l : List Int) : (argsort l).length = l.length := by simp [argsort]

theorem mem_argsort {l : List Int} {j : Nat} (h : j ∈ argsort l) : j < l.length := by
  simpa [argsort] using h

theorem map_getD_range {α : Type} (d : α) (l : List α) : (List.range l.length).map (l.getD · d) = l := by
  apply List.ext_getElem
  · simp
  · intro i h1 h2
    simp [List.getD_eq_getElem?_getD, List.getElem?_eq_getElem h2]

/-- `values[np.argsort(values)]` is the sorted array -/
theorem gather_argsort (l : List Int) : gather 0 (argsort l) l = l.mergeSort leAsc := by
  unfold gather argsort
  have := List.map_mergeSort (r := fun i j => decide (l.getD i 0 ≤ l.getD j 0)) (s := leAsc)
    (f := fun i => l.getD i 0) (l := List.range l.length) (fun a _ b _ => rfl)
  rw [this, map_getD_range]

theorem gather_map {α β : Type} (d : α) (d' : β) (f : α → β) (p : List Nat) (l : List α)
    (hp : ∀ j ∈ p, j < l.length) : gather d' p (l.map f) = (gather d p l).map f := by
  unfold gather
  rw [List.map_map]
  apply List.map_congr_left
  intro j hj
  have := hp j hj
  simp [List.getD_eq_getElem?_getD, this]

theorem getD_append_length {α : Type} (d : α) (pre : List α) (v : α) (vs : List α) :
    (pre ++ v :: vs).getD pre.length d = v := by
  simp [List.getD_eq_getElem?_getD]

theorem gather_range' {α : Type} (d : α) : ∀ (rest pre : List α),
    gather d (List.range' pre.length rest.length) (pre ++ rest) = rest
  | [], pre => by simp [gather]
  | v :: vs, pre => by
    have ih := gather_range' d vs (pre ++ [v])
    simp only [List.length_append, List.length_cons, List.length_nil, List.append_assoc, List.cons_append,
      List.nil_append, Nat.zero_add] at ih
    simp only [gather, List.length_cons, List.range'_succ, List.map_cons] at ih ⊢
    rw [ih, getD_append_length]

theorem scatter_range' {α : Type} : ∀ (rest pre : List α),
    scatterAux (List.range' pre.length rest.length) rest (pre ++ rest) = pre ++ rest
  | [], pre => by simp [scatterAux]
  | v :: vs, pre => by
    have ih := scatter_range' vs (pre ++ [v])
    simp only [List.length_append, List.length_cons, List.length_nil, List.append_assoc, List.cons_append,
      List.nil_append, Nat.zero_add] at ih
    simp only [List.length_cons, List.range'_succ, scatterAux]
    have hset : (pre ++ v :: vs).set pre.length v = pre ++ v :: vs := by
      rw [List.set_append_right _ _ (Nat.le_refl _)]
      simp
    rw [hset, ih]

/-- an index list that sorts a duplicate-free list is its argsort -/
theorem argsort_eq_of {l : List Int} (hnd : l.Nodup) {q : List Nat} (hlen : q.length = l.length)
    (hq : ∀ j ∈ q, j < l.length) (hg : gather 0 q l = l.mergeSort leAsc) : argsort l = q := by
  have hg' := gather_argsort l
  apply List.ext_getElem
  · rw [length_argsort, hlen]
  · intro i h1 h2
    have e1 : (gather 0 (argsort l) l)[i]'(by simp [gather]; exact h1) = (gather 0 q l)[i]'(by simp [gather]; exact h2) := by
      simp only [hg', hg]
    simp only [gather, List.getElem_map] at e1
    have b1 : (argsort l)[i] < l.length := mem_argsort (List.getElem_mem h1)
    have b2 : q[i] < l.length := hq _ (List.getElem_mem h2)
    exact (List.getD_inj b1 b2 hnd).mp e1

/-- **when the inverse permutation is harmless**: for `fill :: U` with `U` strictly increasing, not
containing `fill`, and at most one element of `U` below `fill`, the argsort permutation is an
involution, so writing through it equals reading through it. -/
theorem scatter_eq_gather_of_le_one {β : Type} (d : β) (fill : Int) (U : List Int) (hU : U.Pairwise (· < ·))
    (hnf : fill ∉ U) (hone : U.countP (fun v => decide (v < fill)) ≤ 1) (xs : List β)
    (hxs : xs.length = U.length + 1) :
    scatter (argsort (fill :: U)) xs = gather d (argsort (fill :: U)) xs := by
  have hndU : U.Nodup := hU.imp fun {a b} h => by omega
  have hnd : (fill :: U).Nodup := List.nodup_cons.mpr ⟨hnf, hndU⟩
  -- case A: every element of U is above fill -> identity permutation
  have caseA : (∀ u ∈ U, fill < u) → scatter (argsort (fill :: U)) xs = gather d (argsort (fill :: U)) xs := by
    intro hall
    have hsorted : (fill :: U).Pairwise (fun a b => leAsc a b) := by
      rw [List.pairwise_cons]
      refine ⟨fun u hu => by have := hall u hu; simp [leAsc]; omega, hU.imp fun {a b} h => by simp [leAsc]; omega⟩
    have hp : argsort (fill :: U) = List.range' 0 (U.length + 1) := by
      apply argsort_eq_of hnd (by simp) (by intro j hj; simp [List.mem_range'_1] at hj ⊢; omega)
      have := gather_range' (0 : Int) (fill :: U) []
      simp only [List.length_nil, List.nil_append, List.length_cons] at this
      rw [this, List.mergeSort_of_pairwise hsorted]
    rw [hp, ← hxs]
    have h1 := scatter_range' xs []
    have h2 := gather_range' d xs []
    simp only [List.length_nil, List.nil_append] at h1 h2
    unfold scatter
    rw [h1, h2]
  cases U with
  | nil => exact caseA (by simp)
  | cons u0 U' =>
    rw [List.pairwise_cons] at hU
    by_cases h0 : fill < u0
    · apply caseA
      intro u hu
      rcases List.mem_cons.mp hu with rfl | hu
      · exact h0
      · have := hU.1 u hu; omega
    · -- case B: exactly u0 below fill -> the transposition (0 1)
      have hu0 : u0 < fill := by
        have : fill ≠ u0 := fun hh => hnf (by rw [hh]; exact List.mem_cons_self)
        omega
      have hrest : ∀ u ∈ U', fill < u := by
        intro u hu
        have hc : U'.countP (fun v => decide (v < fill)) = 0 := by
          simp only [List.countP_cons, hu0, decide_true, if_true] at hone
          omega
        have := (List.countP_eq_zero.mp hc) u hu
        have hne : fill ≠ u := fun hh => hnf (by rw [hh]; exact List.mem_cons_of_mem _ hu)
        simp only [decide_eq_true_eq] at this
        omega
      have hp : argsort (fill :: u0 :: U') = 1 :: 0 :: List.range' 2 U'.length := by
        apply argsort_eq_of hnd (by simp)
        · intro j hj
          simp only [List.mem_cons, List.mem_range'_1] at hj
          simp only [List.length_cons]
          omega
        · have hg := gather_range' (0 : Int) U' [fill, u0]
          simp only [List.length_cons, List.length_nil, List.cons_append, List.nil_append] at hg
          have : gather 0 (1 :: 0 :: List.range' 2 U'.length) (fill :: u0 :: U') = u0 :: fill :: U' := by
            simp only [gather, List.map_cons] at hg ⊢
            rw [hg]
            simp
          rw [this]
          symm
          apply mergeSort_unique false
          · rw [List.pairwise_cons, List.pairwise_cons]
            refine ⟨?_, ?_, hU.2.imp fun {a b} h => by simp [leOf, leAsc]; omega⟩
            · intro x hx
              rcases List.mem_cons.mp hx with rfl | hx
              · simp [leOf, leAsc]; omega
              · have := hU.1 x hx; simp [leOf, leAsc]; omega
            · intro x hx
              have := hrest x hx; simp [leOf, leAsc]; omega
          · exact List.Perm.swap _ _ _
      rw [hp]
      match xs, hxs with
      | x0 :: x1 :: xr, hxs =>
        have hl : xr.length = U'.length := by simpa using hxs
        have h1 := scatter_range' xr [x1, x0]
        have h2 := gather_range' d xr [x0, x1]
        simp only [List.length_cons, List.length_nil, List.cons_append, List.nil_append, Nat.zero_add] at h1 h2
        rw [← hl]
        simp only [scatter, scatterAux, List.set_cons_succ, List.set_cons_zero, gather, List.map_cons] at h2 ⊢
        rw [h1, h2]
        simp

/-! ### unique_counts -/

theorem ucd_fst (l : List Int) : (uniqueCountsD l).map (·.1) = uniqueValuesD l := by
  simp [uniqueCountsD, Function.comp_def]

theorem ucd_snd (l : List Int) : (uniqueCountsD l).map (·.2) = (uniqueValuesD l).map fun v => l.count v := by
  simp [uniqueCountsD, Function.comp_def]

/-- **core of `unique_counts_spec`** for the corrected re-ordering (`values = values[sorted_indices]`) -/
theorem uniqueCounts_gather_core {n : Nat} {es : Row} (fill : Int) (h : RowWF n es)
    (hnf : es.length < n → fill ∉ valsR es) :
    (if es.length < n then
        (gather 0 (argsort (fill :: (uniqueCountsD (valsR es)).map (·.1))) (fill :: (uniqueCountsD (valsR es)).map (·.1)),
         gather 0 (argsort (fill :: (uniqueCountsD (valsR es)).map (·.1))) ((n - es.length) :: (uniqueCountsD (valsR es)).map (·.2)))
      else ((uniqueCountsD (valsR es)).map (·.1), (uniqueCountsD (valsR es)).map (·.2)))
    = ((uniqueCountsD (densifyRow n fill es)).map (·.1), (uniqueCountsD (densifyRow n fill es)).map (·.2)) := by
  have hcore := uniqueValues_core fill h hnf
  rw [ucd_fst, ucd_snd, ucd_fst, ucd_snd]
  by_cases hk : es.length < n
  · simp only [hk, if_true] at hcore ⊢
    have hnf' := hnf hk
    have hvals : gather 0 (argsort (fill :: uniqueValuesD (valsR es))) (fill :: uniqueValuesD (valsR es))
        = uniqueValuesD (densifyRow n fill es) := by rw [gather_argsort, hcore]
    -- the count list is the value list mapped through the dense multiplicity
    have hcounts : (n - es.length) :: (uniqueValuesD (valsR es)).map (fun v => (valsR es).count v)
        = (fill :: uniqueValuesD (valsR es)).map fun v => (densifyRow n fill es).count v := by
      rw [List.map_cons]
      congr 1
      · rw [count_densifyRow fill h]
        have : (valsR es).count fill = 0 := List.count_eq_zero.mpr hnf'
        simp [this]
      · apply List.map_congr_left
        intro v hv
        rw [count_densifyRow fill h]
        have hv' : v ∈ valsR es := (mem_uniqueValuesD _ _).mp hv
        have : v ≠ fill := fun hh => hnf' (hh ▸ hv')
        simp [this]
    rw [hcounts, gather_map (0 : Int) (0 : Nat) _ _ _ (fun j hj => mem_argsort hj), hvals]
  · simp only [hk, if_false] at hcore ⊢
    rw [hcore]
    congr 1
    apply List.map_congr_left
    intro v _
    rw [count_densifyRow fill h]
    have : n - es.length = 0 := by omega
    simp [this]

theorem effectiveRow_facts {n : Nat} {es : Row} (fill : Int) (prune : Bool) (h : RowWF n es)
    (h1 : prune = true ∨ ExcludedStoredFill n fill es = false) :
    RowWF n (if prune then pruneRow fill es else es) ∧
    densifyRow n fill (if prune then pruneRow fill es else es) = densifyRow n fill es ∧
    ((if prune then pruneRow fill es else es).length < n → fill ∉ valsR (if prune then pruneRow fill es else es)) := by
  cases prune with
  | true =>
    simp only [if_true]
    exact ⟨pruneRow_wf fill h, densifyRow_prune fill h, fun _ => pruneRow_nofill fill es⟩
  | false =>
    simp only [Bool.false_eq_true, if_false]
    refine ⟨h, trivial, fun hk hm => ?_⟩
    rcases h1 with h1 | h1
    · cases h1
    · unfold ExcludedStoredFill at h1
      simp only [hk, decide_true, Bool.true_and] at h1
      obtain ⟨e, he, hv⟩ := List.mem_map.mp hm
      have := List.any_eq_false.mp h1 e he
      simp [hv] at this

/-- `unique_counts`, every variant: right whenever no fill value is stored next to an unstored cell
(or the input is pruned first) and the re-ordering is the corrected one (or at most one distinct stored
value lies below the fill value). -/
theorem uniqueCountsWith_dense (step : PermStep) (prune : Bool) {n : Nat} {es : Row} (fill : Int) (h : RowWF n es)
    (h1 : prune = true ∨ ExcludedStoredFill n fill es = false)
    (h2 : step = .gather ∨ ExcludedTwoBelow n fill (if prune then pruneRow fill es else es) = false) :
    uniqueCountsWith step prune n fill es
      = ((uniqueCountsD (densifyRow n fill es)).map (·.1), (uniqueCountsD (densifyRow n fill es)).map (·.2)) := by
  obtain ⟨hwf, hd, hnf⟩ := effectiveRow_facts fill prune h h1
  unfold uniqueCountsWith
  simp only []
  generalize (if prune = true then pruneRow fill es else es) = es' at hwf hd hnf h2 ⊢
  rw [← hd]
  have hcore := uniqueCounts_gather_core fill hwf hnf
  simp only [valsR] at hcore
  cases step with
  | gather => exact hcore
  | scatter =>
    rw [← hcore]
    by_cases hk : es'.length < n
    · simp only [hk, if_true]
      have h2' : ExcludedTwoBelow n fill es' = false := by
        rcases h2 with h2 | h2
        · cases h2
        · exact h2
      unfold ExcludedTwoBelow at h2'
      simp only [hk, decide_true, Bool.true_and, decide_eq_false_iff_not, Nat.not_le] at h2'
      have hU := uniqueValuesD_sorted (es'.map (·.2))
      have hnfU : fill ∉ uniqueValuesD (es'.map (·.2)) := fun hm => hnf hk ((mem_uniqueValuesD _ _).mp hm)
      have hfst := ucd_fst (es'.map (·.2))
      rw [hfst]
      have e1 := scatter_eq_gather_of_le_one (0 : Int) fill _ hU hnfU (by omega) (fill :: uniqueValuesD (es'.map (·.2))) (by simp)
      have e2 := scatter_eq_gather_of_le_one (0 : Nat) fill _ hU hnfU (by omega)
        ((n - es'.length) :: (uniqueCountsD (es'.map (·.2))).map (·.2)) (by rw [ucd_snd]; simp)
      rw [e1, e2]
    · simp only [hk, if_false]

/-- `unique_values`, both variants -/
theorem uniqueValuesWith_dense (prune : Bool) {n : Nat} {es : Row} (fill : Int) (h : RowWF n es)
    (h1 : prune = true ∨ ExcludedStoredFill n fill es = false) :
    uniqueValuesWith prune n fill es = uniqueValuesD (densifyRow n fill es) := by
  obtain ⟨hwf, hd, hnf⟩ := effectiveRow_facts fill prune h h1
  unfold uniqueValuesWith
  simp only []
  generalize (if prune = true then pruneRow fill es else es) = es' at hwf hd hnf ⊢
  rw [← hd]
  exact uniqueValues_core fill hwf hnf

/-! ### nonzero: row-major enumeration -/

theorem mem_allIdx : ∀ (s : List Nat) (i : Idx), i ∈ allIdx s ↔ InB i s
  | [], i => by
    cases i with
    | nil => simp [allIdx, InB]
    | cons a r => simp [allIdx, InB]
  | d :: ds, i => by
    simp only [allIdx, List.mem_flatMap, List.mem_range, List.mem_map]
    constructor
    · rintro ⟨a, ha, r, hr, rfl⟩
      exact ⟨ha, (mem_allIdx ds r).mp hr⟩
    · intro h
      cases i with
      | nil => cases h
      | cons a r => exact ⟨a, h.1, r, (mem_allIdx ds r).mpr h.2, rfl⟩

theorem allIdx_sorted : ∀ (s : List Nat), (allIdx s).Pairwise (· < ·)
  | [] => by simp [allIdx]
  | d :: ds => by
    have ih := allIdx_sorted ds
    simp only [allIdx]
    rw [List.pairwise_flatMap]
    constructor
    · intro a _
      rw [List.pairwise_map]
      exact ih.imp fun {r r'} h => List.cons_lt_cons_iff.mpr (Or.inr ⟨rfl, h⟩)
    · refine List.pairwise_lt_range.imp ?_
      intro a1 a2 h x hx y hy
      obtain ⟨r, _, rfl⟩ := List.mem_map.mp hx
      obtain ⟨r', _, rfl⟩ := List.mem_map.mp hy
      exact List.cons_lt_cons_iff.mpr (Or.inl h)

theorem idx_lt_asymm (a b : Idx) (h : a < b) : ¬ b < a := List.lt_asymm h

/-- the stored, non-fill coordinates of a canonical array are the row-major list of non-fill positions -/
theorem keys_filter_eq (x : COO Int) (hc : x.Canonical) (f : Int) (hf : x.fill = f) :
    (x.entries.filter fun e => e.2 != f).map (·.1) = (allIdx x.shape).filter fun i => x.get i != f := by
  obtain ⟨hwf, hsorted⟩ := hc
  have hnd : (COO.keysOf x.entries).Nodup := by
    have : x.keys.Pairwise (· ≠ ·) := hsorted.imp fun {a b} h hab => by
      subst hab; exact idx_lt_asymm a a h h
    exact this
  apply strict_sorted_ext idx_lt_asymm
  · have : ((x.entries.filter fun e => e.2 != f).map (·.1)).Sublist x.keys :=
      List.Sublist.map _ List.filter_sublist
    exact hsorted.sublist this
  · exact (allIdx_sorted x.shape).filter _
  · intro i
    rw [List.mem_map, List.mem_filter, mem_allIdx]
    constructor
    · rintro ⟨e, he, rfl⟩
      obtain ⟨hm, hv⟩ := List.mem_filter.mp he
      refine ⟨hwf e hm, ?_⟩
      have : x.get e.1 = e.2 := by
        unfold COO.get
        exact COO.lookup_of_mem hnd hm
      rw [this]; exact hv
    · rintro ⟨_, hv⟩
      by_cases hk : i ∈ COO.keysOf x.entries
      · obtain ⟨e, he, rfl⟩ := List.mem_map.mp hk
        have : x.get e.1 = e.2 := by
          unfold COO.get
          exact COO.lookup_of_mem hnd he
        rw [this] at hv
        exact ⟨e, List.mem_filter.mpr ⟨he, hv⟩, rfl⟩
      · have : x.get i = f := by
          unfold COO.get
          rw [COO.lookup_of_not_mem hk, hf]
        simp [this] at hv

/-- **core of `nonzero_rowmajor`**, both variants -/
theorem nonzeroWith_dense (prune : Bool) (x : COO Int) (hc : x.Canonical) (hfill : x.fill = 0) (hsh : x.shape ≠ [])
    (h1 : prune = true ∨ ∀ e ∈ x.entries, e.2 ≠ 0) : nonzeroWith prune x = .ok (nonzeroD x) := by
  unfold nonzeroWith nonzeroD
  simp only [hfill, ne_eq, not_true_eq_false, if_false, hsh]
  congr 1
  rw [← keys_filter_eq x hc 0 hfill]
  cases prune with
  | true => simp
  | false =>
    simp only [Bool.false_eq_true, if_false]
    rcases h1 with h1 | h1
    · cases h1
    · congr 1
      symm
      rw [List.filter_eq_self]
      intro e he
      simpa using h1 e he

/-! ### the whole kernels: group / column extraction -/

/-- the runs, concatenated, are the input: `_sort_coo`'s group detection loses and duplicates nothing -/
theorem runs_flatten : ∀ (es : List (Nat × Nat × Int)),
    (runs es).flatMap (fun gr => gr.2.map fun e => (gr.1, e.1, e.2)) = es
  | [] => by simp [runs]
  | (g, c, v) :: rest => by
    have ih := runs_flatten rest
    rw [runs]
    cases hr : runs rest with
    | nil =>
      rw [hr] at ih
      simp at ih
      simp [← ih]
    | cons gr more =>
      obtain ⟨g', r⟩ := gr
      rw [hr] at ih
      by_cases hg : g = g'
      · subst hg
        simp only [if_true]
        simp only [List.flatMap_cons, List.map_cons, List.cons_append] at ih ⊢
        rw [ih]
      · simp only [hg, if_false]
        simp only [List.flatMap_cons, List.map_cons, List.map_nil, List.cons_append, List.nil_append] at ih ⊢
        rw [ih]

/-- on entries sorted by group coordinate (a canonical 2-d array) the run labels are strictly increasing:
every group is exactly one run -/
theorem runs_labels : ∀ (es : List (Nat × Nat × Int)), (es.map (·.1)).Pairwise (· ≤ ·) →
    ((runs es).map (·.1)).Pairwise (· < ·) ∧ ∀ gr ∈ runs es, ∃ e ∈ es, e.1 = gr.1
  | [], _ => by simp [runs]
  | (g, c, v) :: rest, h => by
    simp only [List.map_cons, List.pairwise_cons] at h
    obtain ⟨ih1, ih2⟩ := runs_labels rest h.2
    rw [runs]
    cases hr : runs rest with
    | nil => simp
    | cons gr more =>
      obtain ⟨g', r⟩ := gr
      rw [hr] at ih1 ih2
      simp only [List.map_cons, List.pairwise_cons] at ih1
      have hge : ∀ gr ∈ (g', r) :: more, g ≤ gr.1 := by
        intro gr hgr
        obtain ⟨e, he, hk⟩ := ih2 gr hgr
        rw [← hk]
        exact h.1 e.1 (List.mem_map.mpr ⟨e, he, rfl⟩)
      by_cases hg : g = g'
      · subst hg
        simp only [if_true, List.map_cons, List.pairwise_cons]
        refine ⟨ih1, ?_⟩
        intro gr hgr
        rcases List.mem_cons.mp hgr with rfl | hgr
        · exact ⟨(g, c, v), List.mem_cons_self, rfl⟩
        · obtain ⟨e, he, hk⟩ := ih2 gr (List.mem_cons_of_mem _ hgr)
          exact ⟨e, List.mem_cons_of_mem _ he, hk⟩
      · simp only [hg, if_false, List.map_cons, List.pairwise_cons]
        have hlt : g < g' := by
          have := hge (g', r) List.mem_cons_self
          simp only at this
          omega
        refine ⟨⟨?_, ih1⟩, ?_⟩
        · intro a ha
          rcases List.mem_cons.mp ha with rfl | ha
          · exact hlt
          · have := ih1.1 a ha; omega
        · intro gr hgr
          rcases List.mem_cons.mp hgr with rfl | hgr
          · exact ⟨(g, c, v), List.mem_cons_self, rfl⟩
          · obtain ⟨e, he, hk⟩ := ih2 gr hgr
            exact ⟨e, List.mem_cons_of_mem _ he, hk⟩

/-- the stored entries of group `g` -/
def rowOf (g : Nat) (e : Nat × Nat × Int) : Option (Nat × Int) := if e.1 = g then some (e.2.1, e.2.2) else none

theorem filterMap_rowOf_run (g g' : Nat) (r : Row) :
    (r.map fun e => (g', e.1, e.2)).filterMap (rowOf g) = if g' = g then r else [] := by
  by_cases h : g' = g
  · simp only [h, if_true, List.filterMap_map]
    have : (rowOf g ∘ fun e : Nat × Int => (g, e.1, e.2)) = some := by
      funext e; simp [rowOf]
    rw [this, List.filterMap_some]
  · simp only [h, if_false, List.filterMap_map]
    have : (rowOf g ∘ fun e : Nat × Int => (g', e.1, e.2)) = fun _ => none := by
      funext e; simp [rowOf, h]
    rw [this]; simp

/-- picking the one run labelled `g` commutes with any per-run function that maps `[]` to `[]` -/
theorem pick_run (g : Nat) (f : Row → Row) (hf : f [] = []) : ∀ (L : List (Nat × Row)), (L.map (·.1)).Nodup →
    L.flatMap (fun gr => if gr.1 = g then f gr.2 else []) = f (L.flatMap fun gr => if gr.1 = g then gr.2 else [])
  | [], _ => by simp [hf]
  | (g', r) :: L, hnd => by
    simp only [List.map_cons, List.nodup_cons] at hnd
    have ih := pick_run g f hf L hnd.2
    simp only [List.flatMap_cons]
    by_cases h : g' = g
    · subst h
      have hnone : ∀ (k : Row → Row), L.flatMap (fun gr => if gr.1 = g' then k gr.2 else []) = [] := by
        intro k
        rw [List.flatMap_eq_nil_iff]
        intro gr hgr
        have : gr.1 ≠ g' := fun hh => hnd.1 (hh ▸ List.mem_map.mpr ⟨gr, hgr, rfl⟩)
        simp [this]
      rw [hnone f]
      have := hnone id
      simp only [id] at this
      simp [this]
    · simp only [h, if_false, List.nil_append]
      exact ih

/-- **the whole kernel**: on a canonical 2-d coordinate list, the entries `_sort_coo` returns for group `g`
are `sortRow` of the entries it was given for group `g` — for every group, empty ones included. -/
theorem sortCoo_row (descending : Bool) (n : Nat) (fill : Int) (es : List (Nat × Nat × Int))
    (hs : (es.map (·.1)).Pairwise (· ≤ ·)) (g : Nat) :
    (sortCoo descending n fill es).filterMap (rowOf g) = sortRow descending n fill (es.filterMap (rowOf g)) := by
  have hnd : ((runs es).map (·.1)).Nodup := (runs_labels es hs).1.imp fun {a b} h => by omega
  have hf : sortRow descending n fill [] = [] := by simp [sortRow]
  have hflat := runs_flatten es
  unfold sortCoo
  rw [List.filterMap_flatMap]
  conv => rhs; rw [← hflat, List.filterMap_flatMap]
  simp only [filterMap_rowOf_run]
  exact pick_run g (sortRow descending n fill) hf (runs es) hnd


/-- the stored entries of column `j` as `_compute_minmax_args` masks them -/
def colOf (j : Nat) (e : Nat × Nat × Int) : Option (Nat × Int) := if e.2.1 = j then some (e.1, e.2.2) else none

theorem computeMinmaxArgs_mem (maxMode : Bool) (n : Nat) (fill : Int) (es : List (Nat × Nat × Int)) (p : Nat × Nat)
    (hp : p ∈ computeMinmaxArgs maxMode n fill es) :
    p.2 = argMinMaxCol maxMode n fill (es.filterMap (colOf p.1)) ∧ ∃ e ∈ es, e.2.1 = p.1 := by
  unfold computeMinmaxArgs at hp
  obtain ⟨j, hj, rfl⟩ := List.mem_map.mp hp
  refine ⟨rfl, ?_⟩
  rw [mem_dedupAdj, List.mem_mergeSort] at hj
  obtain ⟨e, he, hk⟩ := List.mem_map.mp hj
  exact ⟨e, he, hk⟩

theorem computeMinmaxArgs_covers (maxMode : Bool) (n : Nat) (fill : Int) (es : List (Nat × Nat × Int)) (e : Nat × Nat × Int)
    (he : e ∈ es) : ∃ p ∈ computeMinmaxArgs maxMode n fill es, p.1 = e.2.1 := by
  unfold computeMinmaxArgs
  refine ⟨(e.2.1, _), List.mem_map.mpr ⟨e.2.1, ?_, rfl⟩, rfl⟩
  rw [mem_dedupAdj, List.mem_mergeSort]
  exact List.mem_map.mpr ⟨e, he, rfl⟩

end Search
end SparseV

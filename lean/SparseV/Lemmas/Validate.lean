/-
  SparseV.Lemmas.Validate — facts about the validation models (property C18).
-/
import SparseV.Model.Validate
import SparseV.Model.Elemwise
import SparseV.Lemmas.Gen.Axis
namespace SparseV
namespace Validate

/-- NumPy's normalisation of an in-range axis -/
def normAxis (ndim : Int) (a : Int) : Int := if a < 0 then a + ndim else a

theorem normalizeAxisInt_eq (axis ndim : Int) :
    Gen.normalizeAxisInt axis ndim =
      (if -ndim ≤ axis ∧ axis < ndim then .ok (normAxis ndim axis) else .error Err.value) := by
  rw [Gen.normalizeAxisInt_eq]
  rfl

/-- `normalize_axis` on a tuple: accepted iff every entry is in range; the result is the entry-wise normalisation -/
theorem normalizeAxes_ok_iff : ∀ (as : List Int) (ndim : Int) (vs : List Int),
    normalizeAxes as ndim = .ok vs ↔ (∀ a ∈ as, -ndim ≤ a ∧ a < ndim) ∧ vs = as.map (normAxis ndim)
  | [], ndim, vs => by simp [normalizeAxes, eq_comm]
  | a :: as, ndim, vs => by
    simp only [normalizeAxes, normalizeAxisInt_eq]
    by_cases h : -ndim ≤ a ∧ a < ndim
    · simp only [h, and_self, if_true]
      cases hr : normalizeAxes as ndim with
      | error e =>
        have : ¬ ∃ ws, normalizeAxes as ndim = .ok ws := by simp [hr]
        simp only [reduceCtorEq, false_iff, List.mem_cons, forall_eq_or_imp, List.map_cons]
        intro hh
        exact this ⟨_, (normalizeAxes_ok_iff as ndim _).mpr ⟨hh.1.2, rfl⟩⟩
      | ok ws =>
        have := (normalizeAxes_ok_iff as ndim ws).mp hr
        simp only [Except.ok.injEq, List.mem_cons, forall_eq_or_imp, List.map_cons]
        constructor
        · rintro rfl; exact ⟨⟨h, this.1⟩, by rw [this.2]⟩
        · rintro ⟨_, rfl⟩; rw [this.2]
    · simp only [h, if_false]
      constructor
      · intro h'; cases h'
      · rintro ⟨hh, _⟩; exact absurd (hh a (by simp)) h

theorem normalizeAxes_error : ∀ (as : List Int) (ndim : Int) (e : Err), normalizeAxes as ndim = .error e → e = Err.value
  | [], _, e => by simp [normalizeAxes]
  | a :: as, ndim, e => by
    intro he
    simp only [normalizeAxes, normalizeAxisInt_eq] at he
    by_cases h : -ndim ≤ a ∧ a < ndim
    · simp only [h, and_self, if_true] at he
      cases hr : normalizeAxes as ndim with
      | error e' =>
        rw [hr] at he
        simp only [Except.error.injEq] at he
        subst he
        exact normalizeAxes_error as ndim _ hr
      | ok ws => rw [hr] at he; cases he
    · simp only [h, if_false, Except.error.injEq] at he
      exact he.symm

theorem iprod_map_ofNat : ∀ (l : List Nat), iprod (l.map Int.ofNat) = (prod l : Nat)
  | [] => rfl
  | d :: ds => by simp [iprod, prod, iprod_map_ofNat ds]

theorem iprod_nonneg : ∀ (l : List Int), (∀ d ∈ l, 0 ≤ d) → 0 ≤ iprod l
  | [], _ => by simp [iprod]
  | d :: ds, h => by
    simp only [iprod]
    exact Int.mul_nonneg (h d (by simp)) (iprod_nonneg ds (fun x hx => h x (by simp [hx])))

/-- number of `-1` entries -/
def unknowns (shape : List Int) : Nat := (shape.filter (· == -1)).length

/-- product after substituting `e` for every `-1`: `e ^ unknowns · Π rest` -/
theorem iprod_subst (e : Int) : ∀ (shape : List Int),
    iprod (shape.map fun d => if d == -1 then e else d) = e ^ unknowns shape * iprod (shape.filter (· != -1))
  | [] => by simp [iprod, unknowns]
  | d :: ds => by
    have ih := iprod_subst e ds
    by_cases h : d = -1
    · subst h
      simp only [List.map_cons, iprod, ih, unknowns, List.filter_cons, beq_self_eq_true, if_true, bne_self_eq_false,
        Bool.false_eq_true, if_false, List.length_cons, Int.pow_succ]
      simp only [unknowns] at *
      grind
    · have h1 : (d == -1) = false := by simpa using h
      have h2 : (d != -1) = true := by simpa using h
      simp only [List.map_cons, iprod, ih, unknowns, List.filter_cons, h1, h2, if_true, Bool.false_eq_true, if_false]
      simp only [unknowns] at *
      grind

theorem filter_ne_of_no_unknown : ∀ (shape : List Int), unknowns shape = 0 → shape.filter (· != -1) = shape
  | [], _ => rfl
  | d :: ds, h => by
    by_cases hd : d = -1
    · subst hd; simp [unknowns] at h
    · have h1 : (d == -1) = false := by simpa using hd
      have h2 : (d != -1) = true := by simpa using hd
      simp only [unknowns, List.filter_cons, h1, Bool.false_eq_true, if_false] at h
      simp only [List.filter_cons, h2, if_true]
      rw [filter_ne_of_no_unknown ds h]

theorem any_unknown_iff (shape : List Int) : shape.any (· == -1) = true ↔ 0 < unknowns shape := by
  simp only [unknowns, List.any_eq_true, List.length_pos_iff_exists_mem, List.mem_filter]

theorem reshapeFinish_ok_iff (size : Int) (s : List Int) :
    (∃ r, reshapeFinish size s = .ok r) ↔ size = iprod s ∧ ∀ d ∈ s, 0 ≤ d := by
  unfold reshapeFinish
  by_cases h1 : size = iprod s
  · by_cases h2 : s.any (· < 0) = true
    · simp only [h1, ne_eq, not_true_eq_false, if_false, h2, if_true, reduceCtorEq, exists_false, true_and, false_iff]
      simp only [List.any_eq_true, decide_eq_true_eq] at h2
      obtain ⟨d, hd, hlt⟩ := h2
      intro hall; have := hall d hd; omega
    · simp only [h1, ne_eq, not_true_eq_false, if_false, h2, Bool.false_eq_true, Except.ok.injEq, exists_eq', true_and, true_iff]
      simp only [List.any_eq_true, decide_eq_true_eq, not_exists, not_and] at h2
      intro d hd; have := h2 d hd; omega
  · simp [h1]

theorem reshapeFinish_error (size : Int) (s : List Int) (e : Err) (h : reshapeFinish size s = .error e) : e = Err.value := by
  unfold reshapeFinish at h
  split at h
  · cases h; rfl
  · split at h
    · cases h; rfl
    · cases h

/-- **reshapeShape_spec1.** `COO.reshape` accepts exactly the target shapes of NumPy's rule restricted to `-1` as the only
unknown marker, and every rejection is a `ValueError` — for every array shape and every target -/
theorem reshapeShape_spec1 (old : List Nat) (shape : List Int) :
    ((∃ s, reshapeShape old shape = .ok s) ↔ npReshapeOk1 old shape) ∧
    (∀ e, reshapeShape old shape = .error e → e = Err.value) := by
  unfold reshapeShape npReshapeOk1
  by_cases hsame : old.map Int.ofNat = shape
  · -- the shape is unchanged
    simp only [hsame, if_true, Except.ok.injEq, exists_eq', true_iff, reduceCtorEq, false_imp_iff, implies_true, and_true]
    have hnn : ∀ d ∈ shape, 0 ≤ d := by
      rw [← hsame]; intro d hd
      simp only [List.mem_map] at hd
      obtain ⟨n, _, rfl⟩ := hd
      exact Int.natCast_nonneg n
    have hnone : shape.filter (· == -1) = [] := by
      rw [List.filter_eq_nil_iff]; intro d hd; have := hnn d hd
      simp; omega
    refine ⟨fun d hd => hnn d (List.mem_filter.mp hd).1, Or.inl ⟨by simp [hnone], ?_⟩⟩
    rw [← hsame, iprod_map_ofNat]
  · simp only [hsame, if_false]
    by_cases hany : shape.any (· == -1) = true
    · simp only [hany, if_true]
      by_cases hsev : 1 < (shape.filter (· == -1)).length
      · -- several unknown extents: rejected
        simp only [hsev, if_true]
        refine ⟨⟨fun ⟨_, h⟩ => (by cases h), ?_⟩, fun e he => (by cases he; rfl)⟩
        rintro ⟨_, h | h⟩ <;> omega
      · -- exactly one unknown extent
        have hu1 : unknowns shape = 1 := by
          have := (any_unknown_iff shape).mp hany; unfold unknowns at *; omega
        have hlen : (shape.filter (· == -1)).length = 1 := hu1
        simp only [hlen, Nat.lt_irrefl, if_false, Nat.succ_ne_zero, false_and, false_or, true_and]
        by_cases hp : iprod (shape.filter (· != -1)) = 0
        · simp [hp]
        · by_cases hm : Int.fmod ((prod old : Nat) : Int) (iprod (shape.filter (· != -1))) = 0
          · have hdvd : iprod (shape.filter (· != -1)) ∣ ((prod old : Nat) : Int) := Int.dvd_of_fmod_eq_zero hm
            simp only [hp, hm, ne_eq, not_true_eq_false, or_self, if_false]
            constructor
            · rw [reshapeFinish_ok_iff, iprod_subst, hu1, Int.pow_one]
              constructor
              · rintro ⟨_, hall⟩
                refine ⟨?_, not_false, Int.emod_eq_zero_of_dvd hdvd⟩
                intro d hd
                have hmem := List.mem_filter.mp hd
                have hne : (d == -1) = false := by simpa using hmem.2
                have := hall (if (d == -1) = true then _ else d) (List.mem_map.mpr ⟨d, hmem.1, rfl⟩)
                simpa [hne] using this
              · rintro ⟨hrest, _, _⟩
                have hpn : 0 ≤ iprod (shape.filter (· != -1)) := iprod_nonneg _ hrest
                have hsn : (0 : Int) ≤ ((prod old : Nat) : Int) := Int.natCast_nonneg _
                refine ⟨(Int.fdiv_mul_cancel_of_fmod_eq_zero hm).symm, ?_⟩
                intro d hd
                simp only [List.mem_map] at hd
                obtain ⟨d0, hd0, rfl⟩ := hd
                split
                · rw [Int.fdiv_eq_ediv_of_nonneg _ hpn]; exact Int.ediv_nonneg hsn hpn
                · rename_i hne
                  exact hrest d0 (List.mem_filter.mpr ⟨hd0, by simpa using hne⟩)
            · intro e he; exact reshapeFinish_error _ _ e he
          · simp only [hp, hm, ne_eq, not_false_eq_true, or_true, if_true]
            refine ⟨⟨fun ⟨_, h⟩ => (by cases h), ?_⟩, fun e he => (by cases he; rfl)⟩
            rintro ⟨_, _, hmod⟩
            exact absurd (Int.fmod_eq_zero_of_dvd (Int.dvd_of_emod_eq_zero hmod)) hm
    · -- no unknown extent
      have hany' : shape.any (· == -1) = false := by
        cases hb : shape.any (· == -1) with
        | true => exact absurd hb hany
        | false => rfl
      have hu0 : unknowns shape = 0 := by
        have := mt (any_unknown_iff shape).mpr hany; omega
      have hlen : (shape.filter (· == -1)).length = 0 := hu0
      simp only [hany', Bool.false_eq_true, if_false, hlen, filter_ne_of_no_unknown shape hu0, true_and, Nat.zero_ne_one, false_and, or_false]
      constructor
      · rw [reshapeFinish_ok_iff]
        constructor
        · rintro ⟨a, b⟩; exact ⟨b, a.symm⟩
        · rintro ⟨a, b⟩; exact ⟨b.symm, a⟩
      · intro e he; exact reshapeFinish_error _ _ e he

theorem filter_neg_eq (shape : List Int) (h : ¬ OtherNegative shape) :
    shape.filter (fun d => decide (d < 0)) = shape.filter (· == -1) ∧
    shape.filter (fun d => decide (0 ≤ d)) = shape.filter (· != -1) := by
  have hall : ∀ d ∈ shape, -1 ≤ d := by
    intro d hd
    by_cases hlt : d < -1
    · exact absurd ⟨d, hd, hlt⟩ h
    · omega
  constructor <;>
  · apply List.filter_congr
    intro d hd
    have := hall d hd
    by_cases h1 : d = -1
    · subst h1; decide
    · have h2 : (d == -1) = false := by simpa using h1
      have hd0 : 0 ≤ d := by omega
      have hn : ¬ d < 0 := by omega
      simp [bne, h2, hd0, hn]

theorem npReshapeOk_iff1 (old : List Nat) (shape : List Int) (h : ¬ OtherNegative shape) :
    npReshapeOk old shape ↔ npReshapeOk1 old shape := by
  unfold npReshapeOk npReshapeOk1
  obtain ⟨e1, e2⟩ := filter_neg_eq shape h
  simp only [e1, e2]
  have hrest : ∀ d ∈ shape.filter (· != -1), 0 ≤ d := by
    intro d hd
    rw [← e2] at hd
    simpa using (List.mem_filter.mp hd).2
  constructor
  · intro hh; exact ⟨hrest, hh⟩
  · intro hh; exact hh.2

/-- NumPy's rule implies the `-1`-only rule whenever no extent is below `-1`; the `-1`-only rule always implies that -/
theorem npReshapeOk1_no_other_negative (old : List Nat) (shape : List Int) (h : npReshapeOk1 old shape) : ¬ OtherNegative shape := by
  rintro ⟨d, hd, hlt⟩
  have hne : (d != -1) = true := by simp; omega
  have := h.1 d (List.mem_filter.mpr ⟨hd, hne⟩)
  omega

/-- **reshapeShape_spec.** `COO.reshape` accepts exactly the target shapes NumPy accepts that have no extent below `-1`,
and every rejection is a `ValueError` -/
theorem reshapeShape_spec (old : List Nat) (shape : List Int) :
    ((∃ s, reshapeShape old shape = .ok s) ↔ npReshapeOk old shape ∧ ¬ OtherNegative shape) ∧
    (∀ e, reshapeShape old shape = .error e → e = Err.value) := by
  obtain ⟨h1, h2⟩ := reshapeShape_spec1 old shape
  refine ⟨?_, h2⟩
  rw [h1]
  constructor
  · intro h
    have hn := npReshapeOk1_no_other_negative old shape h
    exact ⟨(npReshapeOk_iff1 old shape hn).mpr h, hn⟩
  · rintro ⟨h, hn⟩
    exact (npReshapeOk_iff1 old shape hn).mp h

theorem any_neg_iff (sh : List Int) : (sh.any (· < 0) = true) ↔ ¬ ∀ d ∈ sh, 0 ≤ d := by
  simp only [List.any_eq_true, decide_eq_true_eq, Classical.not_forall]
  constructor
  · rintro ⟨d, hd, hlt⟩; exact ⟨d, hd, by omega⟩
  · rintro ⟨d, hd, hlt⟩; exact ⟨d, hd, by omega⟩

/-- the constructor's verdict for 1-d data, as a decision -/
theorem cooCtor_eq (rows cols n : Nat) (sh : List Int) :
    cooCtor rows cols 1 n (some sh) =
      if sh.any (· < 0) then .error .value
      else if sh ≠ [] ∧ rows * cols = 0 then (if n ≠ 0 then .error .value else .ok (sh.map Int.toNat))
      else if n ≠ cols then .error .value
      else if sh.length ≠ rows then .error .value
      else .ok (sh.map Int.toNat) := by
  unfold cooCtor
  by_cases hz : sh ≠ [] ∧ rows * cols = 0
  · simp [hz]
  · simp only [hz, if_false]
    simp

/-- every rejection of the constructor is a `ValueError`, whatever the rank of `data` and whether or not a shape is given -/
theorem cooCtor_error (rows cols dn n : Nat) (shape : Option (List Int)) (e : Err)
    (h : cooCtor rows cols dn n shape = .error e) : e = Err.value := by
  unfold cooCtor at h
  cases shape with
  | none =>
    simp only at h
    split at h <;> (cases h; rfl)
  | some sh =>
    simp only at h
    repeat' split at h
    all_goals first | (cases h; rfl) | cases h

theorem ctor_spec (rows cols n : Nat) (sh : List Int) :
    ((∃ r, cooCtor rows cols 1 n (some sh) = .ok r) ↔ ctorContract rows cols n sh) ∧
    (∀ e, cooCtor rows cols 1 n (some sh) = .error e → e = Err.value) := by
  refine ⟨?_, fun e h => cooCtor_error _ _ _ _ _ e h⟩
  rw [cooCtor_eq rows cols n sh]
  unfold ctorContract
  have hneg := any_neg_iff sh
  constructor
  · rintro ⟨r, h⟩
    split at h
    · cases h
    · rename_i hs
      have hall : ∀ d ∈ sh, 0 ≤ d := Classical.not_not.mp (mt hneg.mpr hs)
      refine ⟨hall, ?_⟩
      split at h
      · rename_i hz
        split at h
        · cases h
        · rename_i hn; left; exact ⟨hz.2, hz.1, by omega⟩
      · split at h
        · cases h
        · split at h
          · cases h
          · rename_i hn hl; right; exact ⟨by omega, by omega⟩
  · rintro ⟨hall, hh⟩
    have hs : ¬ (sh.any (· < 0) = true) := fun h => hneg.mp h hall
    rw [if_neg hs]
    rcases hh with ⟨hz, hne, hn⟩ | ⟨hn, hl⟩
    · rw [if_pos ⟨hne, hz⟩, if_neg (by omega)]; exact ⟨_, rfl⟩
    · by_cases hz : sh ≠ [] ∧ rows * cols = 0
      · rw [if_pos hz]
        have hlen : sh.length ≠ 0 := fun h => hz.1 (List.length_eq_zero_iff.mp h)
        have : n = 0 := by
          rcases Nat.mul_eq_zero.mp hz.2 with hr | hc
          · omega
          · omega
        rw [if_neg (by omega)]; exact ⟨_, rfl⟩
      · rw [if_neg hz, if_neg (by omega), if_neg (by omega)]; exact ⟨_, rfl⟩

/-! ### the GCXS constructor (triple form) -/

theorem nondecreasing_iff_pairwise : ∀ (l : List Int), nondecreasing l = true ↔ l.Pairwise (· ≤ ·)
  | [] => by simp [nondecreasing]
  | [a] => by simp [nondecreasing]
  | a :: b :: t => by
    have ih := nondecreasing_iff_pairwise (b :: t)
    simp only [nondecreasing, Bool.and_eq_true, decide_eq_true_eq, ih]
    constructor
    · rintro ⟨hab, hp⟩
      refine List.pairwise_cons.mpr ⟨?_, hp⟩
      intro x hx
      rcases List.mem_cons.mp hx with rfl | hx
      · exact hab
      · exact Int.le_trans hab ((List.pairwise_cons.mp hp).1 x hx)
    · intro hp
      have := List.pairwise_cons.mp hp
      exact ⟨this.1 b (by simp), this.2⟩

theorem any_outside_iff (l : List Int) (n : Int) :
    (l.any (fun v => decide (v < 0 ∨ v ≥ n)) = true) ↔ ¬ ∀ v ∈ l, 0 ≤ v ∧ v < n := by
  simp only [List.any_eq_true, decide_eq_true_eq, Classical.not_forall]
  constructor
  · rintro ⟨v, hv, h⟩; exact ⟨v, hv, by omega⟩
  · rintro ⟨v, hv, h⟩; exact ⟨v, hv, by omega⟩

theorem checkCompressedAxes_error (nd : Nat) (c : Option (List Int)) (e : Err) (h : checkCompressedAxes nd c = .error e) : e = Err.value := by
  unfold checkCompressedAxes at h
  cases c with
  | none => cases h
  | some c =>
    simp only at h
    repeat' split at h
    all_goals first | (cases h; rfl) | cases h

/-- every rejection of the GCXS constructor is a `ValueError`, except the `TypeError` of iterating `compressed_axes=None` for an array
with two or more axes (a clean class too) -/
theorem gcxsCtor_error (dn dataLen : Nat) (indices indptr : List Int) (shape caxes : Option (List Int)) (e : Err)
    (h : gcxsCtor dn dataLen indices indptr shape caxes = .error e) :
    e = Err.value ∨ (e = Err.type ∧ caxes = none ∧ ∃ sh, shape = some sh ∧ 2 ≤ sh.length) := by
  unfold gcxsCtor at h
  cases shape with
  | none => cases h; exact Or.inl rfl
  | some sh =>
    simp only at h
    cases hc : checkCompressedAxes sh.length caxes with
    | error e' =>
      rw [hc] at h; cases h
      exact Or.inl (checkCompressedAxes_error _ _ _ hc)
    | ok u =>
      rw [hc] at h
      simp only at h
      split at h
      · cases h; exact Or.inl rfl
      · split at h
        · cases h; exact Or.inl rfl
        · split at h
          · cases h
          · rename_i h0
            split at h
            · cases h; exact Or.inl rfl
            · split at h
              · split at h
                · cases h; exact Or.inl rfl
                · cases h
              · rename_i h1
                cases caxes with
                | none =>
                  cases h
                  exact Or.inr ⟨rfl, rfl, sh, rfl, by omega⟩
                | some c =>
                  simp only at h
                  repeat' split at h
                  all_goals first | (cases h; exact Or.inl rfl) | cases h

/-- **gcxsCtor_spec.** outside the 0-d region the constructor accepts exactly the triples of its contract -/
theorem gcxsCtor_spec (dataLen : Nat) (indices indptr sh : List Int) (caxes : Option (List Int))
    (hz : ¬ ExcludedZeroDim dataLen indices sh) :
    gcxsCtor 1 dataLen indices indptr (some sh) caxes = .ok () ↔ gcxsContract dataLen indices indptr sh caxes := by
  unfold gcxsCtor gcxsContract
  show (match checkCompressedAxes sh.length caxes with
    | .error e => Except.error e
    | .ok () => _) = Except.ok () ↔ _
  cases hc : checkCompressedAxes sh.length caxes with
  | error e =>
    refine ⟨fun h => (by cases h), fun h => (by cases h.2.1)⟩
  | ok u =>
    cases u
    show (if (1 : Nat) ≠ 1 then _ else _) = Except.ok () ↔ _
    rw [if_neg (by decide)]
    by_cases hs : sh.any (· < 0) = true
    · have hno := (any_neg_iff sh).mp hs
      rw [if_pos hs]
      exact ⟨fun h => (by cases h), fun h => absurd h.1 hno⟩
    · have hall : ∀ d ∈ sh, 0 ≤ d := Classical.not_not.mp (mt (any_neg_iff sh).mpr hs)
      rw [if_neg hs]
      by_cases h0 : sh.length = 0
      · have hnil : sh = [] := List.length_eq_zero_iff.mp h0
        have hd : dataLen = 0 ∧ indices = [] := Classical.not_not.mp (fun hn => hz ⟨hnil, hn⟩)
        rw [if_pos h0]
        exact ⟨fun _ => ⟨hall, rfl, fun _ => hd, fun h => absurd h (by omega), fun h => absurd h (by omega), fun h => absurd h (by omega)⟩, fun _ => rfl⟩
      · rw [if_neg h0]
        by_cases hd : dataLen = indices.length
        · rw [if_neg (fun h => h hd)]
          by_cases h1 : sh.length = 1
          · rw [if_pos h1]
            by_cases hi : indices.any (fun v => decide (v < 0 ∨ v ≥ sh.getD 0 0)) = true
            · have hno := (any_outside_iff indices _).mp hi
              rw [if_pos hi]
              exact ⟨fun h => (by cases h), fun h => absurd (h.2.2.2.2.1 h1) hno⟩
            · have hin : ∀ v ∈ indices, 0 ≤ v ∧ v < sh.getD 0 0 := Classical.not_not.mp (mt (any_outside_iff indices _).mpr hi)
              rw [if_neg hi]
              exact ⟨fun _ => ⟨hall, rfl, fun h => absurd h h0, fun _ => hd, fun _ => hin, fun h => absurd h (by omega)⟩, fun _ => rfl⟩
          · have h2 : 2 ≤ sh.length := by omega
            rw [if_neg h1]
            cases caxes with
            | none =>
              exact ⟨fun h => (by cases h), fun h => (h.2.2.2.2.2 h2).elim⟩
            | some c =>
              show (if (indptr.length : Int) ≠ compressedExtent sh c + 1 then _ else _) = Except.ok () ↔ _
              by_cases hl : (indptr.length : Int) = compressedExtent sh c + 1
              · rw [if_neg (fun h => h hl)]
                by_cases he : indptr.head? ≠ some 0 ∨ indptr.getLast? ≠ some (indices.length : Int)
                · rw [if_pos he]
                  refine ⟨fun h => (by cases h), fun h => ?_⟩
                  have hr := h.2.2.2.2.2 h2
                  rcases he with he | he
                  · exact absurd hr.2.1 he
                  · exact absurd hr.2.2.1 he
                · rw [if_neg he]
                  have he1 : indptr.head? = some 0 := Classical.not_not.mp (fun h => he (Or.inl h))
                  have he2 : indptr.getLast? = some (indices.length : Int) := Classical.not_not.mp (fun h => he (Or.inr h))
                  by_cases hn : nondecreasing indptr = true
                  · have hp := (nondecreasing_iff_pairwise indptr).mp hn
                    rw [if_neg (fun h => h hn)]
                    by_cases hi : indices.any (fun v => decide (v < 0 ∨ v ≥ uncompressedExtent sh c)) = true
                    · have hno := (any_outside_iff indices _).mp hi
                      rw [if_pos hi]
                      exact ⟨fun h => (by cases h), fun h => absurd (h.2.2.2.2.2 h2).2.2.2.2 hno⟩
                    · have hin := Classical.not_not.mp (mt (any_outside_iff indices _).mpr hi)
                      rw [if_neg hi]
                      exact ⟨fun _ => ⟨hall, rfl, fun h => absurd h h0, fun _ => hd, fun h => absurd h h1, fun _ => ⟨hl, he1, he2, hp, hin⟩⟩, fun _ => rfl⟩
                  · have hnp : ¬ indptr.Pairwise (· ≤ ·) := mt (nondecreasing_iff_pairwise indptr).mpr hn
                    rw [if_pos hn]
                    exact ⟨fun h => (by cases h), fun h => absurd (h.2.2.2.2.2 h2).2.2.2.1 hnp⟩
              · rw [if_pos hl]
                exact ⟨fun h => (by cases h), fun h => absurd (h.2.2.2.2.2 h2).1 hl⟩
        · rw [if_pos hd]
          exact ⟨fun h => (by cases h), fun h => absurd (h.2.2.2.1 (by omega)) hd⟩

/-- whatever the shape, a triple that meets the contract is accepted -/
theorem gcxsCtor_accepts_contract (dataLen : Nat) (indices indptr sh : List Int) (caxes : Option (List Int))
    (h : gcxsContract dataLen indices indptr sh caxes) : gcxsCtor 1 dataLen indices indptr (some sh) caxes = .ok () := by
  refine (gcxsCtor_spec dataLen indices indptr sh caxes ?_).mpr h
  rintro ⟨hnil, hno⟩
  exact hno (h.2.2.1 (by simp [hnil]))

/-- under the contract every index pointer lies in `[0, len(indices)]`: no row slice `indices[indptr[i] : indptr[i+1]]` reaches outside
the array (the kernels read these slices without bounds checks) -/
theorem indptr_in_bounds : ∀ (p : List Int) (n : Int), p.head? = some 0 → p.getLast? = some n → p.Pairwise (· ≤ ·) →
    ∀ x ∈ p, 0 ≤ x ∧ x ≤ n := by
  intro p n hh hl hp x hx
  cases p with
  | nil => cases hx
  | cons a t =>
    simp only [List.head?_cons, Option.some.injEq] at hh
    subst hh
    have hpc := List.pairwise_cons.mp hp
    constructor
    · rcases List.mem_cons.mp hx with rfl | hx'
      · exact Int.le_refl _
      · exact hpc.1 x hx'
    · -- x ≤ last
      have hlast : (0 :: t).getLast? = some n := hl
      have hmem : n ∈ (0 :: t) := List.mem_of_getLast? hlast
      -- in a pairwise-≤ list every element is ≤ the last one
      have key : ∀ (l : List Int), l.Pairwise (· ≤ ·) → ∀ m, l.getLast? = some m → ∀ y ∈ l, y ≤ m := by
        intro l
        induction l with
        | nil => intro _ m hm; cases hm
        | cons b u ih =>
          intro hpl m hm y hy
          have hpl' := List.pairwise_cons.mp hpl
          cases u with
          | nil =>
            simp only [List.getLast?_singleton, Option.some.injEq] at hm
            subst hm
            rcases List.mem_cons.mp hy with rfl | hy'
            · exact Int.le_refl _
            · cases hy'
          | cons c v =>
            have hm' : (c :: v).getLast? = some m := by simpa [List.getLast?_cons_cons] using hm
            rcases List.mem_cons.mp hy with rfl | hy'
            · exact hpl'.1 m (List.mem_of_getLast? hm')
            · exact ih hpl'.2 m hm' y hy'
      exact key (0 :: t) hp n hlast x hx

end Validate
end SparseV

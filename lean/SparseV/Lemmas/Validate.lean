/-
  SparseV.Lemmas.Validate — facts about the validation models (property C18).
-/
import SparseV.Model.Validate
import SparseV.Model.Elemwise
namespace SparseV
namespace Validate

/-- NumPy's normalisation of an in-range axis -/
def normAxis (ndim : Int) (a : Int) : Int := if a < 0 then a + ndim else a

theorem normalizeAxisInt_eq (axis ndim : Int) :
    Gen.normalizeAxisInt axis ndim =
      (if -ndim ≤ axis ∧ axis < ndim then .ok (normAxis ndim axis) else .error Err.value) := by
  simp only [Gen.normalizeAxisInt, normAxis]
  grind

/-- `normalize_axis` on a tuple: accepted iff every entry is in range; the result is the entry-wise normalisation -/
theorem normalizeAxes_ok_iff : ∀ (as : List Int) (ndim : Int) (vs : List Int),
    normalizeAxes as ndim = .ok vs ↔ (∀ a ∈ as, -ndim ≤ a ∧ a < ndim) ∧ vs = as.map (normAxis ndim)
  | [], ndim, vs => by simp [normalizeAxes, eq_comm]
  | a :: as, ndim, vs => by
    simp only [normalizeAxes, normalizeAxisInt_eq]
    by_cases h : -ndim ≤ a ∧ a < ndim
    · simp only [h, and_self, if_true]
      cases hr : normalizeAxes as ndim with
      | error e =>
        have : ¬ ∃ ws, normalizeAxes as ndim = .ok ws := by simp [hr]
        simp only [reduceCtorEq, false_iff, List.mem_cons, forall_eq_or_imp, List.map_cons]
        intro hh
        exact this ⟨_, (normalizeAxes_ok_iff as ndim _).mpr ⟨hh.1.2, rfl⟩⟩
      | ok ws =>
        have := (normalizeAxes_ok_iff as ndim ws).mp hr
        simp only [Except.ok.injEq, List.mem_cons, forall_eq_or_imp, List.map_cons]
        constructor
        · rintro rfl; exact ⟨⟨h, this.1⟩, by rw [this.2]⟩
        · rintro ⟨_, rfl⟩; rw [this.2]
    · simp only [h, if_false]
      constructor
      · intro h'; cases h'
      · rintro ⟨hh, _⟩; exact absurd (hh a (by simp)) h

theorem normalizeAxes_error : ∀ (as : List Int) (ndim : Int) (e : Err), normalizeAxes as ndim = .error e → e = Err.value
  | [], _, e => by simp [normalizeAxes]
  | a :: as, ndim, e => by
    intro he
    simp only [normalizeAxes, normalizeAxisInt_eq] at he
    by_cases h : -ndim ≤ a ∧ a < ndim
    · simp only [h, and_self, if_true] at he
      cases hr : normalizeAxes as ndim with
      | error e' =>
        rw [hr] at he
        simp only [Except.error.injEq] at he
        subst he
        exact normalizeAxes_error as ndim _ hr
      | ok ws => rw [hr] at he; cases he
    · simp only [h, if_false, Except.error.injEq] at he
      exact he.symm

theorem iprod_map_ofNat : ∀ (l : List Nat), iprod (l.map Int.ofNat) = (prod l : Nat)
  | [] => rfl
  | d :: ds => by simp [iprod, prod, iprod_map_ofNat ds]

theorem iprod_nonneg : ∀ (l : List Int), (∀ d ∈ l, 0 ≤ d) → 0 ≤ iprod l
  | [], _ => by simp [iprod]
  | d :: ds, h => by
    simp only [iprod]
    exact Int.mul_nonneg (h d (by simp)) (iprod_nonneg ds (fun x hx => h x (by simp [hx])))

/-- number of `-1` entries -/
def unknowns (shape : List Int) : Nat := (shape.filter (· == -1)).length

/-- product after substituting `e` for every `-1`: `e ^ unknowns · Π rest` -/
theorem iprod_subst (e : Int) : ∀ (shape : List Int),
    iprod (shape.map fun d => if d == -1 then e else d) = e ^ unknowns shape * iprod (shape.filter (· != -1))
  | [] => by simp [iprod, unknowns]
  | d :: ds => by
    have ih := iprod_subst e ds
    by_cases h : d = -1
    · subst h
      simp only [List.map_cons, iprod, ih, unknowns, List.filter_cons, beq_self_eq_true, if_true, bne_self_eq_false,
        Bool.false_eq_true, if_false, List.length_cons, Int.pow_succ]
      simp only [unknowns] at *
      grind
    · have h1 : (d == -1) = false := by simpa using h
      have h2 : (d != -1) = true := by simpa using h
      simp only [List.map_cons, iprod, ih, unknowns, List.filter_cons, h1, h2, if_true, Bool.false_eq_true, if_false]
      simp only [unknowns] at *
      grind

theorem filter_ne_of_no_unknown : ∀ (shape : List Int), unknowns shape = 0 → shape.filter (· != -1) = shape
  | [], _ => rfl
  | d :: ds, h => by
    by_cases hd : d = -1
    · subst hd; simp [unknowns] at h
    · have h1 : (d == -1) = false := by simpa using hd
      have h2 : (d != -1) = true := by simpa using hd
      simp only [unknowns, List.filter_cons, h1, Bool.false_eq_true, if_false] at h
      simp only [List.filter_cons, h2, if_true]
      rw [filter_ne_of_no_unknown ds h]

theorem any_unknown_iff (shape : List Int) : shape.any (· == -1) = true ↔ 0 < unknowns shape := by
  simp only [unknowns, List.any_eq_true, List.length_pos_iff_exists_mem, List.mem_filter]

theorem reshapeFinish_ok_iff (size : Int) (s : List Int) :
    (∃ r, reshapeFinish size s = .ok r) ↔ size = iprod s ∧ ∀ d ∈ s, 0 ≤ d := by
  unfold reshapeFinish
  by_cases h1 : size = iprod s
  · by_cases h2 : s.any (· < 0) = true
    · simp only [h1, ne_eq, not_true_eq_false, if_false, h2, if_true, reduceCtorEq, exists_false, true_and, false_iff]
      simp only [List.any_eq_true, decide_eq_true_eq] at h2
      obtain ⟨d, hd, hlt⟩ := h2
      intro hall; have := hall d hd; omega
    · simp only [h1, ne_eq, not_true_eq_false, if_false, h2, Bool.false_eq_true, Except.ok.injEq, exists_eq', true_and, true_iff]
      simp only [List.any_eq_true, decide_eq_true_eq, not_exists, not_and] at h2
      intro d hd; have := h2 d hd; omega
  · simp [h1]

theorem reshapeFinish_error (size : Int) (s : List Int) (e : Err) (h : reshapeFinish size s = .error e) : e = Err.value := by
  unfold reshapeFinish at h
  split at h
  · cases h; rfl
  · split at h
    · cases h; rfl
    · cases h

/-- **reshapeShape_spec1.** `COO.reshape` accepts exactly the target shapes of NumPy's rule restricted to `-1` as the only
unknown marker, and every rejection is a `ValueError` — for every array shape and every target -/
theorem reshapeShape_spec1 (old : List Nat) (shape : List Int) :
    ((∃ s, reshapeShape old shape = .ok s) ↔ npReshapeOk1 old shape) ∧
    (∀ e, reshapeShape old shape = .error e → e = Err.value) := by
  unfold reshapeShape npReshapeOk1
  by_cases hsame : old.map Int.ofNat = shape
  · -- the shape is unchanged
    simp only [hsame, if_true, Except.ok.injEq, exists_eq', true_iff, reduceCtorEq, false_imp_iff, implies_true, and_true]
    have hnn : ∀ d ∈ shape, 0 ≤ d := by
      rw [← hsame]; intro d hd
      simp only [List.mem_map] at hd
      obtain ⟨n, _, rfl⟩ := hd
      exact Int.natCast_nonneg n
    have hnone : shape.filter (· == -1) = [] := by
      rw [List.filter_eq_nil_iff]; intro d hd; have := hnn d hd
      simp; omega
    refine ⟨fun d hd => hnn d (List.mem_filter.mp hd).1, Or.inl ⟨by simp [hnone], ?_⟩⟩
    rw [← hsame, iprod_map_ofNat]
  · simp only [hsame, if_false]
    by_cases hany : shape.any (· == -1) = true
    · simp only [hany, if_true]
      by_cases hsev : 1 < (shape.filter (· == -1)).length
      · -- several unknown extents: rejected
        simp only [hsev, if_true]
        refine ⟨⟨fun ⟨_, h⟩ => (by cases h), ?_⟩, fun e he => (by cases he; rfl)⟩
        rintro ⟨_, h | h⟩ <;> omega
      · -- exactly one unknown extent
        have hu1 : unknowns shape = 1 := by
          have := (any_unknown_iff shape).mp hany; unfold unknowns at *; omega
        have hlen : (shape.filter (· == -1)).length = 1 := hu1
        simp only [hlen, Nat.lt_irrefl, if_false, Nat.succ_ne_zero, false_and, false_or, true_and]
        by_cases hp : iprod (shape.filter (· != -1)) = 0
        · simp [hp]
        · by_cases hm : Int.fmod ((prod old : Nat) : Int) (iprod (shape.filter (· != -1))) = 0
          · have hdvd : iprod (shape.filter (· != -1)) ∣ ((prod old : Nat) : Int) := Int.dvd_of_fmod_eq_zero hm
            simp only [hp, hm, ne_eq, not_true_eq_false, or_self, if_false]
            constructor
            · rw [reshapeFinish_ok_iff, iprod_subst, hu1, Int.pow_one]
              constructor
              · rintro ⟨_, hall⟩
                refine ⟨?_, not_false, Int.emod_eq_zero_of_dvd hdvd⟩
                intro d hd
                have hmem := List.mem_filter.mp hd
                have hne : (d == -1) = false := by simpa using hmem.2
                have := hall (if (d == -1) = true then _ else d) (List.mem_map.mpr ⟨d, hmem.1, rfl⟩)
                simpa [hne] using this
              · rintro ⟨hrest, _, _⟩
                have hpn : 0 ≤ iprod (shape.filter (· != -1)) := iprod_nonneg _ hrest
                have hsn : (0 : Int) ≤ ((prod old : Nat) : Int) := Int.natCast_nonneg _
                refine ⟨(Int.fdiv_mul_cancel_of_fmod_eq_zero hm).symm, ?_⟩
                intro d hd
                simp only [List.mem_map] at hd
                obtain ⟨d0, hd0, rfl⟩ := hd
                split
                · rw [Int.fdiv_eq_ediv_of_nonneg _ hpn]; exact Int.ediv_nonneg hsn hpn
                · rename_i hne
                  exact hrest d0 (List.mem_filter.mpr ⟨hd0, by simpa using hne⟩)
            · intro e he; exact reshapeFinish_error _ _ e he
          · simp only [hp, hm, ne_eq, not_false_eq_true, or_true, if_true]
            refine ⟨⟨fun ⟨_, h⟩ => (by cases h), ?_⟩, fun e he => (by cases he; rfl)⟩
            rintro ⟨_, _, hmod⟩
            exact absurd (Int.fmod_eq_zero_of_dvd (Int.dvd_of_emod_eq_zero hmod)) hm
    · -- no unknown extent
      have hany' : shape.any (· == -1) = false := by
        cases hb : shape.any (· == -1) with
        | true => exact absurd hb hany
        | false => rfl
      have hu0 : unknowns shape = 0 := by
        have := mt (any_unknown_iff shape).mpr hany; omega
      have hlen : (shape.filter (· == -1)).length = 0 := hu0
      simp only [hany', Bool.false_eq_true, if_false, hlen, filter_ne_of_no_unknown shape hu0, true_and, Nat.zero_ne_one, false_and, or_false]
      constructor
      · rw [reshapeFinish_ok_iff]
        constructor
        · rintro ⟨a, b⟩; exact ⟨b, a.symm⟩
        · rintro ⟨a, b⟩; exact ⟨b.symm, a⟩
      · intro e he; exact reshapeFinish_error _ _ e he

theorem filter_neg_eq (shape : List Int) (h : ¬ OtherNegative shape) :
    shape.filter (fun d => decide (d < 0)) = shape.filter (· == -1) ∧
    shape.filter (fun d => decide (0 ≤ d)) = shape.filter (· != -1) := by
  have hall : ∀ d ∈ shape, -1 ≤ d := by
    intro d hd
    by_cases hlt : d < -1
    · exact absurd ⟨d, hd, hlt⟩ h
    · omega
  constructor <;>
  · apply List.filter_congr
    intro d hd
    have := hall d hd
    by_cases h1 : d = -1
    · subst h1; decide
    · have h2 : (d == -1) = false := by simpa using h1
      have hd0 : 0 ≤ d := by omega
      have hn : ¬ d < 0 := by omega
      simp [bne, h2, hd0, hn]

theorem npReshapeOk_iff1 (old : List Nat) (shape : List Int) (h : ¬ OtherNegative shape) :
    npReshapeOk old shape ↔ npReshapeOk1 old shape := by
  unfold npReshapeOk npReshapeOk1
  obtain ⟨e1, e2⟩ := filter_neg_eq shape h
  simp only [e1, e2]
  have hrest : ∀ d ∈ shape.filter (· != -1), 0 ≤ d := by
    intro d hd
    rw [← e2] at hd
    simpa using (List.mem_filter.mp hd).2
  constructor
  · intro hh; exact ⟨hrest, hh⟩
  · intro hh; exact hh.2

/-- NumPy's rule implies the `-1`-only rule whenever no extent is below `-1`; the `-1`-only rule always implies that -/
theorem npReshapeOk1_no_other_negative (old : List Nat) (shape : List Int) (h : npReshapeOk1 old shape) : ¬ OtherNegative shape := by
  rintro ⟨d, hd, hlt⟩
  have hne : (d != -1) = true := by simp; omega
  have := h.1 d (List.mem_filter.mpr ⟨hd, hne⟩)
  omega

/-- **reshapeShape_spec.** `COO.reshape` accepts exactly the target shapes NumPy accepts that have no extent below `-1`,
and every rejection is a `ValueError` -/
theorem reshapeShape_spec (old : List Nat) (shape : List Int) :
    ((∃ s, reshapeShape old shape = .ok s) ↔ npReshapeOk old shape ∧ ¬ OtherNegative shape) ∧
    (∀ e, reshapeShape old shape = .error e → e = Err.value) := by
  obtain ⟨h1, h2⟩ := reshapeShape_spec1 old shape
  refine ⟨?_, h2⟩
  rw [h1]
  constructor
  · intro h
    have hn := npReshapeOk1_no_other_negative old shape h
    exact ⟨(npReshapeOk_iff1 old shape hn).mpr h, hn⟩
  · rintro ⟨h, hn⟩
    exact (npReshapeOk_iff1 old shape hn).mp h

theorem any_neg_iff (sh : List Int) : (sh.any (· < 0) = true) ↔ ¬ ∀ d ∈ sh, 0 ≤ d := by
  simp only [List.any_eq_true, decide_eq_true_eq, Classical.not_forall]
  constructor
  · rintro ⟨d, hd, hlt⟩; exact ⟨d, hd, by omega⟩
  · rintro ⟨d, hd, hlt⟩; exact ⟨d, hd, by omega⟩

/-- the constructor's verdict for 1-d data, as a decision -/
theorem cooCtor_eq (rows cols n : Nat) (sh : List Int) :
    cooCtor rows cols 1 n (some sh) =
      if sh.any (· < 0) then .error .value
      else if sh ≠ [] ∧ rows * cols = 0 then (if n ≠ 0 then .error .value else .ok (sh.map Int.toNat))
      else if n ≠ cols then .error .value
      else if sh.length ≠ rows then .error .value
      else .ok (sh.map Int.toNat) := by
  unfold cooCtor
  by_cases hz : sh ≠ [] ∧ rows * cols = 0
  · simp [hz]
  · simp only [hz, if_false]
    simp

/-- every rejection of the constructor is a `ValueError`, whatever the rank of `data` and whether or not a shape is given -/
theorem cooCtor_error (rows cols dn n : Nat) (shape : Option (List Int)) (e : Err)
    (h : cooCtor rows cols dn n shape = .error e) : e = Err.value := by
  unfold cooCtor at h
  cases shape with
  | none =>
    simp only at h
    split at h <;> (cases h; rfl)
  | some sh =>
    simp only at h
    repeat' split at h
    all_goals first | (cases h; rfl) | cases h

theorem ctor_spec (rows cols n : Nat) (sh : List Int) :
    ((∃ r, cooCtor rows cols 1 n (some sh) = .ok r) ↔ ctorContract rows cols n sh) ∧
    (∀ e, cooCtor rows cols 1 n (some sh) = .error e → e = Err.value) := by
  refine ⟨?_, fun e h => cooCtor_error _ _ _ _ _ e h⟩
  rw [cooCtor_eq rows cols n sh]
  unfold ctorContract
  have hneg := any_neg_iff sh
  constructor
  · rintro ⟨r, h⟩
    split at h
    · cases h
    · rename_i hs
      have hall : ∀ d ∈ sh, 0 ≤ d := Classical.not_not.mp (mt hneg.mpr hs)
      refine ⟨hall, ?_⟩
      split at h
      · rename_i hz
        split at h
        · cases h
        · rename_i hn; left; exact ⟨hz.2, hz.1, by omega⟩
      · split at h
        · cases h
        · split at h
          · cases h
          · rename_i hn hl; right; exact ⟨by omega, by omega⟩
  · rintro ⟨hall, hh⟩
    have hs : ¬ (sh.any (· < 0) = true) := fun h => hneg.mp h hall
    rw [if_neg hs]
    rcases hh with ⟨hz, hne, hn⟩ | ⟨hn, hl⟩
    · rw [if_pos ⟨hne, hz⟩, if_neg (by omega)]; exact ⟨_, rfl⟩
    · by_cases hz : sh ≠ [] ∧ rows * cols = 0
      · rw [if_pos hz]
        have hlen : sh.length ≠ 0 := fun h => hz.1 (List.length_eq_zero_iff.mp h)
        have : n = 0 := by
          rcases Nat.mul_eq_zero.mp hz.2 with hr | hc
          · omega
          · omega
        rw [if_neg (by omega)]; exact ⟨_, rfl⟩
      · rw [if_neg hz, if_neg (by omega), if_neg (by omega)]; exact ⟨_, rfl⟩

end Validate
end SparseV

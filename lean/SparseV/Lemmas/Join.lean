/-
  SparseV.Lemmas.Join — helper lemmas for joining (concatenate, stack) and for `diagonal`:
  lookups in appended entry lists, component-wise characterisation of `InB`, the member-locating
  function of `concatenate`, and "the constructor's default passes do nothing on distinct keys".
-/
import SparseV.Lemmas.Rewrite
import SparseV.Lemmas.Canonical
import SparseV.Model.Join
namespace SparseV

/-! ### component-wise view of `InB` -/

theorem InB_iff_getD_j : ∀ {i : Idx} {s : List Nat},
    InB i s ↔ i.length = s.length ∧ ∀ a, a < s.length → i.getD a 0 < s.getD a 0
  | [], [] => by simp
  | [], _ :: _ => by simp
  | _ :: _, [] => by simp
  | x :: is, d :: ds => by
    rw [InB_cons, InB_iff_getD_j (i := is) (s := ds)]
    constructor
    · rintro ⟨h0, hl, h⟩
      refine ⟨by simp [hl], fun a ha => ?_⟩
      cases a with
      | zero => simpa using h0
      | succ a =>
        have := h a (by simpa using ha)
        simpa using this
    · rintro ⟨hl, h⟩
      refine ⟨by simpa using h 0 (by simp), by simpa using hl, fun a ha => ?_⟩
      have := h (a + 1) (by simpa using ha)
      simpa using this

theorem InB_getD_lt {i : Idx} {s : List Nat} (h : InB i s) {a : Nat} (ha : a < s.length) :
    i.getD a 0 < s.getD a 0 := (InB_iff_getD_j.mp h).2 a ha

theorem getD_set_eq (l : List Nat) (a v : Nat) (h : a < l.length) : (l.set a v).getD a 0 = v := by
  simp [List.getD_eq_getElem?_getD, h]

theorem getD_set_ne (l : List Nat) (a b v : Nat) (h : a ≠ b) : (l.set a v).getD b 0 = l.getD b 0 := by
  simp [List.getD_eq_getElem?_getD, h]

theorem set_getD_self (l : List Nat) (a : Nat) : l.set a (l.getD a 0) = l := by
  apply List.ext_getElem?
  intro n
  rw [List.getElem?_set]
  by_cases h : a = n
  · subst h
    by_cases hl : a < l.length
    · simp [hl, List.getD_eq_getElem?_getD]
    · simp [hl]
  · simp [h]

namespace COO
variable {α : Type}

/-! ### lookups in appended lists -/

theorem lookup_append (A B : List (Idx × α)) (d : α) (j : Idx) :
    lookup (A ++ B) d j = lookup A (lookup B d j) j := by
  induction A with
  | nil => simp
  | cons e A ih => rw [List.cons_append, lookup_cons, lookup_cons, ih]

theorem keysOf_append (A B : List (Idx × α)) : keysOf (A ++ B) = keysOf A ++ keysOf B := by
  simp [keysOf]

theorem mem_keysOf {es : List (Idx × α)} {i : Idx} : i ∈ keysOf es ↔ ∃ e ∈ es, e.1 = i := by
  simp [keysOf]

theorem keysOf_mapIdx (f : Idx → Idx) (es : List (Idx × α)) : keysOf (mapIdx f es) = (keysOf es).map f := by
  simp [keysOf, mapIdx, List.map_map, Function.comp_def]

/-- a rewrite that is injective on the stored keys keeps them distinct -/
theorem nodup_mapIdx (f : Idx → Idx) (es : List (Idx × α)) (hnd : (keysOf es).Nodup)
    (hinj : ∀ a ∈ keysOf es, ∀ b ∈ keysOf es, f a = f b → a = b) : (keysOf (mapIdx f es)).Nodup := by
  rw [keysOf_mapIdx]
  generalize keysOf es = ks at hnd hinj
  induction ks with
  | nil => simp
  | cons k ks ih =>
    simp only [List.map_cons, List.nodup_cons] at hnd ⊢
    refine ⟨?_, ih hnd.2 (fun a ha b hb => hinj a (List.mem_cons_of_mem _ ha) b (List.mem_cons_of_mem _ hb))⟩
    intro hm
    obtain ⟨k', hk', he⟩ := List.mem_map.mp hm
    have := hinj k' (List.mem_cons_of_mem _ hk') k List.mem_cons_self he
    exact hnd.1 (this ▸ hk')

/-! ### the constructor's default passes on distinct in-bounds keys -/

theorem sumDup_eq_self_of_sortedLin [Add α] (shape : List Nat) (es : List (Idx × α))
    (h : SortedLin shape es) : sumDup shape es = es := by
  fun_induction sumDup shape es with
  | case1 => rfl
  | case2 e => rfl
  | case3 e1 e2 rest heq ih =>
    exfalso
    unfold SortedLin lin at h
    simp only [List.map_cons, List.pairwise_cons, List.mem_cons] at h
    have := h.1 _ (Or.inl rfl)
    omega
  | case4 e1 e2 rest hne ih =>
    unfold SortedLin lin at h ih
    simp only [List.map_cons, List.pairwise_cons] at h ih
    rw [ih ⟨h.2.1, h.2.2⟩]

/-- `COO.build` with default flags (sort, sum duplicates, no prune) on distinct in-bounds keys:
a lookup reads the entry list it was given -/
theorem lookup_build_distinct [Add α] [DecidableEq α] (shape : List Nat) (es : List (Idx × α)) (d : α)
    (hnd : (keysOf es).Nodup) (hwf : ∀ e ∈ es, InB e.1 shape) (j : Idx) :
    (COO.build shape es d).get j = lookup es d j := by
  have hs : SortedLin shape (sortEntries shape es) :=
    sortedLin_of_le_nodup shape _ (sortEntries_sortedLe shape es) (nodup_sortEntries shape es hnd)
      (fun e he => hwf e (mem_sortEntries.mp he))
  simp only [COO.build, COO.get, Bool.false_eq_true, if_false, if_true]
  rw [sumDup_eq_self_of_sortedLin shape _ hs]
  exact lookup_sortEntries shape es d j hnd

end COO

/-! ### locating the member of a concatenation -/

/-- `locate exts p`: the member number `k` whose range `[offset_k, offset_k + exts[k])` contains
position `p` (members of extent 0 are skipped), and the position `p - offset_k` inside it -/
def locate : List Nat → Nat → Nat × Nat
  | [], p => (0, p)
  | e :: es, p => if p < e then (0, p) else ((locate es (p - e)).1 + 1, (locate es (p - e)).2)

theorem locate_spec : ∀ (es : List Nat) (p : Nat), p < es.sum →
    (locate es p).1 < es.length ∧ (locate es p).2 < es.getD (locate es p).1 0 ∧
    (es.take (locate es p).1).sum + (locate es p).2 = p
  | [], p, h => by simp at h
  | e :: es, p, h => by
    unfold locate
    by_cases hp : p < e
    · simp [hp]
    · have hs : p - e < es.sum := by simp only [List.sum_cons] at h; omega
      obtain ⟨h1, h2, h3⟩ := locate_spec es (p - e) hs
      simp only [hp, if_false, List.length_cons, List.take_succ_cons, List.sum_cons, List.getD_cons_succ]
      refine ⟨by omega, h2, by omega⟩

/-- the located member is the only one whose range contains `p` -/
theorem locate_unique : ∀ (es : List Nat) (p k : Nat), k < es.length →
    (es.take k).sum ≤ p → p < (es.take k).sum + es.getD k 0 → locate es p = (k, p - (es.take k).sum)
  | [], _, _, hk, _, _ => by simp at hk
  | e :: es, p, 0, _, _, h2 => by
    simp at h2
    simp [locate, h2]
  | e :: es, p, k + 1, hk, h1, h2 => by
    simp only [List.take_succ_cons, List.sum_cons, List.getD_cons_succ] at h1 h2
    have hp : ¬ p < e := by omega
    have := locate_unique es (p - e) k (by simpa using hk) (by omega) (by omega)
    simp only [locate, hp, if_false, this, List.take_succ_cons, List.sum_cons]
    congr 1
    omega

namespace COO
variable {α : Type}

/-! ### concatenate -/

/-- extents of the members along `axis` -/
def exts (ys : List (COO α)) (axis : Nat) : List Nat := ys.map fun y => y.shape.getD axis 0

/-- the coordinate shift `concatenate` applies to a member placed at offset `off` -/
def shiftAx (axis off : Nat) (i : Idx) : Idx := i.set axis (i.getD axis 0 + off)

theorem concat_go_cons (axis : Nat) (y : COO α) (ys : List (COO α)) (off : Nat) :
    concatCore.go axis (y :: ys) off =
      (mapIdx (shiftAx axis off) y.entries ++ (concatCore.go axis ys (off + y.shape.getD axis 0)).1,
       (concatCore.go axis ys (off + y.shape.getD axis 0)).2) := rfl

theorem concat_go_snd (axis : Nat) (ys : List (COO α)) (off : Nat) :
    (concatCore.go axis ys off).2 = off + (exts ys axis).sum := by
  induction ys generalizing off with
  | nil => simp [concatCore.go, exts]
  | cons y ys ih =>
    rw [concat_go_cons]
    simp only [ih, exts, List.map_cons, List.sum_cons]
    omega

theorem shiftAx_getD (axis off : Nat) (i : Idx) (h : axis < i.length) :
    (shiftAx axis off i).getD axis 0 = i.getD axis 0 + off := getD_set_eq _ _ _ h

theorem unshift_shiftAx (axis off : Nat) (i : Idx) (h : axis < i.length) :
    (shiftAx axis off i).set axis ((shiftAx axis off i).getD axis 0 - off) = i := by
  rw [shiftAx_getD axis off i h]
  unfold shiftAx
  rw [List.set_set, Nat.add_sub_cancel, set_getD_self]

theorem shiftAx_unshift (axis off : Nat) (j : Idx) (h : off ≤ j.getD axis 0) :
    shiftAx axis off (j.set axis (j.getD axis 0 - off)) = j := by
  unfold shiftAx
  by_cases hl : axis < j.length
  · rw [getD_set_eq _ _ _ hl, List.set_set, Nat.sub_add_cancel h, set_getD_self]
  · have : j.length ≤ axis := by omega
    simp [List.set_eq_of_length_le, this]

/-- the `axis` coordinate of a stored index of a well-formed member is inside the member -/
theorem mem_shift_range {y : COO α} {axis off : Nat} (hwf : y.WF) (hr : axis < y.shape.length)
    {e : Idx × α} (he : e ∈ mapIdx (shiftAx axis off) y.entries) :
    off ≤ e.1.getD axis 0 ∧ e.1.getD axis 0 < off + y.shape.getD axis 0 := by
  obtain ⟨e0, he0, rfl⟩ := List.mem_map.mp he
  have hin := hwf e0 he0
  have hl : axis < e0.1.length := by rw [InB_length hin]; exact hr
  have := InB_getD_lt hin hr
  simp only [shiftAx_getD axis off e0.1 hl]
  omega

theorem concat_go_key_range (axis : Nat) (ys : List (COO α)) (off : Nat)
    (hwf : ∀ y ∈ ys, y.WF) (hrank : ∀ y ∈ ys, axis < y.shape.length) :
    ∀ e ∈ (concatCore.go axis ys off).1,
      off ≤ e.1.getD axis 0 ∧ e.1.getD axis 0 < off + (exts ys axis).sum := by
  induction ys generalizing off with
  | nil => intro e he; simp [concatCore.go] at he
  | cons y ys ih =>
    intro e he
    rw [concat_go_cons] at he
    simp only [exts, List.map_cons, List.sum_cons]
    rcases List.mem_append.mp he with h | h
    · have := mem_shift_range (hwf y List.mem_cons_self) (hrank y List.mem_cons_self) h
      omega
    · have := ih (off + y.shape.getD axis 0) (fun z hz => hwf z (List.mem_cons_of_mem _ hz))
        (fun z hz => hrank z (List.mem_cons_of_mem _ hz)) e h
      simp only [exts] at this
      omega

theorem lookup_shift (axis off : Nat) (y : COO α) (hwf : y.WF) (hr : axis < y.shape.length)
    (d : α) (j : Idx) (hlo : off ≤ j.getD axis 0) :
    lookup (mapIdx (shiftAx axis off) y.entries) d j = lookup y.entries d (j.set axis (j.getD axis 0 - off)) := by
  rw [mapIdx_eq_rewrite]
  refine rewrite_lookup _ _ _ (fun j => j.set axis (j.getD axis 0 - off)) j ?_ ?_
  · intro e he j' hg
    simp only [Option.some.injEq] at hg
    subst hg
    have hin := hwf e he
    exact unshift_shiftAx axis off e.1 (by rw [InB_length hin]; exact hr)
  · simp only [shiftAx_unshift axis off j hlo]

theorem concat_go_lookup (axis : Nat) (z : COO α) (ys : List (COO α)) (off : Nat) (d : α) (j : Idx)
    (hwf : ∀ y ∈ ys, y.WF) (hrank : ∀ y ∈ ys, axis < y.shape.length)
    (hlo : off ≤ j.getD axis 0) (hhi : j.getD axis 0 < off + (exts ys axis).sum) :
    lookup (concatCore.go axis ys off).1 d j =
      lookup (ys.getD (locate (exts ys axis) (j.getD axis 0 - off)).1 z).entries d
        (j.set axis (locate (exts ys axis) (j.getD axis 0 - off)).2) := by
  induction ys generalizing off with
  | nil => simp only [exts, List.map_nil, List.sum_nil] at hhi; omega
  | cons y ys ih =>
    have hwf' : ∀ z ∈ ys, z.WF := fun z hz => hwf z (List.mem_cons_of_mem _ hz)
    have hrank' : ∀ z ∈ ys, axis < z.shape.length := fun z hz => hrank z (List.mem_cons_of_mem _ hz)
    rw [concat_go_cons, lookup_append]
    simp only [exts, List.map_cons, List.sum_cons] at hhi ⊢
    unfold locate
    by_cases hp : j.getD axis 0 - off < y.shape.getD axis 0
    · simp only [hp, if_true, List.getD_cons_zero]
      have hmiss : lookup (concatCore.go axis ys (off + y.shape.getD axis 0)).1 d j = d := by
        apply lookup_of_not_mem
        intro hm
        obtain ⟨e, he, hk⟩ := mem_keysOf.mp hm
        have := (concat_go_key_range axis ys _ hwf' hrank' e he).1
        rw [hk] at this
        omega
      rw [hmiss]
      exact lookup_shift axis off y (hwf y List.mem_cons_self) (hrank y List.mem_cons_self) d j hlo
    · simp only [hp, if_false, List.getD_cons_succ]
      have hmiss : j ∉ keysOf (mapIdx (shiftAx axis off) y.entries) := by
        intro hm
        obtain ⟨e, he, hk⟩ := mem_keysOf.mp hm
        have := (mem_shift_range (hwf y List.mem_cons_self) (hrank y List.mem_cons_self) he).2
        rw [hk] at this
        omega
      rw [lookup_of_not_mem hmiss]
      have := ih (off + y.shape.getD axis 0) hwf' hrank' (by omega) (by simp only [exts]; omega)
      rw [this]
      simp only [exts, Nat.sub_sub]

theorem concat_go_nodup (axis : Nat) (ys : List (COO α)) (off : Nat)
    (hwf : ∀ y ∈ ys, y.WF) (hrank : ∀ y ∈ ys, axis < y.shape.length)
    (hnd : ∀ y ∈ ys, (keysOf y.entries).Nodup) : (keysOf (concatCore.go axis ys off).1).Nodup := by
  induction ys generalizing off with
  | nil => simp [concatCore.go, keysOf]
  | cons y ys ih =>
    have hwf' : ∀ z ∈ ys, z.WF := fun z hz => hwf z (List.mem_cons_of_mem _ hz)
    have hrank' : ∀ z ∈ ys, axis < z.shape.length := fun z hz => hrank z (List.mem_cons_of_mem _ hz)
    rw [concat_go_cons, keysOf_append, List.nodup_append]
    refine ⟨?_, ih _ hwf' hrank' (fun z hz => hnd z (List.mem_cons_of_mem _ hz)), ?_⟩
    · apply nodup_mapIdx _ _ (hnd y List.mem_cons_self)
      intro a ha b hb hab
      obtain ⟨ea, hea, rfl⟩ := mem_keysOf.mp ha
      obtain ⟨eb, heb, rfl⟩ := mem_keysOf.mp hb
      have hla : axis < ea.1.length := by
        rw [InB_length (hwf y List.mem_cons_self ea hea)]; exact hrank y List.mem_cons_self
      have hlb : axis < eb.1.length := by
        rw [InB_length (hwf y List.mem_cons_self eb heb)]; exact hrank y List.mem_cons_self
      rw [← unshift_shiftAx axis off ea.1 hla, ← unshift_shiftAx axis off eb.1 hlb, hab]
    · intro a ha b hb hab
      obtain ⟨ea, hea, rfl⟩ := mem_keysOf.mp ha
      obtain ⟨eb, heb, rfl⟩ := mem_keysOf.mp hb
      have h1 := (mem_shift_range (hwf y List.mem_cons_self) (hrank y List.mem_cons_self) hea).2
      have h2 := (concat_go_key_range axis ys _ hwf' hrank' eb heb).1
      rw [hab] at h1
      omega


/-! ### axis 0: the `sorted=True` promise of `concatenate` -/

theorem ravel_head_irrel (i : Idx) (d d' : Nat) (ds : List Nat) : ravel i (d :: ds) = ravel i (d' :: ds) := by
  cases i <;> rfl

theorem lin_shift0 (y : COO α) (hwf : y.WF) (dy : Nat) (ds : List Nat) (hs : y.shape = dy :: ds)
    (tot off : Nat) :
    lin (tot :: ds) (mapIdx (shiftAx 0 off) y.entries) = (lin y.shape y.entries).map (· + off * prod ds) := by
  unfold lin mapIdx
  rw [List.map_map, List.map_map]
  apply List.map_congr_left
  intro e he
  have hin := hwf e he
  rw [hs] at hin ⊢
  match h : e.1, hin with
  | i0 :: is, hin =>
    simp only [Function.comp, h, shiftAx, List.set_cons_zero, List.getD_cons_zero, ravel, Nat.add_mul]
    omega

theorem concat_go_sorted0 (ds : List Nat) (tot : Nat) (ys : List (COO α)) (off : Nat)
    (hwf : ∀ y ∈ ys, y.WF) (hshape : ∀ y ∈ ys, ∃ dy, y.shape = dy :: ds)
    (hs : ∀ y ∈ ys, SortedLin y.shape y.entries) :
    SortedLin (tot :: ds) (concatCore.go 0 ys off).1 ∧
    ∀ n ∈ lin (tot :: ds) (concatCore.go 0 ys off).1, off * prod ds ≤ n := by
  induction ys generalizing off with
  | nil => simp [concatCore.go, SortedLin, lin]
  | cons y ys ih =>
    obtain ⟨dy, hy⟩ := hshape y List.mem_cons_self
    have hwfy := hwf y List.mem_cons_self
    obtain ⟨ih1, ih2⟩ := ih (off + y.shape.getD 0 0) (fun z hz => hwf z (List.mem_cons_of_mem _ hz))
      (fun z hz => hshape z (List.mem_cons_of_mem _ hz)) (fun z hz => hs z (List.mem_cons_of_mem _ hz))
    have hlt : ∀ n ∈ lin y.shape y.entries, n < dy * prod ds := by
      intro n hn
      obtain ⟨e, he, rfl⟩ := List.mem_map.mp hn
      have := ravel_lt (hwfy e he)
      rw [hy] at this ⊢
      simpa [prod] using this
    have hext : y.shape.getD 0 0 = dy := by rw [hy]; rfl
    rw [concat_go_cons]
    unfold SortedLin at *
    have happ : lin (tot :: ds) (mapIdx (shiftAx 0 off) y.entries ++ (concatCore.go 0 ys (off + y.shape.getD 0 0)).1)
        = (lin y.shape y.entries).map (· + off * prod ds) ++ lin (tot :: ds) (concatCore.go 0 ys (off + y.shape.getD 0 0)).1 := by
      rw [← lin_shift0 y hwfy dy ds hy tot off]
      simp [lin]
    rw [happ]
    constructor
    · rw [List.pairwise_append]
      refine ⟨?_, ih1, ?_⟩
      · rw [List.pairwise_map]
        exact (hs y List.mem_cons_self).imp (fun h => by omega)
      · intro a ha b hb
        obtain ⟨a0, ha0, rfl⟩ := List.mem_map.mp ha
        have h1 := hlt a0 ha0
        have h2 := ih2 b hb
        rw [hext, Nat.add_mul] at h2
        omega
    · intro n hn
      rcases List.mem_append.mp hn with h | h
      · obtain ⟨a0, _, rfl⟩ := List.mem_map.mp h
        omega
      · have := ih2 n h
        rw [Nat.add_mul] at this
        omega

/-! ### stack -/

/-- the entry list `stack` builds, with member numbers starting at `s` -/
def stackGo (axis s : Nat) (xs : List (COO α)) : List (Idx × α) :=
  (List.zip (List.range' s xs.length) xs).flatMap fun p => mapIdx (fun i => insertAt i axis p.1) p.2.entries

theorem stackGo_cons (axis s : Nat) (y : COO α) (ys : List (COO α)) :
    stackGo axis s (y :: ys) = mapIdx (fun i => insertAt i axis s) y.entries ++ stackGo axis (s + 1) ys := by
  simp [stackGo, List.range'_succ]

theorem getD_insertAt_self (i : Idx) (axis k : Nat) (h : axis ≤ i.length) : (insertAt i axis k).getD axis 0 = k := by
  unfold insertAt
  rw [List.getD_eq_getElem?_getD, List.getElem?_append_right (by simp; omega)]
  simp [Nat.min_eq_left h]

theorem eraseIdx_insertAt_j (i : Idx) (axis k : Nat) (h : axis ≤ i.length) : (insertAt i axis k).eraseIdx axis = i := by
  unfold insertAt
  rw [List.eraseIdx_append_of_length_le (by simp; omega)]
  simp [Nat.min_eq_left h]

theorem insertAt_eraseIdx (j : Idx) (axis : Nat) (h : axis < j.length) :
    insertAt (j.eraseIdx axis) axis (j.getD axis 0) = j := by
  unfold insertAt
  have hl : (j.take axis).length = axis := by simp; omega
  rw [List.eraseIdx_eq_take_drop_succ, List.take_left' hl, List.drop_left' hl]
  have : j.getD axis 0 = j[axis] := by simp [List.getD_eq_getElem?_getD, List.getElem?_eq_getElem h]
  rw [this, ← List.drop_eq_getElem_cons h, List.take_append_drop]

theorem InB_append : ∀ (a c b d : List Nat), a.length = c.length → (InB (a ++ b) (c ++ d) ↔ InB a c ∧ InB b d)
  | [], [], b, d, _ => by simp
  | x :: a, y :: c, b, d, h => by
    simp only [List.cons_append, InB_cons, InB_append a c b d (by simpa using h), and_assoc]
  | [], _ :: _, _, _, h => by simp at h
  | _ :: _, [], _, _, h => by simp at h

theorem InB_insertAt_j (i s : List Nat) (axis k m : Nat) (h : axis ≤ s.length) :
    InB (insertAt i axis k) (insertAt s axis m) ↔ k < m ∧ InB i s := by
  constructor
  · intro hin
    have hl : i.length = s.length := by
      have := InB_length hin
      simp [insertAt] at this
      omega
    unfold insertAt at hin
    rw [InB_append _ _ _ _ (by simp [hl])] at hin
    refine ⟨hin.2.1, ?_⟩
    have := (InB_append (i.take axis) (s.take axis) (i.drop axis) (s.drop axis) (by simp [hl])).mpr ⟨hin.1, hin.2.2⟩
    simpa using this
  · rintro ⟨hk, hin⟩
    have hl := InB_length hin
    unfold insertAt
    rw [InB_append _ _ _ _ (by simp [hl])]
    have : InB (i.take axis ++ i.drop axis) (s.take axis ++ s.drop axis) := by simpa using hin
    rw [InB_append _ _ _ _ (by simp [hl])] at this
    exact ⟨this.1, hk, this.2⟩


theorem mem_stack_part {y : COO α} {axis s : Nat} (hlen : ∀ e ∈ y.entries, axis ≤ e.1.length)
    {e : Idx × α} (he : e ∈ mapIdx (fun i => insertAt i axis s) y.entries) : e.1.getD axis 0 = s := by
  obtain ⟨e0, he0, rfl⟩ := List.mem_map.mp he
  exact getD_insertAt_self _ _ _ (hlen e0 he0)

theorem stackGo_key_range (axis : Nat) (ys : List (COO α)) (s : Nat)
    (hlen : ∀ y ∈ ys, ∀ e ∈ y.entries, axis ≤ e.1.length) :
    ∀ e ∈ stackGo axis s ys, s ≤ e.1.getD axis 0 ∧ e.1.getD axis 0 < s + ys.length := by
  induction ys generalizing s with
  | nil => intro e he; simp [stackGo] at he
  | cons y ys ih =>
    intro e he
    rw [stackGo_cons] at he
    simp only [List.length_cons]
    rcases List.mem_append.mp he with h | h
    · have := mem_stack_part (hlen y List.mem_cons_self) h
      omega
    · have := ih (s + 1) (fun z hz => hlen z (List.mem_cons_of_mem _ hz)) e h
      omega

theorem lookup_stack_part (axis s : Nat) (y : COO α) (hlen : ∀ e ∈ y.entries, axis ≤ e.1.length)
    (d : α) (i : Idx) (hi : axis ≤ i.length) :
    lookup (mapIdx (fun i => insertAt i axis s) y.entries) d (insertAt i axis s) = lookup y.entries d i := by
  rw [mapIdx_eq_rewrite]
  have := rewrite_lookup y.entries d (fun i => some (insertAt i axis s)) (fun j => j.eraseIdx axis)
    (insertAt i axis s) ?_ ?_
  · rw [this, eraseIdx_insertAt_j i axis s hi]
  · intro e he j' hg
    simp only [Option.some.injEq] at hg
    subst hg
    exact eraseIdx_insertAt_j _ _ _ (hlen e he)
  · simp only [eraseIdx_insertAt_j i axis s hi]

theorem stackGo_lookup (axis : Nat) (z : COO α) (ys : List (COO α)) (s : Nat) (d : α) (i : Idx) (k : Nat)
    (hlen : ∀ y ∈ ys, ∀ e ∈ y.entries, axis ≤ e.1.length) (hi : axis ≤ i.length)
    (hlo : s ≤ k) (hhi : k < s + ys.length) :
    lookup (stackGo axis s ys) d (insertAt i axis k) = lookup (ys.getD (k - s) z).entries d i := by
  induction ys generalizing s with
  | nil => simp at hhi; omega
  | cons y ys ih =>
    have hlen' : ∀ z ∈ ys, ∀ e ∈ z.entries, axis ≤ e.1.length := fun z hz => hlen z (List.mem_cons_of_mem _ hz)
    rw [stackGo_cons, lookup_append]
    by_cases hk : k = s
    · subst hk
      have hmiss : lookup (stackGo axis (k + 1) ys) d (insertAt i axis k) = d := by
        apply lookup_of_not_mem
        intro hm
        obtain ⟨e, he, hke⟩ := mem_keysOf.mp hm
        have := (stackGo_key_range axis ys _ hlen' e he).1
        rw [hke, getD_insertAt_self i axis k hi] at this
        omega
      rw [hmiss, Nat.sub_self, List.getD_cons_zero]
      exact lookup_stack_part axis k y (hlen y List.mem_cons_self) d i hi
    · have hmiss : insertAt i axis k ∉ keysOf (mapIdx (fun i => insertAt i axis s) y.entries) := by
        intro hm
        obtain ⟨e, he, hke⟩ := mem_keysOf.mp hm
        have := mem_stack_part (hlen y List.mem_cons_self) he
        rw [hke, getD_insertAt_self i axis k hi] at this
        omega
      rw [lookup_of_not_mem hmiss, ih (s + 1) hlen' (by omega) (by simp only [List.length_cons] at hhi; omega)]
      have : k - s = (k - (s + 1)) + 1 := by omega
      rw [this, List.getD_cons_succ]

theorem stackGo_nodup (axis : Nat) (ys : List (COO α)) (s : Nat)
    (hlen : ∀ y ∈ ys, ∀ e ∈ y.entries, axis ≤ e.1.length)
    (hnd : ∀ y ∈ ys, (keysOf y.entries).Nodup) : (keysOf (stackGo axis s ys)).Nodup := by
  induction ys generalizing s with
  | nil => simp [stackGo, keysOf]
  | cons y ys ih =>
    have hlen' : ∀ z ∈ ys, ∀ e ∈ z.entries, axis ≤ e.1.length := fun z hz => hlen z (List.mem_cons_of_mem _ hz)
    rw [stackGo_cons, keysOf_append, List.nodup_append]
    refine ⟨?_, ih _ hlen' (fun z hz => hnd z (List.mem_cons_of_mem _ hz)), ?_⟩
    · apply nodup_mapIdx _ _ (hnd y List.mem_cons_self)
      intro a ha b hb hab
      obtain ⟨ea, hea, rfl⟩ := mem_keysOf.mp ha
      obtain ⟨eb, heb, rfl⟩ := mem_keysOf.mp hb
      rw [← eraseIdx_insertAt_j ea.1 axis s (hlen y List.mem_cons_self ea hea),
        ← eraseIdx_insertAt_j eb.1 axis s (hlen y List.mem_cons_self eb heb)]
      exact congrArg (fun l => List.eraseIdx l axis) hab
    · intro a ha b hb hab
      obtain ⟨ea, hea, rfl⟩ := mem_keysOf.mp ha
      obtain ⟨eb, heb, rfl⟩ := mem_keysOf.mp hb
      have h1 := mem_stack_part (hlen y List.mem_cons_self) hea
      have h2 := (stackGo_key_range axis ys _ hlen' eb heb).1
      rw [hab] at h1
      omega

end COO

/-! ### diagonal -/

theorem idxOf_getElem_of_nodup : ∀ (l : List Nat) (k : Nat) (hk : k < l.length), l.Nodup → l.idxOf l[k] = k
  | x :: xs, 0, _, _ => by simp
  | x :: xs, k + 1, hk, hnd => by
    have hk' : k < xs.length := by simpa using hk
    simp only [List.nodup_cons] at hnd
    have hne : x ≠ xs[k] := fun h => hnd.1 (h ▸ List.getElem_mem hk')
    simp only [List.getElem_cons_succ, List.idxOf_cons]
    have : (x == xs[k]) = false := by simpa using hne
    rw [this]
    simp [idxOf_getElem_of_nodup xs k hk' hnd.2]

theorem getD_map_range (n : Nat) (f : Nat → Nat) (a : Nat) (h : a < n) : ((List.range n).map f).getD a 0 = f a := by
  simp [List.getD_eq_getElem?_getD, h]

theorem eq_map_range_getD (e : List Nat) (n : Nat) (h : e.length = n) : e = (List.range n).map fun a => e.getD a 0 := by
  apply List.ext_getElem
  · simp [h]
  · intro i h1 h2
    simp [List.getD_eq_getElem?_getD, h1]

namespace COO

theorem gather_getD (i : List Nat) (axes : List Nat) (k : Nat) (h : k < axes.length) :
    (gather i axes).getD k 0 = i.getD (axes.getD k 0) 0 := by
  simp [gather, List.getD_eq_getElem?_getD, h]

theorem gather_append (i : List Nat) (a b : List Nat) : gather i (a ++ b) = gather i a ++ gather i b := by
  simp [gather]

/-- the axes `diagonal` keeps, in order -/
def diagOthers (n a1 a2 : Nat) : List Nat := (List.range n).filter fun a => a ≠ a1 ∧ a ≠ a2

theorem diagOthers_nodup (n a1 a2 : Nat) : (diagOthers n a1 a2).Nodup :=
  List.Nodup.sublist List.filter_sublist List.nodup_range

theorem mem_diagOthers {n a1 a2 a : Nat} : a ∈ diagOthers n a1 a2 ↔ a < n ∧ a ≠ a1 ∧ a ≠ a2 := by
  simp [diagOthers]

/-- the operand index a `diagonal` result index reads: kept coordinates go back to their axes, the
last coordinate `t` is the position along the diagonal, `axis1 ↦ t + max(-offset, 0)`,
`axis2 ↦ t + max(offset, 0)` -/
def diagSrc (n a1 a2 : Nat) (offset : Int) (j : Idx) : Idx :=
  (List.range n).map fun a =>
    if a = a1 then j.getD (diagOthers n a1 a2).length 0 + (-offset).toNat
    else if a = a2 then j.getD (diagOthers n a1 a2).length 0 + offset.toNat
    else j.getD ((diagOthers n a1 a2).idxOf a) 0

theorem diagSrc_length (n a1 a2 : Nat) (offset : Int) (j : Idx) : (diagSrc n a1 a2 offset j).length = n := by
  simp [diagSrc]

theorem diagSrc_a1 (n a1 a2 : Nat) (offset : Int) (j : Idx) (h : a1 < n) :
    (diagSrc n a1 a2 offset j).getD a1 0 = j.getD (diagOthers n a1 a2).length 0 + (-offset).toNat := by
  unfold diagSrc; rw [getD_map_range _ _ _ h]; simp

theorem diagSrc_a2 (n a1 a2 : Nat) (offset : Int) (j : Idx) (h : a2 < n) (hne : a1 ≠ a2) :
    (diagSrc n a1 a2 offset j).getD a2 0 = j.getD (diagOthers n a1 a2).length 0 + offset.toNat := by
  unfold diagSrc; rw [getD_map_range _ _ _ h]; simp [Ne.symm hne]

theorem diagSrc_other (n a1 a2 : Nat) (offset : Int) (j : Idx) (k : Nat) (hk : k < (diagOthers n a1 a2).length) :
    (diagSrc n a1 a2 offset j).getD ((diagOthers n a1 a2)[k]) 0 = j.getD k 0 := by
  have hm := mem_diagOthers.mp (List.getElem_mem hk)
  unfold diagSrc
  rw [getD_map_range _ _ _ hm.1]
  simp only [hm.2.1, hm.2.2, if_false]
  rw [idxOf_getElem_of_nodup _ k hk (diagOthers_nodup n a1 a2)]


/-- the coordinate selection `diagonal` applies: kept axes, then `axis1` (offset ≥ 0) or `axis2` -/
def diagAxes (n a1 a2 : Nat) (offset : Int) : List Nat :=
  diagOthers n a1 a2 ++ [if offset ≥ 0 then a1 else a2]

theorem diagSrc_gather (n a1 a2 : Nat) (offset : Int) (e : Idx) (he : e.length = n)
    (h1 : a1 < n) (h2 : a2 < n)
    (hP : (e.getD a1 0 : Int) + offset = (e.getD a2 0 : Int)) :
    diagSrc n a1 a2 offset (gather e (diagAxes n a1 a2 offset)) = e := by
  have hlast : (gather e (diagAxes n a1 a2 offset)).getD (diagOthers n a1 a2).length 0
      = e.getD (if offset ≥ 0 then a1 else a2) 0 := by
    rw [gather_getD _ _ _ (by simp [diagAxes])]
    simp [diagAxes, List.getD_eq_getElem?_getD]
  conv => rhs; rw [eq_map_range_getD e n he]
  unfold diagSrc
  apply List.map_congr_left
  intro a ha
  have ha' : a < n := List.mem_range.mp ha
  rw [hlast]
  by_cases ha1 : a = a1
  · subst ha1
    simp only [if_true]
    by_cases ho : offset ≥ 0
    · simp only [ho, if_true]; omega
    · simp only [ho, if_false]; omega
  · by_cases ha2 : a = a2
    · subst ha2
      simp only [ha1, if_false, if_true]
      by_cases ho : offset ≥ 0
      · simp only [ho, if_true]; omega
      · simp only [ho, if_false]; omega
    · simp only [ha1, ha2, if_false]
      have hm : a ∈ diagOthers n a1 a2 := mem_diagOthers.mpr ⟨ha', ha1, ha2⟩
      have hlt : (diagOthers n a1 a2).idxOf a < (diagOthers n a1 a2).length := List.idxOf_lt_length_of_mem hm
      rw [gather_getD _ _ _ (by simp [diagAxes]; omega)]
      congr 1
      simp only [diagAxes, List.getD_eq_getElem?_getD, List.getElem?_append_left hlt,
        List.getElem?_eq_getElem hlt, Option.getD_some]
      exact List.getElem_idxOf hlt

theorem gather_diagSrc (n a1 a2 : Nat) (offset : Int) (j : Idx)
    (hjl : j.length = (diagOthers n a1 a2).length + 1) (h1 : a1 < n) (h2 : a2 < n) (hne : a1 ≠ a2) :
    gather (diagSrc n a1 a2 offset j) (diagAxes n a1 a2 offset) = j := by
  apply List.ext_getElem
  · simp [gather, diagAxes, hjl]
  · intro k hk1 hk2
    have hk : k < (diagAxes n a1 a2 offset).length := by simpa [gather] using hk1
    have e1 : (gather (diagSrc n a1 a2 offset j) (diagAxes n a1 a2 offset))[k]
        = (gather (diagSrc n a1 a2 offset j) (diagAxes n a1 a2 offset)).getD k 0 := by
      simp [List.getD_eq_getElem?_getD, List.getElem?_eq_getElem hk1]
    have e2 : j[k] = j.getD k 0 := by simp [List.getD_eq_getElem?_getD, List.getElem?_eq_getElem hk2]
    rw [e1, e2, gather_getD _ _ _ hk]
    by_cases hko : k < (diagOthers n a1 a2).length
    · have : (diagAxes n a1 a2 offset).getD k 0 = (diagOthers n a1 a2)[k] := by
        simp [diagAxes, List.getD_eq_getElem?_getD, List.getElem?_append_left hko, List.getElem?_eq_getElem hko]
      rw [this, diagSrc_other n a1 a2 offset j k hko]
    · have hkeq : k = (diagOthers n a1 a2).length := by simp [diagAxes] at hk; omega
      have : (diagAxes n a1 a2 offset).getD k 0 = if offset ≥ 0 then a1 else a2 := by
        simp [diagAxes, List.getD_eq_getElem?_getD, hkeq]
      rw [this]
      by_cases ho : offset ≥ 0
      · simp only [ho, if_true, diagSrc_a1 n a1 a2 offset j h1, hkeq]; omega
      · simp only [ho, if_false, diagSrc_a2 n a1 a2 offset j h2 hne, hkeq]; omega

theorem diagSrc_sel (n a1 a2 : Nat) (offset : Int) (j : Idx) (h1 : a1 < n) (h2 : a2 < n) (hne : a1 ≠ a2) :
    ((diagSrc n a1 a2 offset j).getD a1 0 : Int) + offset = ((diagSrc n a1 a2 offset j).getD a2 0 : Int) := by
  rw [diagSrc_a1 n a1 a2 offset j h1, diagSrc_a2 n a1 a2 offset j h2 hne]
  omega

end COO

namespace COO
theorem InB_gather_j (i s : List Nat) (h : InB i s) : ∀ (axes : List Nat), (∀ a ∈ axes, a < s.length) →
    InB (gather i axes) (gather s axes)
  | [], _ => by simp [gather]
  | a :: axes, ha => by
    simp only [gather, List.map_cons, InB_cons]
    exact ⟨InB_getD_lt h (ha a List.mem_cons_self), InB_gather_j i s h axes (fun b hb => ha b (List.mem_cons_of_mem _ hb))⟩
theorem gather_length_j (i axes : List Nat) : (gather i axes).length = axes.length := by simp [gather]
end COO
theorem getD_append_last (A : List Nat) (v : Nat) : (A ++ [v]).getD A.length 0 = v := by
  simp [List.getD_eq_getElem?_getD]

theorem map_getD {β : Type} (f : β → Nat) (l : List β) (k : Nat) (z : β) (h : k < l.length) :
    (l.map f).getD k 0 = f (l.getD k z) := by
  simp [List.getD_eq_getElem?_getD, List.getElem?_eq_getElem h]

end SparseV

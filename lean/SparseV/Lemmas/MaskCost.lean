/-
  SparseV.Lemmas.MaskCost — the iteration count of `_compute_mask` is bounded in the stored entries and the pairs, not in the slice lengths.
-/
import SparseV.Model.MaskCost
namespace SparseV
namespace MaskCost

/-- one axis handled with pairs: `L · p ≤ M + 2 p` — a slice of three or more positions passes the heuristic only when `S ≤ M + p`; a shorter
one costs at most `2 p` whatever the heuristic says -/
theorem axis_iterations_le (take : Nat → Nat → Nat → Bool) (hs : HeuristicSound take) (L p M : Nat)
    (ht : take (L * p + 2) p M = true) : L * p ≤ M + 2 * p := by
  by_cases hp : p = 0
  · subst hp; simp
  · by_cases hL : L ≤ 2
    · have := Nat.mul_le_mul_right p hL; omega
    · have h3 : 3 ≤ L := by omega
      have hmax : Nat.max p 1 = p := Nat.max_eq_left (by omega)
      have h3p := Nat.mul_le_mul_right p h3
      have hS := hs (L * p + 2) p M ht (by rw [hmax]; omega)
      omega

theorem pairAxes_le_length (take : Nat → Nat → Nat → Bool) : ∀ (steps : List AxisStep) (p M : Nat), pairAxes take p M steps ≤ steps.length
  | [], _, _ => by simp [pairAxes]
  | a :: as, p, M => by
    simp only [pairAxes, List.length_cons]
    split
    · have := pairAxes_le_length take as a.p' a.M'; omega
    · omega

theorem pairIterations_le (take : Nat → Nat → Nat → Bool) (hs : HeuristicSound take) (n : Nat) :
    ∀ (steps : List AxisStep) (p M : Nat), p ≤ M + 1 → M ≤ n → Admissible M steps →
      pairIterations take p M steps ≤ pairAxes take p M steps * (3 * n + 2)
  | [], _, _, _, _, _ => by simp [pairIterations]
  | a :: as, p, M, hp, hM, hadm => by
    obtain ⟨h1, h2, h3⟩ := hadm
    simp only [pairIterations, pairAxes]
    split
    · rename_i ht
      have hax := axis_iterations_le take hs a.L p M ht
      have ih := pairIterations_le take hs n as a.p' a.M' (by omega) (by omega) h3
      rw [Nat.add_mul, Nat.one_mul]
      omega
    · simp

theorem totalIterations_le (take : Nat → Nat → Nat → Bool) (hs : HeuristicSound take) (n : Nat) :
    ∀ (steps : List AxisStep) (p M : Nat), p ≤ M + 1 → M ≤ n → Admissible M steps →
      totalIterations take p M steps ≤ steps.length * (3 * n + 2)
  | [], _, _, _, _, _ => by simp [totalIterations]
  | a :: as, p, M, hp, hM, hadm => by
    obtain ⟨h1, h2, h3⟩ := hadm
    simp only [totalIterations, List.length_cons]
    rw [Nat.add_mul, Nat.one_mul]
    split
    · rename_i ht
      have hax := axis_iterations_le take hs a.L p M ht
      have ih := totalIterations_le take hs n as a.p' a.M' (by omega) (by omega) h3
      omega
    · unfold filterIterations
      have h1 : M * (as.length + 1) ≤ n * (as.length + 1) := Nat.mul_le_mul_right _ hM
      have h2 : n * (as.length + 1) = as.length * n + n := by rw [Nat.mul_add, Nat.mul_one, Nat.mul_comm]
      have h3 : as.length * n ≤ as.length * (3 * n + 2) := Nat.mul_le_mul_left _ (by omega)
      omega

end MaskCost
end SparseV

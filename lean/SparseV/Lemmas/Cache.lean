/-
  SparseV.Lemmas.Cache — invariants and helper lemmas behind the C11 theorems (Props/C11.lean):
  membership facts about the deque operations, the invariant `cache_inv`, one-step and n-step
  specifications of the cache state machine, and the one-step frame fact of the buffer model.
  Core Lean only.
-/
import SparseV.Model.Cache
import SparseV.Model.Buffer
namespace SparseV.C11
open SparseV SparseV.Cache

variable {Val : Type}

theorem mem_of_lookup {c : Cache Val} {k : Key} {v : Val} (h : lookup c k = some v) : (k, v) ∈ c := by
  unfold lookup at h
  cases hf : c.find? (fun e => e.1 == k) with
  | none => simp [hf] at h
  | some e =>
    simp only [hf, Option.map_some, Option.some.injEq] at h
    have hm := List.mem_of_find?_eq_some hf
    have hk : e.1 = k := by simpa using List.find?_some hf
    rw [← h, ← hk]
    exact hm

theorem mem_append {c : Cache Val} {k : Key} {v : Val} {e : Key × Val} (h : e ∈ append c k v) :
    e ∈ c ∨ e = (k, v) := by
  unfold append at h
  split at h
  · rcases List.mem_append.mp h with h | h
    · exact Or.inl (List.mem_of_mem_drop h)
    · exact Or.inr (by simpa using h)
  · rcases List.mem_append.mp h with h | h
    · exact Or.inl h
    · exact Or.inr (by simpa using h)

/-- **capacity.** A deque never holds more than `capacity = 3` entries after an append, whatever it
held before (`deque(maxlen=3)`). -/
theorem append_length_le (c : Cache Val) (k : Key) (v : Val) : (append c k v).length ≤ capacity := by
  unfold append capacity
  split
  · simp only [List.length_append, List.length_drop, List.length_cons, List.length_nil]; omega
  · simp only [List.length_append, List.length_cons, List.length_nil]; omega

/-- every pair held by a deque is a correct result for its key -/
def DequeInv (o : Ops Val) (c : Cache Val) : Prop := ∀ e ∈ c, o.compute e.1 = .ok e.2

/-- **cache_inv.** Everything the cache holds is what the uncached computation returns for that key:
each deque entry `(k, v)` has `compute k = v`; the `_csr` memo is `_tocsr()`; the `_csc` memo is
the conversion of the `_csr` memo, which then exists. -/
def cache_inv (o : Ops Val) (s : State Val) : Prop :=
  DequeInv o s.tr ∧ DequeInv o s.rs ∧
  (∀ v, s.csr = some v → o.compute .csr = .ok v) ∧
  (∀ v, s.csc = some v → ∃ r, s.csr = some r ∧ v = o.csrToCsc r)

theorem viaDeque_spec (o : Ops Val) (c : Cache Val) (k : Key) (h : DequeInv o c) :
    DequeInv o (viaDeque o c k).1 ∧ (viaDeque o c k).2 = o.compute k := by
  unfold viaDeque
  cases hl : lookup c k with
  | some v =>
    have := h _ (mem_of_lookup hl)
    exact ⟨h, this.symm⟩
  | none =>
    cases hc : o.compute k with
    | error e => exact ⟨h, rfl⟩
    | ok v =>
      refine ⟨?_, rfl⟩
      intro e he
      rcases mem_append he with he | he
      · exact h e he
      · rw [he]; exact hc

/-- one call: the invariant is kept and the outcome is the uncached one -/
theorem step_spec (o : Ops Val) (s : State Val) (c : Call) (h : cache_inv o s) :
    cache_inv o (step o s c).1 ∧ (step o s c).2 = uncached o c := by
  obtain ⟨htr, hrs, hcsr, hcsc⟩ := h
  cases c with
  | transpose axes =>
    by_cases hid : axes = List.range o.shape.length
    · have hst : step o s (.transpose axes) = (s, .ok o.self) := by simp only [step, if_pos hid]
      have hun : uncached o (.transpose axes) = .ok o.self := by simp only [uncached, if_pos hid]
      rw [hst, hun]; exact ⟨⟨htr, hrs, hcsr, hcsc⟩, rfl⟩
    · have hst : step o s (.transpose axes) =
          ({ s with tr := (viaDeque o s.tr (.transpose axes)).1 }, (viaDeque o s.tr (.transpose axes)).2) := by
        simp only [step, if_neg hid]
      have hun : uncached o (.transpose axes) = o.compute (.transpose axes) := by simp only [uncached, if_neg hid]
      have := viaDeque_spec o s.tr (.transpose axes) htr
      rw [hst, hun]; exact ⟨⟨this.1, hrs, hcsr, hcsc⟩, this.2⟩
  | reshape sh lit =>
    by_cases hid : lit = true ∧ sh = o.shape
    · have hst : step o s (.reshape sh lit) = (s, .ok o.self) := by simp only [step, if_pos hid]
      have hun : uncached o (.reshape sh lit) = .ok o.self := by simp only [uncached, if_pos hid]
      rw [hst, hun]; exact ⟨⟨htr, hrs, hcsr, hcsc⟩, rfl⟩
    · have hst : step o s (.reshape sh lit) =
          ({ s with rs := (viaDeque o s.rs (.reshape sh)).1 }, (viaDeque o s.rs (.reshape sh)).2) := by
        simp only [step, if_neg hid]
      have hun : uncached o (.reshape sh lit) = o.compute (.reshape sh) := by simp only [uncached, if_neg hid]
      have := viaDeque_spec o s.rs (.reshape sh) hrs
      rw [hst, hun]; exact ⟨⟨htr, this.1, hcsr, hcsc⟩, this.2⟩
  | csr =>
    have hun : uncached o .csr = o.compute .csr := rfl
    rw [hun]
    cases h1 : s.csr with
    | some v =>
      have hst : step o s .csr = (s, .ok v) := by simp only [step, h1]
      rw [hst]; exact ⟨⟨htr, hrs, hcsr, hcsc⟩, (hcsr v h1).symm⟩
    | none =>
      cases h2 : s.csc with
      | some c =>
        obtain ⟨r, hr, _⟩ := hcsc c h2
        rw [h1] at hr; cases hr
      | none =>
        cases h3 : o.compute .csr with
        | error e =>
          have hst : step o s .csr = (s, .error e) := by simp only [step, h1, h2, h3]
          rw [hst]; exact ⟨⟨htr, hrs, hcsr, hcsc⟩, rfl⟩
        | ok v =>
          have hst : step o s .csr = ({ s with csr := some v }, .ok v) := by simp only [step, h1, h2, h3]
          rw [hst]
          refine ⟨⟨htr, hrs, ?_, ?_⟩, rfl⟩
          · intro v' hv'
            have : v = v' := by simpa using hv'
            rw [← this]; exact h3
          · intro v' hv'
            have : s.csc = some v' := hv'
            rw [h2] at this; cases this
  | csc =>
    have hun : uncached o .csc = (o.compute .csr).map o.csrToCsc := rfl
    rw [hun]
    cases h1 : s.csc with
    | some v =>
      obtain ⟨r, hr, hv⟩ := hcsc v h1
      have hst : step o s .csc = (s, .ok v) := by simp only [step, h1]
      rw [hst]
      refine ⟨⟨htr, hrs, hcsr, hcsc⟩, ?_⟩
      rw [hcsr r hr, hv]; rfl
    | none =>
      cases h2 : s.csr with
      | some r =>
        have hst : step o s .csc = ({ s with csc := some (o.csrToCsc r) }, .ok (o.csrToCsc r)) := by
          simp only [step, h1, h2]
        rw [hst]
        refine ⟨⟨htr, hrs, ?_, ?_⟩, ?_⟩
        · intro v hv; exact hcsr v hv
        · intro v hv
          have : o.csrToCsc r = v := by simpa using hv
          exact ⟨r, h2, this.symm⟩
        · rw [hcsr r h2]; rfl
      | none =>
        cases h3 : o.compute .csr with
        | error e =>
          have hst : step o s .csc = (s, .error e) := by simp only [step, h1, h2, h3]
          rw [hst]; exact ⟨⟨htr, hrs, hcsr, hcsc⟩, rfl⟩
        | ok r =>
          have hst : step o s .csc = ({ s with csr := some r, csc := some (o.csrToCsc r) }, .ok (o.csrToCsc r)) := by
            simp only [step, h1, h2, h3]
          rw [hst]
          refine ⟨⟨htr, hrs, ?_, ?_⟩, rfl⟩
          · intro v hv
            have : r = v := by simpa using hv
            rw [← this]; exact h3
          · intro v hv
            have : o.csrToCsc r = v := by simpa using hv
            exact ⟨r, rfl, this.symm⟩

theorem run_spec (o : Ops Val) (calls : List Call) :
    ∀ s, cache_inv o s → cache_inv o (run o s calls).1 ∧ (run o s calls).2 = calls.map (uncached o) := by
  induction calls with
  | nil => intro s h; exact ⟨h, rfl⟩
  | cons c cs ih =>
    intro s h
    have h1 := step_spec o s c h
    have h2 := ih _ h1.1
    simp only [run, List.map_cons]
    exact ⟨h2.1, by rw [h1.2, h2.2]⟩

theorem viaDeque_length (o : Ops Val) (c : Cache Val) (k : Key) (h : c.length ≤ capacity) :
    (viaDeque o c k).1.length ≤ capacity := by
  unfold viaDeque
  cases lookup c k with
  | some v => exact h
  | none =>
    cases o.compute k with
    | error e => exact h
    | ok v => exact append_length_le c k v

open SparseV.Buffer

theorem exec1_old (w : Nat → Content → Content) (k : Nat) (h : Heap) (s : Step) (tags : List Bool)
    (ht : h.env.map Loc.isNew = tags)
    (hs : (match s with | .writeInPlace d => tags[d]? == some true | _ => true) = true) :
    (exec1 w k h s).old = h.old ∧ (exec1 w k h s).env.map Loc.isNew = tag1 tags s := by
  cases s with
  | alloc => simp [exec1, tag1, ht, Loc.isNew]
  | copyOf x =>
    simp only [exec1, tag1]
    have hl : tags.length = h.env.length := by rw [← ht]; simp
    cases hx : h.env[x]? with
    | some l =>
      have : x < tags.length := by rw [hl]; exact (List.getElem?_eq_some_iff.mp hx).1
      simp [this, ht, Loc.isNew]
    | none =>
      have : ¬ x < tags.length := by rw [hl]; simpa using hx
      simp [this, ht]
  | viewOf x =>
    simp only [exec1, tag1]
    have hm : tags[x]? = (h.env[x]?).map Loc.isNew := by rw [← ht]; simp
    cases hx : h.env[x]? with
    | some l => simp [hm, hx, ht]
    | none => simp [hm, hx, ht]
  | writeInPlace d =>
    simp only [exec1, tag1]
    have hm : tags[d]? = (h.env[d]?).map Loc.isNew := by rw [← ht]; simp
    cases hx : h.env[d]? with
    | none => exact ⟨rfl, ht⟩
    | some l =>
      cases l with
      | new j => exact ⟨rfl, ht⟩
      | old b =>
        exfalso
        simp only [hm, hx] at hs
        simp [Loc.isNew] at hs

end SparseV.C11

/-
  SparseV.Lemmas.GcxsSelect — functional correctness of the two GCXS selection kernels on one row:
  `get_array_selection` (one binary search per requested column) and `get_slicing_selection` (the two
  `while` loops of `SparseV.Loops`) both compute `matchSpec row col` — for every position `c` of `col`
  whose column number occurs in the row, the pair (position in the row, `c`), in increasing `c`.
-/
import SparseV.Lemmas.GcxsRows
import SparseV.Lemmas.Loops
namespace SparseV
open COO
namespace GIx

/-- what a selection kernel has to find in one row -/
def matchSpec (row : List Nat) : Nat → List Nat → List (Nat × Nat)
  | _, [] => []
  | c, v :: vs => if v ∈ row then (row.idxOf v, c) :: matchSpec row (c + 1) vs else matchSpec row (c + 1) vs

theorem matchSpec_cons_pos {row : List Nat} {v : Nat} (h : v ∈ row) (c : Nat) (vs : List Nat) :
    matchSpec row c (v :: vs) = (row.idxOf v, c) :: matchSpec row (c + 1) vs := by
  rw [matchSpec, if_pos h]

theorem matchSpec_cons_neg {row : List Nat} {v : Nat} (h : v ∉ row) (c : Nat) (vs : List Nat) :
    matchSpec row c (v :: vs) = matchSpec row (c + 1) vs := by
  rw [matchSpec, if_neg h]

theorem matchSpec_nil (row : List Nat) : ∀ (c : Nat) (vs : List Nat), (∀ v ∈ vs, v ∉ row) → matchSpec row c vs = []
  | _, [], _ => rfl
  | c, v :: vs, h => by
    rw [matchSpec, if_neg (h v List.mem_cons_self)]
    exact matchSpec_nil row (c + 1) vs (fun w hw => h w (List.mem_cons_of_mem _ hw))

/-! ### `np.searchsorted` on a strictly increasing row -/

theorem searchsorted_of_mem : ∀ (row : List Nat) (v : Nat), row.Pairwise (· < ·) → v ∈ row →
    Loops.searchsorted row v = row.idxOf v
  | [], _, _, h => by simp at h
  | a :: row, v, hp, h => by
    unfold Loops.searchsorted
    rw [List.takeWhile_cons, List.idxOf_cons]
    by_cases hav : a = v
    · subst hav; simp
    · have hv : v ∈ row := by
        rcases List.mem_cons.mp h with h | h
        · exact absurd h.symm hav
        · exact h
      have hlt : a < v := (List.pairwise_cons.mp hp).1 v hv
      have hb : (a == v) = false := by simpa using hav
      simp only [hb, cond_false, decide_eq_true_eq, hlt, if_true, List.length_cons]
      have := searchsorted_of_mem row v (List.pairwise_cons.mp hp).2 hv
      unfold Loops.searchsorted at this
      rw [this]

theorem getD_mem {l : List Nat} {s : Nat} (h : s < l.length) : l.getD s 0 ∈ l := by
  rw [List.getD_eq_getElem?_getD, List.getElem?_eq_getElem h]
  exact List.getElem_mem h

/-- the test `not (s >= row.size or row[s] != v)` of both kernels succeeds exactly when `v` is in the row -/
theorem hit_iff_mem (row : List Nat) (v : Nat) (hp : row.Pairwise (· < ·)) :
    (Loops.searchsorted row v < row.length ∧ row.getD (Loops.searchsorted row v) 0 = v) ↔ v ∈ row := by
  constructor
  · rintro ⟨h1, h2⟩
    rw [← h2]; exact getD_mem h1
  · intro h
    rw [searchsorted_of_mem row v hp h]
    have hl := List.idxOf_lt_length_of_mem h
    refine ⟨hl, ?_⟩
    rw [List.getD_eq_getElem?_getD, List.getElem?_eq_getElem hl]
    exact List.getElem_idxOf hl

theorem arrayRowAux_eq (row : List Nat) (hp : row.Pairwise (· < ·)) : ∀ (c : Nat) (col : List Nat),
    arrayRowAux row c col = matchSpec row c col
  | _, [] => rfl
  | c, v :: vs => by
    unfold arrayRowAux matchSpec
    simp only []
    by_cases h : v ∈ row
    · rw [if_pos ((hit_iff_mem row v hp).mpr h), if_pos h, searchsorted_of_mem row v hp h, arrayRowAux_eq row hp]
    · rw [if_neg (fun hh => h ((hit_iff_mem row v hp).mp hh)), if_neg h, arrayRowAux_eq row hp]

/-- **`get_array_selection` on one row** finds exactly the requested columns that occur in the row -/
theorem arrayRow_eq (row col : List Nat) (hp : row.Pairwise (· < ·)) : arrayRow row col = matchSpec row 0 col := by
  unfold arrayRow
  split
  · rename_i h
    have : row = [] := List.length_eq_zero_iff.mp h
    subst this
    exact (matchSpec_nil [] 0 col (fun v _ => by simp)).symm
  · exact arrayRowAux_eq row hp 0 col

/-! ### helpers on strictly increasing lists -/

theorem sorted_le {l : List Nat} (hp : l.Pairwise (· < ·)) {i j : Nat} (hi : i < l.length) (hj : j < l.length)
    (hij : i ≤ j) : l[i] ≤ l[j] := by
  rcases Nat.lt_or_eq_of_le hij with h | h
  · exact Nat.le_of_lt (List.pairwise_iff_getElem.mp hp i j hi hj h)
  · subst h; exact Nat.le_refl _

theorem sorted_lt {l : List Nat} (hp : l.Pairwise (· < ·)) {i j : Nat} (hi : i < l.length) (hj : j < l.length)
    (hij : i < j) : l[i] < l[j] := List.pairwise_iff_getElem.mp hp i j hi hj hij

theorem idxOf_getElem_sorted {l : List Nat} (hp : l.Pairwise (· < ·)) {i : Nat} (hi : i < l.length) :
    l.idxOf l[i] = i := by
  have hm : l[i] ∈ l := List.getElem_mem hi
  have hl := List.idxOf_lt_length_of_mem hm
  have he : l[l.idxOf l[i]] = l[i] := List.getElem_idxOf hl
  rcases Nat.lt_trichotomy (l.idxOf l[i]) i with h | h | h
  · have := sorted_lt hp hl hi h; omega
  · exact h
  · have := sorted_lt hp hi hl h; omega

theorem mem_drop_getElem {l : List Nat} {k v : Nat} (h : v ∈ l.drop k) :
    ∃ c, ∃ (hc : c < l.length), k ≤ c ∧ l[c] = v := by
  obtain ⟨j, hj, he⟩ := List.mem_iff_getElem.mp h
  rw [List.getElem_drop] at he
  have : k + j < l.length := by simp only [List.length_drop] at hj; omega
  exact ⟨k + j, this, by omega, he⟩

theorem getLast?_getElem {l : List Nat} (h : 0 < l.length) : l.getLast? = some (l[l.length - 1]) := by
  rw [List.getLast?_eq_getElem?, List.getElem?_eq_getElem]

theorem matchSpec_drop (row col : List Nat) (k : Nat) (hk : k < col.length) :
    matchSpec row k (col.drop k) =
      if col[k] ∈ row then (row.idxOf col[k], k) :: matchSpec row (k + 1) (col.drop (k + 1))
      else matchSpec row (k + 1) (col.drop (k + 1)) := by
  rw [List.drop_eq_getElem_cons hk]; rfl

/-- no requested column from position `k` on occurs in the row when every row element below the cursor `n` is
smaller than all of them and every row element from the cursor on is larger than all of them -/
theorem no_match_of_split {row col : List Nat} {n k : Nat}
    (hlo : ∀ p (hp : p < row.length), p < n → ∀ c (hc : c < col.length), k ≤ c → row[p] < col[c])
    (hhi : ∀ p (hp : p < row.length), n ≤ p → ∀ c (hc : c < col.length), k ≤ c → col[c] < row[p]) :
    matchSpec row k (col.drop k) = [] := by
  apply matchSpec_nil
  intro v hv hmem
  obtain ⟨c, hc, hkc, rfl⟩ := mem_drop_getElem hv
  obtain ⟨p, hp, he⟩ := List.mem_iff_getElem.mp hmem
  by_cases hpn : p < n
  · have := hlo p hp hpn c hc hkc; omega
  · have := hhi p hp (by omega) c hc hkc; omega

/-! ### the first `while` loop of `get_slicing_selection` (linear filtering) -/

theorem linLoop_eq (row col : List Nat) (hrow : row.Pairwise (· < ·)) (hcol : col.Pairwise (· < ·)) :
    ∀ (fuel count colCount : Nat) (acc : List (Nat × Nat)),
      (row.length - count) + (col.length - colCount) < fuel →
      (∀ p (hp : p < row.length), p < count → ∀ c (hc : c < col.length), colCount ≤ c → row[p] < col[c]) →
      Loops.linLoop row col fuel count colCount acc =
        .done (acc.reverse ++ matchSpec row colCount (col.drop colCount))
  | 0, _, _, _, h, _ => by omega
  | fuel + 1, count, colCount, acc, hf, hinv => by
    unfold Loops.linLoop
    by_cases hc : colCount < col.length ∧ count < row.length
    · rw [if_pos hc]
      obtain ⟨hc1, hc2⟩ := hc
      rw [getLast?_getElem (by omega : 0 < row.length), getLast?_getElem (by omega : 0 < col.length),
        List.getElem?_eq_getElem hc2, List.getElem?_eq_getElem hc1]
      simp only []
      by_cases hbrk : row[row.length - 1] < col[colCount] ∨ row[count] > col[col.length - 1]
      · rw [if_pos hbrk]
        have : matchSpec row colCount (col.drop colCount) = [] := by
          rcases hbrk with hb | hb
          · -- the whole row lies below every remaining column
            apply no_match_of_split (n := row.length)
            · intro p hp _ c hcl hkc
              have h1 := sorted_le hrow hp (by omega : row.length - 1 < row.length) (by omega)
              have h2 := sorted_le hcol hc1 hcl hkc
              omega
            · intro p hp hn; omega
          · apply no_match_of_split (n := count) hinv
            intro p hp hn c hcl hkc
            have h1 := sorted_le hrow hc2 hp hn
            have h2 := sorted_le hcol hcl (by omega : col.length - 1 < col.length) (by omega)
            omega
        rw [this, List.append_nil]
      · rw [if_neg hbrk]
        by_cases heq : row[count] = col[colCount]
        · rw [if_pos heq, linLoop_eq row col hrow hcol fuel (count + 1) (colCount + 1) _ (by omega)]
          · rw [matchSpec_drop row col colCount hc1, if_pos (by rw [← heq]; exact List.getElem_mem hc2), ← heq,
              idxOf_getElem_sorted hrow hc2]
            simp
          · intro p hp hpn c hcl hkc
            by_cases hpc : p < count
            · exact hinv p hp hpc c hcl (by omega)
            · have h1 : p = count := by omega
              subst h1
              have := sorted_lt hcol hc1 hcl (by omega)
              omega
        · rw [if_neg heq]
          by_cases hlt : row[count] < col[colCount]
          · rw [if_pos hlt, linLoop_eq row col hrow hcol fuel (count + 1) colCount _ (by omega)]
            intro p hp hpn c hcl hkc
            by_cases hpc : p < count
            · exact hinv p hp hpc c hcl hkc
            · have h1 : p = count := by omega
              subst h1
              have := sorted_le hcol hc1 hcl hkc
              omega
          · rw [if_neg hlt, linLoop_eq row col hrow hcol fuel count (colCount + 1) _ (by omega)]
            · rw [matchSpec_drop row col colCount hc1, if_neg]
              intro hmem
              obtain ⟨p, hp, he⟩ := List.mem_iff_getElem.mp hmem
              by_cases hpc : p < count
              · have := hinv p hp hpc colCount hc1 (Nat.le_refl _); omega
              · have := sorted_le hrow hc2 hp (by omega); omega
            · intro p hp hpn c hcl hkc
              exact hinv p hp hpn c hcl (by omega)
    · rw [if_neg hc]
      have : matchSpec row colCount (col.drop colCount) = [] := by
        by_cases h1 : colCount < col.length
        · have h2 : row.length ≤ count := by
            rcases Nat.lt_or_ge count row.length with h | h
            · exact absurd ⟨h1, h⟩ hc
            · exact h
          apply no_match_of_split (n := count) hinv
          intro p hp hn; omega
        · rw [List.drop_of_length_le (by omega)]; rfl
      rw [this, List.append_nil]

/-! ### the second `while` loop (binary searches in a shrinking window) -/

theorem searchsorted_props : ∀ (l : List Nat) (v : Nat),
    Loops.searchsorted l v ≤ l.length ∧
    (∀ j (hj : j < l.length), j < Loops.searchsorted l v → l[j] < v) ∧
    (∀ (ht : Loops.searchsorted l v < l.length), ¬ l[Loops.searchsorted l v] < v)
  | [], v => by simp [Loops.searchsorted]
  | a :: l, v => by
    obtain ⟨h1, h2, h3⟩ := searchsorted_props l v
    unfold Loops.searchsorted at h1 h2 h3 ⊢
    rw [List.takeWhile_cons]
    by_cases hav : a < v
    · simp only [decide_eq_true_eq, hav, if_true, List.length_cons]
      refine ⟨by omega, ?_, ?_⟩
      · intro j hj hjt
        cases j with
        | zero => simpa using hav
        | succ j => simp only [List.getElem_cons_succ]; exact h2 j (by simpa using hj) (by omega)
      · intro ht
        simp only [List.getElem_cons_succ]
        exact h3 (by simpa using ht)
    · simp only [decide_eq_true_eq, hav, if_false, List.length_nil]
      refine ⟨by omega, fun j _ hj => by omega, fun _ => by simpa using hav⟩

theorem skipLoop_spec (row col : List Nat) (size : Nat) : ∀ (fuel colCount k : Nat), col.length - colCount ≤ fuel →
    Loops.skipLoop row col size fuel colCount = k →
    colCount ≤ k ∧
    (∀ c (hc : c < col.length), colCount ≤ c → c < k → ∃ hs : size < row.length, col[c] < row[size]) ∧
    (∀ (hk : k < col.length) (hs : size < row.length), ¬ col[k] < row[size])
  | 0, colCount, k, h, hk => by
    simp only [Loops.skipLoop] at hk
    subst hk
    exact ⟨Nat.le_refl _, fun c _ h1 h2 => by omega, fun hk _ => by omega⟩
  | fuel + 1, colCount, k, h, hk => by
    unfold Loops.skipLoop at hk
    by_cases hc : colCount < col.length
    · by_cases hs : size < row.length
      · rw [List.getElem?_eq_getElem hc, List.getElem?_eq_getElem hs] at hk
        simp only [] at hk
        by_cases hlt : col[colCount] < row[size]
        · rw [if_pos hlt] at hk
          obtain ⟨h1, h2, h3⟩ := skipLoop_spec row col size fuel (colCount + 1) k (by omega) hk
          refine ⟨by omega, ?_, h3⟩
          intro c hcl hge hck
          by_cases hcc : c = colCount
          · subst hcc; exact ⟨hs, hlt⟩
          · exact h2 c hcl (by omega) hck
        · rw [if_neg hlt] at hk
          subst hk
          exact ⟨Nat.le_refl _, fun c _ h1 h2 => by omega, fun _ _ => hlt⟩
      · rw [List.getElem?_eq_getElem hc, List.getElem?_eq_none (by omega)] at hk
        simp only [] at hk
        subst hk
        exact ⟨Nat.le_refl _, fun c _ h1 h2 => by omega, fun _ hs' => absurd hs' hs⟩
    · rw [List.getElem?_eq_none (by omega)] at hk
      simp only [] at hk
      subst hk
      exact ⟨Nat.le_refl _, fun c _ h1 h2 => by omega, fun hk _ => absurd hk hc⟩

theorem matchSpec_advance (row col : List Nat) : ∀ (d k0 : Nat), k0 + d ≤ col.length →
    (∀ c (hc : c < col.length), k0 ≤ c → c < k0 + d → col[c] ∉ row) →
    matchSpec row k0 (col.drop k0) = matchSpec row (k0 + d) (col.drop (k0 + d))
  | 0, _, _, _ => rfl
  | d + 1, k0, hle, h => by
    rw [matchSpec_drop row col k0 (by omega), if_neg (h k0 (by omega) (Nat.le_refl _) (by omega)),
      matchSpec_advance row col d (k0 + 1) (by omega) (fun c hc h1 h2 => h c hc (by omega) (by omega))]
    have e : k0 + 1 + d = k0 + (d + 1) := by omega
    rw [e]

theorem not_mem_of_split {row : List Nat} {v n : Nat}
    (hlo : ∀ p (hp : p < row.length), p < n → row[p] < v) (hhi : ∀ p (hp : p < row.length), n ≤ p → v < row[p]) :
    v ∉ row := by
  intro hmem
  obtain ⟨p, hp, he⟩ := List.mem_iff_getElem.mp hmem
  by_cases hpn : p < n
  · have := hlo p hp hpn; omega
  · have := hhi p hp (by omega); omega

theorem binLoop_eq (row col : List Nat) (hrow : row.Pairwise (· < ·)) (hcol : col.Pairwise (· < ·))
    (hne : 0 < row.length) :
    ∀ (fuel size colCount : Nat) (acc : List (Nat × Nat)),
      col.length - colCount < fuel → size ≤ row.length →
      (∀ p (hp : p < row.length), p < size → ∀ c (hc : c < col.length), colCount ≤ c → row[p] < col[c]) →
      Loops.binLoop row col fuel size colCount acc =
        .done (acc.reverse ++ matchSpec row colCount (col.drop colCount))
  | 0, _, _, _, h, _, _ => by omega
  | fuel + 1, size, colCount, acc, hf, hsz, hinv => by
    unfold Loops.binLoop
    by_cases h1 : colCount < col.length
    · rw [if_pos h1]
      simp only []
      generalize hkdef : Loops.skipLoop row col size (col.length - colCount) colCount = k
      obtain ⟨hge, hskip, hstop⟩ := skipLoop_spec row col size (col.length - colCount) colCount k (Nat.le_refl _) hkdef
      -- the skipped columns are not in the row
      have hinvk : ∀ p (hp : p < row.length), p < size → ∀ c (hc : c < col.length), k ≤ c → row[p] < col[c] :=
        fun p hp hps c hc hkc => hinv p hp hps c hc (by omega)
      by_cases hkl : k ≥ col.length
      · rw [if_pos hkl]
        have hadv := matchSpec_advance row col (col.length - colCount) colCount (by omega) (by
          intro c hc hc1 _
          obtain ⟨hs, hlt⟩ := hskip c hc hc1 (by omega)
          exact not_mem_of_split (n := size) (fun p hp hps => hinv p hp hps c hc hc1)
            (fun p hp hps => by have := sorted_le hrow hs hp hps; omega))
        rw [hadv, List.drop_of_length_le (by omega)]
        simp [matchSpec]
      · rw [if_neg hkl]
        have hk' : k < col.length := by omega
        have hadv := matchSpec_advance row col (k - colCount) colCount (by omega) (by
          intro c hc hc1 hc2
          obtain ⟨hs, hlt⟩ := hskip c hc hc1 (by omega)
          exact not_mem_of_split (n := size) (fun p hp hps => hinv p hp hps c hc hc1)
            (fun p hp hps => by have := sorted_le hrow hs hp hps; omega))
        rw [show colCount + (k - colCount) = k by omega] at hadv
        rw [hadv, getLast?_getElem hne, getLast?_getElem (by omega : 0 < col.length), List.getElem?_eq_getElem hk']
        simp only []
        by_cases hb1 : row[row.length - 1] < col[k]
        · rw [if_pos hb1]
          have : matchSpec row k (col.drop k) = [] := by
            apply no_match_of_split (n := row.length)
            · intro p hp _ c hcl hkc
              have h1 := sorted_le hrow hp (by omega : row.length - 1 < row.length) (by omega)
              have h2 := sorted_le hcol hk' hcl hkc
              omega
            · intro p hp hn; omega
          rw [this, List.append_nil]
        · rw [if_neg hb1]
          have hs : size < row.length := by
            rcases Nat.lt_or_ge size row.length with h | h
            · exact h
            · exfalso
              exact hb1 (hinvk (row.length - 1) (by omega) (by omega) k hk' (Nat.le_refl _))
          rw [List.getElem?_eq_getElem hs]
          simp only []
          by_cases hb2 : row[size] > col[col.length - 1]
          · rw [if_pos hb2]
            have : matchSpec row k (col.drop k) = [] := by
              apply no_match_of_split (n := size) hinvk
              intro p hp hn c hcl hkc
              have h1 := sorted_le hrow hs hp hn
              have h2 := sorted_le hcol hcl (by omega : col.length - 1 < col.length) (by omega)
              omega
            rw [this, List.append_nil]
          · rw [if_neg hb2]
            obtain ⟨ss1, ss2, ss3⟩ := searchsorted_props (row.drop size) col[k]
            generalize Loops.searchsorted (row.drop size) col[k] = t at ss1 ss2 ss3
            simp only [List.length_drop] at ss1 ss2 ss3
            -- below the landing position everything is smaller than the requested column
            have hbelow : ∀ p (hp : p < row.length), p < size + t → row[p] < col[k] := by
              intro p hp hpt
              by_cases hps : p < size
              · exact hinvk p hp hps k hk' (Nat.le_refl _)
              · have := ss2 (p - size) (by omega) (by omega)
                rw [List.getElem_drop] at this
                simpa [show size + (p - size) = p by omega] using this
            by_cases hs' : size + t < row.length
            · have hge' : ¬ row[size + t] < col[k] := by
                have := ss3 (by omega)
                rw [List.getElem_drop] at this
                exact this
              rw [List.getElem?_eq_getElem hs']
              simp only []
              by_cases hv : row[size + t] = col[k]
              · rw [if_pos hv, binLoop_eq row col hrow hcol hne fuel (size + t + 1) (k + 1) _ (by omega) (by omega)]
                · rw [matchSpec_drop row col k hk', if_pos (by rw [← hv]; exact List.getElem_mem hs'), ← hv,
                    idxOf_getElem_sorted hrow hs']
                  simp
                · intro p hp hpn c hcl hkc
                  have hck := sorted_lt hcol hk' hcl (by omega)
                  by_cases hpc : p < size + t
                  · have := hbelow p hp hpc; omega
                  · have h1 : p = size + t := by omega
                    subst h1
                    omega
              · rw [if_neg hv, binLoop_eq row col hrow hcol hne fuel (size + t) (k + 1) _ (by omega) (by omega)]
                · rw [matchSpec_drop row col k hk', if_neg]
                  apply not_mem_of_split (n := size + t) hbelow
                  intro p hp hpn
                  have := sorted_le hrow hs' hp hpn
                  omega
                · intro p hp hpn c hcl hkc
                  have hck := sorted_lt hcol hk' hcl (by omega)
                  have := hbelow p hp hpn; omega
            · rw [List.getElem?_eq_none (by omega)]
              simp only []
              rw [binLoop_eq row col hrow hcol hne fuel (size + t) (k + 1) _ (by omega) (by omega)]
              · rw [matchSpec_drop row col k hk', if_neg]
                apply not_mem_of_split (n := size + t) hbelow
                intro p hp hpn; omega
              · intro p hp hpn c hcl hkc
                have hck := sorted_lt hcol hk' hcl (by omega)
                have := hbelow p hp hpn; omega
    · rw [if_neg h1, List.drop_of_length_le (by omega)]
      simp [matchSpec]

/-! ### one row, then the outer loop -/

/-- **`get_slicing_selection` on one row** (strictly increasing row, strictly increasing requested columns — the
`pos_slice` guard): the loop that is chosen, with the step budget of property C18, finds exactly the requested
columns that occur in the row. -/
theorem rowSelection_eq (indices col : List Nat) (st en : Nat)
    (hrow : (rowSlice indices st en).Pairwise (· < ·)) (hcol : col.Pairwise (· < ·)) :
    Loops.rowSelection none indices col st en = .done (matchSpec (rowSlice indices st en) 0 col) := by
  unfold Loops.rowSelection Loops.budget
  simp only [Option.getD_none]
  change (if (rowSlice indices st en).length < col.length then
      Loops.linLoop (rowSlice indices st en) col ((rowSlice indices st en).length + col.length + 1) 0 0 []
    else Loops.binLoop (rowSlice indices st en) col ((rowSlice indices st en).length + col.length + 1) 0 0 []) = _
  split
  · rw [linLoop_eq _ _ hrow hcol _ 0 0 [] (by omega) (fun p _ hp => by omega)]
    simp
  · rename_i hlen
    by_cases hne : 0 < (rowSlice indices st en).length
    · rw [binLoop_eq _ _ hrow hcol hne _ 0 0 [] (by omega) (by omega) (fun p _ hp => by omega)]
      simp
    · have h1 : rowSlice indices st en = [] := List.length_eq_zero_iff.mp (by omega)
      have h2 : col = [] := by rw [h1] at hlen; simpa using hlen
      rw [h1, h2]
      simp [Loops.binLoop, matchSpec]

theorem go_eq (ind c : List Nat) (f : Nat × Nat → List (Nat × Nat)) :
    ∀ (rows : List (Nat × Nat)) (il cs ptr : List Nat) (last : Nat),
    (∀ p ∈ rows, Loops.rowSelection none ind c p.1 p.2 = .done (f p)) →
    Loops.slicingSelection.go none ind c rows il cs ptr last =
      .done (il.reverse ++ rows.flatMap (fun p => (f p).map fun q => q.1 + p.1))
        (cs.reverse ++ rows.flatMap (fun p => (f p).map (·.2)))
        (ptr.reverse ++ cumLens last (rows.map fun p => (f p).length))
  | [], il, cs, ptr, last, _ => by simp [Loops.slicingSelection.go, cumLens]
  | (st, en) :: rest, il, cs, ptr, last, h => by
    unfold Loops.slicingSelection.go
    rw [h (st, en) List.mem_cons_self]
    simp only []
    rw [go_eq ind c f rest _ _ _ _ (fun p hp => h p (List.mem_cons_of_mem _ hp))]
    simp [cumLens]

/-- the selections both kernels are specified to make: per requested row, the matches of its slice of `indices` -/
def selSpec (indices : List Nat) (rows : List (Nat × Nat)) (col : List Nat) : Sel :=
  assemble (rows.map fun p => (p.1, matchSpec (rowSlice indices p.1 p.2) 0 col))

/-- **`get_array_selection`** computes `selSpec` when every requested row is strictly increasing (any `col`:
unsorted, repeated entries) -/
theorem arraySelection_eq (indices : List Nat) (rows : List (Nat × Nat)) (col : List Nat)
    (hrows : ∀ p ∈ rows, (rowSlice indices p.1 p.2).Pairwise (· < ·)) :
    arraySelection indices rows col = selSpec indices rows col := by
  unfold arraySelection selSpec
  congr 1
  apply List.map_congr_left
  intro p hp
  rw [arrayRow_eq _ _ (hrows p hp)]

/-- **`get_slicing_selection`** computes the same `selSpec` when moreover `col` is strictly increasing
(`pos_slice`), and never fails -/
theorem slicingSelection_eq (indices : List Nat) (rows : List (Nat × Nat)) (col : List Nat)
    (hrows : ∀ p ∈ rows, (rowSlice indices p.1 p.2).Pairwise (· < ·)) (hcol : col.Pairwise (· < ·)) :
    slicingSelection indices rows col = .ok (selSpec indices rows col) := by
  unfold slicingSelection Loops.slicingSelection
  rw [go_eq indices col (fun p => matchSpec (rowSlice indices p.1 p.2) 0 col) rows [] [] [0] 0
    (fun p hp => rowSelection_eq indices col p.1 p.2 (hrows p hp) hcol)]
  simp [selSpec, assemble, List.flatMap_map]
  rfl

/-! ### the selected triple as a list of rows -/

theorem matchSpec_snd (row : List Nat) : ∀ (c0 : Nat) (vs : List Nat),
    (∀ q ∈ matchSpec row c0 vs, c0 ≤ q.2 ∧ q.2 < c0 + vs.length) ∧
    ((matchSpec row c0 vs).map (·.2)).Pairwise (· < ·)
  | _, [] => by simp [matchSpec]
  | c0, v :: vs => by
    obtain ⟨h1, h2⟩ := matchSpec_snd row (c0 + 1) vs
    unfold matchSpec
    split
    · refine ⟨?_, ?_⟩
      · intro q hq
        rcases List.mem_cons.mp hq with rfl | hq
        · simp
        · have := h1 q hq; simp only [List.length_cons]; omega
      · rw [List.map_cons, List.pairwise_cons]
        refine ⟨?_, h2⟩
        intro b hb
        obtain ⟨q, hq, rfl⟩ := List.mem_map.mp hb
        have := h1 q hq; simp only; omega
    · refine ⟨fun q hq => by have := h1 q hq; simp only [List.length_cons]; omega, h2⟩

/-- looking a result column up in a selected row: the value stored for the requested column, if the row has it -/
theorem rowGet_matchSpec (row : List Nat) (f : Nat → Int) (d : Int) : ∀ (c0 : Nat) (vs : List Nat) (c' : Nat),
    c0 ≤ c' → c' < c0 + vs.length →
    rowGet ((matchSpec row c0 vs).map fun q => (q.2, f q.1)) d c' =
      if vs.getD (c' - c0) 0 ∈ row then f (row.idxOf (vs.getD (c' - c0) 0)) else d
  | _, [], _, h1, h2 => by simp at h2; omega
  | c0, v :: vs, c', h1, h2 => by
    have hmiss : ∀ (l : List (Nat × Nat)), (∀ q ∈ l, c' < q.2) → rowGet (l.map fun q => (q.2, f q.1)) d c' = d := by
      intro l hl
      unfold rowGet
      rw [List.find?_eq_none.mpr]
      intro e he
      obtain ⟨q, hq, rfl⟩ := List.mem_map.mp he
      have := hl q hq
      simp only [beq_iff_eq]; omega
    by_cases hc : c' = c0
    · subst hc
      simp only [Nat.sub_self, List.getD_cons_zero]
      by_cases hv : v ∈ row
      · rw [matchSpec_cons_pos hv, if_pos hv]
        simp [rowGet]
      · rw [matchSpec_cons_neg hv, if_neg hv]
        apply hmiss
        intro q hq
        have := (matchSpec_snd row (c' + 1) vs).1 q hq; omega
    · have hgt : c0 + 1 ≤ c' := by omega
      have ih := rowGet_matchSpec row f d (c0 + 1) vs c' hgt (by simp only [List.length_cons] at h2; omega)
      have hidx : c' - c0 = (c' - (c0 + 1)) + 1 := by omega
      rw [hidx, List.getD_cons_succ, ← ih]
      by_cases hv : v ∈ row
      · rw [matchSpec_cons_pos hv, List.map_cons]
        unfold rowGet
        rw [List.find?_cons]
        have : ((c0 == c') = false) := by simp; omega
        simp only [this]
      · rw [matchSpec_cons_neg hv]

theorem rowSlice_getD {β : Type} (l : List β) (st en p : Nat) (d d' : β) (h : p < (rowSlice l st en).length) :
    (rowSlice l st en).getD p d = l.getD (st + p) d' := by
  rw [rowSlice_length] at h
  unfold rowSlice
  simp only [List.getD_eq_getElem?_getD, List.getElem?_drop, List.getElem?_take]
  rw [if_pos (by omega), List.getElem?_eq_getElem (by omega)]
  rfl

/-- looking a column up in a stored row -/
theorem rowGet_zip : ∀ (row : List Nat) (ds : List Int) (d : Int) (v : Nat), row.length ≤ ds.length →
    rowGet (row.zip ds) d v = if v ∈ row then ds.getD (row.idxOf v) d else d
  | [], _, _, _, _ => by simp [rowGet]
  | a :: row, [], _, _, h => by simp at h
  | a :: row, x :: ds, d, v, h => by
    unfold rowGet
    rw [List.zip_cons_cons, List.find?_cons, List.idxOf_cons]
    by_cases hav : a = v
    · subst hav; simp
    · have hb : (a == v) = false := by simpa using hav
      simp only [hb, cond_false]
      have ih := rowGet_zip row ds d v (by simpa using h)
      unfold rowGet at ih
      rw [ih]
      have hm : (v ∈ a :: row) ↔ v ∈ row := by
        simp only [List.mem_cons]
        constructor
        · rintro (h | h)
          · exact absurd h.symm hav
          · exact h
        · exact Or.inr
      by_cases hv : v ∈ row
      · rw [if_pos hv, if_pos (hm.mpr hv), List.getD_cons_succ]
      · rw [if_neg hv, if_neg (fun h => hv (hm.mp h))]

/-- the rows both kernels are specified to produce: for every requested row, the requested columns it stores
(as positions in `cols`) with their values -/
def selRows (indptr indices : List Nat) (data : List Int) (rows cols : List Nat) : List (List (Nat × Int)) :=
  rows.map fun r =>
    (matchSpec (rowSlice indices (indptr.getD r 0) (indptr.getD (r + 1) 0)) 0 cols).map fun q =>
      (q.2, data.getD (q.1 + indptr.getD r 0) 0)

theorem selRows_get (R C : Nat) (indptr indices : List Nat) (data : List Int)
    (hwf : CsrWF R C indptr indices data.length) (rows cols : List Nat) (hrows : ∀ r ∈ rows, r < R)
    (d : Int) (r' c' : Nat) (hr : r' < rows.length) (hc : c' < cols.length) :
    rowGet ((selRows indptr indices data rows cols).getD r' []) d c' =
      rowGet (csrRow indptr indices data (rows.getD r' 0)) d (cols.getD c' 0) := by
  obtain ⟨_, _, hR, hd, hm, hsorted, _⟩ := hwf
  unfold selRows
  rw [List.getD_eq_getElem?_getD, List.getElem?_eq_getElem (by simpa using hr), List.getElem_map, Option.getD_some]
  have hrr : rows.getD r' 0 = rows[r'] := by
    rw [List.getD_eq_getElem?_getD, List.getElem?_eq_getElem hr, Option.getD_some]
  rw [hrr]
  have hrlt : rows[r'] < R := hrows _ (List.getElem_mem hr)
  rw [rowGet_matchSpec _ (fun p => data.getD (p + indptr.getD rows[r'] 0) 0) d 0 cols c' (Nat.zero_le _) (by omega),
    Nat.sub_zero]
  unfold csrRow
  have hlen : (rowSlice indices (indptr.getD rows[r'] 0) (indptr.getD (rows[r'] + 1) 0)).length =
      (rowSlice data (indptr.getD rows[r'] 0) (indptr.getD (rows[r'] + 1) 0)).length := by
    rw [rowSlice_length, rowSlice_length, hd]
  rw [rowGet_zip _ _ d _ (by omega)]
  by_cases hv : cols.getD c' 0 ∈ rowSlice indices (indptr.getD rows[r'] 0) (indptr.getD (rows[r'] + 1) 0)
  · rw [if_pos hv, if_pos hv]
    have hi := List.idxOf_lt_length_of_mem hv
    rw [rowSlice_getD data _ _ _ d 0 (by omega), Nat.add_comm]
  · rw [if_neg hv, if_neg hv]

theorem select_eq (g : GCXS Int) (R C : Nat) (hwf : CsrWF R C g.indptr g.indices g.data.length)
    (rows cols : List Nat) (hrows : ∀ r ∈ rows, r < R) (posSlice : Bool)
    (hcols : posSlice = true → cols.Pairwise (· < ·)) :
    ∃ s dat, g.select rows cols posSlice = .ok (s, dat) ∧
      s.indptr = 0 :: cumLens 0 ((selRows g.indptr g.indices g.data rows cols).map List.length) ∧
      s.indices = (selRows g.indptr g.indices g.data rows cols).flatten.map (·.1) ∧
      dat = (selRows g.indptr g.indices g.data rows cols).flatten.map (·.2) := by
  have hsorted : ∀ p ∈ rows.map (fun r => (g.indptr.getD r 0, g.indptr.getD (r + 1) 0)),
      (rowSlice g.indices p.1 p.2).Pairwise (· < ·) := by
    intro p hp
    obtain ⟨r, hr, rfl⟩ := List.mem_map.mp hp
    exact hwf.2.2.2.2.2.1 r (hrows r hr)
  refine ⟨selSpec g.indices (rows.map fun r => (g.indptr.getD r 0, g.indptr.getD (r + 1) 0)) cols,
    (selSpec g.indices (rows.map fun r => (g.indptr.getD r 0, g.indptr.getD (r + 1) 0)) cols).indList.map
      fun p => g.data.getD p 0, ?_, ?_, ?_, ?_⟩
  · unfold GCXS.select
    cases posSlice with
    | true =>
      simp only [if_true, bind, Except.bind, pure, Except.pure]
      rw [slicingSelection_eq _ _ _ hsorted (hcols rfl)]
    | false =>
      simp only [Bool.false_eq_true, if_false, bind, Except.bind, pure, Except.pure]
      rw [arraySelection_eq _ _ _ hsorted]
  · simp only [selSpec, assemble, selRows, List.map_map]
    congr 2
    apply List.map_congr_left
    intro r _
    simp only [Function.comp, List.length_map]
  · simp only [selSpec, assemble, selRows]
    rw [List.flatMap_map, List.flatMap_map, List.map_flatten, List.map_map, ← List.flatMap_def]
    apply flatMap_congr_mem
    intro r _
    simp only [Function.comp, List.map_map]
    rfl
  · simp only [selSpec, assemble, selRows]
    rw [List.flatMap_map, List.flatMap_map, List.map_flatMap, List.map_flatten, List.map_map, ← List.flatMap_def]
    apply flatMap_congr_mem
    intro r _
    simp only [Function.comp, List.map_map]
    rfl

theorem selRows_sorted (indptr indices : List Nat) (data : List Int) (rows cols : List Nat) :
    (∀ row ∈ selRows indptr indices data rows cols, (row.map (·.1)).Pairwise (· < ·)) ∧
    (∀ row ∈ selRows indptr indices data rows cols, ∀ e ∈ row, e.1 < cols.length) := by
  constructor
  · intro row hrow
    obtain ⟨r, _, rfl⟩ := List.mem_map.mp hrow
    rw [List.map_map]
    exact (matchSpec_snd _ 0 cols).2
  · intro row hrow e he
    obtain ⟨r, _, rfl⟩ := List.mem_map.mp hrow
    obtain ⟨q, hq, rfl⟩ := List.mem_map.mp he
    have := (matchSpec_snd _ 0 cols).1 q hq
    simp only; omega

/-- **The 2-d core of GCXS indexing.**  On a well-formed CSR triple, for any list of requested rows (in range, any
order, repeats allowed) and requested columns (any order and repeats on the `get_array_selection` path; strictly
increasing when `pos_slice` sends the call to `get_slicing_selection`), the selection step succeeds and returns a
well-formed CSR triple of shape `len(rows) × len(cols)` — rows sorted — whose entry `(r', c')` is the operand's entry
`(rows[r'], cols[c'])`. -/
theorem select_spec (g : GCXS Int) (R C : Nat) (hwf : CsrWF R C g.indptr g.indices g.data.length)
    (rows cols : List Nat) (hrows : ∀ r ∈ rows, r < R) (posSlice : Bool)
    (hcols : posSlice = true → cols.Pairwise (· < ·)) :
    ∃ s dat, g.select rows cols posSlice = .ok (s, dat) ∧
      CsrWF rows.length cols.length s.indptr s.indices dat.length ∧
      ∀ (d : Int) (r' c' : Nat), r' < rows.length → c' < cols.length →
        rowGet (csrRow s.indptr s.indices dat r') d c' =
          rowGet (csrRow g.indptr g.indices g.data (rows.getD r' 0)) d (cols.getD c' 0) := by
  obtain ⟨s, dat, hsel, h1, h2, h3⟩ := select_eq g R C hwf rows cols hrows posSlice hcols
  obtain ⟨hs1, hs2⟩ := selRows_sorted g.indptr g.indices g.data rows cols
  obtain ⟨hcsr, hrow⟩ := fromRows_csr (selRows g.indptr g.indices g.data rows cols) cols.length hs1 hs2
  have hlen : (selRows g.indptr g.indices g.data rows cols).length = rows.length := by simp [selRows]
  rw [← h1, ← h2, ← h3, hlen] at hcsr
  refine ⟨s, dat, hsel, hcsr, fun d r' c' hr hc => ?_⟩
  rw [h1, h2, h3, hrow r' (by omega), ← selRows_get R C g.indptr g.indices g.data hwf rows cols hrows d r' c' hr hc,
    List.getD_eq_getElem?_getD, List.getElem?_eq_getElem (by omega), Option.getD_some]

end GIx
end SparseV

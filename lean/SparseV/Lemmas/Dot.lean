/-
  SparseV.Lemmas.Dot — helper lemmas for the product kernels: finite sums, `contrib`, the dense row
  update `axpy`, and the invariant of the intrusive linked list used by the scatter kernels.
-/
import SparseV.Model.Dot
namespace SparseV.Dot
open SparseV.Spec

/-! ### finite sums over lists -/

theorem sum_map_add {β : Type} (l : List β) (f g : β → Int) :
    (l.map fun x => f x + g x).sum = (l.map f).sum + (l.map g).sum := by
  induction l with
  | nil => simp
  | cons x xs ih => simp only [List.map_cons, List.sum_cons, ih]; omega

theorem sum_map_mul_left {β : Type} (l : List β) (c : Int) (f : β → Int) :
    (l.map fun x => c * f x).sum = c * (l.map f).sum := by
  induction l with
  | nil => simp
  | cons x xs ih => simp only [List.map_cons, List.sum_cons, ih, Int.mul_add]

theorem sum_map_zero {β : Type} (l : List β) : (l.map fun _ => (0 : Int)).sum = 0 := by
  induction l with
  | nil => simp
  | cons x xs ih => simp [ih]

theorem sum_map_eq_zero {β : Type} (l : List β) (f : β → Int) (h : ∀ x ∈ l, f x = 0) : (l.map f).sum = 0 := by
  induction l with
  | nil => simp
  | cons x xs ih =>
    simp only [List.map_cons, List.sum_cons, h x List.mem_cons_self,
      ih (fun y hy => h y (List.mem_cons_of_mem _ hy))]
    rfl

/-- `Σ_{j<n} [ind = j] · v · f j = v · f ind` for `ind < n` -/
theorem sum_indicator (n ind : Nat) (v : Int) (f : Nat → Int) (h : ind < n) :
    ((List.range n).map fun j => (if ind = j then v else 0) * f j).sum = v * f ind := by
  induction n with
  | zero => omega
  | succ n ih =>
    rw [List.range_succ, List.map_append, List.sum_append]
    by_cases hn : ind = n
    · subst hn
      have : ((List.range ind).map fun j => (if ind = j then v else 0) * f j).sum = 0 := by
        apply sum_map_eq_zero
        intro j hj
        have : j < ind := List.mem_range.mp hj
        have : ¬ ind = j := by omega
        simp [this]
      simp [this]
    · have hlt : ind < n := by omega
      rw [ih hlt]
      simp [hn]

/-! ### `contrib` -/

theorem contrib_nil (j : Nat) : CSR.contrib [] j = 0 := by simp [CSR.contrib]

theorem contrib_cons (e : Nat × Int) (r : List (Nat × Int)) (j : Nat) :
    CSR.contrib (e :: r) j = (if e.1 = j then e.2 else 0) + CSR.contrib r j := by
  unfold CSR.contrib
  by_cases h : e.1 = j
  · simp [h]
  · have : (e.1 == j) = false := by simpa using h
    simp [this, h]

theorem contrib_append (r s : List (Nat × Int)) (j : Nat) :
    CSR.contrib (r ++ s) j = CSR.contrib r j + CSR.contrib s j := by
  induction r with
  | nil => simp [contrib_nil]
  | cons e r ih => rw [List.cons_append, contrib_cons, contrib_cons, ih]; omega

theorem contrib_of_not_mem (r : List (Nat × Int)) (j : Nat) (h : j ∉ r.map (·.1)) : CSR.contrib r j = 0 := by
  induction r with
  | nil => exact contrib_nil j
  | cons e r ih =>
    simp only [List.map_cons, List.mem_cons, not_or] at h
    rw [contrib_cons, ih h.2]
    have : ¬ e.1 = j := fun hh => h.1 hh.symm
    simp [this]

/-- scaling a row scales its contributions -/
theorem contrib_map_scale (r : List (Nat × Int)) (c : Int) (j : Nat) :
    CSR.contrib (r.map fun b => (b.1, c * b.2)) j = c * CSR.contrib r j := by
  induction r with
  | nil => simp [contrib_nil]
  | cons e r ih =>
    rw [List.map_cons, contrib_cons, contrib_cons, ih]
    by_cases h : e.1 = j <;> simp [h, Int.mul_add]

/-- **Row sum = spec sum.** Summing `v · f ind` over the stored elements of a row equals summing
`(dense value at j) · f j` over all `j < n`, provided the stored indices are below `n`. -/
theorem rowsum_eq_spec (n : Nat) (r : List (Nat × Int)) (f : Nat → Int) (h : ∀ e ∈ r, e.1 < n) :
    (r.map fun e => e.2 * f e.1).sum = ((List.range n).map fun j => CSR.contrib r j * f j).sum := by
  induction r with
  | nil => simp [contrib_nil, sum_map_zero]
  | cons e r ih =>
    have ih := ih (fun e' he' => h e' (List.mem_cons_of_mem _ he'))
    have he : e.1 < n := h e List.mem_cons_self
    rw [List.map_cons, List.sum_cons, ih]
    have : ((List.range n).map fun j => CSR.contrib (e :: r) j * f j)
         = (List.range n).map fun j => (if e.1 = j then e.2 else 0) * f j + CSR.contrib r j * f j := by
      apply List.map_congr_left
      intro j _
      rw [contrib_cons, Int.add_mul]
    rw [this, sum_map_add, sum_indicator n e.1 e.2 f he]

/-! ### slices -/

theorem mem_slice {β : Type} {l : List β} {lo hi : Nat} {x : β} (h : x ∈ slice l lo hi) : x ∈ l :=
  List.mem_of_mem_drop (List.mem_of_mem_take h)

theorem row_fst_lt {A : CSR} {n : Nat} (hA : A.ColsIn n) (i : Nat) : ∀ e ∈ A.row i, e.1 < n := by
  intro e he
  unfold CSR.row at he
  have := (List.of_mem_zip he).1
  exact hA _ (mem_slice this)

theorem rowIdx_lt {A : CSR} {n : Nat} (hA : A.ColsIn n) (i : Nat) : ∀ k ∈ A.rowIdx i, k < n :=
  fun _ hk => hA _ (mem_slice hk)

theorem length_slice {β : Type} (l : List β) (lo hi : Nat) : (slice l lo hi).length = min (hi - lo) (l.length - lo) := by
  simp [slice, List.length_take, List.length_drop]

theorem row_map_fst {A : CSR} (hA : A.WF) (i : Nat) : (A.row i).map (·.1) = A.rowIdx i := by
  unfold CSR.row CSR.rowIdx
  apply List.map_fst_zip
  rw [length_slice, length_slice, hA]
  exact Nat.le_refl _

/-! ### the dense row update -/

theorem length_axpy (v : Int) (f : Nat → Int) (j0 : Nat) (val : List Int) : (axpy v f j0 val).length = val.length := by
  induction val generalizing j0 with
  | nil => rfl
  | cons x xs ih => simp [axpy, ih]

theorem getD_axpy (v : Int) (f : Nat → Int) (j0 : Nat) (val : List Int) (j : Nat) (h : j < val.length) :
    (axpy v f j0 val).getD j 0 = val.getD j 0 + v * f (j0 + j) := by
  induction val generalizing j0 j with
  | nil => simp at h
  | cons x xs ih =>
    cases j with
    | zero => simp [axpy]
    | succ j =>
      simp only [axpy, List.getD_cons_succ]
      rw [ih (j0 + 1) j (by simpa using h)]
      have : j0 + 1 + j = j0 + (j + 1) := by omega
      rw [this]

/-- the `k` loop over a row, started from any row `val` -/
theorem foldl_axpy (arow : List (Nat × Int)) (b : DenseM) (val : List Int) :
    (arow.foldl (fun val e => axpy e.2 (fun j => dget b e.1 j) 0 val) val).length = val.length
    ∧ ∀ k, k < val.length →
      (arow.foldl (fun val e => axpy e.2 (fun j => dget b e.1 j) 0 val) val).getD k 0
        = val.getD k 0 + (arow.map fun e => e.2 * dget b e.1 k).sum := by
  induction arow generalizing val with
  | nil => simp
  | cons e r ih =>
    simp only [List.foldl_cons, List.map_cons, List.sum_cons]
    have hl := length_axpy e.2 (fun j => dget b e.1 j) 0 val
    obtain ⟨h1, h2⟩ := ih (axpy e.2 (fun j => dget b e.1 j) 0 val)
    refine ⟨by rw [h1, hl], ?_⟩
    intro k hk
    rw [h2 k (by rw [hl]; exact hk), getD_axpy _ _ _ _ _ hk]
    simp only [Nat.zero_add]
    omega

theorem getD_replicate_zero (n k : Nat) : (List.replicate n (0 : Int)).getD k 0 = 0 := by
  simp only [List.getD_eq_getElem?_getD, List.getElem?_replicate]
  split <;> rfl

theorem dotCsrNdRow_getD (nCol : Nat) (arow : List (Nat × Int)) (b : DenseM) (k : Nat) (hk : k < nCol) :
    (dotCsrNdRow nCol arow b).getD k 0 = (arow.map fun e => e.2 * dget b e.1 k).sum := by
  unfold dotCsrNdRow
  have := (foldl_axpy arow b (List.replicate nCol 0)).2 k (by simpa using hk)
  rw [this, getD_replicate_zero]
  omega

theorem getD_map_range {β : Type} (n i : Nat) (f : Nat → β) (d : β) (h : i < n) :
    ((List.range n).map f).getD i d = f i := by
  simp [List.getD_eq_getElem?_getD, List.getElem?_map, List.getElem?_range h]

/-! ### the intrusive linked list -/

/-- what `head` / a `next_` entry holds for a given remaining chain -/
def headOf : List Nat → Int
  | [] => -2
  | c :: _ => (c : Int)

theorem headOf_ne (ch : List Nat) : headOf ch ≠ -1 := by
  cases ch with
  | nil => simp [headOf]
  | cons c _ => simp only [headOf]; omega

/-- `next_` links the chain: each element points to its successor, the last one holds -2 -/
def Linked (nx : List Int) : List Nat → Prop
  | [] => True
  | c :: rest => nx[c]? = some (headOf rest) ∧ Linked nx rest

/-- the chain built by first touches: a new key is pushed at the head -/
def chainFrom (ch : List Nat) (ks : List Nat) : List Nat :=
  ks.foldl (fun ch k => if k ∈ ch then ch else k :: ch) ch

/-- reverse first-touch order of a key sequence -/
def chainOf (ks : List Nat) : List Nat := chainFrom [] ks

theorem mem_chainFrom (ks : List Nat) : ∀ (ch : List Nat) (k : Nat), k ∈ chainFrom ch ks ↔ k ∈ ch ∨ k ∈ ks := by
  induction ks with
  | nil => intro ch k; simp [chainFrom]
  | cons x ks ih =>
    intro ch k
    have : chainFrom ch (x :: ks) = chainFrom (if x ∈ ch then ch else x :: ch) ks := rfl
    rw [this, ih]
    by_cases hx : x ∈ ch
    · simp only [hx, if_true, List.mem_cons]
      constructor
      · rintro (h | h); exact Or.inl h; exact Or.inr (Or.inr h)
      · rintro (h | h | h); exact Or.inl h; exact Or.inl (h ▸ hx); exact Or.inr h
    · simp only [hx, if_false, List.mem_cons]
      constructor
      · rintro ((h | h) | h); exact Or.inr (Or.inl h); exact Or.inl h; exact Or.inr (Or.inr h)
      · rintro (h | h | h); exact Or.inl (Or.inr h); exact Or.inl (Or.inl h); exact Or.inr h

theorem linked_set_of_not_mem (nx : List Int) (ch : List Nat) (k : Nat) (v : Int) (h : Linked nx ch) (hk : k ∉ ch) :
    Linked (nx.set k v) ch := by
  induction ch with
  | nil => trivial
  | cons c rest ih =>
    simp only [List.mem_cons, not_or] at hk
    refine ⟨?_, ih h.2 hk.2⟩
    rw [List.getElem?_set_ne hk.1]
    exact h.1

theorem linked_ne_neg1 (nx : List Int) (ch : List Nat) (k : Nat) (h : Linked nx ch) (hk : k ∈ ch) :
    ∃ v, nx[k]? = some v ∧ v ≠ -1 := by
  induction ch with
  | nil => cases hk
  | cons c rest ih =>
    rcases List.mem_cons.mp hk with rfl | hk'
    · exact ⟨_, h.1, headOf_ne rest⟩
    · exact ih h.2 hk'

/-- the state of the scatter after some touches: `ch` is the list hanging off `head`, `val k` is
what `sums[k]` holds -/
structure Inv (n : Nat) (s : LL) (ch : List Nat) (val : Nat → Int) : Prop where
  lenN : s.next.length = n
  lenS : s.sums.length = n
  nodup : ch.Nodup
  inR : ∀ c ∈ ch, c < n
  head : s.head = headOf ch
  linked : Linked s.next ch
  free : ∀ k, k < n → k ∉ ch → s.next[k]? = some (-1)
  sums : ∀ k, k < n → s.sums[k]? = some (val k)

theorem Inv.congr {n : Nat} {s : LL} {ch : List Nat} {val val' : Nat → Int} (h : Inv n s ch val)
    (hv : ∀ j, val j = val' j) : Inv n s ch val' :=
  { h with sums := fun k hk => by rw [← hv k]; exact h.sums k hk }

theorem touch_inv {n : Nat} {s : LL} {ch : List Nat} {val : Nat → Int} (h : Inv n s ch val) (k : Nat) (c : Int)
    (hk : k < n) :
    Inv n (s.touch k c) (if k ∈ ch then ch else k :: ch) (fun j => if j = k then val j + c else val j)
    ∧ (s.touch k c).len = s.len + (if k ∈ ch then 0 else 1) := by
  have hsum : ∀ j, j < n → (s.sums.set k (s.sums.getD k 0 + c))[j]? = some (if j = k then val j + c else val j) := by
    intro j hj
    rw [List.getElem?_set]
    by_cases hjk : k = j
    · subst hjk
      have := h.sums k hk
      rw [List.getD_eq_getElem?_getD, this]
      simp [h.lenS, hk]
    · have : ¬ j = k := fun hh => hjk hh.symm
      simp only [hjk, this, if_false]
      exact h.sums j hj
  by_cases hm : k ∈ ch
  · obtain ⟨v, hv, hne⟩ := linked_ne_neg1 _ _ _ h.linked hm
    have hg : ¬ s.next.getD k 0 = -1 := by
      simp only [List.getD_eq_getElem?_getD, hv, Option.getD_some]; exact hne
    unfold LL.touch
    simp only [hg, hm, if_true, if_false, Nat.add_zero, and_true]
    exact { lenN := h.lenN, lenS := by simp [h.lenS], nodup := h.nodup, inR := h.inR, head := h.head,
            linked := h.linked, free := h.free, sums := hsum }
  · have hf := h.free k hk hm
    have hg : s.next.getD k 0 = -1 := by simp [List.getD_eq_getElem?_getD, hf]
    unfold LL.touch
    simp only [hg, hm, if_true, if_false, and_true]
    refine { lenN := by simp [h.lenN], lenS := by simp [h.lenS], nodup := List.nodup_cons.mpr ⟨hm, h.nodup⟩,
             inR := ?_, head := rfl, linked := ?_, free := ?_, sums := hsum }
    · intro c' hc'
      rcases List.mem_cons.mp hc' with rfl | h'
      · exact hk
      · exact h.inR _ h'
    · refine ⟨?_, linked_set_of_not_mem _ _ _ _ h.linked hm⟩
      rw [List.getElem?_set_self (by rw [h.lenN]; exact hk), h.head]
    · intro j hj hnm
      simp only [List.mem_cons, not_or] at hnm
      rw [List.getElem?_set_ne (fun hh => hnm.1 hh.symm)]
      exact h.free j hj hnm.2

theorem touchAll_inv {n : Nat} (ts : List (Nat × Int)) : ∀ {s : LL} {ch : List Nat} {val : Nat → Int},
    Inv n s ch val → (∀ t ∈ ts, t.1 < n) →
    Inv n (s.touchAll ts) (chainFrom ch (ts.map (·.1))) (fun j => val j + CSR.contrib ts j)
    ∧ (s.touchAll ts).len + ch.length = s.len + (chainFrom ch (ts.map (·.1))).length := by
  induction ts with
  | nil =>
    intro s ch val h _
    exact ⟨h.congr (fun j => by simp [contrib_nil]), by simp [LL.touchAll, chainFrom]⟩
  | cons t ts ih =>
    intro s ch val h hts
    obtain ⟨h1, hl1⟩ := touch_inv h t.1 t.2 (hts t List.mem_cons_self)
    obtain ⟨h2, hl2⟩ := ih h1 (fun t' ht' => hts t' (List.mem_cons_of_mem _ ht'))
    have e1 : s.touchAll (t :: ts) = (s.touch t.1 t.2).touchAll ts := rfl
    have e2 : chainFrom ch ((t :: ts).map (·.1)) = chainFrom (if t.1 ∈ ch then ch else t.1 :: ch) (ts.map (·.1)) := rfl
    rw [e1, e2]
    refine ⟨h2.congr ?_, ?_⟩
    · intro j
      rw [contrib_cons]
      by_cases hj : j = t.1
      · subst hj; simp; omega
      · have : ¬ t.1 = j := fun hh => hj hh.symm
        simp [hj, this]
    · rw [hl1] at hl2
      by_cases hm : t.1 ∈ ch
      · simp only [hm, if_true] at hl2 ⊢; omega
      · simp only [hm, if_false, List.length_cons] at hl2 ⊢; omega

/-- the emission loop walks the chain once, writes `(c, sums[c])` for every element in chain order,
and leaves the arrays clean -/
theorem emit_spec {n : Nat} (ch : List Nat) : ∀ (s : LL) (val : Nat → Int), Inv n s ch val →
    (LL.emit false ch.length s).2 = ch.map (fun c => (c, val c))
    ∧ Inv n (LL.emit false ch.length s).1 [] (fun j => if j ∈ ch then 0 else val j) := by
  induction ch with
  | nil =>
    intro s val h
    exact ⟨rfl, h.congr (fun j => by simp)⟩
  | cons c rest ih =>
    intro s val h
    have hcn : c < n := h.inR c List.mem_cons_self
    have hnd := List.nodup_cons.mp h.nodup
    have hh : s.head.toNat = c := by rw [h.head]; simp [headOf]
    have hnx : s.next[c]? = some (headOf rest) := h.linked.1
    have hsm : s.sums[c]? = some (val c) := h.sums c hcn
    let s' : LL := { next := s.next.set c (-1), sums := s.sums.set c 0, head := headOf rest, len := s.len }
    have hs' : Inv n s' rest (fun j => if j = c then 0 else val j) := by
      refine { lenN := by simp [s', h.lenN], lenS := by simp [s', h.lenS], nodup := hnd.2,
               inR := fun c' hc' => h.inR c' (List.mem_cons_of_mem _ hc'), head := rfl,
               linked := linked_set_of_not_mem _ _ _ _ h.linked.2 hnd.1, free := ?_, sums := ?_ }
      · intro k hk hkm
        show (s.next.set c (-1))[k]? = some (-1)
        by_cases hkc : c = k
        · subst hkc
          rw [List.getElem?_set_self (by rw [h.lenN]; exact hcn)]
        · rw [List.getElem?_set_ne hkc]
          apply h.free k hk
          simp only [List.mem_cons, not_or]
          exact ⟨fun hh => hkc hh.symm, hkm⟩
      · intro k hk
        show (s.sums.set c 0)[k]? = _
        by_cases hkc : c = k
        · subst hkc
          rw [List.getElem?_set_self (by rw [h.lenS]; exact hcn)]
          simp
        · rw [List.getElem?_set_ne hkc]
          have : ¬ k = c := fun hh => hkc hh.symm
          simp only [this, if_false]
          exact h.sums k hk
    obtain ⟨e1, e2⟩ := ih s' _ hs'
    have hstep : LL.emit false (c :: rest).length s =
        ((LL.emit false rest.length s').1, (c, val c) :: (LL.emit false rest.length s').2) := by
      simp only [List.length_cons, LL.emit, hh, List.getD_eq_getElem?_getD, hnx, hsm, Option.getD_some, s']
      have : (headOf rest != -1) = true := by simpa using headOf_ne rest
      simp [this]
    rw [hstep]
    refine ⟨?_, e2.congr ?_⟩
    · simp only [e1, List.map_cons, List.cons.injEq, true_and]
      apply List.map_congr_left
      intro c' hc'
      have : ¬ c' = c := fun hh => hnd.1 (hh ▸ hc')
      simp [this]
    · intro j
      by_cases hjr : j ∈ rest
      · simp [hjr]
      · by_cases hjc : j = c
        · simp [hjc]
        · simp [hjr, hjc]

/-! ### one output row of `_dot_csr_csr` / `_dot_coo_coo` -/

theorem inv_init (n : Nat) :
    Inv n { next := List.replicate n (-1), sums := List.replicate n 0, head := -2, len := 0 } [] (fun _ => 0) :=
  { lenN := by simp, lenS := by simp, nodup := List.nodup_nil, inR := by simp, head := rfl, linked := trivial,
    free := fun k hk _ => by simp [List.getElem?_replicate, hk],
    sums := fun k hk => by simp [List.getElem?_replicate, hk] }

theorem touches_fst_lt {nCol : Nat} {B : CSR} (hB : B.ColsIn nCol) (arow : List (Nat × Int)) :
    ∀ t ∈ touches arow B, t.1 < nCol := by
  intro t ht
  unfold touches at ht
  obtain ⟨a, _, hta⟩ := List.mem_flatMap.mp ht
  obtain ⟨b, hb, rfl⟩ := List.mem_map.mp hta
  exact row_fst_lt hB a.1 b hb

/-- lookup of a column in the entries written for a row (0 when the column was not written) -/
def lookupK (l : List (Nat × Int)) (k : Nat) : Int :=
  match l.find? (fun e => e.1 == k) with
  | some e => e.2
  | none => 0

theorem lookupK_map (ch : List Nat) (f : Nat → Int) (k : Nat) :
    lookupK (ch.map fun c => (c, f c)) k = if k ∈ ch then f k else 0 := by
  induction ch with
  | nil => simp [lookupK]
  | cons c rest ih =>
    unfold lookupK at ih ⊢
    simp only [List.map_cons, List.find?_cons]
    by_cases hc : c = k
    · subst hc; simp
    · have : (c == k) = false := by simpa using hc
      simp only [this, List.mem_cons]
      rw [ih]
      have : ¬ k = c := fun hh => hc hh.symm
      simp [this]

/-- the entries written for one output row, in closed form -/
def rowEmit (arow : List (Nat × Int)) (B : CSR) : List (Nat × Int) :=
  (chainOf ((touches arow B).map (·.1))).map fun c => (c, CSR.contrib (touches arow B) c)

theorem csrCsrRow_spec (nCol : Nat) (arow : List (Nat × Int)) (B : CSR) (hB : B.ColsIn nCol) :
    (csrCsrRow nCol arow B (List.replicate nCol 0)).2 = rowEmit arow B
    ∧ (csrCsrRow nCol arow B (List.replicate nCol 0)).1.sums = List.replicate nCol 0 := by
  obtain ⟨h1, hl⟩ := touchAll_inv (touches arow B) (inv_init nCol) (touches_fst_lt hB arow)
  simp only [List.length_nil, Nat.add_zero, Nat.zero_add] at hl
  obtain ⟨e1, e2⟩ := emit_spec _ _ _ h1
  unfold csrCsrRow
  simp only
  rw [hl]
  refine ⟨?_, ?_⟩
  · rw [e1]
    unfold rowEmit chainOf
    apply List.map_congr_left
    intro c _
    simp
  · apply List.ext_getElem?
    intro k
    by_cases hk : k < nCol
    · rw [e2.sums k hk]
      simp only [List.getElem?_replicate, hk, if_true, Option.some.injEq]
      split
      · rfl
      · rename_i hnm
        rw [contrib_of_not_mem]
        · rfl
        · intro hmem
          exact hnm ((mem_chainFrom _ _ _).mpr (Or.inr hmem))
    · have h1 : (List.replicate nCol (0:Int))[k]? = none := by simp [List.getElem?_replicate, hk]
      rw [h1, List.getElem?_eq_none_iff, e2.lenS]
      omega

/-- looking a column up in what was written for a row gives the accumulated contributions -/
theorem lookupK_rowEmit (arow : List (Nat × Int)) (B : CSR) (k : Nat) :
    lookupK (rowEmit arow B) k = CSR.contrib (touches arow B) k := by
  unfold rowEmit
  rw [lookupK_map]
  split
  · rfl
  · rename_i hnm
    rw [contrib_of_not_mem]
    intro hmem
    exact hnm ((mem_chainFrom _ _ _).mpr (Or.inr hmem))

/-- the contributions scattered for a row are the row-times-matrix sums -/
theorem contrib_touches (arow : List (Nat × Int)) (B : CSR) (k : Nat) :
    CSR.contrib (touches arow B) k = (arow.map fun a => a.2 * B.get a.1 k).sum := by
  induction arow with
  | nil => simp [touches, contrib_nil]
  | cons a r ih =>
    have : touches (a :: r) B = ((B.row a.1).map fun b => (b.1, a.2 * b.2)) ++ touches r B := by
      simp [touches]
    rw [this, contrib_append, ih, contrib_map_scale]
    simp [CSR.get]

theorem flatMap_congr' {β γ : Type} (l : List β) (f g : β → List γ) (h : ∀ a ∈ l, f a = g a) :
    l.flatMap f = l.flatMap g := by
  induction l with
  | nil => rfl
  | cons a l ih =>
    simp only [List.flatMap_cons]
    rw [h a List.mem_cons_self, ih (fun b hb => h b (List.mem_cons_of_mem _ hb))]

theorem keys_touches {A B : CSR} (hA : A.WF) (hB : B.WF) (i : Nat) :
    (touches (A.row i) B).map (·.1) = touchKeys A B i := by
  unfold touches touchKeys
  rw [← row_map_fst hA i, List.flatMap_map, List.map_flatMap]
  apply flatMap_congr'
  intro a _
  rw [← row_map_fst hB a.1, List.map_map]
  rfl

/-! ### the row loop -/

theorem length_flatMap_range_mono {β : Type} (f : Nat → List β) (i n : Nat) (h : i ≤ n) :
    ((List.range i).flatMap f).length ≤ ((List.range n).flatMap f).length := by
  induction n with
  | zero => have : i = 0 := by omega
            subst this; exact Nat.le_refl _
  | succ n ih =>
    by_cases hin : i = n + 1
    · subst hin; exact Nat.le_refl _
    · have := ih (by omega)
      rw [List.range_succ, List.flatMap_append, List.length_append]
      omega

/-- cutting the concatenation of rows `0..n-1` at the cumulative lengths gives back row `i` -/
theorem slice_flatMap_range {β : Type} (f : Nat → List β) (n i : Nat) (h : i < n) :
    slice ((List.range n).flatMap f) ((List.range i).flatMap f).length ((List.range (i + 1)).flatMap f).length = f i := by
  induction n with
  | zero => omega
  | succ n ih =>
    rw [List.range_succ, List.flatMap_append]
    simp only [List.flatMap_cons, List.flatMap_nil, List.append_nil]
    by_cases hin : i = n
    · subst hin
      rw [List.range_succ, List.flatMap_append]
      simp [slice]
    · have hlt : i < n := by omega
      have ih := ih hlt
      unfold slice at ih ⊢
      have hle := length_flatMap_range_mono f (i + 1) n (by omega)
      have hle2 := length_flatMap_range_mono f i (i + 1) (by omega)
      rw [List.drop_append_of_le_length (by omega), List.take_append_of_le_length]
      · exact ih
      · rw [List.length_drop]; omega

/-- closed form of the state after `nRow` iterations of the row loop of `_dot_csr_csr` -/
theorem dotCsrCsrLoop_closed (nRow nCol : Nat) (A B : CSR) (hB : B.ColsIn nCol) :
    (dotCsrCsrLoop nRow nCol A B).sums = List.replicate nCol 0
    ∧ (dotCsrCsrLoop nRow nCol A B).out = (List.range nRow).flatMap (fun i => rowEmit (A.row i) B)
    ∧ (dotCsrCsrLoop nRow nCol A B).indptr
        = (List.range (nRow + 1)).map (fun m => ((List.range m).flatMap fun i => rowEmit (A.row i) B).length) := by
  induction nRow with
  | zero => simp [dotCsrCsrLoop]
  | succ n ih =>
    obtain ⟨h1, h2, h3⟩ := ih
    have step : dotCsrCsrLoop (n + 1) nCol A B =
        (let st := dotCsrCsrLoop n nCol A B
         let r := csrCsrRow nCol (A.row n) B st.sums
         { sums := r.1.sums, indptr := st.indptr ++ [(st.out ++ r.2).length], out := st.out ++ r.2 }) := by
      simp only [dotCsrCsrLoop, List.range_succ, List.foldl_append, List.foldl_cons, List.foldl_nil]
    rw [step]
    simp only
    rw [h1]
    obtain ⟨e1, e2⟩ := csrCsrRow_spec nCol (A.row n) B hB
    rw [e1, e2, h2, h3]
    refine ⟨rfl, ?_, ?_⟩
    · rw [List.range_succ, List.flatMap_append]; simp
    · rw [List.range_succ (n := n + 1), List.map_append]
      simp only [List.map_cons, List.map_nil]
      rw [List.range_succ (n := n), List.flatMap_append]
      simp

/-- what the main loop wrote for output row `i`: positions `indptr[i] .. indptr[i+1]` of its output -/
def writtenRow (r : RowsOut) (i : Nat) : List (Nat × Int) :=
  slice r.out (r.indptr.getD i 0) (r.indptr.getD (i + 1) 0)

theorem writtenRow_loop (nRow nCol : Nat) (A B : CSR) (hB : B.ColsIn nCol) (i : Nat) (hi : i < nRow) :
    writtenRow (dotCsrCsrLoop nRow nCol A B) i = rowEmit (A.row i) B := by
  obtain ⟨_, h2, h3⟩ := dotCsrCsrLoop_closed nRow nCol A B hB
  unfold writtenRow
  rw [h2, h3, getD_map_range _ _ _ _ (by omega), getD_map_range _ _ _ _ (by omega)]
  exact slice_flatMap_range _ nRow i hi

/-! ### `_csr_csr_count_nnz` -/

/-- `mask` while counting output row `i`: position `k` holds `i` exactly for the columns seen so
far in this row, and an earlier row number (or -1) otherwise -/
def MaskOk (n i : Nat) (mask : List Int) (ch : List Nat) : Prop :=
  mask.length = n ∧ ∀ k, k < n → ∃ v, mask[k]? = some v ∧ (v = (i : Int) ↔ k ∈ ch) ∧ v ≤ (i : Int)

theorem countRow_fold {n i : Nat} (ks : List Nat) : ∀ (mask : List Int) (ch : List Nat) (c0 : Nat),
    MaskOk n i mask ch → (∀ k ∈ ks, k < n) →
    MaskOk n i (ks.foldl (fun (m : List Int × Nat) k =>
        if m.1.getD k (-1) ≠ (i : Int) then (m.1.set k (i : Int), m.2 + 1) else m) (mask, c0)).1 (chainFrom ch ks)
    ∧ (ks.foldl (fun (m : List Int × Nat) k =>
        if m.1.getD k (-1) ≠ (i : Int) then (m.1.set k (i : Int), m.2 + 1) else m) (mask, c0)).2 + ch.length
      = c0 + (chainFrom ch ks).length := by
  induction ks with
  | nil => intro mask ch c0 h _; exact ⟨h, by simp [chainFrom]⟩
  | cons k ks ih =>
    intro mask ch c0 h hks
    have hk : k < n := hks k List.mem_cons_self
    have hks' : ∀ k' ∈ ks, k' < n := fun k' h' => hks k' (List.mem_cons_of_mem _ h')
    obtain ⟨v, hv, hiff, hle⟩ := h.2 k hk
    have e2 : chainFrom ch (k :: ks) = chainFrom (if k ∈ ch then ch else k :: ch) ks := rfl
    rw [List.foldl_cons, e2]
    by_cases hm : k ∈ ch
    · have hvi : v = (i : Int) := hiff.mpr hm
      have hg : ¬ (mask.getD k (-1) ≠ (i : Int)) := by
        simp [List.getD_eq_getElem?_getD, hv, hvi]
      rw [if_neg hg, if_pos hm]
      exact ih mask ch c0 h hks'
    · have hvi : ¬ v = (i : Int) := fun hh => hm (hiff.mp hh)
      have hg : mask.getD k (-1) ≠ (i : Int) := by
        simp [List.getD_eq_getElem?_getD, hv, hvi]
      rw [if_pos hg, if_neg hm]
      dsimp only
      have hnew : MaskOk n i (mask.set k (i : Int)) (k :: ch) := by
        refine ⟨by simp [h.1], ?_⟩
        intro k' hk'
        by_cases hkk : k = k'
        · subst hkk
          exact ⟨(i : Int), by rw [List.getElem?_set_self (by rw [h.1]; exact hk)], by simp, Int.le_refl _⟩
        · obtain ⟨v', hv', hiff', hle'⟩ := h.2 k' hk'
          refine ⟨v', by rw [List.getElem?_set_ne hkk]; exact hv', ?_, hle'⟩
          rw [hiff', List.mem_cons]
          constructor
          · exact Or.inr
          · rintro (h1 | h1)
            · exact absurd h1.symm hkk
            · exact h1
      obtain ⟨r1, r2⟩ := ih (mask.set k (i : Int)) (k :: ch) (c0 + 1) hnew hks'
      refine ⟨r1, ?_⟩
      rw [List.length_cons] at r2
      omega

theorem countRow_spec {n i : Nat} (ks : List Nat) (mask : List Int) (h : MaskOk n i mask [])
    (hks : ∀ k ∈ ks, k < n) :
    MaskOk n i (countRow i ks mask).1 (chainOf ks) ∧ (countRow i ks mask).2 = (chainOf ks).length := by
  obtain ⟨r1, r2⟩ := countRow_fold ks mask [] 0 h hks
  refine ⟨r1, ?_⟩
  simp only [List.length_nil, Nat.add_zero, Nat.zero_add] at r2
  exact r2

/-- closed form of the pre-count: the number of distinct columns touched, summed over the rows -/
theorem csrCsrCountNnz_closed (nRow nCol : Nat) (A B : CSR) (hB : B.ColsIn nCol) :
    csrCsrCountNnz nRow nCol A B = ((List.range nRow).map fun i => (chainOf (touchKeys A B i)).length).sum := by
  unfold csrCsrCountNnz
  suffices h : ∀ m,
      let st := (List.range m).foldl (fun (st : List Int × Nat) i =>
        let r := countRow i (touchKeys A B i) st.1
        (r.1, st.2 + r.2)) (List.replicate nCol (-1), 0)
      (st.1.length = nCol ∧ ∀ k, k < nCol → ∃ v, st.1[k]? = some v ∧ v < (m : Int))
      ∧ st.2 = ((List.range m).map fun i => (chainOf (touchKeys A B i)).length).sum from (h nRow).2
  intro m
  induction m with
  | zero =>
    simp only [List.range_zero, List.foldl_nil, List.map_nil, List.sum_nil, and_true, List.length_replicate, true_and]
    intro k hk
    exact ⟨-1, by simp [hk], by omega⟩
  | succ m ih =>
    simp only [List.range_succ, List.foldl_append, List.foldl_cons, List.foldl_nil, List.map_append, List.map_cons,
      List.map_nil, List.sum_append_nat, List.sum_cons, List.sum_nil, Nat.add_zero]
    simp only at ih
    obtain ⟨⟨hl, hv⟩, hc⟩ := ih
    have hok : MaskOk nCol m ((List.range m).foldl (fun (st : List Int × Nat) i =>
        let r := countRow i (touchKeys A B i) st.1
        (r.1, st.2 + r.2)) (List.replicate nCol (-1), 0)).1 [] := by
      refine ⟨hl, ?_⟩
      intro k hk
      obtain ⟨v, h1, h2⟩ := hv k hk
      refine ⟨v, h1, ?_, by omega⟩
      constructor
      · intro h; omega
      · intro h; cases h
    have hkeys : ∀ k ∈ touchKeys A B m, k < nCol := by
      intro k hk
      unfold touchKeys at hk
      obtain ⟨j, _, hkj⟩ := List.mem_flatMap.mp hk
      exact rowIdx_lt hB j k hkj
    obtain ⟨r1, r2⟩ := countRow_spec (touchKeys A B m) _ hok hkeys
    refine ⟨⟨r1.1, ?_⟩, ?_⟩
    · intro k hk
      obtain ⟨v, h1, _, h3⟩ := r1.2 k hk
      exact ⟨v, h1, by omega⟩
    · rw [hc, r2]

theorem length_rowEmit {A B : CSR} (hA : A.WF) (hBw : B.WF) (i : Nat) :
    (rowEmit (A.row i) B).length = (chainOf (touchKeys A B i)).length := by
  unfold rowEmit
  rw [List.length_map, keys_touches hA hBw]

/-! ### progress of the `while` loops of `_dot_coo_ndarray*` -/

theorem spanAcc_ge (r : Nat) (w : Nat → Int) (l : List Ent) : ∀ (acc : Int) (n : Nat), n ≤ (spanAcc r w l acc n).2 := by
  induction l with
  | nil => intro acc n; exact Nat.le_refl _
  | cons e rest ih =>
    intro acc n
    unfold spanAcc
    split
    · exact Nat.le_trans (Nat.le_succ n) (ih _ _)
    · exact Nat.le_refl _

/-- the inner `while` consumes at least the element it was started on -/
theorem spanAcc_pos (w : Nat → Int) (e : Ent) (rest : List Ent) (acc : Int) :
    1 ≤ (spanAcc e.1 w (e :: rest) acc 0).2 := by
  unfold spanAcc
  simp only [if_true]
  exact spanAcc_ge _ _ _ _ _

theorem drop_eq_cons {β : Type} (l : List β) (d : Nat) (h : d < l.length) :
    ∃ e rest, l.drop d = e :: rest := ⟨_, _, List.drop_eq_getElem_cons h⟩

/-- with at least one output column the body of the outer loop of `_dot_coo_ndarray` advances `didx1` -/
theorem cooNdStep_progress (nCols : Nat) (es : List Ent) (x2 : DenseM) (didx1 : Nat) (out : DenseM)
    (hc : 0 < nCols) (hd : didx1 < es.length) : didx1 < (cooNdStep nCols es x2 didx1 out).2 := by
  obtain ⟨m, rfl⟩ : ∃ m, nCols = m + 1 := ⟨nCols - 1, by omega⟩
  obtain ⟨e, rest, he⟩ := drop_eq_cons es didx1 hd
  unfold cooNdStep
  rw [List.range_succ, List.foldl_append, he]
  simp only [List.foldl_cons, List.foldl_nil, List.headD_cons]
  exact Nat.lt_add_of_pos_right (spanAcc_pos _ _ _ _)

theorem cooNdSparseStep_progress (nCols : Nat) (es : List Ent) (x2 : DenseM) (didx1 : Nat)
    (hc : 0 < nCols) (hd : didx1 < es.length) : didx1 < (cooNdSparseStep nCols es x2 didx1).2 := by
  obtain ⟨m, rfl⟩ : ∃ m, nCols = m + 1 := ⟨nCols - 1, by omega⟩
  obtain ⟨e, rest, he⟩ := drop_eq_cons es didx1 hd
  unfold cooNdSparseStep
  rw [List.range_succ, List.foldl_append, he]
  simp only [List.foldl_cons, List.foldl_nil, List.headD_cons]
  exact Nat.lt_add_of_pos_right (spanAcc_pos _ _ _ _)

theorem cooNdRun_terminates (nCols : Nat) (es : List Ent) (x2 : DenseM) (hc : 0 < nCols) :
    ∀ (fuel didx1 : Nat) (out : DenseM), es.length - didx1 < fuel → ∃ r, cooNdRun nCols es x2 fuel didx1 out = some r := by
  intro fuel
  induction fuel with
  | zero => intro d out h; omega
  | succ fuel ih =>
    intro d out h
    unfold cooNdRun
    by_cases hd : d < es.length
    · simp only [hd, if_true]
      apply ih
      have := cooNdStep_progress nCols es x2 d out hc hd
      omega
    · simp only [hd, if_false]
      exact ⟨out, rfl⟩

theorem cooNdSparseRun_terminates (nCols : Nat) (es : List Ent) (x2 : DenseM) (hc : 0 < nCols) :
    ∀ (fuel didx1 : Nat) (out : List (Nat × Nat × Int)), es.length - didx1 < fuel →
      ∃ r, cooNdSparseRun nCols es x2 fuel didx1 out = some r := by
  intro fuel
  induction fuel with
  | zero => intro d out h; omega
  | succ fuel ih =>
    intro d out h
    unfold cooNdSparseRun
    by_cases hd : d < es.length
    · simp only [hd, if_true]
      apply ih
      have := cooNdSparseStep_progress nCols es x2 d hc hd
      omega
    · simp only [hd, if_false]
      exact ⟨out, rfl⟩

/-- with no output column the outer loop never advances: every amount of fuel runs out -/
theorem cooNdRun_zero_cols (es : List Ent) (x2 : DenseM) :
    ∀ (fuel didx1 : Nat) (out : DenseM), didx1 < es.length → cooNdRun 0 es x2 fuel didx1 out = none := by
  intro fuel
  induction fuel with
  | zero => intro d out _; rfl
  | succ fuel ih =>
    intro d out hd
    unfold cooNdRun
    simp only [hd, if_true]
    exact ih d out hd

theorem cooNdSparseRun_zero_cols (es : List Ent) (x2 : DenseM) :
    ∀ (fuel didx1 : Nat) (out : List (Nat × Nat × Int)), didx1 < es.length →
      cooNdSparseRun 0 es x2 fuel didx1 out = none := by
  intro fuel
  induction fuel with
  | zero => intro d out _; rfl
  | succ fuel ih =>
    intro d out hd
    unfold cooNdSparseRun
    simp only [hd, if_true]
    exact ih d _ hd

/-! ### `_dot_coo_coo` -/

/-- the `(col, value)` entries among the written triples that belong to output row `i` -/
def rowOfTriples (ts : List (Nat × Nat × Int)) (i : Nat) : List (Nat × Int) :=
  ts.filterMap fun t => if t.1 = i then some t.2 else none

theorem rowOfTriples_append (xs ys : List (Nat × Nat × Int)) (i : Nat) :
    rowOfTriples (xs ++ ys) i = rowOfTriples xs i ++ rowOfTriples ys i := by
  simp [rowOfTriples, List.filterMap_append]

theorem rowOfTriples_tag (l : List (Nat × Int)) (i j : Nat) :
    rowOfTriples (l.map fun e => (j, e.1, e.2)) i = if j = i then l else [] := by
  induction l with
  | nil => simp [rowOfTriples]
  | cons e l ih =>
    unfold rowOfTriples at ih ⊢
    simp only [List.map_cons, List.filterMap_cons]
    by_cases h : j = i
    · simp only [h, if_true] at ih ⊢
      rw [ih]
    · simp only [h, if_false] at ih ⊢
      exact ih

theorem dotCooCooLoop_closed (nRow nCol : Nat) (A B : CSR) (hB : B.ColsIn nCol) :
    (dotCooCooLoop nRow nCol A B).1 = List.replicate nCol 0
    ∧ (dotCooCooLoop nRow nCol A B).2
        = (List.range nRow).flatMap (fun i => (rowEmit (A.row i) B).map fun e => (i, e.1, e.2)) := by
  induction nRow with
  | zero => simp [dotCooCooLoop]
  | succ n ih =>
    obtain ⟨h1, h2⟩ := ih
    have step : dotCooCooLoop (n + 1) nCol A B =
        (let st := dotCooCooLoop n nCol A B
         let r := csrCsrRow nCol (A.row n) B st.1
         (r.1.sums, st.2 ++ r.2.map fun e => (n, e.1, e.2))) := by
      simp only [dotCooCooLoop, List.range_succ, List.foldl_append, List.foldl_cons, List.foldl_nil]
    rw [step]
    simp only
    rw [h1]
    obtain ⟨e1, e2⟩ := csrCsrRow_spec nCol (A.row n) B hB
    rw [e1, e2, h2]
    refine ⟨rfl, ?_⟩
    rw [List.range_succ, List.flatMap_append]; simp

theorem rowOfTriples_flatMap (f : Nat → List (Nat × Int)) (n i : Nat) (h : i < n) :
    rowOfTriples ((List.range n).flatMap fun j => (f j).map fun e => (j, e.1, e.2)) i = f i := by
  induction n with
  | zero => omega
  | succ n ih =>
    rw [List.range_succ, List.flatMap_append, rowOfTriples_append]
    simp only [List.flatMap_cons, List.flatMap_nil, List.append_nil]
    rw [rowOfTriples_tag]
    by_cases hin : i = n
    · subst hin
      have : rowOfTriples ((List.range i).flatMap fun j => (f j).map fun e => (j, e.1, e.2)) i = [] := by
        unfold rowOfTriples
        rw [List.filterMap_eq_nil_iff]
        intro t ht
        obtain ⟨j, hj, htj⟩ := List.mem_flatMap.mp ht
        obtain ⟨e, _, rfl⟩ := List.mem_map.mp htj
        have : j < i := List.mem_range.mp hj
        have : ¬ j = i := by omega
        simp [this]
      simp [this]
    · have : ¬ n = i := fun hh => hin hh.symm
      simp only [this, if_false, List.append_nil]
      exact ih (by omega)

/-! ### `tensordot` axis bookkeeping -/

theorem mem_notin (nd : Nat) (axes : List Nat) (k : Nat) : k ∈ notin nd axes ↔ k < nd ∧ k ∉ axes := by
  simp [notin, List.mem_filter, List.mem_range]

theorem nodup_notin (nd : Nat) (axes : List Nat) : (notin nd axes).Nodup :=
  List.Nodup.sublist List.filter_sublist List.nodup_range

theorem notin_append_perm (nd : Nat) (axes : List Nat) (hnd : axes.Nodup) (hr : ∀ a ∈ axes, a < nd) :
    (notin nd axes ++ axes).Perm (List.range nd) := by
  rw [List.perm_ext_iff_of_nodup _ List.nodup_range]
  · intro a
    rw [List.mem_append, mem_notin, List.mem_range]
    constructor
    · rintro (h | h)
      · exact h.1
      · exact hr a h
    · intro h
      by_cases ha : a ∈ axes
      · exact Or.inr ha
      · exact Or.inl ⟨h, ha⟩
  · rw [List.nodup_append]
    refine ⟨nodup_notin nd axes, hnd, ?_⟩
    intro a ha b hb hab
    subst hab
    exact ((mem_notin nd axes a).mp ha).2 hb

/-- the two `N2` agree when the contracted extents agree pairwise -/
theorem n2_eq (sa sb : List Nat) : ∀ (xa xb : List Nat) (acc : Nat), xa.length = xb.length →
    ((xa.zip xb).all fun p => sa.getD p.1 0 == sb.getD p.2 0) = true →
    xa.foldl (fun n a => n * sa.getD a 0) acc = xb.foldl (fun n a => n * sb.getD a 0) acc := by
  intro xa
  induction xa with
  | nil =>
    intro xb acc hl _
    cases xb with
    | nil => rfl
    | cons _ _ => simp at hl
  | cons a xa ih =>
    intro xb acc hl hall
    cases xb with
    | nil => simp at hl
    | cons b xb =>
      simp only [List.zip_cons_cons, List.all_cons, Bool.and_eq_true, beq_iff_eq] at hall
      simp only [List.foldl_cons]
      rw [hall.1]
      exact ih xb _ (by simpa using hl) hall.2

/-! ### the complete `_dot_csr_csr`, including its "completely dense" tail -/



theorem zip_map_fst_snd' {β γ : Type} (l : List (β × γ)) : (l.map (·.1)).zip (l.map (·.2)) = l := by
  induction l with
  | nil => rfl
  | cons e l ih => simp [ih]

/-- pigeonhole: distinct naturals below `n` are at most `n` many -/
theorem nodup_bounded_length (l : List Nat) (n : Nat) (hnd : l.Nodup) (hb : ∀ x ∈ l, x < n) : l.length ≤ n := by
  have hp : (l ++ (List.range n).filter (fun x => !l.contains x)).Perm (List.range n) := by
    rw [List.perm_ext_iff_of_nodup _ List.nodup_range]
    · intro a
      simp only [List.mem_append, List.mem_filter, List.mem_range, Bool.not_eq_true', List.contains_eq_mem,
        decide_eq_false_iff_not]
      constructor
      · rintro (h | h)
        · exact hb a h
        · exact h.1
      · intro h
        by_cases ha : a ∈ l
        · exact Or.inl ha
        · exact Or.inr ⟨h, ha⟩
    · rw [List.nodup_append]
      refine ⟨hnd, List.Nodup.sublist List.filter_sublist List.nodup_range, ?_⟩
      intro a ha b hb' hab
      subst hab
      simp only [List.mem_filter, Bool.not_eq_true', List.contains_eq_mem, decide_eq_false_iff_not] at hb'
      exact hb'.2 ha
  have := hp.length_eq
  simp only [List.length_append, List.length_range] at this
  omega

theorem sum_le_of_le (g : Nat → Nat) (c m : Nat) (h : ∀ i, i < m → g i ≤ c) :
    ((List.range m).map g).sum ≤ c * m := by
  induction m with
  | zero => simp
  | succ m ih =>
    rw [List.range_succ, List.map_append, List.sum_append_nat]
    have := ih (fun i hi => h i (by omega))
    have := h m (by omega)
    simp only [List.map_cons, List.map_nil, List.sum_cons, List.sum_nil, Nat.add_zero]
    rw [Nat.mul_succ]
    omega

theorem all_eq_of_sum_eq (g : Nat → Nat) (c m : Nat) (h : ∀ i, i < m → g i ≤ c)
    (hs : ((List.range m).map g).sum = c * m) : ∀ i, i < m → g i = c := by
  induction m with
  | zero => intro i hi; omega
  | succ m ih =>
    rw [List.range_succ, List.map_append, List.sum_append_nat] at hs
    simp only [List.map_cons, List.map_nil, List.sum_cons, List.sum_nil, Nat.add_zero] at hs
    rw [Nat.mul_succ] at hs
    have h1 := sum_le_of_le g c m (fun i hi => h i (by omega))
    have h2 := h m (by omega)
    have e1 : ((List.range m).map g).sum = c * m := by omega
    have e2 : g m = c := by omega
    intro i hi
    by_cases him : i = m
    · subst him; exact e2
    · exact ih (fun i hi => h i (by omega)) e1 i (by omega)

theorem revBlocks_flatten {β : Type} (n : Nat) (bs : List (List β)) (h : ∀ b ∈ bs, b.length = n) :
    revBlocks n bs.length bs.flatten = (bs.map List.reverse).flatten := by
  induction bs with
  | nil => rfl
  | cons b bs ih =>
    have hb : b.length = n := h b List.mem_cons_self
    simp only [List.length_cons, revBlocks, List.flatten_cons, List.map_cons]
    rw [List.take_left' hb, List.drop_left' hb, ih (fun b' hb' => h b' (List.mem_cons_of_mem _ hb'))]

theorem lookupK_reverse_map (ch : List Nat) (f : Nat → Int) (k : Nat) :
    lookupK (ch.map fun c => (c, f c)).reverse k = lookupK (ch.map fun c => (c, f c)) k := by
  rw [← List.map_reverse, lookupK_map, lookupK_map]
  simp [List.mem_reverse]

theorem rows_slice (g : Nat → List (Nat × Int)) (nRow : Nat) (out : List (Nat × Int)) (indptr : List Nat)
    (hout : out = (List.range nRow).flatMap g)
    (hptr : indptr = (List.range (nRow + 1)).map (fun m => ((List.range m).flatMap g).length))
    (i : Nat) (hi : i < nRow) : slice out (indptr.getD i 0) (indptr.getD (i + 1) 0) = g i := by
  rw [hout, hptr, getD_map_range _ _ _ _ (by omega), getD_map_range _ _ _ _ (by omega)]
  exact slice_flatMap_range _ nRow i hi

theorem rowEmit_length_le (nCol : Nat) (arow : List (Nat × Int)) (B : CSR) (hB : B.ColsIn nCol) :
    (rowEmit arow B).length ≤ nCol := by
  obtain ⟨h1, _⟩ := touchAll_inv (touches arow B) (inv_init nCol) (touches_fst_lt hB arow)
  unfold rowEmit chainOf
  rw [List.length_map]
  exact nodup_bounded_length _ nCol h1.nodup h1.inR

theorem lookupK_rowEmit_reverse (arow : List (Nat × Int)) (B : CSR) (k : Nat) :
    lookupK (rowEmit arow B).reverse k = lookupK (rowEmit arow B) k := by
  unfold rowEmit
  exact lookupK_reverse_map _ _ k

/-- the rows of the output of the complete `_dot_csr_csr` (after the "completely dense" tail) -/
theorem dotCsrCsr_rows (nRow nCol : Nat) (A B : CSR) (hAw : A.WF) (hBw : B.WF) (hB : B.ColsIn nCol) (o : SparseOut)
    (ho : dotCsrCsr nRow nCol A B = .ok o) :
    o.alloc = o.data.length ∧ o.indices.length = o.data.length ∧
    ∀ i, i < nRow →
      (slice (o.indices.zip o.data) (o.indptr.getD i 0) (o.indptr.getD (i + 1) 0) = rowEmit (A.row i) B
       ∨ slice (o.indices.zip o.data) (o.indptr.getD i 0) (o.indptr.getD (i + 1) 0) = (rowEmit (A.row i) B).reverse) := by
  obtain ⟨_, hout, hptr⟩ := dotCsrCsrLoop_closed nRow nCol A B hB
  have hcnt : csrCsrCountNnz nRow nCol A B = (dotCsrCsrLoop nRow nCol A B).out.length := by
    rw [csrCsrCountNnz_closed nRow nCol A B hB, hout, List.length_flatMap]
    congr 1
    apply List.map_congr_left
    intro i _
    exact (length_rowEmit hAw hBw i).symm
  unfold dotCsrCsr at ho
  simp only at ho
  split at ho
  · rename_i hfull
    split at ho
    · cases ho
    · rename_i hn0
      injection ho with ho
      subst ho
      simp only [List.length_map]
      have hpos : 0 < nCol := by omega
      have hdiv : csrCsrCountNnz nRow nCol A B / nCol = nRow := by
        rw [hfull]; exact Nat.mul_div_cancel_left nRow hpos
      -- every row is full
      have hlen : ∀ i, i < nRow → (rowEmit (A.row i) B).length = nCol := by
        apply all_eq_of_sum_eq (fun i => (rowEmit (A.row i) B).length) nCol nRow
        · intro i _; exact rowEmit_length_le nCol _ B hB
        · rw [← hfull, hcnt, hout, List.length_flatMap]
      have hrev : revBlocks nCol (csrCsrCountNnz nRow nCol A B / nCol) (dotCsrCsrLoop nRow nCol A B).out
          = (List.range nRow).flatMap (fun i => (rowEmit (A.row i) B).reverse) := by
        rw [hdiv, hout, List.flatMap_def, List.flatMap_def]
        have := revBlocks_flatten nCol ((List.range nRow).map fun i => rowEmit (A.row i) B) (by
          intro b hb
          obtain ⟨i, hi, rfl⟩ := List.mem_map.mp hb
          exact hlen i (List.mem_range.mp hi))
        rw [List.length_map, List.length_range] at this
        rw [this, List.map_map]
        rfl
      have hlenrev : ∀ m, ((List.range m).flatMap fun i => (rowEmit (A.row i) B).reverse).length
          = ((List.range m).flatMap fun i => rowEmit (A.row i) B).length := by
        intro m
        rw [List.length_flatMap, List.length_flatMap]
        congr 1
        apply List.map_congr_left
        intro i _
        exact List.length_reverse
      refine ⟨?_, trivial, ?_⟩
      · rw [hrev, hlenrev, ← hout, hcnt]
      · intro i hi
        right
        rw [zip_map_fst_snd']
        apply rows_slice (fun i => (rowEmit (A.row i) B).reverse) nRow _ _ hrev _ i hi
        rw [hptr]
        apply List.map_congr_left
        intro m _
        exact (hlenrev m).symm
  · injection ho with ho
    subst ho
    simp only [List.length_map]
    refine ⟨hcnt, trivial, ?_⟩
    intro i hi
    left
    rw [zip_map_fst_snd']
    exact rows_slice _ nRow _ _ hout hptr i hi



/-! ### `_csr_ndarray_count_nnz` / `_dot_csr_ndarray_sparse` -/

theorem foldl_count (l : List Nat) (p : Nat → Bool) (c : Nat) :
    l.foldl (fun n j => if p j then n + 1 else n) c = c + l.countP p := by
  induction l generalizing c with
  | nil => simp
  | cons x l ih =>
    simp only [List.foldl_cons, List.countP_cons]
    rw [ih]
    by_cases h : p x <;> simp [h] <;> omega

/-- the accumulator pair of one `(i, j)` cell: the sum and the `nonzero` flag -/
theorem cell_fold (arow : List (Nat × Int)) (b : DenseM) (j : Nat) (s0 : Int) (f0 : Bool) :
    arow.foldl (fun (st : Int × Bool) e => (st.1 + e.2 * dget b e.1 j, st.2 || (dget b e.1 j != 0))) (s0, f0)
      = (s0 + (arow.map fun e => e.2 * dget b e.1 j).sum, f0 || arow.any fun e => dget b e.1 j != 0) := by
  induction arow generalizing s0 f0 with
  | nil => simp
  | cons e r ih =>
    simp only [List.foldl_cons, List.map_cons, List.sum_cons, List.any_cons]
    rw [ih]
    simp only [Bool.or_assoc, Prod.mk.injEq, and_true]
    omega

theorem filterMap_if_eq_map_filter {β : Type} (l : List Nat) (p : Nat → Bool) (g : Nat → β) :
    l.filterMap (fun j => if p j = true then some (g j) else none) = (l.filter p).map g := by
  induction l with
  | nil => rfl
  | cons j l ih =>
    by_cases h : p j = true
    · simp [h, ih]
    · simp [h, ih]

/-- one output row of `_dot_csr_ndarray_sparse` in closed form -/
theorem dotCsrNdSparseRow_eq (nCol : Nat) (arow : List (Nat × Int)) (b : DenseM) :
    dotCsrNdSparseRow nCol arow b
      = ((List.range nCol).filter fun j => arow.any fun e => dget b e.1 j != 0).map
          fun j => (j, (arow.map fun e => e.2 * dget b e.1 j).sum) := by
  unfold dotCsrNdSparseRow
  have hfun : (fun j =>
      let st := arow.foldl (fun (st : Int × Bool) e =>
        (st.1 + e.2 * dget b e.1 j, st.2 || (dget b e.1 j != 0))) (0, false)
      if st.2 then some (j, st.1) else none)
      = fun j => if (arow.any fun e => dget b e.1 j != 0) = true
          then some (j, (arow.map fun e => e.2 * dget b e.1 j).sum) else none := by
    funext j
    simp only [cell_fold, Bool.false_or, Int.zero_add]
  rw [hfun]
  exact filterMap_if_eq_map_filter _ _ _

theorem hit_eq {A : CSR} (hA : A.WF) (b : DenseM) (i j : Nat) :
    csrNdHit (A.rowIdx i) b j = (A.row i).any fun e => dget b e.1 j != 0 := by
  unfold csrNdHit
  rw [← row_map_fst hA i, List.any_map]
  rfl

theorem csrNdCountNnz_closed (nRow nCol : Nat) (A : CSR) (b : DenseM) :
    (csrNdCountNnz nRow nCol A b).1
      = ((List.range nRow).map fun i => (List.range nCol).countP fun j => csrNdHit (A.rowIdx i) b j).sum
    ∧ (csrNdCountNnz nRow nCol A b).2
      = (List.range (nRow + 1)).map fun m =>
          ((List.range m).map fun i => (List.range nCol).countP fun j => csrNdHit (A.rowIdx i) b j).sum := by
  induction nRow with
  | zero => simp [csrNdCountNnz]
  | succ n ih =>
    obtain ⟨h1, h2⟩ := ih
    have step : csrNdCountNnz (n + 1) nCol A b =
        (let st := csrNdCountNnz n nCol A b
         let nnz := (List.range nCol).foldl (fun c j => if csrNdHit (A.rowIdx n) b j then c + 1 else c) st.1
         (nnz, st.2 ++ [nnz])) := by
      simp only [csrNdCountNnz, List.range_succ, List.foldl_append, List.foldl_cons, List.foldl_nil]
    rw [step]
    simp only
    rw [foldl_count, h1, h2]
    refine ⟨?_, ?_⟩
    · rw [List.range_succ, List.map_append, List.sum_append_nat]; simp
    · have hF : ((List.range (n + 1)).map fun i => (List.range nCol).countP fun j => csrNdHit (A.rowIdx i) b j).sum
          = ((List.range n).map fun i => (List.range nCol).countP fun j => csrNdHit (A.rowIdx i) b j).sum
            + (List.range nCol).countP (fun j => csrNdHit (A.rowIdx n) b j) := by
        rw [List.range_succ, List.map_append, List.sum_append_nat]; simp
      rw [List.range_succ (n := n + 1), List.map_append]
      simp only [List.map_cons, List.map_nil]
      rw [hF]

theorem length_filter_eq_countP {β : Type} (l : List β) (p : β → Bool) : (l.filter p).length = l.countP p := by
  induction l with
  | nil => rfl
  | cons x l ih => by_cases h : p x <;> simp [List.filter_cons, List.countP_cons, h, ih]


theorem lookupK_filter_map (n : Nat) (p : Nat → Bool) (g : Nat → Int) (k : Nat) :
    lookupK (((List.range n).filter p).map fun j => (j, g j)) k = if k < n ∧ p k = true then g k else 0 := by
  rw [lookupK_map]
  simp [List.mem_filter, List.mem_range]

/-- closed form of what `_dot_csr_ndarray_sparse` writes and of the index pointer from its pre-count -/
theorem dotCsrNdSparse_closed (nRow nCol : Nat) (A : CSR) (b : DenseM) (hA : A.WF) :
    (dotCsrNdSparse nRow nCol A b).indices.zip (dotCsrNdSparse nRow nCol A b).data
      = (List.range nRow).flatMap (fun i => dotCsrNdSparseRow nCol (A.row i) b)
    ∧ (dotCsrNdSparse nRow nCol A b).indptr
      = (List.range (nRow + 1)).map (fun m => ((List.range m).flatMap fun i => dotCsrNdSparseRow nCol (A.row i) b).length)
    ∧ (dotCsrNdSparse nRow nCol A b).alloc = (dotCsrNdSparse nRow nCol A b).data.length := by
  have hrow : ∀ i, (dotCsrNdSparseRow nCol (A.row i) b).length
      = (List.range nCol).countP fun j => csrNdHit (A.rowIdx i) b j := by
    intro i
    rw [dotCsrNdSparseRow_eq, List.length_map, length_filter_eq_countP]
    congr 1
    funext j
    exact (hit_eq hA b i j).symm
  have hpre : ∀ m, ((List.range m).flatMap fun i => dotCsrNdSparseRow nCol (A.row i) b).length
      = ((List.range m).map fun i => (List.range nCol).countP fun j => csrNdHit (A.rowIdx i) b j).sum := by
    intro m
    rw [List.length_flatMap]
    congr 1
    apply List.map_congr_left
    intro i _
    exact hrow i
  obtain ⟨c1, c2⟩ := csrNdCountNnz_closed nRow nCol A b
  unfold dotCsrNdSparse
  simp only [zip_map_fst_snd', List.length_map]
  refine ⟨trivial, ?_, ?_⟩
  · rw [c2]
    apply List.map_congr_left
    intro m _
    exact (hpre m).symm
  · rw [c1, hpre]

end SparseV.Dot

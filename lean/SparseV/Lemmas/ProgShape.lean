/-
  SparseV.Lemmas.ProgShape — step lemmas of the program theorem for the shape operations:
  transpose, reshape, flip, roll, squeeze, expand_dims.
-/
import SparseV.Lemmas.ProgBase
import SparseV.Lemmas.Shape
import SparseV.Lemmas.Reduce
import SparseV.Props.C08
namespace SparseV
open SparseV.COO

/-! ### values of the result are values of the operand -/

theorem noFill_of_vals {x y : COO Int} (hf : y.fill = x.fill)
    (hv : ∀ e ∈ y.entries, ∃ e0 ∈ x.entries, e.2 = e0.2) : x.NoFill → y.NoFill := by
  intro hx e he
  obtain ⟨e0, he0, h⟩ := hv e he
  rw [h, hf]
  exact hx e0 he0

theorem vals_mapIdx {α : Type} (f : Idx → Idx) (es : List (Idx × α)) :
    ∀ e ∈ mapIdx f es, ∃ e0 ∈ es, e.2 = e0.2 := by
  intro e he
  obtain ⟨e0, he0, rfl⟩ := List.mem_map.mp he
  exact ⟨e0, he0, rfl⟩

theorem vals_sort_mapIdx {α : Type} (shape : List Nat) (f : Idx → Idx) (es : List (Idx × α)) :
    ∀ e ∈ sortEntries shape (mapIdx f es), ∃ e0 ∈ es, e.2 = e0.2 :=
  fun e he => vals_mapIdx f es e (mem_sortEntries.mp he)

/-! ### transpose -/

theorem transpose_step (x : COO Int) (d : Dense) (axes : List Int) (hg : Good x) (hr : Refines x d) :
    Sim x.NoFill (Expr.mTranspose x axes) (Expr.sTranspose d axes) := by
  unfold Expr.mTranspose Expr.sTranspose
  rw [normAxes_eq_npAxes, ← hr.shape]
  cases hax : npAxes axes x.shape.length with
  | error e => exact Sim.err e
  | ok ax =>
    simp only []
    by_cases hnd : ax.Nodup
    · by_cases hl : ax.length = x.shape.length
      · rw [if_neg (fun h => h hnd), if_neg (fun h => h hl), if_neg (fun h => h hnd), if_neg (fun h => h hl)]
        have hp : ax.Perm (List.range x.shape.length) := perm_range_iff.mpr ⟨hnd, npAxes_lt hax, hl⟩
        obtain ⟨hshape, hfill, hwf, hs⟩ := COO.transposeCore_facts x ax hp hg.wf hg.sorted
        refine Sim.ok ⟨hwf, hs⟩ ?_ ⟨hshape, by rw [hfill]; exact hr.fill, ?_⟩
        · apply noFill_of_vals hfill
          unfold transposeCore
          split
          · intro e he; exact ⟨e, he, rfl⟩
          · exact vals_sort_mapIdx _ _ _
        · intro j hj
          rw [hshape] at hj
          rw [(C08.transpose_get x ax hp hg.wf hg.nodup j hj).1]
          exact hr.val _ (C08.transpose_src_inb x ax hp j hj)
      · rw [if_neg (fun h => h hnd), if_pos hl, if_neg (fun h => h hnd), if_pos hl]
        exact Sim.err _
    · rw [if_pos hnd, if_pos hnd]
      exact Sim.err _

/-! ### reshape -/

theorem reshape_step (x : COO Int) (d : Dense) (s : List Nat) (hg : Good x) (hr : Refines x d) :
    Sim x.NoFill (Expr.mReshape x s) (Expr.sReshape d s) := by
  unfold Expr.mReshape Expr.sReshape
  rw [← hr.shape]
  by_cases hsize : prod x.shape = prod s
  · rw [if_pos hsize, if_pos hsize]
    obtain ⟨hshape, hfill, hwf⟩ := COO.reshapeCore_facts x s hg.wf hsize
    refine Sim.ok ⟨hwf, by rw [hshape]; exact COO.reshapeCore_sorted x s hg.wf hsize hg.sorted⟩ ?_
      ⟨hshape, by rw [hfill]; exact hr.fill, ?_⟩
    · apply noFill_of_vals hfill
      unfold reshapeCore
      split
      · intro e he; exact ⟨e, he, rfl⟩
      · exact fun e he => vals_mapIdx (fun i => unravel (ravel i x.shape) s) x.entries e he
    · intro j hj
      rw [hshape] at hj
      rw [(C08.reshape_get x s hg.wf hsize j hj).1]
      exact hr.val _ (unravel_InB _ _ (hsize ▸ ravel_lt hj))
  · rw [if_neg hsize, if_neg hsize]
    exact Sim.err _

/-! ### flip, roll: an involutive / invertible coordinate map followed by the constructor's sort -/

theorem sortRewrite_good (x : COO Int) (f h : Idx → Idx) (hg : Good x)
    (hinv : ∀ i, InB i x.shape → h (f i) = i) (hin : ∀ i, InB i x.shape → InB (f i) x.shape) :
    Good { shape := x.shape, entries := sortEntries x.shape (mapIdx f x.entries), fill := x.fill } := by
  constructor
  · intro e he
    obtain ⟨e0, he0, rfl⟩ := List.mem_map.mp (mem_sortEntries.mp he)
    exact hin _ (hg.wf e0 he0)
  · show SortedLin x.shape (sortEntries x.shape (mapIdx f x.entries))
    rw [mapIdx_eq_rewrite]
    refine COO.sortEntries_rewrite_sortedLin _ _ _ h ?_ hg.nodup ?_
    · intro e he j' hj'
      simp only [Option.some.injEq] at hj'
      rw [← hj']; exact hinv _ (hg.wf e he)
    · intro e he j' hj'
      simp only [Option.some.injEq] at hj'
      rw [← hj']; exact hin _ (hg.wf e he)

theorem flip_step (x : COO Int) (d : Dense) (axes : List Int) (hg : Good x) (hr : Refines x d) :
    Sim x.NoFill (Expr.mFlip x axes) (Expr.sFlip d axes) := by
  unfold Expr.mFlip Expr.sFlip
  rw [normAxes_eq_npAxes, ← hr.shape]
  cases hax : npAxes axes x.shape.length with
  | error e => exact Sim.err e
  | ok ax =>
    simp only []
    by_cases hnd : ax.Nodup
    · rw [if_neg (fun h => h hnd), if_neg (fun h => h hnd)]
      refine Sim.ok (sortRewrite_good x (flipIdx x.shape ax) (flipIdx x.shape ax) hg
          (fun i hi => flipIdx_flipIdx ax hi) (fun i hi => InB_flipIdx ax hi)) ?_ ⟨rfl, hr.fill, ?_⟩
      · exact noFill_of_vals rfl (vals_sort_mapIdx _ _ _)
      · intro j hj
        have hj' : InB j x.shape := hj
        rw [(C08.flip_get x ax hg.wf hg.nodup j hj').1]
        exact hr.val _ (C08.flip_src_inb x ax j hj')
    · rw [if_pos hnd, if_pos hnd]
      exact Sim.err _

theorem roll_step (x : COO Int) (d : Dense) (shifts axes : List Int) (hg : Good x) (hr : Refines x d) :
    Sim x.NoFill (Expr.mRoll x shifts axes) (Expr.sRoll d shifts axes) := by
  unfold Expr.mRoll Expr.sRoll
  rw [normAxes_eq_npAxes, ← hr.shape]
  cases hax : npAxes axes x.shape.length with
  | error e => exact Sim.err e
  | ok ax =>
    simp only []
    by_cases hl : ax.length = (Expr.rollShifts shifts ax.length).length
    · rw [if_neg (fun h => h hl), if_neg (fun h => h hl)]
      refine Sim.ok (sortRewrite_good x (rollIdx x.shape ax (Expr.rollShifts shifts ax.length))
          (rollIdx x.shape ax.reverse ((Expr.rollShifts shifts ax.length).reverse.map fun s => -s)) hg
          (fun i hi => rollIdx_inv_left hl hi) (fun i hi => InB_rollIdx _ _ hi)) ?_ ⟨rfl, hr.fill, ?_⟩
      · exact noFill_of_vals rfl (vals_sort_mapIdx _ _ _)
      · intro j hj
        have hj' : InB j x.shape := hj
        rw [(C08.roll_get x ax _ hl hg.wf hg.nodup j hj').1]
        exact hr.val _ (C08.roll_src_inb x ax _ j hj')
    · rw [if_pos hl, if_pos hl]
      exact Sim.err _

/-! ### squeeze -/

theorem unsqueeze_eq (axes : List Nat) : ∀ (s : List Nat) (a : Nat) (j : Idx),
    Expr.unsqueeze axes a s j = reinsertFrom axes a s j
  | [], _, _ => rfl
  | _ :: s, a, j => by
    unfold Expr.unsqueeze reinsertFrom
    split
    · rw [unsqueeze_eq axes s (a + 1) j]
    · rw [unsqueeze_eq axes s (a + 1) j.tail]

theorem InB_dropFrom (axes : List Nat) : ∀ (s : List Nat) (a : Nat) (i : Idx), InB i s →
    InB (dropFrom axes a i) (dropFrom axes a s)
  | [], _, [], _ => by simp [dropFrom]
  | [], _, _ :: _, h => absurd h (by simp [InB])
  | _ :: _, _, [], h => absurd h (by simp [InB])
  | d :: s, a, c :: i, h => by
    have ih := InB_dropFrom axes s (a + 1) i h.2
    unfold dropFrom
    split
    · exact ih
    · exact ⟨h.1, ih⟩

theorem ravel_dropFrom (axes : List Nat) : ∀ (s : List Nat) (a : Nat) (i : Idx), InB i s →
    (∀ k, k < s.length → axes.contains (a + k) = true → s.getD k 0 = 1) →
    ravel (dropFrom axes a i) (dropFrom axes a s) = ravel i s ∧ prod (dropFrom axes a s) = prod s
  | [], _, [], _, _ => by simp [dropFrom]
  | [], _, _ :: _, h, _ => absurd h (by simp [InB])
  | _ :: _, _, [], h, _ => absurd h (by simp [InB])
  | d :: s, a, c :: i, h, hone => by
    have hone' : ∀ k, k < s.length → axes.contains (a + 1 + k) = true → s.getD k 0 = 1 := by
      intro k hk hc
      have := hone (k + 1) (by simp; omega) (by rw [← hc]; congr 1; omega)
      simpa using this
    obtain ⟨ih1, ih2⟩ := ravel_dropFrom axes s (a + 1) i h.2 hone'
    by_cases hc : axes.contains a = true
    · have hd : d = 1 := by
        have := hone 0 (by simp) (by simpa using hc)
        simpa using this
      have hc0 : c = 0 := by have := h.1; omega
      rw [dropFrom_cons_pos hc, dropFrom_cons_pos hc]
      subst hd; subst hc0
      simp [ravel, prod, ih1, ih2]
    · have hc' : axes.contains a = false := by simpa using hc
      rw [dropFrom_cons_neg hc', dropFrom_cons_neg hc']
      simp [ravel, prod, ih1, ih2]

theorem squeezeAxes_ok {shape : List Nat} {axes : List Int} {ax : List Nat}
    (h : squeezeAxes shape axes = .ok ax) : ∀ a ∈ ax, a < shape.length ∧ shape.getD a 0 = 1 := by
  unfold squeezeAxes at h
  simp only [] at h
  split at h
  · cases h
  · refine mapM_ok_forall _ (fun a => a < shape.length ∧ shape.getD a 0 = 1) ?_ _ _ h
    intro b c hb
    split at hb
    · next hc =>
      have := Except.ok.inj hb
      subst this
      exact ⟨by omega, hc.2.2⟩
    · split at hb <;> cases hb

theorem squeeze_step (x : COO Int) (d : Dense) (axes : List Int) (hg : Good x) (hr : Refines x d) :
    Sim x.NoFill (Expr.mSqueeze x axes) (Expr.sSqueeze d axes) := by
  unfold Expr.mSqueeze Expr.sSqueeze
  rw [← hr.shape]
  cases hax : squeezeAxes x.shape axes with
  | error e => exact Sim.err e
  | ok ax =>
    simp only []
    have hone : ∀ a ∈ ax, x.shape.getD a 0 = 1 := fun a ha => (squeezeAxes_ok hax a ha).2
    have hshift := ones_shift hone
    refine Sim.ok ⟨?_, ?_⟩ ?_ ⟨rfl, hr.fill, ?_⟩
    · intro e he
      obtain ⟨e0, he0, rfl⟩ := List.mem_map.mp he
      show InB (dropAxes e0.1 ax) (dropAxes x.shape ax)
      rw [dropAxes_eq_dropFrom, dropAxes_eq_dropFrom]
      exact InB_dropFrom ax _ 0 _ (hg.wf e0 he0)
    · show SortedLin (dropAxes x.shape ax) (mapIdx (dropAxes · ax) x.entries)
      have hs := hg.sorted
      unfold SortedLin lin at hs ⊢
      have : (mapIdx (dropAxes · ax) x.entries).map (fun e => ravel e.1 (dropAxes x.shape ax))
          = x.entries.map (fun e => ravel e.1 x.shape) := by
        unfold mapIdx
        rw [List.map_map]
        apply List.map_congr_left
        intro e he
        simp only [Function.comp]
        rw [dropAxes_eq_dropFrom, dropAxes_eq_dropFrom]
        exact (ravel_dropFrom ax _ 0 _ (hg.wf e he) hshift).1
      rw [this]; exact hs
    · exact noFill_of_vals rfl (fun e he => vals_mapIdx (dropAxes · ax) x.entries e he)
    · intro j hj
      have hj' : InB j (dropAxes x.shape ax) := hj
      obtain ⟨hget, hin, _, _, _⟩ := C08.squeeze_get x ax hone hg.wf j hj'
      show _ = d.val (Expr.unsqueeze ax 0 x.shape j)
      rw [hget, unsqueeze_eq]
      exact hr.val _ hin

/-! ### expand_dims -/

theorem ravel_insertAt : ∀ (pos : Nat) (i s : List Nat), InB i s → pos ≤ s.length →
    ravel (insertAt i pos 0) (insertAt s pos 1) = ravel i s ∧ prod (insertAt s pos 1) = prod s
  | 0, i, s, _, _ => by simp [ravel, prod]
  | pos + 1, [], [], _, hp => by simp at hp
  | pos + 1, c :: i, d :: s, h, hp => by
    obtain ⟨ih1, ih2⟩ := ravel_insertAt pos i s h.2 (by simpa using hp)
    simp [ravel, prod, ih1, ih2]
  | pos + 1, [], _ :: _, h, _ => absurd h (by simp)
  | pos + 1, _ :: _, [], h, _ => absurd h (by simp)

theorem expandDims_step (x : COO Int) (d : Dense) (axis : Int) (hg : Good x) (hr : Refines x d) :
    Sim x.NoFill (Expr.mExpandDims x axis) (Expr.sExpandDims d axis) := by
  unfold Expr.mExpandDims Expr.sExpandDims
  rw [normAxis_eq_npAxis, ← hr.shape]
  cases hax : npAxis axis (x.shape.length + 1) with
  | error e => exact Sim.err e
  | ok pos =>
    simp only []
    have hpos : pos ≤ x.shape.length := by have := npAxis_lt hax; omega
    refine Sim.ok ⟨?_, ?_⟩ ?_ ⟨rfl, hr.fill, ?_⟩
    · intro e he
      obtain ⟨e0, he0, rfl⟩ := List.mem_map.mp he
      exact InB_insertAt pos (hg.wf e0 he0) hpos
    · show SortedLin (insertAt x.shape pos 1) (mapIdx (insertAt · pos 0) x.entries)
      have hs := hg.sorted
      unfold SortedLin lin at hs ⊢
      have : (mapIdx (insertAt · pos 0) x.entries).map (fun e => ravel e.1 (insertAt x.shape pos 1))
          = x.entries.map (fun e => ravel e.1 x.shape) := by
        unfold mapIdx
        rw [List.map_map]
        apply List.map_congr_left
        intro e he
        exact (ravel_insertAt pos _ _ (hg.wf e he) hpos).1
      rw [this]; exact hs
    · exact noFill_of_vals rfl (fun e he => vals_mapIdx (insertAt · pos 0) x.entries e he)
    · intro k hk
      obtain ⟨j, hj, rfl⟩ := C08.expand_dims_onto x pos hpos k hk
      show _ = d.val ((insertAt j pos 0).eraseIdx pos)
      rw [(C08.expand_dims_get x pos hpos hg.wf j hj).1, eraseIdx_insertAt pos j 0 (by rw [InB_length hj]; exact hpos)]
      exact hr.val _ hj

end SparseV

/-
  SparseV.Lemmas.Width — facts about `IdxTy` (ranges, `wrap`, `min_scalar_type`, list max/min) used by the
  C15 theorems.  Core Lean only.  All statements hold for every width (`bits` is a variable).
-/
import SparseV.Model.Width
namespace SparseV
namespace IdxTy

theorem two_pow_pos (k : Nat) : (0 : Int) < (2 : Int) ^ k := Int.pow_pos (by decide)

theorem lo_le_zero (t : IdxTy) : t.lo ≤ 0 := by
  unfold lo
  split
  · have := two_pow_pos (t.bits - 1); omega
  · exact Int.le_refl 0

theorem hi_pos (t : IdxTy) : 0 < t.hi := by
  unfold hi
  split
  · exact two_pow_pos _
  · exact two_pow_pos _

theorem span_pos (t : IdxTy) : 0 < t.span := by
  have h1 := lo_le_zero t
  have h2 := hi_pos t
  unfold span
  omega

/-- a signed type is symmetric: `lo = -hi` -/
theorem signed_lo (t : IdxTy) (h : t.signed = true) : t.lo = -t.hi := by
  simp [lo, hi, h]

theorem unsigned_lo (t : IdxTy) (h : t.signed = false) : t.lo = 0 := by
  simp [lo, h]

theorem fits_zero (t : IdxTy) : t.fits 0 := ⟨lo_le_zero t, hi_pos t⟩

/-- storing a representable value changes nothing -/
theorem wrap_of_fits {t : IdxTy} {n : Int} (h : t.fits n) : t.wrap n = n := by
  obtain ⟨h1, h2⟩ := h
  unfold wrap span
  rw [Int.emod_eq_of_lt (by omega) (by omega)]
  omega

/-- whatever is stored is representable -/
theorem fits_wrap (t : IdxTy) (n : Int) : t.fits (t.wrap n) := by
  have hs := span_pos t
  have h1 := Int.emod_nonneg (n - t.lo) (Int.ne_of_gt hs)
  have h2 := Int.emod_lt_of_pos (n - t.lo) hs
  unfold wrap fits
  unfold span at *
  omega

/-- a value between two representable values is representable -/
theorem fits_between {t : IdxTy} {a b x : Int} (ha : t.fits a) (hb : t.fits b) (h1 : a ≤ x) (h2 : x ≤ b) :
    t.fits x := ⟨Int.le_trans ha.1 h1, Int.lt_of_le_of_lt h2 hb.2⟩

/-- a non-negative value below a representable one is representable -/
theorem fits_of_nonneg_le {t : IdxTy} {b x : Int} (hb : t.fits b) (h0 : 0 ≤ x) (h : x ≤ b) : t.fits x :=
  ⟨Int.le_trans (lo_le_zero t) h0, Int.lt_of_le_of_lt h hb.2⟩

theorem canStore_iff {t : IdxTy} {n : Int} : canStore t n = true ↔ t.fits n := by
  simp [canStore]

theorem i64_hi : i64.hi = 9223372036854775808 := by decide
theorem i64_lo : i64.lo = -9223372036854775808 := by decide

end IdxTy

open IdxTy

/-- `np.min_scalar_type(n)` holds `n` -/
theorem minScalarType_fits {n : Int} {r : IdxTy} (h : minScalarType n = some r) : r.fits n := by
  unfold minScalarType at h
  by_cases h0 : 0 ≤ n
  · simp only [h0, if_true] at h
    split at h
    · cases h; exact ⟨by simp [IdxTy.lo, u8]; omega, by simp [IdxTy.hi, u8]; omega⟩
    · split at h
      · cases h; exact ⟨by simp [IdxTy.lo, u16]; omega, by simp [IdxTy.hi, u16]; omega⟩
      · split at h
        · cases h; exact ⟨by simp [IdxTy.lo, u32]; omega, by simp [IdxTy.hi, u32]; omega⟩
        · split at h
          · cases h; exact ⟨by simp [IdxTy.lo, u64]; omega, by simp [IdxTy.hi, u64]; omega⟩
          · cases h
  · simp only [h0, if_false] at h
    split at h
    · cases h; exact ⟨by simp [IdxTy.lo, i8]; omega, by simp [IdxTy.hi, i8]; omega⟩
    · split at h
      · cases h; exact ⟨by simp [IdxTy.lo, i16]; omega, by simp [IdxTy.hi, i16]; omega⟩
      · split at h
        · cases h; exact ⟨by simp [IdxTy.lo, i32]; omega, by simp [IdxTy.hi, i32]; omega⟩
        · split at h
          · cases h; exact ⟨by simp [IdxTy.lo, i64]; omega, by simp [IdxTy.hi, i64]; omega⟩
          · cases h

/-- `np.min_scalar_type` finds a type for everything an array extent can be (below `2 ^ 64`) -/
theorem minScalarType_isSome {n : Int} (h0 : 0 ≤ n) (h : n < 2 ^ 64) : (minScalarType n).isSome = true := by
  unfold minScalarType
  simp only [h0, if_true]
  split
  · rfl
  · split
    · rfl
    · split
      · rfl
      · rfl

/-- the dtype chosen by `get_out_dtype` / the inlined upcast holds the scalar it was chosen for -/
theorem getOutDtype_fits {t r : IdxTy} {n : Int} (h : getOutDtype t n = some r) : r.fits n := by
  unfold getOutDtype at h
  split at h
  · rename_i hc
    cases h
    exact canStore_iff.mp hc
  · exact minScalarType_fits h

/-- … and it is the operand's own dtype whenever that one is wide enough (no needless upcast) -/
theorem getOutDtype_keeps {t : IdxTy} {n : Int} (h : t.fits n) : getOutDtype t n = some t := by
  simp [getOutDtype, canStore, h]

theorem foldl_max_ge (xs : List Int) (a : Int) : a ≤ xs.foldl max a ∧ ∀ x ∈ xs, x ≤ xs.foldl max a := by
  induction xs generalizing a with
  | nil => simp
  | cons y ys ih =>
    simp only [List.foldl_cons, List.mem_cons]
    obtain ⟨h1, h2⟩ := ih (max a y)
    refine ⟨by omega, ?_⟩
    intro x hx
    rcases hx with rfl | hx
    · omega
    · exact h2 x hx

theorem foldl_min_le (xs : List Int) (a : Int) : xs.foldl min a ≤ a ∧ ∀ x ∈ xs, xs.foldl min a ≤ x := by
  induction xs generalizing a with
  | nil => simp
  | cons y ys ih =>
    simp only [List.foldl_cons, List.mem_cons]
    obtain ⟨h1, h2⟩ := ih (min a y)
    refine ⟨by omega, ?_⟩
    intro x hx
    rcases hx with rfl | hx
    · omega
    · exact h2 x hx

theorem le_listMax {xs : List Int} {x : Int} (h : x ∈ xs) : x ≤ listMax xs := by
  cases xs with
  | nil => cases h
  | cons y ys =>
    have := foldl_max_ge ys y
    simp only [listMax]
    rcases List.mem_cons.mp h with rfl | h'
    · exact this.1
    · exact this.2 x h'

theorem listMin_le {xs : List Int} {x : Int} (h : x ∈ xs) : listMin xs ≤ x := by
  cases xs with
  | nil => cases h
  | cons y ys =>
    have := foldl_min_le ys y
    simp only [listMin]
    rcases List.mem_cons.mp h with rfl | h'
    · exact this.1
    · exact this.2 x h'

/-- if the greatest and the least element of a list are representable, every element is -/
theorem fits_of_listMax_listMin {t : IdxTy} {xs : List Int} (hmax : t.fits (listMax xs)) (hmin : t.fits (listMin xs))
    {x : Int} (h : x ∈ xs) : t.fits x :=
  fits_between hmin hmax (listMin_le h) (le_listMax h)

/-- a non-negative element of a list whose maximum is representable is representable -/
theorem fits_of_listMax {t : IdxTy} {xs : List Int} (hmax : t.fits (listMax xs)) {x : Int} (h : x ∈ xs) (h0 : 0 ≤ x) :
    t.fits x := fits_of_nonneg_le hmax h0 (le_listMax h)

theorem foldl_max_mem (xs : List Int) (a : Int) : xs.foldl max a = a ∨ xs.foldl max a ∈ xs := by
  induction xs generalizing a with
  | nil => simp
  | cons y ys ih =>
    simp only [List.foldl_cons, List.mem_cons]
    rcases ih (max a y) with h | h
    · rw [h]
      by_cases hay : a ≤ y
      · right; left; omega
      · left; omega
    · right; right; exact h

/-- the maximum of a non-empty list is one of its elements -/
theorem listMax_mem {xs : List Int} (h : xs ≠ []) : listMax xs ∈ xs := by
  cases xs with
  | nil => exact absurd rfl h
  | cons y ys =>
    simp only [listMax]
    rcases foldl_max_mem ys y with h | h
    · rw [h]; simp
    · exact List.mem_cons_of_mem _ h

namespace IdxTy

theorem two_pow_mono {a b : Nat} (h : a ≤ b) : (2 : Int) ^ a ≤ (2 : Int) ^ b := by
  rcases Nat.lt_or_eq_of_le h with h | h
  · exact Int.le_of_lt (Int.pow_lt_pow_of_lt (by decide) h)
  · rw [h]; exact Int.le_refl _

/-- a signed type widened to at least `b` bits still holds what it held -/
theorem fits_widen {t : IdxTy} (hs : t.signed = true) (b : Nat) {x : Int} (h : t.fits x) :
    (⟨true, max t.bits b⟩ : IdxTy).fits x := by
  have hm : (2 : Int) ^ (t.bits - 1) ≤ (2 : Int) ^ (max t.bits b - 1) := two_pow_mono (by omega)
  obtain ⟨h1, h2⟩ := h
  simp only [lo, hi, hs, if_true] at h1 h2
  constructor
  · simp only [lo, if_true]; omega
  · simp only [hi, if_true]; omega

end IdxTy

/-! ## helper lemmas of the C15 site theorems -/

theorem getitemInf_eq (c start step j : Int) (hs : step ≠ 0) (hc : c = start + j * step) :
    getitemCoordInf c start step = j := by
  unfold getitemCoordInf pyFloorDiv
  have : c - start = j * step := by omega
  rw [this, if_neg hs, Int.mul_fdiv_cancel j hs]

theorem abs_le_mul {j s : Int} (hj : 0 ≤ j) (hs : s ≠ 0) : j ≤ j * s ∨ j ≤ -(j * s) := by
  rcases Int.lt_or_gt_of_ne hs with h | h
  · right
    have : j * 1 ≤ j * (-s) := Int.mul_le_mul_of_nonneg_left (by omega) hj
    rw [Int.mul_one, Int.mul_neg] at this
    exact this
  · left
    have : j * 1 ≤ j * s := Int.mul_le_mul_of_nonneg_left (by omega) hj
    rw [Int.mul_one] at this
    exact this

theorem runStarts_bounds (i : Nat) (last : Int) (gs : List Int) :
    ∀ p ∈ runStarts i last gs, i ≤ p ∧ p < i + gs.length := by
  induction gs generalizing i last with
  | nil => intro p hp; simp [runStarts] at hp
  | cons g gs ih =>
    intro p hp
    simp only [runStarts] at hp
    split at hp
    · rcases List.mem_cons.mp hp with rfl | hp'
      · simp
      · have := ih (i + 1) g p hp'
        simp only [List.length_cons]; omega
    · have := ih (i + 1) last p hp
      simp only [List.length_cons]; omega

theorem invIdxInf_lt (groups : List Int) : ∀ p ∈ invIdxInf groups, p < groups.length := by
  cases groups with
  | nil => intro p hp; simp [invIdxInf] at hp
  | cons g gs =>
    intro p hp
    simp only [invIdxInf] at hp
    rcases List.mem_cons.mp hp with rfl | hp'
    · simp
    · have := runStarts_bounds 1 g gs p hp'
      simp only [List.length_cons]; omega

theorem runCounts_le (n : Nat) (ps : List Nat) (h : ∀ p ∈ ps, p ≤ n) : ∀ k ∈ runCounts n ps, k ≤ n := by
  induction ps with
  | nil => intro k hk; simp [runCounts] at hk
  | cons p rest ih =>
    cases rest with
    | nil => intro k hk; simp [runCounts] at hk; omega
    | cons q rest' =>
      intro k hk
      simp only [runCounts] at hk
      rcases List.mem_cons.mp hk with rfl | hk'
      · have := h q (by simp); omega
      · exact ih (fun p hp => h p (List.mem_cons_of_mem _ hp)) k hk'

theorem map_castTo_id (t : IdxTy) (n : Nat) (hn : t.fits n) (ps : List Nat) (h : ∀ p ∈ ps, p ≤ n) :
    ps.map (fun (p : Nat) => castTo t (p : Int)) = ps.map (fun (p : Nat) => (p : Int)) := by
  apply List.map_congr_left
  intro p hp
  have := h p hp
  exact wrap_of_fits (fits_of_nonneg_le hn (Int.natCast_nonneg p) (by omega))

theorem pyMod_range (x d : Int) (hd : 0 < d) : 0 ≤ pyMod x d ∧ pyMod x d < d := by
  unfold pyMod
  rw [if_neg (by omega)]
  exact ⟨Int.fmod_nonneg_of_pos x hd, Int.fmod_lt_of_pos x hd⟩

theorem rollStep_exact (t : IdxTy) (kind : ShiftKind) (c sh n : Int) (hsh : t.fits sh) (hn : t.fits n)
    (hnsh : t.fits (n + sh)) (hc0 : 0 ≤ c) (hcn : c < n) (hkind : kind = .pyInt ∨ t.signed = true) :
    rollStepW t kind c sh n = .ok (pyMod (c + sh) n) ∧ 0 ≤ pyMod (c + sh) n ∧ pyMod (c + sh) n < n := by
  have hr := pyMod_range (c + sh) n (by omega)
  have hsum : t.fits (c + sh) := by
    by_cases h : 0 ≤ sh
    · exact fits_of_nonneg_le hnsh (by omega) (by omega)
    · exact fits_between hsh hn (by omega) (by omega)
  have hres : t.fits (pyMod (c + sh) n) := fits_of_nonneg_le hn hr.1 (by omega)
  refine ⟨?_, hr⟩
  have hadd : rollAdd t kind c sh = .ok (c + sh) := by
    unfold rollAdd
    cases kind with
    | pyInt => simp only [arrPy, hsh, if_true, Op.eval, wrap_of_fits hsum]
    | npInt64 =>
      have hs : t.signed = true := by
        rcases hkind with h | h
        · cases h
        · exact h
      have hw := fits_widen hs 64 hsum
      simp only [iaddNp, promote, hs, i64, if_true, Bool.not_true, Bool.and_false, Bool.false_eq_true, if_false,
        wrap_of_fits hw, wrap_of_fits hsum]
  simp only [rollStepW, hadd, bind, Except.bind, arrPy, hn, if_true, Op.eval, wrap_of_fits hres]

theorem rollAxis_exact (t : IdxTy) (kind : ShiftKind) (n : Int) (shs : List Int) (hn : t.fits n)
    (hshs : ∀ sh ∈ shs, t.fits sh ∧ t.fits (n + sh)) (hkind : kind = .pyInt ∨ t.signed = true) :
    ∀ c, 0 ≤ c → c < n → rollAxis t kind n shs c = .ok (rollAxisInf n shs c) := by
  induction shs with
  | nil => intro c _ _; rfl
  | cons sh rest ih =>
    intro c hc0 hcn
    have h := hshs sh (by simp)
    obtain ⟨h1, h2, h3⟩ := rollStep_exact t kind c sh n h.1 hn h.2 hc0 hcn hkind
    simp only [rollAxis, rollAxisInf, h1, bind, Except.bind]
    exact ih (fun s hs => hshs s (List.mem_cons_of_mem _ hs)) _ h2 h3

theorem promote_intp (t : IdxTy) (h : t.signed = true ∨ t.bits < 64) (hb : t.bits ≤ 64) : promote t intp = some intp := by
  unfold promote
  cases hs : t.signed with
  | true =>
    have : max t.bits 64 = 64 := by omega
    simp [i64, this]
  | false =>
    have hlt : t.bits < 64 := by
      rcases h with h | h
      · rw [hs] at h; cases h
      · exact h
    simp [i64, hlt]

theorem promote_intp_left (t : IdxTy) (h : t.signed = true ∨ t.bits < 64) (hb : t.bits ≤ 64) : promote intp t = some intp := by
  unfold promote
  cases hs : t.signed with
  | true =>
    have : max 64 t.bits = 64 := by omega
    simp [i64, this]
  | false =>
    have hlt : t.bits < 64 := by
      rcases h with h | h
      · rw [hs] at h; cases h
      · exact h
    simp [i64, hlt]

theorem joinIndptr_exact (r : IdxTy) (m : Int) (hfit : r.fits m) (p off : Int) (hp : 0 ≤ p) (ho : 0 ≤ off) (hle : p + off ≤ m) :
    joinIndptrEntry r p off = .ok (p + off) := by
  have h1 : r.fits p := fits_of_nonneg_le hfit hp (by omega)
  have h2 : r.fits off := fits_of_nonneg_le hfit ho (by omega)
  have h3 : r.fits (p + off) := fits_of_nonneg_le hfit (by omega) hle
  simp only [joinIndptrEntry, castTo, arrPy, h2, if_true, Op.eval, wrap_of_fits h1, wrap_of_fits h3]

end SparseV

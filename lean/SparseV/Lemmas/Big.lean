/-
  SparseV.Lemmas.Big — the sparse-safe evaluation strategies of `Model/Big.lean` compute the same
  functions as the definitions they replace.
-/
import SparseV.Model.Big
namespace SparseV

theorem indptrSweepTR_eq : ∀ (n k : Nat) (rest : List Nat) (c : Nat) (acc : List Nat),
    indptrSweepTR n k rest c acc = acc.reverse ++ indptrSweep n k rest c
  | 0, _, _, _, acc => by simp [indptrSweepTR, indptrSweep]
  | n + 1, k, rest, c, acc => by
    simp only [indptrSweepTR, indptrSweep]
    rw [indptrSweepTR_eq n]
    simp

/-- on a sorted list the prefix below `k` is exactly the elements below `k` -/
theorem takeWhile_lt_eq_filter (k : Nat) : ∀ (l : List Nat), l.Pairwise (· ≤ ·) →
    l.takeWhile (· < k) = l.filter (· < k)
  | [], _ => rfl
  | a :: l, h => by
    rw [List.pairwise_cons] at h
    by_cases ha : a < k
    · simp [List.takeWhile_cons, List.filter_cons, ha, takeWhile_lt_eq_filter k l h.2]
    · have : l.filter (· < k) = [] := by
        rw [List.filter_eq_nil_iff]
        intro b hb
        have := h.1 b hb
        simp; omega
      simp [List.takeWhile_cons, List.filter_cons, ha, this]

theorem dropWhile_sorted (k : Nat) : ∀ (l : List Nat), l.Pairwise (· ≤ ·) → (l.dropWhile (· < k)).Pairwise (· ≤ ·)
  | [], _ => by simp
  | a :: l, h => by
    rw [List.dropWhile_cons]
    split
    · exact dropWhile_sorted k l (List.pairwise_cons.mp h).2
    · exact h

theorem countLt_append (a b : List Nat) (k : Nat) : countLt (a ++ b) k = countLt a k + countLt b k := by
  simp [countLt, List.filter_append]

theorem mem_takeWhile_lt (k : Nat) : ∀ (l : List Nat) (a : Nat), a ∈ l.takeWhile (· < k) → a < k
  | [], _, h => by simp at h
  | b :: l, a, h => by
    rw [List.takeWhile_cons] at h
    split at h
    · rcases List.mem_cons.mp h with rfl | h'
      · simp_all
      · exact mem_takeWhile_lt k l a h'
    · simp at h

theorem countLt_takeWhile (l : List Nat) (k j : Nat) (hkj : k ≤ j) :
    countLt (l.takeWhile (· < k)) j = (l.takeWhile (· < k)).length := by
  unfold countLt
  congr 1
  rw [List.filter_eq_self]
  intro a ha
  have := mem_takeWhile_lt k l a ha
  simp; omega

theorem indptrSweep_eq : ∀ (n k : Nat) (rest : List Nat) (c : Nat), rest.Pairwise (· ≤ ·) →
    indptrSweep n k rest c = (List.range' k n).map fun j => c + countLt rest j
  | 0, _, _, _, _ => by simp [indptrSweep]
  | n + 1, k, rest, c, h => by
    simp only [indptrSweep, List.range'_succ, List.map_cons]
    rw [indptrSweep_eq n (k + 1) _ _ (dropWhile_sorted k rest h)]
    congr 1
    · rw [takeWhile_lt_eq_filter k rest h]; rfl
    · apply List.map_congr_left
      intro j hj
      have hj' : k + 1 ≤ j := (List.mem_range'_1.mp hj).1
      have hsplit : countLt rest j = countLt (rest.takeWhile (· < k)) j + countLt (rest.dropWhile (· < k)) j := by
        rw [← countLt_append, List.takeWhile_append_dropWhile]
      rw [hsplit, countLt_takeWhile rest k j (by omega)]
      omega

/-- **indptrOfBig_eq.** the single sweep computes `cumsum(bincount(rows, minlength=R))` for sorted row numbers -/
theorem indptrOfBig_eq (rows : List Nat) (R : Nat) (h : rows.Pairwise (· ≤ ·)) :
    indptrOfBig rows R = indptrOf rows R := by
  unfold indptrOfBig indptrOf
  rw [indptrSweepTR_eq, indptrSweep_eq _ _ _ _ h, List.range_eq_range']
  simp

theorem uncompressGoTR_eq : ∀ (p : List Nat) (i : Nat) (acc : List Nat),
    uncompressGoTR i p acc = acc.reverse ++ uncompressGo i p
  | [], _, _ => by simp [uncompressGoTR, uncompressGo]
  | [_], _, _ => by simp [uncompressGoTR, uncompressGo]
  | a :: b :: rest, i, acc => by
    simp only [uncompressGoTR, uncompressGo]
    rw [uncompressGoTR_eq (b :: rest)]
    simp [List.reverse_append, List.reverse_replicate]

theorem uncompressGo_eq : ∀ (p : List Nat) (i : Nat),
    uncompressGo i p = (List.range (p.length - 1)).flatMap fun j =>
      List.replicate (p.getD (j + 1) 0 - p.getD j 0) (i + j)
  | [], _ => by simp [uncompressGo]
  | [_], _ => by simp [uncompressGo]
  | a :: b :: rest, i => by
    simp only [uncompressGo]
    rw [uncompressGo_eq (b :: rest) (i + 1)]
    have hl : (a :: b :: rest).length - 1 = ((b :: rest).length - 1) + 1 := by simp
    rw [hl, List.range_succ_eq_map, List.flatMap_cons, List.flatMap_map]
    simp only [List.getD_cons_zero, List.getD_cons_succ, Nat.add_zero]
    congr 2
    funext j
    congr 1
    omega

/-- **uncompressBig_eq.** walking the pointer list once is `uncompress_dimension` -/
theorem uncompressBig_eq (p : List Nat) : uncompressBig p = uncompress p := by
  unfold uncompressBig uncompress
  rw [uncompressGoTR_eq, uncompressGo_eq]
  simp

namespace GCXS
variable {α : Type}

/-- the row numbers handed to `indptrOf` by `fromCooCore` are sorted -/
theorem rows_sorted (lin : List (Nat × α)) (colSize : Nat) :
    ((lin.mergeSort fun a b => decide (a.1 ≤ b.1)).map fun e => e.1 / colSize).Pairwise (· ≤ ·) := by
  have hs : (lin.mergeSort fun a b => decide (a.1 ≤ b.1)).Pairwise (fun a b => decide (a.1 ≤ b.1) = true) :=
    List.pairwise_mergeSort (le := fun a b => decide (a.1 ≤ b.1))
      (fun a b c hab hbc => by simp at *; omega) (fun a b => by simp; omega) lin
  rw [List.pairwise_map]
  exact hs.imp (fun {a b} h => by simp at h; exact Nat.div_le_div_right h)

theorem fromCooCoreBig_eq (x : COO α) (caxes : List Nat) : fromCooCoreBig x caxes = fromCooCore x caxes := by
  unfold fromCooCoreBig fromCooCore
  simp only []
  rw [indptrOfBig_eq _ _ (rows_sorted _ _)]

/-- **fromCooBig_eq.** -/
theorem fromCooBig_eq (x : COO α) (caxes : Option (List Nat)) : fromCooBig x caxes = fromCoo x caxes := by
  unfold fromCooBig
  split
  · rfl
  · rfl
  · rename_i n heq
    simp only [fromCooCoreBig_eq]
    unfold fromCoo
    rw [heq]
    rfl

/-- **tocooBig_eq.** -/
theorem tocooBig_eq [Add α] [DecidableEq α] (g : GCXS α) : tocooBig g = tocoo g := by
  unfold tocooBig
  split
  · rfl
  · rename_i c heq
    simp only [uncompressBig_eq]
    unfold tocoo
    rw [heq]

end GCXS
end SparseV

/-
  SparseV.Lemmas.Ownership — the invariant of the ownership model (property C20):
  reachability computed by the one-pass marking is graph reachability, and every command keeps
  "every buffer an object addresses is owned by an object it keeps alive".
-/
import SparseV.Model.Ownership
namespace SparseV
namespace Own

/-- reachable from the program's references along keeps-alive edges -/
inductive Reach (h : Heap) : Nat → Prop
  | root {o : Nat} : o ∈ h.roots → Reach h o
  | step {p o : Nat} : Reach h p → o ∈ (h.obj p).refs → Reach h o

/-- `Path h o w`: `o` keeps `w` alive (reflexive-transitive closure of the edges) -/
inductive Path (h : Heap) : Nat → Nat → Prop
  | refl (o : Nat) : Path h o o
  | step {o p w : Nat} : p ∈ (h.obj o).refs → Path h p w → Path h o w

theorem Reach.path {h : Heap} {o w : Nat} (hr : Reach h o) (hp : Path h o w) : Reach h w := by
  induction hp with
  | refl _ => exact hr
  | step he _ ih => exact ih (Reach.step hr he)

theorem obj_of_lt (h : Heap) (o : Nat) (x : Obj) (toks : List Nat) (ho : o < h.objs.length) :
    (h.push x toks).obj o = h.obj o := by
  simp [Heap.obj, Heap.push, List.getD_eq_getElem?_getD, List.getElem?_append_left ho]

theorem obj_new (h : Heap) (x : Obj) (toks : List Nat) : (h.push x toks).obj h.objs.length = x := by
  simp [Heap.obj, Heap.push, List.getD_eq_getElem?_getD]

theorem obj_nil_of_ge (h : Heap) (o : Nat) (ho : h.objs.length ≤ o) : h.obj o = Obj.nil := by
  simp [Heap.obj, List.getD_eq_getElem?_getD, List.getElem?_eq_none ho]

theorem lt_of_refs {h : Heap} {o r : Nat} (hr : r ∈ (h.obj o).refs) : o < h.objs.length := by
  apply Nat.lt_of_not_le
  intro hge
  rw [obj_nil_of_ge h o hge] at hr
  simp [Obj.nil] at hr

theorem lt_of_owns {h : Heap} {o b : Nat} (hb : b ∈ (h.obj o).owns) : o < h.objs.length := by
  apply Nat.lt_of_not_le
  intro hge
  rw [obj_nil_of_ge h o hge] at hb
  simp [Obj.nil] at hb

/-! ### the marking pass -/

theorem markFrom_lt (objs : List Obj) : ∀ (n : Nat) (wanted : List Nat) (o : Nat), o ∈ markFrom objs n wanted → o < n
  | 0, _, _, h => by simp [markFrom] at h
  | n + 1, wanted, o, h => by
    unfold markFrom at h
    split at h
    · rcases List.mem_cons.mp h with h | h
      · omega
      · exact Nat.lt_succ_of_lt (markFrom_lt objs n _ o h)
    · exact Nat.lt_succ_of_lt (markFrom_lt objs n _ o h)

theorem markFrom_complete (objs : List Obj) : ∀ (n : Nat) (wanted : List Nat) (o : Nat), o < n →
    (o ∈ wanted ∨ ∃ p, o < p ∧ p ∈ markFrom objs n wanted ∧ o ∈ (objs.getD p Obj.nil).refs) →
    o ∈ markFrom objs n wanted
  | 0, _, _, h, _ => absurd h (Nat.not_lt_zero _)
  | n + 1, wanted, o, hlt, hc => by
    unfold markFrom at hc ⊢
    by_cases hw : wanted.contains n = true
    · rw [if_pos hw] at hc ⊢
      by_cases hon : o = n
      · rw [hon]; exact List.mem_cons_self
      · have hlt' : o < n := by omega
        apply List.mem_cons_of_mem
        apply markFrom_complete objs n _ o hlt'
        rcases hc with hc | ⟨p, hop, hpm, hor⟩
        · exact Or.inl (List.mem_append_right _ hc)
        · rcases List.mem_cons.mp hpm with hpn | hpm
          · rw [hpn] at hor; exact Or.inl (List.mem_append_left _ hor)
          · exact Or.inr ⟨p, hop, hpm, hor⟩
    · rw [if_neg hw] at hc ⊢
      by_cases hon : o = n
      · exfalso
        rcases hc with hc | ⟨p, hop, hpm, _⟩
        · rw [hon] at hc; exact hw (List.contains_iff_mem.mpr hc)
        · have := markFrom_lt objs n wanted p hpm; omega
      · exact markFrom_complete objs n wanted o (by omega) hc

theorem markFrom_sound (objs : List Obj) (P : Nat → Prop)
    (hstep : ∀ p o, P p → o ∈ (objs.getD p Obj.nil).refs → P o) :
    ∀ (n : Nat) (wanted : List Nat), (∀ w ∈ wanted, P w) → ∀ o ∈ markFrom objs n wanted, P o
  | 0, _, _, _, h => by simp [markFrom] at h
  | n + 1, wanted, hw, o, h => by
    unfold markFrom at h
    split at h
    next hc =>
      have hn : P n := hw n (List.contains_iff_mem.mp hc)
      rcases List.mem_cons.mp h with h | h
      · rw [h]; exact hn
      · refine markFrom_sound objs P hstep n _ ?_ o h
        intro w hw'
        rcases List.mem_append.mp hw' with h1 | h1
        · exact hstep n w hn h1
        · exact hw w h1
    next => exact markFrom_sound objs P hstep n wanted hw o h

/-! ### the invariant -/

structure WF (h : Heap) : Prop where
  refs_lt : ∀ o r, r ∈ (h.obj o).refs → r < o
  roots_lt : ∀ r ∈ h.roots, r < h.objs.length
  bufs_lt : ∀ o b, (b ∈ (h.obj o).bufs ∨ b ∈ (h.obj o).owns) → b < h.nbuf
  cont_len : h.cont.length = h.nbuf
  own_unique : ∀ o1 o2 b, b ∈ (h.obj o1).owns → b ∈ (h.obj o2).owns → o1 = o2
  owns_nodup : ∀ o, (h.obj o).owns.Nodup
  dead_lt : ∀ o ∈ h.dead, o < h.objs.length
  reach_alive : ∀ o, Reach h o → o ∉ h.dead
  freed_owner : ∀ b ∈ h.freed, ∃ w, w ∈ h.dead ∧ b ∈ (h.obj w).owns
  freed_nodup : h.freed.Nodup
  dead_freed : ∀ w ∈ h.dead, ∀ b ∈ (h.obj w).owns, b ∈ h.freed
  keeps_owner : ∀ o b, b ∈ (h.obj o).bufs → ∃ w, Path h o w ∧ b ∈ (h.obj w).owns
  nd_refs : ∀ o, (h.obj o).kind = .ndarray → (h.obj o).refs.length ≤ 1

theorem Path.inv {h : Heap} {o w : Nat} (hp : Path h o w) : o = w ∨ ∃ p ∈ (h.obj o).refs, Path h p w := by
  cases hp with
  | refl => exact Or.inl rfl
  | step he hp' => exact Or.inr ⟨_, he, hp'⟩

theorem WF.empty : WF Heap.empty := by
  have hn : ∀ o, Heap.empty.obj o = Obj.nil := fun o => obj_nil_of_ge _ o (Nat.zero_le _)
  constructor <;> intros <;> simp_all [Heap.empty, Obj.nil]

theorem Reach.lt {h : Heap} (hw : WF h) {o : Nat} (hr : Reach h o) : o < h.objs.length := by
  induction hr with
  | root hm => exact hw.roots_lt _ hm
  | step _ he ih => exact Nat.lt_trans (hw.refs_lt _ _ he) ih

/-- the one-pass marking computes reachability -/
theorem mem_reachable_iff {h : Heap} (hw : WF h) (o : Nat) : o ∈ reachable h ↔ Reach h o := by
  constructor
  · intro hm
    exact markFrom_sound h.objs (Reach h) (fun p o hp ho => Reach.step hp ho) _ _ (fun w hw' => Reach.root hw') o hm
  · intro hr
    induction hr with
    | root hm => exact markFrom_complete h.objs _ _ _ (hw.roots_lt _ hm) (Or.inl hm)
    | @step p o hp he ih =>
      have hop : o < p := hw.refs_lt _ _ he
      exact markFrom_complete h.objs _ _ _ (Nat.lt_trans hop (Reach.lt hw hp)) (Or.inr ⟨p, hop, ih, he⟩)

theorem contains_reachable {h : Heap} (hw : WF h) {o : Nat} (hc : (reachable h).contains o = true) : Reach h o :=
  (mem_reachable_iff hw o).mp (List.contains_iff_mem.mp hc)

/-- reachability depends on the objects and the roots only -/
theorem Reach.congr {h h' : Heap} (ho : h'.objs = h.objs) (hroots : ∀ r ∈ h'.roots, Reach h r) {o : Nat}
    (hr : Reach h' o) : Reach h o := by
  induction hr with
  | root hm => exact hroots _ hm
  | step _ he ih =>
    refine Reach.step ih ?_
    simpa [Heap.obj, ho] using he

theorem Path.congr {h h' : Heap} (ho : h'.objs = h.objs) {o w : Nat} (hp : Path h o w) : Path h' o w := by
  induction hp with
  | refl _ => exact Path.refl _
  | step he _ ih => exact Path.step (by simpa [Heap.obj, ho] using he) ih

/-- what a newly created object has to satisfy -/
structure Admissible (h : Heap) (x : Obj) (toks : List Nat) : Prop where
  refs_reach : ∀ r ∈ x.refs, Reach h r
  owns_fresh : ∀ b ∈ x.owns, h.nbuf ≤ b ∧ b < h.nbuf + toks.length
  owns_nodup : x.owns.Nodup
  bufs_kept : ∀ b ∈ x.bufs, b ∈ x.owns ∨ ∃ r ∈ x.refs, ∃ w, Path h r w ∧ b ∈ (h.obj w).owns
  nd_refs : x.kind = .ndarray → x.refs.length ≤ 1

theorem push_reach {h : Heap} (hw : WF h) {x : Obj} {toks : List Nat} (ha : Admissible h x toks) {o : Nat}
    (hr : Reach (h.push x toks) o) : o = h.objs.length ∨ Reach h o := by
  induction hr with
  | root hm =>
    rcases List.mem_cons.mp hm with h1 | h1
    · exact Or.inl h1
    · exact Or.inr (Reach.root h1)
  | @step p o _ he ih =>
    rcases ih with h1 | h1
    · rw [h1, obj_new] at he
      exact Or.inr (ha.refs_reach _ he)
    · rw [obj_of_lt h p x toks (Reach.lt hw h1)] at he
      exact Or.inr (Reach.step h1 he)

theorem push_path {h : Heap} {x : Obj} {toks : List Nat} {o w : Nat} (hp : Path h o w) :
    Path (h.push x toks) o w := by
  induction hp with
  | refl _ => exact Path.refl _
  | @step o p w he _ ih =>
    refine Path.step ?_ ih
    rw [obj_of_lt h o x toks (lt_of_refs he)]
    exact he

theorem push_cases (h : Heap) (x : Obj) (toks : List Nat) (o : Nat) :
    (o < h.objs.length ∧ (h.push x toks).obj o = h.obj o) ∨ (o = h.objs.length ∧ (h.push x toks).obj o = x)
    ∨ (h.objs.length < o ∧ (h.push x toks).obj o = Obj.nil) := by
  rcases Nat.lt_trichotomy o h.objs.length with h1 | h1 | h1
  · exact Or.inl ⟨h1, obj_of_lt h o x toks h1⟩
  · exact Or.inr (Or.inl ⟨h1, by rw [h1]; exact obj_new h x toks⟩)
  · refine Or.inr (Or.inr ⟨h1, obj_nil_of_ge _ o ?_⟩)
    simp [Heap.push]; omega

theorem push_WF {h : Heap} (hw : WF h) {x : Obj} {toks : List Nat} (ha : Admissible h x toks) :
    WF (h.push x toks) := by
  have hlen : (h.push x toks).objs.length = h.objs.length + 1 := by simp [Heap.push]
  constructor
  · -- refs_lt
    intro o r hr
    rcases push_cases h x toks o with ⟨_, he⟩ | ⟨ho, he⟩ | ⟨_, he⟩ <;> rw [he] at hr
    · exact hw.refs_lt o r hr
    · rw [ho]; exact Reach.lt hw (ha.refs_reach r hr)
    · simp [Obj.nil] at hr
  · -- roots_lt
    intro r hr
    rw [hlen]
    rcases List.mem_cons.mp hr with h1 | h1
    · omega
    · exact Nat.lt_succ_of_lt (hw.roots_lt r h1)
  · -- bufs_lt
    intro o b hb
    show b < h.nbuf + toks.length
    rcases push_cases h x toks o with ⟨_, he⟩ | ⟨_, he⟩ | ⟨_, he⟩ <;> rw [he] at hb
    · exact Nat.lt_of_lt_of_le (hw.bufs_lt o b hb) (Nat.le_add_right _ _)
    · rcases hb with hb | hb
      · rcases ha.bufs_kept b hb with h1 | ⟨_, _, w, _, h1⟩
        · exact (ha.owns_fresh b h1).2
        · exact Nat.lt_of_lt_of_le (hw.bufs_lt w b (Or.inr h1)) (Nat.le_add_right _ _)
      · exact (ha.owns_fresh b hb).2
    · simp [Obj.nil] at hb
  · -- cont_len
    simp [Heap.push, hw.cont_len]
  · -- own_unique
    intro o1 o2 b h1 h2
    rcases push_cases h x toks o1 with ⟨_, e1⟩ | ⟨l1, e1⟩ | ⟨_, e1⟩ <;> rw [e1] at h1 <;>
    rcases push_cases h x toks o2 with ⟨_, e2⟩ | ⟨l2, e2⟩ | ⟨_, e2⟩ <;> rw [e2] at h2
    · exact hw.own_unique o1 o2 b h1 h2
    · have := hw.bufs_lt o1 b (Or.inr h1); have := (ha.owns_fresh b h2).1; omega
    · simp [Obj.nil] at h2
    · have := hw.bufs_lt o2 b (Or.inr h2); have := (ha.owns_fresh b h1).1; omega
    · omega
    · simp [Obj.nil] at h2
    · simp [Obj.nil] at h1
    · simp [Obj.nil] at h1
    · simp [Obj.nil] at h1
  · -- owns_nodup
    intro o
    rcases push_cases h x toks o with ⟨_, he⟩ | ⟨_, he⟩ | ⟨_, he⟩ <;> rw [he]
    · exact hw.owns_nodup o
    · exact ha.owns_nodup
    · simp [Obj.nil]
  · -- dead_lt
    intro o ho
    rw [hlen]
    exact Nat.lt_succ_of_lt (hw.dead_lt o ho)
  · -- reach_alive
    intro o hr hd
    rcases push_reach hw ha hr with h1 | h1
    · have := hw.dead_lt o hd; omega
    · exact hw.reach_alive o h1 hd
  · -- freed_owner
    intro b hb
    obtain ⟨w, hwd, hwo⟩ := hw.freed_owner b hb
    exact ⟨w, hwd, by rw [obj_of_lt h w x toks (hw.dead_lt w hwd)]; exact hwo⟩
  · exact hw.freed_nodup
  · -- dead_freed
    intro w hwd b hb
    rw [obj_of_lt h w x toks (hw.dead_lt w hwd)] at hb
    exact hw.dead_freed w hwd b hb
  · -- keeps_owner
    intro o b hb
    rcases push_cases h x toks o with ⟨_, he⟩ | ⟨ho, he⟩ | ⟨_, he⟩ <;> rw [he] at hb
    · obtain ⟨w, hp, hwo⟩ := hw.keeps_owner o b hb
      exact ⟨w, push_path hp, by rw [obj_of_lt h w x toks (lt_of_owns hwo)]; exact hwo⟩
    · rcases ha.bufs_kept b hb with h1 | ⟨r, hr, w, hp, hwo⟩
      · exact ⟨o, Path.refl o, by rw [he]; exact h1⟩
      · refine ⟨w, Path.step (by rw [he]; exact hr) (push_path hp), ?_⟩
        rw [obj_of_lt h w x toks (lt_of_owns hwo)]; exact hwo
    · simp [Obj.nil] at hb
  · -- nd_refs
    intro o hk
    rcases push_cases h x toks o with ⟨_, he⟩ | ⟨_, he⟩ | ⟨_, he⟩ <;> rw [he] at hk ⊢
    · exact hw.nd_refs o hk
    · exact ha.nd_refs hk
    · simp [Obj.nil]

theorem npView_admissible {h : Heap} (hw : WF h) (o : Nat) (x : Obj) (toks : List Nat)
    (hm : mkNpView h o = some (x, toks)) : Admissible h x toks := by
  simp only [mkNpView] at hm
  split at hm
  next hc =>
    simp only [Option.some.injEq, Prod.mk.injEq] at hm
    obtain ⟨rfl, rfl⟩ := hm
    have hr : Reach h o := contains_reachable hw (by simp at hc; simpa using hc.1)
    -- the base of the new view: `o`, or the array `o` is itself a view of; either way it is reachable and leads to
    -- the owner of every buffer `o` addresses
    have hbase : Reach h (npBase h o) ∧ ∀ b ∈ (h.obj o).bufs, ∃ w, Path h (npBase h o) w ∧ b ∈ (h.obj w).owns := by
      unfold npBase
      split
      next hcond =>
        cases hrefs : (h.obj o).refs with
        | nil =>
          simp only [List.headD_nil]
          exact ⟨hr, fun b hb => hw.keeps_owner o b hb⟩
        | cons r rest =>
          simp only [List.headD_cons]
          have hlen := hw.nd_refs o hcond.1
          rw [hrefs] at hlen
          have hrest : rest = [] := by
            cases rest with
            | nil => rfl
            | cons _ _ => simp at hlen
          subst hrest
          refine ⟨Reach.step hr (by rw [hrefs]; simp), fun b hb => ?_⟩
          obtain ⟨w, hp, hwo⟩ := hw.keeps_owner o b hb
          rcases hp.inv with h1 | ⟨p, hp1, hp2⟩
          · rw [← h1, hcond.2] at hwo; cases hwo
          · rw [hrefs] at hp1
            simp at hp1
            exact ⟨w, hp1 ▸ hp2, hwo⟩
      next => exact ⟨hr, fun b hb => hw.keeps_owner o b hb⟩
    constructor
    · intro r hr'; simp at hr'; rw [hr']; exact hbase.1
    · intro b hb; simp at hb
    · simp
    · intro b hb
      obtain ⟨w, hp, hwo⟩ := hbase.2 b hb
      exact Or.inr ⟨npBase h o, by simp, w, hp, hwo⟩
    · intro _; simp
  next => cases hm

theorem view_admissible {h : Heap} (hw : WF h) (a k : Nat) (x : Obj) (toks : List Nat)
    (hm : mkView Cfg.full h a k = some (x, toks)) : Admissible h x toks := by
  simp only [mkView] at hm
  split at hm
  next hc =>
    have hra : Reach h a := contains_reachable hw (by simp at hc; simpa using hc.1)
    split at hm
    next s hrefs =>
      split at hm
      next b hbk =>
        simp only [Option.some.injEq, Prod.mk.injEq] at hm
        obtain ⟨rfl, rfl⟩ := hm
        have hrs : Reach h s := Reach.step hra (by rw [hrefs]; simp)
        have hbs : b ∈ (h.obj s).bufs := List.mem_of_getElem? hbk
        have hhold : Cfg.full.holdView (h.obj s).om = true := by
          unfold Cfg.holdView; cases (h.obj s).om <;> rfl
        constructor
        · intro r hr'; simp [hhold] at hr'; rw [hr']; exact hrs
        · intro b' hb'; simp at hb'
        · simp
        · intro b' hb'
          simp at hb'
          rw [hb']
          obtain ⟨w, hp, hwo⟩ := hw.keeps_owner s b hbs
          exact Or.inr ⟨s, by simp [hhold], w, hp, hwo⟩
        · intro hk; simp at hk
      next => cases hm
    next => cases hm
  next => cases hm

/-- every creating command builds an admissible object when both `_hold_ref` calls are made -/
theorem mkObj_admissible {h : Heap} (hw : WF h) (c : Cmd) (hna : c.excluded = false) (x : Obj) (toks : List Nat)
    (hm : mkObj Cfg.full h c = some (x, toks)) : Admissible h x toks := by
  cases c with
  | opAliased a => simp [Cmd.excluded] at hna
  | newArray tok =>
    simp only [mkObj, Option.some.injEq, Prod.mk.injEq] at hm
    obtain ⟨rfl, rfl⟩ := hm
    constructor <;> simp
  | npView o => exact npView_admissible hw o x toks (by simpa [mkObj] using hm)
  | rawField a k =>
    exact view_admissible hw a k x toks (by simpa [mkObj, show Cfg.full.holdOnBaseRoot = true from rfl] using hm)
  | castView r a =>
    exact npView_admissible hw r x toks (by simpa [mkObj, show Cfg.full.holdOnBaseRoot = true from rfl] using hm)
  | mkStorage srcs =>
    simp only [mkObj] at hm
    split at hm
    next hc =>
      simp only [Option.some.injEq, Prod.mk.injEq] at hm
      obtain ⟨rfl, rfl⟩ := hm
      have hall : ∀ s ∈ srcs, Reach h s := by
        intro s hs
        have := List.all_eq_true.mp hc s hs
        simp only [Bool.and_eq_true] at this
        exact contains_reachable hw this.1
      constructor
      · intro r hr; exact hall r (by simpa [Cfg.full] using hr)
      · intro b hb; simp [Cfg.full] at hb
      · simp [Cfg.full]
      · intro b hb
        obtain ⟨s, hs, hbs⟩ := List.mem_flatMap.mp hb
        obtain ⟨w, hp, hwo⟩ := hw.keeps_owner s b hbs
        exact Or.inr ⟨s, by simpa [Cfg.full] using hs, w, hp, hwo⟩
      · intro hk; simp at hk
    next => cases hm
  | mkScipy srcs =>
    simp only [mkObj] at hm
    split at hm
    next hc =>
      simp only [Option.some.injEq, Prod.mk.injEq] at hm
      obtain ⟨rfl, rfl⟩ := hm
      have hall : ∀ s ∈ srcs, Reach h s := by
        intro s hs
        have := List.all_eq_true.mp hc s hs
        simp only [Bool.and_eq_true] at this
        exact contains_reachable hw this.1
      constructor
      · intro r hr; exact hall r hr
      · intro b hb; simp at hb
      · simp
      · intro b hb
        obtain ⟨s, hs, hbs⟩ := List.mem_flatMap.mp hb
        obtain ⟨w, hp, hwo⟩ := hw.keeps_owner s b hbs
        exact Or.inr ⟨s, hs, w, hp, hwo⟩
      · intro hk; simp at hk
    next => cases hm
  | opStorage tk =>
    simp only [mkObj, Option.some.injEq, Prod.mk.injEq] at hm
    obtain ⟨rfl, rfl⟩ := hm
    constructor
    · intro r hr; simp at hr
    · intro b hb
      simp only [List.mem_range'_1] at hb
      exact hb
    · exact List.nodup_range'
    · intro b hb; exact Or.inl hb
    · intro hk; simp at hk
  | mkArray s =>
    simp only [mkObj] at hm
    split at hm
    next hc =>
      simp only [Option.some.injEq, Prod.mk.injEq] at hm
      obtain ⟨rfl, rfl⟩ := hm
      have hr : Reach h s := contains_reachable hw (by simp at hc; simpa using hc.1)
      constructor
      · intro r hr'; simp at hr'; rw [hr']; exact hr
      · intro b hb; simp at hb
      · simp
      · intro b hb; simp at hb
      · intro hk; simp at hk
    next => cases hm
  | view a k => exact view_admissible hw a k x toks (by simpa [mkObj] using hm)
  | alias o => simp [mkObj] at hm
  | drop o => simp [mkObj] at hm
  | finalize o => simp [mkObj] at hm

/-- changing only the program's references to ones that were reachable keeps the invariant -/
theorem roots_WF {h : Heap} (hw : WF h) (roots : List Nat) (hr : ∀ r ∈ roots, Reach h r) :
    WF { h with roots := roots } := by
  have hreach : ∀ o, Reach { h with roots := roots } o → Reach h o := fun o hro => Reach.congr (h := h) (h' := { h with roots := roots }) rfl hr hro
  constructor
  · exact hw.refs_lt
  · intro r hm; exact Reach.lt hw (hr r hm)
  · exact hw.bufs_lt
  · exact hw.cont_len
  · exact hw.own_unique
  · exact hw.owns_nodup
  · exact hw.dead_lt
  · intro o hro; exact hw.reach_alive o (hreach o hro)
  · exact hw.freed_owner
  · exact hw.freed_nodup
  · exact hw.dead_freed
  · intro o b hb
    obtain ⟨w, hp, hwo⟩ := hw.keeps_owner o b hb
    have hp' : Path { h with roots := roots } o w := Path.congr (h := h) (h' := { h with roots := roots }) rfl hp
    exact ⟨w, hp', hwo⟩
  · exact hw.nd_refs

theorem finalize_WF {h : Heap} (hw : WF h) (o : Nat) (hlt : o < h.objs.length) (hnr : ¬ Reach h o)
    (hnd : o ∉ h.dead) : WF { h with dead := o :: h.dead, freed := (h.obj o).owns ++ h.freed } := by
  have hreach : ∀ p, Reach { h with dead := o :: h.dead, freed := (h.obj o).owns ++ h.freed } p → Reach h p :=
    fun p hp => Reach.congr (h := h) (h' := { h with dead := o :: h.dead, freed := (h.obj o).owns ++ h.freed }) rfl (fun r hr => Reach.root hr) hp
  constructor
  · exact hw.refs_lt
  · exact hw.roots_lt
  · exact hw.bufs_lt
  · exact hw.cont_len
  · exact hw.own_unique
  · exact hw.owns_nodup
  · intro p hp
    rcases List.mem_cons.mp hp with h1 | h1
    · rw [h1]; exact hlt
    · exact hw.dead_lt p h1
  · intro p hp hd
    have hp' := hreach p hp
    rcases List.mem_cons.mp hd with h1 | h1
    · exact hnr (h1 ▸ hp')
    · exact hw.reach_alive p hp' h1
  · intro b hb
    rcases List.mem_append.mp hb with h1 | h1
    · exact ⟨o, List.mem_cons_self, h1⟩
    · obtain ⟨w, hwd, hwo⟩ := hw.freed_owner b h1
      exact ⟨w, List.mem_cons_of_mem _ hwd, hwo⟩
  · show ((h.obj o).owns ++ h.freed).Nodup
    rw [List.nodup_append]
    refine ⟨hw.owns_nodup o, hw.freed_nodup, ?_⟩
    intro a ha b hb hab
    obtain ⟨w, hwd, hwo⟩ := hw.freed_owner b hb
    have : o = w := hw.own_unique o w a ha (hab ▸ hwo)
    exact hnd (this ▸ hwd)
  · intro w hwd b hb
    show b ∈ (h.obj o).owns ++ h.freed
    rcases List.mem_cons.mp hwd with h1 | h1
    · rw [h1] at hb; exact List.mem_append_left _ hb
    · exact List.mem_append_right _ (hw.dead_freed w h1 b hb)
  · intro p b hb
    obtain ⟨w, hp, hwo⟩ := hw.keeps_owner p b hb
    have hp' : Path { h with dead := o :: h.dead, freed := (h.obj o).owns ++ h.freed } p w :=
      Path.congr (h := h) (h' := { h with dead := o :: h.dead, freed := (h.obj o).owns ++ h.freed }) rfl hp
    exact ⟨w, hp', hwo⟩
  · exact hw.nd_refs

theorem step_WF {h h' : Heap} (hw : WF h) (c : Cmd) (hna : c.excluded = false)
    (hs : step Cfg.full h c = some h') : WF h' := by
  have hpush : ∀ c', c'.excluded = false → (mkObj Cfg.full h c').map (fun p => h.push p.1 p.2) = some h' → WF h' := by
    intro c' hna' hm
    cases hmk : mkObj Cfg.full h c' with
    | none => rw [hmk] at hm; cases hm
    | some p =>
      rw [hmk] at hm
      simp only [Option.map_some, Option.some.injEq] at hm
      rw [← hm]
      exact push_WF hw (mkObj_admissible hw c' hna' p.1 p.2 hmk)
  cases c with
  | alias o =>
    simp only [step] at hs
    split at hs
    next hc =>
      simp only [Option.some.injEq] at hs
      rw [← hs]
      refine roots_WF hw _ ?_
      intro r hr
      rcases List.mem_cons.mp hr with h1 | h1
      · rw [h1]; exact contains_reachable hw hc
      · exact Reach.root h1
    next => cases hs
  | drop o =>
    simp only [step] at hs
    split at hs
    next =>
      simp only [Option.some.injEq] at hs
      rw [← hs]
      exact roots_WF hw _ (fun r hr => Reach.root (List.mem_of_mem_erase hr))
    next => cases hs
  | finalize o =>
    simp only [step] at hs
    split at hs
    next hc =>
      simp only [Option.some.injEq] at hs
      rw [← hs]
      simp only [Bool.and_eq_true, decide_eq_true_eq, Bool.not_eq_true', List.contains_eq_mem,
        decide_eq_false_iff_not] at hc
      exact finalize_WF hw o hc.1.1 (fun hr => hc.1.2 ((mem_reachable_iff hw o).mpr hr)) hc.2
    next => cases hs
  | newArray tok => exact hpush (.newArray tok) rfl hs
  | npView o => exact hpush (.npView o) rfl hs
  | mkStorage srcs => exact hpush (.mkStorage srcs) rfl hs
  | mkScipy srcs => exact hpush (.mkScipy srcs) rfl hs
  | opStorage toks => exact hpush (.opStorage toks) rfl hs
  | mkArray s => exact hpush (.mkArray s) rfl hs
  | view a k => exact hpush (.view a k) rfl hs
  | opAliased a => simp [Cmd.excluded] at hna
  | rawField a k => exact hpush (.rawField a k) rfl hs
  | castView r a => exact hpush (.castView r a) rfl hs

theorem run_WF : ∀ {h h' : Heap} (cs : List Cmd), ExcludedHistory cs = false → WF h → run Cfg.full h cs = some h' → WF h'
  | h, h', [], _, hw, hr => by simp only [run, Option.some.injEq] at hr; rw [← hr]; exact hw
  | h, h', c :: cs, hex, hw, hr => by
    simp only [ExcludedHistory, List.any_cons, Bool.or_eq_false_iff] at hex
    simp only [run] at hr
    cases hs : step Cfg.full h c with
    | none => rw [hs] at hr; cases hr
    | some h1 =>
      rw [hs] at hr
      exact run_WF cs hex.2 (step_WF hw c hex.1 hs) hr


/-! ### the two kinds of storage, the views of each, and who can own a buffer -/

/-- structural facts fixed when an object is created (objects are immutable): a view is a view OF a storage and addresses
one of its fields; an OWNING storage is the allocation of its fields; a NON-OWNING storage owns nothing and every field
points into one of the source arrays it references; only a NumPy array that allocated its buffer and an owning storage
own anything -/
structure Shape (h : Heap) : Prop where
  view_of : ∀ v, (h.obj v).kind = .view → ∃ s, (h.obj v).refs = [s] ∧ s < v ∧ (h.obj s).kind = .storage ∧
      ∀ b ∈ (h.obj v).bufs, b ∈ (h.obj s).bufs
  owning : ∀ s, (h.obj s).kind = .storage → (h.obj s).om = true → (h.obj s).owns = (h.obj s).bufs
  nonowning : ∀ s, (h.obj s).kind = .storage → (h.obj s).om = false →
      (h.obj s).owns = [] ∧ ∀ b ∈ (h.obj s).bufs, ∃ r ∈ (h.obj s).refs, r < s ∧ b ∈ (h.obj r).bufs
  owner_kind : ∀ w b, b ∈ (h.obj w).owns →
      ((h.obj w).kind = .ndarray ∧ (h.obj w).refs = []) ∨ ((h.obj w).kind = .storage ∧ (h.obj w).om = true)
  array_of : ∀ a, (h.obj a).kind = .array → ∀ s, (h.obj a).refs = [s] → s < a ∧ (h.obj s).kind = .storage

theorem Shape.empty : Shape Heap.empty := by
  have hn : ∀ o, Heap.empty.obj o = Obj.nil := fun o => obj_nil_of_ge _ o (Nat.zero_le _)
  constructor <;> intros <;> simp_all [Obj.nil]

theorem Shape.congr {h h' : Heap} (ho : h'.objs = h.objs) (hs : Shape h) : Shape h' := by
  have e : ∀ o, h'.obj o = h.obj o := fun o => by simp [Heap.obj, ho]
  constructor
  · intro v hv; simpa [e] using hs.view_of v (by simpa [e] using hv)
  · intro s h1 h2; simpa [e] using hs.owning s (by simpa [e] using h1) (by simpa [e] using h2)
  · intro s h1 h2; simpa [e] using hs.nonowning s (by simpa [e] using h1) (by simpa [e] using h2)
  · intro w b hb; simpa [e] using hs.owner_kind w b (by simpa [e] using hb)
  · intro a ha s hr; simpa [e] using hs.array_of a (by simpa [e] using ha) s (by simpa [e] using hr)

/-- what a new object has to satisfy for `Shape` -/
structure ShapeOk (h : Heap) (x : Obj) : Prop where
  view_of : x.kind = .view → ∃ s, x.refs = [s] ∧ s < h.objs.length ∧ (h.obj s).kind = .storage ∧ ∀ b ∈ x.bufs, b ∈ (h.obj s).bufs
  owning : x.kind = .storage → x.om = true → x.owns = x.bufs
  nonowning : x.kind = .storage → x.om = false →
      x.owns = [] ∧ ∀ b ∈ x.bufs, ∃ r ∈ x.refs, r < h.objs.length ∧ b ∈ (h.obj r).bufs
  owner_kind : ∀ b ∈ x.owns, (x.kind = .ndarray ∧ x.refs = []) ∨ (x.kind = .storage ∧ x.om = true)
  array_of : x.kind = .array → ∀ s, x.refs = [s] → s < h.objs.length ∧ (h.obj s).kind = .storage

theorem push_Shape {h : Heap} (hs : Shape h) {x : Obj} {toks : List Nat} (hx : ShapeOk h x) : Shape (h.push x toks) := by
  constructor
  · intro v hv
    rcases push_cases h x toks v with ⟨hl, he⟩ | ⟨hl, he⟩ | ⟨_, he⟩ <;> rw [he] at hv ⊢
    · obtain ⟨s, h1, h2, h3, h4⟩ := hs.view_of v hv
      exact ⟨s, h1, h2, by rw [obj_of_lt h s x toks (Nat.lt_trans h2 hl)]; exact h3,
             by rw [obj_of_lt h s x toks (Nat.lt_trans h2 hl)]; exact h4⟩
    · obtain ⟨s, h1, h2, h3, h4⟩ := hx.view_of hv
      exact ⟨s, h1, hl ▸ h2, by rw [obj_of_lt h s x toks h2]; exact h3, by rw [obj_of_lt h s x toks h2]; exact h4⟩
    · simp [Obj.nil] at hv
  · intro s h1 h2
    rcases push_cases h x toks s with ⟨_, he⟩ | ⟨_, he⟩ | ⟨_, he⟩ <;> rw [he] at h1 h2 ⊢
    · exact hs.owning s h1 h2
    · exact hx.owning h1 h2
    · simp [Obj.nil] at h1
  · intro s h1 h2
    rcases push_cases h x toks s with ⟨hl, he⟩ | ⟨hl, he⟩ | ⟨_, he⟩ <;> rw [he] at h1 h2 ⊢
    · obtain ⟨e1, e2⟩ := hs.nonowning s h1 h2
      refine ⟨e1, fun b hb => ?_⟩
      obtain ⟨r, hr, hlt, hbr⟩ := e2 b hb
      exact ⟨r, hr, hlt, by rw [obj_of_lt h r x toks (Nat.lt_trans hlt hl)]; exact hbr⟩
    · obtain ⟨e1, e2⟩ := hx.nonowning h1 h2
      refine ⟨e1, fun b hb => ?_⟩
      obtain ⟨r, hr, hlt, hbr⟩ := e2 b hb
      exact ⟨r, hr, hl ▸ hlt, by rw [obj_of_lt h r x toks hlt]; exact hbr⟩
    · simp [Obj.nil] at h1
  · intro w b hb
    rcases push_cases h x toks w with ⟨_, he⟩ | ⟨_, he⟩ | ⟨_, he⟩ <;> rw [he] at hb ⊢
    · exact hs.owner_kind w b hb
    · exact hx.owner_kind b hb
    · simp [Obj.nil] at hb
  · intro a ha s hr
    rcases push_cases h x toks a with ⟨hl, he⟩ | ⟨hl, he⟩ | ⟨_, he⟩ <;> rw [he] at ha hr
    · obtain ⟨h1, h2⟩ := hs.array_of a ha s hr
      exact ⟨h1, by rw [obj_of_lt h s x toks (Nat.lt_trans h1 hl)]; exact h2⟩
    · obtain ⟨h1, h2⟩ := hx.array_of ha s hr
      exact ⟨hl ▸ h1, by rw [obj_of_lt h s x toks h1]; exact h2⟩
    · simp [Obj.nil] at hr

theorem npView_shapeOk {h : Heap} (o : Nat) (x : Obj) (toks : List Nat)
    (hm : mkNpView h o = some (x, toks)) : ShapeOk h x := by
  simp only [mkNpView] at hm
  split at hm
  next =>
    simp only [Option.some.injEq, Prod.mk.injEq] at hm
    obtain ⟨rfl, rfl⟩ := hm
    constructor <;> simp
  next => cases hm

theorem view_shapeOk {h : Heap} (hw : WF h) (hsh : Shape h) (a k : Nat) (x : Obj) (toks : List Nat)
    (hm : mkView Cfg.full h a k = some (x, toks)) : ShapeOk h x := by
  simp only [mkView] at hm
  split at hm
  next hc =>
    have hra : Reach h a := contains_reachable hw (by simp at hc; simpa using hc.1)
    have hka : (h.obj a).kind = .array := by simp at hc; exact hc.2
    split at hm
    next s hrefs =>
      split at hm
      next b hbk =>
        simp only [Option.some.injEq, Prod.mk.injEq] at hm
        obtain ⟨rfl, rfl⟩ := hm
        have hrs : Reach h s := Reach.step hra (by rw [hrefs]; simp)
        have hbs : b ∈ (h.obj s).bufs := List.mem_of_getElem? hbk
        have hhold : Cfg.full.holdView (h.obj s).om = true := by
          unfold Cfg.holdView; cases (h.obj s).om <;> rfl
        constructor
        · intro _
          refine ⟨s, by simp [hhold], Reach.lt hw hrs, ?_, ?_⟩
          · exact (hsh.array_of a hka s hrefs).2
          · intro b' hb'; simp at hb'; rw [hb']; exact hbs
        · intro hk; simp at hk
        · intro hk; simp at hk
        · intro b' hb'; simp at hb'
        · intro hk; simp at hk
      next => cases hm
    next => cases hm
  next => cases hm

/-- every creating command (the aliasing one included) builds an object of the right shape when every edge is made -/
theorem mkObj_shapeOk {h : Heap} (hw : WF h) (hsh : Shape h) (c : Cmd) (x : Obj) (toks : List Nat)
    (hm : mkObj Cfg.full h c = some (x, toks)) : ShapeOk h x := by
  cases c with
  | newArray tok =>
    simp only [mkObj, Option.some.injEq, Prod.mk.injEq] at hm
    obtain ⟨rfl, rfl⟩ := hm
    constructor <;> simp
  | npView o => exact npView_shapeOk o x toks (by simpa [mkObj] using hm)
  | mkStorage srcs =>
    simp only [mkObj] at hm
    split at hm
    next hc =>
      simp only [Option.some.injEq, Prod.mk.injEq] at hm
      obtain ⟨rfl, rfl⟩ := hm
      have hall : ∀ s ∈ srcs, s < h.objs.length := by
        intro s hs
        have := List.all_eq_true.mp hc s hs
        simp only [Bool.and_eq_true] at this
        exact Reach.lt hw (contains_reachable hw this.1)
      constructor
      · intro hk; simp at hk
      · intro _ hom; simp [Cfg.full] at hom
      · intro _ _
        refine ⟨by simp [Cfg.full], fun b hb => ?_⟩
        obtain ⟨s, hs, hbs⟩ := List.mem_flatMap.mp hb
        exact ⟨s, by simpa [Cfg.full] using hs, hall s hs, hbs⟩
      · intro b hb; simp [Cfg.full] at hb
      · intro hk; simp at hk
    next => cases hm
  | mkScipy srcs =>
    simp only [mkObj] at hm
    split at hm
    next =>
      simp only [Option.some.injEq, Prod.mk.injEq] at hm
      obtain ⟨rfl, rfl⟩ := hm
      constructor <;> simp
    next => cases hm
  | opStorage tk =>
    simp only [mkObj, Option.some.injEq, Prod.mk.injEq] at hm
    obtain ⟨rfl, rfl⟩ := hm
    constructor <;> simp
  | opAliased a =>
    simp only [mkObj] at hm
    split at hm
    next =>
      split at hm
      next s _ =>
        simp only [Option.some.injEq, Prod.mk.injEq] at hm
        obtain ⟨rfl, rfl⟩ := hm
        constructor <;> simp
      next => cases hm
    next => cases hm
  | mkArray s =>
    simp only [mkObj] at hm
    split at hm
    next hc =>
      simp only [Option.some.injEq, Prod.mk.injEq] at hm
      obtain ⟨rfl, rfl⟩ := hm
      have hr : Reach h s := contains_reachable hw (by simp at hc; simpa using hc.1)
      have hk : (h.obj s).kind = .storage := by simp at hc; exact hc.2
      constructor
      · intro hk'; simp at hk'
      · intro hk'; simp at hk'
      · intro hk'; simp at hk'
      · intro b hb; simp at hb
      · intro _ s' hs'
        simp at hs'
        rw [← hs']
        exact ⟨Reach.lt hw hr, hk⟩
    next => cases hm
  | view a k => exact view_shapeOk hw hsh a k x toks (by simpa [mkObj] using hm)
  | rawField a k =>
    exact view_shapeOk hw hsh a k x toks (by simpa [mkObj, show Cfg.full.holdOnBaseRoot = true from rfl] using hm)
  | castView r a =>
    exact npView_shapeOk r x toks (by simpa [mkObj, show Cfg.full.holdOnBaseRoot = true from rfl] using hm)
  | alias o => simp [mkObj] at hm
  | drop o => simp [mkObj] at hm
  | finalize o => simp [mkObj] at hm

theorem step_Shape {h h' : Heap} (hw : WF h) (hsh : Shape h) (c : Cmd) (hs : step Cfg.full h c = some h') : Shape h' := by
  have hpush : ∀ c', (mkObj Cfg.full h c').map (fun p => h.push p.1 p.2) = some h' → Shape h' := by
    intro c' hm
    cases hmk : mkObj Cfg.full h c' with
    | none => rw [hmk] at hm; cases hm
    | some p =>
      rw [hmk] at hm
      simp only [Option.map_some, Option.some.injEq] at hm
      rw [← hm]
      exact push_Shape hsh (mkObj_shapeOk hw hsh c' p.1 p.2 hmk)
  cases c with
  | alias o =>
    simp only [step] at hs
    split at hs
    · simp only [Option.some.injEq] at hs; rw [← hs]; exact Shape.congr (h := h) rfl hsh
    · cases hs
  | drop o =>
    simp only [step] at hs
    split at hs
    · simp only [Option.some.injEq] at hs; rw [← hs]; exact Shape.congr (h := h) rfl hsh
    · cases hs
  | finalize o =>
    simp only [step] at hs
    split at hs
    · simp only [Option.some.injEq] at hs; rw [← hs]; exact Shape.congr (h := h) rfl hsh
    · cases hs
  | newArray tok => exact hpush (.newArray tok) hs
  | npView o => exact hpush (.npView o) hs
  | mkStorage srcs => exact hpush (.mkStorage srcs) hs
  | mkScipy srcs => exact hpush (.mkScipy srcs) hs
  | opStorage toks => exact hpush (.opStorage toks) hs
  | mkArray s => exact hpush (.mkArray s) hs
  | view a k => exact hpush (.view a k) hs
  | opAliased a => exact hpush (.opAliased a) hs
  | rawField a k => exact hpush (.rawField a k) hs
  | castView r a => exact hpush (.castView r a) hs

theorem run_Shape : ∀ {h h' : Heap} (cs : List Cmd), ExcludedHistory cs = false → WF h → Shape h →
    run Cfg.full h cs = some h' → Shape h'
  | h, h', [], _, _, hsh, hr => by simp only [run, Option.some.injEq] at hr; rw [← hr]; exact hsh
  | h, h', c :: cs, hex, hw, hsh, hr => by
    simp only [ExcludedHistory, List.any_cons, Bool.or_eq_false_iff] at hex
    simp only [run] at hr
    cases hs : step Cfg.full h c with
    | none => rw [hs] at hr; cases hr
    | some h1 =>
      rw [hs] at hr
      exact run_Shape cs hex.2 (step_WF hw c hex.1 hs) (step_Shape hw hsh c hs) hr

/-! ### reference counts -/

theorem le_sum_of_mem : ∀ {l : List Nat} {a : Nat}, a ∈ l → a ≤ l.sum
  | x :: l, a, h => by
    rw [List.sum_cons]
    rcases List.mem_cons.mp h with h1 | h1
    · omega
    · have := le_sum_of_mem h1; omega

/-- an object the program can reach has a positive reference count (so CPython does not deallocate it) -/
theorem refcount_pos_of_reach {h : Heap} (hw : WF h) {o : Nat} (hr : Reach h o) : 0 < refcount h o := by
  unfold refcount
  cases hr with
  | root hm =>
    have := List.count_pos_iff.mpr hm
    omega
  | @step p _ hp he =>
    have hlt : p < h.objs.length := Reach.lt hw hp
    have hnd : p ∉ h.dead := hw.reach_alive p hp
    have hmem : (h.obj p).refs.count o ∈
        ((List.range h.objs.length).filter fun p => !h.dead.contains p).map fun p => (h.obj p).refs.count o := by
      refine List.mem_map.mpr ⟨p, List.mem_filter.mpr ⟨List.mem_range.mpr hlt, ?_⟩, rfl⟩
      simpa using hnd
    have h1 := le_sum_of_mem hmem
    have h2 := List.count_pos_iff.mpr he
    omega

/-- a step never changes the contents of an existing buffer (for any configuration) -/
theorem step_frame (cfg : Cfg) {h h' : Heap} (hlen : h.cont.length = h.nbuf) (c : Cmd) (hs : step cfg h c = some h') :
    h'.cont.length = h'.nbuf ∧ h.nbuf ≤ h'.nbuf ∧ ∀ b, b < h.nbuf → h'.cont[b]? = h.cont[b]? := by
  have hpush : ∀ c', (mkObj cfg h c').map (fun p => h.push p.1 p.2) = some h' →
      h'.cont.length = h'.nbuf ∧ h.nbuf ≤ h'.nbuf ∧ ∀ b, b < h.nbuf → h'.cont[b]? = h.cont[b]? := by
    intro c' hm
    cases hmk : mkObj cfg h c' with
    | none => rw [hmk] at hm; cases hm
    | some p =>
      rw [hmk] at hm
      simp only [Option.map_some, Option.some.injEq] at hm
      rw [← hm]
      refine ⟨by simp [Heap.push, hlen], by simp [Heap.push], ?_⟩
      intro b hb
      simp only [Heap.push]
      exact List.getElem?_append_left (by rw [hlen]; exact hb)
  cases c with
  | alias o =>
    simp only [step] at hs
    split at hs
    · simp only [Option.some.injEq] at hs; rw [← hs]; exact ⟨hlen, Nat.le_refl _, fun _ _ => rfl⟩
    · cases hs
  | drop o =>
    simp only [step] at hs
    split at hs
    · simp only [Option.some.injEq] at hs; rw [← hs]; exact ⟨hlen, Nat.le_refl _, fun _ _ => rfl⟩
    · cases hs
  | finalize o =>
    simp only [step] at hs
    split at hs
    · simp only [Option.some.injEq] at hs; rw [← hs]; exact ⟨hlen, Nat.le_refl _, fun _ _ => rfl⟩
    · cases hs
  | newArray tok => exact hpush (.newArray tok) hs
  | npView o => exact hpush (.npView o) hs
  | mkStorage srcs => exact hpush (.mkStorage srcs) hs
  | mkScipy srcs => exact hpush (.mkScipy srcs) hs
  | opStorage toks => exact hpush (.opStorage toks) hs
  | mkArray s => exact hpush (.mkArray s) hs
  | view a k => exact hpush (.view a k) hs
  | opAliased a => exact hpush (.opAliased a) hs
  | rawField a k => exact hpush (.rawField a k) hs
  | castView r a => exact hpush (.castView r a) hs

theorem run_frame (cfg : Cfg) : ∀ {h h' : Heap} (cs : List Cmd), h.cont.length = h.nbuf → run cfg h cs = some h' →
    h'.cont.length = h'.nbuf ∧ h.nbuf ≤ h'.nbuf ∧ ∀ b, b < h.nbuf → h'.cont[b]? = h.cont[b]?
  | h, h', [], hl, hr => by
    simp only [run, Option.some.injEq] at hr; rw [← hr]; exact ⟨hl, Nat.le_refl _, fun _ _ => rfl⟩
  | h, h', c :: cs, hl, hr => by
    simp only [run] at hr
    cases hs : step cfg h c with
    | none => rw [hs] at hr; cases hr
    | some h1 =>
      rw [hs] at hr
      obtain ⟨l1, n1, f1⟩ := step_frame cfg hl c hs
      obtain ⟨l2, n2, f2⟩ := run_frame cfg cs l1 hr
      exact ⟨l2, Nat.le_trans n1 n2, fun b hb => (f2 b (Nat.lt_of_lt_of_le hb n1)).trans (f1 b hb)⟩

end Own
end SparseV

/-
  SparseV.Lemmas.Loops — progress of the `while` loops of `get_slicing_selection` (property C18).
-/
import SparseV.Model.Loops
namespace SparseV
namespace Loops

/-- the first loop: every iteration either stops or advances one of the two cursors, so
`(len(row) - count) + (len(col) - col_count)` steps (plus one to observe the exit) always suffice -/
theorem linLoop_fuel (row col : List Nat) : ∀ (fuel count colCount : Nat) (acc : List (Nat × Nat)),
    (row.length - count) + (col.length - colCount) < fuel → linLoop row col fuel count colCount acc ≠ .outOfFuel
  | 0, _, _, _, h => by omega
  | fuel + 1, count, colCount, acc, h => by
    unfold linLoop
    split
    · rename_i hc
      split
      · split
        · simp
        · split
          · exact linLoop_fuel row col fuel _ _ _ (by omega)
          · split
            · exact linLoop_fuel row col fuel _ _ _ (by omega)
            · exact linLoop_fuel row col fuel _ _ _ (by omega)
      · simp
    · simp

/-- the inner skip loop never moves the cursor backwards -/
theorem skipLoop_ge (row col : List Nat) (size : Nat) : ∀ (fuel colCount : Nat), colCount ≤ skipLoop row col size fuel colCount
  | 0, _ => by simp [skipLoop]
  | fuel + 1, colCount => by
    unfold skipLoop
    split
    · split
      · exact Nat.le_trans (Nat.le_succ _) (skipLoop_ge row col size fuel (colCount + 1))
      · exact Nat.le_refl _
    · exact Nat.le_refl _

/-- the second loop: `col_count += 1` ends every iteration that does not stop, so `len(col) - col_count + 1` steps suffice -/
theorem binLoop_fuel (row col : List Nat) : ∀ (fuel size colCount : Nat) (acc : List (Nat × Nat)),
    col.length - colCount < fuel → binLoop row col fuel size colCount acc ≠ .outOfFuel
  | 0, _, _, _, h => by omega
  | fuel + 1, size, colCount, acc, h => by
    unfold binLoop
    have hge := skipLoop_ge row col size (col.length - colCount) colCount
    split
    · simp only []
      split
      · simp
      · split
        · split
          · simp
          · split
            · simp
            · split
              · simp
              · split
                · split
                  · exact binLoop_fuel row col fuel _ _ _ (by omega)
                  · exact binLoop_fuel row col fuel _ _ _ (by omega)
                · exact binLoop_fuel row col fuel _ _ _ (by omega)
        · simp
    · simp

theorem rowSelection_fuel (indices col : List Nat) (start stop : Nat) :
    rowSelection none indices col start stop ≠ .outOfFuel := by
  unfold rowSelection budget
  simp only [Option.getD_none]
  split
  · exact linLoop_fuel _ _ _ _ _ _ (by omega)
  · exact binLoop_fuel _ _ _ _ _ _ (by omega)

theorem go_fuel (ind c : List Nat) : ∀ (rows : List (Nat × Nat)) (il cs ptr : List Nat) (last : Nat),
    slicingSelection.go none ind c rows il cs ptr last ≠ .outOfFuel
  | [], _, _, _, _ => by simp [slicingSelection.go]
  | (st, en) :: rest, il, cs, ptr, last => by
    unfold slicingSelection.go
    have := rowSelection_fuel ind c st en
    split
    · rename_i h; exact absurd h this
    · simp
    · exact go_fuel ind c rest _ _ _ _

end Loops
end SparseV

/-
  SparseV.Lemmas.Loops — progress of the `while` loops of `get_slicing_selection` (property C18).
-/
import SparseV.Model.Loops
namespace SparseV
namespace Loops

/-- the first loop: every iteration either stops or advances one of the two cursors, so
`(len(row) - count) + (len(col) - col_count)` steps (plus one to observe the exit) always suffice -/
theorem linLoop_fuel (row col : List Nat) : ∀ (fuel count colCount : Nat) (acc : List (Nat × Nat)),
    (row.length - count) + (col.length - colCount) < fuel → linLoop row col fuel count colCount acc ≠ .outOfFuel
  | 0, _, _, _, h => by omega
  | fuel + 1, count, colCount, acc, h => by
    unfold linLoop
    split
    · rename_i hc
      split
      · split
        · simp
        · split
          · exact linLoop_fuel row col fuel _ _ _ (by omega)
          · split
            · exact linLoop_fuel row col fuel _ _ _ (by omega)
            · exact linLoop_fuel row col fuel _ _ _ (by omega)
      · simp
    · simp

/-- the inner skip loop never moves the cursor backwards -/
theorem skipLoop_ge (row col : List Nat) (size : Nat) : ∀ (fuel colCount : Nat), colCount ≤ skipLoop row col size fuel colCount
  | 0, _ => by simp [skipLoop]
  | fuel + 1, colCount => by
    unfold skipLoop
    split
    · split
      · exact Nat.le_trans (Nat.le_succ _) (skipLoop_ge row col size fuel (colCount + 1))
      · exact Nat.le_refl _
    · exact Nat.le_refl _

/-- the second loop: `col_count += 1` ends every iteration that does not stop, so `len(col) - col_count + 1` steps suffice -/
theorem binLoop_fuel (row col : List Nat) : ∀ (fuel size colCount : Nat) (acc : List (Nat × Nat)),
    col.length - colCount < fuel → binLoop row col fuel size colCount acc ≠ .outOfFuel
  | 0, _, _, _, h => by omega
  | fuel + 1, size, colCount, acc, h => by
    unfold binLoop
    have hge := skipLoop_ge row col size (col.length - colCount) colCount
    split
    · simp only []
      split
      · simp
      · split
        · split
          · simp
          · split
            · simp
            · split
              · simp
              · split
                · split
                  · exact binLoop_fuel row col fuel _ _ _ (by omega)
                  · exact binLoop_fuel row col fuel _ _ _ (by omega)
                · exact binLoop_fuel row col fuel _ _ _ (by omega)
        · simp
    · simp

theorem rowSelection_fuel (indices col : List Nat) (start stop : Nat) :
    rowSelection none indices col start stop ≠ .outOfFuel := by
  unfold rowSelection budget
  simp only [Option.getD_none]
  split
  · exact linLoop_fuel _ _ _ _ _ _ (by omega)
  · exact binLoop_fuel _ _ _ _ _ _ (by omega)

theorem go_fuel (ind c : List Nat) : ∀ (rows : List (Nat × Nat)) (il cs ptr : List Nat) (last : Nat),
    slicingSelection.go none ind c rows il cs ptr last ≠ .outOfFuel
  | [], _, _, _, _ => by simp [slicingSelection.go]
  | (st, en) :: rest, il, cs, ptr, last => by
    unfold slicingSelection.go
    have := rowSelection_fuel ind c st en
    split
    · rename_i h; exact absurd h this
    · simp
    · exact go_fuel ind c rest _ _ _ _

theorem linLoop_no_oob (row col : List Nat) : ∀ (fuel count colCount : Nat) (acc : List (Nat × Nat)),
    linLoop row col fuel count colCount acc ≠ .oob
  | 0, _, _, _ => by simp [linLoop]
  | fuel + 1, count, colCount, acc => by
    unfold linLoop
    split
    · rename_i hc
      have hr : row ≠ [] := by intro h; simp [h] at hc
      have hcne : col ≠ [] := by intro h; simp [h] at hc
      split
      · split
        · simp
        · split
          · exact linLoop_no_oob row col fuel _ _ _
          · split
            · exact linLoop_no_oob row col fuel _ _ _
            · exact linLoop_no_oob row col fuel _ _ _
      · rename_i hno
        exfalso
        obtain ⟨rl, hrl⟩ : ∃ rl, row.getLast? = some rl := by
          cases h : row.getLast? with
          | none => exact absurd (List.getLast?_eq_none_iff.mp h) hr
          | some v => exact ⟨v, rfl⟩
        obtain ⟨cl, hcl⟩ : ∃ cl, col.getLast? = some cl := by
          cases h : col.getLast? with
          | none => exact absurd (List.getLast?_eq_none_iff.mp h) hcne
          | some v => exact ⟨v, rfl⟩
        have h3 : row[count]? = some row[count] := List.getElem?_eq_getElem hc.2
        have h4 : col[colCount]? = some col[colCount] := List.getElem?_eq_getElem hc.1
        exact hno _ _ _ _ hrl hcl h3 h4
    · simp

theorem length_takeWhile_le' (p : Nat → Bool) : ∀ (l : List Nat), (l.takeWhile p).length ≤ l.length
  | [] => by simp
  | a :: l => by
    rw [List.takeWhile_cons]
    split
    · simp only [List.length_cons]; have := length_takeWhile_le' p l; omega
    · simp

theorem takeWhile_full {p : Nat → Bool} : ∀ (l : List Nat), (l.takeWhile p).length = l.length → ∀ x ∈ l, p x = true
  | [], _, x, hx => by simp at hx
  | a :: l, h, x, hx => by
    rw [List.takeWhile_cons] at h
    split at h
    · rename_i ha
      simp only [List.length_cons, Nat.add_right_cancel_iff] at h
      rcases List.mem_cons.mp hx with rfl | hx'
      · exact ha
      · exact takeWhile_full l h x hx'
    · simp at h

/-- the second loop never reads outside the row when `col` is strictly ascending (the `is_sorted` guard of `getitem`) -/
theorem binLoop_no_oob (row col : List Nat) (hcol : col.Pairwise (· < ·)) (hrow : row ≠ []) :
    ∀ (fuel size colCount : Nat) (acc : List (Nat × Nat)), size ≤ row.length →
    (size = row.length → ∀ j, colCount ≤ j → (hj : j < col.length) → ∃ rl, row.getLast? = some rl ∧ rl < col[j]) →
    binLoop row col fuel size colCount acc ≠ .oob
  | 0, _, _, _, _, _ => by simp [binLoop]
  | fuel + 1, size, colCount, acc, hsz, hinv => by
    unfold binLoop
    have hge := skipLoop_ge row col size (col.length - colCount) colCount
    obtain ⟨rl, hrl⟩ : ∃ rl, row.getLast? = some rl := by
      cases h : row.getLast? with
      | none => exact absurd (List.getLast?_eq_none_iff.mp h) hrow
      | some v => exact ⟨v, rfl⟩
    split
    · simp only []
      generalize hk : skipLoop row col size (col.length - colCount) colCount = k at hge
      split
      · simp
      · rename_i hklt
        have hklt' : k < col.length := by omega
        have hcne : col ≠ [] := by intro h; simp [h] at hklt'
        obtain ⟨cl, hcl⟩ : ∃ cl, col.getLast? = some cl := by
          cases h : col.getLast? with
          | none => exact absurd (List.getLast?_eq_none_iff.mp h) hcne
          | some v => exact ⟨v, rfl⟩
        have hck : col[k]? = some col[k] := List.getElem?_eq_getElem hklt'
        rw [hrl, hcl, hck]
        simp only []
        split
        · simp
        · rename_i hnlt
          split
          · -- `current_row[size]` past the row: excluded by the invariant
            rename_i hnone
            exfalso
            have hs : size = row.length := by
              have := List.getElem?_eq_none_iff.mp hnone; omega
            obtain ⟨rl', hrl', hlt⟩ := hinv hs k hge hklt'
            rw [hrl] at hrl'; cases hrl'
            exact hnlt hlt
          · rename_i rs hrs
            have hslt : size < row.length := by
              have := (List.getElem?_eq_some_iff.mp hrs).1; exact this
            split
            · simp
            · split
              · rename_i v hv
                have hslt' := (List.getElem?_eq_some_iff.mp hv).1
                split
                · rename_i hveq
                  refine binLoop_no_oob row col hcol hrow fuel _ _ _ (by omega) ?_
                  intro hlast j hj hjl
                  refine ⟨rl, hrl, ?_⟩
                  -- the matched element is the last of the row and equals col[k] < col[j]
                  have hrl2 : rl = v := by
                    have h1 : row.getLast? = row[row.length - 1]? := List.getLast?_eq_getElem?
                    have h2 : row.length - 1 = size + searchsorted (List.drop size row) col[k] := by omega
                    rw [h2, hv, hrl] at h1
                    cases h1; rfl
                  have hlt : col[k] < col[j] := List.pairwise_iff_getElem.mp hcol k j hklt' hjl (by omega)
                  omega
                · exact binLoop_no_oob row col hcol hrow fuel _ _ _ (by omega) (fun h => by omega)
              · -- `s >= current_row.size` cannot happen: the last element would be below col[k]
                rename_i hnone
                exfalso
                have hsge := List.getElem?_eq_none_iff.mp hnone
                have hlen : ((List.drop size row).takeWhile (· < col[k])).length = (List.drop size row).length := by
                  have h1 := length_takeWhile_le' (· < col[k]) (List.drop size row)
                  simp only [searchsorted, List.length_drop] at hsge h1 ⊢
                  omega
                have hall := takeWhile_full _ hlen
                have hmem : rl ∈ List.drop size row := by
                  have : (List.drop size row).getLast? = some rl := by
                    rw [List.getLast?_drop, if_neg (by omega)]; exact hrl
                  exact List.mem_of_getLast? this
                have := hall rl hmem
                simp only [decide_eq_true_eq] at this
                exact hnlt this
    · simp
theorem rowSelection_no_oob (fuel : Option Nat) (indices col : List Nat) (start stop : Nat) (hcol : col.Pairwise (· < ·)) :
    rowSelection fuel indices col start stop ≠ .oob := by
  unfold rowSelection
  simp only []
  split
  · exact linLoop_no_oob _ _ _ _ _ _
  · rename_i hlen
    by_cases hrow : List.drop start (List.take stop indices) = []
    · have hc : col = [] := by
        rw [hrow] at hlen; simp at hlen; exact hlen
      rw [hrow, hc]
      cases hf : fuel.getD (budget [] []) with
      | zero => simp [binLoop]
      | succ n => simp [binLoop]
    · refine binLoop_no_oob _ _ hcol hrow _ _ _ _ (Nat.zero_le _) ?_
      intro h
      exact absurd (List.length_eq_zero_iff.mp h.symm) hrow

theorem go_no_oob (fuel : Option Nat) (ind c : List Nat) (hcol : c.Pairwise (· < ·)) :
    ∀ (rows : List (Nat × Nat)) (il cs ptr : List Nat) (last : Nat),
    slicingSelection.go fuel ind c rows il cs ptr last ≠ .oob
  | [], _, _, _, _ => by simp [slicingSelection.go]
  | (st, en) :: rest, il, cs, ptr, last => by
    unfold slicingSelection.go
    have := rowSelection_no_oob fuel ind c st en hcol
    split
    · simp
    · rename_i h; exact absurd h this
    · exact go_no_oob fuel ind c hcol rest _ _ _ _

end Loops
end SparseV

/-
  SparseV.Lemmas.Cost — size facts of the model operations used by the cost bounds (property C16):
  the shape operations keep the number of stored entries, and a single extent is at most Σ shape.
-/
import SparseV.Model.Cost
namespace SparseV

theorem getD_le_lsum : ∀ (s : List Nat) (c : Nat), s.getD c 0 ≤ lsum s
  | [], c => by simp [lsum]
  | d :: ds, 0 => by simp [lsum]
  | d :: ds, c + 1 => by
    have := getD_le_lsum ds c
    rw [List.getD_cons_succ]
    simp only [lsum]; omega

namespace COO
variable {α : Type}

@[simp] theorem mapIdx_length (f : Idx → Idx) (es : List (Idx × α)) : (mapIdx f es).length = es.length := by
  simp [mapIdx]

@[simp] theorem sortEntries_length (shape : List Nat) (es : List (Idx × α)) : (sortEntries shape es).length = es.length := by
  simp [sortEntries, List.length_mergeSort]

theorem transposeCore_nnz (x : COO α) (axes : List Nat) : (x.transposeCore axes).nnz = x.nnz := by
  unfold transposeCore nnz
  split <;> simp

theorem transposeCore_ndim (x : COO α) (axes : List Nat) (h : axes.length = x.shape.length) :
    (x.transposeCore axes).shape.length = x.shape.length := by
  unfold transposeCore
  split <;> simp [gather, h]

theorem reshapeCore_nnz (x : COO α) (s : List Nat) : (x.reshapeCore s).nnz = x.nnz := by
  unfold reshapeCore nnz
  split <;> simp

theorem reshapeCore_shape (x : COO α) (s : List Nat) : (x.reshapeCore s).shape = s := by
  unfold reshapeCore
  split <;> simp_all

theorem squeezeCore_nnz (x : COO α) (axes : List Nat) : (x.squeezeCore axes).nnz = x.nnz := by
  simp [squeezeCore, nnz]

theorem expandDimsCore_nnz (x : COO α) (p : Nat) : (x.expandDimsCore p).nnz = x.nnz := by
  simp [expandDimsCore, nnz]

theorem insertAt_length (l : List Nat) (p v : Nat) : (insertAt l p v).length = l.length + 1 := by
  simp [insertAt]; omega

end COO
end SparseV

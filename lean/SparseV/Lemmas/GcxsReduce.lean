/-
  SparseV.Lemmas.GcxsReduce — GCXS reductions: `_from_coo`'s kernel yields well-formed arrays; the stored elements with
  recomputed coordinates (`rawCoo`); `change_compressed_axes` and `reshape` keep every value; the row reduction over
  `indptr` is the grouped reduction of the COO model; the refinement statement of `reduceMain`.
-/
import SparseV.Lemmas.GcxsGetitem
import SparseV.Model.GcxsReduce
namespace SparseV
open COO Spec GIx
namespace GCXS

theorem sorted_nodup_lt : ∀ (l : List Nat), l.Pairwise (· ≤ ·) → l.Nodup → l.Pairwise (· < ·)
  | [], _, _ => by simp
  | a :: l, hp, hn => by
    rw [List.pairwise_cons] at hp ⊢
    rw [List.nodup_cons] at hn
    refine ⟨fun b hb => ?_, sorted_nodup_lt l hp.2 hn.2⟩
    have := hp.1 b hb
    have hne : a ≠ b := fun h => hn.1 (h ▸ hb)
    omega

theorem nodup_of_map {β γ : Type} (f : β → γ) : ∀ (l : List β), (l.map f).Nodup → l.Nodup
  | [], _ => by simp
  | a :: l, h => by
    rw [List.map_cons, List.nodup_cons] at h
    rw [List.nodup_cons]
    exact ⟨fun ha => h.1 (List.mem_map.mpr ⟨a, ha, rfl⟩), nodup_of_map f l h.2⟩

/-- **`_from_coo`'s kernel produces a well-formed GCXS array** (for a well-formed duplicate-free COO input and admissible
compressed axes): rows sorted, `indptr` monotone from 0 to nnz. -/
theorem fromCooCore_wf (x : COO Int) (c : List Nat) (hwf : x.WF) (hnd : (keysOf x.entries).Nodup)
    (hne : c ≠ []) (hlen : c.length < x.shape.length) (hpw : c.Pairwise (· < ·)) (hclt : ∀ a ∈ c, a < x.shape.length) :
    (fromCooCore x c).WF := by
  have hcnd : c.Nodup := hpw.imp (fun {a b} hab => by omega)
  have hperm := axisOrder_perm x.shape.length c hcnd hclt
  obtain ⟨_, hsorted, hltq⟩ := csSorted_facts x c hwf hperm
  obtain ⟨_, hkeys, _⟩ := csEs_facts x c hwf hnd hperm
  have hqnd : ((csSorted x c).map (·.1)).Nodup := by
    have : keysOf (csEs x c) = ((csSorted x c).map (·.1)).map fun q => [q / csC x c, q % csC x c] := by
      unfold keysOf csEs
      rw [List.map_map, List.map_map]; rfl
    rw [this] at hkeys
    exact nodup_of_map _ _ hkeys
  have hq := sorted_nodup_lt _ hsorted hqnd
  have hcsr := (indptrOf_csr ((csSorted x c).map (·.1)) ((csSorted x c).map (·.2)) (csR x c) (csC x c) hq
    (fun q hq' => by
      obtain ⟨e, he, rfl⟩ := List.mem_map.mp hq'
      have := hltq e he
      rw [Nat.mul_comm]; exact this) (by simp)).1
  show c ≠ [] ∧ c.length < x.shape.length ∧ c.Pairwise (· < ·) ∧ (∀ a ∈ c, a < x.shape.length) ∧
    CsrWF (csrR x.shape c) (csrC x.shape c) (fromCooCore x c).indptr (fromCooCore x c).indices (fromCooCore x c).data.length
  refine ⟨hne, hlen, hpw, hclt, ?_⟩
  rw [List.map_map, List.map_map] at hcsr
  exact hcsr
/-- the coordinate `_transpose` recomputes for the stored element at `[row, column]` -/
def unflat (shape c : List Nat) (k : Idx) : Idx :=
  gather (unravel (k.getD 0 0 * csrC shape c + k.getD 1 0) (gather shape (axisOrder shape.length c)))
    (invPerm (axisOrder shape.length c))

theorem rawCoo_entries (g : GCXS Int) (c : List Nat) :
    (g.rawCoo c).entries = mapIdx (unflat g.shape c) (csrEntries g.indptr g.indices g.data) := by
  unfold rawCoo csrEntries mapIdx
  rw [List.map_map]
  rfl

/-- **the stored elements of a well-formed GCXS array, with the coordinates `_transpose` recomputes**, form a
well-formed duplicate-free COO array with the same value at every index -/
theorem rawCoo_spec (g : GCXS Int) (c : List Nat) (hc : g.caxes = some c) (hwf : g.WF) :
    (g.rawCoo c).shape = g.shape ∧ (g.rawCoo c).fill = g.fill ∧ (g.rawCoo c).WF ∧
    (keysOf (g.rawCoo c).entries).Nodup ∧ ∀ i, InB i g.shape → (g.rawCoo c).get i = g.tocoo.get i := by
  have hwf' := hwf
  unfold WF at hwf'
  rw [hc] at hwf'
  obtain ⟨_, _, hpw, hclt, hcsr⟩ := hwf'
  have hcnd : c.Nodup := hpw.imp (fun {a b} hab => by omega)
  have hperm := axisOrder_perm g.shape.length c hcnd hclt
  obtain ⟨hplen, _, hpmem⟩ := perm_range_facts_c hperm
  obtain ⟨hin, hnd, _⟩ := csr_facts _ _ _ _ _ hcsr
  have hRC := csrR_mul_csrC g.shape c
  -- `unflat` on in-range `[row, column]` keys
  have hφ : ∀ k, InB k [csrR g.shape c, csrC g.shape c] →
      InB (unflat g.shape c k) g.shape ∧
      gather (unflat g.shape c k) (axisOrder g.shape.length c)
        = unravel (k.getD 0 0 * csrC g.shape c + k.getD 1 0) (gather g.shape (axisOrder g.shape.length c)) ∧
      k.getD 0 0 * csrC g.shape c + k.getD 1 0 < prod (gather g.shape (axisOrder g.shape.length c)) := by
    intro k hk
    obtain ⟨r, cc, rfl, hr, hcc⟩ := InB2 hk
    have hq : r * csrC g.shape c + cc < prod (gather g.shape (axisOrder g.shape.length c)) := by
      rw [← hRC]
      calc r * csrC g.shape c + cc < r * csrC g.shape c + csrC g.shape c := by omega
        _ = (r + 1) * csrC g.shape c := by rw [Nat.add_mul, Nat.one_mul]
        _ ≤ csrR g.shape c * csrC g.shape c := Nat.mul_le_mul_right _ hr
    have hu := unravel_InB _ _ hq
    refine ⟨InB_gather_invPerm hperm hu, ?_, hq⟩
    have hlen := InB_length hu
    rw [gather_length, hplen] at hlen
    exact gather_invPerm_gather_c hperm _ hlen
  have hinj : ∀ a, InB a [csrR g.shape c, csrC g.shape c] → ∀ b, InB b [csrR g.shape c, csrC g.shape c] →
      unflat g.shape c a = unflat g.shape c b → a = b := by
    intro a ha b hb hab
    obtain ⟨_, ga, qa⟩ := hφ a ha
    obtain ⟨_, gb, qb⟩ := hφ b hb
    have h1 : unravel (a.getD 0 0 * csrC g.shape c + a.getD 1 0) (gather g.shape (axisOrder g.shape.length c))
        = unravel (b.getD 0 0 * csrC g.shape c + b.getD 1 0) (gather g.shape (axisOrder g.shape.length c)) := by
      rw [← ga, ← gb, hab]
    have h2 := congrArg (fun u => ravel u (gather g.shape (axisOrder g.shape.length c))) h1
    simp only [ravel_unravel _ _ qa, ravel_unravel _ _ qb] at h2
    obtain ⟨r, cc, rfl, hr, hcc⟩ := InB2 ha
    obtain ⟨r', cc', rfl, hr', hcc'⟩ := InB2 hb
    simp only [List.getD_cons_zero, List.getD_cons_succ] at h2
    have e1 := divmod_of_lt r cc _ hcc
    have e2 := divmod_of_lt r' cc' _ hcc'
    rw [h2] at e1
    have : r = r' := by rw [← e1.1, e2.1]
    have : cc = cc' := by rw [← e1.2, e2.2]
    subst_vars; rfl
  rw [rawCoo_entries]
  refine ⟨rfl, rfl, ?_, ?_, ?_⟩
  · intro e he
    rw [rawCoo_entries] at he
    obtain ⟨e0, he0, rfl⟩ := List.mem_map.mp he
    exact (hφ e0.1 (hin e0 he0)).1
  · have : keysOf (mapIdx (unflat g.shape c) (csrEntries g.indptr g.indices g.data))
        = (keysOf (csrEntries g.indptr g.indices g.data)).map (unflat g.shape c) := by
      unfold keysOf mapIdx
      rw [List.map_map, List.map_map]; rfl
    rw [this]
    apply nodup_map_on _ hnd
    intro a ha b hb hab
    obtain ⟨ea, hea, rfl⟩ := List.mem_map.mp ha
    obtain ⟨eb, heb, rfl⟩ := List.mem_map.mp hb
    exact hinj _ (hin ea hea) _ (hin eb heb) hab
  · intro i hi
    obtain ⟨_, _, _, _, e5⟩ := tocoo_get_entries g c hc hcnd hclt hin hnd
    rw [e5 i hi]
    have hlt := linOf_lt g.shape c hcnd hclt hi
    have hk : InB [linOf g.shape c i / csrC g.shape c, linOf g.shape c i % csrC g.shape c] [csrR g.shape c, csrC g.shape c] := by
      have hCpos : 0 < csrC g.shape c := by
        rcases Nat.eq_zero_or_pos (csrC g.shape c) with h0 | h0
        · rw [h0, Nat.mul_zero] at hlt; omega
        · exact h0
      refine ⟨?_, Nat.mod_lt _ hCpos, trivial⟩
      apply Nat.div_lt_of_lt_mul
      rw [Nat.mul_comm]; exact hlt
    have hi' : unflat g.shape c [linOf g.shape c i / csrC g.shape c, linOf g.shape c i % csrC g.shape c] = i := by
      unfold unflat
      simp only [List.getD_cons_zero, List.getD_cons_succ]
      rw [Nat.div_add_mod']
      unfold linOf
      rw [unravel_ravel (InB_gather_c hi _ (fun a ha => (hpmem a).mp ha))]
      exact gather_gather_invPerm_c hperm i (InB_length hi)
    show lookup (g.rawCoo c).entries g.fill i = _
    rw [rawCoo_entries]
    conv => lhs; rw [← hi']
    apply lookup_mapIdx_inj
    intro e he heq
    exact hinj _ (hin e he) _ hk heq

/-- admissible compressed axes for a rank (`check_compressed_axes`) -/
def CaxesOk (c : List Nat) (n : Nat) : Prop := c ≠ [] ∧ c.length < n ∧ c.Pairwise (· < ·) ∧ ∀ a ∈ c, a < n

theorem fromCooCore_spec (x : COO Int) (c : List Nat) (hwf : x.WF) (hnd : (keysOf x.entries).Nodup)
    (hc : CaxesOk c x.shape.length) :
    (fromCooCore x c).WF ∧ (fromCooCore x c).caxes = some c ∧ (fromCooCore x c).shape = x.shape ∧
    (fromCooCore x c).fill = x.fill ∧ ∀ i, InB i x.shape → (fromCooCore x c).tocoo.get i = x.get i := by
  obtain ⟨h1, h2, h3, h4⟩ := hc
  refine ⟨fromCooCore_wf x c hwf hnd h1 h2 h3 h4, rfl, rfl, rfl, ?_⟩
  exact (tocoo_fromCooCore x c hwf hnd (h3.imp (fun {a b} hab => by omega)) h4).2.2.2.2

/-- **`change_compressed_axes`** keeps the array: the result is well-formed with the new compressed axes, same shape
and fill value, and the same value at every index -/
theorem changeCaxes_spec (g : GCXS Int) (c : List Nat) (hc : g.caxes = some c) (hwf : g.WF) (newc : List Nat)
    (hn : CaxesOk newc g.shape.length) :
    (g.changeCaxes newc).WF ∧ (g.changeCaxes newc).caxes = some newc ∧ (g.changeCaxes newc).shape = g.shape ∧
    (g.changeCaxes newc).fill = g.fill ∧ ∀ i, InB i g.shape → (g.changeCaxes newc).tocoo.get i = g.tocoo.get i := by
  unfold changeCaxes
  rw [hc]
  simp only []
  by_cases h : newc = c
  · rw [if_pos h]
    exact ⟨hwf, by rw [hc, h], rfl, rfl, fun i _ => rfl⟩
  · rw [if_neg h]
    obtain ⟨r1, r2, r3, r4, r5⟩ := rawCoo_spec g c hc hwf
    obtain ⟨f1, f2, f3, f4, f5⟩ := fromCooCore_spec (g.rawCoo c) newc r3 r4 (by rw [r1]; exact hn)
    refine ⟨f1, f2, by rw [f3, r1], by rw [f4, r2], fun i hi => ?_⟩
    rw [f5 i (by rw [r1]; exact hi), r5 i hi]

theorem defaultCaxes_ok (shape : List Nat) (h : 2 ≤ shape.length) : CaxesOk (defaultCaxes shape) shape.length := by
  unfold defaultCaxes
  refine ⟨by simp, by simp; omega, by simp, ?_⟩
  intro a ha
  simp only [List.mem_singleton] at ha
  subst ha
  apply List.idxOf_lt_length_of_mem
  cases hs : shape with
  | nil => rw [hs] at h; simp at h
  | cons d ds =>
    have := foldl_min_mem (d :: ds) d
    simp only [List.getD_cons_zero]
    rcases this with h | h
    · rw [h]; exact List.mem_cons_self
    · exact h

theorem srcCoo_spec (g : GCXS Int) (hwf : g.WF ∨ g.WF1) :
    g.srcCoo.shape = g.shape ∧ g.srcCoo.fill = g.fill ∧ g.srcCoo.WF ∧ (keysOf g.srcCoo.entries).Nodup ∧
    g.tocoo.shape = g.shape ∧ g.tocoo.fill = g.fill ∧
    ∀ i, InB i g.shape → g.srcCoo.get i = g.tocoo.get i := by
  rcases hwf with hwf | hwf
  · cases hc : g.caxes with
    | none => unfold WF at hwf; rw [hc] at hwf; exact absurd hwf (by simp)
    | some c =>
      obtain ⟨r1, r2, r3, r4, r5⟩ := rawCoo_spec g c hc hwf
      obtain ⟨t1, t2, _⟩ := tocoo_get g c hc hwf
      unfold srcCoo
      rw [hc]
      exact ⟨r1, r2, r3, r4, t1, t2, r5⟩
  · obtain ⟨hc, hlen, hd, hs, hlt⟩ := hwf
    obtain ⟨d0, hsh⟩ : ∃ d0, g.shape = [d0] := List.length_eq_one_iff.mp hlen
    have hes_in : ∀ e ∈ ((g.indices.zip g.data).map fun p => ([p.1], p.2)), InB e.1 g.shape := by
      intro e he
      obtain ⟨p, hp, rfl⟩ := List.mem_map.mp he
      have := hlt p.1 (List.of_mem_zip (a := p.1) (b := p.2) hp).1
      rw [hsh] at this ⊢
      exact ⟨by simpa using this, trivial⟩
    have hes_nd := keys_nodup_map_inj (fun a => [a]) (fun a b h => by simpa using h) g.indices g.data hs
    obtain ⟨b1, b2, _, _, b5⟩ := build_good g.shape ((g.indices.zip g.data).map fun p => ([p.1], p.2)) g.fill hes_in hes_nd
    have htc : g.tocoo = COO.build g.shape ((g.indices.zip g.data).map fun p => ([p.1], p.2)) g.fill := by
      unfold tocoo; rw [hc]; simp [hlen]
    unfold srcCoo
    rw [hc]
    refine ⟨rfl, rfl, hes_in, hes_nd, by rw [htc, b1], by rw [htc, b2], fun i _ => ?_⟩
    rw [htc, b5 i]
    rfl

/-- **`reshape` to a shape of rank ≥ 2** (1-d → n-d through `_1d_reshape`, n-d → n-d through `_transpose`): the result is
well-formed, has the new shape and the old fill value, and element `j` is the old element at the same linear location -/
theorem reshapeG_spec (g : GCXS Int) (hwf : g.WF ∨ g.WF1) (shape : List Nat) (hrank : 2 ≤ shape.length)
    (hsize : prod g.shape = prod shape) :
    ((g.reshapeG shape).WF ∨ (g.reshapeG shape).WF1) ∧ (g.reshapeG shape).shape = shape ∧
    (g.reshapeG shape).fill = g.fill ∧ (g.reshapeG shape).tocoo.shape = shape ∧
    (g.reshapeG shape).tocoo.fill = g.fill ∧
    ∀ j, InB j shape → (g.reshapeG shape).tocoo.get j = g.tocoo.get (unravel (ravel j shape) g.shape) := by
  obtain ⟨s1, s2, s3, s4, t1, t2, s5⟩ := srcCoo_spec g hwf
  unfold reshapeG
  by_cases h : g.shape = shape
  · rw [if_pos h]
    refine ⟨hwf, h, rfl, by rw [t1, h], t2, fun j hj => ?_⟩
    rw [h, unravel_ravel hj]
  · rw [if_neg h]
    have hsz : prod g.srcCoo.shape = prod shape := by rw [s1]; exact hsize
    have q1 := reshapeCore_wf g.srcCoo shape s3 hsz
    have q2 := reshapeCore_nodup g.srcCoo shape s3 hsz s4
    obtain ⟨q3, q4⟩ := reshapeCore_shape g.srcCoo shape
    obtain ⟨f1, f2, f3, f4, f5⟩ := fromCooCore_spec (g.srcCoo.reshapeCore shape) (defaultCaxes shape) q1 q2
      (by rw [q3]; exact defaultCaxes_ok shape hrank)
    obtain ⟨u1, u2, _⟩ := tocoo_get _ _ f2 f1
    refine ⟨Or.inl f1, by rw [f3, q3], by rw [f4, q4, s2], by rw [u1, f3, q3], by rw [u2, f4, q4, s2], fun j hj => ?_⟩
    rw [f5 j (by rw [q3]; exact hj), (SparseV.C08.reshape_get g.srcCoo shape s3 hsz j hj).1, s1]
    apply s5
    exact unravel_InB _ _ (by rw [hsize]; exact ravel_lt hj)

end GCXS
/-! ### `reduceat` over `indptr` = grouped reduction of the flat (row, value) list -/

theorem groupRunsAux_absorb (op : Int → Int → Int) (r : Nat) : ∀ (vs : List Int) (acc : Int) (n : Nat) (rest : List (Nat × Int)),
    groupRunsAux op (r, acc, n) (vs.map (fun v => (r, v)) ++ rest) = groupRunsAux op (r, vs.foldl op acc, n + vs.length) rest
  | [], _, _, _ => by simp
  | v :: vs, acc, n, rest => by
    rw [List.map_cons, List.cons_append, groupRunsAux, if_pos rfl, groupRunsAux_absorb op r vs]
    simp only [List.foldl_cons, List.length_cons]
    congr 3
    omega

/-- one (tag, left fold, count) per non-empty block -/
def blockRuns (op : Int → Int → Int) (B : List (Nat × List Int)) : List (Nat × Int × Nat) :=
  B.filterMap fun b => match b.2 with
    | v :: vs => some (b.1, vs.foldl op v, (v :: vs).length)
    | [] => none

def flatBlocks (B : List (Nat × List Int)) : List (Nat × Int) := B.flatMap fun b => b.2.map fun v => (b.1, v)

theorem groupRunsAux_blocks (op : Int → Int → Int) : ∀ (B : List (Nat × List Int)) (r : Nat) (acc : Int) (n : Nat),
    (B.map (·.1)).Pairwise (· < ·) → (∀ b ∈ B, r < b.1) →
    groupRunsAux op (r, acc, n) (flatBlocks B) = (r, acc, n) :: blockRuns op B
  | [], _, _, _, _, _ => by simp [flatBlocks, blockRuns, groupRunsAux]
  | (r', vs') :: B, r, acc, n, hp, hlt => by
    rw [List.map_cons, List.pairwise_cons] at hp
    have hrr : r ≠ r' := by have := hlt (r', vs') List.mem_cons_self; simp only at this; omega
    have hlt' : ∀ b ∈ B, r' < b.1 := fun b hb => hp.1 b.1 (List.mem_map.mpr ⟨b, hb, rfl⟩)
    cases vs' with
    | nil =>
      have e1 : flatBlocks ((r', []) :: B) = flatBlocks B := by simp [flatBlocks]
      have e2 : blockRuns op ((r', []) :: B) = blockRuns op B := by simp [blockRuns]
      rw [e1, e2]
      exact groupRunsAux_blocks op B r acc n hp.2 (fun b hb => Nat.lt_trans (by have := hlt (r', []) List.mem_cons_self; simpa using this) (hlt' b hb))
    | cons v vs =>
      have e1 : flatBlocks ((r', v :: vs) :: B) = (r', v) :: (vs.map (fun w => (r', w)) ++ flatBlocks B) := by
        simp [flatBlocks]
      have e2 : blockRuns op ((r', v :: vs) :: B) = (r', vs.foldl op v, (v :: vs).length) :: blockRuns op B := by
        simp [blockRuns]
      rw [e1, e2, groupRunsAux, if_neg hrr, groupRunsAux_absorb, groupRunsAux_blocks op B r' _ _ hp.2 hlt']
      simp only [List.length_cons]
      congr 4
      omega

theorem groupRuns_blocks (op : Int → Int → Int) : ∀ (B : List (Nat × List Int)), (B.map (·.1)).Pairwise (· < ·) →
    groupRuns op (flatBlocks B) = blockRuns op B
  | [], _ => by simp [flatBlocks, blockRuns, groupRuns]
  | (r', vs') :: B, hp => by
    rw [List.map_cons, List.pairwise_cons] at hp
    have hlt' : ∀ b ∈ B, r' < b.1 := fun b hb => hp.1 b.1 (List.mem_map.mpr ⟨b, hb, rfl⟩)
    cases vs' with
    | nil =>
      have e1 : flatBlocks ((r', []) :: B) = flatBlocks B := by simp [flatBlocks]
      have e2 : blockRuns op ((r', []) :: B) = blockRuns op B := by simp [blockRuns]
      rw [e1, e2]
      exact groupRuns_blocks op B hp.2
    | cons v vs =>
      have e1 : flatBlocks ((r', v :: vs) :: B) = (r', v) :: (vs.map (fun w => (r', w)) ++ flatBlocks B) := by
        simp [flatBlocks]
      have e2 : blockRuns op ((r', v :: vs) :: B) = (r', vs.foldl op v, (v :: vs).length) :: blockRuns op B := by
        simp [blockRuns]
      rw [e1, e2, groupRuns, groupRunsAux_absorb, groupRunsAux_blocks op B r' _ _ hp.2 hlt']
      simp only [List.length_cons]
      congr 3
      omega

theorem filterMap_congr_mem' {β γ : Type} {f g : β → Option γ} : ∀ {l : List β}, (∀ x ∈ l, f x = g x) →
    l.filterMap f = l.filterMap g
  | [], _ => rfl
  | a :: l, h => by
    rw [List.filterMap_cons, List.filterMap_cons, h a List.mem_cons_self,
      filterMap_congr_mem' (fun x hx => h x (List.mem_cons_of_mem _ hx))]

/-- **`_reduce_calc` = the grouped reduction of the COO model.**  On a well-formed CSR triple, the rows that store
something, `ufunc.reduceat(data, indptr[:-1][idx])` and the counts `indptr[1:][idx] - indptr[:-1][idx]` are exactly the
runs of equal row number of the flat entry list with their left folds and lengths (`groupRuns` on `rowList`). -/
theorem reduceRows_eq_groupRuns (op : Int → Int → Int) (R C : Nat) (indptr indices : List Nat) (data : List Int)
    (h : CsrWF R C indptr indices data.length) :
    reduceRows op indptr data R = groupRuns op (rowList (csrEntries indptr indices data)) := by
  have hlenr : ∀ r, r < R → (rowSlice data (indptr.getD r 0) (indptr.getD (r + 1) 0)).length
      = indptr.getD (r + 1) 0 - indptr.getD r 0 := by
    intro r hr
    obtain ⟨_, _, hR, hd, hm, _, _⟩ := h
    have : indptr.getD (r + 1) 0 ≤ indices.length := by
      rw [← hR]; exact mono_le (fun r => indptr.getD r 0) R (r + 1) hm (by omega)
    rw [rowSlice_length, hd, Nat.min_eq_left this]
  have hB : rowList (csrEntries indptr indices data)
      = flatBlocks ((List.range R).map fun r => (r, rowSlice data (indptr.getD r 0) (indptr.getD (r + 1) 0))) := by
    rw [csrEntries_eq_tagRows R C indptr indices data h]
    unfold rowList tagRows flatBlocks
    rw [List.map_flatMap, List.flatMap_map]
    apply flatMap_congr_mem
    intro r hr
    simp only [List.map_map]
    have hsnd : (csrRow indptr indices data r).map (·.2) = rowSlice data (indptr.getD r 0) (indptr.getD (r + 1) 0) := by
      unfold csrRow
      apply List.map_snd_zip
      rw [rowSlice_length, rowSlice_length, h.2.2.2.1]
      exact Nat.le_refl _
    rw [← hsnd, List.map_map]
    rfl
  have hmapid : ((List.range R).map fun r => (r, rowSlice data (indptr.getD r 0) (indptr.getD (r + 1) 0))).map (·.1)
      = List.range R := by
    rw [List.map_map]
    conv => rhs; rw [← List.map_id (List.range R)]
    rfl
  rw [hB, groupRuns_blocks op _ (by rw [hmapid]; exact List.pairwise_lt_range)]
  unfold reduceRows blockRuns
  rw [List.filterMap_map]
  apply filterMap_congr_mem'
  intro r hr
  have hl := hlenr r (List.mem_range.mp hr)
  simp only [Function.comp]
  cases hs : rowSlice data (indptr.getD r 0) (indptr.getD (r + 1) 0) with
  | nil =>
    rw [hs] at hl
    simp only [List.length_nil] at hl
    simp
  | cons v vs =>
    rw [hs] at hl
    simp only [List.length_cons] at hl
    have : indptr.getD (r + 1) 0 - indptr.getD r 0 ≠ 0 := by omega
    simp only [this, ne_eq, not_false_eq_true, if_true, List.length_cons, hl]

/-- the 2-d COO array a well-formed CSR triple stands for -/
def csrCoo (R C : Nat) (indptr indices : List Nat) (data : List Int) (fill : Int) : COO Int :=
  { shape := [R, C], entries := csrEntries indptr indices data, fill := fill }

theorem tagRows_lin (F : Nat → List (Nat × Int)) (R0 C : Nat) : ∀ (R : Nat),
    (∀ r, r < R → ((F r).map (·.1)).Pairwise (· < ·)) → (∀ r, r < R → ∀ e ∈ F r, e.1 < C) →
    (lin [R0, C] (tagRows F R)).Pairwise (· < ·) ∧ ∀ x ∈ lin [R0, C] (tagRows F R), x < R * C
  | 0, _, _ => by simp [tagRows, lin]
  | R + 1, h1, h2 => by
    obtain ⟨ih1, ih2⟩ := tagRows_lin F R0 C R (fun r hr => h1 r (by omega)) (fun r hr => h2 r (by omega))
    have hlast : lin [R0, C] ((F R).map fun e => ([R, e.1], e.2)) = (F R).map fun e => R * C + e.1 := by
      unfold lin
      rw [List.map_map]
      apply List.map_congr_left
      intro e _
      simp [ravel, prod]
    have hsplit : lin [R0, C] (tagRows F (R + 1)) = lin [R0, C] (tagRows F R) ++ (F R).map fun e => R * C + e.1 := by
      rw [← hlast]
      unfold tagRows lin
      rw [List.range_succ, List.flatMap_append, List.map_append]
      simp
    rw [hsplit]
    constructor
    · rw [List.pairwise_append]
      refine ⟨ih1, ?_, ?_⟩
      · have := h1 R (by omega)
        rw [List.pairwise_map] at this ⊢
        exact this.imp (fun {a b} hab => by omega)
      · intro a ha b hb
        obtain ⟨e, he, rfl⟩ := List.mem_map.mp hb
        have := ih2 a ha
        omega
    · intro x hx
      rcases List.mem_append.mp hx with hx | hx
      · have := ih2 x hx
        rw [Nat.add_mul]; omega
      · obtain ⟨e, he, rfl⟩ := List.mem_map.mp hx
        have := h2 R (by omega) e he
        rw [Nat.add_mul]; omega

theorem csrCoo_facts (R C : Nat) (indptr indices : List Nat) (data : List Int) (fill : Int)
    (h : CsrWF R C indptr indices data.length) :
    (csrCoo R C indptr indices data fill).WF ∧
    SortedLin (csrCoo R C indptr indices data fill).shape (csrCoo R C indptr indices data fill).entries ∧
    ∀ r c, r < R → (csrCoo R C indptr indices data fill).get [r, c] = rowGet (csrRow indptr indices data r) fill c := by
  obtain ⟨hin, _, hlk⟩ := csr_facts R C indptr indices data h
  refine ⟨hin, ?_, fun r c hr => ?_⟩
  · show SortedLin [R, C] (csrEntries indptr indices data)
    rw [csrEntries_eq_tagRows R C indptr indices data h]
    refine (tagRows_lin _ R C R (fun r hr => ?_) (fun r hr e he => ?_)).1
    · rw [csrRow_fst R C indptr indices data h]; exact h.2.2.2.2.2.1 r hr
    · have : e.1 ∈ (csrRow indptr indices data r).map (·.1) := List.mem_map.mpr ⟨e, he, rfl⟩
      rw [csrRow_fst R C indptr indices data h] at this
      exact h.2.2.2.2.2.2 _ (mem_rowSlice this)
  · show lookup (csrEntries indptr indices data) fill [r, c] = _
    rw [hlk, if_pos hr]

namespace GCXS

/-- **`_reduce_return`'s 1-d array is the COO model's row reduction** of the 2-d array the CSR triple stands for -/
theorem reduceOut1_srcCoo (op : RedOp) (fill : Int) (x : GCXS Int) (R C : Nat)
    (h : CsrWF R C x.indptr x.indices x.data.length) :
    (reduceOut1 op fill x R C).srcCoo = rowReduce op (csrCoo R C x.indptr x.indices x.data fill) fill := by
  unfold reduceOut1 rowReduce srcCoo
  simp only []
  rw [reduceRows_eq_groupRuns op.ap R C x.indptr x.indices x.data h]
  have hrl : (csrCoo R C x.indptr x.indices x.data fill).entries.map (fun e => (e.1.getD 0 0, e.2))
      = rowList (csrEntries x.indptr x.indices x.data) := rfl
  rw [hrl]
  have hC : (csrCoo R C x.indptr x.indices x.data fill).shape.getD 1 0 = C := rfl
  have hR : (csrCoo R C x.indptr x.indices x.data fill).shape.getD 0 0 = R := rfl
  rw [hC, hR]
  cases op.super? with
  | none =>
    simp only [COO.build, Bool.false_eq_true, if_false, if_true, pruneEntries]
    congr 1
    rw [zip_map_fst_snd]
    simp only [List.filter_map]
    rfl
  | some sup =>
    simp only [COO.build, Bool.false_eq_true, if_false, if_true, pruneEntries]
    congr 1
    rw [zip_map_fst_snd]
    simp only [List.filter_map]
    rfl

theorem filterMap_key_sublist {β : Type} (f : Nat → Option β) (key : β → Nat) (hk : ∀ x y, f x = some y → key y = x) :
    ∀ (l : List Nat), ((l.filterMap f).map key).Sublist l
  | [] => by simp
  | a :: l => by
    rw [List.filterMap_cons]
    cases h : f a with
    | none => exact (filterMap_key_sublist f key hk l).cons a
    | some y =>
      simp only [List.map_cons]
      rw [hk a y h]
      exact (filterMap_key_sublist f key hk l).cons_cons a

theorem reduceRows_keys (op : Int → Int → Int) (indptr : List Nat) (data : List Int) (R : Nat) :
    ((reduceRows op indptr data R).map (·.1)).Sublist (List.range R) := by
  unfold reduceRows
  apply filterMap_key_sublist
  intro x y h
  simp only at h
  split at h
  · split at h
    · simp only [Option.some.injEq] at h; rw [← h]
    · cases h
  · cases h

/-- `_reduce_return`'s 1-d array is well-formed: strictly increasing in-range positions, one value each -/
theorem reduceOut1_wf1 (op : RedOp) (fill : Int) (x : GCXS Int) (R C : Nat) : (reduceOut1 op fill x R C).WF1 := by
  have hkeys := reduceRows_keys op.ap x.indptr x.data R
  unfold reduceOut1
  simp only []
  have hsub : ∀ (df : List (Nat × Int) × Int), df.1.map (·.1) = (reduceRows op.ap x.indptr x.data R).map (·.1) →
      (({ shape := [R], caxes := none, indptr := [], indices := (df.1.filter fun p => p.2 ≠ df.2).map (·.1),
          data := (df.1.filter fun p => p.2 ≠ df.2).map (·.2), fill := df.2 } : GCXS Int)).WF1 := by
    intro df hdf
    have hs : ((df.1.filter fun p => p.2 ≠ df.2).map (·.1)).Sublist (List.range R) := by
      refine List.Sublist.trans ?_ hkeys
      rw [← hdf]
      exact List.Sublist.map _ List.filter_sublist
    refine ⟨rfl, rfl, by simp, List.pairwise_lt_range.sublist hs, fun c hc => ?_⟩
    exact List.mem_range.mp (hs.subset hc)
  cases op.super? with
  | none => exact hsub _ (by simp [List.map_map, Function.comp])
  | some sup => exact hsub _ (by simp [List.map_map, Function.comp])

theorem view_list (shape c : List Nat) :
    csrR shape c = prod (gather shape c) ∧ csrC shape c = prod (gather shape (restAxes shape.length c)) ∧
    ∀ i : Idx, linOf shape c i = ravel (gather i c ++ gather i (restAxes shape.length c))
      (gather shape c ++ gather shape (restAxes shape.length c)) := by
  have hg : ∀ xs : List Nat, gather xs (axisOrder shape.length c) = gather xs c ++ gather xs (restAxes shape.length c) := by
    intro xs; simp [gather, axisOrder]
  refine ⟨?_, ?_, fun i => ?_⟩
  · unfold csrR; rw [hg, List.take_left' (gather_length _ _)]
  · unfold csrC; rw [hg, List.drop_left' (gather_length _ _)]
  · unfold linOf; rw [hg, hg]

/-- the kept axes of a reduction over a non-empty proper subset of the axes are admissible compressed axes -/
theorem kept_ok (n : Nat) (axes : List Nat) (hne : ∃ a ∈ axes, a < n)
    (hk : (List.range n).filter (fun a => !axes.contains a) ≠ []) :
    CaxesOk ((List.range n).filter fun a => !axes.contains a) n := by
  refine ⟨hk, ?_, List.pairwise_lt_range.sublist List.filter_sublist, fun a ha => List.mem_range.mp (List.mem_filter.mp ha).1⟩
  obtain ⟨a, ha, han⟩ := hne
  have hle := List.length_filter_le (fun a => !axes.contains a) (List.range n)
  rw [List.length_range] at hle
  rcases Nat.lt_or_eq_of_le hle with h | h
  · exact h
  · exfalso
    have hall := List.length_filter_eq_length_iff.mp (by rw [List.length_range]; exact h)
    have := hall a (List.mem_range.mpr han)
    simp only [Bool.not_eq_true'] at this
    have hc : axes.contains a = true := by simpa using ha
    rw [hc] at this
    cases this

/-- **Lifting the row reduction to `reduce` on an n-d GCXS array** (`keepdims=False`, a non-empty proper subset of
the axes, an admissible ufunc): `change_compressed_axes(kept)`, `_reduce_calc`, the fill correction, `_reduce_return`
and the reshape produce an array `out` of the kept shape whose element `j` is element `ravel j` of the COO model's row
reduction of a canonical 2-d array `a` — and `a[ravel j, ravel r]` is `g`'s element with kept coordinates `j` and reduced
coordinates `r`. -/
theorem reduceMain_lift (op : RedOp) (g : GCXS Int) (hwf : g.WF) (axes : List Nat)
    (hadm : ¬ (op.ap g.fill g.fill ≠ g.fill ∧ op.super?.isNone))
    (hemp : ¬ (op.super?.isNone ∧ axes.any (fun a => g.shape.getD a 0 == 0) = true))
    (hne : ∃ a ∈ axes, a < g.shape.length)
    (hk : (List.range g.shape.length).filter (fun a => !axes.contains a) ≠ []) :
    ∃ (out : GCXS Int) (a : COO Int),
      g.reduceMain op axes false = .ok (.arr out) ∧ (out.WF ∨ out.WF1) ∧
      out.tocoo.shape = gather g.shape ((List.range g.shape.length).filter fun a => !axes.contains a) ∧
      out.tocoo.fill = (rowReduce op a g.fill).fill ∧
      a.shape = [prod (gather g.shape ((List.range g.shape.length).filter fun a => !axes.contains a)),
        prod (gather g.shape (restAxes g.shape.length ((List.range g.shape.length).filter fun a => !axes.contains a)))] ∧
      a.WF ∧ SortedLin a.shape a.entries ∧ a.fill = g.fill ∧
      (∀ j, InB j (gather g.shape ((List.range g.shape.length).filter fun a => !axes.contains a)) →
        out.tocoo.get j = (rowReduce op a g.fill).get
          [ravel j (gather g.shape ((List.range g.shape.length).filter fun a => !axes.contains a))]) ∧
      (∀ j r, InB j (gather g.shape ((List.range g.shape.length).filter fun a => !axes.contains a)) →
        InB r (gather g.shape (restAxes g.shape.length ((List.range g.shape.length).filter fun a => !axes.contains a))) →
        a.get [ravel j (gather g.shape ((List.range g.shape.length).filter fun a => !axes.contains a)),
               ravel r (gather g.shape (restAxes g.shape.length ((List.range g.shape.length).filter fun a => !axes.contains a)))]
          = g.tocoo.get (gather (j ++ r) (invPerm (((List.range g.shape.length).filter fun a => !axes.contains a) ++
              restAxes g.shape.length ((List.range g.shape.length).filter fun a => !axes.contains a))))) := by
  generalize hkept : (List.range g.shape.length).filter (fun a => !axes.contains a) = kept at *
  have hkok : CaxesOk kept g.shape.length := by rw [← hkept]; exact kept_ok _ axes hne (by rw [hkept]; exact hk)
  cases hc : g.caxes with
  | none => unfold WF at hwf; rw [hc] at hwf; exact absurd hwf (by simp)
  | some c =>
  obtain ⟨x1, x2, x3, x4, x5⟩ := changeCaxes_spec g c hc hwf kept hkok
  obtain ⟨hR, hC, hlin⟩ := view_list g.shape kept
  have hxcsr : CsrWF (csrR g.shape kept) (csrC g.shape kept) (g.changeCaxes kept).indptr (g.changeCaxes kept).indices
      (g.changeCaxes kept).data.length := by
    have := x1
    unfold WF at this
    rw [x2, x3] at this
    exact this.2.2.2.2
  obtain ⟨a1, a2, a3⟩ := csrCoo_facts _ _ _ _ _ g.fill hxcsr
  have hsrc := reduceOut1_srcCoo op g.fill (g.changeCaxes kept) _ _ hxcsr
  have hwf1 := reduceOut1_wf1 op g.fill (g.changeCaxes kept) (csrR g.shape kept) (csrC g.shape kept)
  obtain ⟨s1, s2, s3, s4, t1, t2, s5⟩ := srcCoo_spec _ (Or.inr hwf1)
  have hshape1 : (reduceOut1 op g.fill (g.changeCaxes kept) (csrR g.shape kept) (csrC g.shape kept)).shape
      = [csrR g.shape kept] := by
    unfold reduceOut1; rfl
  have hfill1 : (reduceOut1 op g.fill (g.changeCaxes kept) (csrR g.shape kept) (csrC g.shape kept)).fill
      = (rowReduce op (csrCoo (csrR g.shape kept) (csrC g.shape kept) (g.changeCaxes kept).indptr
          (g.changeCaxes kept).indices (g.changeCaxes kept).data g.fill) g.fill).fill := by
    rw [← hsrc, s2]
  -- the value of `out1` at a row number
  have hout1 : ∀ ρ, ρ < csrR g.shape kept →
      (reduceOut1 op g.fill (g.changeCaxes kept) (csrR g.shape kept) (csrC g.shape kept)).tocoo.get [ρ]
        = (rowReduce op (csrCoo (csrR g.shape kept) (csrC g.shape kept) (g.changeCaxes kept).indptr
          (g.changeCaxes kept).indices (g.changeCaxes kept).data g.fill) g.fill).get [ρ] := by
    intro ρ hρ
    rw [← s5 [ρ] (by rw [hshape1]; exact ⟨hρ, trivial⟩), hsrc]
  have hperm : (kept ++ restAxes g.shape.length kept).Perm (List.range g.shape.length) :=
    axisOrder_perm g.shape.length kept (hkok.2.2.1.imp (fun {a b} hab => by omega)) hkok.2.2.2
  -- the reshape of `_reduce_return`
  have hre : (((reduceOut1 op g.fill (g.changeCaxes kept) (csrR g.shape kept) (csrC g.shape kept)).reshapeG (gather g.shape kept)).WF ∨
        ((reduceOut1 op g.fill (g.changeCaxes kept) (csrR g.shape kept) (csrC g.shape kept)).reshapeG (gather g.shape kept)).WF1) ∧
      ((reduceOut1 op g.fill (g.changeCaxes kept) (csrR g.shape kept) (csrC g.shape kept)).reshapeG (gather g.shape kept)).tocoo.shape
        = gather g.shape kept ∧
      ((reduceOut1 op g.fill (g.changeCaxes kept) (csrR g.shape kept) (csrC g.shape kept)).reshapeG (gather g.shape kept)).tocoo.fill
        = (reduceOut1 op g.fill (g.changeCaxes kept) (csrR g.shape kept) (csrC g.shape kept)).fill ∧
      ∀ j, InB j (gather g.shape kept) →
        ((reduceOut1 op g.fill (g.changeCaxes kept) (csrR g.shape kept) (csrC g.shape kept)).reshapeG (gather g.shape kept)).tocoo.get j
          = (reduceOut1 op g.fill (g.changeCaxes kept) (csrR g.shape kept) (csrC g.shape kept)).tocoo.get
              [ravel j (gather g.shape kept)] := by
    generalize hout1def : reduceOut1 op g.fill (g.changeCaxes kept) (csrR g.shape kept) (csrC g.shape kept) = out1 at *
    by_cases hrank : 2 ≤ (gather g.shape kept).length
    · obtain ⟨r1, _, _, r4, r5, r6⟩ := reshapeG_spec out1 (Or.inr hwf1) _ hrank (by rw [hshape1, ← hR]; simp [prod])
      refine ⟨r1, r4, r5, fun j hj => ?_⟩
      rw [r6 j hj, hshape1]
      simp [unravel, prod]
    · have hlen1 : (gather g.shape kept).length = 1 := by
        have : kept.length ≠ 0 := fun h => hkok.1 (List.length_eq_zero_iff.mp h)
        rw [gather_length] at hrank ⊢
        omega
      obtain ⟨d, hd⟩ := List.length_eq_one_iff.mp hlen1
      have hsame : out1.shape = gather g.shape kept := by
        rw [hshape1, hR, hd]; simp [prod]
      have hres : out1.reshapeG (gather g.shape kept) = out1 := by
        unfold reshapeG; rw [if_pos hsame]
      rw [hres]
      refine ⟨Or.inr hwf1, by rw [t1, hsame], t2, fun j hj => ?_⟩
      rw [hd] at hj ⊢
      cases j with
      | nil => simp at hj
      | cons t ts =>
        cases ts with
        | cons _ _ => simp at hj
        | nil => simp [ravel, prod]
  unfold reduceMain
  rw [if_neg hadm]
  simp only []
  rw [if_neg hemp, hkept]
  simp only [Bool.false_eq_true, if_false]
  have hks : (kept.map fun d => g.shape.getD d 0) = gather g.shape kept := rfl
  rw [hks]
  refine ⟨_, csrCoo (csrR g.shape kept) (csrC g.shape kept) (g.changeCaxes kept).indptr
    (g.changeCaxes kept).indices (g.changeCaxes kept).data g.fill, rfl, hre.1, hre.2.1, by rw [hre.2.2.1, hfill1],
    by rw [← hR, ← hC]; rfl, a1, a2, rfl, ?_, ?_⟩
  · intro j hj
    rw [hre.2.2.2 j hj]
    exact hout1 _ (by rw [hR]; exact ravel_lt hj)
  · intro j r hj hr
    have hjr : InB (j ++ r) (gather g.shape (kept ++ restAxes g.shape.length kept)) := by
      have : gather g.shape (kept ++ restAxes g.shape.length kept)
          = gather g.shape kept ++ gather g.shape (restAxes g.shape.length kept) := by simp [gather]
      rw [this]
      exact (InB_append _ _ _ _ (by rw [InB_length hj])).mpr ⟨hj, hr⟩
    have hi : InB (gather (j ++ r) (invPerm (kept ++ restAxes g.shape.length kept))) g.shape :=
      InB_gather_invPerm hperm hjr
    have hgi : gather (gather (j ++ r) (invPerm (kept ++ restAxes g.shape.length kept))) (kept ++ restAxes g.shape.length kept)
        = j ++ r := gather_invPerm_gather_c hperm _ (by rw [InB_length hjr, gather_length, (perm_range_facts_c hperm).1])
    have hsplit : gather (gather (j ++ r) (invPerm (kept ++ restAxes g.shape.length kept))) kept ++
        gather (gather (j ++ r) (invPerm (kept ++ restAxes g.shape.length kept))) (restAxes g.shape.length kept) = j ++ r := by
      have hga : ∀ v : List Nat, gather v kept ++ gather v (restAxes g.shape.length kept)
          = gather v (kept ++ restAxes g.shape.length kept) := fun v => by simp [gather]
      rw [hga]; exact hgi
    rw [← x5 _ hi, (tocoo_get _ kept x2 x1).2.2.2.2 _ (by rw [x3]; exact hi), x3, x4, hlin, hsplit,
      ravel_append j _ (InB_length hj), hC]
    obtain ⟨e1, e2⟩ := divmod_of_lt (ravel j (gather g.shape kept)) (ravel r (gather g.shape (restAxes g.shape.length kept))) _
      (ravel_lt hr)
    rw [e1, e2]
    exact a3 _ _ (by rw [hR]; exact ravel_lt hj)

end GCXS
end SparseV

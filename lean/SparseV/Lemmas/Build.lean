/-
  SparseV.Lemmas.Build — what the COO constructor's passes compute: `_sort_indices` permutes,
  `_sum_duplicates` adds up every run of equal coordinates, `_prune` drops fill-valued entries without
  changing any lookup.  Also the row-major enumeration `allIdx` (for `from_numpy` / `todense`).
-/
import SparseV.Lemmas.Canonical
import SparseV.Model.Convert
namespace SparseV
namespace COO

/-- the sum of all values stored under index `i` -/
def valSum (es : List (Idx × Int)) (i : Idx) : Int :=
  ((es.filter (fun e => e.1 = i)).map (·.2)).sum

theorem valSum_nil (i : Idx) : valSum [] i = 0 := rfl

theorem valSum_cons (e : Idx × Int) (es : List (Idx × Int)) (i : Idx) :
    valSum (e :: es) i = if e.1 = i then e.2 + valSum es i else valSum es i := by
  unfold valSum
  by_cases h : e.1 = i
  · simp [h]
  · simp [h]

theorem valSum_of_not_mem {es : List (Idx × Int)} {i : Idx} (h : i ∉ keysOf es) : valSum es i = 0 := by
  induction es with
  | nil => rfl
  | cons e es ih =>
    simp only [keysOf, List.map_cons, List.mem_cons, not_or] at h
    rw [valSum_cons, if_neg (fun hh => h.1 hh.symm)]
    exact ih h.2

/-- the sum under an index does not depend on storage order -/
theorem valSum_perm {es es' : List (Idx × Int)} (hp : es.Perm es') (i : Idx) : valSum es i = valSum es' i := by
  induction hp with
  | nil => rfl
  | cons x _ ih => rw [valSum_cons, valSum_cons, ih]
  | swap x y l =>
    simp only [valSum_cons]
    by_cases h1 : x.1 = i <;> by_cases h2 : y.1 = i <;> simp only [h1, h2, if_true, if_false] <;> omega
  | trans _ _ ih1 ih2 => rw [ih1, ih2]

theorem mem_keysOf_perm {α : Type} {es es' : List (Idx × α)} (hp : es.Perm es') (i : Idx) :
    i ∈ keysOf es ↔ i ∈ keysOf es' :=
  (List.Perm.map (fun e : Idx × α => e.1) hp).mem_iff

/-- with distinct stored indices the sum under a stored index is the stored value -/
theorem valSum_eq_lookup {es : List (Idx × Int)} (hnd : (keysOf es).Nodup) (d : Int) {i : Idx}
    (hi : i ∈ keysOf es) : valSum es i = lookup es d i := by
  induction es with
  | nil => simp [keysOf] at hi
  | cons e es ih =>
    simp only [keysOf, List.map_cons, List.nodup_cons] at hnd
    rw [valSum_cons, lookup_cons]
    by_cases h : e.1 = i
    · rw [if_pos h, if_pos h]
      have : i ∉ keysOf es := by rw [← h]; exact hnd.1
      rw [valSum_of_not_mem this]; omega
    · rw [if_neg h, if_neg h]
      simp only [keysOf, List.map_cons, List.mem_cons] at hi
      rcases hi with hi | hi
      · exact absurd hi.symm h
      · exact ih hnd.2 hi

/-- **`_sum_duplicates` adds up the runs.**  On a list sorted by linear location whose indices are in
bounds, looking an index up after `sumDup` yields the sum of everything stored under it. -/
theorem sumDup_lookup (shape : List Nat) (es : List (Idx × Int)) (d : Int) (i : Idx)
    (hle : SortedLe shape es) (hwf : ∀ e ∈ es, InB e.1 shape) :
    lookup (sumDup shape es) d i = if i ∈ keysOf es then valSum es i else d := by
  fun_induction sumDup shape es with
  | case1 => simp [keysOf]
  | case2 e =>
    rw [lookup_cons, valSum_cons, valSum_nil]
    by_cases h : e.1 = i
    · simp [keysOf, h]
    · have : ¬ i = e.1 := fun hh => h hh.symm
      simp [keysOf, h, this]
  | case3 e1 e2 rest heq ih =>
    have hk : e1.1 = e2.1 :=
      ravel_inj (hwf e1 List.mem_cons_self) (hwf e2 (List.mem_cons_of_mem _ List.mem_cons_self)) heq
    have hle' : SortedLe shape ((e1.1, e1.2 + e2.2) :: rest) := by
      unfold SortedLe lin at hle ⊢
      simp only [List.map_cons, List.pairwise_cons] at hle ⊢
      exact ⟨fun a ha => hle.1 a (List.mem_cons_of_mem _ ha), hle.2.2⟩
    have hwf' : ∀ e ∈ (e1.1, e1.2 + e2.2) :: rest, InB e.1 shape := by
      intro e he
      rcases List.mem_cons.mp he with h | h
      · rw [h]; exact hwf e1 List.mem_cons_self
      · exact hwf e (List.mem_cons_of_mem _ (List.mem_cons_of_mem _ h))
    rw [ih hle' hwf']
    simp only [valSum_cons, keysOf, List.map_cons, List.mem_cons, ← hk]
    by_cases h : e1.1 = i
    · simp only [h, true_or, if_true]; omega
    · have : ¬ i = e1.1 := fun hh => h hh.symm
      simp only [h, this, false_or, if_false]
  | case4 e1 e2 rest hne ih =>
    have hle' : SortedLe shape (e2 :: rest) := by
      unfold SortedLe lin at hle ⊢
      simp only [List.map_cons, List.pairwise_cons] at hle ⊢
      exact hle.2
    have hwf' : ∀ e ∈ e2 :: rest, InB e.1 shape := fun e he => hwf e (List.mem_cons_of_mem _ he)
    rw [lookup_cons, ih hle' hwf']
    by_cases h : e1.1 = i
    · -- nothing later carries the same index: later linear locations are strictly larger
      have hnot : i ∉ keysOf (e2 :: rest) := by
        intro hm
        obtain ⟨e', he', hk⟩ := List.mem_map.mp hm
        unfold SortedLe lin at hle
        simp only [List.map_cons, List.pairwise_cons, List.mem_cons] at hle
        have h12 : ravel e1.1 shape ≤ ravel e2.1 shape := hle.1 _ (Or.inl rfl)
        have hr : ravel e'.1 shape = ravel e1.1 shape := by rw [hk, h]
        rcases List.mem_cons.mp he' with h' | h'
        · rw [h'] at hr; omega
        · have := hle.2.1 _ (List.mem_map.mpr ⟨e', h', rfl⟩)
          omega
      rw [if_pos h, valSum_cons, if_pos h, valSum_of_not_mem hnot]
      have : i ∈ keysOf (e1 :: e2 :: rest) := by simp [keysOf, h]
      rw [if_pos this]; omega
    · have hne' : ¬ i = e1.1 := fun hh => h hh.symm
      rw [if_neg h, valSum_cons e1, if_neg h]
      have : (i ∈ keysOf (e1 :: e2 :: rest)) ↔ (i ∈ keysOf (e2 :: rest)) := by
        simp only [keysOf, List.map_cons, List.mem_cons, hne', false_or]
      simp only [this]

/-- `_prune` never changes a lookup (with the fill value as default) when stored indices are distinct -/
theorem lookup_prune {α : Type} [DecidableEq α] (fill : α) (es : List (Idx × α)) (i : Idx)
    (hnd : (keysOf es).Nodup) : lookup (pruneEntries fill es) fill i = lookup es fill i := by
  induction es with
  | nil => rfl
  | cons e es ih =>
    simp only [keysOf, List.map_cons, List.nodup_cons] at hnd
    unfold pruneEntries at ih ⊢
    rw [List.filter_cons, lookup_cons]
    by_cases hv : e.2 = fill
    · have : ¬ (decide (e.2 ≠ fill) = true) := by simp [hv]
      rw [if_neg this, ih hnd.2]
      by_cases h : e.1 = i
      · rw [if_pos h, hv]
        apply lookup_of_not_mem
        rw [← h]; exact hnd.1
      · rw [if_neg h]
    · have : decide (e.2 ≠ fill) = true := by simp [hv]
      rw [if_pos this, lookup_cons, ih hnd.2]

theorem sortedLin_keys_nodup {α : Type} (shape : List Nat) (es : List (Idx × α)) (hc : SortedLin shape es) :
    (keysOf es).Nodup := by
  unfold SortedLin lin at hc
  unfold keysOf List.Nodup
  rw [List.pairwise_map] at hc ⊢
  exact hc.imp (fun {a b} h heq => by rw [heq] at h; exact Nat.lt_irrefl _ h)

theorem sumDup_keys_sub {α : Type} [Add α] (shape : List Nat) (es : List (Idx × α)) :
    ∀ e ∈ sumDup shape es, ∃ e' ∈ es, e.1 = e'.1 := by
  fun_induction sumDup shape es with
  | case1 => intro e he; cases he
  | case2 e0 => intro e he; exact ⟨e, he, rfl⟩
  | case3 e1 e2 rest heq ih =>
    intro e he
    obtain ⟨e', he', h⟩ := ih e he
    rcases List.mem_cons.mp he' with h1 | h1
    · exact ⟨e1, List.mem_cons_self, by rw [h, h1]⟩
    · exact ⟨e', List.mem_cons_of_mem _ (List.mem_cons_of_mem _ h1), h⟩
  | case4 e1 e2 rest hne ih =>
    intro e he
    rcases List.mem_cons.mp he with h1 | h1
    · exact ⟨e1, List.mem_cons_self, by rw [h1]⟩
    · obtain ⟨e', he', h⟩ := ih e h1
      exact ⟨e', List.mem_cons_of_mem _ he', h⟩

/-- the constructor with default flags yields in-bounds, strictly increasing (so distinct) indices -/
theorem build_wf_sorted {α : Type} [Add α] [DecidableEq α] (shape : List Nat) (es : List (Idx × α)) (fill : α)
    (prune : Bool) (hwf : ∀ e ∈ es, InB e.1 shape) :
    (COO.build shape es fill false true prune).WF ∧
    SortedLin shape (COO.build shape es fill false true prune).entries := by
  unfold COO.build
  simp only [Bool.false_eq_true, if_false, if_true]
  have h2 := (sumDup_sortedLin shape _ (sortEntries_sortedLe shape es)).1
  have hwf2 : ∀ e ∈ sumDup shape (sortEntries shape es), InB e.1 shape := by
    intro e he
    obtain ⟨e', he', h⟩ := sumDup_keys_sub shape _ e he
    rw [h]
    exact hwf e' (mem_sortEntries.mp he')
  cases prune with
  | false => exact ⟨hwf2, h2⟩
  | true => exact ⟨fun e he => hwf2 e (List.mem_filter.mp he).1, prune_sortedLin shape fill _ h2⟩

/-- value of a constructed array (default flags: sort, sum duplicates; with or without pruning) -/
theorem build_lookup (shape : List Nat) (es : List (Idx × Int)) (fill : Int) (prune : Bool)
    (hwf : ∀ e ∈ es, InB e.1 shape) (i : Idx) :
    (COO.build shape es fill false true prune).get i = if i ∈ keysOf es then valSum es i else fill := by
  have hle := sortEntries_sortedLe shape es
  have hwf' : ∀ e ∈ sortEntries shape es, InB e.1 shape := fun e he => hwf e (mem_sortEntries.mp he)
  have hp := sortEntries_perm shape es
  have hmain : lookup (sumDup shape (sortEntries shape es)) fill i
      = if i ∈ keysOf es then valSum es i else fill := by
    rw [sumDup_lookup shape _ fill i hle hwf', valSum_perm hp i]
    simp only [mem_keysOf_perm hp i]
  cases prune with
  | false =>
    unfold COO.build COO.get
    simpa using hmain
  | true =>
    have hnd := sortedLin_keys_nodup shape _ (sumDup_sortedLin shape _ hle).1
    unfold COO.build COO.get
    simp only [Bool.false_eq_true, if_false, if_true]
    rw [lookup_prune fill _ i hnd]
    exact hmain

/-- with distinct coordinates the constructor stores exactly the given values -/
theorem build_lookup_nodup (shape : List Nat) (es : List (Idx × Int)) (fill : Int) (prune : Bool)
    (hwf : ∀ e ∈ es, InB e.1 shape) (hnd : (keysOf es).Nodup) (i : Idx) :
    (COO.build shape es fill false true prune).get i = lookup es fill i := by
  rw [build_lookup shape es fill prune hwf i]
  by_cases h : i ∈ keysOf es
  · rw [if_pos h, valSum_eq_lookup hnd fill h]
  · rw [if_neg h, lookup_of_not_mem h]

/-! ### the row-major enumeration -/

theorem flatMap_congr' {β γ : Type} {l : List β} {f g : β → List γ} (h : ∀ a ∈ l, f a = g a) :
    l.flatMap f = l.flatMap g := by
  rw [List.flatMap_def, List.flatMap_def, List.map_congr_left h]

theorem range_mul_map {β : Type} (p : Nat) (f : Nat → β) : ∀ d : Nat,
    (List.range (d * p)).map f = (List.range d).flatMap fun i => (List.range p).map fun r => f (i * p + r)
  | 0 => by simp
  | d + 1 => by
    rw [Nat.add_mul, Nat.one_mul, List.range_add, List.map_append, range_mul_map p f d, List.range_succ,
      List.flatMap_append]
    simp [List.map_map, Function.comp_def]

/-- `allIdx` is the enumeration by linear location -/
theorem allIdx_eq : ∀ s : List Nat, allIdx s = (List.range (prod s)).map fun k => unravel k s
  | [] => by simp [allIdx, prod, unravel]
  | d :: ds => by
    simp only [allIdx, prod, unravel]
    rw [range_mul_map (prod ds) (fun k => (k / prod ds) :: unravel (k % prod ds) ds) d, allIdx_eq ds]
    apply flatMap_congr'
    intro i _
    rw [List.map_map]
    apply List.map_congr_left
    intro r hr
    have hr' : r < prod ds := List.mem_range.mp hr
    have hp : 0 < prod ds := by omega
    have h1 : (i * prod ds + r) / prod ds = i := by
      rw [Nat.add_comm, Nat.add_mul_div_right _ _ hp, Nat.div_eq_of_lt hr', Nat.zero_add]
    have h2 : (i * prod ds + r) % prod ds = r := by
      rw [Nat.add_comm, Nat.add_mul_mod_self_right, Nat.mod_eq_of_lt hr']
    simp [h1, h2]

theorem allIdx_length (s : List Nat) : (allIdx s).length = prod s := by simp [allIdx_eq]

theorem mem_allIdx {s : List Nat} {i : Idx} : i ∈ allIdx s ↔ InB i s := by
  rw [allIdx_eq]
  constructor
  · intro h
    obtain ⟨k, hk, rfl⟩ := List.mem_map.mp h
    exact unravel_InB s k (List.mem_range.mp hk)
  · intro h
    exact List.mem_map.mpr ⟨ravel i s, List.mem_range.mpr (ravel_lt h), unravel_ravel h⟩

theorem allIdx_getElem (s : List Nat) (k : Nat) (hk : k < (allIdx s).length) :
    (allIdx s)[k] = unravel k s := by
  simp [allIdx_eq]

theorem ravel_allIdx_getElem (s : List Nat) (k : Nat) (hk : k < (allIdx s).length) :
    ravel ((allIdx s)[k]) s = k := by
  rw [allIdx_getElem]
  exact ravel_unravel s k (by rwa [allIdx_length] at hk)

theorem allIdx_ravel (s : List Nat) : (allIdx s).map (fun i => ravel i s) = List.range (prod s) := by
  rw [allIdx_eq, List.map_map]
  conv => rhs; rw [← List.map_id (List.range (prod s))]
  apply List.map_congr_left
  intro k hk
  simp [ravel_unravel s k (List.mem_range.mp hk)]

theorem allIdx_nodup (s : List Nat) : (allIdx s).Nodup := by
  have h : ((allIdx s).map (fun i => ravel i s)).Nodup := by rw [allIdx_ravel]; exact List.nodup_range
  unfold List.Nodup at h ⊢
  rw [List.pairwise_map] at h
  exact h.imp (fun {a b} hab heq => hab (by rw [heq]))

/-- two lists strictly increasing under the same key with the same members are equal -/
theorem eq_of_sorted_of_mem_iff {β : Type} (f : β → Nat) : ∀ (l1 l2 : List β),
    (l1.map f).Pairwise (· < ·) → (l2.map f).Pairwise (· < ·) → (∀ x, x ∈ l1 ↔ x ∈ l2) → l1 = l2
  | [], [], _, _, _ => rfl
  | [], b :: _, _, _, h => absurd ((h b).mpr List.mem_cons_self) (by simp)
  | a :: _, [], _, _, h => absurd ((h a).mp List.mem_cons_self) (by simp)
  | a :: l1, b :: l2, h1, h2, h => by
    simp only [List.map_cons, List.pairwise_cons] at h1 h2
    have hab : a = b := by
      rcases List.mem_cons.mp ((h a).mp List.mem_cons_self) with h' | h'
      · exact h'
      · rcases List.mem_cons.mp ((h b).mpr List.mem_cons_self) with h'' | h''
        · exact h''.symm
        · have := h1.1 _ (List.mem_map.mpr ⟨b, h'', rfl⟩)
          have := h2.1 _ (List.mem_map.mpr ⟨a, h', rfl⟩)
          omega
    subst hab
    congr 1
    apply eq_of_sorted_of_mem_iff f l1 l2 h1.2 h2.2
    intro x
    constructor
    · intro hx
      rcases List.mem_cons.mp ((h x).mp (List.mem_cons_of_mem _ hx)) with h' | h'
      · have := h1.1 _ (List.mem_map.mpr ⟨x, hx, rfl⟩)
        rw [h'] at this; omega
      · exact h'
    · intro hx
      rcases List.mem_cons.mp ((h x).mpr (List.mem_cons_of_mem _ hx)) with h' | h'
      · have := h2.1 _ (List.mem_map.mpr ⟨x, hx, rfl⟩)
        rw [h'] at this; omega
      · exact h'

/-- reading a zipped key/value listing back in key order returns the values -/
theorem map_lookup_zip_filter {α : Type} [DecidableEq α] (fill : α) : ∀ (ks : List Idx) (vs : List α),
    ks.Nodup → ks.length = vs.length →
    ks.map (fun i => lookup ((ks.zip vs).filter fun p => p.2 ≠ fill) fill i) = vs
  | [], [], _, _ => rfl
  | [], _ :: _, _, h => by simp at h
  | _ :: _, [], _, h => by simp at h
  | k :: ks, v :: vs, hnd, hlen => by
    simp only [List.nodup_cons] at hnd
    simp only [List.length_cons, Nat.add_right_cancel_iff] at hlen
    have ih := map_lookup_zip_filter fill ks vs hnd.2 hlen
    have hkeys : ∀ j, j ∈ keysOf ((ks.zip vs).filter fun p => p.2 ≠ fill) → j ∈ ks := by
      intro j hj
      obtain ⟨e, he, rfl⟩ := List.mem_map.mp hj
      have := (List.mem_filter.mp he).1
      exact (List.of_mem_zip this).1
    simp only [List.zip_cons_cons, List.map_cons, List.filter_cons]
    congr 1
    · by_cases hv : v = fill
      · have : ¬ (decide ((k, v).2 ≠ fill) = true) := by simp [hv]
        rw [if_neg this, hv]
        exact lookup_of_not_mem (fun hm => hnd.1 (hkeys k hm))
      · have : decide ((k, v).2 ≠ fill) = true := by simp [hv]
        rw [if_pos this, lookup_cons]; simp
    · rw [← ih]
      apply List.map_congr_left
      intro j hj
      have hjk : ¬ k = j := fun hh => hnd.1 (hh ▸ hj)
      by_cases hv : v = fill
      · have : ¬ (decide ((k, v).2 ≠ fill) = true) := by simp [hv]
        rw [if_neg this, ih]
      · have : decide ((k, v).2 ≠ fill) = true := by simp [hv]
        rw [if_pos this, lookup_cons, if_neg hjk, ih]

/-! ### `from_numpy` / `todense` -/

theorem zip_map_self {β γ : Type} (g : β → γ) : ∀ l : List β, l.zip (l.map g) = l.map fun a => (a, g a)
  | [] => rfl
  | a :: l => by simp [zip_map_self g l]

theorem map_fst_zip_sublist {β γ : Type} : ∀ (ks : List β) (vs : List γ), ((ks.zip vs).map Prod.fst).Sublist ks
  | [], _ => by simp
  | _ :: ks, [] => by simp
  | k :: ks, v :: vs => by
    simp only [List.zip_cons_cons, List.map_cons]
    exact (map_fst_zip_sublist ks vs).cons_cons k

/-- `from_numpy` produces the canonical form, whatever the data -/
theorem fromDense_canonical {α : Type} [DecidableEq α] (shape : List Nat) (flat : List α) (fill : α) :
    (COO.fromDense shape flat fill).WF ∧ SortedLin shape (COO.fromDense shape flat fill).entries := by
  unfold COO.fromDense
  constructor
  · intro e he
    simp only at he ⊢
    exact mem_allIdx.mp (List.of_mem_zip (List.mem_filter.mp he).1).1
  · simp only
    unfold SortedLin lin
    have h1 : (((allIdx shape).zip flat).filter fun p => p.2 ≠ fill).Sublist ((allIdx shape).zip flat) :=
      List.filter_sublist
    have h2 := h1.map (fun e : Idx × α => ravel e.1 shape)
    have h3 : (((allIdx shape).zip flat).map fun e : Idx × α => ravel e.1 shape)
        = (((allIdx shape).zip flat).map Prod.fst).map (fun i => ravel i shape) := by
      rw [List.map_map]; rfl
    have h4 := (map_fst_zip_sublist (allIdx shape) flat).map (fun i => ravel i shape)
    rw [allIdx_ravel] at h4
    rw [h3] at h2
    exact List.pairwise_lt_range.sublist (h2.trans h4)

/-- a dense listing `i ↦ g i` read back through `from_numpy` -/
theorem fromDense_get {α : Type} [DecidableEq α] (shape : List Nat) (g : Idx → α) (fill : α) (i : Idx)
    (hi : InB i shape) : (COO.fromDense shape ((allIdx shape).map g) fill).get i = g i := by
  have hnd := sortedLin_keys_nodup _ _ (fromDense_canonical shape ((allIdx shape).map g) fill).2
  unfold COO.fromDense COO.get at *
  simp only at *
  rw [zip_map_self] at *
  by_cases hv : g i = fill
  · rw [hv]
    apply lookup_of_not_mem
    intro hm
    obtain ⟨e, he, hk⟩ := List.mem_map.mp hm
    obtain ⟨he1, he2⟩ := List.mem_filter.mp he
    obtain ⟨a, _, rfl⟩ := List.mem_map.mp he1
    simp only at hk
    subst hk
    simp [hv] at he2
  · apply lookup_of_mem hnd
    rw [List.mem_filter]
    refine ⟨List.mem_map.mpr ⟨i, mem_allIdx.mpr hi, rfl⟩, ?_⟩
    simp [hv]

theorem fromDense_todense' {α : Type} [DecidableEq α] (shape : List Nat) (flat : List α) (fill : α)
    (h : flat.length = prod shape) : (COO.fromDense shape flat fill).todense = flat := by
  unfold COO.todense COO.fromDense COO.get
  simp only
  exact map_lookup_zip_filter fill _ _ (allIdx_nodup shape) (by rw [allIdx_length, h])

theorem todense_fromDense_entries {α : Type} [DecidableEq α] (x : COO α) (hwf : x.WF)
    (hs : SortedLin x.shape x.entries) (hnf : x.NoFill) :
    (COO.fromDense x.shape x.todense x.fill).entries = x.entries := by
  have hnd := sortedLin_keys_nodup _ _ hs
  apply eq_of_sorted_of_mem_iff (fun e : Idx × α => ravel e.1 x.shape)
    (COO.fromDense x.shape x.todense x.fill).entries x.entries
    (fromDense_canonical x.shape x.todense x.fill).2 hs
  intro e
  unfold COO.fromDense COO.todense
  simp only
  rw [zip_map_self, List.mem_filter]
  constructor
  · rintro ⟨h1, h2⟩
    obtain ⟨a, _, rfl⟩ := List.mem_map.mp h1
    simp only [ne_eq, decide_eq_true_eq] at h2
    have hk : a ∈ keysOf x.entries := by
      apply Classical.byContradiction
      intro hk
      exact h2 (lookup_of_not_mem hk)
    obtain ⟨e', he', rfl⟩ := List.mem_map.mp hk
    have : x.get e'.1 = e'.2 := lookup_of_mem hnd he'
    rw [this]
    exact he'
  · intro he
    have hg : x.get e.1 = e.2 := lookup_of_mem hnd he
    refine ⟨List.mem_map.mpr ⟨e.1, mem_allIdx.mpr (hwf e he), by rw [hg]⟩, ?_⟩
    simpa using hnf e he

end COO
end SparseV

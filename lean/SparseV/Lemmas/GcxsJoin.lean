/-
  SparseV.Lemmas.GcxsJoin — GCXS `concatenate`: a well-formed CSR triple is assembled from its rows; splicing index
  pointers with running offsets concatenates the row lists; the n-d statement.
-/
import SparseV.Lemmas.GcxsReduce
import SparseV.Model.GcxsJoin
namespace SparseV
open COO Spec GIx
namespace GIx

/-! ### a well-formed CSR triple is assembled from its rows -/

theorem csrRow_snd (R C : Nat) (indptr indices : List Nat) (data : List Int)
    (h : CsrWF R C indptr indices data.length) (r : Nat) :
    (csrRow indptr indices data r).map (·.2) = rowSlice data (indptr.getD r 0) (indptr.getD (r + 1) 0) := by
  unfold csrRow
  apply List.map_snd_zip
  rw [rowSlice_length, rowSlice_length, h.2.2.2.1]
  exact Nat.le_refl _

/-- the rows of a CSR triple -/
def rowsOf (R : Nat) (indptr indices : List Nat) (data : List Int) : List (List (Nat × Int)) :=
  (List.range R).map (csrRow indptr indices data)

theorem csr_decompose (R C : Nat) (indptr indices : List Nat) (data : List Int)
    (h : CsrWF R C indptr indices data.length) :
    indptr = 0 :: cumLens 0 ((rowsOf R indptr indices data).map List.length) ∧
    indices = (rowsOf R indptr indices data).flatten.map (·.1) ∧
    data = (rowsOf R indptr indices data).flatten.map (·.2) := by
  obtain ⟨hlen, h0, hR, hd, hm, _, _⟩ := h
  have hrowlen : ∀ r, r < R → (csrRow indptr indices data r).length = indptr.getD (r + 1) 0 - indptr.getD r 0 := by
    intro r hr
    have hle : indptr.getD (r + 1) 0 ≤ indices.length := by
      rw [← hR]; exact mono_le (fun r => indptr.getD r 0) R (r + 1) hm (by omega)
    unfold csrRow
    rw [List.length_zip, rowSlice_length, rowSlice_length, hd, Nat.min_self, Nat.min_eq_left hle]
  refine ⟨?_, ?_, ?_⟩
  · have hptr : ∀ r, r ≤ R → indptr.getD r 0 = (((rowsOf R indptr indices data).map List.length).take r).sum := by
      intro r
      induction r with
      | zero => intro _; simpa using h0
      | succ r ih =>
        intro hr
        have hlt : r < ((rowsOf R indptr indices data).map List.length).length := by simp [rowsOf]; omega
        rw [sum_take_succ _ r hlt, ← ih (by omega)]
        simp only [rowsOf, List.getElem_map, List.getElem_range]
        rw [hrowlen r (by omega)]
        have := hm r (by omega)
        omega
    apply List.ext_getElem
    · simp [rowsOf, cumLens_length, hlen]
    · intro i h1 h2
      have hi : i ≤ R := by omega
      have e1 : indptr[i] = indptr.getD i 0 := by
        rw [List.getD_eq_getElem?_getD, List.getElem?_eq_getElem h1, Option.getD_some]
      have e2 : (0 :: cumLens 0 ((rowsOf R indptr indices data).map List.length))[i]
          = (0 :: cumLens 0 ((rowsOf R indptr indices data).map List.length)).getD i 0 := by
        rw [List.getD_eq_getElem?_getD, List.getElem?_eq_getElem h2, Option.getD_some]
      rw [e1, e2, ptr_getD _ 0 i (by simp [rowsOf]; omega), Nat.zero_add]
      exact hptr i hi
  · have hI := eq_flatMap_slices indices (fun r => indptr.getD r 0) R h0 hm hR
    conv => lhs; rw [hI]
    unfold rowsOf
    rw [List.map_flatten, List.map_map, ← List.flatMap_def]
    apply flatMap_congr_mem
    intro r _
    exact (csrRow_fst R C indptr indices data ⟨hlen, h0, hR, hd, hm, by assumption, by assumption⟩ r).symm
  · have hD := eq_flatMap_slices data (fun r => indptr.getD r 0) R h0 hm (by rw [hR, hd])
    conv => lhs; rw [hD]
    unfold rowsOf
    rw [List.map_flatten, List.map_map, ← List.flatMap_def]
    apply flatMap_congr_mem
    intro r _
    exact (csrRow_snd R C indptr indices data ⟨hlen, h0, hR, hd, hm, by assumption, by assumption⟩ r).symm

/-! ### splicing index pointers -/

theorem cumLens_shift : ∀ (l : List Nat) (a b : Nat), (cumLens a l).map (· + b) = cumLens (a + b) l
  | [], _, _ => rfl
  | n :: ns, a, b => by
    simp only [cumLens, List.map_cons]
    rw [cumLens_shift ns (a + n) b]
    have e : a + n + b = a + b + n := by omega
    rw [e]

theorem cumLens_append : ∀ (l1 l2 : List Nat) (a : Nat), cumLens a (l1 ++ l2) = cumLens a l1 ++ cumLens (a + l1.sum) l2
  | [], l2, a => by simp [cumLens]
  | n :: ns, l2, a => by
    simp only [List.cons_append, cumLens, List.sum_cons]
    rw [cumLens_append ns l2 (a + n), Nat.add_assoc]

/-- splicing the index pointers of members given by their row lengths: the running sums of all the lengths -/
theorem spliceGo_lens : ∀ (Ls : List (List Nat)) (off : Nat),
    spliceGo off (Ls.map fun lens => (0 :: cumLens 0 lens, lens.sum)) = cumLens off Ls.flatten
  | [], _ => rfl
  | lens :: Ls, off => by
    simp only [List.map_cons, spliceGo, List.drop_one, List.tail_cons, List.flatten_cons]
    rw [cumLens_shift, Nat.zero_add, spliceGo_lens Ls, cumLens_append]

theorem splice_lens : ∀ (Ls : List (List Nat)), Ls ≠ [] →
    splice (Ls.map fun lens => (0 :: cumLens 0 lens, lens.sum)) = 0 :: cumLens 0 Ls.flatten
  | [], h => absurd rfl h
  | lens :: Ls, _ => by
    simp only [List.map_cons, splice, List.flatten_cons]
    rw [spliceGo_lens, cumLens_append, Nat.zero_add]
    rfl

theorem flatten_flatMap {β γ : Type} (f : β → List (List γ)) : ∀ (l : List β),
    (l.flatMap f).flatten = l.flatMap fun x => (f x).flatten
  | [] => rfl
  | a :: l => by simp [List.flatMap_cons, flatten_flatMap f l]

/-- element `t` of block `k` of a concatenation -/
theorem flatten_getD {β : Type} (d : β) : ∀ (Ls : List (List β)) (k t : Nat), k < Ls.length → t < (Ls.getD k []).length →
    Ls.flatten.getD (((Ls.map List.length).take k).sum + t) d = (Ls.getD k []).getD t d
  | [], _, _, h, _ => by simp at h
  | l :: Ls, 0, t, _, ht => by
    simp only [List.getD_cons_zero] at ht
    simp only [List.take_zero, List.sum_nil, Nat.zero_add, List.flatten_cons, List.getD_cons_zero]
    simp only [List.getD_eq_getElem?_getD]
    rw [List.getElem?_append_left ht]
  | l :: Ls, k + 1, t, hk, ht => by
    simp only [List.getD_cons_succ] at ht
    simp only [List.map_cons, List.take_succ_cons, List.sum_cons, List.flatten_cons, List.getD_cons_succ]
    have := flatten_getD d Ls k t (by simpa using hk) ht
    rw [← this]
    simp only [List.getD_eq_getElem?_getD]
    rw [List.getElem?_append_right (by omega)]
    congr 2
    omega

/-- **The splice of `concatenate` / `stack` on CSR triples with a common number of columns.**  For members that are
well-formed CSR triples (`Rf x` rows each, `C` columns), the spliced index pointers with the concatenated `indices` /
`data` are a well-formed CSR triple with `Σ Rf x` rows, and row `ρ` is row `t` of member `k` where
`(k, t) = locate (rows per member) ρ`. -/
theorem joinRows_csr (xs : List (GCXS Int)) (d0 : GCXS Int) (hne : xs ≠ []) (Rf : GCXS Int → Nat) (C : Nat)
    (h : ∀ x ∈ xs, CsrWF (Rf x) C x.indptr x.indices x.data.length) :
    CsrWF (xs.map Rf).sum C (splice (xs.map fun x => (x.indptr, x.indices.length))) (xs.flatMap (·.indices))
      (xs.flatMap (·.data)).length ∧
    ∀ ρ, ρ < (xs.map Rf).sum →
      csrRow (splice (xs.map fun x => (x.indptr, x.indices.length))) (xs.flatMap (·.indices)) (xs.flatMap (·.data)) ρ
        = csrRow ((xs.getD (locate (xs.map Rf) ρ).1 d0).indptr) ((xs.getD (locate (xs.map Rf) ρ).1 d0).indices)
            ((xs.getD (locate (xs.map Rf) ρ).1 d0).data) (locate (xs.map Rf) ρ).2 := by
  -- the rows of every member
  have hdec : ∀ x ∈ xs, x.indptr = 0 :: cumLens 0 ((rowsOf (Rf x) x.indptr x.indices x.data).map List.length) ∧
      x.indices = (rowsOf (Rf x) x.indptr x.indices x.data).flatten.map (·.1) ∧
      x.data = (rowsOf (Rf x) x.indptr x.indices x.data).flatten.map (·.2) :=
    fun x hx => csr_decompose _ _ _ _ _ (h x hx)
  have hsplice : splice (xs.map fun x => (x.indptr, x.indices.length))
      = 0 :: cumLens 0 ((xs.flatMap fun x => rowsOf (Rf x) x.indptr x.indices x.data).map List.length) := by
    have e1 : (xs.map fun x => (x.indptr, x.indices.length))
        = (xs.map fun x => (rowsOf (Rf x) x.indptr x.indices x.data).map List.length).map
            fun lens => (0 :: cumLens 0 lens, lens.sum) := by
      rw [List.map_map]
      apply List.map_congr_left
      intro x hx
      obtain ⟨d1, d2, _⟩ := hdec x hx
      simp only [Function.comp]
      have hl : x.indices.length = ((rowsOf (Rf x) x.indptr x.indices x.data).map List.length).sum := by
        conv => lhs; rw [d2]
        rw [List.length_map, List.length_flatten]
      rw [← d1, ← hl]
    rw [e1, splice_lens _ (by simpa using hne), List.map_flatMap, List.flatMap_def]
  have hind : xs.flatMap (·.indices)
      = (xs.flatMap fun x => rowsOf (Rf x) x.indptr x.indices x.data).flatten.map (·.1) := by
    rw [flatten_flatMap, List.map_flatMap]
    apply flatMap_congr_mem
    intro x hx
    exact (hdec x hx).2.1
  have hdat : xs.flatMap (·.data)
      = (xs.flatMap fun x => rowsOf (Rf x) x.indptr x.indices x.data).flatten.map (·.2) := by
    rw [flatten_flatMap, List.map_flatMap]
    apply flatMap_congr_mem
    intro x hx
    exact (hdec x hx).2.2
  have hrowmem : ∀ row ∈ (xs.flatMap fun x => rowsOf (Rf x) x.indptr x.indices x.data),
      ∃ x ∈ xs, ∃ r, r < Rf x ∧ row = csrRow x.indptr x.indices x.data r := by
    intro row hrow
    obtain ⟨x, hx, hr⟩ := List.mem_flatMap.mp hrow
    unfold rowsOf at hr
    obtain ⟨r, hr', rfl⟩ := List.mem_map.mp hr
    exact ⟨x, hx, r, List.mem_range.mp hr', rfl⟩
  obtain ⟨hcsr, hrow⟩ := fromRows_csr (xs.flatMap fun x => rowsOf (Rf x) x.indptr x.indices x.data) C
    (by
      intro row hrow
      obtain ⟨x, hx, r, hr, rfl⟩ := hrowmem row hrow
      rw [csrRow_fst _ _ _ _ _ (h x hx)]
      exact (h x hx).2.2.2.2.2.1 r hr)
    (by
      intro row hrow e he
      obtain ⟨x, hx, r, hr, rfl⟩ := hrowmem row hrow
      have : e.1 ∈ (csrRow x.indptr x.indices x.data r).map (·.1) := List.mem_map.mpr ⟨e, he, rfl⟩
      rw [csrRow_fst _ _ _ _ _ (h x hx)] at this
      exact (h x hx).2.2.2.2.2.2 _ (mem_rowSlice this))
  have hlen : (xs.flatMap fun x => rowsOf (Rf x) x.indptr x.indices x.data).length = (xs.map Rf).sum := by
    rw [List.length_flatMap]
    congr 1
    apply List.map_congr_left
    intro x _
    simp [rowsOf]
  rw [← hsplice, ← hind, ← hdat, hlen] at hcsr
  refine ⟨hcsr, fun ρ hρ => ?_⟩
  obtain ⟨hk, ht, hsum⟩ := locate_spec (xs.map Rf) ρ hρ
  generalize hkdef : (locate (xs.map Rf) ρ).1 = k at *
  generalize htdef : (locate (xs.map Rf) ρ).2 = t at *
  have hk' : k < xs.length := by simpa using hk
  have hxk : xs.getD k d0 = xs[k] := by
    rw [List.getD_eq_getElem?_getD, List.getElem?_eq_getElem hk', Option.getD_some]
  have ht' : t < Rf xs[k] := by
    rw [List.getD_eq_getElem?_getD, List.getElem?_eq_getElem hk, Option.getD_some, List.getElem_map] at ht
    exact ht
  rw [hsplice, hind, hdat, hrow ρ (by rw [hlen]; exact hρ), hxk]
  -- the flattened row list at position `offset_k + t`
  have hLs : (xs.flatMap fun x => rowsOf (Rf x) x.indptr x.indices x.data)
      = (xs.map fun x => rowsOf (Rf x) x.indptr x.indices x.data).flatten := List.flatMap_def
  have hlens : ((xs.map fun x => rowsOf (Rf x) x.indptr x.indices x.data).map List.length) = xs.map Rf := by
    rw [List.map_map]
    apply List.map_congr_left
    intro x _
    simp [rowsOf]
  have hblock : (xs.map fun x => rowsOf (Rf x) x.indptr x.indices x.data).getD k []
      = rowsOf (Rf xs[k]) xs[k].indptr xs[k].indices xs[k].data := by
    rw [List.getD_eq_getElem?_getD, List.getElem?_eq_getElem (by simpa using hk'), Option.getD_some, List.getElem_map]
  have hget := flatten_getD ([] : List (Nat × Int)) (xs.map fun x => rowsOf (Rf x) x.indptr x.indices x.data) k t
    (by simpa using hk') (by rw [hblock]; simp [rowsOf]; exact ht')
  rw [hlens, hsum, hblock] at hget
  have e1 : (xs.flatMap fun x => rowsOf (Rf x) x.indptr x.indices x.data)[ρ]'(by rw [hlen]; exact hρ)
      = ((xs.map fun x => rowsOf (Rf x) x.indptr x.indices x.data).flatten).getD ρ [] := by
    rw [List.getD_eq_getElem?_getD, List.getElem?_eq_getElem (by rw [← hLs, hlen]; exact hρ), Option.getD_some]
    simp only [hLs]
  rw [e1, hget]
  unfold rowsOf
  rw [List.getD_eq_getElem?_getD, List.getElem?_eq_getElem (by simpa using ht'), Option.getD_some, List.getElem_map,
    List.getElem_range]

end GIx

namespace GCXS

/-- the CSR view when the only compressed axis is `axis`: `shape[axis]` rows; the columns and the column of an index do
not depend on the extent / coordinate along `axis` -/
theorem view_axis (shape : List Nat) (axis : Nat) :
    csrR shape [axis] = shape.getD axis 0 ∧
    csrC shape [axis] = prod (gather shape (restAxes shape.length [axis])) ∧
    ∀ i : Idx, linOf shape [axis] i = i.getD axis 0 * prod (gather shape (restAxes shape.length [axis])) +
      ravel (gather i (restAxes shape.length [axis])) (gather shape (restAxes shape.length [axis])) := by
  obtain ⟨h1, h2, h3⟩ := view_list shape [axis]
  refine ⟨by rw [h1]; simp [gather, prod], h2, fun i => ?_⟩
  rw [h3 i]
  have : gather i [axis] = [i.getD axis 0] := rfl
  rw [this, show gather shape [axis] = [shape.getD axis 0] from rfl,
    ravel_append [i.getD axis 0] [shape.getD axis 0] rfl]
  simp [ravel, prod]

theorem gather_rest_set (l : List Nat) (n axis v : Nat) :
    gather (l.set axis v) (restAxes n [axis]) = gather l (restAxes n [axis]) := by
  unfold gather
  apply List.map_congr_left
  intro a ha
  unfold restAxes at ha
  have h2 := (List.mem_filter.mp ha).2
  have hne : axis ≠ a := by
    intro h; subst h; simp at h2
  exact getD_set_ne l axis a v hne

theorem gather_rest_of_off_axis (s t : List Nat) (n axis : Nat) (h : s.set axis 0 = t.set axis 0) :
    gather s (restAxes n [axis]) = gather t (restAxes n [axis]) := by
  rw [← gather_rest_set s n axis 0, ← gather_rest_set t n axis 0, h]

/-- **GCXS `concatenate` refines NumPy's.**  Members `x0 :: rest`: well-formed n-d GCXS arrays (any compressed axes each)
that agree with `x0` off `axis` and on the fill value.  The result is well-formed with `compressed_axes = (axis,)`
(spliced `indptr` monotone from 0 to the total nnz, rows sorted), has `x0`'s shape with `Σ extents` along `axis`, `x0`'s
fill value, and every in-bounds result index `j` reads member `k` at `j` with `j[axis] - offset_k`, where
`(k, j[axis] - offset_k) = locate extents j[axis]` — the statement of `concat_get` (Props/C09) with `tocoo`. -/
theorem concatG_spec (x0 : GCXS Int) (rest : List (GCXS Int)) (axis : Nat)
    (hwf : ∀ y ∈ x0 :: rest, y.WF) (hax : axis < x0.shape.length)
    (hshape : ∀ y ∈ rest, y.shape.set axis 0 = x0.shape.set axis 0)
    (hfill : ∀ y ∈ rest, y.fill = x0.fill) :
    (concatG x0 rest axis).WF ∧
    (concatG x0 rest axis).tocoo.shape = x0.shape.set axis ((x0 :: rest).map fun y => y.shape.getD axis 0).sum ∧
    (concatG x0 rest axis).tocoo.fill = x0.fill ∧
    ∀ j, InB j (x0.shape.set axis ((x0 :: rest).map fun y => y.shape.getD axis 0).sum) →
      (locate ((x0 :: rest).map fun y => y.shape.getD axis 0) (j.getD axis 0)).1 < (x0 :: rest).length ∧
      InB (j.set axis (locate ((x0 :: rest).map fun y => y.shape.getD axis 0) (j.getD axis 0)).2)
        ((x0 :: rest).getD (locate ((x0 :: rest).map fun y => y.shape.getD axis 0) (j.getD axis 0)).1 x0).shape ∧
      (concatG x0 rest axis).tocoo.get j =
        ((x0 :: rest).getD (locate ((x0 :: rest).map fun y => y.shape.getD axis 0) (j.getD axis 0)).1 x0).tocoo.get
          (j.set axis (locate ((x0 :: rest).map fun y => y.shape.getD axis 0) (j.getD axis 0)).2) := by
  generalize hms : x0 :: rest = ms at *
  have hx0 : x0 ∈ ms := by rw [← hms]; exact List.mem_cons_self
  have hshape' : ∀ y ∈ ms, y.shape.set axis 0 = x0.shape.set axis 0 := by
    intro y hy
    rw [← hms] at hy
    rcases List.mem_cons.mp hy with h | h
    · rw [h]
    · exact hshape y h
  have hfill' : ∀ y ∈ ms, y.fill = x0.fill := by
    intro y hy
    rw [← hms] at hy
    rcases List.mem_cons.mp hy with h | h
    · rw [h]
    · exact hfill y h
  have hlen' : ∀ y ∈ ms, y.shape.length = x0.shape.length := by
    intro y hy
    have := congrArg List.length (hshape' y hy)
    simpa using this
  -- the rank is at least 2 and `(axis,)` is admissible
  have hcok : ∀ y ∈ ms, CaxesOk [axis] y.shape.length := by
    intro y hy
    have hw := hwf y hy
    unfold WF at hw
    cases hc : y.caxes with
    | none => rw [hc] at hw; exact absurd hw (by simp)
    | some c =>
      rw [hc] at hw
      obtain ⟨h1, h2, _⟩ := hw
      have : 0 < c.length := List.length_pos_iff.mpr h1
      refine ⟨by simp, by simp; omega, by simp, ?_⟩
      intro a ha
      simp only [List.mem_singleton] at ha
      rw [ha, hlen' y hy]; exact hax
  have hcc : ∀ y ∈ ms, (y.changeCaxes [axis]).WF ∧ (y.changeCaxes [axis]).caxes = some [axis] ∧
      (y.changeCaxes [axis]).shape = y.shape ∧ (y.changeCaxes [axis]).fill = y.fill ∧
      ∀ i, InB i y.shape → (y.changeCaxes [axis]).tocoo.get i = y.tocoo.get i := by
    intro y hy
    have hw := hwf y hy
    cases hc : y.caxes with
    | none => unfold WF at hw; rw [hc] at hw; exact absurd hw (by simp)
    | some c => exact changeCaxes_spec y c hc hw [axis] (hcok y hy)
  -- common number of columns
  have hC : ∀ y ∈ ms, csrC y.shape [axis] = prod (gather x0.shape (restAxes x0.shape.length [axis])) := by
    intro y hy
    rw [(view_axis y.shape axis).2.1, hlen' y hy, gather_rest_of_off_axis _ _ _ _ (hshape' y hy)]
  have hxs : ∀ x ∈ ms.map (fun y => y.changeCaxes [axis]),
      CsrWF (x.shape.getD axis 0) (prod (gather x0.shape (restAxes x0.shape.length [axis]))) x.indptr x.indices x.data.length := by
    intro x hx
    obtain ⟨y, hy, rfl⟩ := List.mem_map.mp hx
    obtain ⟨w1, w2, w3, _, _⟩ := hcc y hy
    unfold WF at w1
    rw [w2] at w1
    have := w1.2.2.2.2
    rw [w3, (view_axis y.shape axis).1, hC y hy] at this
    rw [w3]; exact this
  have hne : ms.map (fun y => y.changeCaxes [axis]) ≠ [] := by rw [← hms]; simp
  obtain ⟨hcsr, hrow⟩ := joinRows_csr (ms.map fun y => y.changeCaxes [axis]) (x0.changeCaxes [axis]) hne
    (fun x => x.shape.getD axis 0) _ hxs
  have hexts : ((ms.map fun y => y.changeCaxes [axis]).map fun x => x.shape.getD axis 0) = ms.map fun y => y.shape.getD axis 0 := by
    rw [List.map_map]
    apply List.map_congr_left
    intro y hy
    simp only [Function.comp, (hcc y hy).2.2.1]
  rw [hexts] at hcsr hrow
  generalize htot : (ms.map fun y => y.shape.getD axis 0).sum = total at *
  -- the result
  have hres : concatG x0 rest axis = joinRows (ms.map fun y => y.changeCaxes [axis]) (x0.shape.set axis total) axis x0.fill := by
    unfold concatG
    simp only [hms, htot]
  rw [hres]
  obtain ⟨vR, vC, vlin⟩ := view_axis (x0.shape.set axis total) axis
  have hRlen : (x0.shape.set axis total).length = x0.shape.length := by simp
  rw [hRlen] at vC vlin
  rw [getD_set_eq _ _ _ hax] at vR
  rw [gather_rest_set] at vC vlin
  have hwfR : (joinRows (ms.map fun y => y.changeCaxes [axis]) (x0.shape.set axis total) axis x0.fill).WF := by
    show ([axis] : List Nat) ≠ [] ∧ ([axis] : List Nat).length < (x0.shape.set axis total).length ∧ _ ∧ _ ∧
      CsrWF (csrR (x0.shape.set axis total) [axis]) (csrC (x0.shape.set axis total) [axis]) _ _ _
    obtain ⟨c1, c2, c3, c4⟩ := hcok x0 hx0
    refine ⟨c1, by rw [hRlen]; exact c2, c3, ?_, ?_⟩
    · intro a ha
      show a < (x0.shape.set axis total).length
      rw [hRlen]; exact c4 a ha
    rw [vR, vC]
    exact hcsr
  obtain ⟨t1, t2, _, _, t5⟩ := tocoo_get _ [axis] rfl hwfR
  refine ⟨hwfR, t1, t2, fun j hj => ?_⟩
  have hjax : j.getD axis 0 < total := by
    have := (InB_iff_getD.mp hj).2 axis (by rw [(InB_iff_getD.mp hj).1, hRlen]; exact hax)
    rwa [getD_set_eq _ _ _ hax] at this
  obtain ⟨hk, ht, hsum⟩ := locate_spec (ms.map fun y => y.shape.getD axis 0) (j.getD axis 0) (by rw [htot]; exact hjax)
  generalize hkdef : (locate (ms.map fun y => y.shape.getD axis 0) (j.getD axis 0)).1 = k at *
  generalize htdef : (locate (ms.map fun y => y.shape.getD axis 0) (j.getD axis 0)).2 = t at *
  have hk' : k < ms.length := by simpa using hk
  have hyk : ms.getD k x0 = ms[k] := by
    rw [List.getD_eq_getElem?_getD, List.getElem?_eq_getElem hk', Option.getD_some]
  have hykm : ms[k] ∈ ms := List.getElem_mem hk'
  have ht' : t < ms[k].shape.getD axis 0 := by
    rw [List.getD_eq_getElem?_getD, List.getElem?_eq_getElem hk, Option.getD_some, List.getElem_map] at ht
    exact ht
  -- the source index is inside member `k`
  have hsrc : InB (j.set axis t) ms[k].shape := by
    rw [InB_iff_getD] at hj ⊢
    obtain ⟨hl, hb⟩ := hj
    refine ⟨by rw [List.length_set, hl, hRlen, hlen' _ hykm], fun a ha => ?_⟩
    rw [List.length_set] at ha
    by_cases haa : a = axis
    · subst haa
      rw [getD_set_eq _ _ _ ha]; exact ht'
    · rw [getD_set_ne _ _ _ _ (Ne.symm haa)]
      have h1 := hb a ha
      rw [getD_set_ne _ _ _ _ (Ne.symm haa)] at h1
      have h2 : ms[k].shape.getD a 0 = x0.shape.getD a 0 := by
        have := congrArg (fun l => l.getD a 0) (hshape' _ hykm)
        simp only [getD_set_ne _ _ _ _ (Ne.symm haa)] at this
        exact this
      rw [h2]; exact h1
  refine ⟨hk', by rw [hyk]; exact hsrc, ?_⟩
  rw [hyk]
  -- the result side
  rw [t5 j hj]
  show rowGet (csrRow (splice ((ms.map fun y => y.changeCaxes [axis]).map fun x => (x.indptr, x.indices.length)))
      ((ms.map fun y => y.changeCaxes [axis]).flatMap (·.indices)) ((ms.map fun y => y.changeCaxes [axis]).flatMap (·.data))
      (linOf (x0.shape.set axis total) [axis] j / csrC (x0.shape.set axis total) [axis])) x0.fill
      (linOf (x0.shape.set axis total) [axis] j % csrC (x0.shape.set axis total) [axis]) = _
  have hκ : ravel (gather j (restAxes x0.shape.length [axis])) (gather x0.shape (restAxes x0.shape.length [axis]))
      < prod (gather x0.shape (restAxes x0.shape.length [axis])) := by
    apply ravel_lt
    have := InB_gather_c hj (restAxes x0.shape.length [axis]) (by
      intro a ha
      unfold restAxes at ha
      rw [hRlen]; exact List.mem_range.mp (List.mem_filter.mp ha).1)
    rwa [gather_rest_set] at this
  obtain ⟨e1, e2⟩ := divmod_of_lt (j.getD axis 0) _ _ hκ
  rw [vlin j, vC, e1, e2, hrow _ hjax, hkdef, htdef]
  have hgk : (ms.map fun y => y.changeCaxes [axis]).getD k (x0.changeCaxes [axis]) = ms[k].changeCaxes [axis] := by
    rw [List.getD_eq_getElem?_getD, List.getElem?_eq_getElem (by simpa using hk'), Option.getD_some, List.getElem_map]
  rw [hgk]
  -- the member side
  obtain ⟨w1, w2, w3, w4, w5⟩ := hcc _ hykm
  rw [← w5 _ hsrc, (tocoo_get _ [axis] w2 w1).2.2.2.2 _ (by rw [w3]; exact hsrc), w3, w4, hfill' _ hykm,
    (view_axis ms[k].shape axis).2.2, hC _ hykm]
  rw [getD_set_eq _ _ _ (by rw [(InB_iff_getD.mp hj).1, hRlen]; exact hax), hlen' _ hykm, gather_rest_set,
    gather_rest_of_off_axis _ _ _ _ (hshape' _ hykm)]
  obtain ⟨f1, f2⟩ := divmod_of_lt t _ _ hκ
  rw [← hC _ hykm] at f1 f2 ⊢
  rw [hC _ hykm] at f1 f2 ⊢
  rw [f1, f2]

theorem prod_insertAt_one : ∀ (a : Nat) (s : List Nat), prod (insertAt s a 1) = prod s
  | 0, s => by simp [insertAt, prod]
  | a + 1, [] => by simp [insertAt, prod]
  | a + 1, d :: s => by
    have ih := prod_insertAt_one a s
    unfold insertAt at ih ⊢
    simp only [List.take_succ_cons, List.drop_succ_cons, List.cons_append, prod, ih]

theorem ravel_insertAt_zero : ∀ (a : Nat) (i s : List Nat), i.length = s.length → a ≤ s.length →
    ravel (insertAt i a 0) (insertAt s a 1) = ravel i s
  | 0, i, s, _, _ => by simp [insertAt, ravel]
  | a + 1, [], [], _, h => by simp at h
  | a + 1, x :: i, d :: s, hl, ha => by
    have ih := ravel_insertAt_zero a i s (by simpa using hl) (by simpa using ha)
    have hp := prod_insertAt_one a s
    unfold insertAt at ih hp ⊢
    simp only [List.take_succ_cons, List.drop_succ_cons, List.cons_append, ravel, ih, hp]
  | a + 1, [], _ :: _, hl, _ => by simp at hl
  | a + 1, _ :: _, [], hl, _ => by simp at hl

theorem locate_ones : ∀ (m p : Nat), p < m → locate (List.replicate m 1) p = (p, 0)
  | 0, _, h => by omega
  | m + 1, p, h => by
    rw [List.replicate_succ, locate]
    by_cases hp : p < 1
    · have : p = 0 := by omega
      subst this; simp
    · rw [if_neg hp, locate_ones m (p - 1) (by omega)]
      simp; omega

theorem set_insertAt (i : Idx) (a k v : Nat) (h : a ≤ i.length) : (insertAt i a k).set a v = insertAt i a v := by
  unfold insertAt
  rw [List.set_append_right _ _ (by simp; omega)]
  simp [Nat.min_eq_left h]

/-- **GCXS `stack` refines NumPy's.**  Members of equal shape (rank ≥ 2) and fill: every member gets a unit axis at
`axis` (`reshape`), is compressed along it, and the members are spliced as in `concatenate`.  The result is well-formed,
has shape `insertAt x0.shape axis m`, and element `insertAt i axis k` of the result is element `i` of member `k` — the
statement of `stack_get` (Props/C09) with `tocoo`. -/
theorem stackG_spec (x0 : GCXS Int) (rest : List (GCXS Int)) (axis : Nat)
    (hwf : ∀ y ∈ x0 :: rest, y.WF) (hax : axis ≤ x0.shape.length)
    (hshape : ∀ y ∈ rest, y.shape = x0.shape) (hfill : ∀ y ∈ rest, y.fill = x0.fill) :
    (stackG x0 rest axis).WF ∧
    (stackG x0 rest axis).tocoo.shape = insertAt x0.shape axis (rest.length + 1) ∧
    (stackG x0 rest axis).tocoo.fill = x0.fill ∧
    ∀ (k : Nat) (i : Idx), k < rest.length + 1 → InB i x0.shape →
      InB (insertAt i axis k) (insertAt x0.shape axis (rest.length + 1)) ∧
      (stackG x0 rest axis).tocoo.get (insertAt i axis k) = ((x0 :: rest).getD k x0).tocoo.get i := by
  have hshape' : ∀ y ∈ x0 :: rest, y.shape = x0.shape := by
    intro y hy
    rcases List.mem_cons.mp hy with h | h
    · rw [h]
    · exact hshape y h
  have hfill' : ∀ y ∈ x0 :: rest, y.fill = x0.fill := by
    intro y hy
    rcases List.mem_cons.mp hy with h | h
    · rw [h]
    · exact hfill y h
  have hrank : 2 ≤ x0.shape.length := by
    have hw := hwf x0 List.mem_cons_self
    unfold WF at hw
    cases hc : x0.caxes with
    | none => rw [hc] at hw; exact absurd hw (by simp)
    | some c =>
      rw [hc] at hw
      have : 0 < c.length := List.length_pos_iff.mpr hw.1
      omega
  -- the reshaped members
  have hR : ∀ y ∈ x0 :: rest,
      (y.reshapeG (insertAt y.shape axis 1)).WF ∧ (y.reshapeG (insertAt y.shape axis 1)).shape = insertAt x0.shape axis 1 ∧
      (y.reshapeG (insertAt y.shape axis 1)).fill = x0.fill ∧
      ∀ i, InB i x0.shape → (y.reshapeG (insertAt y.shape axis 1)).tocoo.get (insertAt i axis 0) = y.tocoo.get i := by
    intro y hy
    have hlen : (insertAt y.shape axis 1).length = y.shape.length + 1 := by
      unfold insertAt; simp; rw [hshape' y hy]; omega
    obtain ⟨r1, r2, r3, _, _, r6⟩ := reshapeG_spec y (Or.inl (hwf y hy)) (insertAt y.shape axis 1)
      (by rw [hlen, hshape' y hy]; omega) (prod_insertAt_one axis y.shape).symm
    refine ⟨?_, by rw [r2, hshape' y hy], by rw [r3, hfill' y hy], fun i hi => ?_⟩
    · rcases r1 with h | h
      · exact h
      · exfalso
        have := h.2.1
        rw [r2, hlen, hshape' y hy] at this
        omega
    · have hin : InB (insertAt i axis 0) (insertAt y.shape axis 1) := by
        rw [hshape' y hy]
        exact (InB_insertAt_j i x0.shape axis 0 1 hax).mpr ⟨by omega, hi⟩
      rw [r6 _ hin, hshape' y hy, ravel_insertAt_zero axis i x0.shape (InB_length hi) hax, unravel_ravel hi]
  -- `stack` is `concatenate` of the reshaped members
  have hstack : stackG x0 rest axis
      = concatG (x0.reshapeG (insertAt x0.shape axis 1)) (rest.map fun y => y.reshapeG (insertAt y.shape axis 1)) axis := by
    unfold stackG concatG
    simp only [List.map_cons, List.map_map]
    have hexts : (((x0.reshapeG (insertAt x0.shape axis 1)).shape.getD axis 0) ::
        rest.map ((fun x => x.shape.getD axis 0) ∘ fun y => y.reshapeG (insertAt y.shape axis 1)))
        = List.replicate (rest.length + 1) 1 := by
      rw [List.eq_replicate_iff]
      refine ⟨by simp, fun b hb => ?_⟩
      rcases List.mem_cons.mp hb with h | h
      · rw [h, (hR x0 List.mem_cons_self).2.1]; exact getD_insertAt_self _ _ _ hax
      · obtain ⟨y, hy, rfl⟩ := List.mem_map.mp h
        simp only [Function.comp]
        rw [(hR y (List.mem_cons_of_mem _ hy)).2.1]; exact getD_insertAt_self _ _ _ hax
    rw [hexts, (hR x0 List.mem_cons_self).2.1, (hR x0 List.mem_cons_self).2.2.1, set_insertAt _ _ _ _ hax]
    simp
    rfl
  rw [hstack]
  have hlenR : (insertAt x0.shape axis 1).length = x0.shape.length + 1 := by unfold insertAt; simp; omega
  obtain ⟨c1, c2, c3, c4⟩ := concatG_spec (x0.reshapeG (insertAt x0.shape axis 1))
    (rest.map fun y => y.reshapeG (insertAt y.shape axis 1)) axis
    (by
      intro y hy
      rcases List.mem_cons.mp hy with h | h
      · rw [h]; exact (hR x0 List.mem_cons_self).1
      · obtain ⟨y0, hy0, rfl⟩ := List.mem_map.mp h
        exact (hR y0 (List.mem_cons_of_mem _ hy0)).1)
    (by rw [(hR x0 List.mem_cons_self).2.1, hlenR]; omega)
    (by
      intro y hy
      obtain ⟨y0, hy0, rfl⟩ := List.mem_map.mp hy
      rw [(hR y0 (List.mem_cons_of_mem _ hy0)).2.1, (hR x0 List.mem_cons_self).2.1])
    (by
      intro y hy
      obtain ⟨y0, hy0, rfl⟩ := List.mem_map.mp hy
      rw [(hR y0 (List.mem_cons_of_mem _ hy0)).2.2.1, (hR x0 List.mem_cons_self).2.2.1])
  have hexts2 : ((x0.reshapeG (insertAt x0.shape axis 1) :: rest.map fun y => y.reshapeG (insertAt y.shape axis 1)).map
      fun y => y.shape.getD axis 0) = List.replicate (rest.length + 1) 1 := by
    rw [List.eq_replicate_iff]
    refine ⟨by simp, fun b hb => ?_⟩
    obtain ⟨y, hy, rfl⟩ := List.mem_map.mp hb
    rcases List.mem_cons.mp hy with h | h
    · rw [h, (hR x0 List.mem_cons_self).2.1]; exact getD_insertAt_self _ _ _ hax
    · obtain ⟨y0, hy0, rfl⟩ := List.mem_map.mp h
      rw [(hR y0 (List.mem_cons_of_mem _ hy0)).2.1]; exact getD_insertAt_self _ _ _ hax
  rw [hexts2] at c2 c4
  have hsum : (List.replicate (rest.length + 1) 1).sum = rest.length + 1 := by simp
  rw [hsum, (hR x0 List.mem_cons_self).2.1, set_insertAt _ _ _ _ hax] at c2 c4
  refine ⟨c1, c2, by rw [c3, (hR x0 List.mem_cons_self).2.2.1], fun k i hk hi => ?_⟩
  have hin : InB (insertAt i axis k) (insertAt x0.shape axis (rest.length + 1)) :=
    (InB_insertAt_j i x0.shape axis k _ hax).mpr ⟨hk, hi⟩
  refine ⟨hin, ?_⟩
  obtain ⟨_, _, hget⟩ := c4 _ hin
  have hil : axis ≤ i.length := by rw [InB_length hi]; exact hax
  rw [hget, getD_insertAt_self _ _ _ hil, locate_ones _ _ hk, set_insertAt _ _ _ _ hil]
  simp only []
  cases k with
  | zero =>
    simp only [List.getD_cons_zero]
    exact (hR x0 List.mem_cons_self).2.2.2 i hi
  | succ k =>
    have hk' : k < rest.length := by omega
    simp only [List.getD_cons_succ]
    rw [List.getD_eq_getElem?_getD, List.getElem?_eq_getElem (by simpa using hk'), Option.getD_some, List.getElem_map,
      List.getD_eq_getElem?_getD, List.getElem?_eq_getElem hk', Option.getD_some]
    exact (hR rest[k] (List.mem_cons_of_mem _ (List.getElem_mem hk'))).2.2.2 i hi

end GCXS
end SparseV

/-
  SparseV.Lemmas.NoInternal — the error classes the model operations can produce (property C18):
  none of them produces `Err.internal`; each produces only the class of clean rejections named here.
-/
import SparseV.Lemmas.Reduce
import SparseV.Model.Elemwise
import SparseV.Model.Reduce
import SparseV.Model.Getitem
import SparseV.Model.Convert
import SparseV.Lemmas.Validate
import SparseV.Lemmas.Gen.Slicing
namespace SparseV

theorem bind_eq_error {α β : Type} (m : Except Err α) (k : α → Except Err β) (e : Err) :
    (m >>= k = .error e) ↔ (m = .error e ∨ ∃ a, m = .ok a ∧ k a = .error e) := by
  cases m <;> simp [bind, Except.bind]

theorem ite_pure_ne_error {β : Type} (c : Prop) [Decidable c] (a b : β) (e : Err) :
    (if c then (pure a : Except Err β) else pure b) ≠ .error e := by
  split <;> simp [pure, Except.pure]

theorem bshape2_error (s1 s2 : List Nat) (r : Bool) (e : Err) (h : bshape2 s1 s2 r = .error e) : e = Err.value := by
  unfold bshape2 at h
  simp only [] at h
  repeat' split at h
  all_goals first | (cases h; rfl) | cases h

theorem foldlM_error {β γ : Type} (f : β → γ → Except Err β) (hf : ∀ b c e, f b c = .error e → e = Err.value) :
    ∀ (l : List γ) (b : β) (e : Err), l.foldlM f b = .error e → e = Err.value
  | [], b, e, h => by simp [List.foldlM, pure, Except.pure] at h
  | c :: l, b, e, h => by
    rw [List.foldlM_cons] at h
    cases hb : f b c with
    | error e' =>
      rw [hb] at h
      simp only [bind, Except.bind] at h
      cases h
      exact hf b c _ hb
    | ok b' =>
      rw [hb] at h
      simp only [bind, Except.bind] at h
      exact foldlM_error f hf l b' e h

theorem bshapeN_error (shapes : List (List Nat)) (e : Err) (h : bshapeN shapes = .error e) : e = Err.value := by
  unfold bshapeN at h
  exact foldlM_error _ (fun b c e he => bshape2_error c b false e he) shapes [] e h

theorem mapM_error {β γ : Type} (f : β → Except Err γ) (hf : ∀ b e, f b = .error e → e = Err.value) :
    ∀ (l : List β) (e : Err), l.mapM f = .error e → e = Err.value
  | [], e, h => by simp [List.mapM_nil, pure, Except.pure] at h
  | b :: l, e, h => by
    rw [List.mapM_cons] at h
    cases hb : f b with
    | error e' =>
      rw [hb] at h
      simp only [bind, Except.bind] at h
      cases h
      exact hf b _ hb
    | ok c =>
      rw [hb] at h
      simp only [bind, Except.bind] at h
      cases hl : l.mapM f with
      | error e' =>
        rw [hl] at h
        simp only [] at h
        cases h
        exact mapM_error f hf l _ hl
      | ok cs =>
        rw [hl] at h
        simp [pure, Except.pure] at h

namespace COO

theorem broadcastTo_error {α : Type} (x : COO α) (s : List Nat) (e : Err) (h : x.broadcastTo s = .error e) : e = Err.value := by
  unfold broadcastTo at h
  split at h
  · cases h
  · split at h
    · rename_i e' he
      cases h
      exact bshape2_error _ _ _ _ he
    · cases h

theorem reduceCore_error (op : RedOp) (x : COO Int) (axes : Option (List Nat)) (kd : Bool) (e : Err)
    (h : reduceCore op x axes kd = .error e) : e = Err.value := by
  rw [reduceCore_eq] at h
  simp only [] at h
  repeat' split at h
  all_goals first | (cases h; rfl) | cases h

theorem reduce_error (op : RedOp) (x : COO Int) (axes : Option (List Int)) (kd : Bool) (e : Err)
    (h : reduce op x axes kd = .error e) : e = Err.value := by
  unfold reduce at h
  split at h
  · exact reduceCore_error _ _ _ _ _ h
  · rename_i as
    rw [bind_eq_error] at h
    rcases h with h | ⟨norm, _, h⟩
    · refine mapM_error _ ?_ as _ h
      intro a e'' ha
      rw [Validate.normalizeAxisInt_eq] at ha
      split at ha
      · cases ha
      · cases ha; rfl
    · split at h
      · cases h; rfl
      · exact reduceCore_error _ _ _ _ _ h

end COO

theorem elemwiseN_error {α : Type} [Inhabited α] [DecidableEq α] (f : List α → α) (ops : List (Operand α)) (e : Err)
    (h : elemwiseN f ops = .error e) : e = Err.value := by
  unfold elemwiseN at h
  simp only [] at h
  by_cases hc : (!ops.any Operand.isCoo) = true
  · rw [if_pos hc] at h
    cases h; rfl
  · rw [if_neg hc] at h
    rw [bind_eq_error] at h
    rcases h with h | ⟨shape, _, h⟩
    · exact bshapeN_error _ _ h
    · rw [bind_eq_error] at h
      rcases h with h | ⟨nd, _, h⟩
      · exact bshapeN_error _ _ h
      · split at h
        · split at h <;> cases h
        · split at h
          · cases h
          · cases h; rfl

namespace GCXS
theorem fromCoo_error {α : Type} (x : COO α) (c : Option (List Nat)) (e : Err) (h : fromCoo x c = .error e) : e = Err.value := by
  unfold fromCoo at h
  split at h
  · split at h
    · cases h; rfl
    · cases h
  · split at h
    · cases h; rfl
    · cases h
  · split at h
    · cases h
    · split at h
      · cases h; rfl
      · split at h
        · cases h; rfl
        · split at h
          · cases h; rfl
          · cases h
end GCXS

theorem convert_error {α : Type} [Add α] [DecidableEq α] (a : SArr α) (f : Fmt) (e : Err) (h : a.convert f = .error e) : e = Err.value := by
  unfold SArr.convert at h
  split at h
  · cases h
  · split at h
    · split at h
      · cases h
      · simp only [Functor.map, Except.map] at h
        split at h
        · rename_i e' he; cases h; exact GCXS.fromCoo_error _ _ _ he
        · cases h
    · simp only [Functor.map, Except.map] at h
      split at h
      · rename_i e' he; cases h; exact GCXS.fromCoo_error _ _ _ he
      · cases h
  · cases h
  · cases h

theorem fullSlice_not_ellipsis : fullSlice.isEllipsis = false := rfl

theorem mem_getD {β : Type} (l : List β) (d : β) (e : β) (h : e ∈ l) : ∃ i, i < l.length ∧ l.getD i d = e := by
  obtain ⟨i, hi, he⟩ := List.getElem_of_mem h
  exact ⟨i, hi, by simp [List.getD, hi, he]⟩

theorem replaceEllipsis_spec (n : Nat) (idx : List IxE) :
    (∀ e, replaceEllipsis n idx = .error e → e = Err.index) ∧
    (∀ idx', replaceEllipsis n idx = .ok idx' → ∀ e ∈ idx', e.isEllipsis = false) := by
  unfold replaceEllipsis
  simp only []
  generalize hl : (List.range idx.length).filter (fun i => (idx.getD i .newaxis).isEllipsis) = locs
  have hmem : ∀ i, i < idx.length → (idx.getD i .newaxis).isEllipsis = true → i ∈ locs := by
    intro i hi he; rw [← hl, List.mem_filter]; exact ⟨List.mem_range.mpr hi, he⟩
  match locs, hmem with
  | [], hmem =>
    refine ⟨(fun e h => by cases h), fun idx' h e he => ?_⟩
    cases h
    obtain ⟨i, hi, hg⟩ := mem_getD idx .newaxis e he
    cases hb : e.isEllipsis with
    | false => rfl
    | true => have := hmem i hi (by rw [hg]; exact hb); simp at this
  | [loc], hmem =>
    refine ⟨(fun e h => by cases h), fun idx' h e he => ?_⟩
    simp only [Except.ok.injEq] at h
    subst h
    simp only [List.mem_append, List.mem_replicate] at he
    cases hb : e.isEllipsis with
    | false => rfl
    | true =>
      exfalso
      rcases he with (he | ⟨_, rfl⟩) | he
      · obtain ⟨i, hi, hg⟩ := List.getElem_of_mem he
        have hi' : i < loc ∧ i < idx.length := by simp only [List.length_take] at hi; omega
        have hge : idx.getD i .newaxis = e := by
          rw [List.getElem_take] at hg
          simp [List.getD, hi'.2, hg]
        have := hmem i hi'.2 (by rw [hge]; exact hb)
        simp at this; omega
      · simp [fullSlice, IxE.isEllipsis] at hb
      · obtain ⟨i, hi, hg⟩ := List.getElem_of_mem he
        have hi' : loc + 1 + i < idx.length := by simp [List.length_drop] at hi; omega
        have hge : idx.getD (loc + 1 + i) .newaxis = e := by
          rw [List.getElem_drop] at hg
          simp [List.getD, hi', hg]
        have := hmem (loc + 1 + i) hi' (by rw [hge]; exact hb)
        simp at this; omega
  | _ :: _ :: _, _ =>
    refine ⟨(fun e h => by cases h; rfl), (fun idx' h => by cases h)⟩

theorem normalizeInt_error (i dim : Int) (e : Err) (h : normalizeInt i dim = .error e) : e = Err.index := by
  rw [normalizeInt_eq] at h
  split at h
  · cases h
  · cases h; rfl

theorem normalizeEntry_error (en : IxE) (dim : Int) (e : Err) (hne : en.isEllipsis = false)
    (h : normalizeEntry en dim = .error e) : e = Err.index := by
  unfold normalizeEntry at h
  split at h
  · split at h
    · cases h
    · rename_i er her; cases h; exact normalizeInt_error _ _ _ her
  · cases h
  · split at h
    · cases h; rfl
    · cases h
  · split at h
    · cases h; rfl
    · cases h
  · cases h
  · simp [IxE.isEllipsis] at hne

theorem go_error : ∀ (es : List IxE) (dims : List Nat) (e : Err), (∀ en ∈ es, en.isEllipsis = false) →
    normalizeIndex.go es dims = .error e → e = Err.index
  | [], _, e, _, h => by simp [normalizeIndex.go] at h
  | en :: rest, dims, e, hne, h => by
    have hrest : ∀ x ∈ rest, x.isEllipsis = false := fun x hx => hne x (by simp [hx])
    unfold normalizeIndex.go at h
    split at h
    · cases h
    · -- newaxis
      rename_i rest' heq
      rw [bind_eq_error] at h
      rcases h with h | ⟨r, _, h⟩
      · cases heq; exact go_error _ _ _ hrest h
      · cases h
    · rename_i e' rest' hnn heq
      cases heq
      split at h
      · cases h; rfl
      · rw [bind_eq_error] at h
        rcases h with h | ⟨hd, _, h⟩
        · exact normalizeEntry_error _ _ _ (hne _ (by simp)) h
        · rw [bind_eq_error] at h
          rcases h with h | ⟨r, _, h⟩
          · exact go_error _ _ _ hrest h
          · cases h

theorem normalizeIndex_error (idx : List IxE) (shape : List Nat) (e : Err) (h : normalizeIndex idx shape = .error e) :
    e = Err.index := by
  unfold normalizeIndex at h
  rw [bind_eq_error] at h
  rcases h with h | ⟨idx', hidx, h⟩
  · exact (replaceEllipsis_spec _ _).1 _ h
  · simp only [] at h
    split at h
    · cases h; rfl
    · refine go_error _ _ _ ?_ h
      intro en hen
      simp only [List.mem_append, List.mem_replicate] at hen
      rcases hen with hen | ⟨_, rfl⟩
      · exact (replaceEllipsis_spec _ _).2 _ hidx _ hen
      · rfl

theorem COO.getitem_error {α : Type} (x : COO α) (idx : List IxE) (e : Err) (h : x.getitem idx = .error e) : e = Err.index := by
  unfold COO.getitem at h
  simp only [] at h
  rw [bind_eq_error] at h
  rcases h with h | ⟨n, _, h⟩
  · exact normalizeIndex_error _ _ _ h
  · cases h

end SparseV

/-
  SparseV.Lemmas.Levels — helper lemmas for property C20: permutations of `range n` and `gather`,
  the `arg_order` loop, membership in `allIdx`, the level walk of all-dense / CSR / COO formats.
-/
import SparseV.Model.Levels
import SparseV.Lemmas.Assoc
import SparseV.Lemmas.Index
namespace SparseV
namespace Levels
open COO

/-! ### `getD` -/

theorem getD_of_lt {β : Type} (l : List β) (k : Nat) (d : β) (h : k < l.length) : l.getD k d = l[k] := by
  rw [List.getD_eq_getElem?_getD, List.getElem?_eq_getElem h, Option.getD_some]

/-- inside the list the default does not matter -/
theorem getD_default_irrel {β : Type} (l : List β) (k : Nat) (d d' : β) (h : k < l.length) :
    l.getD k d = l.getD k d' := by
  rw [getD_of_lt l k d h, getD_of_lt l k d' h]

theorem getD_map {β γ : Type} (f : β → γ) (l : List β) (k : Nat) (d : β) (d' : γ) (h : k < l.length) :
    (l.map f).getD k d' = f (l.getD k d) := by
  rw [getD_of_lt _ _ _ (by simpa using h), getD_of_lt _ _ _ h, List.getElem_map]

theorem getD_range (n k d : Nat) (h : k < n) : (List.range n).getD k d = k := by
  rw [getD_of_lt _ _ _ (by simpa using h), List.getElem_range]

theorem gather_length (i axes : List Nat) : (gather i axes).length = axes.length := by
  simp [gather]

theorem getD_gather (i axes : List Nat) (k : Nat) (h : k < axes.length) :
    (gather i axes).getD k 0 = i.getD (axes.getD k 0) 0 := by
  unfold gather
  rw [getD_map (fun a => i.getD a 0) axes k 0 0 h]

/-- two lists of the same length with the same `getD` everywhere inside are equal -/
theorem ext_getD {l₁ l₂ : List Nat} (hl : l₁.length = l₂.length)
    (h : ∀ k, k < l₁.length → l₁.getD k 0 = l₂.getD k 0) : l₁ = l₂ := by
  apply List.ext_getElem hl
  intro k h1 h2
  have := h k h1
  rwa [getD_of_lt _ _ _ h1, getD_of_lt _ _ _ h2] at this

/-! ### permutations of `range n` -/

theorem insertNat_perm (a : Nat) : ∀ l : List Nat, (insertNat a l).Perm (a :: l)
  | [] => List.Perm.refl _
  | b :: l => by
    unfold insertNat
    split
    · exact List.Perm.refl _
    · exact ((insertNat_perm a l).cons b).trans (List.Perm.swap a b l)

theorem sortNat_perm : ∀ l : List Nat, (sortNat l).Perm l
  | [] => List.Perm.refl _
  | a :: l => (insertNat_perm a (sortNat l)).trans ((sortNat_perm l).cons a)

theorem insertNat_sorted (a : Nat) : ∀ l : List Nat, l.Pairwise (fun x y => x ≤ y) →
    (insertNat a l).Pairwise (fun x y => x ≤ y)
  | [], _ => by simp [insertNat]
  | b :: l, h => by
    unfold insertNat
    split
    next hab =>
      refine List.Pairwise.cons ?_ h
      intro c hc
      rcases List.mem_cons.mp hc with h1 | h1
      · rw [h1]; exact hab
      · exact Nat.le_trans hab (List.rel_of_pairwise_cons h h1)
    next hab =>
      refine List.Pairwise.cons ?_ (insertNat_sorted a l h.tail)
      intro c hc
      rcases List.mem_cons.mp ((insertNat_perm a l).mem_iff.mp hc) with h1 | h1
      · rw [h1]; omega
      · exact List.rel_of_pairwise_cons h h1

theorem sortNat_sorted : ∀ l : List Nat, (sortNat l).Pairwise (fun x y => x ≤ y)
  | [] => List.Pairwise.nil
  | a :: l => insertNat_sorted a _ (sortNat_sorted l)

/-- the constructor's test is the statement "`order` is a permutation of `0..rank-1`" -/
theorem orderOk_perm {o : List Nat} {n : Nat} (h : orderOk o n = true) : o.Perm (List.range n) := by
  unfold orderOk at h
  have h' : sortNat o = List.range n := by simpa using h
  have hm := sortNat_perm o
  rw [h'] at hm
  exact hm.symm

theorem perm_orderOk {o : List Nat} {n : Nat} (h : o.Perm (List.range n)) : orderOk o n = true := by
  unfold orderOk
  have hr : (List.range n).Pairwise (fun a b => a ≤ b) :=
    List.pairwise_lt_range.imp (fun h => Nat.le_of_lt h)
  have : sortNat o = List.range n :=
    List.Perm.eq_of_pairwise (le := fun a b : Nat => a ≤ b) (fun a b _ _ h1 h2 => Nat.le_antisymm h1 h2)
      (sortNat_sorted o) hr ((sortNat_perm o).trans h)
  simp [this]

section perm
variable {o : List Nat} {n : Nat} (hp : o.Perm (List.range n))
include hp

theorem perm_length : o.length = n := by simpa using hp.length_eq
theorem perm_nodup : o.Nodup := hp.nodup_iff.mpr List.nodup_range
theorem perm_mem {k : Nat} : k ∈ o ↔ k < n := by rw [hp.mem_iff, List.mem_range]

theorem perm_getD_lt {l : Nat} (hl : l < n) : o.getD l 0 < n := by
  have hl' : l < o.length := by rw [perm_length hp]; exact hl
  rw [getD_of_lt _ _ _ hl']
  exact (perm_mem hp).mp (List.getElem_mem hl')

theorem invPerm_length : (invPerm o).length = n := by simp [invPerm, perm_length hp]

/-- `inv[order[l]] = l` -/
theorem invPerm_getD_order {l : Nat} (hl : l < n) : (invPerm o).getD (o.getD l 0) 0 = l := by
  have hl' : l < o.length := by rw [perm_length hp]; exact hl
  have hk : o.getD l 0 < o.length := by rw [perm_length hp]; exact perm_getD_lt hp hl
  unfold invPerm
  rw [getD_map (fun a => o.idxOf a) (List.range o.length) _ 0 0 (by simpa using hk), getD_range _ _ _ hk,
    getD_of_lt _ _ _ hl']
  exact (perm_nodup hp).idxOf_getElem l hl'

/-- `order[inv[d]] = d` -/
theorem order_getD_invPerm {d : Nat} (hd : d < n) : o.getD ((invPerm o).getD d 0) 0 = d := by
  have hd' : d < o.length := by rw [perm_length hp]; exact hd
  have hm : d ∈ o := (perm_mem hp).mpr hd
  have hi : o.idxOf d < o.length := List.idxOf_lt_length_iff.mpr hm
  unfold invPerm
  rw [getD_map (fun a => o.idxOf a) (List.range o.length) _ 0 0 (by simpa using hd'), getD_range _ _ _ hd',
    getD_of_lt _ _ _ hi]
  exact List.getElem_idxOf hi

theorem invPerm_getD_lt {d : Nat} (hd : d < n) : (invPerm o).getD d 0 < n := by
  have hd' : d < o.length := by rw [perm_length hp]; exact hd
  have hm : d ∈ o := (perm_mem hp).mpr hd
  unfold invPerm
  rw [getD_map (fun a => o.idxOf a) (List.range o.length) _ 0 0 (by simpa using hd'), getD_range _ _ _ hd',
    ← perm_length hp]
  exact List.idxOf_lt_length_iff.mpr hm

/-- level coordinates → array index → level coordinates -/
theorem lvlIdx_dimIdx {c : Idx} (hc : c.length = n) : lvlIdx o (dimIdx o c) = c := by
  unfold lvlIdx dimIdx
  apply ext_getD
  · rw [gather_length, perm_length hp, hc]
  · intro k hk
    rw [gather_length, perm_length hp] at hk
    have hk' : k < o.length := by rw [perm_length hp]; exact hk
    rw [getD_gather _ _ _ hk', getD_gather _ _ _ (by rw [invPerm_length hp]; exact perm_getD_lt hp hk),
      invPerm_getD_order hp hk]

/-- array index → level coordinates → array index -/
theorem dimIdx_lvlIdx {i : Idx} (hi : i.length = n) : dimIdx o (lvlIdx o i) = i := by
  unfold lvlIdx dimIdx
  apply ext_getD
  · rw [gather_length, invPerm_length hp, hi]
  · intro k hk
    rw [gather_length, invPerm_length hp] at hk
    rw [getD_gather _ _ _ (by rw [invPerm_length hp]; exact hk),
      getD_gather _ _ _ (by rw [perm_length hp]; exact invPerm_getD_lt hp hk), order_getD_invPerm hp hk]

theorem invPerm_nodup : (invPerm o).Nodup := by
  unfold invPerm
  rw [List.nodup_iff_pairwise_ne, List.pairwise_map]
  refine (List.nodup_iff_pairwise_ne.mp (List.nodup_range (n := o.length))).imp_of_mem ?_
  intro a b ha hb hab heq
  apply hab
  have ha' : a ∈ o := (perm_mem hp).mpr (by rw [← perm_length hp]; exact List.mem_range.mp ha)
  have hb' : b ∈ o := (perm_mem hp).mpr (by rw [← perm_length hp]; exact List.mem_range.mp hb)
  have h1 := List.getElem_idxOf (List.idxOf_lt_length_iff.mpr ha')
  have h2 := List.getElem_idxOf (List.idxOf_lt_length_iff.mpr hb')
  rw [← h1, ← h2]
  simp only [heq]

/-- the inverse of the inverse is the permutation -/
theorem invPerm_invPerm : invPerm (invPerm o) = o := by
  apply ext_getD
  · simp [invPerm]
  · intro k hk
    have hk' : k < n := by
      have : (invPerm (invPerm o)).length = n := by simp [invPerm, perm_length hp]
      rw [this] at hk; exact hk
    have hkl : k < (invPerm o).length := by rw [invPerm_length hp]; exact hk'
    have hkn : o.getD k 0 < (invPerm o).length := by rw [invPerm_length hp]; exact perm_getD_lt hp hk'
    show (List.map (fun a => (invPerm o).idxOf a) (List.range (invPerm o).length)).getD k 0 = o.getD k 0
    rw [getD_map (fun a => (invPerm o).idxOf a) (List.range (invPerm o).length) _ 0 0 (by simpa using hkl),
      getD_range _ _ _ hkl]
    have h := (invPerm_nodup hp).idxOf_getElem (o.getD k 0) hkn
    have h2 : (invPerm o)[o.getD k 0] = k := by
      rw [← getD_of_lt _ _ 0 hkn]; exact invPerm_getD_order hp hk'
    rw [h2] at h
    exact h

end perm

/-! ### the `arg_order` loop of `to_numpy` -/

def foldSet (ps : List (Nat × Nat)) (acc : List Nat) : List Nat := ps.foldl (fun acc p => acc.set p.1 p.2) acc

theorem foldSet_length (ps : List (Nat × Nat)) (acc : List Nat) : (foldSet ps acc).length = acc.length := by
  induction ps generalizing acc with
  | nil => rfl
  | cons p ps ih => simp only [foldSet, List.foldl_cons] at ih ⊢; rw [ih]; simp

theorem getD_set_ne (l : List Nat) (i j v : Nat) (h : i ≠ j) : (l.set i v).getD j 0 = l.getD j 0 := by
  simp [List.getD_eq_getElem?_getD, h]

theorem getD_set_eq (l : List Nat) (i v : Nat) (h : i < l.length) : (l.set i v).getD i 0 = v := by
  simp [List.getD_eq_getElem?_getD, h]

theorem foldSet_getD_of_not_mem (ps : List (Nat × Nat)) (acc : List Nat) (k : Nat)
    (h : k ∉ ps.map Prod.fst) : (foldSet ps acc).getD k 0 = acc.getD k 0 := by
  induction ps generalizing acc with
  | nil => rfl
  | cons p ps ih =>
    simp only [List.map_cons, List.mem_cons, not_or] at h
    simp only [foldSet, List.foldl_cons] at ih ⊢
    rw [ih _ h.2, getD_set_ne _ _ _ _ (fun e => h.1 e.symm)]

theorem foldSet_getD_of_mem (ps : List (Nat × Nat)) (acc : List Nat) (k v : Nat)
    (hnd : (ps.map Prod.fst).Nodup) (hm : (k, v) ∈ ps) (hk : k < acc.length) :
    (foldSet ps acc).getD k 0 = v := by
  induction ps generalizing acc with
  | nil => cases hm
  | cons p ps ih =>
    simp only [List.map_cons, List.nodup_cons] at hnd
    simp only [foldSet, List.foldl_cons] at ih ⊢
    rcases List.mem_cons.mp hm with h | h
    · subst h
      have := foldSet_getD_of_not_mem ps (acc.set k v) k hnd.1
      simp only [foldSet] at this
      rw [this, getD_set_eq _ _ _ hk]
    · exact ih _ hnd.2 h (by simpa using hk)

/-- on a permutation the loop computes the inverse permutation -/
theorem argOrder_eq_invPerm {o : List Nat} {n : Nat} (hp : o.Perm (List.range n)) :
    argOrder n o = invPerm o := by
  have hlen : (argOrder n o).length = n := by
    unfold argOrder; rw [← foldSet, foldSet_length]; simp
  apply ext_getD
  · rw [hlen, invPerm_length hp]
  · intro d hd
    rw [hlen] at hd
    -- d = o[l] with l = inv[d]
    have hl : (invPerm o).getD d 0 < n := invPerm_getD_lt hp hd
    have hl' : (invPerm o).getD d 0 < o.length := by rw [perm_length hp]; exact hl
    have hd_eq : o.getD ((invPerm o).getD d 0) 0 = d := order_getD_invPerm hp hd
    have hmem : (d, (invPerm o).getD d 0) ∈ o.zipIdx := by
      rw [List.mem_zipIdx_iff_getElem?]
      simp only
      rw [List.getElem?_eq_getElem hl', ← getD_of_lt _ _ 0 hl', hd_eq]
    unfold argOrder
    rw [← foldSet]
    exact foldSet_getD_of_mem o.zipIdx _ d _ (by rw [List.zipIdx_map_fst]; exact perm_nodup hp) hmem (by simpa using hd)

/-! ### `InB` and `allIdx` -/

theorem InB_iff_getD : ∀ (i s : List Nat), InB i s ↔ i.length = s.length ∧ ∀ k, k < s.length → i.getD k 0 < s.getD k 0
  | [], [] => by simp
  | [], _ :: _ => by simp
  | _ :: _, [] => by simp
  | a :: is, d :: ds => by
    rw [InB_cons, InB_iff_getD is ds]
    constructor
    · rintro ⟨h1, h2, h3⟩
      refine ⟨by simp [h2], ?_⟩
      intro k hk
      cases k with
      | zero => simpa using h1
      | succ k => simpa using h3 k (by simpa using hk)
    · rintro ⟨h1, h2⟩
      refine ⟨by simpa using h2 0 (by simp), by simpa using h1, ?_⟩
      intro k hk
      simpa using h2 (k + 1) (by simpa using hk)

theorem mem_allIdx_iff : ∀ (s : List Nat) (c : Idx), c ∈ allIdx s ↔ InB c s
  | [], c => by
    cases c <;> simp [allIdx]
  | d :: ds, c => by
    simp only [allIdx, List.mem_flatMap, List.mem_range, List.mem_map]
    constructor
    · rintro ⟨i, hi, r, hr, rfl⟩
      exact ⟨hi, (mem_allIdx_iff ds r).mp hr⟩
    · intro h
      cases c with
      | nil => exact absurd h (by simp)
      | cons a r => exact ⟨a, h.1, r, (mem_allIdx_iff ds r).mpr h.2, rfl⟩

theorem allIdx_length_eq {s : List Nat} {c : Idx} (h : c ∈ allIdx s) : c.length = s.length :=
  InB_length ((mem_allIdx_iff s c).mp h)

/-- gathering index and shape with the same permutation keeps the index in range -/
theorem InB_gather {o : List Nat} {n : Nat} (hp : o.Perm (List.range n)) {i s : List Nat}
    (hs : s.length = n) (h : InB i s) : InB (gather i o) (gather s o) := by
  rw [InB_iff_getD] at h ⊢
  refine ⟨by simp [gather_length], ?_⟩
  intro k hk
  rw [gather_length] at hk
  rw [getD_gather _ _ _ hk, getD_gather _ _ _ hk]
  exact h.2 _ (by rw [hs]; exact perm_getD_lt hp (by rw [← perm_length hp]; exact hk))

theorem range_map_getD (s : List Nat) : (List.range s.length).map (fun a => s.getD a 0) = s := by
  apply List.ext_getElem (by simp)
  intro k h1 h2
  simp only [List.getElem_map, List.getElem_range]
  exact getD_of_lt _ _ _ h2

theorem gather_perm {o : List Nat} {n : Nat} (hp : o.Perm (List.range n)) {s : List Nat} (hs : s.length = n) :
    (gather s o).Perm s := by
  have h1 : (gather s o).Perm ((List.range n).map fun a => s.getD a 0) := hp.map _
  rw [← hs, range_map_getD] at h1
  exact h1

theorem prod_perm {l₁ l₂ : List Nat} (h : l₁.Perm l₂) : prod l₁ = prod l₂ := by
  induction h with
  | nil => rfl
  | cons x _ ih => simp [prod, ih]
  | swap x y l => simp only [prod]; rw [← Nat.mul_assoc, ← Nat.mul_assoc, Nat.mul_comm y x]
  | trans _ _ ih1 ih2 => rw [ih1, ih2]

theorem prod_gather {o : List Nat} {n : Nat} (hp : o.Perm (List.range n)) {s : List Nat} (hs : s.length = n) :
    prod (gather s o) = prod s := prod_perm (gather_perm hp hs)

theorem allIdx_length : ∀ (s : List Nat), (allIdx s).length = prod s
  | [] => rfl
  | d :: ds => by
    simp only [allIdx, List.length_flatMap, List.length_map, allIdx_length ds, prod]
    induction d with
    | zero => simp
    | succ d ih => rw [List.range_succ, List.map_append, List.sum_append, ih]; simp [Nat.succ_mul]

/-! ### lookups in a list produced from distinct keys -/

theorem lookup_map_inj {α : Type} (ks : List Idx) (g : Idx → Idx) (f : Idx → α) (d : α) (c0 : Idx)
    (hc0 : c0 ∈ ks) (hinj : ∀ c ∈ ks, g c = g c0 → c = c0) :
    lookup (ks.map fun c => (g c, f c)) d (g c0) = f c0 := by
  induction ks with
  | nil => cases hc0
  | cons k ks ih =>
    rw [List.map_cons, lookup_cons]
    by_cases hk : g k = g c0
    · have : k = c0 := hinj k List.mem_cons_self hk
      simp [this]
    · simp only [hk, if_false]
      rcases List.mem_cons.mp hc0 with h | h
      · exact absurd (by rw [h]) hk
      · exact ih h (fun c hc => hinj c (List.mem_cons_of_mem _ hc))

/-! ### `allIdx` enumerates the row-major locations `0 .. prod s - 1` in order -/

theorem flatMap_congr' {β γ : Type} {l : List β} {f g : β → List γ} (h : ∀ a ∈ l, f a = g a) :
    l.flatMap f = l.flatMap g := by
  induction l with
  | nil => rfl
  | cons a l ih =>
    simp only [List.flatMap_cons]
    rw [h a List.mem_cons_self, ih (fun b hb => h b (List.mem_cons_of_mem _ hb))]

theorem flatMap_single {β γ : Type} (l : List β) (g : β → γ) : (l.flatMap fun q => [g q]) = l.map g := by
  induction l with
  | nil => rfl
  | cons a l ih => simp only [List.flatMap_cons, List.map_cons, List.singleton_append, ih]

theorem range_mul (d P : Nat) :
    ((List.range d).flatMap fun i => (List.range P).map fun r => i * P + r) = List.range (d * P) := by
  induction d with
  | zero => simp
  | succ d ih =>
    rw [List.range_succ, List.flatMap_append, ih, List.flatMap_singleton, Nat.succ_mul, List.range_add]

theorem allIdx_ravel : ∀ (s : List Nat), (allIdx s).map (fun i => ravel i s) = List.range (prod s)
  | [] => by simp [allIdx, ravel, prod, List.range_succ]
  | d :: ds => by
    simp only [allIdx, prod, List.map_flatMap, List.map_map]
    rw [← range_mul d (prod ds)]
    apply flatMap_congr'
    intro i _
    rw [← allIdx_ravel ds, List.map_map]
    apply List.map_congr_left
    intro r _
    simp [ravel]

theorem allIdx_getElem_ravel {s : List Nat} {c : Idx} (hc : InB c s) (h : ravel c s < (allIdx s).length) :
    (allIdx s)[ravel c s] = c := by
  have hk : ravel c s < prod s := ravel_lt hc
  have hmem : (allIdx s)[ravel c s] ∈ allIdx s := List.getElem_mem h
  have hin : InB ((allIdx s)[ravel c s]) s := (mem_allIdx_iff s _).mp hmem
  apply ravel_inj hin hc
  have h1 : ((allIdx s).map (fun i => ravel i s))[ravel c s]'(by simpa using h) = (List.range (prod s))[ravel c s]'(by simpa using hk) := by
    simp only [allIdx_ravel]
  simpa using h1

/-- reading the `ravel c s`-th element of a listing over `allIdx s` gives the element made from `c` -/
theorem allIdx_map_getD_ravel {β : Type} {s : List Nat} {c : Idx} (hc : InB c s) (g : Idx → β) (d : β) :
    ((allIdx s).map g).getD (ravel c s) d = g c := by
  have hk : ravel c s < (allIdx s).length := by rw [allIdx_length]; exact ravel_lt hc
  rw [getD_of_lt _ _ _ (by simpa using hk), List.getElem_map, allIdx_getElem_ravel hc hk]

/-- listing a flat buffer through `ravel` over all indices gives the buffer back -/
theorem allIdx_map_getD_flat {β : Type} (s : List Nat) (l : List β) (d : β) (hl : l.length = prod s) :
    (allIdx s).map (fun i => l.getD (ravel i s) d) = l := by
  have : (allIdx s).map (fun i => l.getD (ravel i s) d) = ((allIdx s).map (fun i => ravel i s)).map (fun k => l.getD k d) := by
    rw [List.map_map]; rfl
  rw [this, allIdx_ravel, ← hl]
  apply List.ext_getElem (by simp)
  intro k h1 h2
  simp only [List.getElem_map, List.getElem_range]
  exact getD_of_lt _ _ _ h2

/-! ### the level walk -/

theorem walk_dense (arrs : List (List Nat)) : ∀ (ns : List Nat) (p : Nat),
    walk (List.replicate ns.length .dense) ns arrs p = (allIdx ns).map fun c => (c, p * prod ns + ravel c ns)
  | [], p => by simp [walk, allIdx, prod, ravel]
  | n :: ns, p => by
    simp only [List.length_cons, List.replicate_succ, walk, allIdx, List.map_flatMap, List.map_map]
    apply flatMap_congr'
    intro i _
    rw [walk_dense arrs ns (p * n + i), List.map_map]
    apply List.map_congr_left
    intro c _
    simp only [Function.comp, ravel, prod, Prod.mk.injEq, true_and]
    rw [Nat.add_mul, Nat.mul_assoc, Nat.add_assoc]

theorem isThisFormat_dense_kinds : ∀ (ls : List Level),
    isThisFormat (denseLevels ls.length) ls = true → ls.map (·.fmt) = List.replicate ls.length .dense
  | [], _ => rfl
  | l :: ls, h => by
    have ih := isThisFormat_dense_kinds ls
    simp only [isThisFormat, denseLevels, List.length_cons, List.replicate_succ, List.zip_cons_cons, List.all_cons,
      Bool.and_eq_true, beq_iff_eq, List.length_replicate, dLevel] at h ih ⊢
    simp only [List.map_cons, List.cons.injEq]
    refine ⟨h.2.1.1.symm, ih ⟨trivial, h.2.2⟩⟩

theorem isDense_kinds {f : Format} (h : f.isDense = true) : f.kinds = List.replicate f.rank .dense :=
  isThisFormat_dense_kinds f.levels h

theorem walk_singletons : ∀ (crds : List (List Nat)) (ns : List Nat) (rest : List (List Nat)) (q : Nat),
    ns.length = crds.length →
    walk (List.replicate crds.length .singleton) ns (crds ++ rest) q = [(crds.map (fun c => c.getD q 0), q)]
  | [], [], _, _, _ => by simp [walk]
  | crd :: crds, _ :: ns, rest, q, h => by
    simp only [List.length_cons, List.replicate_succ, List.cons_append, walk, List.map_cons]
    rw [walk_singletons crds ns rest q (by simpa using h)]
    rfl
  | [], _ :: _, _, _, h => by simp at h
  | _ :: _, [], _, _, h => by simp at h

/-- the walk of a COO format (one compressed level, then singletons): one path per position -/
theorem walk_coo (pos crd0 : List Nat) (crds : List (List Nat)) (n : Nat) (ns : List Nat)
    (h : ns.length = crds.length) :
    walk (.compressed :: List.replicate crds.length .singleton) (n :: ns) (pos :: crd0 :: crds) 0
      = (List.range' (pos.getD 0 0) (pos.getD 1 0 - pos.getD 0 0)).map fun q =>
          (crd0.getD q 0 :: crds.map (fun c => c.getD q 0), q) := by
  have key : ∀ q, (walk (List.replicate crds.length .singleton) ns crds q).map (fun e => (crd0.getD q 0 :: e.1, e.2))
      = [(crd0.getD q 0 :: crds.map (fun c => c.getD q 0), q)] := by
    intro q
    have := walk_singletons crds ns [] q h
    rw [List.append_nil] at this
    rw [this]
    rfl
  simp only [walk, Nat.zero_add, key]
  exact flatMap_single _ _

/-- the walk of a CSR/CSC format (one dense level, one compressed level) -/
theorem walk_csx (pos crd : List Nat) (R C : Nat) :
    walk [.dense, .compressed] [R, C] [pos, crd] 0
      = (List.range R).flatMap fun r =>
          (List.range' (pos.getD r 0) (pos.getD (r + 1) 0 - pos.getD r 0)).map fun q => ([r, crd.getD q 0], q) := by
  simp only [walk, Nat.zero_mul, Nat.zero_add]
  apply flatMap_congr'
  intro r _
  rw [List.map_flatMap]
  simp only [List.map_cons, List.map_nil]
  exact flatMap_single _ _

/-! ### `uncompress` (the row number of every stored element) with positions -/

theorem zipIdx_replicate (m r k : Nat) :
    (List.replicate m r).zipIdx k = (List.range' k m).map fun q => (r, q) := by
  induction m generalizing k with
  | zero => rfl
  | succ m ih => rw [List.replicate_succ, List.zipIdx_cons, List.range'_succ, List.map_cons, ih]

/-- the prefix of `uncompress` for the first `R'` rows: its length and its elements with positions -/
theorem uncompress_prefix (f : Nat → Nat) (R' : Nat) (hmono : ∀ r, r < R' → f r ≤ f (r + 1)) :
    ((List.range R').flatMap fun r => List.replicate (f (r + 1) - f r) r).length = f R' - f 0
    ∧ f 0 ≤ f R'
    ∧ ((List.range R').flatMap fun r => List.replicate (f (r + 1) - f r) r).zipIdx (f 0)
        = (List.range R').flatMap fun r => (List.range' (f r) (f (r + 1) - f r)).map fun q => (r, q) := by
  induction R' with
  | zero => simp
  | succ R' ih =>
    obtain ⟨h1, h2, h3⟩ := ih (fun r hr => hmono r (Nat.lt_succ_of_lt hr))
    have hm := hmono R' (Nat.lt_succ_self _)
    rw [List.range_succ, List.flatMap_append, List.flatMap_append, List.flatMap_singleton, List.flatMap_singleton]
    refine ⟨?_, Nat.le_trans h2 hm, ?_⟩
    · rw [List.length_append, h1, List.length_replicate]; omega
    · rw [List.zipIdx_append, h3, h1, zipIdx_replicate]
      have : f 0 + (f R' - f 0) = f R' := by omega
      rw [this]

theorem uncompress_zipIdx (indptr : List Nat) (h0 : indptr.getD 0 0 = 0)
    (hmono : ∀ r, r + 1 < indptr.length → indptr.getD r 0 ≤ indptr.getD (r + 1) 0) :
    (uncompress indptr).zipIdx
      = (List.range (indptr.length - 1)).flatMap fun r =>
          (List.range' (indptr.getD r 0) (indptr.getD (r + 1) 0 - indptr.getD r 0)).map fun q => (r, q) := by
  have := (uncompress_prefix (fun r => indptr.getD r 0) (indptr.length - 1) (fun r hr => hmono r (by omega))).2.2
  simp only [h0] at this
  exact this

/-! ### dense formats of any rank and order -/

section dense
variable {α : Type}

/-- a dense format stores the element at array index `i` at the row-major location of its level
coordinates `i[order]` in the level extents `shape[order]` -/
theorem dense_get (f : Format) (shape : List Nat) (arrs : List (List Nat)) (vals : List α) (fill : α)
    (hd : f.isDense = true) (hv : f.valid = true) (hs : shape.length = f.rank) (i : Idx) (hi : InB i shape) :
    get f shape arrs vals fill i = vals.getD (ravel (lvlIdx f.order i) (lvlShape f.order shape)) fill := by
  have hp : f.order.Perm (List.range f.rank) := orderOk_perm hv
  have hL : (lvlShape f.order shape).length = f.rank := by rw [lvlShape, gather_length, perm_length hp]
  have hil : i.length = f.rank := by rw [InB_length hi, hs]
  have hc0 : lvlIdx f.order i ∈ allIdx (lvlShape f.order shape) := (mem_allIdx_iff _ _).mpr (InB_gather hp hs hi)
  have hc0l : (lvlIdx f.order i).length = f.rank := by rw [lvlIdx, gather_length, perm_length hp]
  have key := lookup_map_inj (allIdx (lvlShape f.order shape)) (dimIdx f.order)
    (fun c => vals.getD (ravel c (lvlShape f.order shape)) fill) fill (lvlIdx f.order i) hc0 (by
      intro c hc heq
      have hcl : c.length = f.rank := by rw [allIdx_length_eq hc, hL]
      rw [← lvlIdx_dimIdx hp hcl, ← lvlIdx_dimIdx hp hc0l, heq])
  rw [dimIdx_lvlIdx hp hil] at key
  unfold get entries
  rw [isDense_kinds hd]
  have hw := walk_dense arrs (lvlShape f.order shape) 0
  rw [hL] at hw
  rw [hw, List.map_map]
  have hmap : (allIdx (lvlShape f.order shape)).map
        ((fun e : Idx × Nat => (dimIdx f.order e.1, vals.getD e.2 fill)) ∘ fun c => (c, 0 * prod (lvlShape f.order shape) + ravel c (lvlShape f.order shape)))
      = (allIdx (lvlShape f.order shape)).map fun c => (dimIdx f.order c, vals.getD (ravel c (lvlShape f.order shape)) fill) := by
    apply List.map_congr_left
    intro c _
    simp
  rw [hmap]
  exact key

theorem invPerm_range (n : Nat) : invPerm (List.range n) = List.range n := by
  have hp : (List.range n).Perm (List.range n) := List.Perm.refl _
  apply ext_getD
  · rw [invPerm_length hp]; simp
  · intro k hk
    rw [invPerm_length hp] at hk
    have := invPerm_getD_order hp hk
    rw [getD_range _ _ _ hk] at this
    rw [this, getD_range _ _ _ hk]

theorem gather_range (i : List Nat) : gather i (List.range i.length) = i := range_map_getD i

/-- `to_numpy` (with either way of computing `storage_shape`) returns the dense meaning of the
constituent array whenever `storage_shape` is the tuple of level extents -/
theorem toNumpyWith_ok [Inhabited α] (sf : ShapeFrom) (x : MArr α) (fill : α)
    (hd : x.fmt.isDense = true) (hv : x.fmt.valid = true) (hs : x.shape.length = x.fmt.rank)
    (hlen : x.vals.length = prod x.shape)
    (hsf : gather x.shape (match sf with | .argOrder => argOrder x.fmt.rank x.fmt.order | .order => x.fmt.order)
            = lvlShape x.fmt.order x.shape) :
    toNumpyWith sf x = .ok { shape := x.shape, flat := x.dense fill } := by
  have hp : x.fmt.order.Perm (List.range x.fmt.rank) := orderOk_perm hv
  have hprod : prod (lvlShape x.fmt.order x.shape) = x.vals.length := by rw [lvlShape, prod_gather hp hs, hlen]
  have hshape : gather (lvlShape x.fmt.order x.shape) (invPerm x.fmt.order) = x.shape := dimIdx_lvlIdx hp hs
  have main : ∀ ss, ss = lvlShape x.fmt.order x.shape →
      (if prod ss ≠ x.vals.length then (Except.error Err.value : Except Err (DArr α))
       else .ok (DArr.transpose { shape := ss, flat := x.vals } (invPerm x.fmt.order)))
        = .ok { shape := x.shape, flat := x.dense fill } := by
    intro ss hss
    subst hss
    simp only [hprod, ne_eq, not_true_eq_false, if_false, DArr.transpose, hshape, invPerm_invPerm hp]
    congr 2
    apply List.map_congr_left
    intro j hj
    have hjin : InB j x.shape := (mem_allIdx_iff _ _).mp hj
    have := dense_get x.fmt x.shape x.arrays x.vals fill hd hv hs j hjin
    have hlt : ravel (gather j x.fmt.order) (lvlShape x.fmt.order x.shape) < x.vals.length := by
      rw [← hprod]; exact ravel_lt (InB_gather hp hs hjin)
    rw [getD_default_irrel _ _ default fill hlt]
    exact this.symm
  cases sf with
  | argOrder =>
    simp only at hsf
    simp only [toNumpyWith, hd, Bool.not_true, Bool.false_eq_true, if_false]
    rw [argOrder_eq_invPerm hp] at hsf ⊢
    exact main _ hsf
  | order =>
    simp only at hsf
    simp only [toNumpyWith, hd, Bool.not_true, Bool.false_eq_true, if_false]
    rw [argOrder_eq_invPerm hp]
    exact main _ hsf

/-- the dense meaning of the values `encodeDense` writes is the array -/
theorem encodeDense_dense [Inhabited α] (o : List Nat) (a : DArr α) (dtype : String) (fill : α)
    (hp : o.Perm (List.range a.shape.length)) (hlen : a.flat.length = prod a.shape) :
    (encodeDense o a dtype).dense fill = a.flat := by
  have hrank : (encodeDense o a dtype).fmt.rank = a.shape.length := by simp [encodeDense, Format.rank, denseLevels]
  have hd : (encodeDense o a dtype).fmt.isDense = true := by
    simp only [Format.isDense, hrank]
    simp only [encodeDense, isThisFormat, denseLevels, List.length_replicate, beq_self_eq_true, Bool.true_and,
      List.all_eq_true]
    intro p hp'
    have h1 := (List.of_mem_zip hp').1
    have h2 := (List.of_mem_zip hp').2
    rw [List.eq_of_mem_replicate h1, List.eq_of_mem_replicate h2]
    simp
  have hv : (encodeDense o a dtype).fmt.valid = true := by
    simp only [Format.valid, hrank]; exact perm_orderOk hp
  unfold MArr.dense toDense
  have hcong : (allIdx (encodeDense o a dtype).shape).map (get (encodeDense o a dtype).fmt (encodeDense o a dtype).shape
        (encodeDense o a dtype).arrays (encodeDense o a dtype).vals fill)
      = (allIdx a.shape).map fun i => a.flat.getD (ravel i a.shape) fill := by
    show (allIdx a.shape).map _ = _
    apply List.map_congr_left
    intro i hi
    have hin : InB i a.shape := (mem_allIdx_iff _ _).mp hi
    have hdg := dense_get (encodeDense o a dtype).fmt (encodeDense o a dtype).shape (encodeDense o a dtype).arrays
      (encodeDense o a dtype).vals fill hd hv (by rw [hrank]; rfl) i hin
    rw [hdg]
    show ((allIdx (lvlShape o a.shape)).map fun c => a.flat.getD (ravel (dimIdx o c) a.shape) default).getD
        (ravel (lvlIdx o i) (lvlShape o a.shape)) fill = _
    have hin' : InB (lvlIdx o i) (lvlShape o a.shape) := InB_gather hp rfl hin
    rw [allIdx_map_getD_ravel hin', dimIdx_lvlIdx hp (InB_length hin)]
    exact getD_default_irrel _ _ _ _ (by rw [hlen]; exact ravel_lt hin)
  rw [hcong]
  exact allIdx_map_getD_flat a.shape a.flat fill hlen

end dense

/-! ### `_determine_format` -/

theorem mkFormat_ok {ls : List Level} {o : List Nat} {pw cw : Nat} {dt : String} {f : Format}
    (h : mkFormat ls o pw cw dt = .ok f) :
    f = { levels := ls, order := o, posWidth := pw, crdWidth := cw, dtype := dt } ∧ orderOk o ls.length = true := by
  unfold mkFormat at h
  split at h
  next hc => simp only [Except.ok.injEq] at h; exact ⟨h.symm, hc⟩
  next => cases h

theorem mkFormat_of_ok {ls : List Level} {o : List Nat} (pw cw : Nat) (dt : String)
    (h : orderOk o ls.length = true) :
    mkFormat ls o pw cw dt = .ok { levels := ls, order := o, posWidth := pw, crdWidth := cw, dtype := dt } := by
  simp [mkFormat, h]

def maxCount (union : Bool) (fmts : List Format) : Nat :=
  fmts.foldl (fun m g => max m (if union then countDense g else countSparse g)) 0

theorem dfFold_pos (union : Bool) : ∀ (fmts : List Format) (s : DFState),
    (fmts.foldl (dfStep union) s).posWidth = fmts.foldl (fun m g => max m g.posWidth) s.posWidth
  | [], _ => rfl
  | g :: fmts, s => by simp only [List.foldl_cons]; rw [dfFold_pos union fmts]; rfl

theorem dfFold_crd (union : Bool) : ∀ (fmts : List Format) (s : DFState),
    (fmts.foldl (dfStep union) s).crdWidth = fmts.foldl (fun m g => max m g.crdWidth) s.crdWidth
  | [], _ => rfl
  | g :: fmts, s => by simp only [List.foldl_cons]; rw [dfFold_crd union fmts]; rfl

theorem dfFold_count (union : Bool) : ∀ (fmts : List Format) (s : DFState),
    (fmts.foldl (dfStep union) s).nCounted.getD 0
      = fmts.foldl (fun m g => max m (if union then countDense g else countSparse g)) (s.nCounted.getD 0)
  | [], _ => rfl
  | g :: fmts, s => by
    simp only [List.foldl_cons]
    rw [dfFold_count union fmts]
    congr 1
    cases hs : s.nCounted <;> simp [dfStep, hs]

/-- the order carried by the loop is `"C"` or a permutation of some `0..k-1` with `k ≤ n` -/
def GoodOrder (n : Nat) (ord : Option (List Nat)) : Prop :=
  ∀ o, ord = some o → ∃ k, k ≤ n ∧ o.Perm (List.range k)

theorem dfFold_order (union : Bool) (n : Nat) : ∀ (fmts : List Format) (s : DFState),
    (∀ g ∈ fmts, g.valid = true ∧ g.rank ≤ n) → GoodOrder n s.order →
    GoodOrder n (fmts.foldl (dfStep union) s).order
  | [], _, _, hg => hg
  | g :: fmts, s, hv, hg => by
    simp only [List.foldl_cons]
    apply dfFold_order union n fmts _ (fun g' hg' => hv g' (List.mem_cons_of_mem _ hg'))
    have hgv := hv g List.mem_cons_self
    intro o ho
    simp only [dfStep] at ho
    cases hso : s.order with
    | none => rw [hso] at ho; cases ho
    | some o' =>
      rw [hso] at ho
      simp only at ho
      split at ho
      · simp only [Option.some.injEq] at ho
        rw [← ho]
        exact ⟨g.rank, hgv.2, orderOk_perm hgv.1⟩
      · split at ho
        · cases ho
        · simp only [Option.some.injEq] at ho
          rw [← ho]
          exact hg o' hso

theorem dfOrder_ok (n : Nat) (ord : Option (List Nat)) (hg : GoodOrder n ord) : orderOk (dfOrder ord n) n = true := by
  apply perm_orderOk
  cases ord with
  | none => exact List.Perm.refl _
  | some o =>
    obtain ⟨k, hk, hp⟩ := hg o rfl
    have hl : o.length = k := perm_length hp
    simp only [dfOrder]
    rw [List.take_of_length_le (by simp [hl]; omega), hl]
    have h1 : (o ++ List.range' k (n - k)).Perm (List.range k ++ List.range' k (n - k)) := hp.append_right _
    have h2 : List.range k ++ List.range' k (n - k) = List.range n := by
      rw [List.range_eq_range', List.range_eq_range']
      have := List.range'_append (s := 0) (m := k) (n := n - k) (step := 1)
      simp only [Nat.zero_add, Nat.one_mul] at this
      rw [this]
      congr 1
      omega
    rw [h2] at h1
    exact h1

theorem sparseDenseLevels_length (k n : Nat) (h : k ≤ n) : (sparseDenseLevels k n).length = n := by
  simp [sparseDenseLevels]; omega

theorem foldl_max_le {β : Type} (f : β → Nat) : ∀ (l : List β) (m : Nat),
    m ≤ l.foldl (fun m g => max m (f g)) m ∧ ∀ g ∈ l, f g ≤ l.foldl (fun m g => max m (f g)) m
  | [], m => ⟨Nat.le_refl _, fun _ h => by cases h⟩
  | a :: l, m => by
    simp only [List.foldl_cons]
    obtain ⟨h1, h2⟩ := foldl_max_le f l (max m (f a))
    refine ⟨Nat.le_trans (Nat.le_max_left _ _) h1, ?_⟩
    intro g hg
    rcases List.mem_cons.mp hg with h | h
    · rw [h]; exact Nat.le_trans (Nat.le_max_right _ _) h1
    · exact h2 g h

theorem le_maxRank (fmts : List Format) : ∀ g ∈ fmts, g.rank ≤ maxRank fmts :=
  (foldl_max_le Format.rank fmts 0).2

/-! ### CSR / CSC / COO: the level semantics is scipy's meaning -/

section scipy
variable {α : Type}

theorem kinds_csf2 (canonical : Bool) : (withCanonical canonical (csfLevels 2)).map (·.fmt) = [.dense, .compressed] := by
  cases canonical <;> rfl

theorem kinds_coo2 (canonical : Bool) : (withCanonical canonical (cooLevels 2)).map (·.fmt) = [.compressed, .singleton] := by
  cases canonical <;> rfl

/-- what the indptr of a scipy CSR/CSC array satisfies -/
def IndptrOk (indptr : List Nat) : Prop :=
  indptr.getD 0 0 = 0 ∧ ∀ r, r + 1 < indptr.length → indptr.getD r 0 ≤ indptr.getD (r + 1) 0

instance (indptr : List Nat) : Decidable (IndptrOk indptr) := by
  unfold IndptrOk
  have : Decidable (∀ r, r + 1 < indptr.length → indptr.getD r 0 ≤ indptr.getD (r + 1) 0) :=
    decidable_of_iff (∀ r ∈ List.range indptr.length, r + 1 < indptr.length → indptr.getD r 0 ≤ indptr.getD (r + 1) 0)
      ⟨fun h r hr => h r (List.mem_range.mpr (by omega)) hr, fun h r _ hr => h r hr⟩
  infer_instance

theorem csx_entries (f : Format) (csr : Bool) (R C : Nat) (indptr indices : List Nat) (data : List α) (fill : α)
    (hk : f.kinds = [.dense, .compressed]) (ho : f.order = if csr then [0, 1] else [1, 0])
    (hlen : indptr.length = (if csr then R else C) + 1) (hip : IndptrOk indptr) :
    entries f [R, C] [indptr, indices] data fill = (Scipy.csx csr [R, C] indptr indices data).triples fill := by
  unfold entries
  simp only [Scipy.triples]
  rw [hk, uncompress_zipIdx indptr hip.1 hip.2, hlen, Nat.add_sub_cancel]
  cases csr with
  | true =>
    simp only [if_true] at ho ⊢
    have hL : lvlShape f.order [R, C] = [R, C] := by rw [ho]; rfl
    rw [hL, walk_csx, List.map_flatMap, List.map_flatMap]
    apply flatMap_congr'
    intro r _
    rw [List.map_map, List.map_map]
    apply List.map_congr_left
    intro q _
    simp only [Function.comp, ho]
    rfl
  | false =>
    simp only [Bool.false_eq_true, if_false] at ho ⊢
    have hL : lvlShape f.order [R, C] = [C, R] := by rw [ho]; rfl
    rw [hL, walk_csx, List.map_flatMap, List.map_flatMap]
    apply flatMap_congr'
    intro r _
    rw [List.map_map, List.map_map]
    apply List.map_congr_left
    intro q _
    simp only [Function.comp, ho]
    rfl

/-- an n-d COO format: one stored element per position `q ∈ [pos[0], pos[1])`, with level coordinates
`(crd_0[q], …, crd_{n-1}[q])` -/
theorem coo_entries (f : Format) (shape : List Nat) (pos crd0 : List Nat) (crds : List (List Nat)) (vals : List α) (fill : α)
    (hk : f.kinds = .compressed :: List.replicate crds.length .singleton)
    (hs : (lvlShape f.order shape).length = crds.length + 1) :
    entries f shape (pos :: crd0 :: crds) vals fill
      = (List.range' (pos.getD 0 0) (pos.getD 1 0 - pos.getD 0 0)).map fun q =>
          (dimIdx f.order (crd0.getD q 0 :: crds.map fun c => c.getD q 0), vals.getD q fill) := by
  unfold entries
  rw [hk]
  cases hL : lvlShape f.order shape with
  | nil => rw [hL] at hs; simp at hs
  | cons n ns =>
    rw [hL] at hs
    rw [walk_coo pos crd0 crds n ns (by simpa using hs), List.map_map]
    rfl

theorem dimIdx_range (c : Idx) : dimIdx (List.range c.length) c = c := by
  unfold dimIdx
  rw [invPerm_range]
  exact gather_range c

/-- the COO encoding of an entry list stores exactly that list, in that order -/
theorem coo_encode_entries (f : Format) (shape : List Nat) (es : List (Idx × α)) (n : Nat) (fill : α)
    (hk : f.kinds = .compressed :: List.replicate n .singleton) (ho : f.order = List.range (n + 1))
    (hs : shape.length = n + 1) (hkeys : ∀ e ∈ es, e.1.length = n + 1) :
    entries f shape (cooEncode es (n + 1)) (es.map (·.2)) fill = es := by
  have hdecomp : cooEncode es (n + 1)
      = [0, es.length] :: (es.map fun e => e.1.getD 0 0) :: (List.range n).map fun k => es.map fun e => e.1.getD (k + 1) 0 := by
    simp only [cooEncode, List.range_succ_eq_map, List.map_cons, List.map_map]
    rfl
  rw [hdecomp, coo_entries f shape _ _ _ _ fill (by simpa using hk) (by rw [ho, lvlShape, gather_length]; simp)]
  simp only [List.getD_cons_zero, List.getD_cons_succ, Nat.sub_zero]
  apply List.ext_getElem (by simp)
  intro q h1 h2
  simp only [List.length_map, List.length_range'] at h1
  have hq : (List.range' 0 es.length)[q]'(by simpa using h2) = q := by simp
  simp only [List.getElem_map, hq]
  have hlen := hkeys es[q] (List.getElem_mem h2)
  have hkey : ((List.map (fun e => e.1.getD 0 0) es).getD q 0 ::
        List.map (fun c => c.getD q 0) (List.map (fun k => List.map (fun e => e.1.getD (k + 1) 0) es) (List.range n)))
      = es[q].1 := by
    have h0 : (List.map (fun e : Idx × α => e.1.getD 0 0) es).getD q 0 = es[q].1.getD 0 0 := by
      rw [getD_map (fun e : Idx × α => e.1.getD 0 0) es q es[q] 0 h2, getD_of_lt _ _ _ h2]
    have hrest : List.map (fun c => c.getD q 0) (List.map (fun k => List.map (fun e : Idx × α => e.1.getD (k + 1) 0) es) (List.range n))
        = (List.range n).map fun k => es[q].1.getD (k + 1) 0 := by
      rw [List.map_map]
      apply List.map_congr_left
      intro k _
      simp only [Function.comp]
      rw [getD_map (fun e : Idx × α => e.1.getD (k + 1) 0) es q es[q] 0 h2, getD_of_lt _ _ _ h2]
    rw [h0, hrest]
    have := range_map_getD es[q].1
    rw [hlen, List.range_succ_eq_map, List.map_cons, List.map_map] at this
    exact this
  rw [hkey, ho, ← hlen, dimIdx_range]
  rw [getD_map (fun e : Idx × α => e.2) es q es[q] fill h2, getD_of_lt _ _ _ h2]

end scipy

end Levels
end SparseV

/-
  SparseV.Lemmas.Range — arithmetic of a normalised slice `range(a, b, s)`:
  `t ↦ a + t*s` is a bijection between `[0, sliceLen a b s)` and the coordinates selected by
  `inSlice a b s`, with inverse `c ↦ (c - a) / s` (what `getitem` computes), and the generated
  `clip_slice` always returns a normalised triple.
-/
import SparseV.Spec.Getitem
import SparseV.Lemmas.Rewrite
import SparseV.Lemmas.Canonical
import SparseV.Lemmas.Gen.Slicing
namespace SparseV
open SparseV.Spec

/-- `t < ⌈n / m⌉ ↔ t * m < n` for a positive divisor (the length formula of `range`) -/
theorem lt_ceilDiv (m n : Int) (hm : 0 < m) (t : Nat) :
    t < ((n + m - 1) / m).toNat ↔ (t : Int) * m < n := by
  rw [Int.lt_toNat]
  have h1 : (t : Int) < (n + m - 1) / m ↔ (t : Int) + 1 ≤ (n + m - 1) / m := by omega
  rw [h1, Int.le_ediv_iff_mul_le hm, Int.add_mul]
  omega

/-- the generated `clip_slice` returns a normalised triple (any start/stop, any non-zero step) -/
theorem clipSlice_normalised (a b s dim : Int) (hs : s ≠ 0) :
    NormSlice (Gen.clipSlice a b s dim).1 (Gen.clipSlice a b s dim).2.1 (Gen.clipSlice a b s dim).2.2 dim := by
  rw [Gen.clipSlice_eq]
  unfold NormSlice Ref.clipSlice
  split <;> simp only <;> omega

/-- the step that reaches `clip_slice` is the user's step (`1` for `None`) -/
theorem normalizeSlice_eq_clip (start stop step : Option Int) (dim : Int) :
    ∃ a b, normalizeSlice start stop step dim = Gen.clipSlice a b (step.getD 1) dim := by
  have hstep : (Gen.posifySlice dim (Gen.replaceNone start stop step dim).1 (Gen.replaceNone start stop step dim).2.1
      (Gen.replaceNone start stop step dim).2.2).2.2 = step.getD 1 := by
    simp only [Gen.posifySlice_eq, Gen.replaceNone_eq, Ref.posifySlice, Ref.replaceNone_step]
  exact ⟨_, _, by simp only [normalizeSlice]; rw [hstep]⟩

/-- **normalizeSlice_normalised.** What `normalize_index` makes of a slice entry (`replace_none`,
`posify_index`, `clip_slice`, the generated definitions) is a normalised triple. -/
theorem normalizeSlice_normalised (start stop step : Option Int) (dim : Int) (hs : step ≠ some 0) :
    NormSlice (normalizeSlice start stop step dim).1 (normalizeSlice start stop step dim).2.1
      (normalizeSlice start stop step dim).2.2 dim := by
  obtain ⟨a, b, h⟩ := normalizeSlice_eq_clip start stop step dim
  rw [h]
  apply clipSlice_normalised
  cases step with
  | none => simp
  | some st => intro h0; apply hs; simpa using h0

/-- **slice_fwd.** For a normalised slice and `t < len(range(a, b, s))`, the coordinate
`a + t*s` is inside the axis, is selected, and `getitem`'s formula `(c - a) / s` recovers `t`. -/
theorem slice_fwd (a b s dim : Int) (h : NormSlice a b s dim) (t : Nat) (ht : t < sliceLen a b s) :
    0 ≤ a + (t : Int) * s ∧ a + (t : Int) * s < dim ∧ inSlice a b s (a + (t : Int) * s) = true ∧
      (a + (t : Int) * s - a) / s = (t : Int) := by
  have hdiv : (a + (t : Int) * s - a) = (t : Int) * s := by omega
  rcases h with ⟨hs, hab, hbd, ha⟩ | ⟨hs, hb, hba, ha⟩
  · have hs0 : s ≠ 0 := by omega
    simp only [sliceLen, hs, if_true] at ht
    split at ht
    · rename_i hlt
      have h1 := (lt_ceilDiv s (b - a) hs t).mp ht
      have h2 : 0 ≤ (t : Int) * s := Int.mul_nonneg (Int.natCast_nonneg t) (by omega)
      have ha' := ha hlt
      refine ⟨by omega, by omega, ?_, ?_⟩
      · simp only [inSlice, hs, if_true, hdiv, Int.mul_emod_left, decide_eq_true_eq]
        exact ⟨by omega, by omega, trivial⟩
      · rw [hdiv, Int.mul_ediv_cancel _ hs0]
    · omega
  · have hs0 : s ≠ 0 := by omega
    have hs1 : ¬ s > 0 := by omega
    simp only [sliceLen, hs, hs1, if_true, if_false] at ht
    split at ht
    · rename_i hlt
      have h1 := (lt_ceilDiv (-s) (a - b) (by omega) t).mp ht
      have h2 : 0 ≤ (t : Int) * (-s) := Int.mul_nonneg (Int.natCast_nonneg t) (by omega)
      rw [Int.mul_neg] at h1 h2
      have ha' := ha hlt
      refine ⟨by omega, by omega, ?_, ?_⟩
      · have hdiv' : a - (a + (t : Int) * s) = (t : Int) * (-s) := by rw [Int.mul_neg]; omega
        simp only [inSlice, hs, hs1, if_true, if_false, hdiv', Int.mul_emod_left, decide_eq_true_eq]
        exact ⟨by omega, by omega, trivial⟩
      · rw [hdiv, Int.mul_ediv_cancel _ hs0]
    · omega

/-- **slice_bwd.** Conversely, a selected coordinate `c` is `a + t*s` for
`t = (c - a) / s < len(range(a, b, s))`. -/
theorem slice_bwd (a b s c : Int) (hin : inSlice a b s c = true) :
    ((c - a) / s).toNat < sliceLen a b s ∧ a + (((c - a) / s).toNat : Int) * s = c := by
  unfold inSlice at hin
  by_cases hs : s > 0
  · simp only [hs, if_true, decide_eq_true_eq] at hin
    obtain ⟨hac, hcb, hmod⟩ := hin
    have hq : (c - a) / s * s = c - a := Int.ediv_mul_cancel_of_emod_eq_zero hmod
    have hq0 : 0 ≤ (c - a) / s := Int.ediv_nonneg (by omega) (by omega)
    have hcast : (((c - a) / s).toNat : Int) = (c - a) / s := Int.toNat_of_nonneg hq0
    refine ⟨?_, by rw [hcast]; omega⟩
    have hab : a < b := by omega
    simp only [sliceLen, hs, hab, if_true]
    apply (lt_ceilDiv s (b - a) hs _).mpr
    rw [hcast]; omega
  · simp only [hs, if_false] at hin
    by_cases hs' : s < 0
    · simp only [hs', if_true, decide_eq_true_eq] at hin
      obtain ⟨hbc, hca, hmod⟩ := hin
      have hdvd : s ∣ (c - a) := by
        have h1 : (-s) ∣ (a - c) := Int.dvd_of_emod_eq_zero hmod
        have h2 : s ∣ (a - c) := Int.neg_dvd.mp h1
        have h3 : c - a = -(a - c) := by omega
        rw [h3]; exact Int.dvd_neg.mpr h2
      have hq : (c - a) / s * s = c - a := Int.ediv_mul_cancel hdvd
      have hq0 : 0 ≤ (c - a) / s := by
        apply Int.not_lt.mp
        intro hneg
        have := Int.mul_pos_of_neg_of_neg hneg hs'
        omega
      have hcast : (((c - a) / s).toNat : Int) = (c - a) / s := Int.toNat_of_nonneg hq0
      refine ⟨?_, by rw [hcast]; omega⟩
      have hab : b < a := by omega
      simp only [sliceLen, hs, hs', hab, if_true, if_false]
      apply (lt_ceilDiv (-s) (a - b) (by omega) _).mpr
      rw [hcast, Int.mul_neg]; omega
    · simp [hs'] at hin

/-! ### the coordinate map of `getitem` and its inverse `compose` -/

theorem validIdx_firstArrLen : ∀ (idx : List NIx) (shape : List Nat), ValidIdx idx shape →
    firstArrLen idx = none := by
  intro idx
  induction idx with
  | nil => intro _ _; rfl
  | cons e rest ih =>
    intro shape hv
    cases e with
    | newaxis => simp only [ValidIdx] at hv; simpa [firstArrLen] using ih shape hv
    | int n =>
      cases shape with
      | nil => simp [ValidIdx] at hv
      | cons d ds => simp only [ValidIdx] at hv; simpa [firstArrLen] using ih ds hv.2
    | slice a b s =>
      cases shape with
      | nil => simp [ValidIdx] at hv
      | cons d ds => simp only [ValidIdx] at hv; simpa [firstArrLen] using ih ds hv.2
    | arr xs => simp [ValidIdx] at hv

/-- a stored coordinate `c` that `getitem` keeps and sends to `j`: `compose` maps `j` back to `c`,
and `j` is inside the result shape -/
theorem outOf_compose (k : Nat) (adv : Bool) (idx : List NIx) : ∀ (shape : List Nat) (c j : Idx),
    ValidIdx idx shape → InB c shape → outOf k idx c adv = some j →
    compose idx j = c ∧ InB j (outShape idx adv) := by
  induction idx with
  | nil =>
    intro shape c j hv hc h
    cases shape with
    | nil =>
      cases c with
      | nil => simp only [outOf, Option.some.injEq] at h; subst h; simp [compose, outShape]
      | cons => simp at hc
    | cons => simp [ValidIdx] at hv
  | cons e rest ih =>
    intro shape c j hv hc h
    cases e with
    | newaxis =>
      simp only [ValidIdx] at hv
      simp only [outOf, Option.map_eq_some_iff] at h
      obtain ⟨j', hj', rfl⟩ := h
      have := ih shape c j' hv hc hj'
      simp [compose, outShape, this]
    | int n =>
      cases shape with
      | nil => simp [ValidIdx] at hv
      | cons d ds =>
        cases c with
        | nil => simp at hc
        | cons ci cs =>
          simp only [ValidIdx] at hv
          simp only [outOf] at h
          split at h
          · rename_i heq
            have := ih ds cs j hv.2 hc.2 h
            simp only [compose, outShape]
            refine ⟨?_, this.2⟩
            rw [this.1, ← heq]; simp
          · cases h
    | slice a b s =>
      cases shape with
      | nil => simp [ValidIdx] at hv
      | cons d ds =>
        cases c with
        | nil => simp at hc
        | cons ci cs =>
          simp only [ValidIdx] at hv
          simp only [outOf] at h
          split at h
          · rename_i hin
            simp only [Option.map_eq_some_iff] at h
            obtain ⟨j', hj', rfl⟩ := h
            have := ih ds cs j' hv.2 hc.2 hj'
            have hb := slice_bwd a b s ci hin
            simp only [compose, outShape, InB_cons]
            refine ⟨?_, hb.1, this.2⟩
            rw [hb.2, this.1]; simp
          · cases h
    | arr xs => simp [ValidIdx] at hv

/-- a result index `j` inside the result shape: `compose idx j` is inside the operand shape, is
kept by `getitem`, and is sent to `j` -/
theorem compose_outOf (k : Nat) (adv : Bool) (idx : List NIx) : ∀ (shape : List Nat) (j : Idx),
    ValidIdx idx shape → InB j (outShape idx adv) →
    outOf k idx (compose idx j) adv = some j ∧ InB (compose idx j) shape := by
  induction idx with
  | nil =>
    intro shape j hv hj
    cases shape with
    | nil =>
      cases j with
      | nil => simp [compose, outOf]
      | cons => simp [outShape] at hj
    | cons => simp [ValidIdx] at hv
  | cons e rest ih =>
    intro shape j hv hj
    cases e with
    | newaxis =>
      simp only [ValidIdx] at hv
      cases j with
      | nil => simp [outShape] at hj
      | cons t j' =>
        simp only [outShape, InB_cons] at hj
        have ht : t = 0 := by omega
        subst ht
        have := ih shape j' hv hj.2
        simp [compose, outOf, this]
    | int n =>
      cases shape with
      | nil => simp [ValidIdx] at hv
      | cons d ds =>
        simp only [ValidIdx] at hv
        simp only [outShape] at hj
        have := ih ds j hv.2 hj
        have hcast : (n.toNat : Int) = n := Int.toNat_of_nonneg hv.1.1
        simp only [compose, outOf, hcast, if_true, InB_cons]
        exact ⟨this.1, by omega, this.2⟩
    | slice a b s =>
      cases shape with
      | nil => simp [ValidIdx] at hv
      | cons d ds =>
        simp only [ValidIdx] at hv
        cases j with
        | nil => simp [outShape] at hj
        | cons t j' =>
          simp only [outShape, InB_cons] at hj
          have := ih ds j' hv.2 hj.2
          obtain ⟨h0, hd, hin, hq⟩ := slice_fwd a b s d hv.1 t hj.1
          have hcast : ((a + (t : Int) * s).toNat : Int) = a + (t : Int) * s := Int.toNat_of_nonneg h0
          simp only [compose, outOf, hcast, hin, if_true, hq, this.1, Option.map_some, Int.toNat_natCast,
            InB_cons, true_and]
          exact ⟨by omega, this.2⟩
    | arr xs => simp [ValidIdx] at hv

/-- an all-integer index has a 0-d result shape and is not the full-slice shortcut -/
theorem outShape_of_not_hasOut (adv : Bool) : ∀ (idx : List NIx), hasOut idx = false → outShape idx adv = []
  | [], _ => rfl
  | .int n :: rest, h => by
    simp only [hasOut, List.any_cons, Bool.false_or] at h
    simpa [outShape] using outShape_of_not_hasOut adv rest h
  | .newaxis :: _, h => by simp [hasOut] at h
  | .slice _ _ _ :: _, h => by simp [hasOut] at h
  | .arr _ :: _, h => by simp [hasOut] at h

theorem isFullIndex_of_not_hasOut (idx : List NIx) (shape : List Nat) (h : hasOut idx = false) :
    isFullIndex idx shape = false := by
  cases idx with
  | nil => simp [isFullIndex]
  | cons e rest =>
    cases e with
    | int n => cases shape <;> simp [isFullIndex]
    | newaxis => simp [hasOut] at h
    | slice _ _ _ => simp [hasOut] at h
    | arr _ => simp [hasOut] at h

/-- the full-slice shortcut: the result shape is the operand shape and `compose` is the identity -/
theorem isFull_spec (adv : Bool) : ∀ (idx : List NIx) (shape : List Nat),
    idx.length = shape.length →
    ((List.zip idx shape).all fun p => match p.1 with
      | .slice a b s => decide (a = 0 ∧ b = (p.2 : Int) ∧ s = 1)
      | _ => false) = true →
    outShape idx adv = shape ∧ ∀ j : Idx, j.length = idx.length → compose idx j = j := by
  intro idx
  induction idx with
  | nil =>
    intro shape hl _
    cases shape with
    | nil => exact ⟨rfl, fun j hj => by cases j <;> simp_all [compose]⟩
    | cons => simp at hl
  | cons e rest ih =>
    intro shape hl hall
    cases shape with
    | nil => simp at hl
    | cons d ds =>
      simp only [List.zip_cons_cons, List.all_cons, Bool.and_eq_true] at hall
      cases e with
      | slice a b s =>
        simp only [decide_eq_true_eq] at hall
        obtain ⟨⟨rfl, rfl, rfl⟩, hrest⟩ := hall
        have := ih ds (by simpa using hl) hrest
        refine ⟨?_, ?_⟩
        · have hlen : sliceLen 0 (d : Int) 1 = d := by
            simp only [sliceLen]
            split <;> (try split) <;> omega
          simp only [outShape, hlen, this.1]
        · intro j hj
          cases j with
          | nil => simp at hj
          | cons t j' =>
            simp only [compose, this.2 j' (by simpa using hj)]
            simp
      | int n => simp at hall
      | newaxis => simp at hall
      | arr xs => simp at hall

theorem isFullIndex_spec (adv : Bool) (idx : List NIx) (shape : List Nat) (h : isFullIndex idx shape = true) :
    outShape idx adv = shape ∧ ∀ j : Idx, j.length = shape.length → compose idx j = j := by
  simp only [isFullIndex, Bool.and_eq_true, decide_eq_true_eq] at h
  have := isFull_spec adv idx shape h.1.1 h.2
  exact ⟨this.1, fun j hj => this.2 j (by omega)⟩

/-! ### order: with positive steps the coordinate map is strictly monotone -/

/-- row-major linear order of in-bounds indices is the lexicographic order (converse of
`ravel_lt_of_lex`) -/
theorem lex_of_ravel_lt : ∀ {i j : Idx} {s : List Nat}, InB i s → InB j s → ravel i s < ravel j s → i < j
  | [], [], [], _, _, h => by simp [ravel] at h
  | a :: as, b :: bs, d :: ds, hi, hj, h => by
    apply List.cons_lt_cons_iff.mpr
    by_cases hab : a < b
    · exact Or.inl hab
    · by_cases hba : a = b
      · subst hba
        simp only [ravel] at h
        exact Or.inr ⟨rfl, lex_of_ravel_lt hi.2 hj.2 (by omega)⟩
      · have hlt : (b :: bs) < (a :: as) := List.cons_lt_cons_iff.mpr (Or.inl (by omega))
        have := ravel_lt_of_lex hj hi hlt
        omega
  | [], _ :: _, [], _, hj, _ => absurd hj (by simp)
  | [], _, _ :: _, hi, _, _ => absurd hi (by simp)
  | _ :: _, _, [], hi, _, _ => absurd hi (by simp)
  | _ :: _, [], _ :: _, _, hj, _ => absurd hj (by simp)

/-- with no negative step, `getitem`'s coordinate map is strictly increasing for the
lexicographic (row-major) order -/
theorem outOf_mono (k : Nat) (adv : Bool) (idx : List NIx) : ∀ (shape : List Nat) (c c' j j' : Idx),
    ValidIdx idx shape → hasNegStep idx = false → InB c shape → InB c' shape → c < c' →
    outOf k idx c adv = some j → outOf k idx c' adv = some j' → j < j' := by
  induction idx with
  | nil =>
    intro shape c c' j j' hv _ hc hc' hlt _ _
    cases shape with
    | nil =>
      cases c <;> cases c' <;> simp_all
    | cons => simp [ValidIdx] at hv
  | cons e rest ih =>
    intro shape c c' j j' hv hneg hc hc' hlt h h'
    simp only [hasNegStep, List.any_cons, Bool.or_eq_false_iff] at hneg
    have hneg' : hasNegStep rest = false := hneg.2
    cases e with
    | newaxis =>
      simp only [ValidIdx] at hv
      simp only [outOf, Option.map_eq_some_iff] at h h'
      obtain ⟨j1, hj1, rfl⟩ := h
      obtain ⟨j1', hj1', rfl⟩ := h'
      exact List.cons_lt_cons_iff.mpr (Or.inr ⟨rfl, ih shape c c' j1 j1' hv hneg' hc hc' hlt hj1 hj1'⟩)
    | int n =>
      cases shape with
      | nil => simp [ValidIdx] at hv
      | cons d ds =>
        cases c with
        | nil => simp at hc
        | cons ci cs =>
          cases c' with
          | nil => simp at hc'
          | cons ci' cs' =>
            simp only [ValidIdx] at hv
            simp only [outOf] at h h'
            split at h
            · split at h'
              · rename_i h1 h2
                have hcc : ci = ci' := by omega
                subst hcc
                rcases List.cons_lt_cons_iff.mp hlt with hl | ⟨_, hl⟩
                · omega
                · exact ih ds cs cs' j j' hv.2 hneg' hc.2 hc'.2 hl h h'
              · cases h'
            · cases h
    | slice a b s =>
      cases shape with
      | nil => simp [ValidIdx] at hv
      | cons d ds =>
        cases c with
        | nil => simp at hc
        | cons ci cs =>
          cases c' with
          | nil => simp at hc'
          | cons ci' cs' =>
            simp only [ValidIdx] at hv
            have hs : 0 ≤ s := by simpa using hneg.1
            simp only [outOf] at h h'
            split at h
            · split at h'
              · rename_i hin hin'
                simp only [Option.map_eq_some_iff] at h h'
                obtain ⟨j1, hj1, rfl⟩ := h
                obtain ⟨j1', hj1', rfl⟩ := h'
                have hb := (slice_bwd a b s ci hin).2
                have hb' := (slice_bwd a b s ci' hin').2
                rcases List.cons_lt_cons_iff.mp hlt with hl | ⟨hl0, hl⟩
                · apply List.cons_lt_cons_iff.mpr
                  left
                  have hlt' : ((((ci : Int) - a) / s).toNat : Int) * s < ((((ci' : Int) - a) / s).toNat : Int) * s := by
                    omega
                  have := Int.lt_of_mul_lt_mul_right hlt' hs
                  omega
                · subst hl0
                  exact List.cons_lt_cons_iff.mpr
                    (Or.inr ⟨rfl, ih ds cs cs' j1 j1' hv.2 hneg' hc.2 hc'.2 hl hj1 hj1'⟩)
              · cases h'
            · cases h
    | arr xs => simp [ValidIdx] at hv

/-! ### `normalize_index` establishes `ValidIdx` -/

theorem normalizeEntry_int_ok (i : Int) (d : Nat) (h : NIx) (he : normalizeEntry (.int i) d = .ok h) :
    ∃ n, h = .int n ∧ 0 ≤ n ∧ n < (d : Int) := by
  simp only [normalizeEntry, normalizeInt_eq] at he
  split at he
  · rename_i v hv
    split at hv
    · rename_i hr
      simp only [Except.ok.injEq] at hv he
      subst he hv
      exact ⟨_, rfl, by split <;> omega⟩
    · cases hv
  · cases he

theorem go_valid : ∀ (es : List IxE) (dims : List Nat) (r : List NIx), (∀ e ∈ es, BasicIxE e) →
    (es.filter fun e => !e.isNone).length = dims.length → normalizeIndex.go es dims = .ok r →
    ValidIdx r dims := by
  intro es
  induction es with
  | nil =>
    intro dims r _ hl h
    simp only [normalizeIndex.go, Except.ok.injEq] at h
    subst h
    cases dims with
    | nil => trivial
    | cons => simp at hl
  | cons e rest ih =>
    intro dims r hb hl h
    have hb' : ∀ e ∈ rest, BasicIxE e := fun e he => hb e (List.mem_cons_of_mem _ he)
    have hbe := hb e List.mem_cons_self
    cases e with
    | newaxis =>
      simp only [normalizeIndex.go] at h
      cases hg : normalizeIndex.go rest dims with
      | error er => simp [hg, bind, Except.bind] at h
      | ok r' =>
        simp only [hg, bind, Except.bind, pure, Except.pure, Except.ok.injEq] at h
        subst h
        simp only [ValidIdx]
        exact ih dims r' hb' (by simpa [IxE.isNone] using hl) hg
    | int i =>
      cases dims with
      | nil => simp [IxE.isNone] at hl
      | cons d ds =>
        simp only [normalizeIndex.go] at h
        cases hn : normalizeEntry (.int i) d with
        | error er => simp [hn, bind, Except.bind] at h
        | ok hd =>
          cases hg : normalizeIndex.go rest ds with
          | error er => simp [hn, hg, bind, Except.bind] at h
          | ok r' =>
            simp only [hn, hg, bind, Except.bind, pure, Except.pure, Except.ok.injEq] at h
            subst h
            obtain ⟨n, rfl, h0, h1⟩ := normalizeEntry_int_ok i d hd hn
            simp only [ValidIdx]
            exact ⟨⟨h0, h1⟩, ih ds r' hb' (by simpa [IxE.isNone] using hl) hg⟩
    | slice a b c =>
      cases dims with
      | nil => simp [IxE.isNone] at hl
      | cons d ds =>
        simp only [normalizeIndex.go, normalizeEntry] at h
        cases hg : normalizeIndex.go rest ds with
        | error er => simp [hg, bind, Except.bind] at h
        | ok r' =>
          simp only [hg, bind, Except.bind, pure, Except.pure, Except.ok.injEq] at h
          subst h
          simp only [ValidIdx]
          exact ⟨normalizeSlice_normalised a b c d hbe, ih ds r' hb' (by simpa [IxE.isNone] using hl) hg⟩
    | ellipsis => exact absurd hbe (by simp [BasicIxE])
    | arr xs => exact absurd hbe (by simp [BasicIxE])
    | barr xs => exact absurd hbe (by simp [BasicIxE])

theorem replaceEllipsis_basic (n : Nat) (idx : List IxE) (hb : ∀ e ∈ idx, BasicIxE e) :
    replaceEllipsis n idx = .ok idx := by
  unfold replaceEllipsis
  have : ((List.range idx.length).filter fun i => (idx.getD i .newaxis).isEllipsis) = [] := by
    rw [List.filter_eq_nil_iff]
    intro i hi
    have hi' : i < idx.length := List.mem_range.mp hi
    have := hb idx[i] (List.getElem_mem hi')
    rw [List.getD_eq_getElem?_getD, List.getElem?_eq_getElem hi', Option.getD_some]
    cases h : idx[i] <;> simp_all [BasicIxE, IxE.isEllipsis]
  simp only [this]

theorem normalizeIndex_validIdx (idx : List IxE) (shape : List Nat) (n : List NIx)
    (hb : ∀ e ∈ idx, BasicIxE e) (h : normalizeIndex idx shape = .ok n) : ValidIdx n shape := by
  unfold normalizeIndex at h
  simp only [replaceEllipsis_basic _ idx hb, bind, Except.bind] at h
  split at h
  · cases h
  · rename_i hgt
    refine go_valid _ shape n ?_ ?_ h
    · intro e he
      rcases List.mem_append.mp he with he | he
      · exact hb e he
      · rw [List.eq_of_mem_replicate he]; simp [fullSlice, BasicIxE]
    · simp only [List.filter_append, List.length_append, List.filter_replicate, fullSlice, IxE.isNone] at hgt ⊢
      simp at hgt ⊢
      omega
namespace COO
variable {α : Type}

/-- **The `sorted=True` promise of `getitem` (selection level).**  With no negative step, the
selected entries, in storage order, are strictly increasing in the row-major order of the result
shape whenever the operand's entries are. -/
theorem rewrite_outOf_sortedLin (x : COO α) (idx : List NIx) (k : Nat) (adv : Bool) (hwf : x.WF)
    (hv : ValidIdx idx x.shape) (hneg : hasNegStep idx = false) (hs : SortedLin x.shape x.entries) :
    SortedLin (outShape idx adv) (rewrite (fun c => outOf k idx c adv) x.entries) := by
  unfold SortedLin lin rewrite at *
  rw [List.pairwise_map] at hs ⊢
  rw [List.pairwise_filterMap]
  refine List.Pairwise.imp_of_mem ?_ hs
  intro e e' he he' hlt p hp p' hp'
  simp only [Option.map_eq_some_iff] at hp hp'
  obtain ⟨j, hj, rfl⟩ := hp
  obtain ⟨j', hj', rfl⟩ := hp'
  have hin := hwf e he
  have hin' := hwf e' he'
  have hjj : j < j' :=
    outOf_mono k adv idx x.shape e.1 e'.1 j j' hv hneg hin hin' (lex_of_ravel_lt hin hin' hlt) hj hj'
  exact ravel_lt_of_lex (outOf_compose k adv idx x.shape e.1 j hv hin hj).2
    (outOf_compose k adv idx x.shape e'.1 j' hv hin' hj').2 hjj

/-- `getitemN` on an index without arrays, with the selection written as a coordinate rewrite -/
theorem getitemN_eq (x : COO α) (idx : List NIx) (le : Bool) (hv : firstArrLen idx = none) :
    x.getitemN idx le =
      if isFullIndex idx x.shape then .arr x else
      if hasOut idx then
        .arr { shape := outShape idx false,
               entries := if hasNegStep idx then
                   sortEntries (outShape idx false) (rewrite (fun c => outOf 0 idx c false) x.entries)
                 else rewrite (fun c => outOf 0 idx c false) x.entries,
               fill := x.fill }
      else if le then .arr { shape := [], entries := rewrite (fun c => outOf 0 idx c false) x.entries, fill := x.fill }
      else match rewrite (fun c => outOf 0 idx c false) x.entries with
        | e :: _ => .scalar e.2
        | [] => .scalar x.fill := by
  unfold getitemN hasOut rewrite
  simp only [hv]
  cases hasNegStep idx <;> rfl

/-- the selection of an all-integer index holds at most the entry at `compose idx []` -/
theorem scalar_sel (x : COO α) (idx : List NIx) (hwf : x.WF) (hv : ValidIdx idx x.shape)
    (ho : hasOut idx = false) :
    InB (compose idx []) x.shape ∧
    lookup (rewrite (fun c => outOf 0 idx c false) x.entries) x.fill [] = x.get (compose idx []) ∧
    ∀ e ∈ rewrite (fun c => outOf 0 idx c false) x.entries, e.1 = [] := by
  have hsh : outShape idx false = [] := outShape_of_not_hasOut false idx ho
  have hj : InB [] (outShape idx false) := by rw [hsh]; trivial
  obtain ⟨hout, hin⟩ := compose_outOf 0 false idx x.shape [] hv hj
  refine ⟨hin, ?_, ?_⟩
  · exact rewrite_lookup x.entries x.fill _ (compose idx) []
      (fun e he j' hj' => (outOf_compose 0 false idx x.shape e.1 j' hv (hwf e he) hj').1) hout
  · intro e' he'
    simp only [rewrite, List.mem_filterMap, Option.map_eq_some_iff] at he'
    obtain ⟨e, he, j', hj', rfl⟩ := he'
    have := (outOf_compose 0 false idx x.shape e.1 j' hv (hwf e he) hj').2
    rw [hsh] at this
    cases j' with
    | nil => rfl
    | cons => simp at this

end COO
end SparseV

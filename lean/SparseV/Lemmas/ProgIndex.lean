/-
  SparseV.Lemmas.ProgIndex — step lemma of the program theorem for basic indexing.
-/
import SparseV.Lemmas.ProgBase
import SparseV.Lemmas.ProgShape
import SparseV.Props.C02
namespace SparseV
open SparseV.COO SparseV.Spec

theorem basic_of_noZeroStep (idx : List BIx) (h : idx.any BIx.zeroStep = false) :
    ∀ e ∈ idx.map BIx.toIxE, BasicIxE e := by
  intro e he
  obtain ⟨b, hb, rfl⟩ := List.mem_map.mp he
  have hz := List.any_eq_false.mp h b hb
  cases b with
  | int i => trivial
  | newaxis => trivial
  | slice a b c =>
    cases c with
    | none => simp [BIx.toIxE, BasicIxE]
    | some c =>
      simp only [BIx.toIxE, BasicIxE]
      simp only [BIx.zeroStep, beq_iff_eq] at hz
      intro hc
      exact hz (Option.some.inj hc)

theorem noEllipsis_basic (idx : List BIx) : (idx.map BIx.toIxE).any IxE.isEllipsis = false := by
  rw [List.any_eq_false]
  intro e he
  obtain ⟨b, _, rfl⟩ := List.mem_map.mp he
  cases b <;> simp [BIx.toIxE, IxE.isEllipsis]

theorem vals_rewrite {α : Type} (g : Idx → Option Idx) (es : List (Idx × α)) :
    ∀ e ∈ rewrite g es, ∃ e0 ∈ es, e.2 = e0.2 := by
  intro e he
  unfold rewrite at he
  obtain ⟨e0, he0, hmap⟩ := List.mem_filterMap.mp he
  cases hg : g e0.1 with
  | none => simp [hg] at hmap
  | some k =>
    simp only [hg, Option.map_some, Option.some.injEq] at hmap
    exact ⟨e0, he0, by rw [← hmap]⟩

/-! ### the library's index normalisation means what NumPy's does -/

/-- two normalised entries select the same coordinates: equal, or two slices that select nothing
(the library clips an empty slice to `start = stop`, CPython does not) -/
def EqvE (e e' : NIx) : Prop :=
  e = e' ∨ ∃ a b s a' b' s', e = .slice a b s ∧ e' = .slice a' b' s' ∧ sliceLen a b s = 0 ∧ sliceLen a' b' s' = 0

inductive EqvL : List NIx → List NIx → Prop
  | nil : EqvL [] []
  | cons {e e' : NIx} {l l' : List NIx} : EqvE e e' → EqvL l l' → EqvL (e :: l) (e' :: l')

theorem sliceLen_of_isEmpty (t : Int × Int × Int) (h : Spec.isEmpty t = true) : sliceLen t.1 t.2.1 t.2.2 = 0 := by
  unfold Spec.isEmpty at h
  unfold sliceLen
  by_cases hs : t.2.2 > 0
  · rw [if_pos hs] at h
    rw [if_pos hs]
    have : ¬ t.1 < t.2.1 := by have := of_decide_eq_true h; omega
    rw [if_neg this]
  · rw [if_neg hs] at h
    rw [if_neg hs]
    have : ¬ t.2.1 < t.1 := by have := of_decide_eq_true h; omega
    split
    · first | rfl | rw [if_neg this]
    · rfl

theorem entry_sim (e : BIx) (d : Nat) :
    (∀ er, normalizeEntry e.toIxE d = .error er → Expr.npEntry e d = .error er) ∧
    (∀ h, normalizeEntry e.toIxE d = .ok h → ∃ h', Expr.npEntry e d = .ok h' ∧ (e.zeroStep = false → EqvE h h')) := by
  cases e with
  | int i =>
    simp only [BIx.toIxE, normalizeEntry, Expr.npEntry, C02.normalize_int_spec]
    by_cases hc : -(d : Int) ≤ i ∧ i < (d : Int)
    · simp only [if_pos hc]
      refine ⟨(fun er h => by cases h), fun h hh => ⟨h, ?_, fun _ => Or.inl rfl⟩⟩
      rw [← Except.ok.inj hh]
    · simp only [if_neg hc]
      exact ⟨fun er h => h, fun h hh => by cases hh⟩
  | newaxis =>
    simp only [BIx.toIxE, normalizeEntry, Expr.npEntry]
    exact ⟨(fun er h => by cases h), fun h hh => ⟨h, hh, fun _ => Or.inl rfl⟩⟩
  | slice a b c =>
    simp only [BIx.toIxE, normalizeEntry, Expr.npEntry]
    refine ⟨(fun er h => by cases h), fun h hh => ⟨_, rfl, fun hz => ?_⟩⟩
    have hs : c ≠ some 0 := by
      intro hc
      subst hc
      simp [BIx.zeroStep] at hz
    obtain ⟨h1, h2⟩ := C02.normalize_slice_spec a b c (d : Int) (by omega) hs
    rw [← Except.ok.inj hh]
    cases hemp : Spec.isEmpty (Spec.pyAdjust a b (c.getD 1) (d : Int)) with
    | false => left; rw [h2 hemp]
    | true =>
      right
      rw [hemp] at h1
      exact ⟨_, _, _, _, _, _, rfl, rfl, sliceLen_of_isEmpty _ h1, sliceLen_of_isEmpty _ hemp⟩

theorem go_cons (e : IxE) (hne : e.isNone = false) (rest : List IxE) (d : Nat) (ds : List Nat) :
    normalizeIndex.go (e :: rest) (d :: ds) =
      (normalizeEntry e d >>= fun h => normalizeIndex.go rest ds >>= fun r => pure (h :: r)) := by
  cases e <;> first | rfl | simp [IxE.isNone] at hne

theorem go_cons_nil (e : IxE) (hne : e.isNone = false) (rest : List IxE) :
    normalizeIndex.go (e :: rest) [] = .error .index := by
  cases e <;> first | rfl | simp [IxE.isNone] at hne

theorem npGo_cons (e : BIx) (hne : e.isNewaxis = false) (rest : List BIx) (d : Nat) (ds : List Nat) :
    Expr.npGo (e :: rest) (d :: ds) =
      (match Expr.npEntry e d with
        | .error er => .error er
        | .ok h => match Expr.npGo rest ds with
          | .ok r => .ok (h :: r)
          | .error er => .error er) := by
  cases e <;> first | rfl | simp [BIx.isNewaxis] at hne

theorem npGo_cons_nil (e : BIx) (hne : e.isNewaxis = false) (rest : List BIx) :
    Expr.npGo (e :: rest) [] = .error .index := by
  cases e <;> first | rfl | simp [BIx.isNewaxis] at hne

theorem isNone_toIxE (e : BIx) : e.toIxE.isNone = e.isNewaxis := by cases e <;> rfl

theorem go_sim : ∀ (idx : List BIx) (dims : List Nat),
    (∀ er, normalizeIndex.go (idx.map BIx.toIxE) dims = .error er → Expr.npGo idx dims = .error er) ∧
    (∀ n, normalizeIndex.go (idx.map BIx.toIxE) dims = .ok n →
      ∃ n', Expr.npGo idx dims = .ok n' ∧ (idx.any BIx.zeroStep = false → EqvL n n')) := by
  intro idx
  induction idx with
  | nil =>
    intro dims
    simp only [List.map_nil, normalizeIndex.go, Expr.npGo]
    exact ⟨(fun er h => by cases h), fun n h => ⟨[], rfl, fun _ => by rw [← Except.ok.inj h]; exact EqvL.nil⟩⟩
  | cons e rest ih =>
    intro dims
    by_cases hnew : e.isNewaxis = true
    · have he : e = .newaxis := by cases e <;> first | rfl | simp [BIx.isNewaxis] at hnew
      subst he
      obtain ⟨ih1, ih2⟩ := ih dims
      simp only [List.map_cons, BIx.toIxE, normalizeIndex.go, Expr.npGo]
      cases hg : normalizeIndex.go (rest.map BIx.toIxE) dims with
      | error er =>
        rw [ih1 er hg]
        simp only [bind, Except.bind]
        exact ⟨fun er' h => h, fun n h => by cases h⟩
      | ok r =>
        obtain ⟨r', hr', heq⟩ := ih2 r hg
        rw [hr']
        simp only [bind, Except.bind, pure, Except.pure]
        refine ⟨(fun er h => by cases h), fun n h => ⟨_, rfl, fun hz => ?_⟩⟩
        rw [← Except.ok.inj h]
        simp only [List.any_cons, BIx.zeroStep, Bool.false_or] at hz
        exact EqvL.cons (Or.inl rfl) (heq hz)
    · have hnew' : e.isNewaxis = false := by simpa using hnew
      have hnone : e.toIxE.isNone = false := by rw [isNone_toIxE]; exact hnew'
      cases dims with
      | nil =>
        rw [List.map_cons, go_cons_nil _ hnone, npGo_cons_nil _ hnew']
        exact ⟨fun er h => h, fun n h => by cases h⟩
      | cons d ds =>
        obtain ⟨ih1, ih2⟩ := ih ds
        obtain ⟨e1, e2⟩ := entry_sim e d
        rw [List.map_cons, go_cons _ hnone, npGo_cons _ hnew']
        cases hn : normalizeEntry e.toIxE d with
        | error er =>
          rw [e1 er hn]
          simp only [bind, Except.bind]
          exact ⟨fun er' h => h, fun n h => by cases h⟩
        | ok h =>
          obtain ⟨h', hh', heq⟩ := e2 h hn
          rw [hh']
          cases hg : normalizeIndex.go (rest.map BIx.toIxE) ds with
          | error er =>
            rw [ih1 er hg]
            simp only [bind, Except.bind]
            exact ⟨fun er' h => h, fun n h => by cases h⟩
          | ok r =>
            obtain ⟨r', hr', heqr⟩ := ih2 r hg
            rw [hr']
            simp only [bind, Except.bind, pure, Except.pure]
            refine ⟨(fun er h => by cases h), fun n hn' => ⟨_, rfl, fun hz => ?_⟩⟩
            rw [← Except.ok.inj hn']
            simp only [List.any_cons, Bool.or_eq_false_iff] at hz
            exact EqvL.cons (heq hz.1) (heqr hz.2)

theorem replaceEllipsis_bix (n : Nat) (idx : List BIx) :
    replaceEllipsis n (idx.map BIx.toIxE) = .ok (idx.map BIx.toIxE) := by
  unfold replaceEllipsis
  have : ((List.range (idx.map BIx.toIxE).length).filter fun i => ((idx.map BIx.toIxE).getD i .newaxis).isEllipsis) = [] := by
    rw [List.filter_eq_nil_iff]
    intro i hi
    have hi' : i < (idx.map BIx.toIxE).length := List.mem_range.mp hi
    rw [List.getD_eq_getElem?_getD, List.getElem?_eq_getElem hi', Option.getD_some, List.getElem_map]
    cases idx[i]'(by simpa using hi') <;> simp [BIx.toIxE, IxE.isEllipsis]
  simp only [this]

theorem nonNone_count (idx : List BIx) :
    ((idx.map BIx.toIxE).filter fun e => !e.isNone).length = (idx.filter fun e => !e.isNewaxis).length := by
  induction idx with
  | nil => rfl
  | cons e rest ih =>
    have h1 : (!(e.toIxE).isNone) = (!e.isNewaxis) := by rw [isNone_toIxE]
    rw [List.map_cons, List.filter_cons, List.filter_cons, h1]
    split <;> simp only [List.length_cons, ih]

theorem index_sim (idx : List BIx) (shape : List Nat) :
    (∀ er, normalizeIndex (idx.map BIx.toIxE) shape = .error er → Expr.npIndex idx shape = .error er) ∧
    (∀ n, normalizeIndex (idx.map BIx.toIxE) shape = .ok n →
      ∃ n', Expr.npIndex idx shape = .ok n' ∧ (idx.any BIx.zeroStep = false → EqvL n n')) := by
  unfold normalizeIndex Expr.npIndex
  simp only [replaceEllipsis_bix, bind, Except.bind]
  have hcount : ((idx.map BIx.toIxE ++ List.replicate
        (shape.length - ((idx.map BIx.toIxE).filter fun e => !e.isNone).length) fullSlice).filter fun e => !e.isNone).length
      = (idx.filter fun e => !e.isNewaxis).length + (shape.length - (idx.filter fun e => !e.isNewaxis).length) := by
    rw [List.filter_append, List.length_append, nonNone_count]
    congr 1
    simp [List.filter_replicate, fullSlice, IxE.isNone]
  have hpad : idx.map BIx.toIxE ++ List.replicate (shape.length - ((idx.map BIx.toIxE).filter fun e => !e.isNone).length) fullSlice
      = (idx ++ List.replicate (shape.length - (idx.filter fun e => !e.isNewaxis).length) (BIx.slice none none none)).map BIx.toIxE := by
    rw [List.map_append, List.map_replicate, nonNone_count]
    rfl
  have hzero : (idx ++ List.replicate (shape.length - (idx.filter fun e => !e.isNewaxis).length) (BIx.slice none none none)).any BIx.zeroStep
      = idx.any BIx.zeroStep := by
    rw [List.any_append]
    have : (List.replicate (shape.length - (idx.filter fun e => !e.isNewaxis).length) (BIx.slice none none none)).any BIx.zeroStep = false := by
      rw [List.any_eq_false]
      intro e he
      rw [List.eq_of_mem_replicate he]
      simp [BIx.zeroStep]
    rw [this, Bool.or_false]
  rw [hcount]
  by_cases hgt : (idx.filter fun e => !e.isNewaxis).length > shape.length
  · have h1 : (idx.filter fun e => !e.isNewaxis).length + (shape.length - (idx.filter fun e => !e.isNewaxis).length) > shape.length := by omega
    rw [if_pos h1, if_pos hgt]
    exact ⟨fun er h => h, fun n h => by cases h⟩
  · have h1 : ¬ (idx.filter fun e => !e.isNewaxis).length + (shape.length - (idx.filter fun e => !e.isNewaxis).length) > shape.length := by omega
    rw [if_neg h1, if_neg hgt, hpad]
    obtain ⟨g1, g2⟩ := go_sim (idx ++ List.replicate (shape.length - (idx.filter fun e => !e.isNewaxis).length) (BIx.slice none none none)) shape
    refine ⟨g1, fun n h => ?_⟩
    obtain ⟨n', hn', heq⟩ := g2 n h
    exact ⟨n', hn', fun hz => heq (by rw [hzero]; exact hz)⟩

theorem outShape_eqv : ∀ {n n' : List NIx}, EqvL n n' → ∀ adv, outShape n adv = outShape n' adv := by
  intro n n' h
  induction h with
  | nil => intro adv; rfl
  | cons he _ ih =>
    intro adv
    rcases he with rfl | ⟨a, b, s, a', b', s', rfl, rfl, h1, h2⟩
    · rename_i e _ _ _
      cases e with
      | int _ => simp only [outShape]; exact ih adv
      | slice _ _ _ => simp only [outShape]; rw [ih adv]
      | newaxis => simp only [outShape]; rw [ih adv]
      | arr xs =>
        simp only [outShape]
        rw [ih true]
    · simp only [outShape, h1, h2]; rw [ih adv]

theorem hasOut_eqv : ∀ {n n' : List NIx}, EqvL n n' → Spec.hasOut n = Spec.hasOut n' := by
  intro n n' h
  induction h with
  | nil => rfl
  | cons he _ ih =>
    rcases he with rfl | ⟨a, b, s, a', b', s', rfl, rfl, _, _⟩
    · simp only [Spec.hasOut, List.any_cons] at ih ⊢; rw [ih]
    · simp only [Spec.hasOut, List.any_cons] at ih ⊢; rw [ih]

theorem compose_eqv : ∀ {n n' : List NIx}, EqvL n n' → ∀ (shape : List Nat) (j : Idx), Spec.ValidIdx n shape →
    InB j (outShape n false) → Spec.compose n j = Spec.compose n' j := by
  intro n n' h
  induction h with
  | nil => intro shape j _ _; rfl
  | cons he _ ih =>
    intro shape j hv hj
    rcases he with rfl | ⟨a, b, s, a', b', s', rfl, rfl, h1, h2⟩
    · rename_i e _ _ _
      cases e with
      | int m =>
        cases shape with
        | nil => exact absurd hv (by simp [Spec.ValidIdx])
        | cons d ds =>
          simp only [Spec.ValidIdx] at hv
          simp only [outShape] at hj
          simp only [Spec.compose]
          rw [ih ds j hv.2 hj]
      | slice a b s =>
        cases shape with
        | nil => exact absurd hv (by simp [Spec.ValidIdx])
        | cons d ds =>
          simp only [Spec.ValidIdx] at hv
          simp only [outShape] at hj
          cases j with
          | nil => exact absurd hj (by simp [InB])
          | cons t j' =>
            simp only [Spec.compose]
            rw [ih ds j' hv.2 hj.2]
      | newaxis =>
        simp only [Spec.ValidIdx] at hv
        simp only [outShape] at hj
        cases j with
        | nil => exact absurd hj (by simp [InB])
        | cons t j' =>
          simp only [Spec.compose]
          exact ih shape j' hv hj.2
      | arr xs => exact absurd hv (by simp [Spec.ValidIdx])
    · -- two empty slices: the result has a zero extent, no index is in bounds
      simp only [outShape, h1] at hj
      cases j with
      | nil => exact absurd hj (by simp [InB])
      | cons t j' => exact absurd hj.1 (by omega)

theorem getitem_step (x : COO Int) (d : Dense) (idx : List BIx) (hg : Good x) (hr : Refines x d) :
    Sim x.NoFill (Expr.mGetitem x idx) (Expr.sGetitem d idx) := by
  unfold Expr.mGetitem Expr.sGetitem
  rw [← hr.shape]
  unfold COO.getitem
  rw [noEllipsis_basic]
  obtain ⟨hsim1, hsim2⟩ := index_sim idx x.shape
  cases hn : normalizeIndex (idx.map BIx.toIxE) x.shape with
  | error e =>
    rw [hsim1 e hn]
    exact Sim.err e
  | ok n =>
    obtain ⟨n', hn', heqv⟩ := hsim2 n hn
    rw [hn']
    simp only [bind, Except.bind, pure, Except.pure]
    by_cases hz : idx.any BIx.zeroStep = true
    · rw [if_pos hz, if_pos hz]; exact Sim.err _
    · rw [if_neg hz, if_neg hz]
      have hz' : idx.any BIx.zeroStep = false := by simpa using hz
      have hb := basic_of_noZeroStep idx hz'
      have heq := heqv hz'
      rw [← hasOut_eqv heq, ← outShape_eqv heq false]
      have hv : ValidIdx n x.shape := C02.normalize_index_valid _ _ n hb hn
      have hinv : ∀ e ∈ x.entries, ∀ j', outOf 0 n e.1 false = some j' → compose n j' = e.1 :=
        fun e he j' hj' => (outOf_compose 0 false n x.shape e.1 j' hv (hg.wf e he) hj').1
      have hin : ∀ e ∈ x.entries, ∀ j', outOf 0 n e.1 false = some j' → InB j' (outShape n false) :=
        fun e he j' hj' => (outOf_compose 0 false n x.shape e.1 j' hv (hg.wf e he) hj').2
      cases ho : hasOut n with
      | false =>
        rw [(C02.getitemN_scalar x n hg.wf hv ho).1]
        simp only [Bool.false_eq_true, if_false]
        exact Sim.err _
      | true =>
        obtain ⟨r, hr1, hshape, hfill, hget⟩ := C02.getitemN_get x n false hg.wf hg.nodup hv ho
        rw [hr1]
        simp only [if_true]
        have hr2 := hr1
        rw [getitemN_eq x n false (validIdx_firstArrLen n x.shape hv)] at hr2
        refine Sim.ok ⟨?_, ?_⟩ ?_ ⟨hshape, by rw [hfill]; exact hr.fill, ?_⟩
        · -- in range
          by_cases hfull : isFullIndex n x.shape = true
          · simp only [hfull, if_true, GetResult.arr.injEq] at hr2
            subst hr2; exact hg.wf
          · simp only [hfull, Bool.false_eq_true, if_false, ho, if_true, GetResult.arr.injEq] at hr2
            subst hr2
            intro e he
            have he' : e ∈ rewrite (fun c => outOf 0 n c false) x.entries := by
              simp only at he
              split at he
              · exact mem_sortEntries.mp he
              · exact he
            unfold rewrite at he'
            obtain ⟨e0, he0, hmap⟩ := List.mem_filterMap.mp he'
            cases hgo : outOf 0 n e0.1 false with
            | none => simp [hgo] at hmap
            | some k =>
              simp only [hgo, Option.map_some, Option.some.injEq] at hmap
              rw [← hmap]
              exact hin e0 he0 k hgo
        · -- canonical order
          cases hneg : hasNegStep n with
          | false => exact C02.getitem_sorted_promise x n false hg.wf hv hneg hg.sorted r hr1
          | true =>
            by_cases hfull : isFullIndex n x.shape = true
            · simp only [hfull, if_true, GetResult.arr.injEq] at hr2
              subst hr2; exact hg.sorted
            · simp only [hfull, Bool.false_eq_true, if_false, ho, if_true, hneg, GetResult.arr.injEq] at hr2
              subst hr2
              exact COO.sortEntries_rewrite_sortedLin _ _ _ (compose n) hinv hg.nodup hin
        · -- values are operand values
          apply noFill_of_vals hfill
          by_cases hfull : isFullIndex n x.shape = true
          · simp only [hfull, if_true, GetResult.arr.injEq] at hr2
            subst hr2; intro e he; exact ⟨e, he, rfl⟩
          · simp only [hfull, Bool.false_eq_true, if_false, ho, if_true, GetResult.arr.injEq] at hr2
            subst hr2
            intro e he
            apply vals_rewrite (fun c => outOf 0 n c false) x.entries
            simp only at he
            split at he
            · exact mem_sortEntries.mp he
            · exact he
        · intro j hj
          obtain ⟨hinb, hval⟩ := hget j hj
          rw [hval]
          show _ = d.val (Spec.compose n' j)
          rw [← compose_eqv heq x.shape j hv (by rw [← hshape]; exact hj)]
          exact hr.val _ hinb

end SparseV

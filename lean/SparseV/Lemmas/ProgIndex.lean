/-
  SparseV.Lemmas.ProgIndex — step lemma of the program theorem for basic indexing.
-/
import SparseV.Lemmas.ProgBase
import SparseV.Lemmas.ProgShape
import SparseV.Props.C02
namespace SparseV
open SparseV.COO SparseV.Spec

theorem basic_of_noZeroStep (idx : List BIx) (h : idx.any BIx.zeroStep = false) :
    ∀ e ∈ idx.map BIx.toIxE, BasicIxE e := by
  intro e he
  obtain ⟨b, hb, rfl⟩ := List.mem_map.mp he
  have hz := List.any_eq_false.mp h b hb
  cases b with
  | int i => trivial
  | newaxis => trivial
  | slice a b c =>
    cases c with
    | none => simp [BIx.toIxE, BasicIxE]
    | some c =>
      simp only [BIx.toIxE, BasicIxE]
      simp only [BIx.zeroStep, beq_iff_eq] at hz
      intro hc
      exact hz (Option.some.inj hc)

theorem noEllipsis_basic (idx : List BIx) : (idx.map BIx.toIxE).any IxE.isEllipsis = false := by
  rw [List.any_eq_false]
  intro e he
  obtain ⟨b, _, rfl⟩ := List.mem_map.mp he
  cases b <;> simp [BIx.toIxE, IxE.isEllipsis]

theorem vals_rewrite {α : Type} (g : Idx → Option Idx) (es : List (Idx × α)) :
    ∀ e ∈ rewrite g es, ∃ e0 ∈ es, e.2 = e0.2 := by
  intro e he
  unfold rewrite at he
  obtain ⟨e0, he0, hmap⟩ := List.mem_filterMap.mp he
  cases hg : g e0.1 with
  | none => simp [hg] at hmap
  | some k =>
    simp only [hg, Option.map_some, Option.some.injEq] at hmap
    exact ⟨e0, he0, by rw [← hmap]⟩

theorem getitem_step (x : COO Int) (d : Dense) (idx : List BIx) (hg : Good x) (hr : Refines x d) :
    Sim x.NoFill (Expr.mGetitem x idx) (Expr.sGetitem d idx) := by
  unfold Expr.mGetitem Expr.sGetitem
  rw [← hr.shape]
  unfold COO.getitem
  rw [noEllipsis_basic]
  cases hn : normalizeIndex (idx.map BIx.toIxE) x.shape with
  | error e => exact Sim.err e
  | ok n =>
    simp only [bind, Except.bind, pure, Except.pure]
    by_cases hz : idx.any BIx.zeroStep = true
    · rw [if_pos hz, if_pos hz]; exact Sim.err _
    · rw [if_neg hz, if_neg hz]
      have hz' : idx.any BIx.zeroStep = false := by simpa using hz
      have hb := basic_of_noZeroStep idx hz'
      have hv : ValidIdx n x.shape := C02.normalize_index_valid _ _ n hb hn
      have hinv : ∀ e ∈ x.entries, ∀ j', outOf 0 n e.1 false = some j' → compose n j' = e.1 :=
        fun e he j' hj' => (outOf_compose 0 false n x.shape e.1 j' hv (hg.wf e he) hj').1
      have hin : ∀ e ∈ x.entries, ∀ j', outOf 0 n e.1 false = some j' → InB j' (outShape n false) :=
        fun e he j' hj' => (outOf_compose 0 false n x.shape e.1 j' hv (hg.wf e he) hj').2
      cases ho : hasOut n with
      | false =>
        rw [(C02.getitemN_scalar x n hg.wf hv ho).1]
        simp only [Bool.false_eq_true, if_false]
        exact Sim.err _
      | true =>
        obtain ⟨r, hr1, hshape, hfill, hget⟩ := C02.getitemN_get x n false hg.wf hg.nodup hv ho
        rw [hr1]
        simp only [if_true]
        have hr2 := hr1
        rw [getitemN_eq x n false (validIdx_firstArrLen n x.shape hv)] at hr2
        refine Sim.ok ⟨?_, ?_⟩ ?_ ⟨hshape, by rw [hfill]; exact hr.fill, ?_⟩
        · -- in range
          by_cases hfull : isFullIndex n x.shape = true
          · simp only [hfull, if_true, GetResult.arr.injEq] at hr2
            subst hr2; exact hg.wf
          · simp only [hfull, Bool.false_eq_true, if_false, ho, if_true, GetResult.arr.injEq] at hr2
            subst hr2
            intro e he
            have he' : e ∈ rewrite (fun c => outOf 0 n c false) x.entries := by
              simp only at he
              split at he
              · exact mem_sortEntries.mp he
              · exact he
            unfold rewrite at he'
            obtain ⟨e0, he0, hmap⟩ := List.mem_filterMap.mp he'
            cases hgo : outOf 0 n e0.1 false with
            | none => simp [hgo] at hmap
            | some k =>
              simp only [hgo, Option.map_some, Option.some.injEq] at hmap
              rw [← hmap]
              exact hin e0 he0 k hgo
        · -- canonical order
          cases hneg : hasNegStep n with
          | false => exact C02.getitem_sorted_promise x n false hg.wf hv hneg hg.sorted r hr1
          | true =>
            by_cases hfull : isFullIndex n x.shape = true
            · simp only [hfull, if_true, GetResult.arr.injEq] at hr2
              subst hr2; exact hg.sorted
            · simp only [hfull, Bool.false_eq_true, if_false, ho, if_true, hneg, GetResult.arr.injEq] at hr2
              subst hr2
              exact COO.sortEntries_rewrite_sortedLin _ _ _ (compose n) hinv hg.nodup hin
        · -- values are operand values
          apply noFill_of_vals hfill
          by_cases hfull : isFullIndex n x.shape = true
          · simp only [hfull, if_true, GetResult.arr.injEq] at hr2
            subst hr2; intro e he; exact ⟨e, he, rfl⟩
          · simp only [hfull, Bool.false_eq_true, if_false, ho, if_true, GetResult.arr.injEq] at hr2
            subst hr2
            intro e he
            apply vals_rewrite (fun c => outOf 0 n c false) x.entries
            simp only at he
            split at he
            · exact mem_sortEntries.mp he
            · exact he
        · intro j hj
          obtain ⟨hinb, hval⟩ := hget j hj
          rw [hval]
          exact hr.val _ hinb

end SparseV

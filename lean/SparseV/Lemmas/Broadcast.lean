/-
  SparseV.Lemmas.Broadcast — broadcasting of shapes (`_get_broadcast_shape`, its n-ary fold),
  the index projection `projIdx`, and `_get_expanded_coords_data` (`COO.expand`).
  The per-pair rule is the GENERATED `Gen.bcastOk` / `Gen.bcastDim`.
-/
import SparseV.Model.Elemwise
import SparseV.Lemmas.Assoc
import SparseV.Lemmas.Index
import SparseV.Lemmas.Canonical
import SparseV.Lemmas.Gen.Bcast
namespace SparseV

/-! ## extents counted from the right -/

/-- extent of axis `k` counted from the right, 1 beyond the rank (NumPy's implicit padding) -/
def ext (s : List Nat) (k : Nat) : Nat := s.reverse.getD k 1

theorem ext_ge {s : List Nat} {k : Nat} (h : s.length ≤ k) : ext s k = 1 := by
  unfold ext
  rw [List.getD_eq_getElem?_getD, List.getElem?_eq_none (by simpa using h)]
  rfl

theorem ext_lt {s : List Nat} {k : Nat} (h : k < s.length) : ext s k = s[s.length - 1 - k] := by
  unfold ext
  rw [List.getD_eq_getElem?_getD, List.getElem?_eq_getElem (by simpa using h), List.getElem_reverse]
  rfl

theorem ext_nil (k : Nat) : ext [] k = 1 := ext_ge (by simp)

theorem ext_cons_lt {a : Nat} {s : List Nat} {k : Nat} (h : k < s.length) : ext (a :: s) k = ext s k := by
  rw [ext_lt (by simp; omega), ext_lt h]
  have : (a :: s).length - 1 - k = (s.length - 1 - k) + 1 := by simp; omega
  simp only [this, List.getElem_cons_succ]

theorem ext_cons_eq (a : Nat) (s : List Nat) : ext (a :: s) s.length = a := by
  rw [ext_lt (by simp)]
  simp

/-- a shape is determined by its rank and its extents -/
theorem ext_inj {s t : List Nat} (hl : s.length = t.length) (h : ∀ k, k < s.length → ext s k = ext t k) :
    s = t := by
  have : s.reverse = t.reverse := by
    apply List.ext_getElem (by simpa using hl)
    intro k h1 h2
    have := h k (by simpa using h1)
    unfold ext at this
    rw [List.getD_eq_getElem?_getD, List.getD_eq_getElem?_getD, List.getElem?_eq_getElem h1,
      List.getElem?_eq_getElem h2] at this
    simpa using this
  simpa using congrArg List.reverse this

theorem ext_reverse_map_range (n : Nat) (g : Nat → Nat) (k : Nat) :
    ext (((List.range n).map g).reverse) k = if k < n then g k else 1 := by
  unfold ext
  rw [List.reverse_reverse, List.getD_eq_getElem?_getD]
  by_cases h : k < n
  · simp [h]
  · simp [h]

/-! ## the generated per-pair rule on natural numbers -/

theorem bcastOk_nat (a b : Nat) (r : Bool) :
    Gen.bcastOk (a : Int) (b : Int) r = true ↔ (a = b ∨ a = 1 ∨ (b = 1 ∧ r = false)) := by
  rw [Gen.bcastOk_iff]
  cases r <;> simp <;> omega

theorem bcastDim_nat (a b : Nat) : (Gen.bcastDim (a : Int) (b : Int)).toNat = if a = 1 then b else a := by
  simp only [Gen.bcastDim_eq, Ref.bcastDim]
  by_cases h : a = 1
  · subst h; simp
  · have : (a : Int) ≠ 1 := by omega
    simp [this, h]

/-! ## `_get_broadcast_shape` in terms of extents -/

/-- all aligned pairs of the common (zipped) part are admissible -/
def ZipOk (s1 s2 : List Nat) (r : Bool) : Prop :=
  ∀ k, k < s1.length → k < s2.length → (ext s1 k = ext s2 k ∨ ext s1 k = 1 ∨ (ext s2 k = 1 ∧ r = false))

/-- the `zip_longest` result -/
def bdims (s1 s2 : List Nat) : List Nat :=
  ((List.range (max s1.length s2.length)).map fun k => if ext s1 k = 1 then ext s2 k else ext s1 k).reverse

theorem zip_all_iff (s1 s2 : List Nat) (r : Bool) :
    ((List.zip s1.reverse s2.reverse).all fun p => Gen.bcastOk p.1 p.2 r) = true ↔ ZipOk s1 s2 r := by
  rw [List.all_eq_true]
  constructor
  · intro h k h1 h2
    have hk : k < (List.zip s1.reverse s2.reverse).length := by simp; omega
    have := h _ (List.getElem_mem hk)
    rw [List.getElem_zip, bcastOk_nat] at this
    unfold ext
    rw [List.getD_eq_getElem?_getD, List.getD_eq_getElem?_getD,
      List.getElem?_eq_getElem (by simpa using h1), List.getElem?_eq_getElem (by simpa using h2)]
    simpa using this
  · intro h p hp
    obtain ⟨k, hk, rfl⟩ := List.mem_iff_getElem.mp hp
    have hk' : k < s1.length ∧ k < s2.length := by simp at hk; omega
    have := h k hk'.1 hk'.2
    unfold ext at this
    rw [List.getD_eq_getElem?_getD, List.getD_eq_getElem?_getD,
      List.getElem?_eq_getElem (by simpa using hk'.1), List.getElem?_eq_getElem (by simpa using hk'.2)] at this
    rw [List.getElem_zip, bcastOk_nat]
    simpa using this

theorem bshape2_dims (s1 s2 : List Nat) :
    (((List.range (max s1.reverse.length s2.reverse.length)).map fun k =>
      (Gen.bcastDim (s1.reverse.getD k 1) (s2.reverse.getD k 1)).toNat).reverse) = bdims s1 s2 := by
  unfold bdims ext
  simp only [List.length_reverse, bcastDim_nat]

/-- the rank guard of `is_result=True`: the operand may not have more axes than the result shape -/
def RankOk (s1 s2 : List Nat) (r : Bool) : Prop := r = true → s1.length ≤ s2.length

theorem bshape2_of_ok' {s1 s2 : List Nat} {r : Bool} (hg : RankOk s1 s2 r) (h : ZipOk s1 s2 r) :
    bshape2 s1 s2 r = .ok (bdims s1 s2) := by
  unfold bshape2
  simp only []
  have hguard : ¬ ((r && decide (s1.length > s2.length)) = true) := by
    intro hh
    simp only [Bool.and_eq_true, decide_eq_true_eq] at hh
    have := hg hh.1
    omega
  rw [if_neg hguard, if_pos ((zip_all_iff s1 s2 r).mpr h), bshape2_dims]

theorem bshape2_of_ok {s1 s2 : List Nat} (h : ZipOk s1 s2 false) : bshape2 s1 s2 false = .ok (bdims s1 s2) :=
  bshape2_of_ok' (fun hh => by cases hh) h

theorem bshape2_true_of_ok {s1 s2 : List Nat} (hl : s1.length ≤ s2.length) (h : ZipOk s1 s2 true) :
    bshape2 s1 s2 true = .ok (bdims s1 s2) :=
  bshape2_of_ok' (fun _ => hl) h

theorem bshape2_of_not_ok {s1 s2 : List Nat} {r : Bool} (h : ¬ ZipOk s1 s2 r) : bshape2 s1 s2 r = .error .value := by
  unfold bshape2
  simp only []
  rw [if_neg (fun hh => h ((zip_all_iff s1 s2 r).mp hh))]
  split <;> rfl

/-- the new guard: an operand with more axes than the result shape is rejected -/
theorem bshape2_of_more_axes {s1 s2 : List Nat} (h : s2.length < s1.length) : bshape2 s1 s2 true = .error .value := by
  unfold bshape2
  simp only []
  rw [if_pos (by simpa using h)]

theorem bshape2_ok_iff {s1 s2 t : List Nat} {r : Bool} :
    bshape2 s1 s2 r = .ok t ↔ RankOk s1 s2 r ∧ ZipOk s1 s2 r ∧ t = bdims s1 s2 := by
  by_cases hg : RankOk s1 s2 r
  · by_cases h : ZipOk s1 s2 r
    · rw [bshape2_of_ok' hg h]
      constructor
      · intro hh; exact ⟨hg, h, (Except.ok.inj hh).symm⟩
      · intro hh; rw [hh.2.2]
    · rw [bshape2_of_not_ok h]
      constructor
      · intro hh; cases hh
      · intro hh; exact absurd hh.2.1 h
  · have hr : r = true ∧ s2.length < s1.length := by
      unfold RankOk at hg
      cases r
      · exact absurd (fun hh => by cases hh) hg
      · exact ⟨rfl, by
          apply Classical.byContradiction
          intro hc
          exact hg fun _ => by omega⟩
    obtain ⟨rfl, hlt⟩ := hr
    rw [bshape2_of_more_axes hlt]
    constructor
    · intro hh; cases hh
    · intro hh; exact absurd hh.1 hg

theorem bshape2_error {s1 s2 : List Nat} {r : Bool} {e : Err} (h : bshape2 s1 s2 r = .error e) : e = .value := by
  unfold bshape2 at h
  simp only [] at h
  split at h
  · exact (Except.error.inj h).symm
  · split at h
    · cases h
    · exact (Except.error.inj h).symm

theorem bdims_length (s1 s2 : List Nat) : (bdims s1 s2).length = max s1.length s2.length := by
  simp [bdims]

theorem ext_bdims (s1 s2 : List Nat) (k : Nat) :
    ext (bdims s1 s2) k = if ext s1 k = 1 then ext s2 k else ext s1 k := by
  unfold bdims
  rw [ext_reverse_map_range]
  by_cases h : k < max s1.length s2.length
  · rw [if_pos h]
  · rw [if_neg h, ext_ge (s := s1) (by omega), ext_ge (s := s2) (by omega)]; simp

/-! ## NumPy's rule stated directly: right-align, pad with 1s, combine per pair -/

/-- pad a shape on the left with 1s up to rank `n` -/
def padL (n : Nat) (s : List Nat) : List Nat := List.replicate (n - s.length) 1 ++ s

/-- NumPy's `broadcast_shapes` for two shapes, for a per-pair rule `sp` (`none` = incompatible) -/
def specBshapeWith (sp : Int → Int → Option Int) (s1 s2 : List Nat) : Option (List Nat) :=
  let n := max s1.length s2.length
  let ps := List.zip (padL n s1) (padL n s2)
  if ps.all (fun p => (sp p.1 p.2).isSome) then some (ps.map fun p => ((sp p.1 p.2).getD 0).toNat) else none

theorem padL_length {n : Nat} {s : List Nat} (h : s.length ≤ n) : (padL n s).length = n := by
  simp [padL]; omega

theorem padL_getElem {n : Nat} {s : List Nat} (h : s.length ≤ n) (i : Nat) (hi : i < (padL n s).length) :
    (padL n s)[i] = ext s (n - 1 - i) := by
  have hn : i < n := by rw [padL_length h] at hi; exact hi
  suffices key : ∀ (l : List Nat) (_ : l = List.replicate (n - s.length) 1 ++ s) (hi' : i < l.length),
      l[i] = ext s (n - 1 - i) from key _ rfl hi
  intro l hl hi'
  subst hl
  rw [List.getElem_append]
  by_cases h1 : i < n - s.length
  · simp only [List.length_replicate, h1, dite_true, List.getElem_replicate]
    rw [ext_ge (by omega)]
  · simp only [List.length_replicate, h1, dite_false]
    rw [ext_lt (by omega)]
    congr 1
    omega

theorem bdims_getElem (s1 s2 : List Nat) (i : Nat) (hi : i < (bdims s1 s2).length) :
    (bdims s1 s2)[i] =
      if ext s1 (max s1.length s2.length - 1 - i) = 1 then ext s2 (max s1.length s2.length - 1 - i)
      else ext s1 (max s1.length s2.length - 1 - i) := by
  suffices key : ∀ (l : List Nat) (_ : l = bdims s1 s2) (hi' : i < l.length), l[i] =
      if ext s1 (max s1.length s2.length - 1 - i) = 1 then ext s2 (max s1.length s2.length - 1 - i)
      else ext s1 (max s1.length s2.length - 1 - i) from key _ rfl hi
  intro l hl hi'
  unfold bdims at hl
  subst hl
  rw [List.getElem_reverse, List.getElem_map, List.getElem_range]
  simp

/-- `_get_broadcast_shape(s1, s2)` is NumPy's rule for every per-pair specification `sp` that the
generated per-pair code meets (the statement of `C01.bcast_pair_spec`). -/
theorem bshape2_eq_spec (sp : Int → Int → Option Int)
    (hsp : ∀ l1 l2 : Int, (Gen.bcastOk l1 l2 false = true ↔ (sp l1 l2).isSome) ∧
      (Gen.bcastOk l1 l2 false = true → sp l1 l2 = some (Gen.bcastDim l1 l2)))
    (s1 s2 : List Nat) :
    bshape2 s1 s2 false = (match specBshapeWith sp s1 s2 with | some r => .ok r | none => .error .value) := by
  have hl1 : s1.length ≤ max s1.length s2.length := by omega
  have hl2 : s2.length ≤ max s1.length s2.length := by omega
  have hall : ((List.zip (padL (max s1.length s2.length) s1) (padL (max s1.length s2.length) s2)).all
      fun p => (sp p.1 p.2).isSome) = true ↔ ZipOk s1 s2 false := by
    rw [List.all_eq_true]
    constructor
    · intro h k h1 h2
      have hk : max s1.length s2.length - 1 - k <
          (List.zip (padL (max s1.length s2.length) s1) (padL (max s1.length s2.length) s2)).length := by
        simp [padL_length hl1, padL_length hl2]; omega
      have := h _ (List.getElem_mem hk)
      rw [List.getElem_zip, padL_getElem hl1, padL_getElem hl2] at this
      have hkk : max s1.length s2.length - 1 - (max s1.length s2.length - 1 - k) = k := by omega
      rw [hkk] at this
      have := ((hsp _ _).1.mpr this)
      rw [bcastOk_nat] at this
      simpa using this
    · intro h p hp
      obtain ⟨i, hi, rfl⟩ := List.mem_iff_getElem.mp hp
      rw [List.getElem_zip, padL_getElem hl1, padL_getElem hl2]
      apply (hsp _ _).1.mp
      rw [bcastOk_nat]
      by_cases h1 : max s1.length s2.length - 1 - i < s1.length
      · by_cases h2 : max s1.length s2.length - 1 - i < s2.length
        · have := h _ h1 h2
          simpa using this
        · right; right; exact ⟨ext_ge (by omega), rfl⟩
      · right; left; exact ext_ge (by omega)
  unfold specBshapeWith
  simp only []
  by_cases hz : ZipOk s1 s2 false
  · rw [if_pos (hall.mpr hz), bshape2_of_ok hz]
    simp only []
    congr 1
    apply List.ext_getElem
    · simp [bdims_length, padL_length hl1, padL_length hl2]
    · intro i h1 h2
      rw [bdims_getElem, List.getElem_map, List.getElem_zip, padL_getElem hl1, padL_getElem hl2]
      have hok : Gen.bcastOk (ext s1 (max s1.length s2.length - 1 - i)) (ext s2 (max s1.length s2.length - 1 - i)) false = true := by
        rw [bcastOk_nat]
        by_cases h1 : max s1.length s2.length - 1 - i < s1.length
        · by_cases h2 : max s1.length s2.length - 1 - i < s2.length
          · have := hz _ h1 h2
            simpa using this
          · right; right; exact ⟨ext_ge (by omega), rfl⟩
        · right; left; exact ext_ge (by omega)
      rw [(hsp _ _).2 hok]
      simp only [Option.getD_some, bcastDim_nat]
  · rw [if_neg (fun hh => hz (hall.mp hh)), bshape2_of_not_ok hz]

/-! ## `is_result=True` (the call made by `broadcast_to`) -/

theorem ext_append (a b : List Nat) (k : Nat) :
    ext (a ++ b) k = if k < b.length then ext b k else ext a (k - b.length) := by
  unfold ext
  rw [List.reverse_append, List.getD_eq_getElem?_getD, List.getD_eq_getElem?_getD, List.getD_eq_getElem?_getD,
    List.getElem?_append]
  simp only [List.length_reverse]
  split <;> rfl

theorem ext_take_self (s : List Nat) (m k : Nat) (hm : m ≤ s.length) (hk : k < m) :
    ext (s.take m) k = ext s (k + (s.length - m)) := by
  rw [ext_lt (by simp; omega), ext_lt (by omega), List.getElem_take]
  congr 1
  simp
  omega

/-- what the code computes with `is_result=True`: only the common (zipped) axes are checked, the
`zip_longest` then keeps every extra leading axis of the FIRST shape -/
theorem bdims_result {s1 s2 : List Nat} (h : ZipOk s1 s2 true) :
    bdims s1 s2 = s1.take (s1.length - s2.length) ++ s2 := by
  apply ext_inj
  · simp [bdims_length]; omega
  · intro k hk
    rw [bdims_length] at hk
    rw [ext_bdims, ext_append]
    by_cases h2 : k < s2.length
    · rw [if_pos h2]
      by_cases h1 : k < s1.length
      · rcases h k h1 h2 with h3 | h3 | h3
        · rw [h3]; simp
        · rw [if_pos h3]
        · simp at h3
      · rw [ext_ge (s := s1) (by omega)]; simp
    · rw [if_neg h2, ext_take_self _ _ _ (by omega) (by omega), ext_ge (s := s2) (by omega)]
      have : k - s2.length + (s1.length - (s1.length - s2.length)) = k := by omega
      rw [this]
      split
      · next h1 => exact h1.symm
      · rfl

/-- `bshape2 src dst true = ok dst` exactly when `src` has no more axes than `dst` and every aligned
pair is equal or has extent 1 on the `src` side -/
theorem bshape2_result_ok_self {s1 s2 : List Nat} :
    bshape2 s1 s2 true = .ok s2 ↔ s1.length ≤ s2.length ∧ ∀ k, k < s1.length → (ext s1 k = ext s2 k ∨ ext s1 k = 1) := by
  rw [bshape2_ok_iff]
  constructor
  · rintro ⟨hg, hz, _⟩
    have hl : s1.length ≤ s2.length := hg rfl
    refine ⟨hl, fun k hk => ?_⟩
    rcases hz k hk (by omega) with h | h | h
    · exact Or.inl h
    · exact Or.inr h
    · simp at h
  · rintro ⟨hl, h⟩
    have hz : ZipOk s1 s2 true := by
      intro k h1 _
      rcases h k h1 with h3 | h3
      · exact Or.inl h3
      · exact Or.inr (Or.inl h3)
    refine ⟨fun _ => hl, hz, ?_⟩
    rw [bdims_result hz]
    have : s1.length - s2.length = 0 := by omega
    simp [this]

/-- with `is_result=True` a success always returns the result shape itself -/
theorem bshape2_true_ok_eq {s1 s2 t : List Nat} (h : bshape2 s1 s2 true = .ok t) : t = s2 := by
  obtain ⟨hg, hz, ht⟩ := bshape2_ok_iff.mp h
  rw [ht, bdims_result hz]
  have : s1.length - s2.length = 0 := by have := hg rfl; omega
  simp [this]

/-- the check made with `is_result=True`, written without the generated code -/
theorem zipOk_result_iff (s t : List Nat) :
    ((List.zip s.reverse t.reverse).all fun p => decide (p.1 = p.2 ∨ p.1 = 1)) = true ↔ ZipOk s t true := by
  rw [← zip_all_iff]
  have : (fun p : Nat × Nat => decide (p.1 = p.2 ∨ p.1 = 1)) = fun p => Gen.bcastOk p.1 p.2 true := by
    funext p
    rw [Bool.eq_iff_iff, bcastOk_nat]
    simp
  rw [this]

/-- NumPy's `broadcast_to` admissibility (operand right-aligned and padded with 1s against the
target), for an operand with no more axes than the target -/
theorem padL_zip_all_iff {s t : List Nat} (hl : s.length ≤ t.length) :
    ((List.zip (padL t.length s) t).all fun p => decide (p.1 = p.2 ∨ p.1 = 1)) = true ↔ ZipOk s t true := by
  rw [List.all_eq_true]
  constructor
  · intro h k h1 h2
    have hk : t.length - 1 - k < (List.zip (padL t.length s) t).length := by
      simp [padL_length hl]; omega
    have := h _ (List.getElem_mem hk)
    rw [List.getElem_zip, padL_getElem hl] at this
    have hkk : t.length - 1 - (t.length - 1 - k) = k := by omega
    rw [hkk] at this
    simp only [decide_eq_true_eq] at this
    rw [ext_lt h2]
    rcases this with h3 | h3
    · exact Or.inl h3
    · exact Or.inr (Or.inl h3)
  · intro h p hp
    obtain ⟨i, hi, rfl⟩ := List.mem_iff_getElem.mp hp
    have hi' : i < t.length := by simp [padL_length hl] at hi; exact hi
    rw [List.getElem_zip, padL_getElem hl]
    simp only [decide_eq_true_eq]
    by_cases h1 : t.length - 1 - i < s.length
    · rcases h _ h1 (by omega) with h3 | h3 | h3
      · left
        rw [h3, ext_lt (by omega)]
        congr 1
        omega
      · exact Or.inr h3
      · simp at h3
    · exact Or.inr (ext_ge (by omega))

/-! ## the n-ary fold `_get_nary_broadcast_shape` -/

/-- the extents found at one axis position are pairwise compatible -/
def ColOk (col : List Nat) : Prop := ∀ a ∈ col, ∀ b ∈ col, a = b ∨ a = 1 ∨ b = 1
instance (col : List Nat) : Decidable (ColOk col) := by unfold ColOk; infer_instance

/-- the broadcast extent at one axis position: the first extent that is not 1, else 1 -/
def colDim (col : List Nat) : Nat := (col.find? (· ≠ 1)).getD 1

def bcRank (shapes : List (List Nat)) : Nat := shapes.foldr (fun s m => max s.length m) 0

/-- the column of extents at axis `k` (from the right) -/
def colAt (shapes : List (List Nat)) (k : Nat) : List Nat := shapes.map (ext · k)

def nDims (shapes : List (List Nat)) : List Nat :=
  ((List.range (bcRank shapes)).map fun k => colDim (colAt shapes k)).reverse

theorem colDim_cons (a : Nat) (col : List Nat) : colDim (a :: col) = if a = 1 then colDim col else a := by
  unfold colDim
  rw [List.find?_cons]
  by_cases h : a = 1
  · simp [h]
  · simp [h]

theorem colDim_nil : colDim [] = 1 := rfl

theorem colDim_spec (col : List Nat) :
    (colDim col = 1 ∧ ∀ a ∈ col, a = 1) ∨ (colDim col ≠ 1 ∧ colDim col ∈ col) := by
  induction col with
  | nil => left; simp [colDim_nil]
  | cons a col ih =>
    rw [colDim_cons]
    by_cases h : a = 1
    · rw [if_pos h]
      rcases ih with ih | ih
      · left; exact ⟨ih.1, by simpa [h] using ih.2⟩
      · right; exact ⟨ih.1, List.mem_cons_of_mem _ ih.2⟩
    · rw [if_neg h]; right; exact ⟨h, List.mem_cons_self⟩

/-- under compatibility every member of a column is 1 or the column's extent -/
theorem ColOk.mem_eq {col : List Nat} (h : ColOk col) {a : Nat} (ha : a ∈ col) : a = colDim col ∨ a = 1 := by
  rcases colDim_spec col with hs | hs
  · exact Or.inr (hs.2 a ha)
  · rcases h a ha _ hs.2 with h1 | h1 | h1
    · exact Or.inl h1
    · exact Or.inr h1
    · exact absurd h1 hs.1

theorem colDim_perm {c c' : List Nat} (hp : c.Perm c') (h : ColOk c) : colDim c = colDim c' := by
  rcases colDim_spec c with hs | hs <;> rcases colDim_spec c' with hs' | hs'
  · rw [hs.1, hs'.1]
  · exact absurd (hs.2 _ (hp.mem_iff.mpr hs'.2)) hs'.1
  · exact absurd (hs'.2 _ (hp.mem_iff.mp hs.2)) hs.1
  · rcases h _ hs.2 _ (hp.mem_iff.mpr hs'.2) with h1 | h1 | h1
    · exact h1
    · exact absurd h1 hs.1
    · exact absurd h1 hs'.1

theorem ColOk.perm {c c' : List Nat} (hp : c.Perm c') (h : ColOk c) : ColOk c' :=
  fun a ha b hb => h a (hp.mem_iff.mpr ha) b (hp.mem_iff.mpr hb)

theorem ZipOk_iff_all (s1 s2 : List Nat) :
    ZipOk s1 s2 false ↔ ∀ k, (ext s1 k = ext s2 k ∨ ext s1 k = 1 ∨ ext s2 k = 1) := by
  constructor
  · intro h k
    by_cases h1 : k < s1.length
    · by_cases h2 : k < s2.length
      · rcases h k h1 h2 with h3 | h3 | h3
        · exact Or.inl h3
        · exact Or.inr (Or.inl h3)
        · exact Or.inr (Or.inr h3.1)
      · exact Or.inr (Or.inr (ext_ge (by omega)))
    · exact Or.inr (Or.inl (ext_ge (by omega)))
  · intro h k _ _
    rcases h k with h3 | h3 | h3
    · exact Or.inl h3
    · exact Or.inr (Or.inl h3)
    · exact Or.inr (Or.inr ⟨h3, rfl⟩)

/-- one step of the fold, seen in one column -/
theorem colOk_step (a s : Nat) (rest : List Nat) (hc : s = a ∨ s = 1 ∨ a = 1) :
    ColOk ((if s = 1 then a else s) :: rest) ↔ ColOk (a :: s :: rest) := by
  unfold ColOk
  simp only [List.mem_cons, forall_eq_or_imp]
  constructor
  · rintro ⟨⟨-, h1⟩, h2⟩
    refine ⟨⟨Or.inl trivial, ?_, ?_⟩, ⟨?_, Or.inl trivial, ?_⟩, ?_⟩
    · rcases hc with hc | hc | hc <;> omega
    · intro b hb
      have := h1 b hb
      split at this <;> omega
    · rcases hc with hc | hc | hc <;> omega
    · intro b hb
      have := h1 b hb
      split at this <;> omega
    · intro x hx
      have := h2 x hx
      refine ⟨?_, ?_, this.2⟩
      · have := this.1; split at this <;> omega
      · have := this.1; split at this <;> omega
  · rintro ⟨⟨-, h1, h2⟩, ⟨-, -, h3⟩, h4⟩
    refine ⟨⟨Or.inl trivial, ?_⟩, ?_⟩
    · intro b hb
      have := h2 b hb
      have := h3 b hb
      split <;> omega
    · intro x hx
      have := h4 x hx
      refine ⟨?_, this.2.2⟩
      split <;> omega

theorem colDim_step (a s : Nat) (rest : List Nat) (h : ColOk (a :: s :: rest)) :
    colDim ((if s = 1 then a else s) :: rest) = colDim (a :: s :: rest) := by
  have hc := h a (by simp) s (by simp)
  rw [colDim_cons, colDim_cons, colDim_cons]
  by_cases hs : s = 1 <;> by_cases ha : a = 1 <;> simp [hs, ha]
  omega

theorem bcRank_cons (s : List Nat) (shapes : List (List Nat)) :
    bcRank (s :: shapes) = max s.length (bcRank shapes) := rfl

theorem colAt_cons (s : List Nat) (shapes : List (List Nat)) (k : Nat) :
    colAt (s :: shapes) k = ext s k :: colAt shapes k := rfl

theorem ext_nDims (shapes : List (List Nat)) (k : Nat) :
    ext (nDims shapes) k = if k < bcRank shapes then colDim (colAt shapes k) else 1 := by
  unfold nDims
  rw [ext_reverse_map_range]

theorem nDims_length (shapes : List (List Nat)) : (nDims shapes).length = bcRank shapes := by
  simp [nDims]

theorem le_bcRank {shapes : List (List Nat)} {s : List Nat} (h : s ∈ shapes) : s.length ≤ bcRank shapes := by
  induction shapes with
  | nil => cases h
  | cons t shapes ih =>
    rw [bcRank_cons]
    rcases List.mem_cons.mp h with h | h
    · subst h; omega
    · have := ih h; omega

theorem colAt_ge {shapes : List (List Nat)} {k : Nat} (h : bcRank shapes ≤ k) : ∀ a ∈ colAt shapes k, a = 1 := by
  intro a ha
  obtain ⟨s, hs, rfl⟩ := List.mem_map.mp ha
  exact ext_ge (by have := le_bcRank hs; omega)

theorem ext_nDims' (shapes : List (List Nat)) (k : Nat) : ext (nDims shapes) k = colDim (colAt shapes k) := by
  rw [ext_nDims]
  by_cases h : k < bcRank shapes
  · rw [if_pos h]
  · rw [if_neg h]
    rcases colDim_spec (colAt shapes k) with hs | hs
    · exact hs.1.symm
    · exact absurd (colAt_ge (by omega) _ hs.2) hs.1

theorem nDims_single (s : List Nat) : nDims [s] = s := by
  apply ext_inj
  · simp [nDims_length, bcRank]
  · intro k _
    rw [ext_nDims']
    simp only [colAt, List.map_cons, List.map_nil, colDim_cons, colDim_nil]
    split
    · next h => exact h.symm
    · rfl

/-- the fold with an arbitrary accumulator -/
theorem bfold_spec (shapes : List (List Nat)) : ∀ (acc : List Nat),
    ((∀ k, ColOk (colAt (acc :: shapes) k)) →
      shapes.foldlM (fun acc s => bshape2 s acc false) acc = .ok (nDims (acc :: shapes))) ∧
    ((¬ ∀ k, ColOk (colAt (acc :: shapes) k)) →
      shapes.foldlM (fun acc s => bshape2 s acc false) acc = .error .value) := by
  induction shapes with
  | nil =>
    intro acc
    constructor
    · intro _
      rw [List.foldlM_nil, nDims_single]; rfl
    · intro h
      exfalso; apply h
      intro k a ha b hb
      simp only [colAt, List.map_cons, List.map_nil, List.mem_singleton] at ha hb
      left; rw [ha, hb]
  | cons s rest ih =>
    intro acc
    rw [List.foldlM_cons]
    by_cases hz : ZipOk s acc false
    · rw [bshape2_of_ok hz]
      have hz' := (ZipOk_iff_all s acc).mp hz
      have hstep : ∀ k, ColOk (colAt (bdims s acc :: rest) k) ↔ ColOk (colAt (acc :: s :: rest) k) := by
        intro k
        rw [colAt_cons, colAt_cons, colAt_cons, ext_bdims]
        exact colOk_step _ _ _ (hz' k)
      constructor
      · intro h
        have h' : ∀ k, ColOk (colAt (bdims s acc :: rest) k) := fun k => (hstep k).mpr (h k)
        show (rest.foldlM (fun acc s => bshape2 s acc false) (bdims s acc)) = _
        rw [(ih (bdims s acc)).1 h']
        congr 1
        apply ext_inj
        · rw [nDims_length, nDims_length, bcRank_cons, bcRank_cons, bcRank_cons, bdims_length]; omega
        · intro k _
          rw [ext_nDims', ext_nDims', colAt_cons, colAt_cons, colAt_cons, ext_bdims]
          exact colDim_step _ _ _ (h k)
      · intro h
        have h' : ¬ ∀ k, ColOk (colAt (bdims s acc :: rest) k) := fun hh => h fun k => (hstep k).mp (hh k)
        show (rest.foldlM (fun acc s => bshape2 s acc false) (bdims s acc)) = _
        exact (ih (bdims s acc)).2 h'
    · rw [bshape2_of_not_ok hz]
      constructor
      · intro h
        exfalso; apply hz
        rw [ZipOk_iff_all]
        intro k
        have := h k (ext s k) (by simp [colAt]) (ext acc k) (by simp [colAt])
        exact this
      · intro _; rfl

theorem colOk_one_cons (col : List Nat) : ColOk (1 :: col) ↔ ColOk col := by
  unfold ColOk
  simp only [List.mem_cons, forall_eq_or_imp]
  constructor
  · intro h a ha b hb
    exact (h.2 a ha).2 b hb
  · intro h
    refine ⟨⟨Or.inl trivial, fun b _ => Or.inr (Or.inl trivial)⟩, fun a ha => ⟨Or.inr (Or.inr trivial), h a ha⟩⟩

theorem nDims_nil_cons (shapes : List (List Nat)) : nDims ([] :: shapes) = nDims shapes := by
  apply ext_inj
  · rw [nDims_length, nDims_length, bcRank_cons]; simp
  · intro k _
    rw [ext_nDims', ext_nDims', colAt_cons, ext_nil, colDim_cons, if_pos rfl]

/-- **n-ary broadcasting, success.** -/
theorem bshapeN_of_ok {shapes : List (List Nat)} (h : ∀ k, ColOk (colAt shapes k)) :
    bshapeN shapes = .ok (nDims shapes) := by
  unfold bshapeN
  rw [(bfold_spec shapes []).1 (fun k => by rw [colAt_cons, ext_nil, colOk_one_cons]; exact h k), nDims_nil_cons]

/-- **n-ary broadcasting, failure.** -/
theorem bshapeN_of_not_ok {shapes : List (List Nat)} (h : ¬ ∀ k, ColOk (colAt shapes k)) :
    bshapeN shapes = .error .value := by
  unfold bshapeN
  apply (bfold_spec shapes []).2
  intro hh
  apply h
  intro k
  have := hh k
  rwa [colAt_cons, ext_nil, colOk_one_cons] at this

theorem bshapeN_ok_iff {shapes : List (List Nat)} {r : List Nat} :
    bshapeN shapes = .ok r ↔ (∀ k, ColOk (colAt shapes k)) ∧ r = nDims shapes := by
  by_cases h : ∀ k, ColOk (colAt shapes k)
  · rw [bshapeN_of_ok h]
    constructor
    · intro hh; exact ⟨h, (Except.ok.inj hh).symm⟩
    · intro hh; rw [hh.2]
  · rw [bshapeN_of_not_ok h]
    constructor
    · intro hh; cases hh
    · intro hh; exact absurd hh.1 h

theorem bcRank_perm {l l' : List (List Nat)} (hp : l.Perm l') : bcRank l = bcRank l' := by
  induction hp with
  | nil => rfl
  | cons x _ ih => rw [bcRank_cons, bcRank_cons, ih]
  | swap x y l => rw [bcRank_cons, bcRank_cons, bcRank_cons, bcRank_cons]; omega
  | trans _ _ ih1 ih2 => rw [ih1, ih2]

/-- **order independence.** The n-ary broadcast shape (and whether there is one) does not depend on
the order of the operands. -/
theorem bshapeN_perm {l l' : List (List Nat)} (hp : l.Perm l') : bshapeN l = bshapeN l' := by
  have hcol : ∀ k, (colAt l k).Perm (colAt l' k) := fun k => hp.map _
  by_cases h : ∀ k, ColOk (colAt l k)
  · have h' : ∀ k, ColOk (colAt l' k) := fun k => (h k).perm (hcol k)
    rw [bshapeN_of_ok h, bshapeN_of_ok h']
    congr 1
    apply ext_inj
    · rw [nDims_length, nDims_length, bcRank_perm hp]
    · intro k _
      rw [ext_nDims', ext_nDims']
      exact colDim_perm (hcol k) (h k)
  · have h' : ¬ ∀ k, ColOk (colAt l' k) := fun hh => h fun k => (hh k).perm (hcol k).symm
    rw [bshapeN_of_not_ok h, bshapeN_of_not_ok h']

theorem bshape2_nil_right (s : List Nat) : bshape2 s [] false = .ok s := by
  have hz : ZipOk s [] false := fun k _ h2 => absurd h2 (by simp)
  rw [bshape2_of_ok hz]
  congr 1
  apply ext_inj
  · simp [bdims_length]
  · intro k _
    rw [ext_bdims, ext_nil]
    split
    · next h => exact h.symm
    · rfl

theorem bshapeN_pair (s1 s2 : List Nat) : bshapeN [s1, s2] = bshape2 s2 s1 false := by
  unfold bshapeN
  rw [List.foldlM_cons, bshape2_nil_right]
  show ([s2].foldlM (fun acc s => bshape2 s acc false) s1) = _
  rw [List.foldlM_cons]
  cases bshape2 s2 s1 false <;> rfl

theorem bshapeN_triple (s1 s2 s3 : List Nat) :
    bshapeN [s1, s2, s3] = (bshape2 s2 s1 false >>= fun a => bshape2 s3 a false) := by
  unfold bshapeN
  rw [List.foldlM_cons, bshape2_nil_right]
  show ([s2, s3].foldlM (fun acc s => bshape2 s acc false) s1) = _
  rw [List.foldlM_cons]
  cases h : bshape2 s2 s1 false with
  | error e => rfl
  | ok a =>
    show ([s3].foldlM (fun acc s => bshape2 s acc false) a) = bshape2 s3 a false
    rw [List.foldlM_cons]
    cases bshape2 s3 a false <;> rfl

/-- the pairwise rule is commutative (result and error alike) -/
theorem bshape2_comm' (s1 s2 : List Nat) : bshape2 s1 s2 false = bshape2 s2 s1 false := by
  rw [← bshapeN_pair s2 s1, ← bshapeN_pair s1 s2]
  exact bshapeN_perm (List.Perm.swap _ _ _)

/-- the pairwise rule is associative in the error monad -/
theorem bshape2_assoc' (a b c : List Nat) :
    (bshape2 a b false >>= fun ab => bshape2 ab c false) =
      (bshape2 b c false >>= fun bc => bshape2 a bc false) := by
  have h1 : bshapeN [b, a, c] = (bshape2 a b false >>= fun ab => bshape2 ab c false) := by
    rw [bshapeN_triple]
    congr 1
    funext ab
    exact bshape2_comm' c ab
  have h2 : bshapeN [c, b, a] = (bshape2 b c false >>= fun bc => bshape2 a bc false) := bshapeN_triple c b a
  rw [← h1, ← h2]
  apply bshapeN_perm
  -- [b, a, c] ~ [c, b, a]
  exact (List.Perm.cons b (List.Perm.swap c a [])).trans (List.Perm.swap c b [a])

/-- NumPy's `broadcast_shapes` for any number of shapes, stated directly: pad every shape on the
left with 1s to the largest rank; at every axis the extents must be pairwise equal-or-1; the result
extent is the one that is not 1 (1 if all are). -/
def specBshapeN (shapes : List (List Nat)) : Option (List Nat) :=
  let n := bcRank shapes
  let cols := (List.range n).map fun i => shapes.map fun s => (padL n s).getD i 1
  if cols.all (fun c => decide (ColOk c)) then some (cols.map colDim) else none

theorem padCol_eq (shapes : List (List Nat)) (i : Nat) (hi : i < bcRank shapes) :
    (shapes.map fun s => (padL (bcRank shapes) s).getD i 1) = colAt shapes (bcRank shapes - 1 - i) := by
  unfold colAt
  apply List.map_congr_left
  intro s hs
  have hl := le_bcRank hs
  have hi' : i < (padL (bcRank shapes) s).length := by rw [padL_length hl]; exact hi
  rw [List.getD_eq_getElem?_getD, List.getElem?_eq_getElem hi', Option.getD_some, padL_getElem hl]

theorem bshapeN_eq_spec (shapes : List (List Nat)) :
    bshapeN shapes = (match specBshapeN shapes with | some r => .ok r | none => .error .value) := by
  have hall : (((List.range (bcRank shapes)).map fun i => shapes.map fun s => (padL (bcRank shapes) s).getD i 1).all
      fun c => decide (ColOk c)) = true ↔ ∀ k, ColOk (colAt shapes k) := by
    rw [List.all_eq_true]
    constructor
    · intro h k
      by_cases hk : k < bcRank shapes
      · have := h (shapes.map fun s => (padL (bcRank shapes) s).getD (bcRank shapes - 1 - k) 1)
          (List.mem_map.mpr ⟨bcRank shapes - 1 - k, by simp; omega, rfl⟩)
        rw [padCol_eq _ _ (by omega)] at this
        have hkk : bcRank shapes - 1 - (bcRank shapes - 1 - k) = k := by omega
        rw [hkk] at this
        simpa using this
      · intro a ha b _
        exact Or.inr (Or.inl (colAt_ge (by omega) a ha))
    · intro h c hc
      obtain ⟨i, hi, rfl⟩ := List.mem_map.mp hc
      rw [padCol_eq _ _ (by simpa using hi)]
      simpa using h _
  unfold specBshapeN
  simp only []
  by_cases h : ∀ k, ColOk (colAt shapes k)
  · rw [if_pos (hall.mpr h), bshapeN_of_ok h]
    simp only []
    congr 1
    apply List.ext_getElem
    · simp [nDims_length]
    · intro i h1 h2
      have hi : i < bcRank shapes := by rw [nDims_length] at h1; exact h1
      simp only [List.getElem_map, List.getElem_range]
      rw [padCol_eq _ _ hi]
      have : (nDims shapes)[i] = ext (nDims shapes) (bcRank shapes - 1 - i) := by
        rw [ext_lt (by rw [nDims_length]; omega)]
        congr 1
        rw [nDims_length]; omega
      rw [this, ext_nDims']
  · rw [if_neg (fun hh => h (hall.mp hh)), bshapeN_of_not_ok h]

/-! ## `_get_expanded_coords_data` -/
namespace COO
variable {α : Type}

/-- `Match ps d ei j`: result index `j` is one of the indices that the nested loops over the
parameter list `ps` (starting at operand axis `d`) produce for a stored entry with index `ei`:
a non-broadcast axis copies the entry's coordinate, every other axis ranges over its extent. -/
def Match : List (Option Bool × Nat) → Nat → Idx → Idx → Prop
  | [], _, _, j => j = []
  | (some true, _) :: rest, d, ei, j => ∃ j', j = ei.getD d 0 :: j' ∧ Match rest (d + 1) ei j'
  | (some false, sh) :: rest, d, ei, j => ∃ b j', j = b :: j' ∧ b < sh ∧ Match rest (d + 1) ei j'
  | (none, sh) :: rest, d, ei, j => ∃ b j', j = b :: j' ∧ b < sh ∧ Match rest d ei j'

theorem mem_map_cons {L : List (Idx × α)} {c : Nat} {j : Idx} {v : α} :
    (j, v) ∈ L.map (fun r => (c :: r.1, r.2)) ↔ ∃ j', j = c :: j' ∧ (j', v) ∈ L := by
  rw [List.mem_map]
  constructor
  · rintro ⟨⟨j', v'⟩, hm, he⟩
    simp only [Prod.mk.injEq] at he
    exact ⟨j', he.1.symm, he.2 ▸ hm⟩
  · rintro ⟨j', rfl, hm⟩
    exact ⟨(j', v), hm, rfl⟩

theorem mem_range_flatMap_cons {L : List (Idx × α)} {sh : Nat} {j : Idx} {v : α} :
    (j, v) ∈ (List.range sh).flatMap (fun b => L.map fun r => (b :: r.1, r.2)) ↔
      ∃ b j', j = b :: j' ∧ b < sh ∧ (j', v) ∈ L := by
  rw [List.mem_flatMap]
  constructor
  · rintro ⟨b, hb, hm⟩
    obtain ⟨j', hj, hm'⟩ := mem_map_cons.mp hm
    exact ⟨b, j', hj, List.mem_range.mp hb, hm'⟩
  · rintro ⟨b, j', hj, hb, hm⟩
    exact ⟨b, List.mem_range.mpr hb, mem_map_cons.mpr ⟨j', hj, hm⟩⟩

theorem mem_expandGo_some (ps : List (Option Bool × Nat)) (es : List (Idx × α)) (e : Idx × α) :
    ∀ (d : Nat) (j : Idx) (v : α), (j, v) ∈ expandGo ps d (some e) es ↔ v = e.2 ∧ Match ps d e.1 j := by
  induction ps with
  | nil =>
    intro d j v
    simp only [expandGo, Match, List.mem_singleton, Prod.mk.injEq]
    exact And.comm
  | cons p rest ih =>
    intro d j v
    obtain ⟨o, sh⟩ := p
    match o with
    | some true =>
      simp only [expandGo, Match]
      rw [mem_map_cons]
      constructor
      · rintro ⟨j', hj, hm⟩
        have := (ih _ _ _).mp hm
        exact ⟨this.1, j', hj, this.2⟩
      · rintro ⟨hv, j', hj, hm⟩
        exact ⟨j', hj, (ih _ _ _).mpr ⟨hv, hm⟩⟩
    | some false =>
      simp only [expandGo, Match]
      rw [mem_range_flatMap_cons]
      constructor
      · rintro ⟨b, j', hj, hb, hm⟩
        have := (ih _ _ _).mp hm
        exact ⟨this.1, b, j', hj, hb, this.2⟩
      · rintro ⟨hv, b, j', hj, hb, hm⟩
        exact ⟨b, j', hj, hb, (ih _ _ _).mpr ⟨hv, hm⟩⟩
    | none =>
      simp only [expandGo, Match]
      rw [mem_range_flatMap_cons]
      constructor
      · rintro ⟨b, j', hj, hb, hm⟩
        have := (ih _ _ _).mp hm
        exact ⟨this.1, b, j', hj, hb, this.2⟩
      · rintro ⟨hv, b, j', hj, hb, hm⟩
        exact ⟨b, j', hj, hb, (ih _ _ _).mpr ⟨hv, hm⟩⟩

theorem mem_expandGo_none (ps : List (Option Bool × Nat)) (es : List (Idx × α)) :
    ∀ (d : Nat) (j : Idx) (v : α),
      (j, v) ∈ expandGo ps d none es ↔ ∃ e ∈ es, v = e.2 ∧ Match ps d e.1 j := by
  induction ps with
  | nil =>
    intro d j v
    simp only [expandGo, Match, List.mem_map, Prod.mk.injEq]
    constructor
    · rintro ⟨e, he, h1, h2⟩; exact ⟨e, he, h2.symm, h1.symm⟩
    · rintro ⟨e, he, h1, h2⟩; exact ⟨e, he, h2.symm, h1.symm⟩
  | cons p rest ih =>
    intro d j v
    obtain ⟨o, sh⟩ := p
    match o with
    | some true =>
      simp only [expandGo, Match]
      rw [List.mem_flatMap]
      constructor
      · rintro ⟨e, he, hm⟩
        obtain ⟨j', hj, hm'⟩ := mem_map_cons.mp hm
        have := (mem_expandGo_some rest es e _ _ _).mp hm'
        exact ⟨e, he, this.1, j', hj, this.2⟩
      · rintro ⟨e, he, hv, j', hj, hm⟩
        exact ⟨e, he, mem_map_cons.mpr ⟨j', hj, (mem_expandGo_some rest es e _ _ _).mpr ⟨hv, hm⟩⟩⟩
    | some false =>
      simp only [expandGo, Match]
      rw [mem_range_flatMap_cons]
      constructor
      · rintro ⟨b, j', hj, hb, hm⟩
        obtain ⟨e, he, hv, hm'⟩ := (ih _ _ _).mp hm
        exact ⟨e, he, hv, b, j', hj, hb, hm'⟩
      · rintro ⟨e, he, hv, b, j', hj, hb, hm⟩
        exact ⟨b, j', hj, hb, (ih _ _ _).mpr ⟨e, he, hv, hm⟩⟩
    | none =>
      simp only [expandGo, Match]
      rw [mem_range_flatMap_cons]
      constructor
      · rintro ⟨b, j', hj, hb, hm⟩
        obtain ⟨e, he, hv, hm'⟩ := (ih _ _ _).mp hm
        exact ⟨e, he, hv, b, j', hj, hb, hm'⟩
      · rintro ⟨e, he, hv, b, j', hj, hb, hm⟩
        exact ⟨b, j', hj, hb, (ih _ _ _).mpr ⟨e, he, hv, hm⟩⟩

/-! ### every result index is produced once -/

/-- no two entries of the list carry the same index -/
def KeyND (L : List (Idx × α)) : Prop := L.Pairwise fun x y => x.1 ≠ y.1

theorem keyND_iff (L : List (Idx × α)) : KeyND L ↔ (keysOf L).Nodup := by
  unfold KeyND keysOf List.Nodup
  rw [List.pairwise_map]

theorem KeyND.map_cons {L : List (Idx × α)} (h : KeyND L) (c : Nat) :
    KeyND (L.map fun r => (c :: r.1, r.2)) := by
  unfold KeyND at *
  rw [List.pairwise_map]
  exact h.imp fun hab hh => hab (List.cons.inj hh).2

theorem KeyND.range_flatMap {L : List (Idx × α)} (h : KeyND L) (sh : Nat) :
    KeyND ((List.range sh).flatMap fun b => L.map fun r => (b :: r.1, r.2)) := by
  unfold KeyND
  rw [List.pairwise_flatMap]
  refine ⟨fun b _ => h.map_cons b, ?_⟩
  refine List.pairwise_lt_range.imp ?_
  intro b1 b2 hlt x hx y hy
  obtain ⟨x', _, rfl⟩ := List.mem_map.mp hx
  obtain ⟨y', _, rfl⟩ := List.mem_map.mp hy
  intro hh
  have := (List.cons.inj hh).1
  omega

theorem keyND_expandGo_some (ps : List (Option Bool × Nat)) (es : List (Idx × α)) (e : Idx × α) :
    ∀ d, KeyND (expandGo ps d (some e) es) := by
  induction ps with
  | nil => intro d; simp [expandGo, KeyND]
  | cons p rest ih =>
    intro d
    obtain ⟨o, sh⟩ := p
    match o with
    | some true => simp only [expandGo]; exact (ih _).map_cons _
    | some false => simp only [expandGo]; exact (ih _).range_flatMap _
    | none => simp only [expandGo]; exact (ih _).range_flatMap _

/-- if no result index is produced for two different stored entries, every result index occurs once -/
theorem keyND_expandGo_none (ps : List (Option Bool × Nat)) (es : List (Idx × α)) :
    ∀ d, es.Pairwise (fun e e' => ∀ j, Match ps d e.1 j → ¬ Match ps d e'.1 j) →
      KeyND (expandGo ps d none es) := by
  induction ps with
  | nil =>
    intro d h
    simp only [expandGo]
    unfold KeyND
    rw [List.pairwise_map]
    exact h.imp fun hab _ => hab [] rfl rfl
  | cons p rest ih =>
    intro d h
    obtain ⟨o, sh⟩ := p
    match o with
    | some true =>
      simp only [expandGo]
      unfold KeyND
      rw [List.pairwise_flatMap]
      refine ⟨fun e _ => (keyND_expandGo_some rest es e _).map_cons _, h.imp ?_⟩
      intro e e' hab x hx y hy hxy
      obtain ⟨⟨jx, vx⟩, hx', rfl⟩ := List.mem_map.mp hx
      obtain ⟨⟨jy, vy⟩, hy', rfl⟩ := List.mem_map.mp hy
      simp only [List.cons.injEq] at hxy
      have mx := ((mem_expandGo_some rest es e _ _ _).mp hx').2
      have my := ((mem_expandGo_some rest es e' _ _ _).mp hy').2
      apply hab (e.1.getD d 0 :: jx)
      · exact ⟨jx, rfl, mx⟩
      · refine ⟨jx, ?_, ?_⟩
        · rw [hxy.1]
        · rw [hxy.2]; exact my
    | some false =>
      simp only [expandGo]
      by_cases hsh : sh = 0
      · subst hsh; simp [KeyND]
      · apply KeyND.range_flatMap
        apply ih
        refine h.imp ?_
        intro e e' hab j m1 m2
        exact hab (0 :: j) ⟨0, j, rfl, by omega, m1⟩ ⟨0, j, rfl, by omega, m2⟩
    | none =>
      simp only [expandGo]
      by_cases hsh : sh = 0
      · subst hsh; simp [KeyND]
      · apply KeyND.range_flatMap
        apply ih
        refine h.imp ?_
        intro e e' hab j m1 m2
        exact hab (0 :: j) ⟨0, j, rfl, by omega, m1⟩ ⟨0, j, rfl, by omega, m2⟩

end COO

/-! ## the broadcast parameters of a real pair of shapes -/

/-- aligned, equal rank: each operand extent equals the target's or is 1 -/
def Bc1 : List Nat → List Nat → Prop
  | [], [] => True
  | a :: s, b :: t => (a = b ∨ a = 1) ∧ Bc1 s t
  | [], _ :: _ => False
  | _ :: _, [] => False

/-- `src` broadcasts to `dst` (`np.broadcast_to` is defined) -/
def BcTo (src dst : List Nat) : Prop :=
  src.length ≤ dst.length ∧ Bc1 src (dst.drop (dst.length - src.length))

theorem Bc1.length_eq : ∀ {s t : List Nat}, Bc1 s t → s.length = t.length
  | [], [], _ => rfl
  | _ :: s, _ :: t, h => by simp [Bc1.length_eq (s := s) (t := t) h.2]
  | [], _ :: _, h => absurd h (by simp [Bc1])
  | _ :: _, [], h => absurd h (by simp [Bc1])

theorem bc1_of_ext : ∀ {s t : List Nat}, s.length = t.length →
    (∀ k, k < s.length → (ext s k = ext t k ∨ ext s k = 1)) → Bc1 s t
  | [], [], _, _ => trivial
  | a :: s, b :: t, hl, h => by
    have hl' : s.length = t.length := by simpa using hl
    refine ⟨?_, bc1_of_ext hl' fun k hk => ?_⟩
    · have := h s.length (by simp)
      rw [ext_cons_eq] at this
      rw [hl', ext_cons_eq] at this
      exact this
    · have := h k (by simp; omega)
      rwa [ext_cons_lt hk, ext_cons_lt (by omega)] at this
  | [], _ :: _, hl, _ => by simp at hl
  | _ :: _, [], hl, _ => by simp at hl

theorem ext_drop (t : List Nat) (m k : Nat) (hk : k < t.length - m) : ext (t.drop m) k = ext t k := by
  rw [ext_lt (by simp; omega), ext_lt (by omega), List.getElem_drop]
  congr 1
  simp
  omega

theorem bcTo_of_ext {s t : List Nat} (hl : s.length ≤ t.length)
    (h : ∀ k, k < s.length → (ext s k = ext t k ∨ ext s k = 1)) : BcTo s t := by
  refine ⟨hl, bc1_of_ext (by simp; omega) fun k hk => ?_⟩
  rw [ext_drop _ _ _ (by omega)]
  exact h k hk

/-- the hypothesis of `broadcast_to` in the successful case -/
theorem bcTo_of_bshape2 {s t : List Nat} (h : bshape2 s t true = .ok t) : BcTo s t := by
  obtain ⟨hl, h⟩ := bshape2_result_ok_self.mp h
  exact bcTo_of_ext hl h

theorem bparams_nil : bparams [] [] = [] := rfl

theorem bparams_cons_none {src dst : List Nat} (b : Nat) (h : src.length ≤ dst.length) :
    bparams src (b :: dst) = none :: bparams src dst := by
  unfold bparams
  simp only [List.length_cons, List.range_succ_eq_map, List.map_cons, List.map_map]
  have h0 : 0 < dst.length + 1 - src.length := by omega
  rw [if_pos h0]
  congr 1
  apply List.map_congr_left
  intro d _
  simp only [Function.comp]
  have e1 : dst.length + 1 - src.length = (dst.length - src.length) + 1 := by omega
  by_cases hd : d < dst.length - src.length
  · rw [if_pos (by omega), if_pos hd]
  · rw [if_neg (by omega), if_neg hd]
    have e2 : d + 1 - (dst.length + 1 - src.length) = d - (dst.length - src.length) := by omega
    rw [e2]
    simp

theorem bparams_cons_some {src dst : List Nat} (a b : Nat) (h : src.length = dst.length) :
    bparams (a :: src) (b :: dst) = some (a == b) :: bparams src dst := by
  unfold bparams
  simp only [List.length_cons, List.range_succ_eq_map, List.map_cons, List.map_map]
  have e0 : dst.length + 1 - (src.length + 1) = 0 := by omega
  have e1 : dst.length - src.length = 0 := by omega
  rw [e0, e1]
  simp only [Nat.lt_irrefl, if_false, Nat.sub_zero, List.getD_cons_zero]
  congr 1

theorem drop_cons_getD : ∀ (ei : Idx) (d c : Nat) (tl : Idx), ei.drop d = c :: tl →
    ei.getD d 0 = c ∧ ei.drop (d + 1) = tl
  | [], d, c, tl, h => by simp at h
  | x :: ei, 0, c, tl, h => by
    simp only [List.drop_zero, List.cons.injEq] at h
    simp [h.1, h.2]
  | x :: ei, d + 1, c, tl, h => by
    simp only [List.drop_succ_cons] at h
    have := drop_cons_getD ei d c tl h
    simpa using this

/-- the projection on aligned equal-rank shapes -/
def projEq (src : List Nat) (j : Idx) : Idx := (List.zip src j).map fun p => if p.1 = 1 then 0 else p.2

theorem projIdx_eq (src dst : List Nat) (j : Idx) : projIdx src dst j = projEq src (j.drop (dst.length - src.length)) := rfl

theorem match_eq_len : ∀ (src post : List Nat) (ei : Idx) (d : Nat) (j : Idx), Bc1 src post →
    InB (ei.drop d) src →
    (COO.Match ((bparams src post).zip post) d ei j ↔ InB j post ∧ projEq src j = ei.drop d)
  | [], [], ei, d, j, _, hin => by
    rw [bparams_nil]
    simp only [List.zip_nil_left, COO.Match]
    cases hd : ei.drop d with
    | nil =>
      constructor
      · rintro rfl; exact ⟨trivial, rfl⟩
      · rintro ⟨hj, _⟩
        cases j with
        | nil => rfl
        | cons _ _ => exact absurd hj (by simp)
    | cons c tl => rw [hd] at hin; exact absurd hin (by simp)
  | a :: src, b :: post, ei, d, j, hb, hin => by
    have hl : src.length = post.length := hb.2.length_eq
    rw [bparams_cons_some a b hl, List.zip_cons_cons]
    cases hd : ei.drop d with
    | nil => rw [hd] at hin; exact absurd hin (by simp)
    | cons c tl =>
      rw [hd] at hin
      obtain ⟨hg, hdr⟩ := drop_cons_getD ei d c tl hd
      have hin' : InB (ei.drop (d + 1)) src := by rw [hdr]; exact hin.2
      have ih := fun j' => match_eq_len src post ei (d + 1) j' hb.2 hin'
      have hc : c < a := hin.1
      by_cases hab : a = b
      · have hbeq : (a == b) = true := by simpa using hab
        rw [hbeq]
        simp only [COO.Match]
        constructor
        · rintro ⟨j', rfl, hm⟩
          obtain ⟨h1, h2⟩ := (ih j').mp hm
          refine ⟨⟨by rw [hg]; omega, h1⟩, ?_⟩
          simp only [projEq, List.zip_cons_cons, List.map_cons] at h2 ⊢
          rw [hdr] at h2
          rw [hg, h2]
          by_cases ha1 : a = 1
          · rw [if_pos ha1]; congr 1; omega
          · rw [if_neg ha1]
        · rintro ⟨hj, hp⟩
          cases j with
          | nil => exact absurd hj (by simp)
          | cons x j' =>
            simp only [projEq, List.zip_cons_cons, List.map_cons, List.cons.injEq] at hp
            have hx : x < b := hj.1
            refine ⟨j', ?_, (ih j').mpr ⟨hj.2, by rw [hdr]; exact hp.2⟩⟩
            rw [hg]
            congr 1
            have := hp.1
            split at this <;> omega
      · have ha1 : a = 1 := by rcases hb.1 with h | h; exact absurd h hab; exact h
        have hbeq : (a == b) = false := by simpa using hab
        rw [hbeq]
        simp only [COO.Match]
        constructor
        · rintro ⟨x, j', rfl, hx, hm⟩
          obtain ⟨h1, h2⟩ := (ih j').mp hm
          refine ⟨⟨hx, h1⟩, ?_⟩
          simp only [projEq, List.zip_cons_cons, List.map_cons] at h2 ⊢
          rw [hdr] at h2
          rw [h2, if_pos ha1]
          congr 1; omega
        · rintro ⟨hj, hp⟩
          cases j with
          | nil => exact absurd hj (by simp)
          | cons x j' =>
            simp only [projEq, List.zip_cons_cons, List.map_cons, List.cons.injEq] at hp
            exact ⟨x, j', rfl, hj.1, (ih j').mpr ⟨hj.2, by rw [hdr]; exact hp.2⟩⟩
  | [], _ :: _, _, _, _, hb, _ => absurd hb (by simp [Bc1])
  | _ :: _, [], _, _, _, hb, _ => absurd hb (by simp [Bc1])

theorem BcTo.tail {src dst : List Nat} {b : Nat} (h : BcTo src (b :: dst)) (hl : src.length ≤ dst.length) :
    BcTo src dst := by
  refine ⟨hl, ?_⟩
  have := h.2
  have e : (b :: dst).length - src.length = (dst.length - src.length) + 1 := by simp; omega
  rwa [e, List.drop_succ_cons] at this

/-- **the loops of `_get_expanded_coords_data` on real broadcast parameters**: the result indices
produced for a stored entry are exactly the in-bounds indices that project onto it -/
theorem match_real : ∀ (dst src : List Nat) (ei j : Idx), BcTo src dst → InB ei src →
    (COO.Match ((bparams src dst).zip dst) 0 ei j ↔ InB j dst ∧ projIdx src dst j = ei)
  | [], src, ei, j, hb, hin => by
    have := match_eq_len src [] ei 0 j (by simpa using hb.2) (by simpa using hin)
    rw [projIdx_eq]
    simpa using this
  | b :: dst, src, ei, j, hb, hin => by
    by_cases hl : src.length ≤ dst.length
    · rw [bparams_cons_none b hl, List.zip_cons_cons]
      simp only [COO.Match]
      have ih := fun j' => match_real dst src ei j' (hb.tail hl) hin
      have e : (b :: dst).length - src.length = (dst.length - src.length) + 1 := by simp; omega
      constructor
      · rintro ⟨x, j', rfl, hx, hm⟩
        obtain ⟨h1, h2⟩ := (ih j').mp hm
        refine ⟨⟨hx, h1⟩, ?_⟩
        rw [projIdx_eq, e, List.drop_succ_cons, ← projIdx_eq]
        exact h2
      · rintro ⟨hj, hp⟩
        cases j with
        | nil => exact absurd hj (by simp)
        | cons x j' =>
          refine ⟨x, j', rfl, hj.1, (ih j').mpr ⟨hj.2, ?_⟩⟩
          rw [projIdx_eq, e, List.drop_succ_cons, ← projIdx_eq] at hp
          exact hp
    · have hle := hb.1
      have e : (b :: dst).length - src.length = 0 := by simp at hle ⊢; omega
      have h2 := hb.2
      rw [e, List.drop_zero] at h2
      have := match_eq_len src (b :: dst) ei 0 j h2 (by simpa using hin)
      rw [projIdx_eq, e]
      simpa using this

/-! ## index projection -/

theorem projEq_self : ∀ {j : Idx} {s : List Nat}, InB j s → projEq s j = j
  | [], [], _ => rfl
  | x :: j, d :: s, h => by
    simp only [projEq, List.zip_cons_cons, List.map_cons]
    have ih : projEq s j = j := projEq_self h.2
    unfold projEq at ih
    rw [ih]
    have := h.1
    congr 1
    split <;> omega
  | [], _ :: _, h => absurd h (by simp)
  | _ :: _, [], h => absurd h (by simp)

theorem projIdx_self {j : Idx} {s : List Nat} (h : InB j s) : projIdx s s j = j := by
  rw [projIdx_eq, Nat.sub_self, List.drop_zero, projEq_self h]

theorem projEq_InB : ∀ {src post : List Nat} {j : Idx}, Bc1 src post → InB j post → InB (projEq src j) src
  | [], [], [], _, _ => trivial
  | a :: src, b :: post, x :: j, hb, hj => by
    simp only [projEq, List.zip_cons_cons, List.map_cons, InB_cons]
    refine ⟨?_, projEq_InB hb.2 hj.2⟩
    have := hj.1
    rcases hb.1 with h | h <;> split <;> omega
  | [], [], _ :: _, _, hj => absurd hj (by simp)
  | _ :: _, _ :: _, [], _, hj => absurd hj (by simp)
  | [], _ :: _, _, hb, _ => absurd hb (by simp [Bc1])
  | _ :: _, [], _, hb, _ => absurd hb (by simp [Bc1])

theorem InB_drop : ∀ (m : Nat) {j : Idx} {s : List Nat}, InB j s → InB (j.drop m) (s.drop m)
  | 0, _, _, h => by simpa using h
  | m + 1, [], [], _ => by simp
  | m + 1, x :: j, d :: s, h => by simpa using InB_drop m h.2
  | _ + 1, [], _ :: _, h => absurd h (by simp)
  | _ + 1, _ :: _, [], h => absurd h (by simp)

/-- the projection of an in-bounds result index is an in-bounds operand index -/
theorem projIdx_InB {src dst : List Nat} {j : Idx} (hb : BcTo src dst) (hj : InB j dst) :
    InB (projIdx src dst j) src := by
  rw [projIdx_eq]
  exact projEq_InB hb.2 (InB_drop _ hj)

theorem projEq_drop : ∀ (m : Nat) (b : List Nat) (j : Idx), (projEq b j).drop m = projEq (b.drop m) (j.drop m)
  | 0, _, _ => by simp
  | m + 1, [], j => by simp [projEq]
  | m + 1, _ :: _, [] => by simp [projEq]
  | m + 1, _ :: b, _ :: j => by
    simp only [projEq, List.zip_cons_cons, List.map_cons, List.drop_succ_cons]
    exact projEq_drop m b j

theorem projEq_comp : ∀ {a b : List Nat} {j : Idx}, Bc1 a b → b.length = j.length →
    projEq a (projEq b j) = projEq a j
  | [], [], _, _, _ => by simp [projEq]
  | x :: a, y :: b, z :: j, hb, hl => by
    simp only [projEq, List.zip_cons_cons, List.map_cons]
    have ih : projEq a (projEq b j) = projEq a j := projEq_comp hb.2 (by simpa using hl)
    unfold projEq at ih
    rw [ih]
    congr 1
    rcases hb.1 with h | h
    · subst h; split <;> rfl
    · rw [if_pos h, if_pos h]
  | _ :: _, _ :: _, [], _, hl => by simp at hl
  | [], _ :: _, _, hb, _ => absurd hb (by simp [Bc1])
  | _ :: _, [], _, hb, _ => absurd hb (by simp [Bc1])

/-- projections compose: reading operand `a` through an intermediate shape `b` -/
theorem projIdx_comp {a b c : List Nat} {j : Idx} (hab : BcTo a b) (hbc : BcTo b c) (hj : InB j c) :
    projIdx a b (projIdx b c j) = projIdx a c j := by
  have hjl := InB_length hj
  rw [projIdx_eq, projIdx_eq, projIdx_eq, projEq_drop, List.drop_drop]
  have e : c.length - b.length + (b.length - a.length) = c.length - a.length := by
    have := hab.1; have := hbc.1; omega
  rw [e]
  apply projEq_comp hab.2
  simp only [List.length_drop]
  have := hab.1; have := hbc.1
  omega

theorem bc_mem_allIdx : ∀ {s : List Nat} {j : Idx}, j ∈ allIdx s ↔ InB j s
  | [], j => by
    cases j <;> simp [allIdx]
  | d :: s, j => by
    simp only [allIdx, List.mem_flatMap, List.mem_range, List.mem_map]
    constructor
    · rintro ⟨i, hi, r, hr, rfl⟩
      exact ⟨hi, bc_mem_allIdx.mp hr⟩
    · intro h
      cases j with
      | nil => exact absurd h (by simp)
      | cons x j => exact ⟨x, h.1, j, bc_mem_allIdx.mpr h.2, rfl⟩

/-! ## `COO.expand` and `broadcast_to` -/
namespace COO
variable {α : Type}

/-- **every stored entry is replicated exactly over the broadcast axes** -/
theorem mem_expand {es : List (Idx × α)} {src dst : List Nat} (hb : BcTo src dst)
    (hwf : ∀ e ∈ es, InB e.1 src) (j : Idx) (v : α) :
    (j, v) ∈ expand es src dst ↔ InB j dst ∧ (projIdx src dst j, v) ∈ es := by
  unfold expand
  rw [mem_expandGo_none]
  constructor
  · rintro ⟨e, he, hv, hm⟩
    obtain ⟨h1, h2⟩ := (match_real dst src e.1 j hb (hwf e he)).mp hm
    refine ⟨h1, ?_⟩
    rw [h2, hv]
    exact he
  · rintro ⟨h1, h2⟩
    exact ⟨_, h2, rfl, (match_real dst src _ j hb (hwf _ h2)).mpr ⟨h1, rfl⟩⟩

/-- … and each result index once -/
theorem nodup_expand {es : List (Idx × α)} {src dst : List Nat} (hb : BcTo src dst)
    (hwf : ∀ e ∈ es, InB e.1 src) (hnd : (keysOf es).Nodup) : (keysOf (expand es src dst)).Nodup := by
  rw [← keyND_iff]
  unfold expand
  apply keyND_expandGo_none
  have hnd' : es.Pairwise fun e e' => e.1 ≠ e'.1 := by
    unfold keysOf List.Nodup at hnd
    rwa [List.pairwise_map] at hnd
  have hall : es.Pairwise fun e e' => InB e.1 src ∧ InB e'.1 src := by
    rw [List.pairwise_iff_forall_sublist]
    intro a b hs
    have := hs.subset
    exact ⟨hwf a (this (by simp)), hwf b (this (by simp))⟩
  refine (hnd'.and hall).imp ?_
  rintro e e' ⟨hne, h1, h2⟩ j m1 m2
  have p1 := ((match_real dst src e.1 j hb h1).mp m1).2
  have p2 := ((match_real dst src e'.1 j hb h2).mp m2).2
  exact hne (p1.symm.trans p2)

theorem wf_expand {es : List (Idx × α)} {src dst : List Nat} (hb : BcTo src dst)
    (hwf : ∀ e ∈ es, InB e.1 src) : ∀ e ∈ expand es src dst, InB e.1 dst := by
  intro e he
  exact ((mem_expand hb hwf e.1 e.2).mp he).1

/-- reading the expansion at `j` is reading the operand at the projected index -/
theorem lookup_expand {es : List (Idx × α)} {src dst : List Nat} (hb : BcTo src dst)
    (hwf : ∀ e ∈ es, InB e.1 src) (hnd : (keysOf es).Nodup) (d : α) {j : Idx} (hj : InB j dst) :
    lookup (expand es src dst) d j = lookup es d (projIdx src dst j) := by
  by_cases hk : projIdx src dst j ∈ keysOf es
  · obtain ⟨e, he, hi⟩ := List.mem_map.mp hk
    have hm : (projIdx src dst j, e.2) ∈ es := by rw [← hi]; exact he
    rw [lookup_of_mem hnd hm, lookup_of_mem (nodup_expand hb hwf hnd) ((mem_expand hb hwf j e.2).mpr ⟨hj, hm⟩)]
  · rw [lookup_of_not_mem hk]
    apply lookup_of_not_mem
    intro hmem
    obtain ⟨e, he, hi⟩ := List.mem_map.mp hmem
    have : (j, e.2) ∈ expand es src dst := by rw [← hi]; exact he
    exact hk (List.mem_map.mpr ⟨_, ((mem_expand hb hwf j e.2).mp this).2, rfl⟩)

theorem not_mem_keys_expand {es : List (Idx × α)} {src dst : List Nat} (hb : BcTo src dst)
    (hwf : ∀ e ∈ es, InB e.1 src) {j : Idx} (h : j ∉ keysOf (expand es src dst)) (hj : InB j dst) :
    projIdx src dst j ∉ keysOf es := by
  intro hk
  obtain ⟨e, he, hi⟩ := List.mem_map.mp hk
  have hm : (projIdx src dst j, e.2) ∈ es := by rw [← hi]; exact he
  exact h (List.mem_map.mpr ⟨_, (mem_expand hb hwf j e.2).mpr ⟨hj, hm⟩, rfl⟩)

/-- **`broadcast_to`.** -/
theorem broadcastTo_spec (x : COO α) (s : List Nat) (hwf : x.WF) (hnd : x.keys.Nodup)
    (h : bshape2 x.shape s true = .ok s) :
    ∃ r, x.broadcastTo s = .ok r ∧ r.shape = s ∧ r.fill = x.fill ∧ r.WF ∧ r.keys.Nodup ∧
      ∀ j, InB j s → r.get j = x.get (projIdx x.shape s j) := by
  have hb := bcTo_of_bshape2 h
  unfold broadcastTo
  by_cases hs : s = x.shape
  · rw [if_pos hs]
    refine ⟨x, rfl, hs.symm, rfl, hwf, hnd, fun j hj => ?_⟩
    subst hs
    rw [projIdx_self hj]
  · rw [if_neg hs, h]
    simp only []
    refine ⟨_, rfl, rfl, rfl, ?_, ?_, ?_⟩
    · intro e he
      simp only at he ⊢
      split at he
      · exact wf_expand hb hwf e he
      · exact wf_expand hb hwf e (mem_sortEntries.mp he)
    · show (keysOf _).Nodup
      simp only []
      split
      · exact nodup_expand hb hwf hnd
      · exact nodup_sortEntries _ _ (nodup_expand hb hwf hnd)
    · intro j hj
      unfold get
      simp only []
      split
      · exact lookup_expand hb hwf hnd _ hj
      · rw [lookup_sortEntries _ _ _ _ (nodup_expand hb hwf hnd)]
        exact lookup_expand hb hwf hnd _ hj

end COO
end SparseV

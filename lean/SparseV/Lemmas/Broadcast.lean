/-
  SparseV.Lemmas.Broadcast — broadcasting of shapes (`_get_broadcast_shape`, its n-ary fold),
  the index projection `projIdx`, and `_get_expanded_coords_data` (`COO.expand`).
  The per-pair rule is the GENERATED `Gen.bcastOk` / `Gen.bcastDim`.
-/
import SparseV.Model.Elemwise
import SparseV.Lemmas.Assoc
import SparseV.Lemmas.Index
import SparseV.Lemmas.Canonical
namespace SparseV

/-! ## extents counted from the right -/

/-- extent of axis `k` counted from the right, 1 beyond the rank (NumPy's implicit padding) -/
def ext (s : List Nat) (k : Nat) : Nat := s.reverse.getD k 1

theorem ext_ge {s : List Nat} {k : Nat} (h : s.length ≤ k) : ext s k = 1 := by
  unfold ext
  rw [List.getD_eq_getElem?_getD, List.getElem?_eq_none (by simpa using h)]
  rfl

theorem ext_lt {s : List Nat} {k : Nat} (h : k < s.length) : ext s k = s[s.length - 1 - k] := by
  unfold ext
  rw [List.getD_eq_getElem?_getD, List.getElem?_eq_getElem (by simpa using h), List.getElem_reverse]
  rfl

theorem ext_nil (k : Nat) : ext [] k = 1 := ext_ge (by simp)

theorem ext_cons_lt {a : Nat} {s : List Nat} {k : Nat} (h : k < s.length) : ext (a :: s) k = ext s k := by
  rw [ext_lt (by simp; omega), ext_lt h]
  have : (a :: s).length - 1 - k = (s.length - 1 - k) + 1 := by simp; omega
  simp only [this, List.getElem_cons_succ]

theorem ext_cons_eq (a : Nat) (s : List Nat) : ext (a :: s) s.length = a := by
  rw [ext_lt (by simp)]
  simp

/-- a shape is determined by its rank and its extents -/
theorem ext_inj {s t : List Nat} (hl : s.length = t.length) (h : ∀ k, k < s.length → ext s k = ext t k) :
    s = t := by
  have : s.reverse = t.reverse := by
    apply List.ext_getElem (by simpa using hl)
    intro k h1 h2
    have := h k (by simpa using h1)
    unfold ext at this
    rw [List.getD_eq_getElem?_getD, List.getD_eq_getElem?_getD, List.getElem?_eq_getElem h1,
      List.getElem?_eq_getElem h2] at this
    simpa using this
  simpa using congrArg List.reverse this

theorem ext_reverse_map_range (n : Nat) (g : Nat → Nat) (k : Nat) :
    ext (((List.range n).map g).reverse) k = if k < n then g k else 1 := by
  unfold ext
  rw [List.reverse_reverse, List.getD_eq_getElem?_getD]
  by_cases h : k < n
  · simp [h]
  · simp [h]

/-! ## the generated per-pair rule on natural numbers -/

theorem bcastOk_nat (a b : Nat) (r : Bool) :
    Gen.bcastOk (a : Int) (b : Int) r = true ↔ (a = b ∨ a = 1 ∨ (b = 1 ∧ r = false)) := by
  simp only [Gen.bcastOk, decide_eq_true_eq]
  cases r <;> simp <;> omega

theorem bcastDim_nat (a b : Nat) : (Gen.bcastDim (a : Int) (b : Int)).toNat = if a = 1 then b else a := by
  simp only [Gen.bcastDim]
  by_cases h : a = 1
  · subst h; simp
  · have : (a : Int) ≠ 1 := by omega
    simp [this, h]

/-! ## `_get_broadcast_shape` in terms of extents -/

/-- all aligned pairs of the common (zipped) part are admissible -/
def ZipOk (s1 s2 : List Nat) (r : Bool) : Prop :=
  ∀ k, k < s1.length → k < s2.length → (ext s1 k = ext s2 k ∨ ext s1 k = 1 ∨ (ext s2 k = 1 ∧ r = false))

/-- the `zip_longest` result -/
def bdims (s1 s2 : List Nat) : List Nat :=
  ((List.range (max s1.length s2.length)).map fun k => if ext s1 k = 1 then ext s2 k else ext s1 k).reverse

theorem zip_all_iff (s1 s2 : List Nat) (r : Bool) :
    ((List.zip s1.reverse s2.reverse).all fun p => Gen.bcastOk p.1 p.2 r) = true ↔ ZipOk s1 s2 r := by
  rw [List.all_eq_true]
  constructor
  · intro h k h1 h2
    have hk : k < (List.zip s1.reverse s2.reverse).length := by simp; omega
    have := h _ (List.getElem_mem hk)
    rw [List.getElem_zip, bcastOk_nat] at this
    unfold ext
    rw [List.getD_eq_getElem?_getD, List.getD_eq_getElem?_getD,
      List.getElem?_eq_getElem (by simpa using h1), List.getElem?_eq_getElem (by simpa using h2)]
    simpa using this
  · intro h p hp
    obtain ⟨k, hk, rfl⟩ := List.mem_iff_getElem.mp hp
    have hk' : k < s1.length ∧ k < s2.length := by simp at hk; omega
    have := h k hk'.1 hk'.2
    unfold ext at this
    rw [List.getD_eq_getElem?_getD, List.getD_eq_getElem?_getD,
      List.getElem?_eq_getElem (by simpa using hk'.1), List.getElem?_eq_getElem (by simpa using hk'.2)] at this
    rw [List.getElem_zip, bcastOk_nat]
    simpa using this

theorem bshape2_dims (s1 s2 : List Nat) :
    (((List.range (max s1.reverse.length s2.reverse.length)).map fun k =>
      (Gen.bcastDim (s1.reverse.getD k 1) (s2.reverse.getD k 1)).toNat).reverse) = bdims s1 s2 := by
  unfold bdims ext
  simp only [List.length_reverse, bcastDim_nat]

theorem bshape2_of_ok {s1 s2 : List Nat} {r : Bool} (h : ZipOk s1 s2 r) : bshape2 s1 s2 r = .ok (bdims s1 s2) := by
  unfold bshape2
  simp only []
  rw [if_pos ((zip_all_iff s1 s2 r).mpr h), bshape2_dims]

theorem bshape2_of_not_ok {s1 s2 : List Nat} {r : Bool} (h : ¬ ZipOk s1 s2 r) : bshape2 s1 s2 r = .error .value := by
  unfold bshape2
  simp only []
  rw [if_neg (fun hh => h ((zip_all_iff s1 s2 r).mp hh))]

theorem bshape2_ok_iff {s1 s2 t : List Nat} {r : Bool} : bshape2 s1 s2 r = .ok t ↔ ZipOk s1 s2 r ∧ t = bdims s1 s2 := by
  by_cases h : ZipOk s1 s2 r
  · rw [bshape2_of_ok h]
    constructor
    · intro hh; exact ⟨h, (Except.ok.inj hh).symm⟩
    · intro hh; rw [hh.2]
  · rw [bshape2_of_not_ok h]
    constructor
    · intro hh; cases hh
    · intro hh; exact absurd hh.1 h

theorem bshape2_error {s1 s2 : List Nat} {r : Bool} {e : Err} (h : bshape2 s1 s2 r = .error e) :
    e = .value ∧ ¬ ZipOk s1 s2 r := by
  by_cases hz : ZipOk s1 s2 r
  · rw [bshape2_of_ok hz] at h; cases h
  · rw [bshape2_of_not_ok hz] at h; exact ⟨(Except.error.inj h).symm, hz⟩

theorem bdims_length (s1 s2 : List Nat) : (bdims s1 s2).length = max s1.length s2.length := by
  simp [bdims]

theorem ext_bdims (s1 s2 : List Nat) (k : Nat) :
    ext (bdims s1 s2) k = if ext s1 k = 1 then ext s2 k else ext s1 k := by
  unfold bdims
  rw [ext_reverse_map_range]
  by_cases h : k < max s1.length s2.length
  · rw [if_pos h]
  · rw [if_neg h, ext_ge (s := s1) (by omega), ext_ge (s := s2) (by omega)]; simp

/-! ## NumPy's rule stated directly: right-align, pad with 1s, combine per pair -/

/-- pad a shape on the left with 1s up to rank `n` -/
def padL (n : Nat) (s : List Nat) : List Nat := List.replicate (n - s.length) 1 ++ s

/-- NumPy's `broadcast_shapes` for two shapes, for a per-pair rule `sp` (`none` = incompatible) -/
def specBshapeWith (sp : Int → Int → Option Int) (s1 s2 : List Nat) : Option (List Nat) :=
  let n := max s1.length s2.length
  let ps := List.zip (padL n s1) (padL n s2)
  if ps.all (fun p => (sp p.1 p.2).isSome) then some (ps.map fun p => ((sp p.1 p.2).getD 0).toNat) else none

theorem padL_length {n : Nat} {s : List Nat} (h : s.length ≤ n) : (padL n s).length = n := by
  simp [padL]; omega

theorem padL_getElem {n : Nat} {s : List Nat} (h : s.length ≤ n) (i : Nat) (hi : i < (padL n s).length) :
    (padL n s)[i] = ext s (n - 1 - i) := by
  have hn : i < n := by rw [padL_length h] at hi; exact hi
  suffices key : ∀ (l : List Nat) (_ : l = List.replicate (n - s.length) 1 ++ s) (hi' : i < l.length),
      l[i] = ext s (n - 1 - i) from key _ rfl hi
  intro l hl hi'
  subst hl
  rw [List.getElem_append]
  by_cases h1 : i < n - s.length
  · simp only [List.length_replicate, h1, dite_true, List.getElem_replicate]
    rw [ext_ge (by omega)]
  · simp only [List.length_replicate, h1, dite_false]
    rw [ext_lt (by omega)]
    congr 1
    omega

theorem bdims_getElem (s1 s2 : List Nat) (i : Nat) (hi : i < (bdims s1 s2).length) :
    (bdims s1 s2)[i] =
      if ext s1 (max s1.length s2.length - 1 - i) = 1 then ext s2 (max s1.length s2.length - 1 - i)
      else ext s1 (max s1.length s2.length - 1 - i) := by
  suffices key : ∀ (l : List Nat) (_ : l = bdims s1 s2) (hi' : i < l.length), l[i] =
      if ext s1 (max s1.length s2.length - 1 - i) = 1 then ext s2 (max s1.length s2.length - 1 - i)
      else ext s1 (max s1.length s2.length - 1 - i) from key _ rfl hi
  intro l hl hi'
  unfold bdims at hl
  subst hl
  rw [List.getElem_reverse, List.getElem_map, List.getElem_range]
  simp

/-- `_get_broadcast_shape(s1, s2)` is NumPy's rule for every per-pair specification `sp` that the
generated per-pair code meets (the statement of `C01.bcast_pair_spec`). -/
theorem bshape2_eq_spec (sp : Int → Int → Option Int)
    (hsp : ∀ l1 l2 : Int, (Gen.bcastOk l1 l2 false = true ↔ (sp l1 l2).isSome) ∧
      (Gen.bcastOk l1 l2 false = true → sp l1 l2 = some (Gen.bcastDim l1 l2)))
    (s1 s2 : List Nat) :
    bshape2 s1 s2 false = (match specBshapeWith sp s1 s2 with | some r => .ok r | none => .error .value) := by
  have hl1 : s1.length ≤ max s1.length s2.length := by omega
  have hl2 : s2.length ≤ max s1.length s2.length := by omega
  have hall : ((List.zip (padL (max s1.length s2.length) s1) (padL (max s1.length s2.length) s2)).all
      fun p => (sp p.1 p.2).isSome) = true ↔ ZipOk s1 s2 false := by
    rw [List.all_eq_true]
    constructor
    · intro h k h1 h2
      have hk : max s1.length s2.length - 1 - k <
          (List.zip (padL (max s1.length s2.length) s1) (padL (max s1.length s2.length) s2)).length := by
        simp [padL_length hl1, padL_length hl2]; omega
      have := h _ (List.getElem_mem hk)
      rw [List.getElem_zip, padL_getElem hl1, padL_getElem hl2] at this
      have hkk : max s1.length s2.length - 1 - (max s1.length s2.length - 1 - k) = k := by omega
      rw [hkk] at this
      have := ((hsp _ _).1.mpr this)
      rw [bcastOk_nat] at this
      simpa using this
    · intro h p hp
      obtain ⟨i, hi, rfl⟩ := List.mem_iff_getElem.mp hp
      rw [List.getElem_zip, padL_getElem hl1, padL_getElem hl2]
      apply (hsp _ _).1.mp
      rw [bcastOk_nat]
      by_cases h1 : max s1.length s2.length - 1 - i < s1.length
      · by_cases h2 : max s1.length s2.length - 1 - i < s2.length
        · have := h _ h1 h2
          simpa using this
        · right; right; exact ⟨ext_ge (by omega), rfl⟩
      · right; left; exact ext_ge (by omega)
  unfold specBshapeWith
  simp only []
  by_cases hz : ZipOk s1 s2 false
  · rw [if_pos (hall.mpr hz), bshape2_of_ok hz]
    simp only []
    congr 1
    apply List.ext_getElem
    · simp [bdims_length, padL_length hl1, padL_length hl2]
    · intro i h1 h2
      rw [bdims_getElem, List.getElem_map, List.getElem_zip, padL_getElem hl1, padL_getElem hl2]
      have hok : Gen.bcastOk (ext s1 (max s1.length s2.length - 1 - i)) (ext s2 (max s1.length s2.length - 1 - i)) false = true := by
        rw [bcastOk_nat]
        by_cases h1 : max s1.length s2.length - 1 - i < s1.length
        · by_cases h2 : max s1.length s2.length - 1 - i < s2.length
          · have := hz _ h1 h2
            simpa using this
          · right; right; exact ⟨ext_ge (by omega), rfl⟩
        · right; left; exact ext_ge (by omega)
      rw [(hsp _ _).2 hok]
      simp only [Option.getD_some, bcastDim_nat]
  · rw [if_neg (fun hh => hz (hall.mp hh)), bshape2_of_not_ok hz]

/-! ## `is_result=True` (the call made by `broadcast_to`) -/

theorem ext_append (a b : List Nat) (k : Nat) :
    ext (a ++ b) k = if k < b.length then ext b k else ext a (k - b.length) := by
  unfold ext
  rw [List.reverse_append, List.getD_eq_getElem?_getD, List.getD_eq_getElem?_getD, List.getD_eq_getElem?_getD,
    List.getElem?_append]
  simp only [List.length_reverse]
  split <;> rfl

theorem ext_take_self (s : List Nat) (m k : Nat) (hm : m ≤ s.length) (hk : k < m) :
    ext (s.take m) k = ext s (k + (s.length - m)) := by
  rw [ext_lt (by simp; omega), ext_lt (by omega), List.getElem_take]
  congr 1
  simp
  omega

/-- what the code computes with `is_result=True`: only the common (zipped) axes are checked, the
`zip_longest` then keeps every extra leading axis of the FIRST shape -/
theorem bdims_result {s1 s2 : List Nat} (h : ZipOk s1 s2 true) :
    bdims s1 s2 = s1.take (s1.length - s2.length) ++ s2 := by
  apply ext_inj
  · simp [bdims_length]; omega
  · intro k hk
    rw [bdims_length] at hk
    rw [ext_bdims, ext_append]
    by_cases h2 : k < s2.length
    · rw [if_pos h2]
      by_cases h1 : k < s1.length
      · rcases h k h1 h2 with h3 | h3 | h3
        · rw [h3]; simp
        · rw [if_pos h3]
        · simp at h3
      · rw [ext_ge (s := s1) (by omega)]; simp
    · rw [if_neg h2, ext_take_self _ _ _ (by omega) (by omega), ext_ge (s := s2) (by omega)]
      have : k - s2.length + (s1.length - (s1.length - s2.length)) = k := by omega
      rw [this]
      split
      · next h1 => exact h1.symm
      · rfl

theorem bshape2_result_eq (s1 s2 : List Nat) [Decidable (ZipOk s1 s2 true)] :
    bshape2 s1 s2 true = if ZipOk s1 s2 true then .ok (s1.take (s1.length - s2.length) ++ s2) else .error .value := by
  by_cases h : ZipOk s1 s2 true
  · rw [if_pos h, bshape2_of_ok h, bdims_result h]
  · rw [if_neg h, bshape2_of_not_ok h]

/-- `bshape2 src dst true = ok dst` exactly when `src` has no more axes than `dst` and every aligned
pair is equal or has extent 1 on the `src` side -/
theorem bshape2_result_ok_self {s1 s2 : List Nat} :
    bshape2 s1 s2 true = .ok s2 ↔ s1.length ≤ s2.length ∧ ∀ k, k < s1.length → (ext s1 k = ext s2 k ∨ ext s1 k = 1) := by
  rw [bshape2_ok_iff]
  constructor
  · rintro ⟨hz, hd⟩
    have hl : s1.length ≤ s2.length := by
      have := congrArg List.length hd
      rw [bdims_length] at this
      omega
    refine ⟨hl, fun k hk => ?_⟩
    rcases hz k hk (by omega) with h | h | h
    · exact Or.inl h
    · exact Or.inr h
    · simp at h
  · rintro ⟨hl, h⟩
    have hz : ZipOk s1 s2 true := by
      intro k h1 _
      rcases h k h1 with h3 | h3
      · exact Or.inl h3
      · exact Or.inr (Or.inl h3)
    refine ⟨hz, ?_⟩
    rw [bdims_result hz]
    have : s1.length - s2.length = 0 := by omega
    simp [this]

end SparseV

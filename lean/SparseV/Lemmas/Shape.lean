/-
  SparseV.Lemmas.Shape — index lemmas for the COO shape operations: axis permutations
  (`gather` / `invPerm`), `flipIdx`, `rollIdx`, `dropAxes` (squeeze) and `insertAt` (expand_dims).
  Each block proves: the coordinate map keeps indices in bounds and has the stated inverse.
-/
import SparseV.Model.Coo
import SparseV.Model.Gcxs
import SparseV.Lemmas.Index
import SparseV.Lemmas.Canonical
import SparseV.Lemmas.Rewrite
namespace SparseV
open COO

/-! ### `InB` component-wise -/

theorem InB_iff_getD : ∀ {i : Idx} {s : List Nat},
    InB i s ↔ i.length = s.length ∧ ∀ k, k < i.length → i.getD k 0 < s.getD k 0
  | [], [] => by simp
  | [], _ :: _ => by simp
  | _ :: _, [] => by simp
  | c :: i, d :: s => by
    rw [InB_cons, InB_iff_getD (i := i) (s := s)]
    constructor
    · rintro ⟨h0, hl, hk⟩
      refine ⟨by simp [hl], fun k hk' => ?_⟩
      cases k with
      | zero => simpa using h0
      | succ k =>
        simp only [List.getD_cons_succ]
        exact hk k (by simpa using hk')
    · rintro ⟨hl, hk⟩
      refine ⟨by simpa using hk 0 (by simp), by simpa using hl, fun k hk' => ?_⟩
      have := hk (k + 1) (by simpa using hk')
      simpa using this

theorem getD_eq_getElem (l : List Nat) {k : Nat} (h : k < l.length) : l.getD k 0 = l[k] := by
  simp [List.getD_eq_getElem?_getD, h]

/-! ### axis permutations -/

/-- the three facts a permutation of `range n` is used through -/
theorem perm_range_facts {axes : List Nat} {n : Nat} (hp : axes.Perm (List.range n)) :
    axes.length = n ∧ axes.Nodup ∧ ∀ a, a ∈ axes ↔ a < n := by
  refine ⟨by simpa using hp.length_eq, hp.nodup_iff.mpr List.nodup_range, fun a => ?_⟩
  rw [hp.mem_iff, List.mem_range]

@[simp] theorem length_gather (i axes : List Nat) : (gather i axes).length = axes.length := by
  simp [gather]

@[simp] theorem length_invPerm (p : List Nat) : (invPerm p).length = p.length := by
  simp [invPerm]

theorem getElem_gather (i axes : List Nat) {k : Nat} (h : k < (gather i axes).length) :
    (gather i axes)[k] = i.getD (axes[k]'(by simpa using h)) 0 := by
  simp [gather]

theorem getElem_invPerm (p : List Nat) {k : Nat} (h : k < (invPerm p).length) :
    (invPerm p)[k] = p.idxOf k := by
  simp [invPerm]

theorem gather_range_self (i : List Nat) : gather i (List.range i.length) = i := by
  apply List.ext_getElem
  · simp
  · intro k h1 h2
    rw [getElem_gather]
    simp only [List.getElem_range]
    exact getD_eq_getElem i h2

theorem gather_range (i : List Nat) (n : Nat) (h : i.length = n) : gather i (List.range n) = i := by
  subst h; exact gather_range_self i

/-- `i[axes][argsort axes] = i` -/
theorem gather_gather_invPerm {axes : List Nat} {n : Nat} (hp : axes.Perm (List.range n))
    {i : List Nat} (hi : i.length = n) : gather (gather i axes) (invPerm axes) = i := by
  obtain ⟨hlen, _, hmem⟩ := perm_range_facts hp
  apply List.ext_getElem
  · simp [hlen, hi]
  · intro k h1 h2
    have hk : k ∈ axes := (hmem k).mpr (hi ▸ h2)
    have hidx : axes.idxOf k < axes.length := List.idxOf_lt_length_of_mem hk
    rw [getElem_gather, getElem_invPerm, getD_eq_getElem _ (by simpa using hidx), getElem_gather]
    simp only [List.getElem_idxOf hidx]
    exact getD_eq_getElem i h2

/-- `j[argsort axes][axes] = j` -/
theorem gather_invPerm_gather {axes : List Nat} {n : Nat} (hp : axes.Perm (List.range n))
    {j : List Nat} (hj : j.length = n) : gather (gather j (invPerm axes)) axes = j := by
  obtain ⟨hlen, hnd, hmem⟩ := perm_range_facts hp
  apply List.ext_getElem
  · simp [hlen, hj]
  · intro k h1 h2
    have hk : k < axes.length := by simpa using h1
    have hak : axes[k] < n := (hmem _).mp (List.getElem_mem hk)
    rw [getElem_gather, getD_eq_getElem _ (by simpa [hlen] using hak), getElem_gather, getElem_invPerm]
    rw [hnd.idxOf_getElem k hk]
    exact getD_eq_getElem j h2

theorem InB_gather {i s axes : List Nat} (h : InB i s) (hax : ∀ a ∈ axes, a < s.length) :
    InB (gather i axes) (gather s axes) := by
  rw [InB_iff_getD] at h ⊢
  refine ⟨by simp, fun k hk => ?_⟩
  have hk' : k < axes.length := by simpa using hk
  rw [getD_eq_getElem _ hk, getD_eq_getElem _ (by simpa using hk'), getElem_gather, getElem_gather]
  exact h.2 _ (h.1 ▸ hax _ (List.getElem_mem hk'))

theorem invPerm_lt {axes : List Nat} {n : Nat} (hp : axes.Perm (List.range n)) :
    ∀ b ∈ invPerm axes, b < axes.length := by
  obtain ⟨hlen, _, hmem⟩ := perm_range_facts hp
  intro b hb
  obtain ⟨k, hk, rfl⟩ := List.mem_iff_getElem.mp hb
  rw [getElem_invPerm]
  exact List.idxOf_lt_length_of_mem ((hmem k).mpr (by simpa [hlen] using hk))

/-- a result index of the transposed shape is read from an in-bounds operand index -/
theorem InB_gather_invPerm {axes s j : List Nat} (hp : axes.Perm (List.range s.length))
    (hj : InB j (gather s axes)) : InB (gather j (invPerm axes)) s := by
  have h := InB_gather (axes := invPerm axes) hj (by simpa using invPerm_lt hp)
  rwa [gather_gather_invPerm hp rfl] at h

/-! ### the two ways of saying "`axes` is a permutation of the axis numbers" -/

theorem length_le_of_nodup_lt : ∀ (n : Nat) (l : List Nat), l.Nodup → (∀ a ∈ l, a < n) → l.length ≤ n
  | 0, [], _, _ => by simp
  | 0, a :: _, _, h => absurd (h a List.mem_cons_self) (by omega)
  | n + 1, l, hnd, h => by
    by_cases hn : n ∈ l
    · have ih := length_le_of_nodup_lt n (l.erase n) (hnd.erase n) (fun a ha => by
        have := hnd.mem_erase_iff.mp ha
        have := h a this.2
        omega)
      rw [List.length_erase_of_mem hn] at ih
      omega
    · have ih := length_le_of_nodup_lt n l hnd (fun a ha => by
        have := h a ha
        have : a ≠ n := fun e => hn (e ▸ ha)
        omega)
      omega

theorem perm_range_of_nodup : ∀ (n : Nat) (l : List Nat), l.Nodup → (∀ a ∈ l, a < n) → l.length = n →
    l.Perm (List.range n)
  | 0, l, _, _, hl => by
    have : l = [] := List.length_eq_zero_iff.mp hl
    subst this; simp
  | n + 1, l, hnd, h, hl => by
    have hn : n ∈ l := by
      apply Classical.byContradiction
      intro hn
      have := length_le_of_nodup_lt n l hnd (fun a ha => by
        have := h a ha
        have : a ≠ n := fun e => hn (e ▸ ha)
        omega)
      omega
    have ih := perm_range_of_nodup n (l.erase n) (hnd.erase n) (fun a ha => by
        have := hnd.mem_erase_iff.mp ha
        have := h a this.2
        omega) (by rw [List.length_erase_of_mem hn]; omega)
    rw [List.range_succ]
    exact (List.perm_cons_erase hn).trans ((ih.cons n).trans (List.perm_append_singleton n _).symm)

/-- `axes` is a permutation of `0..n-1` iff it has `n` distinct entries, all below `n`
(the validation `transpose` performs). -/
theorem perm_range_iff {axes : List Nat} {n : Nat} :
    axes.Perm (List.range n) ↔ axes.Nodup ∧ (∀ a ∈ axes, a < n) ∧ axes.length = n := by
  constructor
  · intro hp
    obtain ⟨h1, h2, h3⟩ := perm_range_facts hp
    exact ⟨h2, fun a ha => (h3 a).mp ha, h1⟩
  · rintro ⟨h1, h2, h3⟩
    exact perm_range_of_nodup n axes h1 h2 h3

/-! ### flip -/

@[simp] theorem length_flipIdx (s axes : List Nat) (i : Idx) : (flipIdx s axes i).length = i.length := by
  simp [flipIdx]

theorem getD_flipIdx (s axes : List Nat) (i : Idx) {k : Nat} (h : k < i.length) :
    (flipIdx s axes i).getD k 0 = if axes.contains k then s.getD k 0 - 1 - i.getD k 0 else i.getD k 0 := by
  rw [getD_eq_getElem _ (by simpa using h)]
  simp [flipIdx]

theorem InB_flipIdx {s : List Nat} (axes : List Nat) {i : Idx} (h : InB i s) : InB (flipIdx s axes i) s := by
  rw [InB_iff_getD] at h ⊢
  refine ⟨by simpa using h.1, fun k hk => ?_⟩
  have hk' : k < i.length := by simpa using hk
  have := h.2 k hk'
  rw [getD_flipIdx _ _ _ hk']
  split <;> omega

/-- flipping twice is the identity on in-bounds indices -/
theorem flipIdx_flipIdx {s : List Nat} (axes : List Nat) {i : Idx} (h : InB i s) :
    flipIdx s axes (flipIdx s axes i) = i := by
  have hb := (InB_iff_getD.mp h).2
  apply List.ext_getElem
  · simp
  · intro k h1 h2
    rw [← getD_eq_getElem _ h1, ← getD_eq_getElem _ h2, getD_flipIdx _ _ _ (by simpa using h2),
      getD_flipIdx _ _ _ h2]
    have := hb k h2
    split <;> omega

/-! ### roll -/

/-- one (axis, shift) pair of `roll`: `c ↦ (c + s) % n` on that axis -/
def rollStep (shape : List Nat) (acc : Idx) (p : Nat × Int) : Idx :=
  acc.set p.1 (((acc.getD p.1 0 : Int) + p.2) % ((shape.getD p.1 0 : Nat) : Int)).toNat

theorem rollIdx_eq_foldl (shape axes : List Nat) (shifts : List Int) (i : Idx) :
    rollIdx shape axes shifts i = (List.zip axes shifts).foldl (rollStep shape) i := rfl

theorem getD_set (l : List Nat) (a v k : Nat) (hk : k < l.length) :
    (l.set a v).getD k 0 = if a = k then v else l.getD k 0 := by
  simp only [List.getD_eq_getElem?_getD, List.getElem?_set]
  by_cases h : a = k
  · subst h; simp [hk]
  · simp [h]

theorem InB_rollStep {s : List Nat} {i : Idx} (p : Nat × Int) (h : InB i s) : InB (rollStep s i p) s := by
  rw [InB_iff_getD] at h ⊢
  unfold rollStep
  refine ⟨by simpa using h.1, fun k hk => ?_⟩
  have hk' : k < i.length := by simpa using hk
  rw [getD_set _ _ _ _ hk']
  have hb := h.2 k hk'
  by_cases ha : p.1 = k
  · rw [if_pos ha, ha]
    have hpos : (0 : Int) < ((s.getD k 0 : Nat) : Int) := by omega
    have h1 := Int.emod_lt_of_pos ((i.getD k 0 : Int) + p.2) hpos
    have h2 := Int.emod_nonneg ((i.getD k 0 : Int) + p.2) (Int.ne_of_gt hpos)
    omega
  · rw [if_neg ha]; exact hb

/-- rolling an axis by `s` and then by `-s` is the identity on in-bounds indices -/
theorem rollStep_inv {s : List Nat} {i : Idx} (a : Nat) (sh : Int) (h : InB i s) :
    rollStep s (rollStep s i (a, sh)) (a, -sh) = i := by
  have hb := (InB_iff_getD.mp h).2
  unfold rollStep
  by_cases ha : a < i.length
  · have hc := hb a ha
    simp only [getD_set _ _ _ _ ha, if_true, List.set_set]
    have hpos : (0 : Int) < ((s.getD a 0 : Nat) : Int) := by omega
    have h2 := Int.emod_nonneg ((i.getD a 0 : Int) + sh) (Int.ne_of_gt hpos)
    rw [Int.toNat_of_nonneg h2, Int.emod_add_emod, Int.add_neg_cancel_right,
      Int.emod_eq_of_lt (by omega) (by omega), Int.toNat_natCast, getD_eq_getElem _ ha]
    exact List.set_getElem_self ha
  · have hle : i.length ≤ a := by omega
    rw [List.set_eq_of_length_le (by simpa using hle), List.set_eq_of_length_le hle]

theorem InB_foldl_rollStep {s : List Nat} (ps : List (Nat × Int)) {i : Idx} (h : InB i s) :
    InB (ps.foldl (rollStep s) i) s := by
  induction ps generalizing i with
  | nil => exact h
  | cons p ps ih => exact ih (InB_rollStep p h)

/-- the inverse of a composition of steps is the reversed composition of the inverse steps -/
theorem foldl_rollStep_inv {s : List Nat} (ps : List (Nat × Int)) {i : Idx} (h : InB i s) :
    (ps.reverse.map fun p => (p.1, -p.2)).foldl (rollStep s) (ps.foldl (rollStep s) i) = i := by
  induction ps generalizing i with
  | nil => rfl
  | cons p ps ih =>
    simp only [List.reverse_cons, List.map_append, List.foldl_append, List.foldl_cons, List.map_cons,
      List.map_nil, List.foldl_nil]
    rw [ih (InB_rollStep p h)]
    exact rollStep_inv p.1 p.2 h

theorem zip_reverse_neg {axes : List Nat} {shifts : List Int} (hl : axes.length = shifts.length) :
    List.zip axes.reverse (shifts.reverse.map fun s => -s)
      = (List.zip axes shifts).reverse.map fun p => (p.1, -p.2) := by
  rw [List.zip_map_right, List.zip_eq_zipWith, List.zip_eq_zipWith, ← List.reverse_zipWith hl]
  rfl

theorem InB_rollIdx {s : List Nat} (axes : List Nat) (shifts : List Int) {i : Idx} (h : InB i s) :
    InB (rollIdx s axes shifts i) s := InB_foldl_rollStep _ h

/-- un-rolling after rolling -/
theorem rollIdx_inv_left {s axes : List Nat} {shifts : List Int} (hl : axes.length = shifts.length)
    {i : Idx} (h : InB i s) :
    rollIdx s axes.reverse (shifts.reverse.map fun s => -s) (rollIdx s axes shifts i) = i := by
  rw [rollIdx_eq_foldl, rollIdx_eq_foldl, zip_reverse_neg hl]
  exact foldl_rollStep_inv _ h

/-- rolling after un-rolling -/
theorem rollIdx_inv_right {s axes : List Nat} {shifts : List Int} (hl : axes.length = shifts.length)
    {j : Idx} (h : InB j s) :
    rollIdx s axes shifts (rollIdx s axes.reverse (shifts.reverse.map fun s => -s) j) = j := by
  rw [rollIdx_eq_foldl, rollIdx_eq_foldl, zip_reverse_neg hl]
  have := foldl_rollStep_inv ((List.zip axes shifts).reverse.map fun p => (p.1, -p.2)) h
  simpa [List.map_reverse, Function.comp_def] using this

/-! ### squeeze -/

/-- `dropAxes` by structural recursion: `a` is the axis number of the head -/
def dropFrom (axes : List Nat) : Nat → List Nat → List Nat
  | _, [] => []
  | a, c :: l => if axes.contains a then dropFrom axes (a + 1) l else c :: dropFrom axes (a + 1) l

/-- put a 0 coordinate back at every squeezed axis; the recursion runs over the operand shape -/
def reinsertFrom (axes : List Nat) : Nat → List Nat → Idx → Idx
  | _, [], _ => []
  | a, _ :: s, j =>
    if axes.contains a then 0 :: reinsertFrom axes (a + 1) s j
    else j.headD 0 :: reinsertFrom axes (a + 1) s j.tail

/-- the operand index read by result index `j` of `squeeze`: 0 at the squeezed axes, `j` elsewhere -/
def unsqueezeIdx (shape axes : List Nat) (j : Idx) : Idx := reinsertFrom axes 0 shape j

theorem dropFrom_cons_pos {axes : List Nat} {a : Nat} (h : axes.contains a = true) (c : Nat) (l : List Nat) :
    dropFrom axes a (c :: l) = dropFrom axes (a + 1) l := by
  simp only [dropFrom, h, if_true]

theorem dropFrom_cons_neg {axes : List Nat} {a : Nat} (h : axes.contains a = false) (c : Nat) (l : List Nat) :
    dropFrom axes a (c :: l) = c :: dropFrom axes (a + 1) l := by
  simp only [dropFrom, h, Bool.false_eq_true, if_false]

theorem reinsertFrom_cons_pos {axes : List Nat} {a : Nat} (h : axes.contains a = true) (d : Nat)
    (s : List Nat) (j : Idx) : reinsertFrom axes a (d :: s) j = 0 :: reinsertFrom axes (a + 1) s j := by
  simp only [reinsertFrom, h, if_true]

theorem reinsertFrom_cons_neg {axes : List Nat} {a : Nat} (h : axes.contains a = false) (d : Nat)
    (s : List Nat) (j : Idx) :
    reinsertFrom axes a (d :: s) j = j.headD 0 :: reinsertFrom axes (a + 1) s j.tail := by
  simp only [reinsertFrom, h, Bool.false_eq_true, if_false]

theorem filterMap_congr_mem {β γ : Type} {f g : β → Option γ} : ∀ {l : List β},
    (∀ x ∈ l, f x = g x) → l.filterMap f = l.filterMap g
  | [], _ => rfl
  | x :: l, h => by
    rw [List.filterMap_cons, List.filterMap_cons, h x List.mem_cons_self,
      filterMap_congr_mem (l := l) fun y hy => h y (List.mem_cons_of_mem _ hy)]

theorem filterMap_range'_dropFrom (axes : List Nat) : ∀ (l : List Nat) (a : Nat),
    ((List.range' a l.length).filterMap fun b => if axes.contains b then none else some (l.getD (b - a) 0))
      = dropFrom axes a l
  | [], _ => by simp [dropFrom]
  | c :: l, a => by
    have ih := filterMap_range'_dropFrom axes l (a + 1)
    have hcongr : ((List.range' (a + 1) l.length).filterMap fun b =>
          if axes.contains b then none else some ((c :: l).getD (b - a) 0))
        = (List.range' (a + 1) l.length).filterMap fun b =>
          if axes.contains b then none else some (l.getD (b - (a + 1)) 0) := by
      apply filterMap_congr_mem
      intro b hb
      have hb' : a + 1 ≤ b := (List.mem_range'_1.mp hb).1
      have : b - a = (b - (a + 1)) + 1 := by omega
      rw [this, List.getD_cons_succ]
    rw [List.length_cons, List.range'_succ, List.filterMap_cons, hcongr, ih]
    cases hc : axes.contains a with
    | true => rw [dropFrom_cons_pos hc]; simp
    | false => rw [dropFrom_cons_neg hc]; simp

theorem dropAxes_eq_dropFrom (l axes : List Nat) : dropAxes l axes = dropFrom axes 0 l := by
  unfold dropAxes
  rw [List.range_eq_range', ← filterMap_range'_dropFrom axes l 0]
  simp

/-- re-inserting after dropping gives the index back, when every dropped axis has extent 1 -/
theorem reinsertFrom_dropFrom (axes : List Nat) : ∀ (s : List Nat) (a : Nat) (i : Idx), InB i s →
    (∀ k, k < s.length → axes.contains (a + k) = true → s.getD k 0 = 1) →
    reinsertFrom axes a s (dropFrom axes a i) = i
  | [], _, [], _, _ => rfl
  | [], _, _ :: _, h, _ => absurd h (by simp)
  | _ :: _, _, [], h, _ => absurd h (by simp)
  | d :: s, a, c :: i, h, hone => by
    have ih := reinsertFrom_dropFrom axes s (a + 1) i h.2 (fun k hk hc => by
      have := hone (k + 1) (by simpa using hk) (by rwa [← Nat.add_assoc, Nat.add_right_comm])
      simpa using this)
    cases hc : axes.contains a with
    | true =>
      have hd : d = 1 := by simpa using hone 0 (by simp) (by simpa using hc)
      have hc0 : c = 0 := by have := h.1; omega
      rw [dropFrom_cons_pos hc, reinsertFrom_cons_pos hc, ih, hc0]
    | false =>
      rw [dropFrom_cons_neg hc, reinsertFrom_cons_neg hc, List.headD_cons, List.tail_cons, ih]

/-- dropping after re-inserting gives the result index back -/
theorem dropFrom_reinsertFrom (axes : List Nat) : ∀ (s : List Nat) (a : Nat) (j : Idx),
    InB j (dropFrom axes a s) → dropFrom axes a (reinsertFrom axes a s j) = j
  | [], _, j, h => by
    cases j with
    | nil => rfl
    | cons _ _ => exact absurd h (by simp [dropFrom])
  | d :: s, a, j, h => by
    cases hc : axes.contains a with
    | true =>
      rw [dropFrom_cons_pos hc] at h
      rw [reinsertFrom_cons_pos hc, dropFrom_cons_pos hc]
      exact dropFrom_reinsertFrom axes s (a + 1) j h
    | false =>
      rw [dropFrom_cons_neg hc] at h
      cases j with
      | nil => exact absurd h (by simp)
      | cons c j =>
        rw [reinsertFrom_cons_neg hc, dropFrom_cons_neg hc, List.headD_cons, List.tail_cons,
          dropFrom_reinsertFrom axes s (a + 1) j h.2]

/-- the re-inserted index is inside the operand shape -/
theorem InB_reinsertFrom (axes : List Nat) : ∀ (s : List Nat) (a : Nat) (j : Idx),
    InB j (dropFrom axes a s) →
    (∀ k, k < s.length → axes.contains (a + k) = true → s.getD k 0 = 1) →
    InB (reinsertFrom axes a s j) s
  | [], _, _, _, _ => by simp [reinsertFrom]
  | d :: s, a, j, h, hone => by
    have hone' : ∀ k, k < s.length → axes.contains (a + 1 + k) = true → s.getD k 0 = 1 := fun k hk hc => by
      have := hone (k + 1) (by simpa using hk) (by rwa [← Nat.add_assoc, Nat.add_right_comm])
      simpa using this
    cases hc : axes.contains a with
    | true =>
      have hd : d = 1 := by simpa using hone 0 (by simp) (by simpa using hc)
      rw [dropFrom_cons_pos hc] at h
      rw [reinsertFrom_cons_pos hc, InB_cons]
      exact ⟨by omega, InB_reinsertFrom axes s (a + 1) j h hone'⟩
    | false =>
      rw [dropFrom_cons_neg hc] at h
      cases j with
      | nil => exact absurd h (by simp)
      | cons c j =>
        rw [reinsertFrom_cons_neg hc, List.headD_cons, List.tail_cons, InB_cons]
        exact ⟨h.1, InB_reinsertFrom axes s (a + 1) j h.2 hone'⟩

theorem ones_shift {s axes : List Nat} (hone : ∀ a ∈ axes, s.getD a 0 = 1) :
    ∀ k, k < s.length → axes.contains (0 + k) = true → s.getD k 0 = 1 := by
  intro k _ hc
  rw [Nat.zero_add] at hc
  exact hone k (by simpa using hc)

theorem unsqueeze_dropAxes {s axes : List Nat} {i : Idx} (h : InB i s) (hone : ∀ a ∈ axes, s.getD a 0 = 1) :
    unsqueezeIdx s axes (dropAxes i axes) = i := by
  rw [dropAxes_eq_dropFrom]
  exact reinsertFrom_dropFrom axes s 0 i h (ones_shift hone)

theorem dropAxes_unsqueeze {s axes : List Nat} {j : Idx} (h : InB j (dropAxes s axes)) :
    dropAxes (unsqueezeIdx s axes j) axes = j := by
  rw [dropAxes_eq_dropFrom] at h ⊢
  exact dropFrom_reinsertFrom axes s 0 j h

theorem InB_unsqueeze {s axes : List Nat} {j : Idx} (h : InB j (dropAxes s axes))
    (hone : ∀ a ∈ axes, s.getD a 0 = 1) : InB (unsqueezeIdx s axes j) s := by
  rw [dropAxes_eq_dropFrom] at h
  exact InB_reinsertFrom axes s 0 j h (ones_shift hone)

/-! ### expand_dims -/

@[simp] theorem insertAt_zero (l : List Nat) (v : Nat) : insertAt l 0 v = v :: l := by simp [insertAt]
@[simp] theorem insertAt_cons_succ (c : Nat) (l : List Nat) (pos v : Nat) :
    insertAt (c :: l) (pos + 1) v = c :: insertAt l pos v := by simp [insertAt]

theorem eraseIdx_insertAt : ∀ (pos : Nat) (i : List Nat) (v : Nat), pos ≤ i.length →
    (insertAt i pos v).eraseIdx pos = i
  | 0, i, v, _ => by simp
  | pos + 1, [], _, h => by simp at h
  | pos + 1, c :: i, v, h => by
    simp [eraseIdx_insertAt pos i v (by simpa using h)]

theorem InB_insertAt : ∀ (pos : Nat) {j s : List Nat}, InB j s → pos ≤ s.length →
    InB (insertAt j pos 0) (insertAt s pos 1)
  | 0, j, s, h, _ => by simpa using h
  | pos + 1, [], [], _, hp => by simp at hp
  | pos + 1, c :: j, d :: s, h, hp => by
    simp only [insertAt_cons_succ, InB_cons]
    exact ⟨h.1, InB_insertAt pos h.2 (by simpa using hp)⟩
  | pos + 1, [], _ :: _, h, _ => absurd h (by simp)
  | pos + 1, _ :: _, [], h, _ => absurd h (by simp)

/-- every in-bounds index of the expanded shape is an operand index with a 0 inserted -/
theorem InB_insertAt_surj : ∀ (pos : Nat) (s : List Nat) (k : Idx), pos ≤ s.length →
    InB k (insertAt s pos 1) → ∃ j, InB j s ∧ k = insertAt j pos 0
  | 0, s, [], _, h => by simp at h
  | 0, s, c :: k, _, h => by
    simp only [insertAt_zero, InB_cons] at h
    exact ⟨k, h.2, by simp; omega⟩
  | pos + 1, [], _, hp, _ => by simp at hp
  | pos + 1, d :: s, [], _, h => by simp at h
  | pos + 1, d :: s, c :: k, hp, h => by
    simp only [insertAt_cons_succ, InB_cons] at h
    obtain ⟨j, hj, hk⟩ := InB_insertAt_surj pos s k (by simpa using hp) h.2
    exact ⟨c :: j, ⟨h.1, hj⟩, by simp [hk]⟩

/-! ### canonical order after "rewrite the coordinates, then sort" -/

/-- Sorting the image of distinct in-bounds indices under a coordinate map that is injective on
them (witnessed by the back-map `h`) and lands inside `shape'` gives strictly increasing linear
locations.  (Same statement as `SparseV.C06.sorted_rewrite_canonical`; kept here so that the shape
properties do not depend on the C06 property file.) -/
theorem COO.sortEntries_rewrite_sortedLin {α : Type} (shape' : List Nat) (es : List (Idx × α))
    (g : Idx → Option Idx) (h : Idx → Idx)
    (hinv : ∀ e ∈ es, ∀ j', g e.1 = some j' → h j' = e.1) (hnd : (keysOf es).Nodup)
    (hin : ∀ e ∈ es, ∀ j', g e.1 = some j' → InB j' shape') :
    SortedLin shape' (sortEntries shape' (rewrite g es)) := by
  apply sortedLin_of_le_nodup shape' _ (sortEntries_sortedLe shape' _)
  · exact nodup_sortEntries shape' _ (rewrite_nodup es g h hinv hnd)
  · intro e he
    have he' := mem_sortEntries.mp he
    unfold rewrite at he'
    obtain ⟨e0, he0, hmap⟩ := List.mem_filterMap.mp he'
    cases hg : g e0.1 with
    | none => simp [hg] at hmap
    | some k =>
      simp only [hg, Option.map_some, Option.some.injEq] at hmap
      rw [← hmap]
      exact hin e0 he0 k hg

end SparseV

/-
  SparseV.Lemmas.Npz — helper lemmas for property C14 (core Lean only).
-/
import SparseV.Model.Npz
namespace SparseV.Npz
variable {α : Type}

/-! ### constructors on well-formed arguments -/

theorem replicate_of_all_nil : ∀ (l : List (List Int)) (n : Nat), l.length = n → (∀ r ∈ l, r.length = 0) →
    l = List.replicate n []
  | [], n, h, _ => by subst h; rfl
  | r :: rest, n, h, hall => by
    subst h
    have hr : r = [] := List.length_eq_zero_iff.mp (hall r (by simp))
    have := replicate_of_all_nil rest rest.length rfl (fun q hq => hall q (by simp [hq]))
    simp [List.replicate_succ, hr, ← this]

theorem fixCoords_wf (s : List Int) (c : Mat) (hs : s ≠ []) (hc : c.WF) (hn : c.nrows = s.length) :
    fixCoords s c = c := by
  unfold fixCoords
  split
  · rename_i h
    have hpos : 0 < s.length := List.length_pos_iff.mpr hs
    have h0 : c.ncols = 0 := by
      rcases Nat.mul_eq_zero.mp h.2 with h1 | h1
      · omega
      · exact h1
    obtain ⟨hl, hr⟩ := hc
    have := replicate_of_all_nil c.rows c.nrows hl (fun r hr' => by rw [hr r hr', h0])
    cases c with
    | mk nr nc rows =>
      simp only [Mat.empty] at *
      subst h0
      subst this
      simp [hn]
  · rfl

theorem all_nonneg (s : List Int) (h : ∀ e ∈ s, 0 ≤ e) : (s.all fun e => decide (0 ≤ e)) = true := by
  simp only [List.all_eq_true, decide_eq_true_eq]
  exact h

theorem cooCtor_wf (axesOk : List Int → Bool) (s : List Int) (c : Mat) (d : List α) (f : α)
    (hwf : (Arr.coo s c d f).WF axesOk) : cooCtor c d s f = .ok (Arr.coo s c d f) := by
  obtain ⟨hnn, hrest⟩ := hwf
  unfold cooCtor
  by_cases hs : s = []
  · subst hs
    simp [fixCoords]
  · obtain ⟨hc, hn, hd⟩ := hrest hs
    simp only [fixCoords_wf s c hs hc hn, all_nonneg s hnn]
    simp [hs, hn, hd]

/-! ### fetchAll -/

theorem fetchAll_ok_lookup {m : Members α} : ∀ {req : List String} {f : Members α},
    fetchAll m req = .ok f →
    (∀ k ∈ req, ∃ p, lookup m k = some p ∧ p ≠ .object) ∧ (∀ k p, lookup f k = some p → lookup m k = some p)
  | [], f, h => by
    simp only [fetchAll, Except.ok.injEq] at h
    subst h
    simp [lookup]
  | k :: ks, f, h => by
    unfold fetchAll at h
    split at h
    · exact absurd h (by simp)
    · exact absurd h (by simp)
    · rename_i p hno hp
      split at h
      · rename_i r hr
        simp only [Except.ok.injEq] at h
        subst h
        obtain ⟨ih1, ih2⟩ := fetchAll_ok_lookup hr
        refine ⟨?_, ?_⟩
        · intro k' hk'
          rcases List.mem_cons.mp hk' with rfl | hk'
          · exact ⟨p, hp, hno⟩
          · exact ih1 k' hk'
        · intro k' p' hl
          unfold lookup at hl
          split at hl
          · rename_i heq
            subst heq
            simp only [Option.some.injEq] at hl
            subst hl
            exact hp
          · exact ih2 k' p' hl
      · exact absurd h (by simp)

theorem fetchAll_sub {m m' : Members α} : ∀ {req : List String} {f : Members α},
    (∀ k ∈ req, lookup m' k = none ∨ lookup m' k = lookup m k) → fetchAll m' req = .ok f → fetchAll m req = .ok f
  | [], f, _, h => by simpa [fetchAll] using h
  | k :: ks, f, hsub, h => by
    unfold fetchAll at h
    split at h
    · exact absurd h (by simp)
    · exact absurd h (by simp)
    · rename_i p hno hp
      split at h
      · rename_i r hr
        have hk : lookup m k = some p := by
          rcases hsub k (by simp) with h0 | h0
          · rw [hp] at h0; exact absurd h0 (by simp)
          · rw [← h0, hp]
        have ih := fetchAll_sub (fun k' hk' => hsub k' (by simp [hk'])) hr
        unfold fetchAll
        simp only [hk, ih]
        exact h
      · exact absurd h (by simp)

theorem loadFrom_ok_branch {axesOk : List Int → Bool} {m : Members α} {y : Arr α} :
    ∀ {brs : List (String × List String)}, loadFrom axesOk m brs = .ok y →
    ∃ b ∈ brs, ∃ f, fetchAll m b.2 = .ok f ∧ construct axesOk b.1 f = .ok y
  | [], h => by simp [loadFrom] at h
  | (cls, req) :: rest, h => by
    unfold loadFrom at h
    split at h
    · rename_i f hf
      exact ⟨(cls, req), by simp, f, hf, h⟩
    · obtain ⟨b, hb, f, hf, hc⟩ := loadFrom_ok_branch h
      exact ⟨b, by simp [hb], f, hf, hc⟩
    · exact absurd h (by simp)

/-- a member map that agrees with `m` wherever it has one of the names `load_npz` asks for loads the same
array as `m` or nothing, provided `m` is decisive -/
theorem loadFrom_sub {axesOk : List Int → Bool} {m m' : Members α} {y : Arr α} :
    ∀ {brs : List (String × List String)}, Decisive m brs →
    (∀ k ∈ brs.flatMap (·.2), lookup m' k = none ∨ lookup m' k = lookup m k) →
    loadFrom axesOk m' brs = .ok y → loadFrom axesOk m brs = .ok y
  | [], _, _, h => by simp [loadFrom] at h
  | (cls, req) :: rest, hdec, hsub, h => by
    obtain ⟨hd1, hd2⟩ := hdec
    have hsub1 : ∀ k ∈ req, lookup m' k = none ∨ lookup m' k = lookup m k :=
      fun k hk => hsub k (by simp [List.flatMap_cons, hk])
    have hsub2 : ∀ k ∈ rest.flatMap (·.2), lookup m' k = none ∨ lookup m' k = lookup m k :=
      fun k hk => hsub k (by simp only [List.flatMap_cons, List.mem_append]; exact Or.inr hk)
    unfold loadFrom at h
    split at h
    · rename_i f hf
      unfold loadFrom
      simp only [fetchAll_sub hsub1 hf]
      exact h
    · have ih := loadFrom_sub hd2 hsub2 h
      obtain ⟨b, hb, f, hf, _⟩ := loadFrom_ok_branch h
      have hpres : ∀ k ∈ b.2, lookup m k ≠ none := by
        intro k hk
        obtain ⟨p, hp, _⟩ := (fetchAll_ok_lookup hf).1 k hk
        rcases hsub2 k (List.mem_flatMap.mpr ⟨b, hb, hk⟩) with h0 | h0
        · rw [hp] at h0; exact absurd h0 (by simp)
        · rw [← h0, hp]; simp
      have hkey := hd1 ⟨b, hb, hpres⟩
      unfold loadFrom
      simp only [hkey]
      exact ih
    · exact absurd h (by simp)

/-! ### integer widths -/

theorem wrap_of_fits (t : IntTy) (v : Int) (h : t.fits v) : t.wrap v = v := by
  unfold IntTy.fits at h
  unfold IntTy.wrap
  split
  · rename_i hs
    simp only [hs, if_true] at h
    have : (v + t.half) % (2 * t.half) = v + t.half := Int.emod_eq_of_lt (by omega) (by omega)
    omega
  · rename_i hs
    simp only [hs] at h
    exact Int.emod_eq_of_lt h.1 h.2

theorem nativeShape_of_fits (t : IntTy) (s : List Int) (h : ∀ e ∈ s, t.fits e) : nativeShape t s = s := by
  unfold nativeShape
  split
  · calc s.map t.wrap = s.map id := List.map_congr_left (fun e he => wrap_of_fits t e (h e he))
      _ = s := List.map_id s
  · rfl

/-! ### facts about the generated tables -/

/-- what `save_npz` writes for a GCXS array whose class the dispatch accepts -/
theorem writeList_gcxs (e : Bool) (s : List Int) (d : List α) (i p : List Int) (ca : Option (List Int)) (f : α)
    (h : e = true ∨ gcxsExactTest = false) :
    writeList (Arr.gcxs e s d i p ca f) =
      [("data", "data"), ("shape", "shape"), ("fill_value", "fill_value"), ("indices", "indices"),
       ("indptr", "indptr"), ("compressed_axes", "compressed_axes")] := by
  cases e <;>
    simp [gcxsExactTest, writeList, Gen.npzCommon, Gen.npzWrite, branchMatches, Arr.clsName, Arr.exact] at h ⊢

/-- everything `save_npz` writes is decisive: the `try` blocks of `load_npz` cannot confuse the formats -/
theorem save_decisive (x : Arr α) (m : Members α) (hs : save x = .ok m) : Decisive m Gen.npzRequire := by
  cases x with
  | coo s c d f =>
    simp [save, writeList, Gen.npzCommon, Gen.npzWrite, branchMatches, Arr.clsName, Arr.exact, collect, Arr.attr] at hs
    subst hs
    simp [Decisive, Gen.npzRequire, lookup]
  | gcxs e s d i p ca f =>
    by_cases hcls : e = true ∨ gcxsExactTest = false
    · have hw := writeList_gcxs e s d i p ca f hcls
      simp [save, hw, collect, Arr.attr] at hs
      subst hs
      simp only [Decisive, Gen.npzRequire]
      refine ⟨fun _ => ?_, fun h => ?_, trivial⟩
      · simp [fetchAll, lookup]
      · simp at h
    · have he : e = false := by cases e; rfl; exact absurd (Or.inl rfl) hcls
      have hg : gcxsExactTest = true := by cases hg : gcxsExactTest; exact absurd (Or.inr hg) hcls; rfl
      subst he
      have hw : writeList (Arr.gcxs false s d i p ca f) = [("data", "data"), ("shape", "shape"), ("fill_value", "fill_value")] := by
        revert hg
        simp [gcxsExactTest, writeList, Gen.npzCommon, Gen.npzWrite, branchMatches, Arr.clsName, Arr.exact]
      simp [save, hw, collect, Arr.attr] at hs
      subst hs
      simp [Decisive, Gen.npzRequire, lookup, fetchAll]

end SparseV.Npz
